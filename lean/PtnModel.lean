import PtnModel.Model.Basic

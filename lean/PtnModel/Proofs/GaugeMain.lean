import PtnModel.Proofs.GaugeTables
/-!
# Gauge transform on the tables of `MolecularOpGraphNodes(L)`: all look-ups are defined and the result is unitary, every `L`

`h` is any record whose node tables are those of `MolecularOpGraphNodes(L)`, with `nsites = L` and a `nid_map` / `bond_dims`
satisfying the bookkeeping predicate `GaugeH.wf`.

* `sideHyp_of_wf`  : in-range and injectivity of the `nid_map` look-ups (from `wf` and `get2_inj`);
* `sideDefs_right`, `sideDefs_left`: whenever a membership test of the Python text succeeds, the look-ups that follow it hit existing
  table entries (index arithmetic on the ranges of `__init__`, `0 ≤ i < L - 1`) and existing `nid_map` keys (`wf`);
* `gaugeTransform_ok`: for unitary `u` the function returns `(v_l, v_r)`, both square of the bond sizes and unitary.
-/
set_option linter.unusedSectionVars false
set_option linter.unusedVariables false

namespace Ptn.Ham.Gauge
open Ptn.Og List

theorem tableAt_nil (n : MolNodes) (a : Nat) (ha : 10 ≤ a) : tableAt n a = [] := by
  unfold tableAt
  rw [List.getD_eq_getElem?_getD, List.getElem?_eq_none (by simp; omega)]
  rfl

/-- a record with the node tables of `MolecularOpGraphNodes(L)` -/
abbrev mkH (ns : Nat) (bd : List Nat) (nm : List (Int × (Nat × Nat))) (L : Int) : GaugeH := ⟨ns, bd, nm, MolNodes.init L⟩

section
variable (ns : Nat) (bd : List Nat) (nm : List (Int × (Nat × Nat))) (L : Int)

theorem colOf_inv {off : Nat} {kk : Int} {t : Tag} {j : Nat}
    (e : colOf (mkH ns bd nm L) (fun a => tableAt (MolNodes.init L) (a + off)) kk t = some j) :
    GaugeH.tabCol (mkH ns bd nm L) (tableAt (MolNodes.init L) (t.1 + off)) t.2 kk = .ok j := by
  unfold colOf at e
  simp only at e
  split at e
  · next j' hj => simp only [Option.some.injEq] at e; rw [← e]; exact hj
  · cases e

theorem col_facts (hwf : GaugeH.wf (mkH ns bd nm L) = true) {off : Nat} {kk : Int} {t : Tag} {j : Nat}
    (e : colOf (mkH ns bd nm L) (fun a => tableAt (MolNodes.init L) (a + off)) kk t = some j) :
    ∃ nd, (tableAt (MolNodes.init L) (t.1 + off)).get2 t.2 kk = .ok nd ∧ nm.lookup nd.nid = some (kk.toNat, j) ∧
      j < bd.getD kk.toNat 0 := by
  have e1 := colOf_inv ns bd nm L e
  obtain ⟨nd, s, hg, hl⟩ := tabCol_ok_inv _ _ _ _ _ e1
  have ha : t.1 + off < 10 := by
    by_contra hc
    rw [tableAt_nil _ _ (by omega)] at hg
    exact get2_nil _ _ _ hg
  obtain ⟨j', e2, hl', _, hlt⟩ := tabCol_of_wf (mkH ns bd nm L) hwf (t.1 + off) ha t.2 kk nd hg
  have : j' = j := by
    have := e2.symm.trans e1
    simpa using this
  subst this
  exact ⟨nd, hg, hl', hlt⟩

/-- in-range and injectivity of the `nid_map` look-ups of one half of the function -/
theorem sideHyp_of_wf (hwf : GaugeH.wf (mkH ns bd nm L) = true) (off : Nat) (kk : Int) (dim : Nat) (hdim : bd.getD kk.toNat 0 = dim) :
    SideHyp (mkH ns bd nm L) (fun a => tableAt (MolNodes.init L) (a + off)) kk dim := by
  constructor
  · intro t j e
    obtain ⟨nd, _, _, hlt⟩ := col_facts ns bd nm L hwf e
    rw [← hdim]; exact hlt
  · intro t t' j e e'
    obtain ⟨nd, hg, hl, _⟩ := col_facts ns bd nm L hwf e
    obtain ⟨nd', hg', hl', _⟩ := col_facts ns bd nm L hwf e'
    have hn := nidMap_inj (mkH ns bd nm L) hwf nd.nid nd'.nid _ hl hl'
    obtain ⟨h1, h2, _⟩ := get2_inj L _ _ _ _ _ _ _ _ hg hg' hn
    exact Prod.ext (by omega) h2

/-- the look-ups following a successful membership test: two keys -/
theorem defs2 (hwf : GaugeH.wf (mkH ns bd nm L) = true) (a : Nat) (ha : a < 10) (key0 key1 : List Int) (kk : Int)
    (hh : famHas (tableAt (MolNodes.init L) a) key0 kk = true)
    (h1 : ∃ nd, (tableAt (MolNodes.init L) a).get2 key1 kk = .ok nd) :
    ∃ j0 j1, GaugeH.tabCol (mkH ns bd nm L) (tableAt (MolNodes.init L) a) key0 kk = .ok j0 ∧
      GaugeH.tabCol (mkH ns bd nm L) (tableAt (MolNodes.init L) a) key1 kk = .ok j1 := by
  obtain ⟨nd0, g0⟩ := famHas_get2 _ _ _ hh
  obtain ⟨nd1, g1⟩ := h1
  obtain ⟨j0, e0, _⟩ := tabCol_of_wf (mkH ns bd nm L) hwf a ha key0 kk nd0 g0
  obtain ⟨j1, e1, _⟩ := tabCol_of_wf (mkH ns bd nm L) hwf a ha key1 kk nd1 g1
  exact ⟨j0, j1, e0, e1⟩

/-- one key -/
theorem defs1 (hwf : GaugeH.wf (mkH ns bd nm L) = true) (a : Nat) (ha : a < 10) (key : List Int) (kk : Int)
    (hh : famHas (tableAt (MolNodes.init L) a) key kk = true) :
    ∃ j, GaugeH.tabCol (mkH ns bd nm L) (tableAt (MolNodes.init L) a) key kk = .ok j := by
  obtain ⟨nd0, g0⟩ := famHas_get2 _ _ _ hh
  obtain ⟨j0, e0, _⟩ := tabCol_of_wf (mkH ns bd nm L) hwf a ha key kk nd0 g0
  exact ⟨j0, e0⟩

/-- four keys -/
theorem defs4 (hwf : GaugeH.wf (mkH ns bd nm L) = true) (a : Nat) (ha : a < 10) (k0 k1 k2 k3 : List Int) (kk : Int)
    (h0 : ∃ nd, (tableAt (MolNodes.init L) a).get2 k0 kk = .ok nd) (h1 : ∃ nd, (tableAt (MolNodes.init L) a).get2 k1 kk = .ok nd)
    (h2 : ∃ nd, (tableAt (MolNodes.init L) a).get2 k2 kk = .ok nd) (h3 : ∃ nd, (tableAt (MolNodes.init L) a).get2 k3 kk = .ok nd) :
    ∃ j0 j1 j2 j3, GaugeH.tabCol (mkH ns bd nm L) (tableAt (MolNodes.init L) a) k0 kk = .ok j0 ∧
      GaugeH.tabCol (mkH ns bd nm L) (tableAt (MolNodes.init L) a) k1 kk = .ok j1 ∧
      GaugeH.tabCol (mkH ns bd nm L) (tableAt (MolNodes.init L) a) k2 kk = .ok j2 ∧
      GaugeH.tabCol (mkH ns bd nm L) (tableAt (MolNodes.init L) a) k3 kk = .ok j3 := by
  obtain ⟨n0, g0⟩ := h0
  obtain ⟨n1, g1⟩ := h1
  obtain ⟨n2, g2⟩ := h2
  obtain ⟨n3, g3⟩ := h3
  obtain ⟨j0, e0, _⟩ := tabCol_of_wf (mkH ns bd nm L) hwf a ha k0 kk n0 g0
  obtain ⟨j1, e1, _⟩ := tabCol_of_wf (mkH ns bd nm L) hwf a ha k1 kk n1 g1
  obtain ⟨j2, e2, _⟩ := tabCol_of_wf (mkH ns bd nm L) hwf a ha k2 kk n2 g2
  obtain ⟨j3, e3, _⟩ := tabCol_of_wf (mkH ns bd nm L) hwf a ha k3 kk n3 g3
  exact ⟨j0, j1, j2, j3, e0, e1, e2, e3⟩

theorem single1 {x y : Int} (e : ([x] : List Int) = [y]) : y = x := by
  simp at e; exact e.symm

end

/-! ## the table look-ups behind every successful membership test exist (no `nid_map` involved) -/

/-- for one half of the function (`fams 0 .. 4`, inner key `kk`, `n` sites): whenever a membership test
`key0 in table and kk in table[key0]` of the Python text succeeds, the other table entries read in the same `if` block exist -/
structure SideGets (fams : Nat → Fam) (kk i n : Int) : Prop where
  d : ∀ a, a = 0 ∨ a = 1 → famHas (fams a) [i] kk = true → ∃ nd, (fams a).get2 [i + 1] kk = .ok nd
  dd_lo : ∀ k, 0 ≤ k → k < i → famHas (fams 2) [k, i] kk = true → ∃ nd, (fams 2).get2 [k, i + 1] kk = .ok nd
  dd_hi : ∀ k, i + 2 ≤ k → k < n → famHas (fams 2) [i, k] kk = true → ∃ nd, (fams 2).get2 [i + 1, k] kk = .ok nd
  aa_lo : ∀ k, 0 ≤ k → k < i → famHas (fams 3) [i, k] kk = true → ∃ nd, (fams 3).get2 [i + 1, k] kk = .ok nd
  aa_hi : ∀ k, i + 2 ≤ k → k < n → famHas (fams 3) [k, i] kk = true → ∃ nd, (fams 3).get2 [k, i + 1] kk = .ok nd
  da_a : ∀ k, (0 ≤ k ∧ k < i) ∨ (i + 2 ≤ k ∧ k < n) → famHas (fams 4) [i, k] kk = true →
    ∃ nd, (fams 4).get2 [i + 1, k] kk = .ok nd
  da_b : ∀ k, (0 ≤ k ∧ k < i) ∨ (i + 2 ≤ k ∧ k < n) → famHas (fams 4) [k, i] kk = true →
    ∃ nd, (fams 4).get2 [k, i + 1] kk = .ok nd
  da_q : famHas (fams 4) [i, i + 1] kk = true →
    (∃ nd, (fams 4).get2 [i, i] kk = .ok nd) ∧ (∃ nd, (fams 4).get2 [i + 1, i] kk = .ok nd) ∧
      (∃ nd, (fams 4).get2 [i + 1, i + 1] kk = .ok nd)

/-- **left matrix (tables `..._r`, inner key `i`), every `L`, every `0 ≤ i < L - 1`** -/
theorem sideGets_right (L i : Int) (hi0 : 0 ≤ i) (hi1 : i < L - 1) :
    SideGets (fun a => tableAt (MolNodes.init L) (a + 5)) i i L := by
  constructor
  · -- a_dag_r / a_ann_r
    intro a ha hh
    rcases ha with rfl | rfl
    · obtain ⟨x, e, c⟩ := t5_has L _ _ hh
      obtain rfl := single1 e
      exact t5_g2 L (x + 1) x (by omega) (by omega) (by omega) (by omega)
    · obtain ⟨x, e, c⟩ := t6_has L _ _ hh
      obtain rfl := single1 e
      exact t6_g2 L (x + 1) x (by omega) (by omega) (by omega) (by omega)
  · intro k hk0 hk1 hh
    exfalso
    obtain ⟨x, y, e, c⟩ := t7_has L _ _ hh
    simp only [pair2] at e
    omega
  · intro k hk0 hk1 hh
    obtain ⟨x, y, e, c⟩ := t7_has L _ _ hh
    simp only [pair2] at e
    exact t7_g2 L (i + 1) k i (by omega) (by omega) (by omega) (by omega) (by omega) (by omega)
  · intro k hk0 hk1 hh
    exfalso
    obtain ⟨x, y, e, c⟩ := t8_has L _ _ hh
    simp only [pair2] at e
    omega
  · intro k hk0 hk1 hh
    obtain ⟨x, y, e, c⟩ := t8_has L _ _ hh
    simp only [pair2] at e
    exact t8_g2 L k (i + 1) i (by omega) (by omega) (by omega) (by omega) (by omega) (by omega)
  · intro k hk hh
    obtain ⟨x, y, e, c⟩ := t9_has L _ _ hh
    simp only [pair2] at e
    exact t9_g2 L (i + 1) k i (by omega) (by omega) (by omega) (by omega) (by omega) (by omega)
  · intro k hk hh
    obtain ⟨x, y, e, c⟩ := t9_has L _ _ hh
    simp only [pair2] at e
    exact t9_g2 L k (i + 1) i (by omega) (by omega) (by omega) (by omega) (by omega) (by omega)
  · intro hh
    obtain ⟨x, y, e, c⟩ := t9_has L _ _ hh
    simp only [pair2] at e
    exact ⟨t9_g2 L i i i (by omega) (by omega) (by omega) (by omega) (by omega) (by omega),
      t9_g2 L (i + 1) i i (by omega) (by omega) (by omega) (by omega) (by omega) (by omega),
      t9_g2 L (i + 1) (i + 1) i (by omega) (by omega) (by omega) (by omega) (by omega) (by omega)⟩

/-- **right matrix (tables `..._l`, inner key `i + 2`), every `L`, every `0 ≤ i < L - 1`** -/
theorem sideGets_left (L i : Int) (hi0 : 0 ≤ i) (hi1 : i < L - 1) :
    SideGets (fun a => tableAt (MolNodes.init L) (a + 0)) (i + 2) i L := by
  constructor
  · intro a ha hh
    rcases ha with rfl | rfl
    · obtain ⟨x, e, c⟩ := t0_has L _ _ hh
      obtain rfl := single1 e
      exact t0_g2 L (x + 1) (x + 2) (by omega) (by omega) (by omega) (by omega)
    · obtain ⟨x, e, c⟩ := t1_has L _ _ hh
      obtain rfl := single1 e
      exact t1_g2 L (x + 1) (x + 2) (by omega) (by omega) (by omega) (by omega)
  · intro k hk0 hk1 hh
    obtain ⟨x, y, e, c⟩ := t2_has L _ _ hh
    simp only [pair2] at e
    exact t2_g2 L k (i + 1) (i + 2) (by omega) (by omega) (by omega) (by omega) (by omega) (by omega)
  · intro k hk0 hk1 hh
    exfalso
    obtain ⟨x, y, e, c⟩ := t2_has L _ _ hh
    simp only [pair2] at e
    omega
  · intro k hk0 hk1 hh
    obtain ⟨x, y, e, c⟩ := t3_has L _ _ hh
    simp only [pair2] at e
    exact t3_g2 L (i + 1) k (i + 2) (by omega) (by omega) (by omega) (by omega) (by omega) (by omega)
  · intro k hk0 hk1 hh
    exfalso
    obtain ⟨x, y, e, c⟩ := t3_has L _ _ hh
    simp only [pair2] at e
    omega
  · intro k hk hh
    obtain ⟨x, y, e, c⟩ := t4_has L _ _ hh
    simp only [pair2] at e
    exact t4_g2 L (i + 1) k (i + 2) (by omega) (by omega) (by omega) (by omega) (by omega) (by omega)
  · intro k hk hh
    obtain ⟨x, y, e, c⟩ := t4_has L _ _ hh
    simp only [pair2] at e
    exact t4_g2 L k (i + 1) (i + 2) (by omega) (by omega) (by omega) (by omega) (by omega) (by omega)
  · intro hh
    obtain ⟨x, y, e, c⟩ := t4_has L _ _ hh
    simp only [pair2] at e
    exact ⟨t4_g2 L i i (i + 2) (by omega) (by omega) (by omega) (by omega) (by omega) (by omega),
      t4_g2 L (i + 1) i (i + 2) (by omega) (by omega) (by omega) (by omega) (by omega) (by omega),
      t4_g2 L (i + 1) (i + 1) (i + 2) (by omega) (by omega) (by omega) (by omega) (by omega) (by omega)⟩

section
variable (ns : Nat) (bd : List Nat) (nm : List (Int × (Nat × Nat))) (L : Int)

/-- with `wf`, existing table entries have `nid_map` entries: all look-ups of one half of the function are defined -/
theorem sideDefs_of_gets (hwf : GaugeH.wf (mkH ns bd nm L) = true) (off : Nat) (hoff : off ≤ 5) (kk i n : Int)
    (sg : SideGets (fun a => tableAt (MolNodes.init L) (a + off)) kk i n) :
    SideDefs (mkH ns bd nm L) (fun a => tableAt (MolNodes.init L) (a + off)) kk i n := by
  constructor
  · intro a ha hh
    exact defs2 ns bd nm L hwf (a + off) (by omega) _ _ _ hh (sg.d a ha hh)
  · intro k hk0 hk1 hh
    exact defs2 ns bd nm L hwf (2 + off) (by omega) _ _ _ hh (sg.dd_lo k hk0 hk1 hh)
  · intro k hk0 hk1 hh
    exact defs2 ns bd nm L hwf (2 + off) (by omega) _ _ _ hh (sg.dd_hi k hk0 hk1 hh)
  · intro hh
    exact defs1 ns bd nm L hwf (2 + off) (by omega) _ _ hh
  · intro k hk0 hk1 hh
    exact defs2 ns bd nm L hwf (3 + off) (by omega) _ _ _ hh (sg.aa_lo k hk0 hk1 hh)
  · intro k hk0 hk1 hh
    exact defs2 ns bd nm L hwf (3 + off) (by omega) _ _ _ hh (sg.aa_hi k hk0 hk1 hh)
  · intro hh
    exact defs1 ns bd nm L hwf (3 + off) (by omega) _ _ hh
  · intro k hk hh
    exact defs2 ns bd nm L hwf (4 + off) (by omega) _ _ _ hh (sg.da_a k hk hh)
  · intro k hk hh
    exact defs2 ns bd nm L hwf (4 + off) (by omega) _ _ _ hh (sg.da_b k hk hh)
  · intro hh
    obtain ⟨g0, g2, g3⟩ := sg.da_q hh
    exact defs4 ns bd nm L hwf (4 + off) (by omega) _ _ _ _ _ g0 (famHas_get2 _ _ _ hh) g2 g3

theorem sideDefs_right (hwf : GaugeH.wf (mkH ns bd nm L) = true) (i : Int) (hi0 : 0 ≤ i) (hi1 : i < L - 1) (n : Int) (hn : n = L) :
    SideDefs (mkH ns bd nm L) (fun a => tableAt (MolNodes.init L) (a + 5)) i i n := by
  rw [hn]
  exact sideDefs_of_gets ns bd nm L hwf 5 (by omega) i i L (sideGets_right L i hi0 hi1)

theorem sideDefs_left (hwf : GaugeH.wf (mkH ns bd nm L) = true) (i : Int) (hi0 : 0 ≤ i) (hi1 : i < L - 1) (n : Int) (hn : n = L) :
    SideDefs (mkH ns bd nm L) (fun a => tableAt (MolNodes.init L) (a + 0)) (i + 2) i n := by
  rw [hn]
  exact sideDefs_of_gets ns bd nm L hwf 0 (by omega) (i + 2) i L (sideGets_left L i hi0 hi1)

end

/-! ## the whole function -/

section main
variable {α : Type} [CommRing α] [HasConj α] [DecidableEq α]

/-- the `(2, 2)` shape test of the function -/
def Shape22 (u : Mat α) : Prop := u.length = 2 ∧ ∀ r ∈ u, r.length = 2

theorem unitary2_of_isUnitary (u : Mat α) (hs : Shape22 u) (hu : isUnitary u = true) :
    Unitary2 (u.entry 0 0) (u.entry 0 1) (u.entry 1 0) (u.entry 1 1) := by
  have h := (isUnitary_iff (v := u) (n := 2) hs).1 hu
  have h00 := h 0 (by omega) 0 (by omega)
  have h01 := h 0 (by omega) 1 (by omega)
  have h10 := h 1 (by omega) 0 (by omega)
  have h11 := h 1 (by omega) 1 (by omega)
  simp only [Finset.sum_range_succ, Finset.sum_range_zero, zero_add] at h00 h01 h10 h11
  exact ⟨by simpa using h00, by simpa using h01, by simpa using h10, by simpa using h11⟩

/-- **`molecular_hamiltonian_orbital_gauge_transform` on the tables of `MolecularOpGraphNodes(L)`, every `L`, every `0 ≤ i < L - 1`,
every unitary `u`**: the function returns; `v_l`, `v_r` are square of sizes `bond_dims[i]`, `bond_dims[i + 2]` and unitary. -/
theorem gaugeTransform_ok (hc : ConjLaws α) (ns : Nat) (bd : List Nat) (nm : List (Int × (Nat × Nat))) (L : Int)
    (hns : (ns : Int) = L) (hbd : bd.length = ns + 1) (hwf : GaugeH.wf (mkH ns bd nm L) = true)
    (u : Mat α) (hs : Shape22 u) (hu : isUnitary u = true) (i : Int) (hi0 : 0 ≤ i) (hi1 : i < L - 1) :
    ∃ vl vr dl dr, gaugeTransform (mkH ns bd nm L) u i = .ok (vl, vr) ∧
      bd[i.toNat]? = some dl ∧ bd[i.toNat + 2]? = some dr ∧ IsSquare vl dl ∧ IsSquare vr dr ∧
      isUnitary vl = true ∧ isUnitary vr = true := by
  have hU := unitary2_of_isUnitary u hs hu
  have hl1 : i.toNat < bd.length := by omega
  have hl2 : i.toNat + 2 < bd.length := by omega
  have e1 : bd[i.toNat]? = some bd[i.toNat] := List.getElem?_eq_getElem hl1
  have e2 : bd[i.toNat + 2]? = some bd[i.toNat + 2] := List.getElem?_eq_getElem hl2
  -- left matrix
  obtain ⟨vl, evl, sql, unl⟩ := gaugeSide_good (h := mkH ns bd nm L) (fams := fun a => tableAt (MolNodes.init L) (a + 5))
    (kk := i) (i := i) (dim := bd[i.toNat]) hc u hU
    (sideHyp_of_wf ns bd nm L hwf 5 i _ (by simp [List.getD_eq_getElem?_getD, e1]))
    (sideDefs_right ns bd nm L hwf i hi0 hi1 _ hns)
  -- right matrix
  obtain ⟨vr, evr, sqr, unr⟩ := gaugeSide_good (h := mkH ns bd nm L) (fams := fun a => tableAt (MolNodes.init L) (a + 0))
    (kk := i + 2) (i := i) (dim := bd[i.toNat + 2]) hc u hU
    (sideHyp_of_wf ns bd nm L hwf 0 (i + 2) _ (by
      have : (i + 2).toNat = i.toNat + 2 := by omega
      simp [List.getD_eq_getElem?_getD, this, e2]))
    (sideDefs_left ns bd nm L hwf i hi0 hi1 _ hns)
  refine ⟨vl, vr, bd[i.toNat], bd[i.toNat + 2], ?_, e1, e2, sql, sqr, unl, unr⟩
  have hshape : (u.length == 2 && u.all (fun r => r.length == 2)) = true := by
    rw [Bool.and_eq_true, beq_iff_eq, List.all_eq_true]
    exact ⟨hs.1, fun r hr => by rw [beq_iff_eq]; exact hs.2 r hr⟩
  have hrange : (decide (0 ≤ i) && decide (i < ((mkH ns bd nm L).nsites : Int) - 1)) = true := by
    rw [Bool.and_eq_true, decide_eq_true_eq, decide_eq_true_eq]
    exact ⟨hi0, by show i < (ns : Int) - 1; omega⟩
  have p1 : pyIdx (mkH ns bd nm L).bondDims i.toNat = .ok bd[i.toNat] := by
    unfold pyIdx
    have : (mkH ns bd nm L).bondDims[i.toNat]? = some bd[i.toNat] := e1
    rw [this]
  have p2 : pyIdx (mkH ns bd nm L).bondDims (i.toNat + 2) = .ok bd[i.toNat + 2] := by
    unfold pyIdx
    have : (mkH ns bd nm L).bondDims[i.toNat + 2]? = some bd[i.toNat + 2] := e2
    rw [this]
  have evl' : gaugeSide (mkH ns bd nm L) (MolNodes.init L).aDagR (MolNodes.init L).aAnnR (MolNodes.init L).aDagADagR
      (MolNodes.init L).aAnnAAnnR (MolNodes.init L).aDagAAnnR i bd[i.toNat] u i = .ok vl := evl
  have evr' : gaugeSide (mkH ns bd nm L) (MolNodes.init L).aDagL (MolNodes.init L).aAnnL (MolNodes.init L).aDagADagL
      (MolNodes.init L).aAnnAAnnL (MolNodes.init L).aDagAAnnL (i + 2) bd[i.toNat + 2] u i = .ok vr := evr
  unfold gaugeTransform
  rw [hshape, hu, hrange]
  simp only [Bool.not_true, Bool.false_eq_true, if_false, p1, p2, evl', evr']

/-- the only exception the function can raise on these tables is the `AssertionError` of its argument checks:
no `KeyError` (every `nid_map` / table look-up is defined) and no `IndexError` -/
theorem gaugeTransform_err (hc : ConjLaws α) (ns : Nat) (bd : List Nat) (nm : List (Int × (Nat × Nat))) (L : Int)
    (hns : (ns : Int) = L) (hbd : bd.length = ns + 1) (hwf : GaugeH.wf (mkH ns bd nm L) = true)
    (u : Mat α) (i : Int) (e : Err) (he : gaugeTransform (mkH ns bd nm L) u i = .error e) : e = .assertion := by
  by_cases h1 : (u.length == 2 && u.all (fun r => r.length == 2)) = true
  · by_cases h2 : isUnitary u = true
    · by_cases h3 : (decide (0 ≤ i) && decide (i < ((mkH ns bd nm L).nsites : Int) - 1)) = true
      · exfalso
        rw [Bool.and_eq_true, beq_iff_eq, List.all_eq_true] at h1
        rw [Bool.and_eq_true, decide_eq_true_eq, decide_eq_true_eq] at h3
        have hs : Shape22 u := ⟨h1.1, fun r hr => by have := h1.2 r hr; rwa [beq_iff_eq] at this⟩
        obtain ⟨vl, vr, _, _, hok, _⟩ := gaugeTransform_ok hc ns bd nm L hns hbd hwf u hs h2 i h3.1
          (by have : i < (ns : Int) - 1 := h3.2; omega)
        rw [hok] at he
        cases he
      · unfold gaugeTransform at he
        rw [h1, h2, Bool.eq_false_iff.2 h3] at he
        simp only [Bool.not_true, Bool.not_false, Bool.false_eq_true, if_false, if_true] at he
        cases he; rfl
    · unfold gaugeTransform at he
      rw [h1, Bool.eq_false_iff.2 h2] at he
      simp only [Bool.not_true, Bool.not_false, Bool.false_eq_true, if_false, if_true] at he
      cases he; rfl
  · unfold gaugeTransform at he
    rw [Bool.eq_false_iff.2 h1] at he
    simp only [Bool.not_false, if_true] at he
    cases he; rfl

end main
end Ptn.Ham.Gauge

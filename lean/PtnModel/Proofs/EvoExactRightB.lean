import PtnModel.Proofs.EvoExactTransL
import PtnModel.Proofs.EvoExactTransR
import PtnModel.Proofs.EvoExactComplete
/-!
# One call of `tdvp1Right` on a complete manifold

`tdvp1Right … s (j+1)` = QR of the centre tensor `A[j+1]`, new right block, zero-site step `S_j(-τ)` (`τ = half·dt`), push into
site `j`, one-site step `K_j(τ)`.
* `tdvp1Right_cancel` : if site `j` has the dimensions of a square left isometry, `K_j(τ)` undoes `S_j(-τ)`: the call only
  moves the centre — same dense state.
* `tdvp1Right_head`   : if site `j+1` has the dimensions of a square right isometry and the centre tensor is
  `E(-τ H_eff) X`, the part of the call before `K_j(τ)` produces the plain gauge move of `s[j+1 := X]`.
-/
set_option linter.unusedSectionVars false

namespace Ptn.Evo
open Ptn Ptn.BondOps Ptn.Ortho Ptn.Env Ptn.Krylov Ptn.Dense Finset

variable {𝕜 : Type} [RCLike 𝕜] [DecidableEq 𝕜]
variable {k : EvoKernels 𝕜 ℝ} {H : MPO 𝕜} {qd : List Int} {numiter : Nat}

/-- an exhausted zero-site run with time `δ` on `Ct = E(γ K_eff) Cx`, `γ - δ = 0`, returns `Cx` (on in-range entries) -/
theorem bondStep_spec_id (ctx : SweepCtx k H qd numiter) (hE : ExpLaw k.dexp) {BL BRn : T3 𝕜} {Ct Cx C1 : Mat 𝕜}
    {γ δ : 𝕜} (hFB : BondFits BL BRn Ct.m Ct.n) (hHB : BondHermitian BL BRn Ct.m Ct.n)
    (cx0 : Cx.m = Ct.m) (cx1 : Cx.n = Ct.n)
    (hsp : Spec (Ct.m * Ct.n) (localBondFun BL BRn Ct.m Ct.n) k.dexp γ (flat2 Cx) (flat2 Ct))
    (hX : C15.Exhausted (localBondFun BL BRn Ct.m Ct.n) k.cnorm (flat2 Ct) numiter)
    (h3 : localBondStep k BL BRn Ct δ numiter = .ok C1) (hγ : γ + -δ = 0) :
    ∀ a p, a < Ct.m → p < Ct.n → C1.f a p = Cx.f a p := by
  obtain ⟨y, hy, rfl⟩ := bondStep_unfold h3
  have hA := isHermitian_localBondFun hFB hHB
  have hM := actsAs_localBondFun hFB
  have hHM := herm_matrix_of_actsAs hA hM
  have hvl : (flat2 Ct).length = Ct.m * Ct.n := length_flat2 _
  rw [← hvl] at hM hHM hsp
  obtain ⟨hyl, hsp2⟩ := spec_run ctx.norm hM hHM hsp (ctx.eigh _ _) hX hy (fun μ => by
    rw [add_mul, hE.add, mul_comm])
  rw [hvl] at hyl hsp2
  have key := spec_one hsp2 (fun μ => by rw [hγ, zero_mul, hE.zero])
  intro a p ha hp
  rw [Env.mat_tab_f (unflat2 y Ct.m Ct.n) ha hp, unflat2_f, key _ (Ortho.fused_lt ha hp)]
  have := vget_flat2 Cx (i := a) (j := p) (by rw [cx0]; exact ha) (by rw [cx1]; exact hp)
  rw [cx1] at this
  exact this

/-- the push of the gauge move inside `tdvp1Right` keeps the dense state: `s[j+1 := C1 · Ai]` and the state with `Ai` at
site `j+1`, `A[j] · C1` at site `j` have the same amplitudes -/
theorem right_push_amp (ctx : SweepCtx k H qd numiter) {s : Sweep 𝕜} {j : Nat} (h : Canon H qd s (j + 1))
    {Ai : T3 𝕜} {qn : List Int} {BRn : T3 𝕜} {C1 : Mat 𝕜}
    (hiso : RightIso Ai) (ai0 : Ai.d0 = qd.length) (ai1 : Ai.d1 = qn.length) (ai2 : Ai.d2 = (getQ s (j + 2)).length)
    (hq : 0 < qn.length) (c0 : C1.m = (getQ s (j + 1)).length) (c1 : C1.n = qn.length)
    (h2 : Op.opStepRight Ai Ai (H.A.getD (j + 1) zeroT4) (getBR s (j + 1)) = .ok BRn) :
    SameAmp qd H.A.length (setA s (j + 1) (mulLeft C1 Ai))
      (⟨(s.A.setIfInBounds (j + 1) Ai).setIfInBounds j (pushRight (getA s j) C1),
        s.qD.setIfInBounds (j + 1) qn, s.BL, s.BR.setIfInBounds j BRn⟩ : Sweep 𝕜) := by
  have hi : j + 1 < H.A.length := h.hc
  have hics : j + 1 < s.A.size := by rw [h.wf.sizeA]; exact hi
  obtain ⟨s0, s1, s2⟩ := h.wf.shape (j + 1) hi
  obtain ⟨p0, p1, p2⟩ := h.wf.shape j (by omega)
  set B : T3 𝕜 := mulLeft C1 Ai with hB
  have hBd : B.d0 = (getA s (j + 1)).d0 ∧ B.d1 = (getA s (j + 1)).d1 ∧ B.d2 = (getA s (j + 1)).d2 :=
    ⟨ai0.trans s0.symm, c0.trans s1.symm, ai2.trans s2.symm⟩
  have hcanB := canon_replace h (X := B) hBd
  set sb : Sweep 𝕜 := ⟨s.A.setIfInBounds (j + 1) B, s.qD, s.BL, s.BR⟩ with hsbdef
  have gsb : getA sb (j + 1) = B := getD_setIfInBounds_eq _ _ _ hics
  have gsbj : getA sb j = getA s j := by
    show (s.A.setIfInBounds (j + 1) B).getD j emptyT3 = _
    rw [getD_setIfInBounds_ne _ _ _ (by omega)]; rfl
  obtain ⟨_, hamp⟩ := canon_right hcanB ctx.hH (X' := pushRight (getA s j) C1) (Y' := Ai) (qb := qn)
    (BRn := BRn) ⟨p0, p1, c1⟩ ⟨ai0, ai1, ai2⟩ hq hiso
    (fun a0' a a1' y ha0 ha ha1 hy => by
      rw [gsbj] at ha
      rw [gsb, gsbj]
      show ∑ x ∈ range C1.n, (pushRight (getA s j) C1).f a0' a x * Ai.f a1' x y =
        ∑ x ∈ range (getA s j).d2, (getA s j).f a0' a x * ∑ p ∈ range Ai.d1, C1.f x p * Ai.f a1' p y
      have e1 : ∀ x ∈ range C1.n, (pushRight (getA s j) C1).f a0' a x * Ai.f a1' x y =
          ∑ b ∈ range (getA s j).d2, (getA s j).f a0' a b * C1.f b x * Ai.f a1' x y := by
        intro x hx
        rw [pushRight_f _ _ (by rw [p0]; exact ha0) ha (mem_range.1 hx), Finset.sum_mul]
      rw [Finset.sum_congr rfl e1, Finset.sum_comm]
      refine sum_congr rfl fun b _ => ?_
      rw [Finset.mul_sum, c1, ai1]
      exact sum_congr rfl fun p _ => by ring)
    (by rw [show getBR sb (j + 1) = getBR s (j + 1) from rfl]; exact h2)
  have hfin : (⟨(sb.A.setIfInBounds (j + 1) Ai).setIfInBounds j (pushRight (getA s j) C1),
      sb.qD.setIfInBounds (j + 1) qn, sb.BL, sb.BR.setIfInBounds j BRn⟩ : Sweep 𝕜) =
      ⟨(s.A.setIfInBounds (j + 1) Ai).setIfInBounds j (pushRight (getA s j) C1),
        s.qD.setIfInBounds (j + 1) qn, s.BL, s.BR.setIfInBounds j BRn⟩ := by
    simp [hsbdef]
  rw [hfin] at hamp
  exact fun σ hσ => hamp σ hσ

/-- **S4.**  If site `j+1` has the dimensions of a square right isometry and its tensor is `E(γ H_eff) X` with `γ + τ = 0`:
the QR, zero-site step and push of `tdvp1Right` produce a state `v` (centre `j`) holding the dense state of `s[j+1 := X]`, and
the call ends with the one-site step at the centre of `v`. -/
theorem tdvp1Right_head (ctx : SweepCtx k H qd numiter) (hE : ExpLaw k.dexp) {dt : 𝕜} {s s' : Sweep 𝕜} {j : Nat}
    (h : Canon H qd s (j + 1)) (hsq : SqR qd s (j + 1))
    (hrun : tdvp1Right k H qd dt numiter s (j + 1) = .ok s') (hex : RightExact false k H qd dt numiter s (j + 1))
    {γ : 𝕜} {X : T3 𝕜} (hs : SiteSpec k H s (j + 1) γ X) (hγ : γ + k.half * dt = 0) :
    ∃ (v : Sweep 𝕜) (Ap2 : T3 𝕜), Canon H qd v j ∧ SameDims s v ∧
      SameAmp qd H.A.length (setA s (j + 1) X) v ∧
      localHamiltonianStep k (getBL v j) (getBR v j) (H.A.getD j zeroT4) (getA v j) (k.half * dt) numiter = .ok Ap2 ∧
      MidExact k H numiter v j ∧ s' = setA v j Ap2 := by
  obtain ⟨Q, C, qb, BRn, C1, Ap2, h1, h2, h3, _, h4, hs'⟩ := tdvp1Right_unfold hrun
  obtain ⟨hX0, hX1, hqbl, _⟩ := hex Q C qb BRn C1 h1 h2 h3
  simp only [Nat.add_sub_cancel] at h4 hs' hX1
  have hi : j + 1 < H.A.length := h.hc
  have hjs : j < s.A.size := by rw [h.wf.sizeA]; omega
  obtain ⟨s0, s1, s2⟩ := h.wf.shape (j + 1) hi
  have hrm := right_move_canon ctx h h1 h2
  dsimp only at hrm
  obtain ⟨hAiIso, ai0, ai1, ai2, hqbpos, hCtm, hCtn, hAcf, hFB, hHB, hcanC⟩ := hrm
  obtain ⟨x0, x1, x2, hsp0⟩ := hs
  obtain ⟨hF, _⟩ := canon_local h ctx.hH ctx.herm
  set A : T3 𝕜 := getA s (j + 1) with hA
  set Ai : T3 𝕜 := (T3.ofFlattenLeft Q A.d0 A.d2).swap12.tab with hAi
  set Ct : Mat 𝕜 := C.transpose.tab with hCt
  obtain ⟨c0, c1⟩ := bondStep_dims h3
  have hcan := hcanC C1 c0 c1
  have hsq' : (getQ s (j + 1)).length = qd.length * (getQ s (j + 2)).length := hsq
  have hAsq : Ai.d1 = Ai.d0 * Ai.d2 := by rw [ai1, hqbl, hsq', ai0, ai2]
  have ecm : Ct.m = A.d1 := hCtm.trans s1.symm
  have ecn : Ct.n = Ai.d1 := hCtn.trans ai1.symm
  -- 3. the spectral relation on the bond
  obtain ⟨Cx, cx0, cx1, hXf, hspB⟩ := spec_rightQR (Q := Ai) (m := A.d1) (BL := getBL s (j + 1)) (BR := getBR s (j + 1))
    (W := H.A.getD (j + 1) zeroT4) (BRn := BRn) (E := k.dexp) (γ := γ) hAiIso hAsq hF h2 (X := X) (Y := A) x0 x1 x2 rfl rfl rfl
    (Cy := Ct) ecm ecn
    (fun a x b ha hx hb => (hAcf a x b (by rw [← ai0]; exact ha) (by rw [← s1]; exact hx) (by rw [← ai2]; exact hb)).symm)
    hsp0
  -- 4. the zero-site step returns `Cx`
  have hspB' : Spec (Ct.m * Ct.n) (localBondFun (getBL s (j + 1)) BRn Ct.m Ct.n) k.dexp γ (flat2 Cx) (flat2 Ct) := by
    rw [ecm, ecn]; exact hspB
  have hC1f := bondStep_spec_id ctx hE hFB hHB (cx0.trans ecm.symm) (cx1.trans ecn.symm) hspB' hX0 h3
    (by rw [_root_.neg_neg]; exact hγ)
  -- 5. amplitudes
  have hBX : T3Eqv (mulLeft C1 Ai) X := by
    refine ⟨x0.symm, (c0.trans ecm).trans x1.symm, x2.symm, ?_⟩
    intro a x b ha hx hb
    have hx' : x < A.d1 := by rw [← ecm, ← c0]; exact hx
    rw [hXf a x b ha hx' hb]
    show ∑ p ∈ range Ai.d1, C1.f x p * Ai.f a p b = _
    refine sum_congr rfl fun p hp => ?_
    rw [hC1f x p (by rw [ecm]; exact hx') (by rw [ecn]; exact mem_range.1 hp)]
  have hamp1 : SameAmp qd H.A.length (setA s (j + 1) X) (setA s (j + 1) (mulLeft C1 Ai)) :=
    sameAmp_setA_congr h ⟨x0, x1, x2⟩ hBX
  have hamp2 := right_push_amp ctx h (Ai := Ai) (qn := QN.neg qb) (BRn := BRn) (C1 := C1) hAiIso ai0
    (by rw [neg_len]; exact ai1) ai2 (by rw [neg_len]; exact hqbpos) (c0.trans hCtm) (by rw [neg_len]; exact c1.trans hCtn) h2
  -- the state `v`
  refine ⟨⟨(s.A.setIfInBounds (j + 1) Ai).setIfInBounds j (pushRight (getA s j) C1),
    s.qD.setIfInBounds (j + 1) (QN.neg qb), s.BL, s.BR.setIfInBounds j BRn⟩, Ap2, hcan, ?_, hamp1.trans hamp2, ?_, ?_, ?_⟩
  · intro m
    show ((s.qD.setIfInBounds (j + 1) (QN.neg qb)).getD m []).length = _
    rw [getD_set1 s.qD (QN.neg qb) [] (by rw [h.wf.sizeQ]; omega) m]
    by_cases hm : m = j + 1
    · rw [if_pos hm, neg_len, hqbl, hm]
    · rw [if_neg hm]; rfl
  · have gA : getA (⟨(s.A.setIfInBounds (j + 1) Ai).setIfInBounds j (pushRight (getA s j) C1),
        s.qD.setIfInBounds (j + 1) (QN.neg qb), s.BL, s.BR.setIfInBounds j BRn⟩ : Sweep 𝕜) j = pushRight (getA s j) C1 :=
      getD_setIfInBounds_eq _ _ _ (by simpa using hjs)
    have gR : getBR (⟨(s.A.setIfInBounds (j + 1) Ai).setIfInBounds j (pushRight (getA s j) C1),
        s.qD.setIfInBounds (j + 1) (QN.neg qb), s.BL, s.BR.setIfInBounds j BRn⟩ : Sweep 𝕜) j = BRn :=
      getD_setIfInBounds_eq _ _ _ (by rw [h.sizeBR]; omega)
    rw [gA, gR]; exact h4
  · have gA : getA (⟨(s.A.setIfInBounds (j + 1) Ai).setIfInBounds j (pushRight (getA s j) C1),
        s.qD.setIfInBounds (j + 1) (QN.neg qb), s.BL, s.BR.setIfInBounds j BRn⟩ : Sweep 𝕜) j = pushRight (getA s j) C1 :=
      getD_setIfInBounds_eq _ _ _ (by simpa using hjs)
    have gR : getBR (⟨(s.A.setIfInBounds (j + 1) Ai).setIfInBounds j (pushRight (getA s j) C1),
        s.qD.setIfInBounds (j + 1) (QN.neg qb), s.BL, s.BR.setIfInBounds j BRn⟩ : Sweep 𝕜) j = BRn :=
      getD_setIfInBounds_eq _ _ _ (by rw [h.sizeBR]; omega)
    unfold MidExact
    rw [gA, gR]; exact hX1
  · rw [hs']
    simp [setA]

end Ptn.Evo

import PtnModel.Proofs.ChainMpoTop
/-!
# The dense path sum is the word-wise image of the symbolic denotation

`denseFrom_words`: `denseFrom g opmap ss ts nid = Σ_w denFrom g w nid · Π_k opmap[w_k][s_k][t_k]`, the sum ranging over
all words of the right length over any duplicate-free list `ids` containing every operator id of the graph.
-/
set_option linter.unusedSectionVars false

namespace Ptn.Ch
open Ptn Ptn.Og List

variable {κ : Type} [CommRing κ] [DecidableEq κ]

/-- all words of length `n` over the alphabet `ids` -/
def wordsOver (ids : List Int) : Nat → List Word
  | 0 => [[]]
  | n + 1 => ids.flatMap fun o => (wordsOver ids n).map (o :: ·)

/-- `Π_k opmap[w_k][s_k][t_k]` -/
def wordWeight (opmap : OpMap κ) : Word → List Nat → List Nat → κ
  | [], [], [] => 1
  | o :: w, s :: ss, t :: ts => opEntry opmap o s t * wordWeight opmap w ss ts
  | _, _, _ => 0

theorem sum_flatMap {α β : Type} (l : List α) (f : α → List β) (G : β → κ) :
    ((l.flatMap f).map G).sum = (l.map fun a => ((f a).map G).sum).sum := by
  induction l with
  | nil => simp
  | cons a l ih => simp [flatMap_cons, ih]

/-- summing the coefficient of `o` against a function of `o` over a complete duplicate-free alphabet -/
theorem sum_opc_ids (e : Edge κ) (ids : List Int) (hids : ∀ q ∈ e.opics, q.1 ∈ ids) (hnd : ids.Nodup) (F : Int → κ) :
    (ids.map fun o => opc e o * F o).sum = (e.opics.map fun p => p.2 * F p.1).sum := by
  unfold opc
  have h1 : ∀ o, (e.opics.map fun p => if p.1 = o then p.2 else 0).sum * F o
      = (e.opics.map fun p => if p.1 = o then p.2 * F o else 0).sum := by
    intro o
    rw [← sum_map_mul_const]
    apply sum_map_congr
    intro p _
    by_cases h : p.1 = o <;> simp [h]
  rw [sum_map_congr _ _ _ (fun o _ => h1 o), sum_sum_comm]
  apply sum_map_congr
  intro p hp
  have h2 : ∀ o ∈ ids, (if p.1 = o then p.2 * F o else 0) = (if o = p.1 then p.2 * F p.1 else 0) := by
    intro o _
    by_cases h : o = p.1
    · subst h; simp
    · have : ¬ p.1 = o := fun h' => h h'.symm
      simp [h, this]
  rw [sum_map_congr _ _ _ h2, sum_map_ite_eq_of_nodup ids p.1 _ hnd (hids p hp)]

theorem denFrom_cons (g : Graph κ) (o : Int) (w : Word) (nid : Int) (node : Node)
    (hn : dGet? g.nodes nid = some node) (ht : nid ≠ g.term true) :
    g.denFrom (o :: w) nid = (node.eidsOut.map fun eid =>
      match dGet? g.edges eid with
      | none => 0
      | some e => opc e o * g.denFrom w e.nids.2).sum := by
  rw [Graph.denFrom]
  simp only [ht, if_false, hn]
  rw [sumList_eq_sum]
  apply sum_map_congr
  intro eid _
  cases dGet? g.edges eid with
  | none => rfl
  | some e => simp only; rw [opics_sum]

theorem denseFrom_words (g : Graph κ) (opmap : OpMap κ) (ids : List Int)
    (hids : ∀ p ∈ g.edges, ∀ q ∈ p.2.opics, q.1 ∈ ids) (hnd : ids.Nodup)
    (hterm : ∃ n, dGet? g.nodes (g.term true) = some n ∧ n.eidsOut = []) :
    ∀ (ss ts : List Nat) (nid : Int), ss.length = ts.length →
      denseFrom g opmap ss ts nid
        = ((wordsOver ids ss.length).map fun w => g.denFrom w nid * wordWeight opmap w ss ts).sum := by
  intro ss
  induction ss with
  | nil =>
    intro ts nid hl
    have : ts = [] := by simpa [eq_comm] using hl
    subst this
    simp [denseFrom, wordsOver, wordWeight, Graph.denFrom]
  | cons s ss ih =>
    intro ts nid hl
    cases ts with
    | nil => simp at hl
    | cons t ts =>
      have hl' : ss.length = ts.length := by simpa using hl
      simp only [length_cons, wordsOver]
      rw [sum_flatMap]
      simp only [map_map, Function.comp_def, wordWeight]
      rw [denseFrom]
      by_cases ht : nid = g.term true
      · obtain ⟨n, hn, hout⟩ := hterm
        subst ht
        simp only [hn, hout, map_nil, sum_nil]
        symm
        apply sum_map_eq_zero
        intro o _
        apply sum_map_eq_zero
        intro w _
        simp [Graph.denFrom]
      · cases hn : dGet? g.nodes nid with
        | none =>
          simp only
          symm
          apply sum_map_eq_zero
          intro o _
          apply sum_map_eq_zero
          intro w _
          simp [Graph.denFrom, ht, hn]
        | some node =>
          simp only
          -- rewrite the right-hand side edge by edge
          have hR : ∀ o ∈ ids, ((wordsOver ids ss.length).map fun w =>
                g.denFrom (o :: w) nid * (opEntry opmap o s t * wordWeight opmap w ss ts)).sum
              = (node.eidsOut.map fun eid =>
                  match dGet? g.edges eid with
                  | none => 0
                  | some e => opc e o * opEntry opmap o s t *
                      ((wordsOver ids ss.length).map fun w => g.denFrom w e.nids.2 * wordWeight opmap w ss ts).sum).sum := by
            intro o _
            have h1 : ∀ w ∈ wordsOver ids ss.length,
                g.denFrom (o :: w) nid * (opEntry opmap o s t * wordWeight opmap w ss ts)
                = (node.eidsOut.map fun eid =>
                    match dGet? g.edges eid with
                    | none => 0
                    | some e => opc e o * opEntry opmap o s t * (g.denFrom w e.nids.2 * wordWeight opmap w ss ts)).sum := by
              intro w _
              rw [denFrom_cons g o w nid node hn ht, ← sum_map_mul_const]
              apply sum_map_congr
              intro eid _
              cases dGet? g.edges eid with
              | none => simp
              | some e => simp only; ring
            rw [sum_map_congr _ _ _ h1, sum_sum_comm]
            apply sum_map_congr
            intro eid _
            cases dGet? g.edges eid with
            | none => simp
            | some e => simp only; rw [sum_map_const_mul]
          rw [sum_map_congr _ _ _ hR, sum_sum_comm]
          apply sum_map_congr
          intro eid _
          cases he : dGet? g.edges eid with
          | none => simp
          | some e =>
            simp only
            rw [ih ts e.nids.2 hl']
            have := sum_opc_ids e ids (hids (eid, e) (mem_of_dGet? he)) hnd (fun o => opEntry opmap o s t)
            rw [sum_map_mul_const, this]
            rfl

end Ptn.Ch

import PtnModel.Proofs.OrthoMpoSweep
/-!
# `MPO.orthonormalize` as a `LeftRun` of the matricized (and, in right mode, mirrored) chain

* `toMPS o`, `MpoAdmissible o`, `admissible_toMPS`, `mpoAdmissible_of_toMPS`;
* `mpo_ortho_left_eq`, `mpo_ortho_right_eq` : the model function in terms of the sweeps;
* `leftRun_of_mpo_left`, `leftRun_of_mpo_right`, `mpo_left_ok`, `mpo_right_ok`.
-/
set_option linter.unusedSectionVars false
namespace Ptn.Ortho
open Ptn.BondOps Finset Ptn.Env

section generic
variable {𝕜 : Type} [CommRing 𝕜] [DecidableEq 𝕜]
variable {dqr : Mat 𝕜 → Mat 𝕜 × Mat 𝕜}
variable {ρ : Type} [RealLike ρ 𝕜] [OfNat ρ 0] [OfNat ρ 1] [Neg ρ] [LT ρ] [DecidableLT ρ]

/-- negate the last MPO tensor -/
def negLast4 : List (T4 𝕜) → List (T4 𝕜)
  | [] => []
  | [A] => [MPO.negT4 A]
  | A :: B :: As => A :: negLast4 (B :: As)

theorem take_drop_negLast4 : ∀ (As : List (T4 𝕜)),
    As.take (As.length - 1) ++ (As.drop (As.length - 1)).map MPO.negT4 = negLast4 As
  | [] => rfl
  | [A] => rfl
  | A :: B :: As => by
    have := take_drop_negLast4 (B :: As)
    simp only [List.length_cons, Nat.add_sub_cancel] at this ⊢
    rw [List.take_succ_cons, List.drop_succ_cons, List.cons_append, this, negLast4]

theorem negLast4_map_toT3 : ∀ (As : List (T4 𝕜)), (negLast4 As).map toT3 = negLast (As.map toT3)
  | [] => rfl
  | [A] => rfl
  | A :: B :: As => by
    have := negLast4_map_toT3 (B :: As)
    simp only [negLast4, negLast, List.map_cons] at this ⊢
    rw [this]

theorem negLast4_phys {d : Nat} : ∀ {As : List (T4 𝕜)}, (∀ B ∈ As, B.d0 = d ∧ B.d1 = d) →
    ∀ B ∈ negLast4 As, B.d0 = d ∧ B.d1 = d
  | [], _ => by simp [negLast4]
  | [A], h => by
    intro B hB
    simp only [negLast4, List.mem_singleton] at hB
    subst hB
    exact h A (by simp)
  | A :: B :: As, h => by
    intro C hC
    simp only [negLast4, List.mem_cons] at hC
    rcases hC with rfl | hC
    · exact h _ (by simp)
    · exact negLast4_phys (fun X hX => h X (List.mem_cons_of_mem _ hX)) C (by simpa using hC)

/-- `MPO.orthonormalize(mode='left')` in terms of the sweep -/
theorem mpo_ortho_left_eq (qd : List Int) (A0 : T4 𝕜) (rest : List (T4 𝕜)) (q0 : List Int) (qrest : List (List Int)) :
    MPO.orthonormalize (ρ := ρ) dqr ⟨qd, q0 :: qrest, A0 :: rest⟩ true =
      match MPO.sweepLeftQr dqr qd A0 q0 rest qrest with
      | .error e => .error e
      | .ok (As, qs, T) =>
        if (T.d0 == 1 && T.d1 == 1 && T.d2 == 1 && T.d3 == 1) = true then
          if (RealLike.re (T.f 0 0 0 0) : ρ) < 0 then
            .ok (⟨qd, q0 :: qs, negLast4 As⟩, -(RealLike.re (T.f 0 0 0 0) : ρ))
          else .ok (⟨qd, q0 :: qs, As⟩, RealLike.re (T.f 0 0 0 0))
        else .error .assertion := by
  unfold MPO.orthonormalize
  simp only [if_true]
  cases hs : MPO.sweepLeftQr dqr qd A0 q0 rest qrest with
  | error e => rfl
  | ok r =>
    obtain ⟨As, qs, T⟩ := r
    simp only [bind, Except.bind, pyAssert]
    by_cases hT : (T.d0 == 1 && T.d1 == 1 && T.d2 == 1 && T.d3 == 1) = true
    · simp only [hT, if_true]
      by_cases hn : (RealLike.re (T.f 0 0 0 0) : ρ) < 0
      · simp only [hn, if_true, take_drop_negLast4]; rfl
      · simp only [hn, if_false]; rfl
    · simp only [hT]
      rfl

/-- `MPO.orthonormalize(mode='right')` in terms of the sweep -/
theorem mpo_ortho_right_eq (qd : List Int) (A0 : T4 𝕜) (rest : List (T4 𝕜)) (qD : List (List Int))
    {Al : T4 𝕜} {rrest : List (T4 𝕜)} {ql : List Int} {qrrest : List (List Int)}
    (hAr : (A0 :: rest).reverse = Al :: rrest) (hqr : qD.reverse = ql :: qrrest) :
    MPO.orthonormalize (ρ := ρ) dqr ⟨qd, qD, A0 :: rest⟩ false =
      match MPO.sweepRightQr dqr qd Al ql rrest qrrest with
      | .error e => .error e
      | .ok (As, qs, T) =>
        if (T.d0 == 1 && T.d1 == 1 && T.d2 == 1 && T.d3 == 1) = true then
          .ok (⟨qd, (ql :: qs).reverse,
              (if (RealLike.re (T.f 0 0 0 0) : ρ) < 0 then negLast4 As else As).reverse⟩,
            if (RealLike.re (T.f 0 0 0 0) : ρ) < 0 then -(RealLike.re (T.f 0 0 0 0) : ρ)
            else RealLike.re (T.f 0 0 0 0))
        else .error .assertion := by
  unfold MPO.orthonormalize
  simp only [Bool.false_eq_true, if_false]
  rw [hAr, hqr]
  dsimp only
  cases hs : MPO.sweepRightQr dqr qd Al ql rrest qrrest with
  | error e => rfl
  | ok r =>
    obtain ⟨As, qs, T⟩ := r
    simp only [bind, Except.bind, pyAssert]
    by_cases hT : (T.d0 == 1 && T.d1 == 1 && T.d2 == 1 && T.d3 == 1) = true
    · simp only [hT, if_true, take_drop_negLast4]; rfl
    · simp only [hT]
      rfl

end generic

section generic
variable {𝕜 : Type} [CommRing 𝕜] [DecidableEq 𝕜]

/-- the matricized MPO: physical charges `qd ⊕ (-qd)`, fused physical index -/
def toMPS (o : MPO 𝕜) : MPS 𝕜 := ⟨QN.flatten2 o.qd (QN.neg o.qd), o.qD, o.A.map toT3⟩

/-- Prop form of `is_qsparse(A, [qd, -qd, qa, -qb])` -/
def SparseT4 (A : T4 𝕜) (qd qa qb : List Int) : Prop :=
  ∀ s t a b, s < A.d0 → t < A.d1 → a < A.d2 → b < A.d3 → A.f s t a b ≠ 0 →
    qd.getD s 0 - qd.getD t 0 + qa.getD a 0 - qb.getD b 0 = 0

theorem isSparseT4_iff (A : T4 𝕜) (qd qa qb : List Int) :
    QN.isSparseT4 A qd qa qb = true ↔ SparseT4 A qd qa qb := by
  unfold QN.isSparseT4 SparseT4 T4.all
  simp only [List.all_eq_true, List.mem_range, Bool.or_eq_true, decide_eq_true_eq]
  constructor
  · intro h s t a b hs ht ha hb hne
    rcases h s hs t ht a ha b hb with h' | h'
    · exact h'
    · exact absurd h' hne
  · intro h s hs t ht a ha b hb
    by_cases h0 : A.f s t a b = 0
    · exact Or.inr h0
    · exact Or.inl (h s t a b hs ht ha hb h0)

/-- shape and block sparsity of one MPO tensor -/
structure T4Wf (A : T4 𝕜) (qd qa qb : List Int) : Prop where
  d0 : A.d0 = qd.length
  d1 : A.d1 = qd.length
  d2 : A.d2 = qa.length
  d3 : A.d3 = qb.length
  sp : SparseT4 A qd qa qb

theorem t4wf_toT3 {A : T4 𝕜} {qd qa qb : List Int} (h : T4Wf A qd qa qb) :
    T3Wf (toT3 A) (QN.flatten2 qd (QN.neg qd)) qa qb := by
  refine ⟨?_, h.d2, h.d3, ?_⟩
  · show A.d0 * A.d1 = _
    rw [flatten2_length, neg_length, h.d0, h.d1]
  · intro x a b hx ha hb hne
    have hx' : x < A.d0 * A.d1 := hx
    have h1 := div_lt_of_lt_mul hx'
    have h2 := mod_lt_of_lt_mul hx'
    have := h.sp _ _ a b h1 h2 ha hb hne
    have e : x = x / A.d1 * (QN.neg qd).length + x % A.d1 := by
      rw [neg_length, ← h.d1]; exact (Nat.div_add_mod' x A.d1).symm
    rw [e, flatten2_getD _ _ (by rw [← h.d0]; exact h1) (by rw [neg_length, ← h.d1]; exact h2), neg_getD]
    omega

theorem t4wf_of_toT3 {A : T4 𝕜} {qd qa qb : List Int} (h : T3Wf (toT3 A) (QN.flatten2 qd (QN.neg qd)) qa qb)
    (h0 : A.d0 = qd.length) (h1 : A.d1 = qd.length) : T4Wf A qd qa qb := by
  refine ⟨h0, h1, h.d1, h.d2, ?_⟩
  intro s t a b hs ht ha hb hne
  have hx : s * A.d1 + t < A.d0 * A.d1 := fused_lt hs ht
  have := h.sp (s * A.d1 + t) a b hx ha hb (by rw [toT3_f A ht]; exact hne)
  have e : s * A.d1 + t = s * (QN.neg qd).length + t := by rw [neg_length, h1]
  rw [e, flatten2_getD _ _ (by rw [← h0]; exact hs) (by rw [neg_length, ← h1]; exact ht), neg_getD] at this
  omega

/-- index form of `MPO.wellFormed` -/
theorem mpo_wellFormed_iff_idx (o : MPO 𝕜) : o.wellFormed = true ↔
    o.qD.length = o.A.length + 1 ∧
      ∀ i (h : i < o.A.length), T4Wf o.A[i] o.qd (o.qD.getD i []) (o.qD.getD (i + 1) []) := by
  unfold MPO.wellFormed
  rw [Bool.and_eq_true, beq_iff_eq, List.all_eq_true]
  refine and_congr Iff.rfl ?_
  constructor
  · intro h i hi
    have := h i (List.mem_range.2 hi)
    rw [List.getElem?_eq_getElem hi] at this
    simp only [Bool.and_eq_true, beq_iff_eq, isSparseT4_iff] at this
    exact ⟨this.1.1.1.1, this.1.1.1.2, this.1.1.2, this.1.2, this.2⟩
  · intro h i hi
    have hi' := List.mem_range.1 hi
    have := h i hi'
    rw [List.getElem?_eq_getElem hi']
    simp only [Bool.and_eq_true, beq_iff_eq, isSparseT4_iff]
    exact ⟨⟨⟨⟨this.d0, this.d1⟩, this.d2⟩, this.d3⟩, this.sp⟩

theorem wellFormed_toMPS {o : MPO 𝕜} (h : o.wellFormed = true) : (toMPS o).wellFormed = true := by
  rw [mpo_wellFormed_iff_idx] at h
  rw [wellFormed_iff_idx]
  refine ⟨by simpa [toMPS] using h.1, ?_⟩
  intro i hi
  have hi' : i < o.A.length := by simpa [toMPS] using hi
  have e : (toMPS o).A[i] = toT3 o.A[i] := by simp [toMPS]
  rw [e]
  exact t4wf_toT3 (h.2 i hi')

theorem wellFormed_of_toMPS {o : MPO 𝕜} (h : (toMPS o).wellFormed = true)
    (hd : ∀ B ∈ o.A, B.d0 = o.qd.length ∧ B.d1 = o.qd.length) : o.wellFormed = true := by
  rw [wellFormed_iff_idx] at h
  rw [mpo_wellFormed_iff_idx]
  refine ⟨by simpa [toMPS] using h.1, ?_⟩
  intro i hi
  have hi' : i < (toMPS o).A.length := by simpa [toMPS] using hi
  have e : (toMPS o).A[i] = toT3 o.A[i] := by simp [toMPS]
  have := h.2 i hi'
  rw [e] at this
  have hm := hd o.A[i] (List.getElem_mem hi)
  exact t4wf_of_toT3 this hm.1 hm.2

theorem phys_of_wellFormed {o : MPO 𝕜} (h : o.wellFormed = true) :
    ∀ B ∈ o.A, B.d0 = o.qd.length ∧ B.d1 = o.qd.length := by
  rw [mpo_wellFormed_iff_idx] at h
  intro B hB
  obtain ⟨i, hi, rfl⟩ := List.getElem_of_mem hB
  exact ⟨(h.2 i hi).d0, (h.2 i hi).d1⟩

end generic


section rc
variable {𝕜 : Type} [RCLike 𝕜] [DecidableEq 𝕜]
variable {dqr : Mat 𝕜 → Mat 𝕜 × Mat 𝕜}
attribute [local instance] rcRealLike

/-- hypotheses of C01 on an MPO: well-formed (`MPO.wellFormed`), `d ≥ 1`, `L ≥ 1`, all bond dimensions `≥ 1`,
boundary bonds of dimension one -/
structure MpoAdmissible (o : MPO 𝕜) : Prop where
  wf : o.wellFormed = true
  d_pos : 0 < o.qd.length
  nonempty : o.A ≠ []
  bond_pos : ∀ q ∈ o.qD, 0 < q.length
  first : (o.qD.head?.getD []).length = 1
  last : (o.qD.getLast?.getD []).length = 1

theorem toMPS_qd_length (o : MPO 𝕜) : (toMPS o).qd.length = o.qd.length * o.qd.length := by
  show (QN.flatten2 o.qd (QN.neg o.qd)).length = _
  rw [flatten2_length, neg_length]

theorem admissible_toMPS {o : MPO 𝕜} (h : MpoAdmissible o) : Admissible (toMPS o) :=
  ⟨wellFormed_toMPS h.wf, by rw [toMPS_qd_length]; exact Nat.mul_pos h.d_pos h.d_pos,
    by intro h0; apply h.nonempty; simpa [toMPS] using h0, h.bond_pos, h.first, h.last⟩

theorem mpoAdmissible_of_toMPS {o : MPO 𝕜} (h : Admissible (toMPS o)) (hd : 0 < o.qd.length)
    (hp : ∀ B ∈ o.A, B.d0 = o.qd.length ∧ B.d1 = o.qd.length) : MpoAdmissible o :=
  ⟨wellFormed_of_toMPS h.wf hp, hd, by intro h0; apply h.nonempty; simp [toMPS, h0], h.bond_pos, h.first, h.last⟩

theorem dims_one_iff4 (T : T4 𝕜) : (T.d0 == 1 && T.d1 == 1 && T.d2 == 1 && T.d3 == 1) = true ↔
    T.d0 = 1 ∧ T.d1 = 1 ∧ T.d2 = 1 ∧ T.d3 = 1 := by
  simp [and_assoc]

/-- a successful `MPO.orthonormalize(mode='left')` is a `LeftRun` of the matricized chain -/
theorem leftRun_of_mpo_left {o o' : MPO 𝕜} {nrm : ℝ} (hne : o.A ≠ [])
    (hrun : MPO.orthonormalize dqr o true = .ok (o', nrm)) :
    LeftRun dqr (toMPS o) (toMPS o') nrm ∧ o'.qd = o.qd ∧
      ∀ d, (∀ X ∈ o.A, X.d0 = d ∧ X.d1 = d) → ∀ B ∈ o'.A, B.d0 = d ∧ B.d1 = d := by
  obtain ⟨qd, qD, A⟩ := o
  cases A with
  | nil => exact absurd rfl hne
  | cons A0 rest =>
    cases qD with
    | nil => simp [MPO.orthonormalize] at hrun
    | cons q0 qrest =>
      rw [mpo_ortho_left_eq] at hrun
      cases hs : MPO.sweepLeftQr dqr qd A0 q0 rest qrest with
      | error e => rw [hs] at hrun; cases hrun
      | ok r =>
        obtain ⟨As, qs, T⟩ := r
        rw [hs] at hrun
        dsimp only at hrun
        obtain ⟨hsw, hphys⟩ := mpo_sweepLeft_of_run hs
        by_cases hT : (T.d0 == 1 && T.d1 == 1 && T.d2 == 1 && T.d3 == 1) = true
        · rw [if_pos hT] at hrun
          obtain ⟨t0, t1, t2, t3⟩ := (dims_one_iff4 T).1 hT
          have hT0 : (toT3 T).d0 = 1 := by show T.d0 * T.d1 = 1; rw [t0, t1]
          have hf : (toT3 T).f 0 0 0 = T.f 0 0 0 0 := by
            show T.f (0 / T.d1) (0 % T.d1) 0 0 = _
            rw [Nat.zero_div, Nat.zero_mod]
          by_cases hn : (RealLike.re (T.f 0 0 0 0) : ℝ) < 0
          · rw [if_pos hn] at hrun
            injection hrun with h
            injection h with h1 h2
            subst h1
            refine ⟨⟨toT3 A0, rest.map toT3, q0, qrest, As.map toT3, qs, toT3 T, rfl, rfl, hsw, hT0, t2, t3,
              Or.inl ⟨by rw [hf]; exact hn, ?_, by rw [hf]; exact h2.symm⟩⟩, rfl, ?_⟩
            · show (⟨_, _, (negLast4 As).map toT3⟩ : MPS 𝕜) = _
              rw [negLast4_map_toT3]; rfl
            · intro d hd; exact negLast4_phys (hphys d hd)
          · rw [if_neg hn] at hrun
            injection hrun with h
            injection h with h1 h2
            subst h1
            exact ⟨⟨toT3 A0, rest.map toT3, q0, qrest, As.map toT3, qs, toT3 T, rfl, rfl, hsw, hT0, t2, t3,
              Or.inr ⟨by rw [hf]; exact hn, rfl, by rw [hf]; exact h2.symm⟩⟩, rfl, hphys⟩
        · rw [if_neg hT] at hrun; cases hrun


theorem mirror_toMPS_A (A : List (T4 𝕜)) :
    ((A.map toT3).reverse.map T3.swap12) = A.reverse.map fun X => (toT3 X).swap12 := by
  rw [← List.map_reverse, List.map_map]
  rfl

theorem negLast4_map_mirror (As : List (T4 𝕜)) :
    ((negLast4 As).map fun X => (toT3 X).swap12) = negLast (As.map fun X => (toT3 X).swap12) := by
  have e : ∀ l : List (T4 𝕜), (l.map fun X => (toT3 X).swap12) = (l.map toT3).map T3.swap12 := by
    intro l; rw [List.map_map]; rfl
  rw [e, e, negLast4_map_toT3, negLast_map_swap]

/-- a successful `MPO.orthonormalize(mode='right')` is a `LeftRun` of the mirrored matricized chain -/
theorem leftRun_of_mpo_right {o o' : MPO 𝕜} {nrm : ℝ} (hne : o.A ≠ [])
    (hrun : MPO.orthonormalize dqr o false = .ok (o', nrm)) :
    LeftRun dqr (mirror (toMPS o)) (mirror (toMPS o')) nrm ∧ o'.qd = o.qd ∧
      ∀ d, (∀ X ∈ o.A, X.d0 = d ∧ X.d1 = d) → ∀ B ∈ o'.A, B.d0 = d ∧ B.d1 = d := by
  obtain ⟨qd, qD, A⟩ := o
  cases A with
  | nil => exact absurd rfl hne
  | cons A0 rest =>
    cases hAr : (A0 :: rest).reverse with
    | nil => simp at hAr
    | cons Al rrest =>
      cases hqr : qD.reverse with
      | nil =>
        unfold MPO.orthonormalize at hrun
        simp only [Bool.false_eq_true, if_false] at hrun
        rw [hAr, hqr] at hrun
        cases hrun
      | cons ql qrrest =>
        rw [mpo_ortho_right_eq qd A0 rest qD hAr hqr] at hrun
        cases hs : MPO.sweepRightQr dqr qd Al ql rrest qrrest with
        | error e => rw [hs] at hrun; cases hrun
        | ok r =>
          obtain ⟨As, qs, T⟩ := r
          rw [hs] at hrun
          dsimp only at hrun
          obtain ⟨hsw, hphys⟩ := mpo_sweepRight_of_run hs
          have hphys' : ∀ d, (∀ X ∈ A0 :: rest, X.d0 = d ∧ X.d1 = d) → ∀ B ∈ As, B.d0 = d ∧ B.d1 = d := by
            intro d hd
            refine hphys d ?_
            intro X hX
            refine hd X ?_
            rw [← List.mem_reverse, hAr]; exact hX
          by_cases hT : (T.d0 == 1 && T.d1 == 1 && T.d2 == 1 && T.d3 == 1) = true
          · rw [if_pos hT] at hrun
            obtain ⟨t0, t1, t2, t3⟩ := (dims_one_iff4 T).1 hT
            have hT0 : (toT3 T).d0 = 1 := by show T.d0 * T.d1 = 1; rw [t0, t1]
            have hf : (toT3 T).swap12.f 0 0 0 = T.f 0 0 0 0 := by
              show T.f (0 / T.d1) (0 % T.d1) 0 0 = _
              rw [Nat.zero_div, Nat.zero_mod]
            injection hrun with h
            injection h with h1 h2
            subst h1
            have hA' : (mirror (toMPS (⟨qd, qD, A0 :: rest⟩ : MPO 𝕜))).A =
                (toT3 Al).swap12 :: rrest.map fun X => (toT3 X).swap12 := by
              show (((A0 :: rest).map toT3).reverse.map T3.swap12) = _
              rw [mirror_toMPS_A, hAr]; rfl
            have hq' : (mirror (toMPS (⟨qd, qD, A0 :: rest⟩ : MPO 𝕜))).qD = QN.neg ql :: qrrest.map QN.neg := by
              show qD.reverse.map QN.neg = _
              rw [hqr]; rfl
            refine ⟨⟨(toT3 Al).swap12, rrest.map fun X => (toT3 X).swap12, QN.neg ql, qrrest.map QN.neg,
              As.map fun X => (toT3 X).swap12, qs.map QN.neg, (toT3 T).swap12, hA', hq', hsw, hT0, t3, t2, ?_⟩,
              rfl, ?_⟩
            · by_cases hn : (RealLike.re (T.f 0 0 0 0) : ℝ) < 0
              · rw [if_pos hn] at h2 ⊢
                refine Or.inl ⟨by rw [hf]; exact hn, ?_, by rw [hf]; exact h2.symm⟩
                show (⟨_, ((ql :: qs).reverse).reverse.map QN.neg,
                  (((negLast4 As).reverse).map toT3).reverse.map T3.swap12⟩ : MPS 𝕜) = _
                rw [mirror_toMPS_A, List.reverse_reverse, List.reverse_reverse, negLast4_map_mirror]
                rfl
              · rw [if_neg hn] at h2 ⊢
                refine Or.inr ⟨by rw [hf]; exact hn, ?_, by rw [hf]; exact h2.symm⟩
                show (⟨_, ((ql :: qs).reverse).reverse.map QN.neg,
                  ((As.reverse).map toT3).reverse.map T3.swap12⟩ : MPS 𝕜) = _
                rw [mirror_toMPS_A, List.reverse_reverse, List.reverse_reverse]
                rfl
            · intro d hd B hB
              have hB' : B ∈ (if (RealLike.re (T.f 0 0 0 0) : ℝ) < 0 then negLast4 As else As) :=
                List.mem_reverse.1 hB
              split at hB'
              · exact negLast4_phys (hphys' d hd) B hB'
              · exact hphys' d hd B hB'
          · rw [if_neg hT] at hrun; cases hrun

/-- `MPO.orthonormalize(mode='left')` raises no exception on admissible input (kernel: shape clause only) -/
theorem mpo_left_ok (hshape : ∀ B, ShapeAt dqr B) {o : MPO 𝕜} (hadm : MpoAdmissible o) :
    ∃ o' nrm, MPO.orthonormalize (ρ := ℝ) dqr o true = .ok (o', nrm) := by
  have hadm' := admissible_toMPS hadm
  obtain ⟨qd, qD, A⟩ := o
  cases A with
  | nil => exact absurd rfl hadm.nonempty
  | cons A0 rest =>
    cases qD with
    | nil => have := hadm.last; simp at this
    | cons q0 qrest =>
      have hA' : (toMPS (⟨qd, q0 :: qrest, A0 :: rest⟩ : MPO 𝕜)).A = toT3 A0 :: rest.map toT3 := rfl
      have hq' : (toMPS (⟨qd, q0 :: qrest, A0 :: rest⟩ : MPO 𝕜)).qD = q0 :: qrest := rfl
      obtain ⟨hw, h0, hl⟩ := hadm'.chain hA' hq'
      have hw' : WfChain (QN.flatten2 qd (QN.neg qd)) q0 ((A0 :: rest).map toT3) qrest := hw
      obtain ⟨As, qs, T, hs⟩ := mpo_sweepLeft_ok hshape hadm'.d_pos (by omega) hw' hl
      obtain ⟨t0, t1, t2⟩ := (mpo_sweepLeft_of_run hs).1.dims_one hshape hadm'.d_pos (by omega) hw hl
      have t0' : T.d0 * T.d1 = 1 := t0
      have hT : (T.d0 == 1 && T.d1 == 1 && T.d2 == 1 && T.d3 == 1) = true :=
        (dims_one_iff4 T).2 ⟨Nat.eq_one_of_mul_eq_one_right t0', Nat.eq_one_of_mul_eq_one_left t0', t1, t2⟩
      rw [mpo_ortho_left_eq, hs]
      dsimp only
      rw [if_pos hT]
      split
      · exact ⟨_, _, rfl⟩
      · exact ⟨_, _, rfl⟩

/-- `MPO.orthonormalize(mode='right')` raises no exception on admissible input (kernel: shape clause only) -/
theorem mpo_right_ok (hshape : ∀ B, ShapeAt dqr B) {o : MPO 𝕜} (hadm : MpoAdmissible o) :
    ∃ o' nrm, MPO.orthonormalize (ρ := ℝ) dqr o false = .ok (o', nrm) := by
  have hadm1 := admissible_toMPS hadm
  have hadm' := admissible_mirror hadm1
  obtain ⟨qd, qD, A⟩ := o
  cases A with
  | nil => exact absurd rfl hadm.nonempty
  | cons A0 rest =>
    cases hAr : (A0 :: rest).reverse with
    | nil => simp at hAr
    | cons Al rrest =>
      cases hqr : qD.reverse with
      | nil =>
        have := hadm.last
        have hq : qD = [] := by simpa using hqr
        simp [hq] at this
      | cons ql qrrest =>
        have hA' : (mirror (toMPS (⟨qd, qD, A0 :: rest⟩ : MPO 𝕜))).A =
            (toT3 Al).swap12 :: rrest.map fun X => (toT3 X).swap12 := by
          show (((A0 :: rest).map toT3).reverse.map T3.swap12) = _
          rw [mirror_toMPS_A, hAr]; rfl
        have hq' : (mirror (toMPS (⟨qd, qD, A0 :: rest⟩ : MPO 𝕜))).qD = QN.neg ql :: qrrest.map QN.neg := by
          show qD.reverse.map QN.neg = _
          rw [hqr]; rfl
        obtain ⟨hw, h0, hl⟩ := hadm'.chain hA' hq'
        have hw' : WfChain (QN.flatten2 qd (QN.neg qd)) (QN.neg ql) ((Al :: rrest).map fun X => (toT3 X).swap12)
            (qrrest.map QN.neg) := hw
        have hql : 0 < ql.length := by rw [neg_length] at h0; omega
        obtain ⟨As, qs, T, hs⟩ := mpo_sweepRight_ok hshape hadm1.d_pos hql hw' hl
        obtain ⟨t0, t1, t2⟩ := (mpo_sweepRight_of_run hs).1.dims_one hshape hadm1.d_pos (by omega) hw hl
        have t0' : T.d0 * T.d1 = 1 := t0
        have hT : (T.d0 == 1 && T.d1 == 1 && T.d2 == 1 && T.d3 == 1) = true :=
          (dims_one_iff4 T).2 ⟨Nat.eq_one_of_mul_eq_one_right t0', Nat.eq_one_of_mul_eq_one_left t0', t2, t1⟩
        rw [mpo_ortho_right_eq qd A0 rest qD hAr hqr, hs]
        dsimp only
        rw [if_pos hT]
        exact ⟨_, _, rfl⟩

end rc
end Ptn.Ortho

import PtnModel.Proofs.EvoExactLeftA
import PtnModel.Proofs.EvoExactLeftB
import PtnModel.Proofs.EvoExactRightA
import PtnModel.Proofs.EvoExactRightB
import PtnModel.Proofs.EvoExactCentre
/-!
# Exactness of complete single-site TDVP time steps on a complete manifold

The bond dimensions of the sweep state `s` (canonical, centre `0`) are those of a complete manifold with centre `m`
(`Complete qd L m s`): sites `j < m` have the dimensions of square left isometries, sites `j > m` those of square right
isometries.  Then in one time step `LR(dt); K_{L-1}(dt); RL(dt)` all sub-steps cancel in pairs except the two one-site
steps with `dt/2` at site `m` (one step with `dt` if `m = L-1`), which act on the dense state as `E(-dt/2 · H_dense)`:

* forward half sweep (`FwdInv`): for `i ≤ m` the dense state is unchanged (`tdvp1Left_cancel`); for `i > m` the centre tensor
  is `E(+τ H_eff) X` where `s[i := X]` holds `E(-τ H_dense) ψ₀` (`tdvp1Left_tail`, `centre_step_dense` at `i = m`);
* the step at the last site turns `E(+τ H_eff) X` into `E(-τ H_eff) X` (or is itself the exact step if `m = L-1`);
* backward half sweep (`BwdInv`): for `i > m` the centre tensor is `E(-τ H_eff) X` (`tdvp1Right_head`), at `i = m` the second
  exact step with `τ` happens, for `i ≤ m` the dense state `E(-dt H_dense) ψ₀` is unchanged (`tdvp1Right_cancel`).
-/
set_option linter.unusedSectionVars false

namespace Ptn.Evo
open Ptn Ptn.BondOps Ptn.Ortho Ptn.Env Ptn.Krylov Ptn.Dense Finset

/-! ## loops with a trace predicate -/

theorem foldIdx_range_all {σ : Type} (f : σ → Nat → Except Err σ) (Q : σ → Nat → Prop) (P : Nat → σ → Prop) :
    ∀ (n : Nat), (∀ i, i < n → ∀ s s', P i s → Q s i → f s i = .ok s' → P (i + 1) s') →
    ∀ (s r : σ), P 0 s → FoldAll f Q (List.range n) s → foldIdx f (List.range n) s = .ok r → P n r
  | 0, _, s, r, h0, _, hr => by
    unfold foldIdx at hr
    rw [List.range_zero, foldlM_ok_nil] at hr
    subst hr; exact h0
  | n + 1, step, s, r, h0, hall, hr => by
    rw [List.range_succ, foldIdx_append] at hr
    obtain ⟨t, h1, h2⟩ := hr
    rw [List.range_succ, foldAll_append] at hall
    have ht := foldIdx_range_all f Q P n (fun i hi => step i (by omega)) s t h0 hall.1 h1
    rw [foldIdx_single] at h2
    exact step n (by omega) t r ht (hall.2 t h1).1 h2

theorem foldIdx_down_all {σ : Type} (f : σ → Nat → Except Err σ) (Q : σ → Nat → Prop) (P : Nat → σ → Prop) :
    ∀ (n : Nat), (∀ i, i < n → ∀ s s', P (i + 1) s → Q s (i + 1) → f s (i + 1) = .ok s' → P i s') →
    ∀ (s r : σ), P n s → FoldAll f Q ((List.range n).reverse.map (· + 1)) s →
      foldIdx f ((List.range n).reverse.map (· + 1)) s = .ok r → P 0 r
  | 0, _, s, r, h0, _, hr => by
    unfold foldIdx at hr
    simp only [List.range_zero, List.reverse_nil, List.map_nil] at hr
    rw [foldlM_ok_nil] at hr
    subst hr; exact h0
  | n + 1, step, s, r, h0, hall, hr => by
    rw [idxR_succ] at hr hall
    unfold foldIdx at hr
    rw [foldlM_ok_cons] at hr
    obtain ⟨t, h1, h2⟩ := hr
    have ht := step n (by omega) s t h0 hall.1 h1
    exact foldIdx_down_all f Q P n (fun i hi => step i (by omega)) t r ht (hall.2 t h1) h2

variable {𝕜 : Type} [RCLike 𝕜] [DecidableEq 𝕜]
variable {k : EvoKernels 𝕜 ℝ} {H : MPO 𝕜} {qd : List Int} {numiter : Nat}

omit [DecidableEq 𝕜] in
theorem sameDims_setA (s : Sweep 𝕜) (c : Nat) (X : T3 𝕜) : SameDims s (setA s c X) := fun _ => rfl

/-! ## the forward half sweep -/

/-- invariant of the left-to-right half sweep, before the call at site `i` -/
def FwdInv (k : EvoKernels 𝕜 ℝ) (H : MPO 𝕜) (qd : List Int) (dt : 𝕜) (m : Nat) (s : Sweep 𝕜) (i : Nat) (t : Sweep 𝕜) :
    Prop :=
  Canon H qd t i ∧ SameDims s t ∧
  (i ≤ m → SameAmp qd H.A.length s t) ∧
  (m < i → ∃ X : T3 𝕜, SiteSpec k H t i (-(-(k.half * dt))) X ∧
    DenseExp H qd.length k.dexp (-(k.half * dt)) (cur qd s).amp (cur qd (setA t i X)).amp)

theorem fwd_step (ctx : SweepCtx k H qd numiter) (hE : ExpLaw k.dexp) {dt : 𝕜} {m : Nat} {s : Sweep 𝕜}
    (hcomp : Complete qd H.A.length m s) {i : Nat} (hi : i < H.A.length - 1) {t t' : Sweep 𝕜}
    (hinv : FwdInv k H qd dt m s i t) (hex : LeftExact false k H qd dt numiter t i)
    (hrun : tdvp1Left k H qd dt numiter t i = .ok t') : FwdInv k H qd dt m s (i + 1) t' := by
  obtain ⟨hcan, hdims, hle, hgt⟩ := hinv
  have hi1 : i + 1 < H.A.length := by omega
  have hcomp' := hcomp.of_dims hdims
  have hcan' : Canon H qd t' (i + 1) := tdvp1Left_canon ctx hcan hi1 hrun
  rcases Nat.lt_trichotomy i m with him | him | him
  · -- the pair cancels
    obtain ⟨hd, ha⟩ := tdvp1Left_cancel ctx hE hcan hi1 (hcomp'.2.1 i him) hrun hex
    exact ⟨hcan', hdims.trans hd, fun _ => (hle (by omega)).trans ha, fun h => absurd h (by omega)⟩
  · -- the exact half step at the centre of the manifold
    subst him
    obtain ⟨hd, hmid, A1, X', h1, hs', ha⟩ :=
      tdvp1Left_tail ctx hcan hi1 (hcomp'.2.2 (i + 1) (by omega) hi1) hrun hex
    have hc := centre_step_dense ctx hcan (fun j hj => hcomp'.2.1 j hj) (fun j hj hj' => hcomp'.2.2 j hj hj') h1 hmid
    refine ⟨hcan', hdims.trans hd, fun h => absurd h (by omega), fun _ => ⟨X', hs', ?_⟩⟩
    exact hc.congr (fun σ hσ => ((hle (Nat.le_refl _)) σ hσ).symm) (fun σ hσ => ha σ hσ)
  · -- the zero-site step of the previous call is undone by the one-site step of this call
    obtain ⟨X, hsX, hdX⟩ := hgt him
    obtain ⟨hd, hmid, A1, X', h1, hs', ha⟩ :=
      tdvp1Left_tail ctx hcan hi1 (hcomp'.2.2 (i + 1) (by omega) hi1) hrun hex
    have hsr := siteSpec_run ctx hE hcan hsX h1 hmid
    have hcs : i < t.A.size := by rw [hcan.wf.sizeA]; omega
    have heq : T3Eqv A1 X := by
      have := siteSpec_zero hE hsr (by ring)
      rwa [getA_setA hcs] at this
    have hXA : SameAmp qd H.A.length (setA t i X) (setA t i A1) :=
      sameAmp_setA_congr hcan ⟨hsX.1, hsX.2.1, hsX.2.2.1⟩ heq
    refine ⟨hcan', hdims.trans hd, fun h => absurd h (by omega), fun _ => ⟨X', hs', ?_⟩⟩
    exact hdX.congr (fun _ _ => rfl) (fun σ hσ => (ha σ hσ).trans (hXA σ hσ))

/-! ## the step at the last site and the backward half sweep -/

/-- invariant of the right-to-left half sweep, before the call at site `i` (after it: centre `i-1`) -/
def BwdInv (k : EvoKernels 𝕜 ℝ) (H : MPO 𝕜) (qd : List Int) (dt : 𝕜) (m : Nat) (s : Sweep 𝕜) (i : Nat) (t : Sweep 𝕜) :
    Prop :=
  Canon H qd t i ∧ SameDims s t ∧
  (m < i → ∃ (γ : 𝕜) (X : T3 𝕜), γ + k.half * dt = 0 ∧ SiteSpec k H t i γ X ∧
    DenseExp H qd.length k.dexp (-(k.half * dt)) (cur qd s).amp (cur qd (setA t i X)).amp) ∧
  (i ≤ m → DenseExp H qd.length k.dexp (-dt) (cur qd s).amp (cur qd t).amp)

omit [DecidableEq 𝕜] in
theorem half_add {half dt : 𝕜} (hhalf : half + half = 1) : half * dt + half * dt = dt := by
  rw [← add_mul, hhalf, one_mul]

theorem mid_step (ctx : SweepCtx k H qd numiter) (hE : ExpLaw k.dexp) (hhalf : k.half + k.half = 1) {dt : 𝕜} {m : Nat}
    {s : Sweep 𝕜} (hcomp : Complete qd H.A.length m s) {s1 : Sweep 𝕜}
    (hinv : FwdInv k H qd dt m s (H.A.length - 1) s1) {Al : T3 𝕜}
    (hrun : localHamiltonianStep k (getBL s1 (H.A.length - 1)) (getBR s1 (H.A.length - 1))
      (H.A.getD (H.A.length - 1) zeroT4) (getA s1 (H.A.length - 1)) dt numiter = .ok Al)
    (hex : MidExact k H numiter s1 (H.A.length - 1)) :
    BwdInv k H qd dt m s (H.A.length - 1) (setA s1 (H.A.length - 1) Al) := by
  obtain ⟨hcan, hdims, hle, hgt⟩ := hinv
  have hcomp' := hcomp.of_dims hdims
  have hm : m < H.A.length := hcomp.1
  have hcan' := (centre_step_canon hcan hrun).1
  refine ⟨hcan', hdims.trans (sameDims_setA _ _ _), fun hlt => ?_, fun hge => ?_⟩
  · obtain ⟨X, hsX, hdX⟩ := hgt hlt
    have hsr := siteSpec_run ctx hE hcan hsX hrun hex
    refine ⟨_, X, ?_, hsr, ?_⟩
    · have := half_add (dt := dt) hhalf
      calc -(-(k.half * dt)) + -dt + k.half * dt = (k.half * dt + k.half * dt) - dt := by ring
        _ = 0 := by rw [this, sub_self]
    · rw [setA_setA]; exact hdX
  · have hc := centre_step_dense ctx hcan (fun j hj => hcomp'.2.1 j (by omega))
      (fun j hj hj' => absurd hj' (by omega)) hrun hex
    exact hc.congr (fun σ hσ => ((hle hge) σ hσ).symm) (fun _ _ => rfl)

theorem bwd_step (ctx : SweepCtx k H qd numiter) (hE : ExpLaw k.dexp) (hhalf : k.half + k.half = 1) {dt : 𝕜} {m : Nat}
    {s : Sweep 𝕜} (hcomp : Complete qd H.A.length m s) {i : Nat} (hi : i < H.A.length - 1) {t t' : Sweep 𝕜}
    (hinv : BwdInv k H qd dt m s (i + 1) t) (hex : RightExact false k H qd dt numiter t (i + 1))
    (hrun : tdvp1Right k H qd dt numiter t (i + 1) = .ok t') : BwdInv k H qd dt m s i t' := by
  obtain ⟨hcan, hdims, hgt, hle⟩ := hinv
  have hi1 : i + 1 < H.A.length := by omega
  have hcomp' := hcomp.of_dims hdims
  have hcan' : Canon H qd t' i := tdvp1Right_canon ctx hcan hrun
  by_cases him : i + 1 ≤ m
  · -- the pair cancels
    obtain ⟨hd, ha⟩ := tdvp1Right_cancel ctx hE hcan (hcomp'.2.1 i (by omega)) hrun hex
    refine ⟨hcan', hdims.trans hd, fun h => absurd h (by omega), fun _ => ?_⟩
    exact (hle him).congr (fun _ _ => rfl) (fun σ hσ => ha σ hσ)
  · have hlt : m < i + 1 := by omega
    obtain ⟨γ, X, hγ, hsX, hdX⟩ := hgt hlt
    obtain ⟨v, Ap2, hcv, hdv, hav, hrv, hxv, rfl⟩ :=
      tdvp1Right_head ctx hE hcan (hcomp'.2.2 (i + 1) hlt hi1) hrun hex hsX hγ
    have hdimsv := hdims.trans hdv
    have hdv' : DenseExp H qd.length k.dexp (-(k.half * dt)) (cur qd s).amp (cur qd v).amp :=
      hdX.congr (fun _ _ => rfl) (fun σ hσ => hav σ hσ)
    refine ⟨hcan', hdimsv.trans (sameDims_setA _ _ _), fun hmi => ?_, fun hmi => ?_⟩
    · -- still right of the centre of the manifold
      refine ⟨-(k.half * dt), getA v i, neg_add_cancel _, siteSpec_of_run ctx hcv hrv hxv, ?_⟩
      rw [setA_setA]
      exact hdv'.congr (fun _ _ => rfl) (fun σ hσ => (sameAmp_setA_self hcv) σ hσ)
    · -- the second exact half step at the centre of the manifold
      have hcv' := hcomp.of_dims hdimsv
      have him' : i = m := by omega
      have hc := centre_step_dense ctx hcv (fun j hj => hcv'.2.1 j (by omega))
        (fun j hj hj' => hcv'.2.2 j (by omega) hj') hrv hxv
      have := hdv'.comp hE hc
      refine this.congr_time ?_
      have h2 := half_add (dt := dt) hhalf
      calc -(k.half * dt) + -(k.half * dt) = -(k.half * dt + k.half * dt) := by ring
        _ = -dt := by rw [h2]

/-! ## one time step, several time steps -/

/-- **One complete time step on a complete manifold is the dense exponential.** -/
theorem tdvp1Step_exact (ctx : SweepCtx k H qd numiter) (hE : ExpLaw k.dexp) (hhalf : k.half + k.half = 1) {dt : 𝕜}
    {m : Nat} {s s' : Sweep 𝕜} (h : Canon H qd s 0) (hcomp : Complete qd H.A.length m s)
    (hS : tdvp1Step k H qd dt numiter s = .ok s') (hex : StepExact false k H qd dt numiter s) :
    Canon H qd s' 0 ∧ SameDims s s' ∧ DenseExp H qd.length k.dexp (-dt) (cur qd s).amp (cur qd s').amp := by
  obtain ⟨s1, Al, f1, f2, f3⟩ := tdvp1Step_unfold hS
  obtain ⟨hexL, hexrest⟩ := hex
  obtain ⟨hexM, hexR⟩ := hexrest s1 f1
  have h0 : FwdInv k H qd dt m s 0 s :=
    ⟨h, SameDims.refl s, fun _ => SameAmp.refl _ s, fun hlt => absurd hlt (by omega)⟩
  have hfwd := foldIdx_range_all (tdvp1Left k H qd dt numiter) (LeftExact false k H qd dt numiter)
    (fun i t => FwdInv k H qd dt m s i t) (H.A.length - 1)
    (fun i hi t t' ht hq hr => fwd_step ctx hE hcomp hi ht hq hr) s s1 h0 hexL f1
  have hmid := mid_step ctx hE hhalf hcomp hfwd f2 hexM
  have hbwd := foldIdx_down_all (tdvp1Right k H qd dt numiter) (RightExact false k H qd dt numiter)
    (fun i t => BwdInv k H qd dt m s i t) (H.A.length - 1)
    (fun i hi t t' ht hq hr => bwd_step ctx hE hhalf hcomp hi ht hq hr) _ s' hmid (hexR Al f2) f3
  exact ⟨hbwd.1, hbwd.2.1, hbwd.2.2.2 (Nat.zero_le _)⟩

/-- **`n` complete time steps on a complete manifold**: the dense state is multiplied by `E(-(n · dt) · H_dense)`. -/
theorem tdvp1Steps_exact (ctx : SweepCtx k H qd numiter) (hE : ExpLaw k.dexp) (hhalf : k.half + k.half = 1) {dt : 𝕜}
    {m : Nat} : ∀ (n : Nat) (s s' : Sweep 𝕜), Canon H qd s 0 → Complete qd H.A.length m s →
      iterate (tdvp1Step k H qd dt numiter) n s = .ok s' → RunExact false k H qd dt numiter n s →
      Canon H qd s' 0 ∧ SameDims s s' ∧
        DenseExp H qd.length k.dexp (-((n : 𝕜) * dt)) (cur qd s).amp (cur qd s').amp
  | 0, s, s', h, _, hS, _ => by
    unfold iterate at hS
    injection hS with hS; subst hS
    refine ⟨h, SameDims.refl s, (DenseExp.zero hE _).congr_time ?_⟩
    simp
  | n + 1, s, s', h, hcomp, hS, hex => by
    unfold iterate at hS
    rw [bind_ok] at hS
    obtain ⟨s1, hS1, hS2⟩ := hS
    obtain ⟨hc1, hd1, he1⟩ := tdvp1Step_exact ctx hE hhalf h hcomp hS1 hex.1
    obtain ⟨hc2, hd2, he2⟩ := tdvp1Steps_exact ctx hE hhalf n s1 s' hc1 (hcomp.of_dims hd1) hS2 (hex.2 s1 hS1)
    refine ⟨hc2, hd1.trans hd2, (he1.comp hE he2).congr_time ?_⟩
    push_cast
    ring

end Ptn.Evo

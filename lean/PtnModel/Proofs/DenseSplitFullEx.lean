import PtnModel.Proofs.DenseSplitFull
/-!
# A concrete instance of the hypotheses of `split_merge_tol0'` (non-vacuity) over `ℚ`

Two-site tensor of shape `(1·2, 1, 1)` with entries `[12/5, 16/5]`, all charges zero; the reshaped matrix is
`[[12/5, 16/5]] = 1 · 4 · [3/5, 4/5]` (an exact SVD with a non-trivial right factor), spectrum `[4]`, norm `4`,
`sqrt 4 = 2`.
-/
namespace Ptn.Dense.SplitQ
open Finset BondOps MPS Ptn.C12

def dsvd (B : Mat ℚ) : Mat ℚ × List ℚ × Mat ℚ :=
  (⟨B.m, min B.m B.n, fun i j => if i = j then 1 else 0⟩, [4],
   ⟨min B.m B.n, B.n, fun _ j => if j = 0 then 3 / 5 else 4 / 5⟩)

def k : SvdKernels ℚ ℚ := ⟨dsvd, fun _ => 4, fun _ => [0]⟩

def dsqrt (x : ℚ) : ℚ := if x = 4 then 2 else 0

def A : T3 ℚ := ⟨2, 1, 1, fun s _ _ => if s = 0 then 12 / 5 else 16 / 5⟩

/-- the matrix handed to `split_matrix_svd` -/
abbrev M : Mat ℚ := (splitMat A [0].length [0, 0].length).tab
abbrev q0 : List Int := QN.flatten2 [0] [0]
abbrev q1 : List Int := QN.flatten2 (QN.neg [0, 0]) [0]

theorem spectrum_eq : spectrum dsvd M q0 q1 = [4] := by decide +kernel

theorem contract : SVDContractOn (RingHom.id ℚ) k.dsvd M q0 q1 := by
  refine ⟨?_, ?_, ?_, ?_, ?_⟩
  · have h : ∀ B ∈ blocks M q0 q1, 0 < B.m → 0 < B.n →
        (dsvd B).1.m = B.m ∧ (dsvd B).1.n = min B.m B.n ∧ (dsvd B).2.1.length = min B.m B.n ∧
        (dsvd B).2.2.m = min B.m B.n ∧ (dsvd B).2.2.n = B.n := by decide +kernel
    exact h
  · have h : ∀ B ∈ blocks M q0 q1, ∀ i, i < B.m → ∀ j, j < B.n →
        ∑ p ∈ range (min B.m B.n), (dsvd B).1.f i p * (RingHom.id ℚ) ((dsvd B).2.1.getD p 0) * (dsvd B).2.2.f p j
          = B.f i j := by decide +kernel
    exact fun B hB i j hi hj => h B hB i hi j hj
  · have h : ∀ B ∈ blocks M q0 q1, ∀ p, p < min B.m B.n → ∀ p', p' < min B.m B.n →
        ∑ i ∈ range B.m, star ((dsvd B).1.f i p) * (dsvd B).1.f i p' = if p = p' then 1 else 0 := by
      decide +kernel
    exact fun B hB p p' hp hp' => h B hB p hp p' hp'
  · have h : ∀ B ∈ blocks M q0 q1, ∀ p, p < min B.m B.n → ∀ p', p' < min B.m B.n →
        ∑ j ∈ range B.n, (dsvd B).2.2.f p j * star ((dsvd B).2.2.f p' j) = if p = p' then 1 else 0 := by
      decide +kernel
    exact fun B hB p p' hp hp' => h B hB p hp p' hp'
  · have h : ∀ B ∈ blocks M q0 q1, ∀ x ∈ (dsvd B).2.1, 0 ≤ x := by decide +kernel
    exact h

theorem norm_contract : NormContract (spectrum k.dsvd M q0 q1) (k.dnorm (spectrum k.dsvd M q0 q1)) := by
  show NormContract (spectrum dsvd M q0 q1) 4
  rw [spectrum_eq]; unfold NormContract; decide +kernel

theorem sort_contract : SortContract (sortKeys (spectrum k.dsvd M q0 q1) (k.dnorm (spectrum k.dsvd M q0 q1)))
    (k.dargsort (sortKeys (spectrum k.dsvd M q0 q1) (k.dnorm (spectrum k.dsvd M q0 q1)))) := by
  show SortContract (sortKeys (spectrum dsvd M q0 q1) 4) [0]
  rw [spectrum_eq]; unfold SortContract sortKeys; decide +kernel

theorem sqrt_contract : ∀ x, (x = 0 ∨ x ∈ spectrum k.dsvd M q0 q1) → dsqrt x * dsqrt x = x := by
  intro x hx
  have : x = 0 ∨ x = 4 := by
    rcases hx with h | h
    · exact Or.inl h
    · right
      have h' : x ∈ spectrum dsvd M q0 q1 := h
      rw [spectrum_eq] at h'; simpa using h'
  rcases this with rfl | rfl
  · simp [dsqrt]
  · simp [dsqrt]; norm_num

theorem split_isOk : (splitMpsTensor k dsqrt A [0] [0, 0] [0] [0] 0 (0 : ℚ)).isOk = true ∧
    (splitMpsTensor k dsqrt A [0] [0, 0] [0] [0] 1 (0 : ℚ)).isOk = true ∧
    (splitMpsTensor k dsqrt A [0] [0, 0] [0] [0] 2 (0 : ℚ)).isOk = true := by decide +kernel

end Ptn.Dense.SplitQ

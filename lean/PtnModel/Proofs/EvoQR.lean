import PtnModel.Proofs.EvoChain
/-!
# The two QR gauge steps on the level of site tensors

`leftQR_iso`, `leftQR_prod`  : `A = Q R` (matricization of the site tensor to the left), `X' = Q` reshaped, `Y' = R · Y`;
`rightQR_iso`, `rightQR_prod`: the mirrored step (matricization of the transposed tensor), `Y' = Q` reshaped and transposed
back, `X' = X · Rᵀ`.
Also the unfolding of `local_orthonormalize_left_qr` / `…_right_qr` into the raw `qr` call.
-/
set_option linter.unusedSectionVars false

namespace Ptn.Evo
open Ptn Ptn.BondOps Ptn.Ortho Ptn.Env Finset

variable {𝕜 : Type} [RCLike 𝕜] [DecidableEq 𝕜]

/-- the reshaped `Q` of a left step is a left isometry -/
theorem leftQR_iso {A : T3 𝕜} {Q R : Mat 𝕜} {qb : List Int} (hf : QRFacts A.flattenLeft.tab Q R qb) :
    LeftIso (T3.ofFlattenLeft Q A.d0 A.d1).tab := by
  refine LeftIso.congr (T3Eqv.tab _) ?_
  intro p p' hp hp'
  have hp1 : p < qb.length := by rw [← hf.Qn]; exact hp
  have hp1' : p' < qb.length := by rw [← hf.Qn]; exact hp'
  have := hf.iso p p' hp1 hp1'
  rw [← this]
  show _ = ∑ i ∈ range (A.d0 * A.d1), _
  rw [sum_fused]
  rfl

/-- product clause of a left step: `Q · (R · Y) = A · Y` -/
theorem leftQR_prod {A Y Y' : T3 𝕜} {Q R : Mat 𝕜} {qb : List Int} (hf : QRFacts A.flattenLeft.tab Q R qb)
    (hY'f : ∀ s p c, s < Y.d0 → p < qb.length → c < Y.d2 → Y'.f s p c = ∑ b ∈ range A.d2, R.f p b * Y.f s b c)
    {s a s' y : Nat} (hs : s < A.d0) (ha : a < A.d1) (hs' : s' < Y.d0) (hy : y < Y.d2) :
    ∑ x ∈ range (T3.ofFlattenLeft Q A.d0 A.d1).tab.d2, (T3.ofFlattenLeft Q A.d0 A.d1).tab.f s a x * Y'.f s' x y =
      ∑ x ∈ range A.d2, A.f s a x * Y.f s' x y := by
  show ∑ x ∈ range Q.n, _ = _
  rw [hf.Qn]
  have hr : s * A.d1 + a < A.d0 * A.d1 := fused_lt hs ha
  have e1 : ∀ p ∈ range qb.length, (T3.ofFlattenLeft Q A.d0 A.d1).tab.f s a p * Y'.f s' p y =
      ∑ b ∈ range A.d2, (Q.f (s * A.d1 + a) p * R.f p b) * Y.f s' b y := by
    intro p hp
    have hp' : p < qb.length := Finset.mem_range.1 hp
    rw [Env.t3_tab_f (A := T3.ofFlattenLeft Q A.d0 A.d1) hs ha (by show p < Q.n; rw [hf.Qn]; exact hp'),
      hY'f s' p y hs' hp' hy]
    show Q.f (s * A.d1 + a) p * _ = _
    rw [Finset.mul_sum]
    exact Finset.sum_congr rfl fun b _ => by rw [mul_assoc]
  rw [Finset.sum_congr rfl e1, Finset.sum_comm]
  refine Finset.sum_congr rfl fun b hb => ?_
  have hb' : b < A.d2 := Finset.mem_range.1 hb
  rw [← Finset.sum_mul]
  congr 1
  have := hf.prod (s * A.d1 + a) b hr hb'
  rw [this, Mat.tab_f A.flattenLeft hr hb']
  show A.f ((s * A.d1 + a) / A.d1) ((s * A.d1 + a) % A.d1) b = _
  rw [fused_div ha, fused_mod ha]

/-- the reshaped and transposed `Q` of a right step is a right isometry -/
theorem rightQR_iso {A : T3 𝕜} {Q R : Mat 𝕜} {qb : List Int} (hf : QRFacts A.swap12.flattenLeft.tab Q R qb) :
    RightIso (T3.ofFlattenLeft Q A.d0 A.d2).swap12.tab := by
  intro p p' hp hp'
  have hp0 : p < Q.n := hp
  have hp0' : p' < Q.n := hp'
  have hp1 : p < qb.length := by rw [← hf.Qn]; exact hp0
  have hp1' : p' < qb.length := by rw [← hf.Qn]; exact hp0'
  have := hf.iso p p' hp1 hp1'
  rw [← this]
  show ∑ s ∈ range A.d0, ∑ b ∈ range A.d2, _ = ∑ i ∈ range (A.d0 * A.d2), _
  rw [sum_fused]
  refine Finset.sum_congr rfl fun s hs => Finset.sum_congr rfl fun b hb => ?_
  rw [Env.t3_tab_f (A := (T3.ofFlattenLeft Q A.d0 A.d2).swap12) (Finset.mem_range.1 hs) hp0 (Finset.mem_range.1 hb),
    Env.t3_tab_f (A := (T3.ofFlattenLeft Q A.d0 A.d2).swap12) (Finset.mem_range.1 hs) hp0' (Finset.mem_range.1 hb)]
  rfl

/-- product clause of a right step: `(X · Rᵀ) · Qᵀ = X · A` -/
theorem rightQR_prod {A X X' : T3 𝕜} {Q R : Mat 𝕜} {qb : List Int} (hf : QRFacts A.swap12.flattenLeft.tab Q R qb)
    (hX2 : X.d2 = A.d1) (hX'2 : X'.d2 = qb.length)
    (hX'f : ∀ s a p, s < X.d0 → a < X.d1 → p < qb.length → X'.f s a p = ∑ b ∈ range A.d1, X.f s a b * R.f p b)
    {s a s' y : Nat} (hs : s < X.d0) (ha : a < X.d1) (hs' : s' < A.d0) (hy : y < A.d2) :
    ∑ x ∈ range X'.d2, X'.f s a x * (T3.ofFlattenLeft Q A.d0 A.d2).swap12.tab.f s' x y =
      ∑ x ∈ range X.d2, X.f s a x * A.f s' x y := by
  rw [hX'2, hX2]
  have hr : s' * A.d2 + y < A.d0 * A.d2 := fused_lt hs' hy
  have e1 : ∀ p ∈ range qb.length, X'.f s a p * (T3.ofFlattenLeft Q A.d0 A.d2).swap12.tab.f s' p y =
      ∑ b ∈ range A.d1, X.f s a b * (Q.f (s' * A.d2 + y) p * R.f p b) := by
    intro p hp
    have hp' : p < qb.length := Finset.mem_range.1 hp
    rw [Env.t3_tab_f (A := (T3.ofFlattenLeft Q A.d0 A.d2).swap12) hs' (by show p < Q.n; rw [hf.Qn]; exact hp') hy,
      hX'f s a p hs ha hp']
    show _ * Q.f (s' * A.d2 + y) p = _
    rw [Finset.sum_mul]
    exact Finset.sum_congr rfl fun b _ => by ring
  rw [Finset.sum_congr rfl e1, Finset.sum_comm]
  refine Finset.sum_congr rfl fun b hb => ?_
  have hb' : b < A.d1 := Finset.mem_range.1 hb
  rw [← Finset.mul_sum]
  congr 1
  have := hf.prod (s' * A.d2 + y) b hr hb'
  rw [this, Mat.tab_f A.swap12.flattenLeft hr hb']
  show A.f ((s' * A.d2 + y) / A.d2) b ((s' * A.d2 + y) % A.d2) = _
  rw [fused_div hy, fused_mod hy]

/-! ## unfolding the local orthonormalisation calls -/

theorem localLeft_run {dqr : Mat 𝕜 → Mat 𝕜 × Mat 𝕜} {A Anext : T3 𝕜} {qd qL qR : List Int} {A' Anext' : T3 𝕜}
    {qb : List Int} (h : MPS.localOrthoLeftQr dqr A Anext qd qL qR = .ok (A', Anext', qb)) :
    ∃ Q R, qr dqr A.flattenLeft.tab (QN.flatten2 qd qL) qR = .ok (Q, R, qb) ∧ R.n = Anext.d1 ∧
      A' = (T3.ofFlattenLeft Q A.d0 A.d1).tab ∧ Anext' = pushR R Anext := by
  rw [localLeft_eq] at h
  cases hq : qr dqr A.flattenLeft.tab (QN.flatten2 qd qL) qR with
  | error e => rw [hq] at h; cases h
  | ok r =>
    obtain ⟨Q, R, qb'⟩ := r
    rw [hq] at h
    dsimp only at h
    by_cases hc : R.n ≠ Anext.d1
    · rw [if_pos hc] at h; cases h
    · rw [if_neg hc] at h
      injection h with h
      injection h with h1 h
      injection h with h2 h3
      subst h3 h1 h2
      exact ⟨Q, R, rfl, not_not.1 hc, rfl, rfl⟩

theorem localRight_run {dqr : Mat 𝕜 → Mat 𝕜 × Mat 𝕜} {A Aprev : T3 𝕜} {qd qL qR : List Int} {A' Aprev' : T3 𝕜}
    {qb : List Int} (h : MPS.localOrthoRightQr dqr A Aprev qd qL qR = .ok (A', Aprev', qb)) :
    ∃ Q R qb', qr dqr A.swap12.flattenLeft.tab (QN.flatten2 qd (QN.neg qR)) (QN.neg qL) = .ok (Q, R, qb') ∧
      R.n = Aprev.d2 ∧ A' = (T3.ofFlattenLeft Q A.d0 A.d2).swap12.tab ∧ Aprev' = pushL R Aprev ∧ qb = QN.neg qb' := by
  rw [localRight_eq] at h
  cases hq : qr dqr A.swap12.flattenLeft.tab (QN.flatten2 qd (QN.neg qR)) (QN.neg qL) with
  | error e => rw [hq] at h; cases h
  | ok r =>
    obtain ⟨Q, R, qb'⟩ := r
    rw [hq] at h
    dsimp only at h
    by_cases hc : R.n ≠ Aprev.d2
    · rw [if_pos hc] at h; cases h
    · rw [if_neg hc] at h
      injection h with h
      injection h with h1 h
      injection h with h2 h3
      subst h3 h1 h2
      exact ⟨Q, R, qb', rfl, not_not.1 hc, rfl, rfl, rfl⟩

end Ptn.Evo

import PtnModel.Proofs.KryFullDmrgSweep
import PtnModel.Proofs.KryFullEvoExample
import PtnModel.Proofs.EvoTotLocal
/-!
# Non-vacuity witness for `Props/C10Exact.lean`

The one-site system `exHz = σ_z` of `Proofs/KryFullEvoExample.lean` (dense operator `diag(1, -1)`, ground-state energy `-1`, ground
state `|1⟩`), the prologue state of `exψ1 = (1, i)`, kernels `exKF`, two Lanczos iterations: all hypotheses of
`C10.dmrg_centre_step_exact` hold and the local optimisation returns the exact ground-state energy (`exz_dmrg`).
-/
set_option linter.unusedSectionVars false
namespace Ptn.Evo
open Ptn Ptn.BondOps Ptn.Ortho Ptn.Env Ptn.Krylov Ptn.Dense Finset

theorem sum_digitsU_two_one {β : Type} [AddCommMonoid β] (F : List Nat → β) : ∑ σ ∈ digitsU 2 1, F σ = F [0] + F [1] := by
  rw [sum_digitsU_succ]
  simp [digitsU, Finset.sum_range_succ]

theorem exHz_elem00 : exHz.elem [0] [0] = 1 := by
  simp [MPO.elem, MPO.elemRow, exHz, sumRange, List.range_succ]
theorem exHz_elem01 : exHz.elem [0] [1] = 0 := by
  simp [MPO.elem, MPO.elemRow, exHz, sumRange, List.range_succ]
theorem exHz_elem10 : exHz.elem [1] [0] = 0 := by
  simp [MPO.elem, MPO.elemRow, exHz, sumRange, List.range_succ]
theorem exHz_elem11 : exHz.elem [1] [1] = -1 := by
  simp [MPO.elem, MPO.elemRow, exHz, sumRange, List.range_succ]

/-- the ground state `|1⟩` of `σ_z` -/
noncomputable def exGround : List Nat → ℂ := fun σ => if σ = [1] then 1 else 0

theorem exHz_lower : DenseLower exHz 2 (-1) := by
  intro x
  have hL : exHz.A.length = 1 := rfl
  rw [hL]
  simp only [sum_digitsU_two_one, exHz_elem00, exHz_elem01, exHz_elem10, exHz_elem11]
  have h0 : RCLike.re (star (x [0]) * 1 * x [0]) = ‖x [0]‖ ^ 2 := by
    rw [mul_one, ← starRingEnd_apply, RCLike.conj_mul]; norm_cast
  have h1 : RCLike.re (star (x [1]) * -1 * x [1]) = -‖x [1]‖ ^ 2 := by
    rw [mul_neg, mul_one, neg_mul, ← starRingEnd_apply, RCLike.conj_mul]; norm_cast
  simp only [mul_zero, zero_mul, add_zero, zero_add, map_add, h0, h1]
  nlinarith [sq_nonneg ‖x [0]‖, sq_nonneg ‖x [1]‖]

theorem exGround_eig : DenseEig exHz 2 (-1) exGround := by
  intro σ hσ
  have hL : exHz.A.length = 1 := rfl
  rw [hL] at hσ ⊢
  rw [sum_digitsU_two_one]
  have hσ' : σ ∈ digits [2] := hσ
  obtain ⟨s0, r, h0, hr, rfl⟩ := mem_digits_cons.1 hσ'
  simp only [digits_nil, Finset.mem_singleton] at hr
  subst hr
  interval_cases s0 <;> simp [exGround, exHz_elem00, exHz_elem01, exHz_elem10, exHz_elem11]

/-- a one-site canonical state: its only tensor is the centre tensor, with left bond dimension one -/
theorem cur_one_site {s : Sweep ℂ} (h : Canon exHz [0, 0] s 0) :
    (cur [0, 0] s).A = [getA s 0] ∧ (getA s 0).d1 = 1 := by
  obtain ⟨a0, a1, a2⟩ := h.wf.shape 0 h.hc
  have hs : s.A.size = 1 := h.wf.sizeA
  refine ⟨?_, a1.trans h.q0⟩
  have hl : (cur [0, 0] s).A.length = 1 := by rw [cur_length, hs]
  have hg := cur_getElem? [0, 0] s (j := 0) (by omega)
  match hc : (cur [0, 0] s).A, hl, hg with
  | [x], _, hg => simp at hg; rw [hg]

/-- **all hypotheses of `C10.dmrg_centre_step_exact` hold jointly for an actual run, and the exact ground-state energy is
reached**: the one-site system `exHz = σ_z` (ground-state energy `-1`, ground state `|1⟩`), the prologue state of `exψ1 = (1, i)`
(norm one, overlap `i/√2` with the ground state), kernels `exKF`, two Lanczos iterations: the local Lanczos run is full-length,
`_minimize_local_energy` returns, and the returned energy is `-1` -/
theorem exz_dmrg : ∃ (s0 : Sweep ℂ) (nrm E0 en : ℝ) (Aopt : T3 ℂ),
    SweepCtx exKF exHz [0, 0] 2 ∧ prologue exKF exHz exψ1 = .ok (s0, nrm) ∧ DInv exHz [0, 0] s0 0 E0 ∧
    (∀ j, j < 0 → SqL [0, 0] s0 j) ∧ (∀ j, 0 < j → j < exHz.A.length → SqR [0, 0] s0 j) ∧
    MidFull exKF exHz 2 s0 0 ∧
    minimizeLocalEnergy exKF (getBL s0 0) (getBR s0 0) (exHz.A.getD 0 zeroT4) (getA s0 0) 2 = .ok (en, Aopt) ∧
    DenseLower exHz 2 (-1) ∧ DenseEig exHz 2 (-1) exGround ∧
    ∑ σ ∈ digitsU 2 exHz.A.length, star (exGround σ) * (cur [0, 0] s0).amp σ ≠ 0 ∧
    CentreHit exKF exHz [0, 0] 2 (-1) s0 0 ∧ en = -1 := by
  obtain ⟨s0, _, nrm, ctx, _, _, hp, hcan0, _, _, _⟩ := exFull1 0 0
  obtain ⟨ψ1, E0, ho, hcur, hinv0⟩ := prologue_inv (exKF_ctx 2) rfl exψ1_adm hp
  have hb := exz_prologue_bal hp
  have hmid := exz_mid hinv0.can hb.1 hb.2
  have hvL : ∀ j, j < 0 → SqL [0, 0] s0 j := fun j hj => absurd hj (Nat.not_lt_zero j)
  have hvR : ∀ j, 0 < j → j < exHz.A.length → SqR [0, 0] s0 j := fun j hj hj' => absurd hj' (by show ¬ j < 1; omega)
  -- the local optimisation returns
  obtain ⟨hn0, _⟩ := canon_centre hinv0.can (exKF_ctx 2).hH
  have hfr : frob3 (getA s0 0) = 1 := by
    have := hn0.symm.trans hinv0.nrm
    apply RCLike.ofReal_injective (K := ℂ)
    rw [this]; simp
  have hpos : 0 < exKF.cnorm (flat3 (getA s0 0)) := cnorm_pos_flat3 (exKF_ctx 2).norm (by rw [hfr]; exact one_pos)
  obtain ⟨⟨en, Aopt⟩, hm⟩ := minimize_isOk (k := exKF) (L := getBL s0 0) (R := getBR s0 0) (W := exHz.A.getD 0 zeroT4)
    (exKF_ctx 2).norm hpos (by omega : 1 ≤ 2) ((exKF_ctx 2).eigh _ _)
  -- overlap with the ground state
  obtain ⟨hA, a1'⟩ := cur_one_site hinv0.can
  have hov : ∑ σ ∈ digitsU 2 exHz.A.length, star (exGround σ) * (cur [0, 0] s0).amp σ ≠ 0 := by
    show ∑ σ ∈ digitsU 2 1, star (exGround σ) * (cur [0, 0] s0).amp σ ≠ 0
    rw [sum_digitsU_two_one, amp_one_site _ _ hA a1', amp_one_site _ _ hA a1']
    have h1 : (getA s0 0).f 1 0 0 ≠ 0 := by
      intro h0
      have := hb.1
      rw [h0, norm_zero, norm_eq_zero] at this
      exact hb.2 this
    simpa [exGround] using h1
  have hhit : CentreHit exKF exHz [0, 0] 2 (-1) s0 0 := ⟨hvL, hvR, hmid, exGround, exGround_eig, hov⟩
  refine ⟨s0, nrm, E0, en, Aopt, exKF_ctx 2, hp, hinv0, hvL, hvR, hmid, hm, exHz_lower, exGround_eig, hov, hhit, ?_⟩
  exact le_antisymm (dmrg_centre_reach (exKF_ctx 2) hinv0.can hvL hvR hm hmid exGround_eig hov)
    ((minimize_inv (exKF_ctx 2) hinv0 hm).2.2.1 (-1) exHz_lower)

end Ptn.Evo

import PtnModel.Proofs.ChainMpoWords
/-!
# Sums over all words versus sums over a list of terms

`sum_words_terms`: for a list of terms `(word, coefficient)` whose letters all lie in the duplicate-free alphabet `ids`,
`Σ_{w ∈ ids^n} (Σ_{(v, c) ∈ terms, v = w} c) · Π_k opmap[w_k][s_k][t_k] = Σ_{(v, c) ∈ terms} c · Π_k opmap[v_k][s_k][t_k]`
(terms whose length is not `n` contribute `0` on both sides).
-/
set_option linter.unusedSectionVars false

namespace Ptn.Ch
open Ptn Ptn.Og List

variable {κ : Type} [CommRing κ] [DecidableEq κ]

theorem mem_wordsOver (ids : List Int) : ∀ (n : Nat) (v : Word), v ∈ wordsOver ids n ↔ v.length = n ∧ ∀ o ∈ v, o ∈ ids := by
  intro n
  induction n with
  | zero =>
    intro v
    simp only [wordsOver, mem_singleton]
    constructor
    · rintro rfl; simp
    · intro h; exact length_eq_zero_iff.1 h.1
  | succ n ih =>
    intro v
    simp only [wordsOver, mem_flatMap, mem_map]
    constructor
    · rintro ⟨o, ho, w, hw, rfl⟩
      obtain ⟨h1, h2⟩ := (ih w).1 hw
      refine ⟨by simp [h1], ?_⟩
      intro x hx
      rcases mem_cons.1 hx with rfl | hx
      · exact ho
      · exact h2 x hx
    · rintro ⟨h1, h2⟩
      cases v with
      | nil => simp at h1
      | cons o w =>
        exact ⟨o, h2 o (by simp), w, (ih w).2 ⟨by simpa using h1, fun x hx => h2 x (by simp [hx])⟩, rfl⟩

theorem sum_pick_int {l : List Int} (hl : l.Nodup) (a : Int) (F : Int → κ) :
    (l.map fun o => if a = o then F o else 0).sum = if a ∈ l then F a else 0 := by
  induction l with
  | nil => simp
  | cons x l ih =>
    obtain ⟨hx, hl'⟩ := nodup_cons.1 hl
    simp only [map_cons, sum_cons, ih hl', mem_cons]
    by_cases h : a = x
    · subst h
      simp [hx]
    · simp [h]

/-- picking one word out of a sum over all words -/
theorem sum_words_pick (ids : List Int) (hnd : ids.Nodup) : ∀ (n : Nat) (v : Word) (F : Word → κ),
    ((wordsOver ids n).map fun w => if v = w then F w else 0).sum = if v ∈ wordsOver ids n then F v else 0 := by
  intro n
  induction n with
  | zero =>
    intro v F
    simp only [wordsOver, map_cons, map_nil, sum_cons, sum_nil, add_zero, mem_singleton]
    by_cases h : v = []
    · subst h; simp
    · simp [h]
  | succ n ih =>
    intro v F
    have hL : ∀ G : Word → κ, ((wordsOver ids (n + 1)).map G).sum
        = (ids.map fun o => ((wordsOver ids n).map fun w => G (o :: w)).sum).sum := by
      intro G
      simp only [wordsOver]
      rw [sum_flatMap]
      simp only [map_map, Function.comp_def]
    rw [hL]
    cases v with
    | nil =>
      have h0 : ¬ ([] : Word) ∈ wordsOver ids (n + 1) := by
        intro h; have := ((mem_wordsOver ids _ _).1 h).1; simp at this
      rw [if_neg h0]
      apply sum_map_eq_zero
      intro o _
      apply sum_map_eq_zero
      intro w _
      simp
    | cons a v' =>
      have h1 : ∀ o, ((wordsOver ids n).map fun w => if a :: v' = o :: w then F (o :: w) else 0).sum
          = if a = o then (if v' ∈ wordsOver ids n then F (o :: v') else 0) else 0 := by
        intro o
        by_cases hao : a = o
        · subst hao
          rw [if_pos rfl, ← ih v' (fun w => F (a :: w))]
          apply sum_map_congr
          intro w _
          by_cases hw : v' = w <;> simp [hw]
        · rw [if_neg hao]
          apply sum_map_eq_zero
          intro w _
          simp [hao]
      rw [sum_map_congr _ _ _ (fun o _ => h1 o), sum_pick_int hnd a (fun o => if v' ∈ wordsOver ids n then F (o :: v') else 0)]
      have hm : (a :: v') ∈ wordsOver ids (n + 1) ↔ a ∈ ids ∧ v' ∈ wordsOver ids n := by
        rw [mem_wordsOver, mem_wordsOver]
        simp only [length_cons, Nat.add_right_cancel_iff, mem_cons, forall_eq_or_imp]
        tauto
      by_cases ha : a ∈ ids <;> by_cases hv : v' ∈ wordsOver ids n <;> simp [ha, hv, hm]

/-- `wordWeight` vanishes on words of the wrong length -/
theorem wordWeight_length (opmap : OpMap κ) : ∀ (w : Word) (ss ts : List Nat), w.length ≠ ss.length →
    wordWeight opmap w ss ts = 0 := by
  intro w
  induction w with
  | nil =>
    intro ss ts h
    cases ss with
    | nil => simp at h
    | cons s ss => cases ts <;> rfl
  | cons o w ih =>
    intro ss ts h
    cases ss with
    | nil => cases ts <;> rfl
    | cons s ss =>
      cases ts with
      | nil => rfl
      | cons t ts =>
        simp only [wordWeight]
        rw [ih ss ts (by simpa using h), mul_zero]

/-- **a sum over all words weighted by the coefficients of a term list is the sum over the terms** -/
theorem sum_words_terms (terms : List (Word × κ)) (ids : List Int) (hnd : ids.Nodup)
    (hall : ∀ p ∈ terms, ∀ o ∈ p.1, o ∈ ids) (opmap : OpMap κ) (ss ts : List Nat) :
    ((wordsOver ids ss.length).map fun w =>
        (terms.map fun p => if p.1 = w then p.2 else 0).sum * wordWeight opmap w ss ts).sum
      = (terms.map fun p => p.2 * wordWeight opmap p.1 ss ts).sum := by
  have h1 : ∀ w, (terms.map fun p => if p.1 = w then p.2 else 0).sum * wordWeight opmap w ss ts
      = (terms.map fun p => if p.1 = w then p.2 * wordWeight opmap w ss ts else 0).sum := by
    intro w
    rw [← sum_map_mul_const]
    apply sum_map_congr
    intro p _
    by_cases h : p.1 = w <;> simp [h]
  rw [sum_map_congr _ _ _ (fun w _ => h1 w), sum_sum_comm]
  apply sum_map_congr
  intro p hp
  rw [sum_words_pick ids hnd ss.length p.1 (fun w => p.2 * wordWeight opmap w ss ts)]
  by_cases hm : p.1 ∈ wordsOver ids ss.length
  · rw [if_pos hm]
  · rw [if_neg hm]
    have : p.1.length ≠ ss.length := by
      intro hl
      exact hm ((mem_wordsOver ids _ _).2 ⟨hl, hall p hp⟩)
    rw [wordWeight_length opmap _ _ _ this, mul_zero]

end Ptn.Ch

import PtnModel.Proofs.SpecEigh
import PtnModel.Proofs.EvoExample
/-!
# Kernels over `ℂ` satisfying the sweep contracts for EVERY number of Lanczos iterations

`Evo.exK` (`Proofs/EvoExample.lean`) satisfies `SweepCtx` only for `numiter = 1` (its `eigh_tridiagonal` oracle `triv1` is
correct for `1 × 1` problems).  Replacing that oracle by `C15.eighExact` (`Proofs/SpecEigh.lean`) gives kernels `exKE` with
`SweepCtx exKE exOC [0, 1] numiter` for every `numiter`: the hypotheses of the sweep theorems of C08/C09/C10 are jointly
satisfiable for every iteration count.
-/
namespace Ptn.Evo
open Ptn Ptn.Krylov Ptn.Env Ptn.Ortho Ptn.Dense

/-- `exK` with the exact `eigh_tridiagonal` kernel -/
noncomputable def exKE : EvoKernels ℂ ℝ := { exK with deigh := C15.eighExact }

/-- the context of the sweep theorems for kernels whose `eigh_tridiagonal` oracle is `eighExact`, every `numiter` -/
theorem sweepCtx_of_eighExact {𝕜 : Type} [RCLike 𝕜] [DecidableEq 𝕜] {k : EvoKernels 𝕜 ℝ} {H : MPO 𝕜} {qd : List Int}
    (hk : k.deigh = C15.eighExact) (hqr : C01.QRKernel k.dqr) (hn : NormContract k.cnorm)
    (hH : C04.MPO.Shaped H qd.length) (hh : C04.MPO.DenseHermitian H qd.length) (hd : 0 < qd.length) (numiter : Nat) :
    SweepCtx k H qd numiter :=
  SweepCtx.of_contract hqr hn (by rw [hk]; exact C15.eighExact_contract) hH hh hd numiter

theorem exKE_ctx (numiter : Nat) : SweepCtx exKE exOC [0, 1] numiter :=
  sweepCtx_of_eighExact (k := exKE) rfl ⟨realQR_contract, realQR_realDiag⟩ sqrtNorm_contract exOC_shaped exOC_herm (by decide) numiter

end Ptn.Evo

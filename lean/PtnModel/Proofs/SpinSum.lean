import PtnModel.Proofs.Ham2JW5
/-!
# Sums over `2 L` modes as sums over spatial orbitals and spins

* `four_sum_fn`  : the antisymmetrisation `Σ_ijkl V_ijkl a†_i a†_j a_l a_k = Σ_{i<j,k<l} (V_ijkl - V_jikl - V_ijlk + V_jilk) a†_i a†_j a_l a_k`
                   for an arbitrary coefficient function (the proof of `four_sum`, `Proofs/Ham2JW5.lean`);
* `S2_spin`      : a four-fold sum over modes restricted to `σ(m1) = σ(m3)`, `σ(m2) = σ(m4)` is `Σ_ijkl Σ_στ` with `m = 2 i + σ`;
* `S2_spin_diag` : the two-fold analogue for the hopping terms.
-/
set_option linter.unusedSectionVars false

namespace Ptn.Spin
open Ptn Ptn.Og Ptn.Ham Ptn.Ch Ptn.Ham2 List

variable {κ : Type} [CommRing κ] [DecidableEq κ]

/-! ## antisymmetrisation for a coefficient function -/

/-- `four_sum` of `Proofs/Ham2JW5.lean` for an arbitrary coefficient function `V` (in place of `½ v4 vint`) -/
theorem four_sum_fn (V : Nat → Nat → Nat → Nat → κ) (n : Nat) (s t : List Nat) (hs : s.length = n) (ht : t.length = n) :
    S2 n (fun i j => S2 n (fun k l => V i j k l * jw4 n i j k l s t))
      = S2 n (fun i j => if i < j then
          S2 n (fun k l => if k < l then (V i j k l - V j i k l - V i j l k + V j i l k) * jw4 n i j k l s t else 0) else 0) := by
  have inner : ∀ i j : Nat,
      S2 n (fun k l => V i j k l * jw4 n i j k l s t)
        = S2 n (fun k l => if k < l then (V i j k l - V i j l k) * jw4 n i j k l s t else 0) := by
    intro i j
    exact S2_antisym n (fun k l => V i j k l) (fun k l => jw4 n i j k l s t)
      (fun k l hkl hl => jw4_swap_kl n i j k l hkl hl s t ht) (fun k hk => jw4_diag_kl n i j k hk s t ht)
  rw [S2_congr n _ _ (fun i _ j _ => inner i j), S2_split]
  have hdiag : ((List.range n).map fun (i : Nat) => S2 n (fun k l => if k < l then
      (V i i k l - V i i l k) * jw4 n i i k l s t else 0)).sum = 0 := by
    apply Ch.sum_map_eq_zero
    intro i hi
    refine Eq.trans (S2_congr n _ (fun _ _ => 0) ?_) (S2_zero n)
    intro k _ l _
    rw [jw4_diag_ij n i k l (mem_range.1 hi) s t hs, mul_zero]
    simp
  rw [hdiag, add_zero]
  apply S2_congr
  intro i _ j hj
  by_cases hij : i < j
  · rw [if_pos hij, if_pos hij, ← S2_add]
    apply S2_congr
    intro k _ l _
    by_cases hkl : k < l
    · simp only [hkl, if_true]
      rw [jw4_swap_ij n i j k l hij hj s t hs]
      ring
    · simp [hkl]
  · rw [if_neg hij, if_neg hij]

/-! ## re-indexing `2 L` modes as (spatial orbital, spin) -/

theorem range_double_succ (L : Nat) : List.range (2 * (L + 1)) = List.range (2 * L) ++ [2 * L, 2 * L + 1] := by
  have : 2 * (L + 1) = (2 * L + 1) + 1 := by omega
  rw [this, range_succ, range_succ]
  simp

/-- `Σ_{m < 2L} f m = Σ_{i < L} (f (2i) + f (2i+1))` -/
theorem sum_range_double (L : Nat) (f : Nat → κ) :
    ((List.range (2 * L)).map f).sum = ((List.range L).map fun i => ((List.range 2).map fun σ => f (2 * i + σ)).sum).sum := by
  induction L with
  | zero => simp
  | succ L ih =>
    rw [range_double_succ, map_append, sum_append, ih, range_succ (n := L), map_append, sum_append]
    simp [List.range_succ]

/-- `Σ_{m < 2L, m % 2 = σ} g m = Σ_{k < L} g (2k + σ)` -/
theorem sum_range_parity (L σ : Nat) (hσ : σ < 2) (g : Nat → κ) :
    ((List.range (2 * L)).map fun m => if σ = m % 2 then g m else 0).sum = ((List.range L).map fun k => g (2 * k + σ)).sum := by
  rw [sum_range_double]
  apply Ch.sum_map_congr
  intro k _
  have : σ = 0 ∨ σ = 1 := by omega
  rcases this with rfl | rfl <;> simp [List.range_succ, Nat.add_mod]

/-- the double sum over modes with both spins matched against given spins -/
theorem S2_parity (L σ τ : Nat) (hσ : σ < 2) (hτ : τ < 2) (F : Nat → Nat → κ) :
    S2 (2 * L) (fun m3 m4 => if σ = m3 % 2 ∧ τ = m4 % 2 then F m3 m4 else 0) = S2 L (fun k l => F (2 * k + σ) (2 * l + τ)) := by
  unfold S2
  have h1 : ∀ m3 ∈ List.range (2 * L), ((List.range (2 * L)).map fun m4 => if σ = m3 % 2 ∧ τ = m4 % 2 then F m3 m4 else 0).sum
      = if σ = m3 % 2 then ((List.range L).map fun l => F m3 (2 * l + τ)).sum else 0 := by
    intro m3 _
    by_cases h : σ = m3 % 2
    · rw [if_pos h, ← sum_range_parity L τ hτ]
      apply Ch.sum_map_congr
      intro m4 _
      simp [h]
    · rw [if_neg h]
      apply Ch.sum_map_eq_zero
      intro m4 _
      simp [h]
  rw [Ch.sum_map_congr _ _ _ h1, sum_range_parity L σ hσ (fun m3 => ((List.range L).map fun l => F m3 (2 * l + τ)).sum)]

/-- a double sum over modes as a double sum over spatial orbitals and spins -/
theorem S2_double (L : Nat) (G : Nat → Nat → κ) :
    S2 (2 * L) G = S2 L (fun i j => S2 2 (fun σ τ => G (2 * i + σ) (2 * j + τ))) := by
  unfold S2
  rw [sum_range_double]
  apply Ch.sum_map_congr
  intro i _
  have h1 : ∀ σ ∈ List.range 2, ((List.range (2 * L)).map fun m2 => G (2 * i + σ) m2).sum
      = ((List.range L).map fun j => ((List.range 2).map fun τ => G (2 * i + σ) (2 * j + τ)).sum).sum :=
    fun σ _ => sum_range_double L _
  rw [Ch.sum_map_congr _ _ _ h1, Ch.sum_sum_comm]

theorem S2_two (f : Nat → Nat → κ) : S2 2 f = f 0 0 + f 0 1 + (f 1 0 + f 1 1) := by
  simp [S2, List.range_succ]

/-- exchanging the spin double sum with a spatial double sum -/
theorem S2_two_comm (L : Nat) (f : Nat → Nat → Nat → Nat → κ) :
    S2 2 (fun σ τ => S2 L (fun k l => f σ τ k l)) = S2 L (fun k l => S2 2 (fun σ τ => f σ τ k l)) := by
  rw [S2_two]
  have : (fun k l => S2 2 (fun σ τ => f σ τ k l)) = fun k l => f 0 0 k l + f 0 1 k l + (f 1 0 k l + f 1 1 k l) := by
    funext k l
    rw [S2_two]
  rw [this, S2_add, S2_add, S2_add]

/-- **spin-conserving four-index sum**: the sum over four modes restricted to `σ(m1) = σ(m3)`, `σ(m2) = σ(m4)` is the sum over four
spatial orbitals and two spins -/
theorem S2_spin (L : Nat) (F : Nat → Nat → Nat → Nat → κ) :
    S2 (2 * L) (fun m1 m2 => S2 (2 * L) (fun m3 m4 => if m1 % 2 = m3 % 2 ∧ m2 % 2 = m4 % 2 then F m1 m2 m3 m4 else 0))
      = S2 L (fun i j => S2 L (fun k l => S2 2 (fun σ τ => F (2 * i + σ) (2 * j + τ) (2 * k + σ) (2 * l + τ)))) := by
  have h1 : ∀ m1 m2 : Nat, S2 (2 * L) (fun m3 m4 => if m1 % 2 = m3 % 2 ∧ m2 % 2 = m4 % 2 then F m1 m2 m3 m4 else 0)
      = S2 L (fun k l => F m1 m2 (2 * k + m1 % 2) (2 * l + m2 % 2)) :=
    fun m1 m2 => S2_parity L (m1 % 2) (m2 % 2) (Nat.mod_lt _ (by omega)) (Nat.mod_lt _ (by omega)) (F m1 m2)
  rw [S2_congr _ _ _ (fun m1 _ m2 _ => h1 m1 m2), S2_double]
  apply S2_congr
  intro i _ j _
  rw [← S2_two_comm]
  apply S2_congr
  intro σ hσ τ hτ
  have e1 : (2 * i + σ) % 2 = σ := by omega
  have e2 : (2 * j + τ) % 2 = τ := by omega
  rw [e1, e2]

/-- the spin-diagonal double sum (kinetic term) -/
theorem S2_spin_diag (L : Nat) (G : Nat → Nat → κ) :
    S2 (2 * L) (fun m1 m2 => if m1 % 2 = m2 % 2 then G m1 m2 else 0)
      = S2 L (fun i j => ((List.range 2).map fun σ => G (2 * i + σ) (2 * j + σ)).sum) := by
  rw [S2_double]
  apply S2_congr
  intro i _ j _
  rw [S2_two]
  have e2 : (2 * i + 1) % 2 = 1 := by omega
  have e4 : (2 * j + 1) % 2 = 1 := by omega
  simp [e2, e4, List.range_succ]

/-- sum over a filtered list -/
theorem sum_filter {α : Type} (l : List α) (p : α → Bool) (f : α → κ) :
    ((l.filter p).map f).sum = (l.map fun a => if p a = true then f a else 0).sum := by
  induction l with
  | nil => rfl
  | cons a l ih =>
    by_cases h : p a = true
    · simp [h, ih]
    · simp [h, ih]

end Ptn.Spin

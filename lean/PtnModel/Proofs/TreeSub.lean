import PtnModel.Proofs.TreeInsert
/-!
# `_insert_subtree` adds exactly the padded path sum of the tree
-/
set_option linter.unusedSectionVars false

namespace Ptn.Og
open List Ptn.Dense

variable {κ : Type} [CommRing κ] [DecidableEq κ]

/-- frame conditions of an insertion below the node `r` -/
structure Grows (g g' : Graph κ) (r : Int) : Prop where
  sv : SValid g'
  term : g'.nidTerminal = g.nidTerminal
  keys : ∀ k ∈ dKeys g.nodes, k ∈ dKeys g'.nodes
  edges : ∃ new, g'.edgeList = g.edgeList ++ new ∧ ∀ e ∈ new,
    (e.nids.1 = r ∨ e.nids.1 ∉ dKeys g.nodes) ∧ e.nids.1 ≠ g.term true ∧
    (e.nids.2 = g.term true ∨ e.nids.2 ∉ dKeys g.nodes)

/-- a target-closed set of old nodes that contains the terminal and the old successors of `r`, but not `r` -/
structure UHyps (g : Graph κ) (U : Int → Prop) (r : Int) : Prop where
  closed : ∀ e ∈ g.edgeList, U e.nids.1 → U e.nids.2
  sub : ∀ y, U y → y ∈ dKeys g.nodes
  notr : r ≠ g.term true → ¬ U r
  out : ∀ e ∈ g.edgeList, e.nids.1 = r → U e.nids.2
  term : U (g.term true)

theorem Grows.refl {g : Graph κ} (sv : SValid g) (r : Int) : Grows g g r :=
  ⟨sv, rfl, fun _ h => h, [], by simp, by simp⟩

theorem Grows.term' {g g' : Graph κ} {r : Int} (h : Grows g g' r) (d : Bool) : g'.term d = g.term d := by
  simp [Graph.term, h.term]

/-- the statement for a subtree -/
def SubtreeSpec (id : Int) (T : TNode κ) : Prop :=
  ∀ (g : Graph κ) (r dist : Int) (g' : Graph κ) (U : Int → Prop),
    Graph.insertSubtree id T r dist g = .ok g' → SValid g → r ∈ dKeys g.nodes →
    (r = g.term true → dist = 0) → g.term true ≠ g.term false → UHyps g U r →
    Grows g g' r ∧ ∀ w, denE g'.edgeList (g.term true) w r =
      (if r = g.term true then 0 else denE g.edgeList (g.term true) w r) + T.coef id dist.toNat w

/-- the statement for a list of child edges -/
def ChildrenSpec (id : Int) (cs : List (Int × κ × TNode κ)) : Prop :=
  ∀ (g : Graph κ) (r dist : Int) (g' : Graph κ) (U : Int → Prop),
    Graph.insertChildren id cs r r dist g = .ok g' → SValid g → r ∈ dKeys g.nodes →
    r ≠ g.term true → g.term true ≠ g.term false → UHyps g U r →
    Grows g g' r ∧ ∀ w, denE g'.edgeList (g.term true) w r =
      denE g.edgeList (g.term true) w r + kidsCoef id cs dist.toNat w

theorem pyRepeat_length {α : Type} (n : Int) (x : α) : (pyRepeat n x).length = n.toNat := by
  simp [pyRepeat]

/-- leaves -/
theorem subtreeSpec_leaf (id q : Int) : SubtreeSpec (κ := κ) id (.mk q []) := by
  intro g r dist g' U h sv hr hrt ht01 hU
  rw [insertSubtree_eq] at h
  by_cases hneg : dist < 0
  · simp only [hneg, if_true] at h; cases h
  simp only [hneg, if_false] at h
  rw [bind_ok] at h
  obtain ⟨node, _, h⟩ := h
  by_cases hq : (node.qnum != q) = true
  · simp only [hq, if_true] at h; cases h
  simp only [hq, Bool.false_eq_true, if_false] at h
  by_cases hpos : dist > 0
  · -- identity string to the terminal node
    simp only [hpos, if_true] at h
    have hrne : r ≠ g.term true := fun hc => by have := hrt hc; omega
    obtain ⟨nidNext, eid0, sv', hterm, hkeys, hedges, _, _, _, _⟩ := insertOpchain_spec h sv hrne ht01 hrne
    rw [pyRepeat_length] at hkeys hedges
    set ys := idRange nidNext (dist - 1).toNat with hys
    have hnd : (dKeys g.nodes ++ ys).Nodup := hkeys ▸ sv'.nodesKeys
    have hfresh : ∀ y ∈ ys, y ∉ dKeys g.nodes := fun y hy hc => (List.disjoint_of_nodup_append hnd) hc hy
    have hzip : (pyRepeat dist id).zip (pyRepeat dist (1 : κ)) = List.replicate dist.toNat (id, (1 : κ)) := by
      simp [pyRepeat, zip_replicate']
    have hlen : (ys ++ [g.term true]).length = ((pyRepeat dist id).zip (pyRepeat dist (1 : κ))).length := by
      rw [hzip]; simp only [length_append, hys, idRange_length, length_cons, length_nil, length_replicate]; omega
    refine ⟨⟨sv', hterm, fun k hk => by rw [hkeys]; exact mem_append_left _ hk, _, hedges, ?_⟩, ?_⟩
    · intro e he
      have hs : e.nids.1 ∈ r :: ys := by
        have := chainEdges_sources eid0 r _ _ hlen
        rw [← cons_append, dropLast_concat] at this
        rw [← this]; exact mem_map.2 ⟨e, he, rfl⟩
      have ht : e.nids.2 ∈ ys ++ [g.term true] := by
        rw [← chainEdges_targets eid0 r _ _ hlen]; exact mem_map.2 ⟨e, he, rfl⟩
      refine ⟨?_, ?_, ?_⟩
      · rcases mem_cons.1 hs with h1 | h1
        · exact Or.inl h1
        · exact Or.inr (hfresh _ h1)
      · rcases mem_cons.1 hs with h1 | h1
        · rw [h1]; exact hrne
        · exact fun hc => hfresh _ h1 (hc ▸ sv.term_mem true)
      · rcases mem_append.1 ht with h1 | h1
        · exact Or.inr (hfresh _ h1)
        · exact Or.inl (by simpa using h1)
    · intro w
      rw [if_neg hrne, hedges]
      have := chain_attached_sem g.edgeList [] (g.term true) U hU.closed r hrne (hU.notr hrne) hU.out eid0 ys
        (g.term true) ((pyRepeat dist id).zip (pyRepeat dist (1 : κ)))
        (by rw [hzip]; simp only [length_replicate, hys, idRange_length]; omega)
        (by
          rw [nodup_cons]
          exact ⟨fun hc => hfresh _ hc hr, (nodup_append.1 hnd).2.1⟩)
        (fun y hy => ⟨fun hc => hfresh y hy (hU.sub y hc), fun hc => hfresh y hy (hc ▸ sv.term_mem true),
          fun e he hc => hfresh y hy (hc ▸ sv.edge_src_mem he)⟩)
        (by simp) w
      simp only [append_nil] at this
      rw [this]
      congr 1
      rw [hzip]
      simp only [map_replicate]
      have hD : (fun w' => denE (g.edgeList ++ chainEdges eid0 r (ys ++ [g.term true])
          (List.replicate dist.toNat (id, (1 : κ)))) (g.term true) w' (g.term true)) =
          fun w' => if w' = [] then 1 else 0 := by
        funext w'; exact denE_term _ _ _
      rw [hD, chainCoef_id]
      simp [TNode.coef]
  · -- distance zero: we are at the terminal node
    simp only [hpos, if_false] at h
    rw [pyAssert_bind] at h
    obtain ⟨hrt', h⟩ := h
    rw [pure_ok] at h
    subst h
    have hrt'' : r = g.term true := by simpa using hrt'
    refine ⟨Grows.refl sv r, ?_⟩
    intro w
    have hd : dist = 0 := by omega
    rw [if_pos hrt'', hrt'', denE_term, hd]
    simp [TNode.coef]

theorem kidsCoef_cons (id oid : Int) (c : κ) (t : TNode κ) (cs : List (Int × κ × TNode κ)) (dist : Nat) (w : Word) :
    kidsCoef id ((oid, c, t) :: cs) dist w =
      (match w with
        | [] => 0
        | o :: w' => if o = oid then c * TNode.coef id t (dist - 1) w' else 0) + kidsCoef id cs dist w := by
  conv_lhs => rw [kidsCoef.eq_def]
  rfl

theorem childrenSpec_nil (id : Int) : ChildrenSpec (κ := κ) id [] := by
  intro g r dist g' U h sv hr hrt ht01 hU
  rw [insertChildren_nil] at h
  cases h
  exact ⟨Grows.refl sv r, fun w => by simp [kidsCoef]⟩

theorem childrenSpec_cons (id oid : Int) (coeff : κ) (child : TNode κ) (rest : List (Int × κ × TNode κ))
    (ihc : SubtreeSpec id child) (ihr : ChildrenSpec id rest) : ChildrenSpec id ((oid, coeff, child) :: rest) := by
  intro g r dist g3 U h sv hr hrt ht01 hU
  obtain ⟨y, eid, g1, g2, sv1, term1, edges1, hy, _, h4, h5⟩ := insertChildren_cons_ok h sv hrt ht01
  have t1 : ∀ d, g1.term d = g.term d := fun d => by simp [Graph.term, term1]
  have keys1 : ∀ k ∈ dKeys g.nodes, k ∈ dKeys g1.nodes := by
    intro k hk
    rcases hy with ⟨_, h1⟩ | ⟨_, h1, _⟩ <;> rw [h1]
    · exact mem_append_left _ hk
    · exact hk
  have hy1 : y ∈ dKeys g1.nodes := by
    rcases hy with ⟨_, h1⟩ | ⟨h0, h1, _⟩
    · rw [h1]; simp
    · rw [h1, h0]; exact sv.term_mem true
  have hyr : y ≠ r := by
    rcases hy with ⟨h0, _⟩ | ⟨h0, _, _⟩
    · exact fun hc => h0 (hc ▸ hr)
    · rw [h0]; exact fun hc => hrt hc.symm
  have hyfresh : y ≠ g.term true → y ∉ dKeys g.nodes := by
    intro hne
    rcases hy with ⟨h0, _⟩ | ⟨h0, _, _⟩
    · exact h0
    · exact absurd h0 hne
  obtain ⟨ek, hek⟩ : ∃ ek : Edge κ, ek = Edge.mk' eid (r, y) [(oid, coeff)] := ⟨_, rfl⟩
  rw [← hek] at edges1
  -- no old edge and not the new edge leaves `y`
  have noout1 : ∀ e ∈ g1.edgeList, e.nids.1 ≠ y := by
    intro e he hc
    rw [edges1, mem_append, mem_singleton] at he
    rcases he with he | rfl
    · by_cases hyt : y = g.term true
      · exact sv.edge_src_ne_term he (hc.trans hyt)
      · exact hyfresh hyt (hc ▸ sv.edge_src_mem he)
    · exact hyr (by simpa [hek] using hc.symm)
  -- the child
  have hUc : UHyps g1 (fun z => z = g.term true) y := by
    refine ⟨?_, ?_, ?_, ?_, ?_⟩
    · intro e he hs
      exact absurd hs (by rw [← t1 true]; exact sv1.edge_src_ne_term he)
    · intro z hz; rw [hz, ← t1 true]; exact sv1.term_mem true
    · intro hne; rw [t1] at hne; exact hne
    · intro e he hs; exact absurd hs (noout1 e he)
    · exact t1 true
  obtain ⟨gc, semc⟩ := ihc g1 y (dist - 1) g2 _ h4 sv1 hy1
    (by
      intro hyt
      rw [t1] at hyt
      rcases hy with ⟨h0, _⟩ | ⟨_, _, h0⟩
      · exact absurd (hyt ▸ sv.term_mem true) h0
      · omega)
    (by rw [t1, t1]; exact ht01) hUc
  obtain ⟨newc, edgesc, hnewc⟩ := gc.edges
  have t2 : ∀ d, g2.term d = g.term d := fun d => by rw [gc.term' d, t1]
  -- the remaining children
  have hU2 : UHyps g2 (fun z => U z ∨ (z ∈ dKeys g2.nodes ∧ z ∉ dKeys g.nodes)) r := by
    refine ⟨?_, ?_, ?_, ?_, ?_⟩
    · intro e he hs
      rw [edgesc, edges1, mem_append, mem_append, mem_singleton] at he
      rcases he with (he | rfl) | he
      · rcases hs with hs | ⟨_, hs⟩
        · exact Or.inl (hU.closed e he hs)
        · exact absurd (sv.edge_src_mem he) hs
      · rcases hs with hs | ⟨_, hs⟩
        · exact absurd (by simpa [hek] using hs) (hU.notr hrt)
        · exact absurd (by simpa [hek] using hr) hs
      · obtain ⟨_, _, htgt⟩ := hnewc e he
        rcases htgt with htgt | htgt
        · left; rw [htgt, t1]; exact hU.term
        · right
          refine ⟨gc.sv.edge_tgt_mem (by rw [edgesc]; exact mem_append_right _ he), fun hc => htgt (keys1 _ hc)⟩
    · intro z hz
      rcases hz with hz | ⟨hz, _⟩
      · exact gc.keys _ (keys1 _ (hU.sub z hz))
      · exact hz
    · intro _ hc
      rcases hc with hc | ⟨_, hc⟩
      · exact hU.notr hrt hc
      · exact hc hr
    · intro e he hs
      rw [edgesc, edges1, mem_append, mem_append, mem_singleton] at he
      rcases he with (he | rfl) | he
      · exact Or.inl (hU.out e he hs)
      · simp only [hek, Edge.mk'_nids]
        by_cases hyt : y = g.term true
        · left; rw [hyt]; exact hU.term
        · exact Or.inr ⟨gc.keys _ hy1, hyfresh hyt⟩
      · obtain ⟨hsrc, _, _⟩ := hnewc e he
        rcases hsrc with hsrc | hsrc
        · exact absurd (hsrc.symm.trans hs) hyr
        · exact absurd (hs ▸ keys1 _ hr) hsrc
    · rw [t2]; exact Or.inl hU.term
  obtain ⟨gr, semr⟩ := ihr g2 r dist g3 _ h5 gc.sv (gc.keys _ (keys1 _ hr)) (by rw [t2]; exact hrt)
    (by rw [t2, t2]; exact ht01) hU2
  obtain ⟨newr, edgesr, hnewr⟩ := gr.edges
  constructor
  · -- frame
    refine ⟨gr.sv, by rw [gr.term, gc.term, term1], fun k hk => gr.keys _ (gc.keys _ (keys1 _ hk)),
      [ek] ++ newc ++ newr, by rw [edgesr, edgesc, edges1]; simp, ?_⟩
    intro e he
    rw [mem_append, mem_append, mem_singleton] at he
    rcases he with (rfl | he) | he
    · simp only [hek, Edge.mk'_nids]
      refine ⟨Or.inl trivial, hrt, ?_⟩
      by_cases hyt : y = g.term true
      · exact Or.inl hyt
      · exact Or.inr (hyfresh hyt)
    · obtain ⟨hsrc, hne, htgt⟩ := hnewc e he
      rw [t1] at hne htgt
      refine ⟨Or.inr ?_, hne, ?_⟩
      · rcases hsrc with hsrc | hsrc
        · rw [hsrc]; exact hyfresh (hsrc ▸ hne)
        · exact fun hc => hsrc (keys1 _ hc)
      · rcases htgt with htgt | htgt
        · exact Or.inl htgt
        · exact Or.inr (fun hc => htgt (keys1 _ hc))
    · obtain ⟨hsrc, hne, htgt⟩ := hnewr e he
      rw [t2] at hne htgt
      refine ⟨?_, hne, ?_⟩
      · rcases hsrc with hsrc | hsrc
        · exact Or.inl hsrc
        · exact Or.inr (fun hc => hsrc (gc.keys _ (keys1 _ hc)))
      · rcases htgt with htgt | htgt
        · exact Or.inl htgt
        · exact Or.inr (fun hc => htgt (gc.keys _ (keys1 _ hc)))
  · -- meaning
    have key : ∀ w : Word, denE g2.edgeList (g.term true) w r = denE g.edgeList (g.term true) w r +
        (match w with
          | [] => 0
          | o :: w' => if o = oid then coeff * child.coef id (dist.toNat - 1) w' else 0) := by
      intro w
      cases w with
      | nil => simp [denE_nil]
      | cons o w' =>
        have hE2 : g2.edgeList = g.edgeList ++ ([ek] ++ newc) := by rw [edgesc, edges1, append_assoc]
        rw [hE2, denE_root_step g.edgeList ([ek] ++ newc) (g.term true) U hU.closed ?_ r hrt hU.out]
        · congr 1
          rw [map_append, sum_append, map_cons, map_nil, sum_cons, sum_nil, add_zero]
          have hz : (newc.map fun e => if e.nids.1 = r then
              opc e o * denE (g.edgeList ++ ([ek] ++ newc)) (g.term true) w' e.nids.2 else 0).sum = 0 := by
            apply sum_map_eq_zero
            intro e he
            obtain ⟨hsrc, _, _⟩ := hnewc e he
            have : e.nids.1 ≠ r := by
              rcases hsrc with hsrc | hsrc
              · rw [hsrc]; exact hyr
              · exact fun hc => hsrc (hc ▸ keys1 _ hr)
            simp [this]
          rw [hz, add_zero]
          have hek1 : ek.nids.1 = r := by rw [hek]; rfl
          have hek2 : ek.nids.2 = y := by rw [hek]; rfl
          have hopc : opc ek o = if oid = o then coeff else 0 := by rw [hek]; exact opc_single _ _ _ _ _
          simp only [hek1, hek2, if_true, hopc]
          rw [← hE2]
          have semc' := semc w'
          rw [t1] at semc'
          rw [semc']
          have hzero : (if y = g.term true then (0 : κ) else denE g1.edgeList (g.term true) w' y) = 0 := by
            by_cases hyt : y = g.term true
            · simp [hyt]
            · rw [if_neg hyt]; exact denE_no_out _ _ _ _ hyt noout1
          rw [hzero, zero_add]
          have hd : (dist - 1).toNat = dist.toNat - 1 := by omega
          rw [hd]
          by_cases ho : o = oid
          · subst ho; simp
          · have : ¬ oid = o := fun hc => ho hc.symm
            simp [ho, this]
        · intro e he
          rw [mem_append, mem_singleton] at he
          rcases he with rfl | he
          · simpa [hek] using hU.notr hrt
          · obtain ⟨hsrc, hne, _⟩ := hnewc e he
            rw [t1] at hne
            intro hc
            rcases hsrc with hsrc | hsrc
            · exact hyfresh (hsrc ▸ hne) (hsrc ▸ hU.sub _ hc)
            · exact hsrc (keys1 _ (hU.sub _ hc))
    intro w
    have semr' := semr w
    rw [t2] at semr'
    rw [semr', key, add_assoc, kidsCoef_cons]

theorem subtreeSpec_node (id q : Int) (cs : List (Int × κ × TNode κ)) (ih : ChildrenSpec id cs) :
    SubtreeSpec id (.mk q cs) := by
  cases cs with
  | nil => exact subtreeSpec_leaf id q
  | cons c cs =>
    intro g r dist g' U h sv hr hrt ht01 hU
    rw [insertSubtree_eq] at h
    by_cases hneg : dist < 0
    · simp only [hneg, if_true] at h; cases h
    simp only [hneg, if_false] at h
    rw [bind_ok] at h
    obtain ⟨node, hnode, h⟩ := h
    by_cases hq : (node.qnum != q) = true
    · simp only [hq, if_true] at h; cases h
    simp only [hq, Bool.false_eq_true, if_false] at h
    have hnid : node.nid = r := sv.nodeKey _ _ (mem_of_dGet?_eq_some (dGet_eq_ok_iff.1 hnode))
    rw [hnid] at h
    -- at the terminal node no child can be inserted
    have hrne : r ≠ g.term true := by
      intro hc
      have hd : dist = 0 := hrt hc
      obtain ⟨oid, coeff, child⟩ := c
      rw [insertChildren_cons_le _ _ _ _ _ _ _ _ _ (by omega)] at h
      rw [bind_ok] at h
      obtain ⟨g1, _, h⟩ := h
      rw [bind_ok] at h
      obtain ⟨g2, _, h⟩ := h
      rw [bind_ok] at h
      obtain ⟨g3, _, h⟩ := h
      rw [bind_ok] at h
      obtain ⟨g4, h4, _⟩ := h
      have := insertSubtree_dist_nonneg h4
      omega
    obtain ⟨gr, sem⟩ := ih g r dist g' U h sv hr hrne ht01 hU
    refine ⟨gr, fun w => ?_⟩
    rw [sem w, if_neg hrne, TNode.coef_node _ _ _ _ _ (by simp)]

/-- **`_insert_subtree` / the loop over the children**: both statements for all trees -/
theorem subtree_children_spec (id : Int) :
    (∀ T : TNode κ, SubtreeSpec id T) ∧ (∀ cs : List (Int × κ × TNode κ), ChildrenSpec id cs) :=
  TNode.induct2 (fun q cs ih => subtreeSpec_node id q cs ih) (childrenSpec_nil id)
    (fun oid c t cs ih1 ih2 => childrenSpec_cons id oid c t cs ih1 ih2)

end Ptn.Og

import Mathlib.Algebra.BigOperators.Ring.Finset
import Mathlib.Algebra.BigOperators.Intervals
import Mathlib.Tactic.Ring
import PtnModel.Model.Operation
import PtnModel.Model.MPSSvd
/-!
# Basic facts used by the dense-meaning proofs of C03

* `sumRange_eq`               : `sumRange k g = ∑ i ∈ range k, g i`;
* `T3.tab_*`, `T4.tab_*`      : `tab` keeps the dimensions and is the identity on in-range indices;
* `sum_range_mul_divmod`      : a sum over a fused (row-major) index is a double sum;
* shape predicates `MPS.Chain`, `MPS.Shaped`, `MPO.Chain`, `MPO.Shaped`;
* digit lists: `Digits d n s`, `sumDigits`, `flatFrom`, `flat`.
-/
namespace Ptn
open Finset

namespace Dense

theorem sumRange_eq {α : Type} [AddCommMonoid α] (k : Nat) (g : Nat → α) :
    sumRange k g = ∑ i ∈ range k, g i := by
  unfold sumRange
  induction k with
  | zero => simp
  | succ k ih => rw [List.range_succ, List.foldl_append, ih, Finset.sum_range_succ]; rfl

/-- a sum over a fused row-major index `x = a * n + b` is a double sum. -/
theorem sum_range_mul_divmod {α : Type} [AddCommMonoid α] (m n : Nat) (g : Nat → Nat → α) :
    ∑ x ∈ range (m * n), g (x / n) (x % n) = ∑ a ∈ range m, ∑ b ∈ range n, g a b := by
  induction m with
  | zero => simp
  | succ m ih =>
    rw [Nat.succ_mul, Finset.sum_range_add, ih, Finset.sum_range_succ]
    congr 1
    apply Finset.sum_congr rfl
    intro x hx
    have hx := Finset.mem_range.1 hx
    have hn : 0 < n := by omega
    have h1 : (m * n + x) / n = m := by
      rw [Nat.mul_comm, Nat.mul_add_div hn, Nat.div_eq_of_lt hx]; rfl
    have h2 : (m * n + x) % n = x := by
      rw [Nat.mul_comm, Nat.mul_add_mod, Nat.mod_eq_of_lt hx]
    rw [h1, h2]

theorem fused_lt {a b m n : Nat} (ha : a < m) (hb : b < n) : a * n + b < m * n := by
  calc a * n + b < a * n + n := by omega
    _ = (a + 1) * n := by rw [Nat.succ_mul]
    _ ≤ m * n := Nat.mul_le_mul_right _ ha

theorem fused_div {a b n : Nat} (hb : b < n) : (a * n + b) / n = a := by
  have hn : 0 < n := by omega
  rw [Nat.mul_comm, Nat.mul_add_div hn, Nat.div_eq_of_lt hb]; rfl

theorem fused_mod {a b n : Nat} (hb : b < n) : (a * n + b) % n = b := by
  rw [Nat.mul_comm, Nat.mul_add_mod, Nat.mod_eq_of_lt hb]

theorem div_lt_of_lt_mul' {x m n : Nat} (h : x < m * n) : x / n < m := by
  have hn : 0 < n := by
    rcases Nat.eq_zero_or_pos n with h0 | h0
    · simp [h0] at h
    · exact h0
  exact (Nat.div_lt_iff_lt_mul hn).2 h

theorem mod_lt_of_lt_mul' {x m n : Nat} (h : x < m * n) : x % n < n := by
  have hn : 0 < n := by
    rcases Nat.eq_zero_or_pos n with h0 | h0
    · simp [h0] at h
    · exact h0
  exact Nat.mod_lt _ hn

end Dense

namespace T3
variable {α : Type}

@[simp] theorem tab_d0 [OfNat α 0] (A : T3 α) : A.tab.d0 = A.d0 := rfl
@[simp] theorem tab_d1 [OfNat α 0] (A : T3 α) : A.tab.d1 = A.d1 := rfl
@[simp] theorem tab_d2 [OfNat α 0] (A : T3 α) : A.tab.d2 = A.d2 := rfl

theorem tab_f [OfNat α 0] (A : T3 α) {i j k : Nat} (hi : i < A.d0) (hj : j < A.d1) (hk : k < A.d2) :
    A.tab.f i j k = A.f i j k := by
  have hij : i * A.d1 + j < A.d0 * A.d1 := Dense.fused_lt hi hj
  have hidx : (i * A.d1 + j) * A.d2 + k < A.d0 * A.d1 * A.d2 := Dense.fused_lt hij hk
  have h1 : ((i * A.d1 + j) * A.d2 + k) / (A.d1 * A.d2) = i := by
    rw [Nat.mul_comm A.d1 A.d2, ← Nat.div_div_eq_div_mul, Dense.fused_div hk, Dense.fused_div hj]
  have h2 : ((i * A.d1 + j) * A.d2 + k) / A.d2 % A.d1 = j := by
    rw [Dense.fused_div hk, Dense.fused_mod hj]
  have h3 : ((i * A.d1 + j) * A.d2 + k) % A.d2 = k := Dense.fused_mod hk
  simp only [tab, hi, hj, hk, and_self, if_true]
  simp [Array.getD, hidx, h1, h2, h3]

end T3

namespace T4
variable {α : Type}

@[simp] theorem tab_d0 [OfNat α 0] (A : T4 α) : A.tab.d0 = A.d0 := rfl
@[simp] theorem tab_d1 [OfNat α 0] (A : T4 α) : A.tab.d1 = A.d1 := rfl
@[simp] theorem tab_d2 [OfNat α 0] (A : T4 α) : A.tab.d2 = A.d2 := rfl
@[simp] theorem tab_d3 [OfNat α 0] (A : T4 α) : A.tab.d3 = A.d3 := rfl

theorem tab_f [OfNat α 0] (A : T4 α) {i j k l : Nat} (hi : i < A.d0) (hj : j < A.d1) (hk : k < A.d2)
    (hl : l < A.d3) : A.tab.f i j k l = A.f i j k l := by
  have hij : i * A.d1 + j < A.d0 * A.d1 := Dense.fused_lt hi hj
  have hijk : (i * A.d1 + j) * A.d2 + k < A.d0 * A.d1 * A.d2 := Dense.fused_lt hij hk
  have hidx : ((i * A.d1 + j) * A.d2 + k) * A.d3 + l < A.d0 * A.d1 * A.d2 * A.d3 := Dense.fused_lt hijk hl
  have h1 : (((i * A.d1 + j) * A.d2 + k) * A.d3 + l) / (A.d1 * A.d2 * A.d3) = i := by
    rw [Nat.mul_comm (A.d1 * A.d2) A.d3, ← Nat.div_div_eq_div_mul, Dense.fused_div hl,
      Nat.mul_comm A.d1 A.d2, ← Nat.div_div_eq_div_mul, Dense.fused_div hk, Dense.fused_div hj]
  have h2 : (((i * A.d1 + j) * A.d2 + k) * A.d3 + l) / (A.d2 * A.d3) % A.d1 = j := by
    rw [Nat.mul_comm A.d2 A.d3, ← Nat.div_div_eq_div_mul, Dense.fused_div hl, Dense.fused_div hk,
      Dense.fused_mod hj]
  have h3 : (((i * A.d1 + j) * A.d2 + k) * A.d3 + l) / A.d3 % A.d2 = k := by
    rw [Dense.fused_div hl, Dense.fused_mod hk]
  have h4 : (((i * A.d1 + j) * A.d2 + k) * A.d3 + l) % A.d3 = l := Dense.fused_mod hl
  simp only [tab, hi, hj, hk, hl, and_self, if_true]
  simp [Array.getD, hidx, h1, h2, h3, h4]

end T4

end Ptn

import PtnModel.Proofs.HistSimple
import PtnModel.Proofs.DenseFromVectorShape
/-!
# C02: the result of `MPS.from_vector` is well-formed (all charges zero, charge-list lengths = bond dimensions)

Shape bookkeeping of the loop only: no contract on the SVD kernel, the norm or the sorting permutation is needed.
-/
set_option linter.unusedSectionVars false
namespace Ptn.HistWf
open Ptn.Hist Ptn.Ortho Ptn.Dense Ptn.MPS
variable {𝕜 : Type} [CommRing 𝕜] [DecidableEq 𝕜]
variable {ρ : Type} [Field ρ] [LinearOrder ρ] [IsStrictOrderedRing ρ] [RealLike ρ 𝕜]

/-- the tensors produced by the loop form a chain of bond dimensions starting at `v.m` and there are `rem` of them -/
theorem fromVectorLoop_chain (k : SvdKernels 𝕜 ρ) (d : Nat) (tol : ρ) : ∀ (rem : Nat) (v : Mat 𝕜) (As : List (T3 𝕜))
    (vend : Mat 𝕜), fromVectorLoop k d rem v tol = .ok (As, vend) → Chain d v.m As vend.m ∧ As.length = rem
  | 0, v, As, vend, h => by
      simp only [fromVectorLoop, Except.ok.injEq, Prod.mk.injEq] at h
      obtain ⟨rfl, rfl⟩ := h
      exact ⟨rfl, rfl⟩
  | rem + 1, v, As, vend, h => by
      rw [fromVectorLoop_succ] at h
      simp only [pyAssert_bind] at h
      obtain ⟨_, h⟩ := h
      simp only [bind_ok, pure_ok] at h
      obtain ⟨⟨As', vend'⟩, hrec, h⟩ := h
      simp only [Prod.mk.injEq] at h
      obtain ⟨rfl, rfl⟩ := h
      obtain ⟨ihc, ihl⟩ := fromVectorLoop_chain k d tol rem _ As' vend' hrec
      exact ⟨⟨rfl, rfl, ihc⟩, by simp [ihl]⟩

theorem getD_replicate_zero (n i : Nat) : (List.replicate n (0 : Int)).getD i 0 = 0 := by
  simp only [List.getD_eq_getElem?_getD, List.getElem?_replicate]
  split <;> rfl

theorem fromVector_wf (k : SvdKernels 𝕜 ρ) (d n : Nat) (v : List 𝕜) (tol : ρ) (ψ : MPS 𝕜)
    (h : fromVector k d n v tol = .ok ψ) : ψ.wellFormed = true := by
  unfold fromVector at h
  simp only [pyAssert_bind] at h
  obtain ⟨hvl, h⟩ := h
  simp only [bind_ok] at h
  obtain ⟨⟨As, vend⟩, hloop, h⟩ := h
  obtain ⟨u, hv, h⟩ := h
  rw [pyAssert_ok] at hv
  simp only [Bool.and_eq_true, beq_iff_eq] at hv h
  split at h
  · rw [throw_bind_ne] at h; exact h.elim
  · rename_i hn
    rw [pure_ok] at h
    subst h
    obtain ⟨hc, hl⟩ := fromVectorLoop_chain k d tol n _ As vend hloop
    have hc' : Chain d 1 (scaleLast (vend.f 0 0) As) 1 := by
      have := scaleLast_chain (vend.f 0 0) d As _ _ hc
      simpa [hv.1] using this
    have hlen : (scaleLast (vend.f 0 0) As).length = n := by rw [← hl]; simp [scaleLast]
    rw [wellFormed_iff_idx]
    refine ⟨by simp [hl], fun i hi => ?_⟩
    have hi' : i < n := by
      have : i < (scaleLast (vend.f 0 0) As).length := hi
      omega
    have hA : (scaleLast (vend.f 0 0) As)[i]? = some ((scaleLast (vend.f 0 0) As)[i]'hi) :=
      List.getElem?_eq_getElem hi
    obtain ⟨a0, a1⟩ := chain_get d _ 1 1 hc' i _ hA
    show T3Wf ((scaleLast (vend.f 0 0) As)[i]'hi) (List.replicate d 0)
      (((List.range (n + 1)).map fun i => List.replicate
        (if i = 0 then 1 else ((scaleLast (vend.f 0 0) As).getD (i - 1) ones111).d2) (0 : Int)).getD i [])
      (((List.range (n + 1)).map fun i => List.replicate
        (if i = 0 then 1 else ((scaleLast (vend.f 0 0) As).getD (i - 1) ones111).d2) (0 : Int)).getD (i + 1) [])
    rw [getD_map_range _ _ i (by omega), getD_map_range _ _ (i + 1) (by omega)]
    have e : (scaleLast (vend.f 0 0) As).getD (i + 1 - 1) ones111 = (scaleLast (vend.f 0 0) As)[i]'hi := by
      simp [List.getD_eq_getElem?_getD, hA]
    refine ⟨by rw [List.length_replicate]; exact a0, by rw [List.length_replicate]; exact a1, ?_, ?_⟩
    · rw [List.length_replicate, if_neg (by omega), e]
    · intro s a b _ _ _ _
      rw [getD_replicate_zero, getD_replicate_zero, getD_replicate_zero]
      rfl

end Ptn.HistWf

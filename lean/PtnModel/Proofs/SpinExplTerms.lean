import PtnModel.Proofs.SpinExplDefs
/-!
# Explicit spin-orbital molecular graph: the edge added by `_spin_molecular_hamiltonian_graph_add_term`, with explicit end nodes

`spinAddTerm` (the model of `_spin_molecular_hamiltonian_graph_add_term`) and its label-level mirror `stermE` perform the same case
analysis on the sorted operator list; whenever `stermE` succeeds with labels inside the index ranges of
`SpinMolecularOpGraphNodes.__init__`, every table look-up of `spinAddTerm` succeeds and returns the labelled node
(`sx_get_lab`: `nodes.get(oplist, connection)[k]` is the node labelled `sgetLabE oplist connection k`), so that `spinAddTerm` adds
exactly one edge between the labelled nodes (`spinAddTerm_lab`).  The proofs are carried out for an arbitrary node structure with
the look-up facts (`SXTab`) and instantiated with `SpinNodes.init L` and `STab L`.
-/
set_option linter.unusedSectionVars false
set_option linter.unusedSimpArgs false
set_option linter.unusedVariables false
set_option linter.unusedTactic false
set_option linter.unreachableTactic false

namespace Ptn.Ham
open Ptn.Og List

variable {κ : Type} [CommRing κ] [DecidableEq κ]

theorem sx_map_ok {α β : Type} {e : Except Err α} {f : α → β} {y : β} (h : e.map f = .ok y) : ∃ a, e = .ok a ∧ y = f a := by
  cases e with
  | error e => cases h
  | ok a => exact ⟨a, rfl, (Except.ok.inj h).symm⟩

theorem sx_bind_ok {α β : Type} {e : Except Err α} {f : α → Except Err β} {y : β} (h : e.bind f = .ok y) :
    ∃ a, e = .ok a ∧ f a = .ok y := by
  cases e with
  | error e => cases h
  | ok a => exact ⟨a, rfl, h⟩

/-- the table facts for an abstract node structure -/
structure SXTab (L : Int) (n : SpinNodes) : Prop where
  hL : n.L = L
  fam : ∀ (t : Nat) (key : List Int) (k : Int), t < 10 → sLabOk L (t, key, k) →
    (n.fam t).get key = .ok (innerOf (n.fam t) key) ∧ dGet (innerOf (n.fam t) key) k = .ok (n.nodeAt (t, key, k))
  idL : ∀ k : Int, 0 ≤ k → k < L → dGet n.identityL k = .ok (n.nodeAt (10, [], k))
  idR : ∀ k : Int, 1 ≤ k → k < L + 1 → dGet n.identityR k = .ok (n.nodeAt (11, [], k))

theorem sx_get_lab_gen (L : Int) (n : SpinNodes) (T : SXTab L n) (ops : List (Int × Int × Int)) (left : Bool) (k : Int) (a : Lab)
    (ha : sgetLabE ops left k = .ok a) (hok : sLabOk L a) :
    ∃ d, n.get ops left = .ok d ∧ dGet d k = .ok (n.nodeAt a) := by
  match ops, ha with
  | [], ha => cases ha
  | _ :: _ :: _ :: _, ha => cases ha
  | [(i, s, oid)], ha =>
    simp only [sgetLabE] at ha
    simp only [SpinNodes.get]
    cases left <;> simp only [Bool.false_eq_true, if_false, if_true] at ha ⊢
    · split_ifs at ha with c1 c2
      · cases ha
        simp only [c1, if_true]
        exact ⟨_, T.fam 5 [i, s] k (by decide) hok⟩
      · cases ha
        simp only [c1, c2, if_true, if_false]
        exact ⟨_, T.fam 6 [i, s] k (by decide) hok⟩
    · split_ifs at ha with c1 c2
      · cases ha
        simp only [c1, if_true]
        exact ⟨_, T.fam 0 [i, s] k (by decide) hok⟩
      · cases ha
        simp only [c1, c2, if_true, if_false]
        exact ⟨_, T.fam 1 [i, s] k (by decide) hok⟩
  | [(i, s, o0), (j, t, o1)], ha =>
    simp only [sgetLabE] at ha
    simp only [SpinNodes.get]
    cases left <;> simp only [Bool.false_eq_true, if_false, if_true] at ha ⊢
    · split_ifs at ha ⊢ <;> cases ha <;>
        first
        | exact ⟨_, T.fam 7 _ k (by decide) hok⟩
        | exact ⟨_, T.fam 8 _ k (by decide) hok⟩
        | exact ⟨_, T.fam 9 _ k (by decide) hok⟩
    · split_ifs at ha ⊢ <;> cases ha <;>
        first
        | exact ⟨_, T.fam 2 _ k (by decide) hok⟩
        | exact ⟨_, T.fam 3 _ k (by decide) hok⟩
        | exact ⟨_, T.fam 4 _ k (by decide) hok⟩

theorem sx_idL {L : Int} {n : SpinNodes} (T : SXTab L n) (k : Int) (h : sLabOk L (10, [], k)) :
    dGet n.identityL k = .ok (n.nodeAt (10, [], k)) := T.idL k h.1 h.2

theorem sx_idR {L : Int} {n : SpinNodes} (T : SXTab L n) (k : Int) (h : sLabOk L (11, [], k)) :
    dGet n.identityR k = .ok (n.nodeAt (11, [], k)) := T.idR k h.1 h.2

theorem sx_term2 (L : Int) (n : SpinNodes) (T : SXTab L n) (g : Graph κ) (m : Int) (hm : maxInt? (dKeys g.edges) = some m) (coeff : κ)
    (oplist : List (Int × Int × Int)) (i s oid0 j t oid1 : Int) (hs : sortTrips oplist = [(i, s, oid0), (j, t, oid1)])
    (x : Lab × Lab × Int)
    (hx : stermE L [(i, s, oid0), (j, t, oid1)] = .ok x) (h1 : sLabOk L x.1) (h2 : sLabOk L x.2.1) :
    spinAddTerm g n oplist coeff
      = g.addConnectEdge (Edge.mk' (m + 1) (n.nidOf x.1, n.nidOf x.2.1) [(x.2.2, coeff)]) := by
  unfold spinAddTerm
  rw [hm, hs]
  simp only [T.hL, pure_bind]
  simp only [stermE] at hx
  by_cases c0 : (i == j) = true
  · simp only [c0, if_true] at hx ⊢
    obtain ⟨so, hso, rfl⟩ := sx_map_ok hx
    rw [hso, sx_idL T i h1, sx_idR T (i + 1) h2]
    rfl
  simp only [c0, if_false] at hx ⊢
  by_cases c1 : i < j
  swap
  · simp only [c1, decide_false, Bool.not_false, if_true] at hx
    cases hx
  simp only [c1, decide_true, Bool.not_true, Bool.false_eq_true, if_false, pyAssert_true_bind] at hx ⊢
  by_cases c2 : j ≤ L / 2
  · simp only [c2, if_true] at hx ⊢
    obtain ⟨a, hga, hx⟩ := sx_bind_ok hx
    obtain ⟨so, hso, rfl⟩ := sx_map_ok hx
    obtain ⟨d, hd1, hd2⟩ := sx_get_lab_gen L n T _ _ _ a hga h1
    rw [hd1, hso]
    simp only [ok_bind]
    rw [hd2, sx_idR T _ h2]
    rfl
  simp only [c2, if_false] at hx ⊢
  by_cases c3 : i ≥ L / 2
  · simp only [c3, if_true] at hx ⊢
    obtain ⟨b, hgb, hx⟩ := sx_bind_ok hx
    obtain ⟨so, hso, rfl⟩ := sx_map_ok hx
    obtain ⟨d, hd1, hd2⟩ := sx_get_lab_gen L n T _ _ _ b hgb h2
    rw [hd1, hso]
    simp only [ok_bind]
    rw [hd2, sx_idL T _ h1]
    rfl
  simp only [c3, if_false] at hx ⊢
  obtain ⟨a, hga, hx⟩ := sx_bind_ok hx
  obtain ⟨b, hgb, rfl⟩ := sx_map_ok hx
  obtain ⟨d, hd1, hd2⟩ := sx_get_lab_gen L n T _ _ _ a hga h1
  obtain ⟨e, he1, he2⟩ := sx_get_lab_gen L n T _ _ _ b hgb h2
  rw [hd1, he1]
  simp only [ok_bind]
  rw [hd2, he2]
  rfl

theorem sx_term4 (L : Int) (n : SpinNodes) (T : SXTab L n) (g : Graph κ) (m : Int) (hm : maxInt? (dKeys g.edges) = some m) (coeff : κ)
    (oplist : List (Int × Int × Int)) (i s oid0 j t oid1 k r oid2 l u oid3 : Int)
    (hs : sortTrips oplist = [(i, s, oid0), (j, t, oid1), (k, r, oid2), (l, u, oid3)])
    (x : Lab × Lab × Int)
    (hx : stermE L [(i, s, oid0), (j, t, oid1), (k, r, oid2), (l, u, oid3)] = .ok x) (h1 : sLabOk L x.1) (h2 : sLabOk L x.2.1) :
    spinAddTerm g n oplist coeff
      = g.addConnectEdge (Edge.mk' (m + 1) (n.nidOf x.1, n.nidOf x.2.1) [(x.2.2, coeff)]) := by
  unfold spinAddTerm
  rw [hm, hs]
  simp only [T.hL, pure_bind]
  simp only [stermE] at hx
  by_cases c0 : (i == j && j == k && k == l) = true
  · simp only [c0, if_true] at hx ⊢
    obtain ⟨so, hso, rfl⟩ := sx_map_ok hx
    rw [hso, sx_idL T i h1, sx_idR T (i + 1) h2]
    rfl
  simp only [c0, if_false] at hx ⊢
  by_cases c1 : (i == j && j == k) = true
  · simp only [c1, if_true] at hx ⊢
    obtain ⟨b, hgb, hx⟩ := sx_bind_ok hx
    obtain ⟨so, hso, rfl⟩ := sx_map_ok hx
    obtain ⟨d, hd1, hd2⟩ := sx_get_lab_gen L n T _ _ _ b hgb h2
    rw [hd1, hso]
    simp only [ok_bind]
    rw [hd2, sx_idL T _ h1]
    rfl
  simp only [c1, if_false] at hx ⊢
  by_cases c2 : (j == k && k == l) = true
  · simp only [c2, if_true] at hx ⊢
    obtain ⟨a, hga, hx⟩ := sx_bind_ok hx
    obtain ⟨so, hso, rfl⟩ := sx_map_ok hx
    obtain ⟨d, hd1, hd2⟩ := sx_get_lab_gen L n T _ _ _ a hga h1
    rw [hd1, hso]
    simp only [ok_bind]
    rw [hd2, sx_idR T _ h2]
    rfl
  simp only [c2, if_false] at hx ⊢
  by_cases c3 : (j == k) = true
  · simp only [c3, if_true] at hx ⊢
    obtain ⟨a, hga, hx⟩ := sx_bind_ok hx
    obtain ⟨b, hgb, hx⟩ := sx_bind_ok hx
    obtain ⟨so, hso, rfl⟩ := sx_map_ok hx
    obtain ⟨d, hd1, hd2⟩ := sx_get_lab_gen L n T _ _ _ a hga h1
    obtain ⟨e, he1, he2⟩ := sx_get_lab_gen L n T _ _ _ b hgb h2
    rw [hd1, he1, hso]
    simp only [ok_bind]
    rw [hd2, he2]
    rfl
  simp only [c3, if_false] at hx ⊢
  by_cases c4 : k ≤ L / 2
  · simp only [c4, if_true] at hx ⊢
    obtain ⟨a, hga, hx⟩ := sx_bind_ok hx
    by_cases c5 : (k == l) = true
    · simp only [c5, if_true] at hx ⊢
      obtain ⟨so, hso, rfl⟩ := sx_map_ok hx
      obtain ⟨d, hd1, hd2⟩ := sx_get_lab_gen L n T _ _ _ a hga h1
      rw [hd1, hso]
      simp only [ok_bind]
      rw [hd2, sx_idR T _ h2]
      rfl
    · simp only [c5, if_false] at hx ⊢
      obtain ⟨b, hgb, hx⟩ := sx_bind_ok hx
      obtain ⟨so, hso, rfl⟩ := sx_map_ok hx
      obtain ⟨d, hd1, hd2⟩ := sx_get_lab_gen L n T _ _ _ a hga h1
      obtain ⟨e, he1, he2⟩ := sx_get_lab_gen L n T _ _ _ b hgb h2
      rw [hd1, he1, hso]
      simp only [ok_bind]
      rw [hd2, he2]
      rfl
  simp only [c4, if_false] at hx ⊢
  by_cases c6 : j ≥ L / 2
  · simp only [c6, if_true] at hx ⊢
    obtain ⟨b, hgb, hx⟩ := sx_bind_ok hx
    by_cases c7 : (i == j) = true
    · simp only [c7, if_true] at hx ⊢
      obtain ⟨so, hso, rfl⟩ := sx_map_ok hx
      obtain ⟨e, he1, he2⟩ := sx_get_lab_gen L n T _ _ _ b hgb h2
      rw [he1, hso]
      simp only [ok_bind]
      rw [he2, sx_idL T _ h1]
      rfl
    · simp only [c7, if_false] at hx ⊢
      obtain ⟨a, hga, hx⟩ := sx_bind_ok hx
      obtain ⟨so, hso, rfl⟩ := sx_map_ok hx
      obtain ⟨d, hd1, hd2⟩ := sx_get_lab_gen L n T _ _ _ a hga h1
      obtain ⟨e, he1, he2⟩ := sx_get_lab_gen L n T _ _ _ b hgb h2
      rw [hd1, he1, hso]
      simp only [ok_bind]
      rw [hd2, he2]
      rfl
  simp only [c6, if_false] at hx ⊢
  obtain ⟨a, hga, hx⟩ := sx_bind_ok hx
  obtain ⟨b, hgb, rfl⟩ := sx_map_ok hx
  obtain ⟨d, hd1, hd2⟩ := sx_get_lab_gen L n T _ _ _ a hga h1
  obtain ⟨e, he1, he2⟩ := sx_get_lab_gen L n T _ _ _ b hgb h2
  rw [hd1, he1]
  simp only [ok_bind]
  rw [hd2, he2]
  rfl

/-- `_spin_molecular_hamiltonian_graph_add_term` adds the edge described by `stermE`, for any node tables with the look-up facts -/
theorem spinAddTerm_lab_gen (L : Int) (n : SpinNodes) (T : SXTab L n) (g : Graph κ) (m : Int)
    (hm : maxInt? (dKeys g.edges) = some m) (coeff : κ)
    (oplist : List (Int × Int × Int)) (x : Lab × Lab × Int)
    (hx : stermE L (sortTrips oplist) = .ok x) (h1 : sLabOk L x.1) (h2 : sLabOk L x.2.1) :
    spinAddTerm g n oplist coeff
      = g.addConnectEdge (Edge.mk' (m + 1) (n.nidOf x.1, n.nidOf x.2.1) [(x.2.2, coeff)]) := by
  generalize hs : sortTrips oplist = xs at hx
  match xs, hs, hx with
  | [(i, s, o0), (j, t, o1)], hs, hx => exact sx_term2 L n T g m hm coeff oplist i s o0 j t o1 hs x hx h1 h2
  | [(i, s, o0), (j, t, o1), (k, r, o2), (l, u, o3)], hs, hx =>
    exact sx_term4 L n T g m hm coeff oplist i s o0 j t o1 k r o2 l u o3 hs x hx h1 h2
  | [], _, hx => cases hx
  | [_], _, hx => cases hx
  | [_, _, _], _, hx => cases hx
  | _ :: _ :: _ :: _ :: _ :: _, _, hx => cases hx

theorem sx_tab_init (L : Int) (T : STab L) : SXTab L (SpinNodes.init L) := ⟨rfl, T.fam, T.idL, T.idR⟩

/-- **the edge added by `_spin_molecular_hamiltonian_graph_add_term`**, with the end nodes given by the labels of `stermE` -/
theorem spinAddTerm_lab (L : Int) (T : STab L) (g : Graph κ) (m : Int) (hm : maxInt? (dKeys g.edges) = some m) (coeff : κ)
    (oplist : List (Int × Int × Int)) (x : Lab × Lab × Int)
    (hx : stermE L (sortTrips oplist) = .ok x) (h1 : sLabOk L x.1) (h2 : sLabOk L x.2.1) :
    spinAddTerm g (SpinNodes.init L) oplist coeff
      = g.addConnectEdge (Edge.mk' (m + 1) ((SpinNodes.init L).nidOf x.1, (SpinNodes.init L).nidOf x.2.1) [(x.2.2, coeff)]) :=
  spinAddTerm_lab_gen L (SpinNodes.init L) (sx_tab_init L T) g m hm coeff oplist x hx h1 h2

/-- the hypotheses are satisfiable: a hopping term and an interaction term on four resp. six sites -/
example : stermE 4 (sortTrips [(0, 0, mC), (3, 0, mA)]) = .ok ((0, [0, 0], 2), (6, [3, 0], 3), sZZ) ∧
    sLabOk 4 (0, [0, 0], 2) ∧ sLabOk 4 (6, [3, 0], 3) := by
  refine ⟨by decide, ?_, ?_⟩ <;> simp only [sLabOk] <;> omega

example : stermE 6 (sortTrips [(0, 0, mC), (1, 1, mC), (5, 0, mA), (4, 1, mA)])
      = .ok ((2, [0, 0, 1, 1], 3), (8, [5, 0, 4, 1], 4), sId) ∧
    sLabOk 6 (2, [0, 0, 1, 1], 3) ∧ sLabOk 6 (8, [5, 0, 4, 1], 4) := by
  refine ⟨by decide, ?_, ?_⟩ <;> simp only [sLabOk] <;> omega

theorem sx_get_lab (L : Int) (T : STab L) (ops : List (Int × Int × Int)) (left : Bool) (k : Int) (a : Lab)
    (ha : sgetLabE ops left k = .ok a) (hok : sLabOk L a) :
    ∃ d, (SpinNodes.init L).get ops left = .ok d ∧ dGet d k = .ok ((SpinNodes.init L).nodeAt a) :=
  sx_get_lab_gen L (SpinNodes.init L) (sx_tab_init L T) ops left k a ha hok
end Ptn.Ham



import PtnModel.Proofs.ChainExamples
import PtnModel.Proofs.BridgeHam
/-!
# Evaluated constructor runs for the non-vacuity examples of `Props/C06Dense.lean`, `Props/C07Dense.lean`

`ex_from2`   : `from_opchains([3 · op₂], 1, 0)` (the run of `Proofs/ChainExamples.lean` with operator id 2);
`xxz_L1_ok`  : `heisenberg_xxz_mpo(L = 1, J = 2, D = 3, h = -3)` returns (only the field term `3 · Sz` fits on one site);
`mol_L1_ok`  : `molecular_hamiltonian_mpo([[3]], [[[[9]]]], optimize=True)` returns (one orbital: the single chain `3 · n_0`).
(The spin-orbital run is in `BridgeExamplesSpin.lean`.)
-/
namespace Ptn.Ch
open Ptn Ptn.Og Ptn.Bip List

def exChains2 : List (OpChain Int) := [⟨[2], [0, 0], 3, 0⟩]

def exGraph2 : Graph Int :=
  ⟨[(0, ⟨0, [], [0], 0⟩), (1, ⟨1, [0], [], 0⟩)], [(0, ⟨0, (0, 1), [(2, 3)]⟩)], (0, 1)⟩

def exState0' : ChState Int := ⟨graph0, 1, 0, [⟨[2, 0], [0, 0, 0], 0⟩], [3], []⟩

def exState1' : ChState Int :=
  ⟨⟨[(0, ⟨0, [], [0], 0⟩), (-1, ⟨-1, [], [], 0⟩), (1, ⟨1, [0], [], 0⟩)], [(0, ⟨0, (0, 1), [(2, 1)]⟩)], (0, -1)⟩,
    2, 1, [⟨[0], [0, 0], 1⟩], [3], []⟩

theorem ex_partition2 : sitePartition [(⟨[2, 0], [0, 0, 0], 0⟩ : HalfChain)] [(3 : Int)]
    = .ok ⟨[⟨2, 0, 0, 0⟩], [⟨[0], [0, 0], -1⟩], [(0, 0)], [((0, 0), 3)]⟩ := rfl

theorem ex_site2 : siteStep exState0' = .ok exState1' := by
  have hb : BGraph.mk' ((1 : Nat) : Int) ((1 : Nat) : Int)
      ([((0 : Nat), (0 : Nat))].map fun e => ((e.1 : Int), (e.2 : Int))) = .ok ex11 := by decide
  simp only [siteStep, exState0', ex_partition2, bind, Except.bind, List.length_cons, List.length_nil, Nat.zero_add,
    hb, ex11_mvc]
  rfl

set_option maxRecDepth 4000 in
theorem ex_from2 : fromOpchains exChains2 1 0 = .ok exGraph2 := by
  have hs := ex_site2
  unfold fromOpchains
  simp [exChains2, Node.mk', hasDup, pyAssert, graph0_mk, OpChain.padded, OpChain.mk', OpChain.length, pyRepeat,
    HalfChain.mk', bind, Except.bind, pure, Except.pure, List.range, List.range.loop]
  simp only [exState0'] at hs
  rw [hs]
  rfl

end Ptn.Ch

namespace Ptn.Ham
open Ptn Ptn.Og Ptn.Ch List

/-- `heisenberg_xxz_mpo(1, J = 2, D = 3, h = -3)` returns -/
theorem xxz_L1_ok (c : Consts Int) :
    ∃ b, localOpchainsToMpo (⟨[1, -1], xxzOpmap c, xxzTemplates c 2 3 (-3), 0⟩ : Lattice Int) 1 = .ok b := by
  have h : translateChains (xxzTemplates c 2 3 (-3)) 1 = exChains2 := rfl
  unfold localOpchainsToMpo
  simp only [h, ex_from2, bind, Except.bind]
  exact ⟨_, rfl⟩

/-- `molecular_hamiltonian_mpo([[3]], [[[[9]]]], optimize=True)` returns -/
theorem mol_L1_ok (c : Consts Int) : ∃ b, molBuildOpt c [[3]] [[[[9]]]] = .ok b := by
  have h : molChains c [[3]] [[[[9]]]] = .ok exChains2 := rfl
  have hc : exGraph2.isConsistent = true := by decide
  unfold molBuildOpt
  simp only [h, bind, Except.bind]
  simp only [List.length_cons, List.length_nil, Nat.zero_add, Nat.cast_one, ex_from2, hc, pyAssert]
  exact ⟨_, rfl⟩

end Ptn.Ham

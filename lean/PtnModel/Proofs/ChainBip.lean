import PtnModel.Proofs.BipBasic
/-!
# `BipartiteGraph.__init__` on the edge list of a site partition

Totality of `BGraph.mk'` on in-range edge lists and the description of its adjacency lists:
`v ∈ adj_u[u] ↔ (u, v) ∈ edges`.
-/
namespace Ptn.Ch
open Ptn Ptn.Bip List

theorem foldlM_mkStep_spec (numU numV : Int) : ∀ (edges : List (Nat × Nat)) (g : BGraph),
    g.adjU.length = numU.toNat → g.adjV.length = numV.toNat →
    (∀ e ∈ edges, (e.1 : Int) < numU ∧ (e.2 : Int) < numV) →
    ∃ g', (edges.map fun e => ((e.1 : Int), (e.2 : Int))).foldlM (mkStep numU numV) g = .ok g' ∧
      ∀ i j, j ∈ g'.adjU.getD i [] ↔ (j ∈ g.adjU.getD i [] ∨ (i, j) ∈ edges) := by
  intro edges
  induction edges with
  | nil => intro g _ _ _; exact ⟨g, rfl, by simp⟩
  | cons e es ih =>
    intro g hU hV hr
    have he := hr e (by simp)
    have hstep : mkStep numU numV g ((e.1 : Int), (e.2 : Int))
        = .ok { g with adjU := addAdj g.adjU e.1 e.2, adjV := addAdj g.adjV e.2 e.1 } := by
      unfold mkStep
      have h1 : decide ((0 : Int) ≤ (e.1 : Int) ∧ (e.1 : Int) < numU) = true := by simp [he.1]
      have h2 : decide ((0 : Int) ≤ (e.2 : Int) ∧ (e.2 : Int) < numV) = true := by simp [he.2]
      simp only [h1, h2, if_true, Int.toNat_natCast]
      rfl
    obtain ⟨g', hg', hmem⟩ := ih { g with adjU := addAdj g.adjU e.1 e.2, adjV := addAdj g.adjV e.2 e.1 }
      (by simp [length_addAdj, hU]) (by simp [length_addAdj, hV]) (fun e' he' => hr e' (by simp [he']))
    refine ⟨g', ?_, ?_⟩
    · rw [map_cons, foldlM_cons, hstep]
      exact hg'
    · intro i j
      rw [hmem i j, mem_getD_addAdj]
      have hlt : e.1 < g.adjU.length := by rw [hU]; omega
      constructor
      · rintro ((h | ⟨rfl, rfl, _⟩) | h)
        · exact Or.inl h
        · exact Or.inr (by simp)
        · exact Or.inr (by simp [h])
      · rintro (h | h)
        · exact Or.inl (Or.inl h)
        · rcases mem_cons.1 h with h | h
          · left; right
            cases e; cases h
            exact ⟨rfl, rfl, hlt⟩
          · exact Or.inr h

/-- `BipartiteGraph(numU, numV, edges)` succeeds for in-range edges, and `adj_u` lists exactly the edges -/
theorem bgraph_mk'_spec (numU numV : Nat) (edges : List (Nat × Nat)) (hU : 1 ≤ numU) (hV : 1 ≤ numV)
    (hr : ∀ e ∈ edges, e.1 < numU ∧ e.2 < numV) :
    ∃ g, BGraph.mk' numU numV (edges.map fun e => ((e.1 : Int), (e.2 : Int))) = .ok g ∧
      g.WF ∧ g.numU = numU ∧ g.numV = numV ∧ ∀ i j, j ∈ g.adjU.getD i [] ↔ (i, j) ∈ edges := by
  obtain ⟨g, hg, hmem⟩ := foldlM_mkStep_spec (numU : Int) (numV : Int) edges
    ⟨numU, numV, List.replicate numU [], List.replicate numV []⟩ (by simp) (by simp)
    (fun e he => by have := hr e he; omega)
  have hmk : BGraph.mk' numU numV (edges.map fun e => ((e.1 : Int), (e.2 : Int))) = .ok g := by
    unfold BGraph.mk'
    simp only [pyAssert_bind]
    have h1 : decide ((numU : Int) ≥ 1) = true := by simp; omega
    have h2 : decide ((numV : Int) ≥ 1) = true := by simp; omega
    simp only [h1, h2, if_true, Int.toNat_natCast]
    exact hg
  obtain ⟨hw, hnu, hnv, _, _⟩ := mk'_wf' hmk
  refine ⟨g, hmk, hw, by omega, by omega, ?_⟩
  intro i j
  rw [hmem i j]
  simp only [or_iff_right_iff_imp]
  intro h
  by_cases hi : i < numU
  · simp [List.getD_eq_getElem?_getD, hi] at h
  · simp [List.getD_eq_getElem?_getD, hi] at h

end Ptn.Ch

import Mathlib.Analysis.Matrix.Spectrum
import Mathlib.Data.Fin.Tuple.Sort
import PtnModel.Props.C15
/-!
# Existence of an `eigh_tridiagonal` kernel (spectral theorem for real symmetric matrices)

* `exists_sorted_diag` : every real symmetric matrix `A` (Mathlib `Matrix (Fin k) (Fin k) ℝ`) is `U diag(w) Uᵀ` with `U`
  orthogonal and `w` ASCENDING (`Matrix.IsHermitian.spectral_theorem`, columns re-indexed by `Tuple.sort`);
* `eighSpec_exists`    : for every `alpha beta : List ℝ` some output satisfies `Krylov.EighSpec alpha beta`
  (the matrix is `tridiag alpha beta`, which is symmetric whatever the length of `beta`);
* `eighExact`, `eighExact_spec`, `eighExact_contract` : a chosen (noncomputable) kernel satisfying `C15.EighContract`.
-/

namespace Ptn.C15
open Ptn Ptn.Krylov Finset Matrix

theorem tridiag_symm (alpha beta : List ℝ) (a b : Nat) : tridiag alpha beta a b = tridiag alpha beta b a := by
  unfold tridiag
  by_cases h1 : a = b
  · subst h1; rfl
  · rw [if_neg h1, if_neg (Ne.symm h1)]
    by_cases h2 : a + 1 = b
    · rw [if_pos h2, if_neg (by omega), if_pos h2]
    · rw [if_neg h2]
      by_cases h3 : b + 1 = a
      · rw [if_pos h3, if_pos h3]
      · rw [if_neg h3, if_neg h3, if_neg h2]

/-- the tridiagonal matrix as a Mathlib matrix -/
def tmat (alpha beta : List ℝ) : Matrix (Fin alpha.length) (Fin alpha.length) ℝ :=
  fun i j => tridiag alpha beta i j

theorem tmat_herm (alpha beta : List ℝ) : (tmat alpha beta).IsHermitian := by
  ext i j
  simp only [conjTranspose_apply, tmat, star_trivial]
  exact tridiag_symm _ _ _ _

/-- extension of a `Fin k × Fin k` table to `Nat × Nat` -/
def ext2 {k : Nat} (g : Fin k → Fin k → ℝ) (r c : Nat) : ℝ :=
  if h : r < k ∧ c < k then g ⟨r, h.1⟩ ⟨c, h.2⟩ else 0

theorem ext2_fin {k : Nat} (g : Fin k → Fin k → ℝ) (i j : Fin k) : ext2 g i j = g i j := by
  unfold ext2
  rw [dif_pos ⟨i.2, j.2⟩]

/-- orthogonal diagonalisation of a real symmetric matrix with the eigenvalues in ascending order -/
theorem exists_sorted_diag {k : Nat} (A : Matrix (Fin k) (Fin k) ℝ) (hA : A.IsHermitian) :
    ∃ (w : Fin k → ℝ) (U : Matrix (Fin k) (Fin k) ℝ), Monotone w ∧ Uᵀ * U = 1 ∧ U * Uᵀ = 1 ∧
      A = U * diagonal w * Uᵀ := by
  classical
  set V : Matrix (Fin k) (Fin k) ℝ := (hA.eigenvectorUnitary : Matrix (Fin k) (Fin k) ℝ) with hV
  set σ := Tuple.sort hA.eigenvalues with hσ
  have h1 : star V * V = 1 := Unitary.coe_star_mul_self _
  have h2 : V * star V = 1 := Unitary.coe_mul_star_self _
  have h3 : A = V * diagonal hA.eigenvalues * star V := by
    have := hA.spectral_theorem
    rw [Unitary.conjStarAlgAut_apply] at this
    simpa using this
  rw [star_eq_conjTranspose, conjTranspose_eq_transpose_of_trivial] at h1 h2 h3
  refine ⟨hA.eigenvalues ∘ σ, V.submatrix id σ, Tuple.monotone_sort _, ?_, ?_, ?_⟩
  · ext a b
    have := congrFun (congrFun h1 (σ a)) (σ b)
    simp only [mul_apply, transpose_apply, one_apply, submatrix_apply, id] at this ⊢
    rw [this]; simp [σ.injective.eq_iff]
  · ext a b
    have := congrFun (congrFun h2 a) b
    simp only [mul_apply, transpose_apply, one_apply, submatrix_apply, id] at this ⊢
    rw [← this]
    exact Equiv.sum_comp σ fun c => V a c * V b c
  · ext a b
    have := congrFun (congrFun h3 a) b
    rw [this]
    simp only [mul_apply, transpose_apply, diagonal_apply, submatrix_apply, id, mul_ite, mul_zero,
      sum_ite_eq', mem_univ, if_true, Function.comp]
    exact (Equiv.sum_comp σ fun c => V a c * hA.eigenvalues c * V b c).symm


theorem getD_ofFn {k : Nat} (w : Fin k → ℝ) (i : Fin k) : (List.ofFn w).getD i 0 = w i := by
  rw [List.getD_eq_getElem?_getD, List.getElem?_ofFn, dif_pos i.2]; rfl

/-- for every symmetric tridiagonal input there is an output satisfying the `eigh_tridiagonal` contract -/
theorem eighSpec_exists (alpha beta : List ℝ) : ∃ res, EighSpec alpha beta res := by
  obtain ⟨w, U, hw, h1, h2, h3⟩ := exists_sorted_diag (tmat alpha beta) (tmat_herm alpha beta)
  refine ⟨(List.ofFn w, ⟨alpha.length, alpha.length, ext2 U⟩), ?_, rfl, rfl, ?_, ?_, ?_, ?_⟩
  · simp
  · intro i j hij hj
    have hi : i < alpha.length := by omega
    have := hw (show (⟨i, hi⟩ : Fin alpha.length) ≤ ⟨j, hj⟩ from hij)
    have e1 := getD_ofFn w ⟨i, hi⟩
    have e2 := getD_ofFn w ⟨j, hj⟩
    simp only at e1 e2
    show (List.ofFn w).getD i 0 ≤ (List.ofFn w).getD j 0
    rw [e1, e2]; exact this
  · intro a b ha hb
    have := congrFun (congrFun h1 ⟨a, ha⟩) ⟨b, hb⟩
    simp only [mul_apply, transpose_apply, one_apply, Fin.mk.injEq] at this
    rw [Finset.sum_range]
    simpa only [ext2_fin U _ ⟨a, ha⟩, ext2_fin U _ ⟨b, hb⟩] using this
  · intro a b ha hb
    have := congrFun (congrFun h2 ⟨a, ha⟩) ⟨b, hb⟩
    simp only [mul_apply, transpose_apply, one_apply, Fin.mk.injEq] at this
    rw [Finset.sum_range]
    simpa only [ext2_fin U ⟨a, ha⟩, ext2_fin U ⟨b, hb⟩] using this
  · intro a b ha hb
    have := congrFun (congrFun h3 ⟨a, ha⟩) ⟨b, hb⟩
    simp only [mul_apply, transpose_apply, diagonal_apply, mul_ite, mul_zero, sum_ite_eq', mem_univ, if_true] at this
    rw [Finset.sum_range]
    simp only [ext2_fin U ⟨a, ha⟩, ext2_fin U ⟨b, hb⟩, getD_ofFn w]
    exact this

/-- a kernel satisfying the per-input contract on every input (chosen with the axiom of choice) -/
noncomputable def eighExact (alpha beta : List ℝ) : List ℝ × Mat ℝ :=
  Classical.choose (eighSpec_exists alpha beta)

theorem eighExact_spec (alpha beta : List ℝ) : EighSpec alpha beta (eighExact alpha beta) :=
  Classical.choose_spec (eighSpec_exists alpha beta)

/-- `eighExact` satisfies the global contract -/
theorem eighExact_contract : EighContract eighExact := fun alpha beta _ => eighExact_spec alpha beta

end Ptn.C15

import PtnModel.Proofs.KryFullDmrg
/-!
# A DMRG sweep that optimises the centre of a complete state overlapping a ground state reports the ground-state energy

`CentreHit … lam0 s m` : the sweep state `s` (centre `m`) has square left isometries left of `m` and square right isometries
right of `m`, the Lanczos run of the local optimisation at `m` is full-length, and the dense state overlaps an eigenvector of
the dense operator for the eigenvalue `lam0`.  If `lam0` is a lower bound of the quadratic form (the ground-state energy) and the
state met by the left-to-right half sweep at site `m` satisfies `CentreHit`, the local step at `m` returns `lam0`
(`dmrg1Left_hit`), all later local steps of the sweep stay at `lam0` (non-increasing, bounded below), so the sweep reports
`lam0` (`dmrg1Sweep_ground`), and so do all later sweeps (`dmrg1_ground`).
-/
set_option linter.unusedSectionVars false

namespace Ptn.Evo
open Ptn Ptn.BondOps Ptn.Ortho Ptn.Env Ptn.Krylov Ptn.Dense Finset

variable {𝕜 : Type} [RCLike 𝕜] [DecidableEq 𝕜]
variable {k : EvoKernels 𝕜 ℝ} {H : MPO 𝕜} {qd : List Int} {numiter : Nat}

/-- the centre `m` of the sweep state `s` is the centre of a complete shape, its local Lanczos run is full-length, and the
dense state overlaps an eigenvector of the dense operator with eigenvalue `lam0` -/
def CentreHit (k : EvoKernels 𝕜 ℝ) (H : MPO 𝕜) (qd : List Int) (numiter : Nat) (lam0 : ℝ) (s : Sweep 𝕜) (m : Nat) : Prop :=
  (∀ j, j < m → SqL qd s j) ∧ (∀ j, m < j → j < H.A.length → SqR qd s j) ∧ MidFull k H numiter s m ∧
  ∃ x0 : List Nat → 𝕜, DenseEig H qd.length lam0 x0 ∧
    ∑ σ ∈ digitsU qd.length H.A.length, star (x0 σ) * (cur qd s).amp σ ≠ 0

/-- the local step at a hit returns the ground-state energy -/
theorem dmrg1Left_hit (ctx : SweepCtx k H qd numiter) {s s' : Sweep 𝕜} {e e' E lam0 : ℝ} {c : Nat}
    (h : DInv H qd s c E) (hrun : dmrg1Left k H qd numiter (s, e) c = .ok (s', e'))
    (hlow : DenseLower H qd.length lam0) (hit : CentreHit k H qd numiter lam0 s c) : e' = lam0 := by
  obtain ⟨en, Aopt, Ai, An, qb, BLn, h1, _, _, h4⟩ := dmrg1Left_unfold hrun
  injection h4 with h4a h4b
  subst h4b
  dsimp only at h1
  obtain ⟨hL, hR, hfull, x0, hx0, hov⟩ := hit
  exact le_antisymm (dmrg_centre_reach ctx h.can hL hR h1 hfull hx0 hov) ((minimize_inv ctx h h1).2.2.1 lam0 hlow)

/-- **One DMRG sweep whose left-to-right half optimises the centre `m` of a complete state overlapping a ground state reports
the ground-state energy.** -/
theorem dmrg1Sweep_ground (ctx : SweepCtx k H qd numiter) (hL2 : 2 ≤ H.A.length) {s s' : Sweep 𝕜}
    {es es' : List ℝ} {E lam0 : ℝ} (h : DInv H qd s 0 E) (hrun : dmrg1Sweep k H qd numiter (s, es) = .ok (s', es'))
    (hlow : DenseLower H qd.length lam0) {m : Nat} (hm : m + 1 < H.A.length)
    (hhit : ∀ t, foldIdx (dmrg1Left k H qd numiter) (List.range m) (s, (0 : ℝ)) = .ok t →
      CentreHit k H qd numiter lam0 t.1 m) :
    es' = es ++ [lam0] ∧ DInv H qd s' 0 lam0 := by
  obtain ⟨s1, e1, s2, e2, s3, h1, h2, h3, h4⟩ := dmrg1Sweep_unfold hrun
  injection h4 with h4a h4b
  subst h4a h4b
  dsimp only at h1
  -- left half
  have hleft := foldIdx_range (dmrg1Left k H qd numiter)
    (fun i (t : Sweep 𝕜 × ℝ) => foldIdx (dmrg1Left k H qd numiter) (List.range i) (s, (0 : ℝ)) = .ok t ∧
      ∃ E', DInv H qd t.1 i E' ∧ (0 < i → t.2 = E') ∧ (m < i → t.2 = lam0))
    (H.A.length - 1)
    (fun i hi t t' ht ht' => by
      obtain ⟨hreach, E', hinv, hpos, hafter⟩ := ht
      obtain ⟨t1, t2⟩ := t
      obtain ⟨t1', t2'⟩ := t'
      obtain ⟨hinv', hle', hlow'⟩ := dmrg1Left_inv ctx hinv (by omega) ht'
      refine ⟨?_, t2', hinv', fun _ => rfl, fun hmi => ?_⟩
      · rw [List.range_succ, foldIdx_append]
        exact ⟨(t1, t2), hreach, (foldIdx_single _ _ _ _).2 ht'⟩
      · show t2' = lam0
        rcases Nat.lt_or_eq_of_le (Nat.le_of_lt_succ hmi) with hlt | heq
        · have h2 : t2 = lam0 := hafter hlt
          have h3 : t2 = E' := hpos (by omega)
          have : t2' ≤ lam0 := by rw [← h2, h3]; exact hle'
          exact le_antisymm this (hlow' lam0 hlow)
        · subst heq
          exact dmrg1Left_hit ctx hinv ht' hlow (hhit (t1, t2) hreach))
    (s, 0) (s1, e1)
    ⟨by unfold foldIdx; rw [List.range_zero, foldlM_ok_nil], E, h, fun h0 => absurd h0 (lt_irrefl 0),
      fun h0 => absurd h0 (Nat.not_lt_zero m)⟩ h1
  obtain ⟨_, E1, hinv1, hpos1, hafter1⟩ := hleft
  have hE1 : e1 = E1 := hpos1 (by omega)
  have he1 : e1 = lam0 := hafter1 (by omega)
  dsimp only at hinv1
  -- right half
  have hright := foldIdx_down (dmrg1Right k H qd numiter)
    (fun i (t : Sweep 𝕜 × ℝ) => ∃ E', DInv H qd t.1 i E' ∧ E' ≤ lam0 ∧ t.2 = E' ∧ lam0 ≤ t.2)
    (H.A.length - 1)
    (fun i hi t t' ht ht' => by
      obtain ⟨E', hinv, hle, _, _⟩ := ht
      obtain ⟨t1, t2⟩ := t
      obtain ⟨t1', t2'⟩ := t'
      obtain ⟨hinv', hle', hlow'⟩ := dmrg1Right_inv ctx hinv ht'
      exact ⟨t2', hinv', le_trans hle' hle, rfl, hlow' lam0 hlow⟩)
    (s1, e1) (s2, e2) ⟨E1, hinv1, by rw [← hE1, he1], hE1, by rw [he1]⟩ h2
  obtain ⟨E2, hinv2, hle2, hE2, hge2⟩ := hright
  dsimp only at hinv2 hE2 hge2
  subst hE2
  have : e2 = lam0 := le_antisymm hle2 hge2
  subst this
  exact ⟨rfl, normalize_inv ctx hinv2 h3⟩

/-- **Single-site DMRG reports the exact ground-state energy in every sweep** if the first sweep optimises the centre of a
complete state that overlaps a ground state with a full-length Lanczos run. -/
theorem dmrg1_ground (ctx : SweepCtx k H qd numiter) (hL2 : 2 ≤ H.A.length) {ψ ψ' : MPS 𝕜} (hqd : ψ.qd = qd)
    (hadm : Admissible ψ) {numsweeps : Nat} {en : List ℝ}
    (h : dmrgSinglesite k H ψ numsweeps numiter = .ok (ψ', en)) {lam0 : ℝ} (hlow : DenseLower H qd.length lam0)
    {m : Nat} (hm : m + 1 < H.A.length)
    (hhit : ∀ s0 nrm t, prologue k H ψ = .ok (s0, nrm) →
      foldIdx (dmrg1Left k H qd numiter) (List.range m) (s0, (0 : ℝ)) = .ok t → CentreHit k H qd numiter lam0 t.1 m) :
    ∀ e ∈ en, e = lam0 := by
  obtain ⟨s0, nrm, s, hp, hit, rfl⟩ := dmrgSinglesite_unfold h
  obtain ⟨ψ1, E0, ho, hcur, hinv0⟩ := prologue_inv ctx hqd hadm hp
  rw [hqd] at hit
  cases numsweeps with
  | zero =>
    unfold iterate at hit
    injection hit with hit
    have : en = [] := (Prod.mk.inj hit).2.symm
    subst this
    intro e he; simp at he
  | succ n =>
    unfold iterate at hit
    rw [bind_ok] at hit
    obtain ⟨⟨s1, es1⟩, hs1, hrest⟩ := hit
    obtain ⟨hes1, hinv1⟩ := dmrg1Sweep_ground ctx hL2 hinv0 hs1 hlow hm (fun t ht => hhit s0 nrm t hp ht)
    have hes1' : es1 = [lam0] := by simpa using hes1
    subst hes1'
    obtain ⟨hfin, _⟩ := sweeps_inv ctx hL2 (E0 := lam0) n (s1, [lam0]) (s, en)
      ⟨lam0, hinv1, le_refl _, rfl, fun e he => by
        have : e = lam0 := by simpa using he
        subst this
        obtain ⟨_, _, _, hl⟩ := dmrg1Sweep_inv ctx hL2 hinv0 hs1
        exact ⟨le_refl _, le_refl _, fun μ hμ => by
          obtain ⟨e', he', _, _, hl'⟩ := dmrg1Sweep_inv ctx hL2 hinv0 hs1
          have : e' = e := by simpa using he'.symm
          rw [← this]; exact hl' μ hμ⟩, List.pairwise_singleton _ _⟩ hrest
    obtain ⟨E', _, _, _, hall, _⟩ := hfin
    intro e he
    obtain ⟨_, hle, hl⟩ := hall e he
    exact le_antisymm hle (hl lam0 hlow)

end Ptn.Evo

import PtnModel.Proofs.EvoExactCentreAux
/-!
# Auxiliary lemmas for `centre_step_dense`, MPS level

* `amp_setSite_split` : the amplitudes of `ψ[i := X]` are `emb … X`;
* `heff_entry`        : `H_eff = Vᴴ H V` entry by entry (from `C04.local_projection` with a unit tensor);
* `heff_eigen_entry`  : `Vᴴ` maps dense eigenvectors to eigenvectors of `H_eff` (needs the frame to be complete);
* `isEigen_of_entries`, `vget_flat3_comb` : flat forms.
-/
set_option linter.unusedSectionVars false

namespace Ptn.Evo
open Ptn Ptn.BondOps Ptn.Ortho Ptn.Env Ptn.Krylov Ptn.Dense Finset

variable {𝕜 : Type} [RCLike 𝕜] [DecidableEq 𝕜]

/-! ## digit lists split at a site -/

theorem sum_digitsU_split {β : Type} [AddCommMonoid β] {L i d : Nat} (hi : i < L) (F : List Nat → β) :
    ∑ σ ∈ digitsU d L, F σ = ∑ σl ∈ digits (List.replicate i d), ∑ s ∈ range d,
      ∑ σr ∈ digits (List.replicate (L - (i + 1)) d), F (σl ++ s :: σr) := by
  unfold digitsU
  rw [replicate_split hi, sum_digits_append]
  simp only [sum_digits_cons]

theorem mem_digitsU_split {L i d : Nat} (hi : i < L) {σ : List Nat} (h : σ ∈ digitsU d L) :
    ∃ σl s σr, σl ∈ digits (List.replicate i d) ∧ s < d ∧ σr ∈ digits (List.replicate (L - (i + 1)) d) ∧
      σ = σl ++ s :: σr := by
  unfold digitsU at h
  rw [replicate_split hi] at h
  obtain ⟨σl, τ, hl, hτ, rfl⟩ := mem_digits_append h
  obtain ⟨s, σr, hs, hr, rfl⟩ := mem_digits_cons.1 hτ
  exact ⟨σl, s, σr, hl, hs, hr, rfl⟩

theorem mem_digitsU_of_split {L i d : Nat} (hi : i < L) {σl σr : List Nat} {s : Nat}
    (hl : σl ∈ digits (List.replicate i d)) (hs : s < d) (hr : σr ∈ digits (List.replicate (L - (i + 1)) d)) :
    σl ++ s :: σr ∈ digitsU d L := by
  unfold digitsU
  rw [replicate_split hi]
  exact append_mem_digits hl (cons_mem_digits.2 ⟨hs, hr⟩)

/-! ## the embedding -/

omit [DecidableEq 𝕜] in
/-- the amplitudes of `ψ[i := X]` -/
theorem amp_setSite_split {ψ : MPS 𝕜} {d : Nat} (hψ : C04.MPS.Shaped ψ d) {i : Nat} (hi : i < ψ.A.length) {X : T3 𝕜}
    (h0 : X.d0 = d) (h1 : X.d1 = mpsBond ψ i) (h2 : X.d2 = mpsBond ψ (i + 1)) {σl σr : List Nat} {s : Nat}
    (hl : σl ∈ digits (List.replicate i d)) (hs : s < d)
    (hr : σr ∈ digits (List.replicate (ψ.A.length - (i + 1)) d)) :
    (ψ.setSite i X).amp (σl ++ s :: σr) =
      emb (ψ.A.take i) (ψ.A.drop (i + 1)) (mpsBond ψ i) (mpsBond ψ (i + 1)) X σl s σr := by
  have hψ' := hψ.2
  have cL : Chain3 (List.replicate i d) (ψ.A.take i) 1 (mpsBond ψ i) := by
    have := chain3_take hψ' i (Nat.le_of_lt hi)
    rwa [take_replicate_le (Nat.le_of_lt hi)] at this
  have cR : Chain3 (List.replicate (ψ.A.length - (i + 1)) d) (ψ.A.drop (i + 1)) (mpsBond ψ (i + 1)) 1 := by
    have := chain3_drop hψ' (i + 1) (Nat.succ_le_of_lt hi)
    rwa [drop_replicate'] at this
  have cA : Chain3 (List.replicate ψ.A.length d) (ψ.A.take i ++ X :: ψ.A.drop (i + 1)) 1 1 := by
    rw [replicate_split hi]
    exact chain3_append cL (by simp only [chain3_cons]; exact ⟨h0, h1, h2 ▸ cR⟩)
  have sA : (ψ.setSite i X).A = ψ.A.take i ++ X :: ψ.A.drop (i + 1) := by
    simp only [MPS.setSite, List.set_eq_take_append_cons_drop, hi, if_true]
  have hσ : σl ++ s :: σr ∈ digits (List.replicate ψ.A.length d) := mem_digitsU_of_split hi hl hs hr
  rw [amp_eq_pmat (ψ := ψ.setSite i X) (sA ▸ cA) hσ, sA, pmat_append cL _ hl _ Nat.one_pos 0]
  simp only [pmat_cons, h2]
  rfl

/-- the unit tensor at `(s', x', y')` -/
def unitT3 (d Dl Dr s' x' y' : Nat) : T3 𝕜 :=
  ⟨d, Dl, Dr, fun s x y => if s' = s then (if x' = x then (if y' = y then 1 else 0) else 0) else 0⟩

omit [DecidableEq 𝕜] in
theorem emb_unit {Ls Rs : List (T3 𝕜)} {d Dl Dr s' x' y' : Nat} (hx : x' < Dl) (hy : y' < Dr) (σl : List Nat) (s : Nat)
    (σr : List Nat) :
    emb Ls Rs Dl Dr (unitT3 d Dl Dr s' x' y') σl s σr = if s' = s then pmat Ls σl 0 x' * pmat Rs σr y' 0 else 0 := by
  unfold emb unitT3
  by_cases h : s' = s
  · simp only [if_pos h]
    have e : ∀ x ∈ range Dl, pmat Ls σl 0 x * (∑ y ∈ range Dr,
        (if x' = x then (if y' = y then (1 : 𝕜) else 0) else 0) * pmat Rs σr y 0) =
        if x' = x then pmat Ls σl 0 x * pmat Rs σr y' 0 else 0 := by
      intro x _
      by_cases hxx : x' = x
      · simp only [if_pos hxx, ite_mul, one_mul, zero_mul]
        rw [Finset.sum_ite_eq (range Dr) y', if_pos (mem_range.2 hy)]
      · simp only [if_neg hxx, zero_mul, Finset.sum_const_zero, mul_zero]
    rw [Finset.sum_congr rfl e, Finset.sum_ite_eq (range Dl) x', if_pos (mem_range.2 hx)]
  · simp only [if_neg h, zero_mul, Finset.sum_const_zero, mul_zero]

omit [DecidableEq 𝕜] in
theorem sum_unitT3 {d Dl Dr s' x' y' : Nat} (hs : s' < d) (hx : x' < Dl) (hy : y' < Dr) (t : Nat → Nat → Nat → 𝕜) :
    ∑ s ∈ range d, ∑ a ∈ range Dl, ∑ b ∈ range Dr, star ((unitT3 (𝕜 := 𝕜) d Dl Dr s' x' y').f s a b) * t s a b =
      t s' x' y' := by
  unfold unitT3
  have e : ∀ s ∈ range d, (∑ a ∈ range Dl, ∑ b ∈ range Dr,
      star (if s' = s then (if x' = a then (if y' = b then (1 : 𝕜) else 0) else 0) else 0) * t s a b) =
      if s' = s then t s x' y' else 0 := by
    intro s _
    by_cases h : s' = s
    · simp only [if_pos h]
      have e2 : ∀ a ∈ range Dl, (∑ b ∈ range Dr, star (if x' = a then (if y' = b then (1 : 𝕜) else 0) else 0) * t s a b) =
          if x' = a then t s a y' else 0 := by
        intro a _
        by_cases h2 : x' = a
        · simp only [if_pos h2]
          have e3 : ∀ b ∈ range Dr, star (if y' = b then (1 : 𝕜) else 0) * t s a b = if y' = b then t s a b else 0 := by
            intro b _
            by_cases h3 : y' = b
            · simp only [if_pos h3, star_one, one_mul]
            · simp only [if_neg h3, star_zero, zero_mul]
          rw [Finset.sum_congr rfl e3, Finset.sum_ite_eq (range Dr) y', if_pos (mem_range.2 hy)]
        · simp only [if_neg h2, star_zero, zero_mul, Finset.sum_const_zero]
      rw [Finset.sum_congr rfl e2, Finset.sum_ite_eq (range Dl) x', if_pos (mem_range.2 hx)]
    · simp only [if_neg h, star_zero, zero_mul, Finset.sum_const_zero]
  rw [Finset.sum_congr rfl e, Finset.sum_ite_eq (range d) s', if_pos (mem_range.2 hs)]

/-! ## `H_eff = Vᴴ H V` -/

/-- entries of `H_eff A`: `Vᴴ` applied to `H (V A)` -/
theorem heff_entry {ψ : MPS 𝕜} {o : MPO 𝕜} {d : Nat} (hψ : C04.MPS.Shaped ψ d) (ho : C04.MPO.Shaped o d)
    (hL : ψ.A.length = o.A.length) {i : Nat} (hi : i < ψ.A.length) {W : T4 𝕜} (hW : o.A[i]? = some W)
    {A T : T3 𝕜} (hA0 : A.d0 = d) (hA1 : A.d1 = mpsBond ψ i) (hA2 : A.d2 = mpsBond ψ (i + 1))
    {Lb Rb : T3 𝕜} (hLb : IsLeftBlock ψ o d i Lb) (hRb : IsRightBlock ψ o d (i + 1) Rb)
    (hT : Op.applyLocalHamiltonian Lb Rb W A = .ok T) {s' x' y' : Nat} (hs : s' < d) (hx : x' < mpsBond ψ i)
    (hy : y' < mpsBond ψ (i + 1)) :
    T.f s' x' y' = (locOf (ψ.A.take i) (ψ.A.drop (i + 1)) i (ψ.A.length - (i + 1)) d (mpsBond ψ i) (mpsBond ψ (i + 1))
      (fun σ => ∑ τ ∈ digitsU d ψ.A.length, o.elem σ τ * (ψ.setSite i A).amp τ)).f s' x' y' := by
  obtain ⟨T', hT', _, _, _, e⟩ := C04.local_projection hψ ho hL hi hW hA0 hA1 hA2
    (B := unitT3 d (mpsBond ψ i) (mpsBond ψ (i + 1)) s' x' y') rfl rfl rfl hLb hRb
  have : T' = T := Except.ok.inj (hT'.symm.trans hT)
  subst this
  rw [sum_unitT3 hs hx hy] at e
  rw [e, sum_digitsU_split hi]
  have e1 : ∀ σl ∈ digits (List.replicate i d), ∀ s ∈ range d,
      ∀ σr ∈ digits (List.replicate (ψ.A.length - (i + 1)) d),
      (∑ τ ∈ digitsU d ψ.A.length, star ((ψ.setSite i (unitT3 d (mpsBond ψ i) (mpsBond ψ (i + 1)) s' x' y')).amp
          (σl ++ s :: σr)) * o.elem (σl ++ s :: σr) τ * (ψ.setSite i A).amp τ) =
      if s' = s then star (pmat (ψ.A.take i) σl 0 x') * star (pmat (ψ.A.drop (i + 1)) σr y' 0) *
        ∑ τ ∈ digitsU d ψ.A.length, o.elem (σl ++ s :: σr) τ * (ψ.setSite i A).amp τ else 0 := by
    intro σl hl s hs' σr hr
    rw [amp_setSite_split hψ hi rfl rfl rfl hl (mem_range.1 hs') hr, emb_unit hx hy]
    by_cases h : s' = s
    · simp only [if_pos h, star_mul', Finset.mul_sum]
      refine Finset.sum_congr rfl fun τ _ => ?_
      ring
    · simp only [if_neg h, star_zero, zero_mul, Finset.sum_const_zero]
  rw [Finset.sum_congr rfl fun σl hl => Finset.sum_congr rfl fun s hs' => Finset.sum_congr rfl fun σr hr =>
    e1 σl hl s hs' σr hr]
  rw [sum_mid_delta _ _ hs]
  rfl

omit [DecidableEq 𝕜] in
/-- on a complete frame, a tensor whose in-range entries are those of `Vᴴ w` embeds to `w` -/
theorem amp_setSite_locOf {ψ : MPS 𝕜} {d : Nat} (hψ : C04.MPS.Shaped ψ d) {i : Nat} (hi : i < ψ.A.length)
    (F : Frame d i (ψ.A.length - (i + 1)) (mpsBond ψ i) (mpsBond ψ (i + 1)) (ψ.A.take i) (ψ.A.drop (i + 1)))
    {A : T3 𝕜} (hA0 : A.d0 = d) (hA1 : A.d1 = mpsBond ψ i) (hA2 : A.d2 = mpsBond ψ (i + 1)) {w : List Nat → 𝕜}
    (hAw : ∀ s x y, s < d → x < mpsBond ψ i → y < mpsBond ψ (i + 1) → A.f s x y =
      (locOf (ψ.A.take i) (ψ.A.drop (i + 1)) i (ψ.A.length - (i + 1)) d (mpsBond ψ i) (mpsBond ψ (i + 1)) w).f s x y)
    {τ : List Nat} (hτ : τ ∈ digitsU d ψ.A.length) : (ψ.setSite i A).amp τ = w τ := by
  obtain ⟨τl, t, τr, hl, ht, hr, rfl⟩ := mem_digitsU_split hi hτ
  rw [amp_setSite_split hψ hi hA0 hA1 hA2 hl ht hr, emb_congr (fun x y hx hy => hAw t x y ht hx hy)]
  exact F.VU w t hl hr

/-- on a complete frame, `Vᴴ` maps eigenvectors of the dense operator to eigenvectors of `H_eff` -/
theorem heff_eigen_entry {ψ : MPS 𝕜} {o : MPO 𝕜} {d : Nat} (hψ : C04.MPS.Shaped ψ d) (ho : C04.MPO.Shaped o d)
    (hL : ψ.A.length = o.A.length) {i : Nat} (hi : i < ψ.A.length) {W : T4 𝕜} (hW : o.A[i]? = some W)
    (F : Frame d i (ψ.A.length - (i + 1)) (mpsBond ψ i) (mpsBond ψ (i + 1)) (ψ.A.take i) (ψ.A.drop (i + 1)))
    {Lb Rb : T3 𝕜} (hLb : IsLeftBlock ψ o d i Lb) (hRb : IsRightBlock ψ o d (i + 1) Rb)
    {μ : ℝ} {w : List Nat → 𝕜} (hw : DenseEig o d μ w)
    {A T : T3 𝕜} (hA0 : A.d0 = d) (hA1 : A.d1 = mpsBond ψ i) (hA2 : A.d2 = mpsBond ψ (i + 1))
    (hAw : ∀ s x y, s < d → x < mpsBond ψ i → y < mpsBond ψ (i + 1) → A.f s x y =
      (locOf (ψ.A.take i) (ψ.A.drop (i + 1)) i (ψ.A.length - (i + 1)) d (mpsBond ψ i) (mpsBond ψ (i + 1)) w).f s x y)
    (hT : Op.applyLocalHamiltonian Lb Rb W A = .ok T) {s' x' y' : Nat} (hs : s' < d) (hx : x' < mpsBond ψ i)
    (hy : y' < mpsBond ψ (i + 1)) : T.f s' x' y' = ((μ : ℝ) : 𝕜) * A.f s' x' y' := by
  rw [heff_entry hψ ho hL hi hW hA0 hA1 hA2 hLb hRb hT hs hx hy, hAw s' x' y' hs hx hy]
  apply locOf_smul
  intro σl σr hl hr
  have hσ := mem_digitsU_of_split hi hl hs hr
  show ∑ τ ∈ digitsU d ψ.A.length, o.elem (σl ++ s' :: σr) τ * (ψ.setSite i A).amp τ = _
  rw [Finset.sum_congr rfl fun τ hτ => by rw [amp_setSite_locOf hψ hi F hA0 hA1 hA2 hAw hτ]]
  rw [hL] at hσ ⊢
  exact hw _ hσ

/-! ## flat forms -/

omit [RCLike 𝕜] [DecidableEq 𝕜] in
theorem vget_flat3_idx {α : Type} [OfNat α 0] (T : T3 α) {i : Nat} (hi : i < T.d0 * T.d1 * T.d2) :
    vget (flat3 T) i = T.f (i / (T.d1 * T.d2)) (i / T.d2 % T.d1) (i % T.d2) := by
  unfold flat3
  rw [vget_map_range, if_pos hi]

omit [RCLike 𝕜] [DecidableEq 𝕜] in
theorem idx_ranges {i d0 d1 d2 : Nat} (hi : i < d0 * d1 * d2) :
    i / (d1 * d2) < d0 ∧ i / d2 % d1 < d1 ∧ i % d2 < d2 := by
  have hi2 : i < d0 * (d1 * d2) := by rw [← Nat.mul_assoc]; exact hi
  exact ⟨Ortho.div_lt_of_lt_mul hi2, Ortho.mod_lt_of_lt_mul (Ortho.div_lt_of_lt_mul hi), Ortho.mod_lt_of_lt_mul hi⟩

omit [DecidableEq 𝕜] in
/-- an entrywise eigenvector relation of `H_eff` is an `IsEigen` of the flat map -/
theorem isEigen_of_entries {L R : T3 𝕜} {W : T4 𝕜} {Y : T3 𝕜} (hF : LocalFits L R W Y.d0 Y.d1 Y.d2) {μ : ℝ}
    (hent : ∀ A T : T3 𝕜, A.d0 = Y.d0 → A.d1 = Y.d1 → A.d2 = Y.d2 →
      (∀ s x y, s < Y.d0 → x < Y.d1 → y < Y.d2 → A.f s x y = Y.f s x y) →
      Op.applyLocalHamiltonian L R W A = .ok T →
      ∀ s x y, s < Y.d0 → x < Y.d1 → y < Y.d2 → T.f s x y = ((μ : ℝ) : 𝕜) * A.f s x y) :
    IsEigen (Y.d0 * Y.d1 * Y.d2) (localHFun L R W Y.d0 Y.d1 Y.d2) μ (flat3 Y) := by
  refine ⟨length_flat3 Y, fun i hi => ?_⟩
  obtain ⟨T, hT, e, t0, t1, t2⟩ := localHFun_eq hF (flat3 Y)
  obtain ⟨hs, hx, hy⟩ := idx_ranges hi
  have hYA : ∀ s x y, s < Y.d0 → x < Y.d1 → y < Y.d2 → (unflat3 (flat3 Y) Y.d0 Y.d1 Y.d2).f s x y = Y.f s x y := by
    intro s x y hs hx hy
    rw [unflat3_f, vget_flat3 Y hs hx hy]
  have key := hent (unflat3 (flat3 Y) Y.d0 Y.d1 Y.d2) T rfl rfl rfl hYA hT _ _ _ hs hx hy
  have hv := vget_flat3_idx T (i := i) (by rw [t0, t1, t2]; exact hi)
  rw [t1, t2] at hv
  rw [e, hv, key, hYA _ _ _ hs hx hy, vget_flat3_idx Y hi]

omit [DecidableEq 𝕜] in
/-- an entrywise linear combination of tensors is a linear combination of the flat vectors -/
theorem vget_flat3_comb {X : T3 𝕜} {K : Nat} {a : Nat → 𝕜} {Y : Nat → T3 𝕜}
    (hd : ∀ f, (Y f).d0 = X.d0 ∧ (Y f).d1 = X.d1 ∧ (Y f).d2 = X.d2)
    (h : ∀ s x y, s < X.d0 → x < X.d1 → y < X.d2 → X.f s x y = ∑ f ∈ range K, a f * (Y f).f s x y) {i : Nat}
    (hi : i < X.d0 * X.d1 * X.d2) : vget (flat3 X) i = ∑ f ∈ range K, a f * vget (flat3 (Y f)) i := by
  obtain ⟨hs, hx, hy⟩ := idx_ranges hi
  rw [vget_flat3_idx X hi, h _ _ _ hs hx hy]
  refine Finset.sum_congr rfl fun f _ => ?_
  obtain ⟨y0, y1, y2⟩ := hd f
  have hv := vget_flat3_idx (Y f) (i := i) (by rw [y0, y1, y2]; exact hi)
  rw [y1, y2] at hv
  rw [hv]

/-! ## the frame of a complete mixed-canonical sweep state -/

variable {H : MPO 𝕜} {qd : List Int}

theorem Canon.frame {s : Sweep 𝕜} {c : Nat} (h : Canon H qd s c) (hsqL : ∀ j, j < c → SqL qd s j)
    (hsqR : ∀ j, c < j → j < H.A.length → SqR qd s j) :
    Frame qd.length c ((cur qd s).A.length - (c + 1)) (mpsBond (cur qd s) c) (mpsBond (cur qd s) (c + 1))
      ((cur qd s).A.take c) ((cur qd s).A.drop (c + 1)) := by
  have hc := h.hc
  have cL := h.cpre (Nat.le_of_lt hc)
  have cR := h.csuf (k := c + 1) hc
  rw [← h.bond (Nat.le_of_lt hc)] at cL
  rw [← h.bond (j := c + 1) hc, ← h.len] at cR
  have hLi : ∀ X ∈ (cur qd s).A.take c, LeftIso X ∧ X.d0 * X.d1 = X.d2 := by
    intro X hX
    obtain ⟨j, hj, _, rfl⟩ := mem_take_getD hX
    rw [cur_getD]
    obtain ⟨a0, a1, a2⟩ := h.wf.shape j (by omega)
    refine ⟨h.liso j hj, ?_⟩
    rw [a0, a1, a2]
    exact hsqL j hj
  have hRi : ∀ X ∈ (cur qd s).A.drop (c + 1), RightIso X ∧ X.d1 = X.d0 * X.d2 := by
    intro X hX
    obtain ⟨j, hj, hj', rfl⟩ := mem_drop_getD hX
    rw [h.len] at hj'
    rw [cur_getD]
    obtain ⟨a0, a1, a2⟩ := h.wf.shape j hj'
    refine ⟨h.riso j (by omega) hj', ?_⟩
    rw [a0, a1, a2]
    exact hsqR j (by omega) hj'
  refine ⟨?_, ?_, ?_, ?_⟩
  · intro x x' hx hx'
    have := leftIso_chain cL (fun B hB => (hLi B hB).1) hx hx'
    simpa using this
  · intro y y' hy hy'
    have := rightIso_chain cR (fun B hB => (hRi B hB).1) hy hy'
    simpa using this
  · intro σ σ' hσ hσ'
    have := leftIso_chain_complete cL (fun B hB => (hLi B hB).1) (fun B hB => (hLi B hB).2) hσ hσ'
      (a := 0) (a' := 0) Nat.one_pos Nat.one_pos
    simpa using this
  · intro σ σ' hσ hσ'
    have := rightIso_chain_complete cR (fun B hB => (hRi B hB).1) (fun B hB => (hRi B hB).2) hσ hσ'
      (c := 0) (c' := 0) Nat.one_pos Nat.one_pos
    simpa using this

end Ptn.Evo

import PtnModel.Proofs.OgMergePar
/-!
# `merge_edges`, case of two equal-operator edges from different upstream nodes (the nodes are merged)
-/
set_option linter.unusedSectionVars false
namespace Ptn.Og
open List Rw
variable {κ : Type} [CommRing κ] [DecidableEq κ]

/-- redirect the end point (in direction `d`) of an edge from `u2` to `u1` -/
def redirE (d : Bool) (u2 u1 : Int) (e : Edge κ) : Edge κ := if e.nid d = u2 then e.setNid d u1 else e

/-- the node stored under `k` after a node merge: `eid2` is gone from the upstream list, and the surviving
node `u1` inherits the upstream edges `L2` of the absorbed node -/
def mergeNode (d : Bool) (eid2 u1 : Int) (L2 : List Int) (k : Int) (n : Node) : Node :=
  n.setEids (!d) ((n.eids (!d)).erase eid2 ++ (if k = u1 then L2 else []))

theorem redirE_nid_other (d : Bool) (u2 u1 : Int) (e : Edge κ) : (redirE d u2 u1 e).nid (!d) = e.nid (!d) := by
  unfold redirE; split <;> cases d <;> rfl

theorem redirE_nid (d : Bool) (u2 u1 : Int) (e : Edge κ) :
    (redirE d u2 u1 e).nid d = if e.nid d = u2 then u1 else e.nid d := by
  unfold redirE; split <;> cases d <;> rfl

theorem redirE_opics (d : Bool) (u2 u1 : Int) (e : Edge κ) : (redirE d u2 u1 e).opics = e.opics := by
  unfold redirE; split <;> cases d <;> rfl

theorem redirE_eid (d : Bool) (u2 u1 : Int) (e : Edge κ) : (redirE d u2 u1 e).eid = e.eid := by
  unfold redirE; split <;> cases d <;> rfl

/-- the node-merging case of `merge_edges`: result -/
theorem mergeEdges_nodes_spec {g g' : Graph κ} (h : SValid g) {eid1 eid2 : Int} {d : Bool}
    (hr : g.mergeEdges eid1 eid2 d = .ok g') {edge1 edge2 : Edge κ}
    (h1 : dGet? g.edges eid1 = some edge1) (h2 : dGet? g.edges eid2 = some edge2)
    (hnp : edge1.nid (!d) ≠ edge2.nid (!d)) :
    ∃ N1 N2, dGet? g.nodes (edge1.nid (!d)) = some N1 ∧ dGet? g.nodes (edge2.nid (!d)) = some N2 ∧
      edge1.nid d = edge2.nid d ∧ edge1.opics = edge2.opics ∧
      edge2.nid (!d) ≠ g.nidTerminal.1 ∧ edge2.nid (!d) ≠ g.nidTerminal.2 ∧
      (N1.eids d).length = 1 ∧ (N2.eids d).length = 1 ∧ N1.qnum = N2.qnum ∧
      ((edge1.nid (!d) = g.nidTerminal.1 ∨ edge1.nid (!d) = g.nidTerminal.2) → (N2.eids (!d)).erase eid2 = []) ∧
      g'.nidTerminal = g.nidTerminal ∧
      g'.edges = (dErase g.edges eid2).map (fun p => (p.1, redirE d (edge2.nid (!d)) (edge1.nid (!d)) p.2)) ∧
      dKeys g'.nodes = (dKeys g.nodes).erase (edge2.nid (!d)) ∧
      ∀ k, dGet? g'.nodes k = if k = edge2.nid (!d) then none
        else (dGet? g.nodes k).map (mergeNode d eid2 (edge1.nid (!d)) ((N2.eids (!d)).erase eid2) k) := by
  unfold Graph.mergeEdges at hr
  simp only [bind_ok, pyAssert_ok, Prod.exists, beq_iff_eq, Graph.getEdge, Graph.getNode, dGet_eq_ok_iff] at hr
  obtain ⟨e1, he1, e2, g1, hrem, _, hbase, g3, hmod, hr⟩ := hr
  rw [h1] at he1; cases he1
  rw [removeEdge_ok, h2] at hrem
  obtain ⟨he2, rfl⟩ := hrem
  cases he2
  have hm2 := mem_of_dGet?_eq_some h2
  have hm1 := mem_of_dGet?_eq_some h1
  have heid2 : edge2.eid = eid2 := h.edgeKey _ _ hm2
  subst heid2
  rw [Rw.modifyNode_ok] at hmod
  obtain ⟨nb, nb', hnb, hfb, rfl⟩ := hmod
  rw [Node.removeEdgeId_ok] at hfb
  obtain ⟨hcb, rfl⟩ := hfb
  simp only [hnp, if_false, bind_ok, pyAssert_ok, Prod.exists, beq_iff_eq, dGet_eq_ok_iff,
    Bool.not_eq_eq_eq_not, Bool.not_true, Bool.or_eq_false_iff, beq_eq_false_iff_ne] at hr
  obtain ⟨_, hop, _, ⟨hnt1, hnt2⟩, node1, hnode1, node2, g4, hrm, _, hlen1, _, hlen2, _, hq, _, hacq, g5, hfold, hmodu⟩ := hr
  rw [Rw.removeNode_ok] at hrm
  obtain ⟨hnode2, rfl⟩ := hrm
  simp only at hnb hnode1 hnode2
  have hmemb := mem_of_dGet?_eq_some hnb
  have hkb : edge2.nid d ∈ dKeys g.nodes := dGet?_some_mem_keys hnb
  -- the original nodes at u1 and u2
  set b := edge2.nid d with hb
  set u1 := edge1.nid (!d) with hu1
  set u2 := edge2.nid (!d) with hu2
  set nb' := nb.setEids (!d) ((nb.eids (!d)).erase edge2.eid) with hnb'
  rw [Rw.dGet?_dReplace] at hnode1 hnode2
  -- node1 / node2 in terms of the original dictionary
  obtain ⟨N1, hN1, hN1d, hN1q, hN1nid⟩ : ∃ N1, dGet? g.nodes u1 = some N1 ∧ node1.eids d = N1.eids d ∧
      node1.qnum = N1.qnum ∧ node1.nid = u1 := by
    by_cases hub : u1 = b
    · simp only [hub, hkb, and_self, if_true, Option.some.injEq] at hnode1
      subst hnode1
      refine ⟨nb, by rw [hub]; exact hnb, ?_, by simp [hnb'], ?_⟩
      · rw [hnb', Node.setEids_eids]; cases d <;> simp
      · rw [hnb']; simp only [Node.setEids_nid]; rw [hub]; exact h.nodeKey _ _ hmemb
    · simp only [hub, false_and, if_false] at hnode1
      exact ⟨node1, hnode1, rfl, rfl, h.nodeKey _ _ (mem_of_dGet?_eq_some hnode1)⟩
  obtain ⟨N2, hN2, hN2d, hN2q, hN2u⟩ : ∃ N2, dGet? g.nodes u2 = some N2 ∧ node2.eids d = N2.eids d ∧
      node2.qnum = N2.qnum ∧ node2.eids (!d) = (N2.eids (!d)).erase edge2.eid := by
    by_cases hub : u2 = b
    · simp only [hub, hkb, and_self, if_true, Option.some.injEq] at hnode2
      subst hnode2
      refine ⟨nb, by rw [hub]; exact hnb, ?_, by simp [hnb'], ?_⟩
      · rw [hnb', Node.setEids_eids]; cases d <;> simp
      · rw [hnb']; simp
    · simp only [hub, false_and, if_false] at hnode2
      refine ⟨node2, hnode2, rfl, rfl, ?_⟩
      have : edge2.eid ∉ node2.eids (!d) := by
        intro hc
        have := (h.mem_eids_iff hm2 (mem_of_dGet?_eq_some hnode2) (!d)).1 hc
        simp only [Bool.not_not] at this
        exact hub this.symm
      rw [erase_of_not_mem this]
  have hmN2 := mem_of_dGet?_eq_some hN2
  have hmN1 := mem_of_dGet?_eq_some hN1
  -- the edge fold
  have hL2nodup : (node2.eids (!d)).Nodup := by
    rw [hN2u]; exact (h.eidsNodup _ _ hmN2 (!d)).erase _
  obtain ⟨f1, f2, f3, f4, f5⟩ := foldlM_modifyEdge hfold hL2nodup
  simp only at f1 f2 f3 f4 f5
  rw [Rw.modifyNode_ok] at hmodu
  obtain ⟨ncur, ncur', hncur, hfcur, rfl⟩ := hmodu
  simp only [pure_ok] at hfcur
  subst hfcur
  refine ⟨N1, N2, hN1, hN2, hbase, hop, hnt1, hnt2, by rw [← hN1d]; exact hlen1, by rw [← hN2d]; exact hlen2,
    by rw [← hN1q, ← hN2q]; exact hq, ?_, f2, ?_, ?_, ?_⟩
  · intro hterm1
    rw [hN1nid, hN2u] at hacq
    have ht : (decide (u1 = g.nidTerminal.1) || decide (u1 = g.nidTerminal.2)) = true := by
      rcases hterm1 with q | q <;> simp [q]
    simp only [beq_iff_eq] at hacq
    cases hemp : ((N2.eids (!d)).erase edge2.eid).isEmpty with
    | true => exact List.isEmpty_iff.1 hemp
    | false =>
      rw [hemp] at hacq
      rcases hterm1 with q | q <;> simp [q] at hacq
  · -- edges
    apply dict_ext
    · rw [f3]; simp [dKeys, map_map, Function.comp]
    · rw [f3, dKeys_dErase]; exact h.edgesKeys.erase _
    · intro k
      rw [dGet?_map_snd, dGet?_dErase _ h.edgesKeys]
      by_cases hk2 : k = edge2.eid
      · subst hk2
        have : edge2.eid ∉ node2.eids (!d) := by
          rw [hN2u]; exact (h.eidsNodup _ _ hmN2 (!d)).not_mem_erase
        rw [f5 _ this, dGet?_dErase _ h.edgesKeys]; simp
      · simp only [hk2, if_false]
        cases hl : dGet? g.edges k with
        | none =>
          have : k ∉ node2.eids (!d) := by
            intro hc
            obtain ⟨e, e', q1, _, _⟩ := f4 k hc
            rw [dGet?_dErase _ h.edgesKeys] at q1
            simp [hk2, hl] at q1
          rw [f5 _ this, dGet?_dErase _ h.edgesKeys]; simp [hk2, hl]
        | some e =>
          have he := mem_of_dGet?_eq_some hl
          have hiff := h.mem_eids_iff he hmN2 (!d)
          simp only [Bool.not_not] at hiff
          simp only [Option.map_some]
          by_cases hin : k ∈ node2.eids (!d)
          · obtain ⟨e0, e0', q1, q2, q3⟩ := f4 k hin
            rw [dGet?_dErase _ h.edgesKeys] at q1
            simp only [hk2, if_false, hl, Option.some.injEq] at q1
            subst q1
            simp only [pure_ok] at q2
            subst q2
            rw [q3]
            have hh : e.nid d = u2 := hiff.1 (by rw [hN2u] at hin; exact mem_of_mem_erase hin)
            simp only [redirE, hh, if_true, hN1nid]
          · rw [f5 _ hin, dGet?_dErase _ h.edgesKeys]
            simp only [hk2, if_false, hl, Option.some.injEq]
            have : ¬ e.nid d = u2 := by
              intro hc
              apply hin
              rw [hN2u]
              exact (mem_erase_of_ne hk2).2 (hiff.2 hc)
            simp [redirE, this]
  · simp only [f1, Rw.dKeys_dReplace, dKeys_dErase]
  · -- nodes
    intro k
    have hkeys3 : (dKeys (dReplace g.nodes b nb')).Nodup := by rw [Rw.dKeys_dReplace]; exact h.nodesKeys
    rw [f1] at hncur ⊢
    rw [dGet?_dErase _ hkeys3, Rw.dGet?_dReplace] at hncur
    have hne12 : ¬ u1 = u2 := hnp
    simp only [hne12, if_false] at hncur
    rw [Rw.dGet?_dReplace, dKeys_dErase, Rw.dKeys_dReplace, dGet?_dErase _ hkeys3, Rw.dGet?_dReplace]
    have hu1k : u1 ∈ (dKeys g.nodes).erase u2 := (mem_erase_of_ne hne12).2 (dGet?_some_mem_keys hN1)
    by_cases hk2 : k = u2
    · have hne21 : ¬ u2 = u1 := fun hh => hne12 hh.symm
      simp [hk2, hne21]
    · simp only [hk2, if_false]
      by_cases hk1 : k = u1
      · subst hk1
        simp only [hu1k, and_self, if_true]
        by_cases hkb' : u1 = b
        · simp only [hkb', hkb, and_self, if_true, Option.some.injEq] at hncur
          subst hncur
          rw [← hkb', hN1] at hnb
          cases hnb
          rw [hN1]
          simp only [Option.map_some, Option.some.injEq, mergeNode, if_true, hN2u]
          cases d <;> simp [Node.setEids, Node.eids, hnb']
        · simp only [hkb', false_and, if_false] at hncur
          rw [hN1] at hncur ⊢
          cases hncur
          simp only [Option.map_some, Option.some.injEq, mergeNode, if_true, hN2u]
          have : edge2.eid ∉ N1.eids (!d) := by
            intro hc
            have := (h.mem_eids_iff hm2 hmN1 (!d)).1 hc
            simp only [Bool.not_not] at this
            exact hkb' this.symm
          rw [erase_of_not_mem this]
      · simp only [hk1, false_and, if_false]
        by_cases hkb' : k = b
        · subst hkb'
          simp only [hkb, and_self, if_true, hnb, Option.map_some, Option.some.injEq, mergeNode, hk1, if_false,
            append_nil, hnb']
        · simp only [hkb', false_and, if_false]
          cases hl : dGet? g.nodes k with
          | none => rfl
          | some n =>
            simp only [Option.map_some, Option.some.injEq, mergeNode, hk1, if_false, append_nil]
            have : edge2.eid ∉ n.eids (!d) := by
              intro hc
              have := (h.mem_eids_iff hm2 (mem_of_dGet?_eq_some hl) (!d)).1 hc
              simp only [Bool.not_not] at this
              exact hkb' this.symm
            rw [erase_of_not_mem this]
            cases d <;> rfl

/-- two nodes whose only outgoing edges carry the same operators to the same node have the same path sums -/
theorem denL_twin (d : Bool) (t : Int) (R : List (Edge κ)) (e1 e2 : Edge κ) {u1 u2 b : Int}
    (hu : u1 ≠ u2) (hu1t : u1 ≠ t) (hu2t : u2 ≠ t)
    (ht1 : e1.nid (!d) = u1) (hh1 : e1.nid d = b) (ht2 : e2.nid (!d) = u2) (hh2 : e2.nid d = b)
    (hop : ∀ o, opc e1 o = opc e2 o) (hR : ∀ e ∈ R, e.nid (!d) ≠ u1 ∧ e.nid (!d) ≠ u2) (w : Word) :
    denL (e1 :: e2 :: R) d t w u2 = denL (e1 :: e2 :: R) d t w u1 := by
  cases w with
  | nil => simp [denL_nil, hu1t, hu2t]
  | cons o v =>
    rw [denL_cons, denL_cons]
    simp only [hu1t, hu2t, if_false, map_cons, sum_cons, ht1, ht2, hh1, hh2]
    have z1 : (R.map fun e => if e.nid (!d) = u2 then opc e o * denL (e1 :: e2 :: R) d t v (e.nid d) else 0).sum = 0 :=
      sum_map_eq_zero _ _ (fun e he => by simp [(hR e he).2])
    have z2 : (R.map fun e => if e.nid (!d) = u1 then opc e o * denL (e1 :: e2 :: R) d t v (e.nid d) else 0).sum = 0 :=
      sum_map_eq_zero _ _ (fun e he => by simp [(hR e he).1])
    have hu' : ¬ u2 = u1 := fun h => hu h.symm
    simp [z1, z2, hu, hu', hop]

/-- dropping `e2` and redirecting all edges into `u2` to `u1` keeps the path sums from every node but `u2` -/
theorem denL_merge_nodes (d : Bool) (t : Int) (R : List (Edge κ)) (e1 e2 : Edge κ) {u1 u2 b : Int}
    (hu : u1 ≠ u2) (hu1t : u1 ≠ t) (hu2t : u2 ≠ t)
    (ht1 : e1.nid (!d) = u1) (hh1 : e1.nid d = b) (ht2 : e2.nid (!d) = u2) (hh2 : e2.nid d = b)
    (hop : ∀ o, opc e1 o = opc e2 o) (hR : ∀ e ∈ R, e.nid (!d) ≠ u1 ∧ e.nid (!d) ≠ u2) :
    ∀ (w : Word) (x : Int), x ≠ u2 →
      denL ((e1 :: R).map (redirE d u2 u1)) d t w x = denL (e1 :: e2 :: R) d t w x := by
  intro w
  induction w with
  | nil => intro x _; simp [denL_nil]
  | cons o v ih =>
    intro x hx
    rw [denL_cons, denL_cons]
    by_cases hxt : x = t
    · simp [hxt]
    · simp only [hxt, if_false]
      rw [map_map]
      have key : ∀ e : Edge κ,
          (if (redirE d u2 u1 e).nid (!d) = x
            then opc (redirE d u2 u1 e) o * denL ((e1 :: R).map (redirE d u2 u1)) d t v ((redirE d u2 u1 e).nid d) else 0)
          = if e.nid (!d) = x then opc e o * denL (e1 :: e2 :: R) d t v (e.nid d) else 0 := by
        intro e
        rw [redirE_nid_other]
        have : opc (redirE d u2 u1 e) o = opc e o := by
          unfold opc; rw [redirE_opics]
        rw [this, redirE_nid]
        by_cases hc : e.nid (!d) = x
        · simp only [hc, if_true]
          by_cases hh : e.nid d = u2
          · simp only [hh, if_true]
            rw [ih u1 hu, denL_twin d t R e1 e2 hu hu1t hu2t ht1 hh1 ht2 hh2 hop hR]
          · simp only [hh, if_false]
            rw [ih _ hh]
        · simp [hc]
      have hm : map ((fun e => if e.nid (!d) = x
              then opc e o * denL ((e1 :: R).map (redirE d u2 u1)) d t v (e.nid d) else 0) ∘ redirE d u2 u1) (e1 :: R)
          = map (fun e => if e.nid (!d) = x then opc e o * denL (e1 :: e2 :: R) d t v (e.nid d) else 0) (e1 :: R) :=
        map_congr_left (fun e _ => key e)
      rw [hm]
      have : ¬ e2.nid (!d) = x := by rw [ht2]; exact fun h => hx h.symm
      simp [this]


/-- a node with exactly one edge in direction `d` lists exactly the edges leaving it that way -/
theorem SValid.single_eid {g : Graph κ} (h : SValid g) {k : Int} {n : Node} (hn : (k, n) ∈ g.nodes) {d : Bool}
    (hlen : (n.eids d).length = 1) {eid : Int} {e : Edge κ} (he : (eid, e) ∈ g.edges) (hk : e.nid (!d) = k)
    {eid' : Int} {e' : Edge κ} (he' : (eid', e') ∈ g.edges) (hk' : e'.nid (!d) = k) : eid' = eid := by
  have m1 := (h.mem_eids_iff he hn d).2 hk
  have m2 := (h.mem_eids_iff he' hn d).2 hk'
  match hl : n.eids d, hlen with
  | [a], _ =>
    rw [hl] at m1 m2
    simp only [mem_singleton] at m1 m2
    rw [m1, m2]

/-- a node with an edge in direction `d` is not the terminal of that direction -/
theorem SValid.ne_term_of_edge {g : Graph κ} (h : SValid g) {eid : Int} {e : Edge κ} (he : (eid, e) ∈ g.edges)
    (d : Bool) : e.nid (!d) ≠ g.term d := by
  intro hc
  obtain ⟨n, hn, hk⟩ := h.edgeNode eid e he (!d)
  obtain ⟨n', hn', he'⟩ := h.termNode d
  rw [hc] at hn
  have := h.node_unique hn hn'
  subst this
  simp only [Bool.not_not] at hk
  rw [he'] at hk
  simp at hk

/-- `merge_edges` (node-merging case) keeps the path sums in direction `d` from every node but the absorbed one -/
theorem denD_mergeEdges_nodes {g g' : Graph κ} (h : SValid g) {eid1 eid2 : Int} {d : Bool}
    (hr : g.mergeEdges eid1 eid2 d = .ok g') {edge1 edge2 : Edge κ}
    (h1 : dGet? g.edges eid1 = some edge1) (h2 : dGet? g.edges eid2 = some edge2)
    (hnp : edge1.nid (!d) ≠ edge2.nid (!d)) (w : Word) (x : Int) (hx : x ≠ edge2.nid (!d)) :
    g'.denD d w x = g.denD d w x := by
  obtain ⟨N1, N2, hN1, hN2, hbase, hop, hnt1, hnt2, hl1, hl2, hq, hacq, hterm, hedges, hkeys, hL⟩ :=
    mergeEdges_nodes_spec h hr h1 h2 hnp
  have hm1 := mem_of_dGet?_eq_some h1
  have hm2 := mem_of_dGet?_eq_some h2
  have hmN1 := mem_of_dGet?_eq_some hN1
  have hmN2 := mem_of_dGet?_eq_some hN2
  have hne : eid1 ≠ eid2 := by
    intro hc; subst hc
    rw [h1] at h2; cases h2; exact hnp rfl
  have ht : g'.term d = g.term d := by cases d <;> simp [Graph.term, hterm]
  rw [Graph.denD_eq, Graph.denD_eq, ht]
  have p1 := perm_cons_dErase h2
  have h1' : dGet? (dErase g.edges eid2) eid1 = some edge1 := by
    rw [dGet?_dErase _ h.edgesKeys]; simp [hne, h1]
  have p2 := perm_cons_dErase h1'
  set R := (dErase (dErase g.edges eid2) eid1).map (·.2) with hR
  have pe : g.edgeList.Perm (edge1 :: edge2 :: R) := by
    unfold Graph.edgeList
    have := (p1.trans (p2.cons _)).map (·.2)
    refine this.trans ?_
    simp only [map_cons]
    exact Perm.swap _ _ _
  have pe' : g'.edgeList.Perm ((edge1 :: R).map (redirE d (edge2.nid (!d)) (edge1.nid (!d)))) := by
    unfold Graph.edgeList
    rw [hedges, map_map]
    have := p2.map (fun p : Int × Edge κ => redirE d (edge2.nid (!d)) (edge1.nid (!d)) p.2)
    refine this.trans ?_
    simp only [hR, map_cons, map_map]
    exact Perm.refl _
  rw [denL_perm pe, denL_perm pe']
  refine denL_merge_nodes d _ R edge1 edge2 hnp ?_ ?_ rfl hbase rfl rfl ?_ ?_ w x hx
  · exact h.ne_term_of_edge hm1 d
  · exact h.ne_term_of_edge hm2 d
  · intro o; unfold opc; rw [hop]
  · intro e he
    rw [hR] at he
    obtain ⟨⟨k, e'⟩, hp, rfl⟩ := mem_map.1 he
    have hk1 : k ≠ eid1 := ne_of_mem_dErase (by rw [dKeys_dErase]; exact h.edgesKeys.erase _) hp
    have hp2 := (dErase_sublist _ _).subset hp
    have hk2 : k ≠ eid2 := ne_of_mem_dErase h.edgesKeys hp2
    have hp3 := (dErase_sublist _ _).subset hp2
    constructor
    · intro hc
      exact hk1 (h.single_eid hmN1 hl1 hm1 rfl hp3 hc)
    · intro hc
      exact hk2 (h.single_eid hmN2 hl2 hm2 rfl hp3 hc)


theorem mergeNode_eids_same (d : Bool) (eid2 u1 : Int) (L2 : List Int) (k : Int) (n : Node) :
    (mergeNode d eid2 u1 L2 k n).eids d = n.eids d := by
  unfold mergeNode; cases d <;> rfl

theorem mergeNode_eids_other (d : Bool) (eid2 u1 : Int) (L2 : List Int) (k : Int) (n : Node) :
    (mergeNode d eid2 u1 L2 k n).eids (!d) = (n.eids (!d)).erase eid2 ++ (if k = u1 then L2 else []) := by
  unfold mergeNode; cases d <;> rfl

/-- `merge_edges` (node-merging case) keeps structural validity (the assertions of the code guarantee that no
terminal node is absorbed and that a surviving terminal node does not inherit upstream edges) -/
theorem SValid.mergeEdges_nodes {g g' : Graph κ} (h : SValid g) {eid1 eid2 : Int} {d : Bool}
    (hr : g.mergeEdges eid1 eid2 d = .ok g') {edge1 edge2 : Edge κ}
    (h1 : dGet? g.edges eid1 = some edge1) (h2 : dGet? g.edges eid2 = some edge2)
    (hnp : edge1.nid (!d) ≠ edge2.nid (!d)) : SValid g' := by
  obtain ⟨N1, N2, hN1, hN2, hbase, hop, hnt1, hnt2, hl1, hl2, hq, hacq, hterm, hedges, hkeys, hL⟩ :=
    mergeEdges_nodes_spec h hr h1 h2 hnp
  have hm1 := mem_of_dGet?_eq_some h1
  have hm2 := mem_of_dGet?_eq_some h2
  have hmN1 := mem_of_dGet?_eq_some hN1
  have hmN2 := mem_of_dGet?_eq_some hN2
  set u1 := edge1.nid (!d) with hu1
  set u2 := edge2.nid (!d) with hu2
  set L2 := (N2.eids (!d)).erase eid2 with hL2
  have hnk' : (dKeys g'.nodes).Nodup := by rw [hkeys]; exact h.nodesKeys.erase _
  have hek' : (dKeys g'.edges).Nodup := by
    rw [hedges]
    have : dKeys ((dErase g.edges eid2).map fun p => (p.1, redirE d u2 u1 p.2)) = dKeys (dErase g.edges eid2) := by
      simp [dKeys, map_map, Function.comp]
    rw [this, dKeys_dErase]; exact h.edgesKeys.erase _
  have nodes' : ∀ {k n'}, (k, n') ∈ g'.nodes → k ≠ u2 ∧ ∃ n, (k, n) ∈ g.nodes ∧ n' = mergeNode d eid2 u1 L2 k n := by
    intro k n' hn'
    have := dGet?_eq_some_of_mem hnk' hn'
    rw [hL] at this
    by_cases hk : k = u2
    · simp [hk] at this
    · simp only [hk, if_false] at this
      cases hl : dGet? g.nodes k with
      | none => rw [hl] at this; cases this
      | some n =>
        rw [hl] at this
        simp only [Option.map_some, Option.some.injEq] at this
        exact ⟨hk, n, mem_of_dGet?_eq_some hl, this.symm⟩
  have nodes_fwd : ∀ {k n}, (k, n) ∈ g.nodes → k ≠ u2 → (k, mergeNode d eid2 u1 L2 k n) ∈ g'.nodes := by
    intro k n hn hk
    apply mem_of_dGet?_eq_some
    rw [hL, dGet?_eq_some_of_mem h.nodesKeys hn]; simp [hk]
  have edges' : ∀ {k e'}, (k, e') ∈ g'.edges → k ≠ eid2 ∧ ∃ e, (k, e) ∈ g.edges ∧ e' = redirE d u2 u1 e := by
    intro k e' he'
    rw [hedges] at he'
    obtain ⟨e, he, rfl⟩ := mem_map_snd.1 he'
    exact ⟨ne_of_mem_dErase h.edgesKeys he, e, (dErase_sublist _ _).subset he, rfl⟩
  have edges_fwd : ∀ {k e}, (k, e) ∈ g.edges → k ≠ eid2 → (k, redirE d u2 u1 e) ∈ g'.edges := by
    intro k e he hk
    rw [hedges]
    exact mem_map_snd.2 ⟨e, mem_dErase_of_ne he hk, rfl⟩
  have hu12 : u1 ≠ u2 := hnp
  refine ⟨hnk', hek', ?_, ?_, ?_, ?_, ?_, ?_, ?_⟩
  · intro k n' hn'
    obtain ⟨_, n, hn, rfl⟩ := nodes' hn'
    simp only [mergeNode, Node.setEids_nid]
    exact h.nodeKey k n hn
  · intro k e' he'
    obtain ⟨_, e, he, rfl⟩ := edges' he'
    rw [redirE_eid]; exact h.edgeKey k e he
  · intro k n' hn' d'
    obtain ⟨hk, n, hn, rfl⟩ := nodes' hn'
    by_cases hd : d' = d
    · subst hd; rw [mergeNode_eids_same]; exact h.eidsNodup k n hn d'
    · have hd' : d' = !d := by cases d <;> cases d' <;> simp_all
      subst hd'
      rw [mergeNode_eids_other]
      by_cases hk1 : k = u1
      · simp only [hk1, if_true]
        refine Nodup.append ((h.eidsNodup k n hn (!d)).erase _) ((h.eidsNodup _ _ hmN2 (!d)).erase _) ?_
        intro x hx1 hx2
        have hx1' := mem_of_mem_erase hx1
        have hx2' := mem_of_mem_erase hx2
        obtain ⟨e, he, hke⟩ := h.nodeEdge k n hn (!d) x hx1'
        obtain ⟨e', he', hke'⟩ := h.nodeEdge _ _ hmN2 (!d) x hx2'
        have := h.edge_unique he he'
        subst this
        rw [hke] at hke'
        exact hu12 (hk1 ▸ hke')
      · simp only [hk1, if_false, append_nil]
        exact (h.eidsNodup k n hn (!d)).erase _
  · intro k n' hn' d' eid heid
    obtain ⟨hk, n, hn, rfl⟩ := nodes' hn'
    by_cases hd : d' = d
    · subst hd
      rw [mergeNode_eids_same] at heid
      obtain ⟨e, he, hke⟩ := h.nodeEdge k n hn d' eid heid
      have hne : eid ≠ eid2 := by
        intro hc; subst hc
        have := h.edge_unique he hm2
        subst this
        exact hk hke.symm
      exact ⟨_, edges_fwd he hne, by rw [redirE_nid_other]; exact hke⟩
    · have hd' : d' = !d := by cases d <;> cases d' <;> simp_all
      subst hd'
      rw [mergeNode_eids_other, mem_append] at heid
      rcases heid with heid | heid
      · have hmem := mem_of_mem_erase heid
        have hne : eid ≠ eid2 := fun hc => by subst hc; exact (h.eidsNodup k n hn (!d)).not_mem_erase heid
        obtain ⟨e, he, hke⟩ := h.nodeEdge k n hn (!d) eid hmem
        simp only [Bool.not_not] at hke ⊢
        refine ⟨_, edges_fwd he hne, ?_⟩
        rw [redirE_nid, hke]; simp [hk]
      · by_cases hk1 : k = u1
        · simp only [hk1, if_true] at heid
          have hmem := mem_of_mem_erase heid
          have hne : eid ≠ eid2 := fun hc => by subst hc; exact (h.eidsNodup _ _ hmN2 (!d)).not_mem_erase heid
          obtain ⟨e, he, hke⟩ := h.nodeEdge _ _ hmN2 (!d) eid hmem
          simp only [Bool.not_not] at hke ⊢
          refine ⟨_, edges_fwd he hne, ?_⟩
          rw [redirE_nid, hke]; simp [hk1]
        · simp [hk1] at heid
  · intro k e' he' d'
    obtain ⟨hk2, e, he, rfl⟩ := edges' he'
    by_cases hd : d' = d
    · subst hd
      rw [redirE_nid]
      by_cases hc : e.nid d' = u2
      · simp only [hc, if_true]
        refine ⟨_, nodes_fwd hmN1 hu12, ?_⟩
        rw [mergeNode_eids_other]
        simp only [if_true]
        apply mem_append_right
        apply (mem_erase_of_ne hk2).2
        have := (h.mem_eids_iff he hmN2 (!d')).2 (by simpa using hc)
        exact this
      · simp only [hc, if_false]
        obtain ⟨n, hn, hx⟩ := h.edgeNode k e he d'
        refine ⟨_, nodes_fwd hn hc, ?_⟩
        rw [mergeNode_eids_other]
        exact mem_append_left _ ((mem_erase_of_ne hk2).2 hx)
    · have hd' : d' = !d := by cases d <;> cases d' <;> simp_all
      subst hd'
      rw [redirE_nid_other]
      obtain ⟨n, hn, hx⟩ := h.edgeNode k e he (!d)
      have hne : e.nid (!d) ≠ u2 := by
        intro hc
        exact hk2 (h.single_eid hmN2 hl2 hm2 rfl he hc)
      refine ⟨_, nodes_fwd hn hne, ?_⟩
      simp only [Bool.not_not] at hx ⊢
      rw [mergeNode_eids_same]; exact hx
  · intro d'
    obtain ⟨n, hn, hx⟩ := h.termNode d'
    have ht : g'.term d' = g.term d' := by cases d' <;> simp [Graph.term, hterm]
    have hne : g.term d' ≠ u2 := by
      cases d'
      · simp only [Graph.term, Bool.false_eq_true, if_false]; exact fun hc => hnt1 hc.symm
      · simp only [Graph.term, if_true]; exact fun hc => hnt2 hc.symm
    refine ⟨_, by rw [ht]; exact nodes_fwd hn hne, ?_⟩
    by_cases hd : d' = d
    · subst hd; rw [mergeNode_eids_same]; exact hx
    · have hd' : d' = !d := by cases d <;> cases d' <;> simp_all
      subst hd'
      rw [mergeNode_eids_other, hx]
      by_cases hk1 : g.term (!d) = u1
      · simp only [hk1, if_true, erase_nil, nil_append]
        apply hacq
        rw [← hk1]
        cases d
        · right; simp [Graph.term]
        · left; simp [Graph.term]
      · simp [hk1]
  · intro k e' he'
    obtain ⟨_, e, he, rfl⟩ := edges' he'
    rw [redirE_opics]; exact h.opicsSorted k e he

end Ptn.Og

import Mathlib.Algebra.BigOperators.Group.Finset.Basic
import Mathlib.Algebra.BigOperators.Intervals
import Mathlib.Algebra.BigOperators.Ring.Finset
import Mathlib.Tactic.Ring
import Mathlib.Tactic.LinearCombination
import Mathlib.Tactic.IntervalCases
import PtnModel.Proofs.GaugeAssign
/-!
# Gauge transform: replacing a diagonal block of a column-orthonormal matrix

Matrices are entry functions `f : ℕ → ℕ → α` on `n × n`.
* `ColOrtho n f`  : `fᴴ f = 1` (what the assertions `np.allclose(v.conj().T @ v, identity)` test);
* `IdOutside n T f`: `f` agrees with the identity matrix on every entry whose row or column is not in the "touched" set `T`.

`block_step`: if the rows/columns `js` are untouched, pairwise different, and the block `M` (indexed by positions in `js`) satisfies
`Mᴴ M = 1`, then overwriting the entries `js × js` by `M` keeps both properties (with `js` added to the touched set).

The blocks of the function: `u`, `conj u` (`2 × 2`), `det u`, `conj det u` (`1 × 1`), `u ⊗ conj u` (`4 × 4`): `Mᴴ M = 1` follows
from `uᴴ u = 1` by ring identities, given that `conj` is an involutive ring homomorphism (`ConjLaws`).
-/
set_option linter.unusedSectionVars false

namespace Ptn.Ham.Gauge
open Ptn.Og Finset

section laws
variable {α : Type} [CommRing α] [HasConj α]

/-- the laws of complex conjugation used by the proofs -/
structure ConjLaws (α : Type) [CommRing α] [HasConj α] : Prop where
  add : ∀ a b : α, HasConj.conj (a + b) = HasConj.conj a + HasConj.conj b
  mul : ∀ a b : α, HasConj.conj (a * b) = HasConj.conj a * HasConj.conj b
  invol : ∀ a : α, HasConj.conj (HasConj.conj a) = a

theorem ConjLaws.zero (hc : ConjLaws α) : HasConj.conj (0 : α) = 0 := by
  have h := hc.add 0 0
  rw [add_zero] at h
  exact left_eq_add.1 h

theorem ConjLaws.one (hc : ConjLaws α) : HasConj.conj (1 : α) = 1 := by
  have h := hc.mul 1 (HasConj.conj 1)
  rw [one_mul, hc.invol, mul_one] at h
  exact h.symm

theorem ConjLaws.sub (hc : ConjLaws α) (a b : α) : HasConj.conj (a - b) = HasConj.conj a - HasConj.conj b := by
  have h := hc.add (a - b) b
  rw [sub_add_cancel] at h
  rw [h]; ring

end laws

section block
variable {α : Type} [CommRing α] (cj : α → α)

/-- `fᴴ f = 1` on `n × n` -/
def ColOrtho (n : Nat) (f : Nat → Nat → α) : Prop :=
  ∀ a < n, ∀ b < n, ∑ c ∈ range n, cj (f c a) * f c b = if a = b then 1 else 0

/-- identity entries wherever the row or the column is untouched -/
def IdOutside (n : Nat) (T : Nat → Prop) (f : Nat → Nat → α) : Prop :=
  ∀ r < n, ∀ c < n, (¬ T r ∨ ¬ T c) → f r c = if r = c then 1 else 0

theorem IdOutside.mono {n : Nat} {T T' : Nat → Prop} {f : Nat → Nat → α} (h : IdOutside n T f) (hTT : ∀ j, T j → T' j) :
    IdOutside n T' f := by
  intro r hr c hc hor
  apply h r hr c hc
  rcases hor with h1 | h1
  · exact Or.inl fun ht => h1 (hTT _ ht)
  · exact Or.inr fun ht => h1 (hTT _ ht)

theorem list_sum_range (k : Nat) (g : Nat → α) : ((List.range k).map g).sum = ∑ i ∈ range k, g i := by
  induction k with
  | zero => simp
  | succ k ih => rw [List.range_succ, List.map_append, List.sum_append, ih, Finset.sum_range_succ]; simp

/-- a sum over `0 .. n-1` whose terms vanish outside the pairwise different indices `js` is a sum over the positions of `js` -/
theorem sum_over_block (js : List Nat) (hnd : js.Nodup) (n : Nat) (hlt : ∀ j ∈ js, j < n) (F : Nat → α)
    (hF : ∀ c < n, c ∉ js → F c = 0) :
    ∑ c ∈ range n, F c = ∑ s ∈ range js.length, F (js.getD s 0) := by
  have h1 : ∑ c ∈ js.toFinset, F c = ∑ c ∈ range n, F c := by
    apply Finset.sum_subset
    · intro c hc
      rw [List.mem_toFinset] at hc
      exact Finset.mem_range.2 (hlt c hc)
    · intro c hc hnot
      rw [List.mem_toFinset] at hnot
      exact hF c (Finset.mem_range.1 hc) hnot
  rw [← h1, List.sum_toFinset F hnd, ← list_sum_range]
  congr 1
  apply List.ext_getElem
  · simp
  · intro i h1 h2
    simp only [List.length_map] at h1
    simp [List.getD_eq_getElem?_getD, h1]

/-- overwriting an untouched diagonal block by a block with `Mᴴ M = 1` -/
theorem block_step (h0 : cj 0 = 0) (n : Nat) (f : Nat → Nat → α) (T : Nat → Prop) (js : List Nat) (M : Nat → Nat → α)
    (hnd : js.Nodup) (hlt : ∀ j ∈ js, j < n) (hT : ∀ j ∈ js, ¬ T j)
    (hI : IdOutside n T f) (hU : ColOrtho cj n f)
    (hM : ∀ p < js.length, ∀ q < js.length, ∑ s ∈ range js.length, cj (M s p) * M s q = if p = q then 1 else 0)
    (f' : Nat → Nat → α) (hf' : ∀ r c, f' r c = if r ∈ js ∧ c ∈ js then M (js.idxOf r) (js.idxOf c) else f r c) :
    IdOutside n (fun j => T j ∨ j ∈ js) f' ∧ ColOrtho cj n f' := by
  -- entries of `f'` and `f` off the block
  have off : ∀ r c, ¬ (r ∈ js ∧ c ∈ js) → f' r c = f r c := fun r c h => by rw [hf', if_neg h]
  -- entries of `f` in a block row or block column but off the block diagonal position
  have zero_col : ∀ c < n, ∀ a ∈ js, c ≠ a → f c a = 0 := by
    intro c hc a ha hne
    rw [hI c hc a (hlt a ha) (Or.inr (hT a ha)), if_neg hne]
  have zero_row : ∀ c ∈ js, ∀ b < n, c ≠ b → f c b = 0 := by
    intro c hc b hb hne
    rw [hI c (hlt c hc) b hb (Or.inl (hT c hc)), if_neg hne]
  constructor
  · intro r hr c hc hor
    have hnb : ¬ (r ∈ js ∧ c ∈ js) := by
      rintro ⟨h1, h2⟩
      rcases hor with h | h
      · exact h (Or.inr h1)
      · exact h (Or.inr h2)
    rw [off r c hnb]
    apply hI r hr c hc
    rcases hor with h | h
    · exact Or.inl fun ht => h (Or.inl ht)
    · exact Or.inr fun ht => h (Or.inl ht)
  · intro a ha b hb
    by_cases haj : a ∈ js
    · by_cases hbj : b ∈ js
      · -- both columns in the block: only block rows contribute
        rw [sum_over_block js hnd n hlt (fun c => cj (f' c a) * f' c b)]
        · have hpa := List.idxOf_lt_length_of_mem haj
          have hpb := List.idxOf_lt_length_of_mem hbj
          have := hM _ hpa _ hpb
          have e : ∀ s ∈ range js.length, cj (f' (js.getD s 0) a) * f' (js.getD s 0) b
              = cj (M s (js.idxOf a)) * M s (js.idxOf b) := by
            intro s hs
            have hs' := Finset.mem_range.1 hs
            rw [hf', if_pos ⟨getD_mem hs', haj⟩, hf', if_pos ⟨getD_mem hs', hbj⟩, idxOf_getD hnd hs']
          rw [Finset.sum_congr rfl e, this]
          by_cases hab : a = b
          · subst hab; simp
          · rw [if_neg hab, if_neg]
            intro e2
            apply hab
            rw [← getD_idxOf haj, ← getD_idxOf hbj, e2]
        · intro c hc hcj
          show cj (f' c a) * f' c b = 0
          rw [off c b (fun h => hcj h.1), zero_col c hc b hbj (fun e => hcj (e ▸ hbj)), mul_zero]
      · -- `a` in the block, `b` not: all terms vanish
        have hab : a ≠ b := fun e => hbj (e ▸ haj)
        rw [if_neg hab]
        apply Finset.sum_eq_zero
        intro c hc
        have hc' := Finset.mem_range.1 hc
        by_cases hcj : c ∈ js
        · rw [off c b (fun h => hbj h.2), zero_row c hcj b hb (fun e => hbj (e ▸ hcj)), mul_zero]
        · rw [off c a (fun h => hcj h.1), zero_col c hc' a haj (fun e => hcj (e ▸ haj)), h0, zero_mul]
    · by_cases hbj : b ∈ js
      · have hab : a ≠ b := fun e => haj (e ▸ hbj)
        rw [if_neg hab]
        apply Finset.sum_eq_zero
        intro c hc
        have hc' := Finset.mem_range.1 hc
        by_cases hcj : c ∈ js
        · rw [off c a (fun h => haj h.2), zero_row c hcj a ha (fun e => haj (e ▸ hcj)), h0, zero_mul]
        · rw [off c b (fun h => hcj h.1), zero_col c hc' b hbj (fun e => hcj (e ▸ hbj)), mul_zero]
      · -- neither column in the block: nothing changes
        rw [← hU a ha b hb]
        apply Finset.sum_congr rfl
        intro c _
        rw [off c a (fun h => haj h.2), off c b (fun h => hbj h.2)]

end block

/-! ## the blocks of the function -/

section blocks
variable {α : Type} [CommRing α] [HasConj α]

local notation "cj" => (HasConj.conj : α → α)

/-- `uᴴ u = 1` for the `2 × 2` matrix with entries `u00 u01 u10 u11` -/
structure Unitary2 (u00 u01 u10 u11 : α) : Prop where
  g00 : cj u00 * u00 + cj u10 * u10 = 1
  g01 : cj u00 * u01 + cj u10 * u11 = 0
  g10 : cj u01 * u00 + cj u11 * u10 = 0
  g11 : cj u01 * u01 + cj u11 * u11 = 1

variable {u00 u01 u10 u11 : α}

/-- the entries of `u` as a function of the indices -/
def ue (u00 u01 u10 u11 : α) (a b : Nat) : α := if a = 0 then (if b = 0 then u00 else u01) else (if b = 0 then u10 else u11)

theorem Unitary2.gram (hu : Unitary2 u00 u01 u10 u11) : ∀ x < 2, ∀ y < 2,
    ∑ a ∈ range 2, cj (ue u00 u01 u10 u11 a x) * ue u00 u01 u10 u11 a y = if x = y then 1 else 0 := by
  intro x hx y hy
  interval_cases x <;> interval_cases y <;> simp [Finset.sum_range_succ, ue]
  · exact hu.g00
  · exact hu.g01
  · exact hu.g10
  · exact hu.g11

/-- conjugated: `Σ_a u[a,x] conj u[a,y] = δ` -/
theorem Unitary2.gram_conj (hc : ConjLaws α) (hu : Unitary2 u00 u01 u10 u11) : ∀ x < 2, ∀ y < 2,
    ∑ a ∈ range 2, ue u00 u01 u10 u11 a x * cj (ue u00 u01 u10 u11 a y) = if x = y then 1 else 0 := by
  intro x hx y hy
  have h := congrArg cj (hu.gram x hx y hy)
  simp only [Finset.sum_range_succ, Finset.sum_range_zero, zero_add, hc.add, hc.mul, hc.invol] at h
  simp only [Finset.sum_range_succ, Finset.sum_range_zero, zero_add]
  rw [h]
  split
  · exact hc.one
  · exact hc.zero

/-- the block `u` -/
theorem pair_block (hu : Unitary2 u00 u01 u10 u11) :
    let M := fun (p q : Nat) => if p = 0 then (if q = 0 then u00 else u01) else (if q = 0 then u10 else u11)
    ∀ p < 2, ∀ q < 2, ∑ s ∈ range 2, cj (M s p) * M s q = if p = q then 1 else 0 := by
  intro M p hp q hq
  exact hu.gram p hp q hq

/-- the block `conj u` -/
theorem pair_block_conj (hc : ConjLaws α) (hu : Unitary2 u00 u01 u10 u11) :
    let M := fun (p q : Nat) => if p = 0 then (if q = 0 then cj u00 else cj u01) else (if q = 0 then cj u10 else cj u11)
    ∀ p < 2, ∀ q < 2, ∑ s ∈ range 2, cj (M s p) * M s q = if p = q then 1 else 0 := by
  intro M p hp q hq
  have h := hu.gram_conj hc p hp q hq
  have e : ∀ a b, M a b = cj (ue u00 u01 u10 u11 a b) := by
    intro a b
    simp only [M, ue]
    split <;> split <;> rfl
  simp only [e, hc.invol]
  exact h

/-- the block `det u` -/
theorem det_block (hc : ConjLaws α) (hu : Unitary2 u00 u01 u10 u11) :
    cj (u00 * u11 - u01 * u10) * (u00 * u11 - u01 * u10) = 1 := by
  rw [hc.sub, hc.mul, hc.mul]
  linear_combination (cj u01 * u01 + cj u11 * u11) * hu.g00 + hu.g11 - (cj u01 * u00 + cj u11 * u10) * hu.g01

/-- the block `conj det u` -/
theorem det_block_conj (hc : ConjLaws α) (hu : Unitary2 u00 u01 u10 u11) :
    cj (cj (u00 * u11 - u01 * u10)) * cj (u00 * u11 - u01 * u10) = 1 := by
  rw [hc.invol, mul_comm]
  exact det_block hc hu

theorem quadM_eq (p q : Nat) :
    quadM u00 u01 u10 u11 p q = ue u00 u01 u10 u11 (p / 2) (q / 2) * cj (ue u00 u01 u10 u11 (p % 2) (q % 2)) := rfl

/-- the block `u ⊗ conj u` -/
theorem quad_block (hc : ConjLaws α) (hu : Unitary2 u00 u01 u10 u11) :
    ∀ p < 4, ∀ q < 4, ∑ s ∈ range 4, cj (quadM u00 u01 u10 u11 s p) * quadM u00 u01 u10 u11 s q = if p = q then 1 else 0 := by
  intro p hp q hq
  have key : ∑ s ∈ range 4, cj (quadM u00 u01 u10 u11 s p) * quadM u00 u01 u10 u11 s q
      = (∑ a ∈ range 2, cj (ue u00 u01 u10 u11 a (p / 2)) * ue u00 u01 u10 u11 a (q / 2)) *
        (∑ b ∈ range 2, ue u00 u01 u10 u11 b (p % 2) * cj (ue u00 u01 u10 u11 b (q % 2))) := by
    simp only [quadM_eq, Finset.sum_range_succ, Finset.sum_range_zero, zero_add, hc.mul, hc.invol]
    norm_num
    ring
  rw [key, hu.gram (p / 2) (by omega) (q / 2) (by omega), hu.gram_conj hc (p % 2) (by omega) (q % 2) (by omega)]
  interval_cases p <;> interval_cases q <;> simp

end blocks
end Ptn.Ham.Gauge

import PtnModel.Proofs.EvoProj
import PtnModel.Proofs.EvoDmrgMain
/-!
# Single-site TDVP: norm and energy are conserved (imaginary time step)

`centre_step_inv` : a local time step at the centre keeps `DInv` (norm one, energy `E`);
`tdvp1Left_inv`, `tdvp1Right_inv` : the two loop bodies (local step, QR, zero-site step backwards, push);
`tdvp1Step_inv`, `tdvp1_main`    : a complete time step and the driver.
-/
set_option linter.unusedSectionVars false

namespace Ptn.Evo
open Ptn Ptn.BondOps Ptn.Ortho Ptn.Env Ptn.Krylov Ptn.Dense Finset

variable {𝕜 : Type} [RCLike 𝕜] [DecidableEq 𝕜]
local notation "conj" => starRingEnd 𝕜

omit [DecidableEq 𝕜] in
/-- tensors that agree on in-range indices have the same norm and the same local quadratic form -/
theorem local_congr {L R : T3 𝕜} {W : T4 𝕜} {X Y TX TY : T3 𝕜} (hF : LocalFits L R W Y.d0 Y.d1 Y.d2)
    (x0 : X.d0 = Y.d0) (x1 : X.d1 = Y.d1) (x2 : X.d2 = Y.d2)
    (hXY : ∀ s a b, s < Y.d0 → a < Y.d1 → b < Y.d2 → X.f s a b = Y.f s a b)
    (hTX : Op.applyLocalHamiltonian L R W X = .ok TX) (hTY : Op.applyLocalHamiltonian L R W Y = .ok TY) :
    inner3 X TX = inner3 Y TY ∧ frob3 X = frob3 Y := by
  have := local_scale (r := (1 : 𝕜)) hF x0 x1 x2 (fun s a b hs ha hb => by rw [hXY s a b hs ha hb, mul_one]) hTX hTY
  simpa using this

variable {k : EvoKernels 𝕜 ℝ} {H : MPO 𝕜} {qd : List Int} {numiter : Nat}

/-- **A local time step at the centre** (purely imaginary time argument) keeps norm and energy. -/
theorem centre_step_inv (ctx : SweepCtx k H qd numiter) (hexp : ∀ x : ℝ, ‖k.dexp (RCLike.I * (x : 𝕜))‖ = 1)
    {s : Sweep 𝕜} {c : Nat} {E : ℝ} (h : DInv H qd s c E) {δ : 𝕜} {t : ℝ} (hδ : -δ = RCLike.I * (t : 𝕜)) {A1 : T3 𝕜}
    (hrun : localHamiltonianStep k (getBL s c) (getBR s c) (H.A.getD c zeroT4) (getA s c) δ numiter = .ok A1) :
    DInv H qd (⟨s.A.setIfInBounds c A1, s.qD, s.BL, s.BR⟩ : Sweep 𝕜) c E ∧
      A1.d0 = (getA s c).d0 ∧ A1.d1 = (getA s c).d1 ∧ A1.d2 = (getA s c).d2 := by
  obtain ⟨hF, hHerm⟩ := canon_local h.can ctx.hH ctx.herm
  have hE := ctx.eigh (localHFun (getBL s c) (getBR s c) (H.A.getD c zeroT4) (getA s c).d0 (getA s c).d1
    (getA s c).d2) (flat3 (getA s c))
  obtain ⟨a0, a1, a2, hfrob⟩ := localStep_norm ctx.norm hF hHerm hE hexp hδ hrun
  have hcs : c < s.A.size := by rw [h.can.wf.sizeA]; exact h.can.hc
  have hcan' := canon_replace h.can (X := A1) ⟨a0, a1, a2⟩
  have hget : getA (⟨s.A.setIfInBounds c A1, s.qD, s.BL, s.BR⟩ : Sweep 𝕜) c = A1 := getD_setIfInBounds_eq _ _ _ hcs
  obtain ⟨hn', he'⟩ := canon_centre hcan' ctx.hH
  rw [hget] at hn' he'
  obtain ⟨hn0, he0⟩ := canon_centre h.can ctx.hH
  obtain ⟨T0, hT0, _⟩ := applyLocal_ker hF (A := getA s c) rfl rfl rfl
  obtain ⟨T1, hT1, _⟩ := applyLocal_ker hF (A := A1) a0 a1 a2
  have hen := localStep_energy ctx.norm hF hHerm hE hexp hδ hrun hT0 hT1
  refine ⟨⟨hcan', ?_, ?_⟩, a0, a1, a2⟩
  · rw [hn', hfrob, ← hn0]; exact h.nrm
  · rw [he' T1 hT1, hen, ← he0 T0 hT0]; exact h.en

omit [DecidableEq 𝕜] in
theorem pushLeft_f (An : T3 𝕜) (C1 : Mat 𝕜) {s p c : Nat} (hs : s < An.d0) (hp : p < C1.m) (hc : c < An.d2) :
    (pushLeft An C1).f s p c = ∑ b ∈ range An.d1, An.f s b c * C1.f p b := by
  unfold pushLeft
  rw [Env.t3_tab_f (A := ⟨An.d0, C1.m, An.d2, fun sp p c => sumRange An.d1 fun b => An.f sp b c * C1.f p b⟩) hs hp hc]
  exact Env.sumRange_eq _ _

omit [DecidableEq 𝕜] in
theorem pushRight_f (Ap : T3 𝕜) (C1 : Mat 𝕜) {s a p : Nat} (hs : s < Ap.d0) (ha : a < Ap.d1) (hp : p < C1.n) :
    (pushRight Ap C1).f s a p = ∑ b ∈ range Ap.d2, Ap.f s a b * C1.f b p := by
  unfold pushRight
  rw [Env.t3_tab_f (A := ⟨Ap.d0, Ap.d1, C1.n, fun sp a p => sumRange Ap.d2 fun b => Ap.f sp a b * C1.f b p⟩) hs ha hp]
  exact Env.sumRange_eq _ _

/-- **Loop body of the left-to-right half of a TDVP step** at site `i` (centre `i → i+1`). -/
theorem tdvp1Left_inv (ctx : SweepCtx k H qd numiter) (hexp : ∀ x : ℝ, ‖k.dexp (RCLike.I * (x : 𝕜))‖ = 1)
    {hh τ : ℝ} (hhalf : k.half = ((hh : ℝ) : 𝕜)) {dt : 𝕜} (hdt : dt = RCLike.I * ((τ : ℝ) : 𝕜))
    {s s' : Sweep 𝕜} {i : Nat} {E : ℝ} (h : DInv H qd s i E) (hi1 : i + 1 < H.A.length)
    (hrun : tdvp1Left k H qd dt numiter s i = .ok s') : DInv H qd s' (i + 1) E := by
  obtain ⟨A1, Q, C, qb, BLn, C1, h1, h2, h3, h4, hc, rfl⟩ := tdvp1Left_unfold hrun
  have hδ1 : -(k.half * dt) = RCLike.I * ((-(hh * τ) : ℝ) : 𝕜) := by rw [hhalf, hdt]; push_cast; ring
  have hδ2 : -(-(k.half * dt)) = RCLike.I * ((hh * τ : ℝ) : 𝕜) := by rw [hhalf, hdt]; push_cast; ring
  -- 1. forward half step of the centre tensor
  obtain ⟨hsa, a0, a1, a2⟩ := centre_step_inv ctx hexp h hδ1 h1
  have hics : i < s.A.size := by rw [h.can.wf.sizeA]; omega
  set sa : Sweep 𝕜 := ⟨s.A.setIfInBounds i A1, s.qD, s.BL, s.BR⟩ with hsadef
  have gsa : getA sa i = A1 := getD_setIfInBounds_eq _ _ _ hics
  obtain ⟨s0, s1, s2⟩ := h.can.wf.shape i (by omega)
  obtain ⟨n0, n1, n2⟩ := h.can.wf.shape (i + 1) hi1
  -- 2. QR of the evolved tensor
  have hm : 0 < A1.flattenLeft.tab.m := by
    show 0 < A1.d0 * A1.d1
    rw [a0, a1, s0, s1]; exact Nat.mul_pos ctx.dpos (h.can.wf.qpos i (by omega))
  have hn : 0 < A1.flattenLeft.tab.n := by
    show 0 < A1.d2
    rw [a2, s2]; exact h.can.wf.qpos (i + 1) (by omega)
  have hf := qr_facts ctx.qr.contract hm hn h2
  set Ai : T3 𝕜 := (T3.ofFlattenLeft Q A1.d0 A1.d1).tab with hAi
  have hAiIso : LeftIso Ai := leftQR_iso hf
  have hAi2 : Ai.d2 = qb.length := hf.Qn
  have hCm : C.m = Ai.d2 := hf.Rm.trans hAi2.symm
  have hCn : C.n = A1.d2 := hf.Rn
  -- `A1 = Ai · C` on in-range indices
  have hA1 : ∀ a x b, a < A1.d0 → x < A1.d1 → b < A1.d2 → (mulRight Ai C).f a x b = A1.f a x b := by
    intro a x b ha hx hb
    have hr : a * A1.d1 + x < A1.d0 * A1.d1 := fused_lt ha hx
    have := hf.prod (a * A1.d1 + x) b hr hb
    rw [Mat.tab_f A1.flattenLeft hr hb] at this
    show ∑ p ∈ range Ai.d2, Ai.f a x p * C.f p b = _
    rw [hAi2]
    have e : A1.flattenLeft.f (a * A1.d1 + x) b = A1.f a x b := by
      show A1.f ((a * A1.d1 + x) / A1.d1) ((a * A1.d1 + x) % A1.d1) b = _
      rw [fused_div hx, fused_mod hx]
    rw [← e, ← this]
    refine sum_congr rfl fun p hp => ?_
    rw [hAi, Env.t3_tab_f (A := T3.ofFlattenLeft Q A1.d0 A1.d1) ha hx (by show p < Q.n; rw [hf.Qn]; exact mem_range.1 hp)]
    rfl
  -- 3. the effective operators at the centre of `sa`
  obtain ⟨hF, hHerm⟩ := canon_local hsa.can ctx.hH ctx.herm
  rw [gsa] at hF hHerm
  have hF' : LocalFits (getBL s i) (getBR s i) (H.A.getD i zeroT4) Ai.d0 Ai.d1 A1.d2 := hF
  have hH' : LocalHermitian (getBL s i) (getBR s i) (H.A.getD i zeroT4) Ai.d0 Ai.d1 A1.d2 := hHerm
  obtain ⟨hFB, hHB⟩ := bondHermitian_left hF' hH' h3
  -- 4. backward zero-site step
  have hFB' : BondFits BLn (getBR s i) C.m C.n := by rw [hCm, hCn]; exact hFB
  have hHB' : BondHermitian BLn (getBR s i) C.m C.n := by rw [hCm, hCn]; exact hHB
  have hEb := ctx.eigh (localBondFun BLn (getBR s i) C.m C.n) (flat2 C)
  obtain ⟨c0, c1, hfrobC⟩ := bondStep_norm ctx.norm hFB' hHB' hEb hexp hδ2 h4
  obtain ⟨KC, hKC, _⟩ := applyBond_ker hFB' (C := C) rfl rfl
  obtain ⟨KC1, hKC1, _⟩ := applyBond_ker hFB' (C := C1) c0 c1
  have henC := bondStep_energy ctx.norm hFB' hHB' hEb hexp hδ2 h4 hKC hKC1
  -- 5. the intermediate state with centre tensor `B = Ai · C1`
  set B : T3 𝕜 := mulRight Ai C1 with hB
  have hBd : B.d0 = (getA sa i).d0 ∧ B.d1 = (getA sa i).d1 ∧ B.d2 = (getA sa i).d2 := by
    rw [gsa]; exact ⟨rfl, rfl, c1.trans hCn⟩
  have hcanB := canon_replace hsa.can (X := B) hBd
  have hsbeq : (⟨sa.A.setIfInBounds i B, sa.qD, sa.BL, sa.BR⟩ : Sweep 𝕜) = ⟨s.A.setIfInBounds i B, s.qD, s.BL, s.BR⟩ := by
    simp [hsadef]
  rw [hsbeq] at hcanB
  set sb : Sweep 𝕜 := ⟨s.A.setIfInBounds i B, s.qD, s.BL, s.BR⟩ with hsbdef
  have gsb : getA sb i = B := getD_setIfInBounds_eq _ _ _ hics
  have gsb1 : getA sb (i + 1) = getA s (i + 1) := by
    show (s.A.setIfInBounds i B).getD (i + 1) emptyT3 = _
    rw [getD_setIfInBounds_ne _ _ _ (by omega)]; rfl
  obtain ⟨hnB, heB⟩ := canon_centre hcanB ctx.hH
  rw [gsb] at hnB heB
  obtain ⟨hnA, heA⟩ := canon_centre hsa.can ctx.hH
  rw [gsa] at hnA heA
  -- local quantities
  have hFm : LocalFits (getBL s i) (getBR s i) (H.A.getD i zeroT4) (mulRight Ai C).d0 (mulRight Ai C).d1
      (mulRight Ai C).d2 := by
    show LocalFits _ _ _ Ai.d0 Ai.d1 C.n
    rw [hCn]; exact hF'
  obtain ⟨TA1, hTA1, _⟩ := applyLocal_ker hF (A := A1) rfl rfl rfl
  obtain ⟨TAC, hTAC, _⟩ := applyLocal_ker hF' (A := mulRight Ai C) rfl rfl hCn
  obtain ⟨TB, hTB, _⟩ := applyLocal_ker hF' (A := B) rfl rfl (c1.trans hCn)
  obtain ⟨hcong1, hcong2⟩ := local_congr (X := A1) (Y := mulRight Ai C) hFm rfl rfl hCn.symm
    (fun a x b ha hx hb => (hA1 a x b ha hx (by rw [← hCn]; exact hb)).symm) hTA1 hTAC
  have hDB : DInv H qd sb i E := by
    refine ⟨hcanB, ?_, ?_⟩
    · rw [hnB, hB, frob_mulRight hAiIso (c0.trans hCm), hfrobC, ← frob_mulRight hAiIso hCm, ← hcong2, ← hnA]
      exact hsa.nrm
    · rw [heB TB hTB, hB, inner_proj_left hF' h3 (c0.trans hCm) (c1.trans hCn) hKC1 hTB, henC,
        ← inner_proj_left hF' h3 hCm hCn hKC hTAC, ← hcong1, ← heA TA1 hTA1]
      exact hsa.en
  -- 6. gauge move
  have hY'f : ∀ a p y, a < (getA s (i + 1)).d0 → p < C1.m → y < (getA s (i + 1)).d2 →
      (pushLeft (getA s (i + 1)) C1).f a p y =
        ∑ b ∈ range (getA s (i + 1)).d1, (getA s (i + 1)).f a b y * C1.f p b := fun a p y ha hp hy =>
    pushLeft_f _ _ ha hp hy
  obtain ⟨hcan', hamp⟩ := canon_left hDB.can ctx.hH hi1 (X' := Ai) (Y' := pushLeft (getA s (i + 1)) C1) (qb := qb)
    (BLn := BLn) ⟨a0.trans s0, a1.trans s1, hAi2⟩ ⟨n0, c0.trans hf.Rm, n2⟩ hf.pos hAiIso
    (fun a0' a a1' y ha0 ha ha1 hy => by
      rw [gsb, gsb1] at *
      show ∑ x ∈ range Ai.d2, Ai.f a0' a x * (pushLeft (getA s (i + 1)) C1).f a1' x y =
        ∑ x ∈ range C1.n, (∑ p ∈ range Ai.d2, Ai.f a0' a p * C1.f p x) * (getA s (i + 1)).f a1' x y
      have e1 : ∀ x ∈ range Ai.d2, Ai.f a0' a x * (pushLeft (getA s (i + 1)) C1).f a1' x y =
          ∑ b ∈ range C1.n, Ai.f a0' a x * ((getA s (i + 1)).f a1' b y * C1.f x b) := by
        intro x hx
        rw [hY'f a1' x y (by rw [n0]; exact ha1) (by rw [c0, hCm]; exact mem_range.1 hx) hy, hc, Finset.mul_sum]
      rw [Finset.sum_congr rfl e1, Finset.sum_comm]
      refine sum_congr rfl fun b _ => ?_
      rw [Finset.sum_mul]
      exact sum_congr rfl fun p _ => by ring)
    (by rw [show getBL sb i = getBL s i from rfl]; exact h3)
  have hfin : (⟨(sb.A.setIfInBounds i Ai).setIfInBounds (i + 1) (pushLeft (getA s (i + 1)) C1),
      sb.qD.setIfInBounds (i + 1) qb, sb.BL.setIfInBounds (i + 1) BLn, sb.BR⟩ : Sweep 𝕜) =
      ⟨(s.A.setIfInBounds i Ai).setIfInBounds (i + 1) (pushLeft (getA s (i + 1)) C1),
        s.qD.setIfInBounds (i + 1) qb, s.BL.setIfInBounds (i + 1) BLn, s.BR⟩ := by
    simp [hsbdef]
  rw [hfin] at hcan' hamp
  obtain ⟨e1, e2⟩ := normSq_energy_congr (o := H) (d := qd.length) (hcan'.len.trans hDB.can.len.symm)
    (fun σ hσ => hamp σ (by rw [← hDB.can.len]; exact hσ))
  exact ⟨hcan', e1.trans hDB.nrm, e2.trans hDB.en⟩

/-- **Loop body of the right-to-left half of a TDVP step** at site `j+1` (centre `j+1 → j`). -/
theorem tdvp1Right_inv (ctx : SweepCtx k H qd numiter) (hexp : ∀ x : ℝ, ‖k.dexp (RCLike.I * (x : 𝕜))‖ = 1)
    {hh τ : ℝ} (hhalf : k.half = ((hh : ℝ) : 𝕜)) {dt : 𝕜} (hdt : dt = RCLike.I * ((τ : ℝ) : 𝕜))
    {s s' : Sweep 𝕜} {j : Nat} {E : ℝ} (h : DInv H qd s (j + 1) E)
    (hrun : tdvp1Right k H qd dt numiter s (j + 1) = .ok s') : DInv H qd s' j E := by
  obtain ⟨Q, C, qb, BRn, C1, Ap2, h1, h2, h3, hc, h4, rfl⟩ := tdvp1Right_unfold hrun
  simp only [Nat.add_sub_cancel] at h4 hc ⊢
  have hδ1 : -(k.half * dt) = RCLike.I * ((-(hh * τ) : ℝ) : 𝕜) := by rw [hhalf, hdt]; push_cast; ring
  have hδ2 : -(-(k.half * dt)) = RCLike.I * ((hh * τ : ℝ) : 𝕜) := by rw [hhalf, hdt]; push_cast; ring
  have hi : j + 1 < H.A.length := h.can.hc
  have hics : j + 1 < s.A.size := by rw [h.can.wf.sizeA]; exact hi
  have hjcs : j < s.A.size := by omega
  obtain ⟨s0, s1, s2⟩ := h.can.wf.shape (j + 1) hi
  obtain ⟨p0, p1, p2⟩ := h.can.wf.shape j (by omega)
  set Ac := getA s (j + 1) with hAc
  -- QR of the transposed centre tensor
  have hm : 0 < Ac.swap12.flattenLeft.tab.m := by
    show 0 < Ac.d0 * Ac.d2
    rw [s0, s2]; exact Nat.mul_pos ctx.dpos (h.can.wf.qpos (j + 2) (by omega))
  have hn : 0 < Ac.swap12.flattenLeft.tab.n := by
    show 0 < Ac.d1
    rw [s1]; exact h.can.wf.qpos (j + 1) (by omega)
  have hf := qr_facts ctx.qr.contract hm hn h1
  set Ai : T3 𝕜 := (T3.ofFlattenLeft Q Ac.d0 Ac.d2).swap12.tab with hAi
  have hAiIso : RightIso Ai := rightQR_iso hf
  have hAi1 : Ai.d1 = qb.length := hf.Qn
  set Ct : Mat 𝕜 := C.transpose.tab with hCt
  have hCtm : Ct.m = Ac.d1 := hf.Rn
  have hCtn : Ct.n = Ai.d1 := hf.Rm.trans hAi1.symm
  -- `A_c = Ct · Ai` on in-range indices
  have hAcf : ∀ a x b, a < Ac.d0 → x < Ac.d1 → b < Ac.d2 → (mulLeft Ct Ai).f a x b = Ac.f a x b := by
    intro a x b ha hx hb
    have hr : a * Ac.d2 + b < Ac.d0 * Ac.d2 := fused_lt ha hb
    have := hf.prod (a * Ac.d2 + b) x hr hx
    rw [Mat.tab_f Ac.swap12.flattenLeft hr hx] at this
    show ∑ p ∈ range Ai.d1, Ct.f x p * Ai.f a p b = _
    rw [hAi1]
    have e : Ac.swap12.flattenLeft.f (a * Ac.d2 + b) x = Ac.f a x b := by
      show Ac.f ((a * Ac.d2 + b) / Ac.d2) x ((a * Ac.d2 + b) % Ac.d2) = _
      rw [fused_div hb, fused_mod hb]
    rw [← e, ← this]
    refine sum_congr rfl fun p hp => ?_
    have hp' : p < qb.length := mem_range.1 hp
    rw [hAi, Env.t3_tab_f (A := (T3.ofFlattenLeft Q Ac.d0 Ac.d2).swap12) ha (by show p < Q.n; rw [hf.Qn]; exact hp') hb,
      hCt, Env.mat_tab_f C.transpose (by show x < C.n; rw [hf.Rn]; exact hx) (by show p < C.m; rw [hf.Rm]; exact hp')]
    show C.f p x * Q.f (a * Ac.d2 + b) p = _
    ring
  -- effective operators at the centre
  obtain ⟨hF, hHerm⟩ := canon_local h.can ctx.hH ctx.herm
  have hF' : LocalFits (getBL s (j + 1)) (getBR s (j + 1)) (H.A.getD (j + 1) zeroT4) Ai.d0 Ac.d1 Ai.d2 := hF
  have hH' : LocalHermitian (getBL s (j + 1)) (getBR s (j + 1)) (H.A.getD (j + 1) zeroT4) Ai.d0 Ac.d1 Ai.d2 := hHerm
  obtain ⟨hFB, hHB⟩ := bondHermitian_right hF' hH' h2
  have hFB' : BondFits (getBL s (j + 1)) BRn Ct.m Ct.n := by rw [hCtm, hCtn]; exact hFB
  have hHB' : BondHermitian (getBL s (j + 1)) BRn Ct.m Ct.n := by rw [hCtm, hCtn]; exact hHB
  have hEb := ctx.eigh (localBondFun (getBL s (j + 1)) BRn Ct.m Ct.n) (flat2 Ct)
  obtain ⟨c0, c1, hfrobC⟩ := bondStep_norm ctx.norm hFB' hHB' hEb hexp hδ2 h3
  obtain ⟨KC, hKC, _⟩ := applyBond_ker hFB' (C := Ct) rfl rfl
  obtain ⟨KC1, hKC1, _⟩ := applyBond_ker hFB' (C := C1) c0 c1
  have henC := bondStep_energy ctx.norm hFB' hHB' hEb hexp hδ2 h3 hKC hKC1
  -- the intermediate state with centre tensor `B = C1 · Ai`
  set B : T3 𝕜 := mulLeft C1 Ai with hB
  have hBd : B.d0 = Ac.d0 ∧ B.d1 = Ac.d1 ∧ B.d2 = Ac.d2 := ⟨rfl, c0.trans hCtm, rfl⟩
  have hcanB := canon_replace h.can (X := B) hBd
  set sb : Sweep 𝕜 := ⟨s.A.setIfInBounds (j + 1) B, s.qD, s.BL, s.BR⟩ with hsbdef
  have gsb : getA sb (j + 1) = B := getD_setIfInBounds_eq _ _ _ hics
  have gsbj : getA sb j = getA s j := by
    show (s.A.setIfInBounds (j + 1) B).getD j emptyT3 = _
    rw [getD_setIfInBounds_ne _ _ _ (by omega)]; rfl
  obtain ⟨hnB, heB⟩ := canon_centre hcanB ctx.hH
  rw [gsb] at hnB heB
  obtain ⟨hnA, heA⟩ := canon_centre h.can ctx.hH
  have hFm : LocalFits (getBL s (j + 1)) (getBR s (j + 1)) (H.A.getD (j + 1) zeroT4) (mulLeft Ct Ai).d0
      (mulLeft Ct Ai).d1 (mulLeft Ct Ai).d2 := by
    show LocalFits _ _ _ Ai.d0 Ct.m Ai.d2
    rw [hCtm]; exact hF'
  obtain ⟨TAc, hTAc, _⟩ := applyLocal_ker hF (A := Ac) rfl rfl rfl
  obtain ⟨TCA, hTCA, _⟩ := applyLocal_ker hF' (A := mulLeft Ct Ai) rfl hCtm rfl
  obtain ⟨TB, hTB, _⟩ := applyLocal_ker hF' (A := B) rfl (c0.trans hCtm) rfl
  obtain ⟨hcong1, hcong2⟩ := local_congr (X := Ac) (Y := mulLeft Ct Ai) hFm rfl hCtm.symm rfl
    (fun a x b ha hx hb => (hAcf a x b ha (by rw [← hCtm]; exact hx) hb).symm) hTAc hTCA
  have hDB : DInv H qd sb (j + 1) E := by
    refine ⟨hcanB, ?_, ?_⟩
    · rw [hnB, hB, frob_mulLeft hAiIso (c1.trans hCtn), hfrobC, ← frob_mulLeft hAiIso hCtn, ← hcong2, ← hnA]
      exact h.nrm
    · rw [heB TB hTB, hB, inner_proj_right hF' h2 (c0.trans hCtm) (c1.trans hCtn) hKC1 hTB, henC,
        ← inner_proj_right hF' h2 hCtm hCtn hKC hTCA, ← hcong1, ← heA TAc hTAc]
      exact h.en
  -- gauge move to the left
  obtain ⟨hcan', hamp⟩ := canon_right hDB.can ctx.hH (X' := pushRight (getA s j) C1) (Y' := Ai) (qb := QN.neg qb)
    (BRn := BRn) ⟨p0, p1, by rw [neg_len]; exact c1.trans hf.Rm⟩ ⟨s0, by rw [neg_len]; exact hAi1, s2⟩
    (by rw [neg_len]; exact hf.pos) hAiIso
    (fun a0' a a1' y ha0 ha ha1 hy => by
      rw [gsb, gsbj] at *
      show ∑ x ∈ range C1.n, (pushRight (getA s j) C1).f a0' a x * Ai.f a1' x y =
        ∑ x ∈ range (getA s j).d2, (getA s j).f a0' a x * ∑ p ∈ range Ai.d1, C1.f x p * Ai.f a1' p y
      have e1 : ∀ x ∈ range C1.n, (pushRight (getA s j) C1).f a0' a x * Ai.f a1' x y =
          ∑ b ∈ range (getA s j).d2, (getA s j).f a0' a b * C1.f b x * Ai.f a1' x y := by
        intro x hx
        rw [pushRight_f _ _ (by rw [p0]; exact ha0) ha (mem_range.1 hx), Finset.sum_mul]
      rw [Finset.sum_congr rfl e1, Finset.sum_comm]
      refine sum_congr rfl fun b _ => ?_
      rw [Finset.mul_sum, c1, hCtn]
      exact sum_congr rfl fun p _ => by ring)
    (by rw [show getBR sb (j + 1) = getBR s (j + 1) from rfl]; exact h2)
  set sc : Sweep 𝕜 := ⟨(s.A.setIfInBounds (j + 1) Ai).setIfInBounds j (pushRight (getA s j) C1),
    s.qD.setIfInBounds (j + 1) (QN.neg qb), s.BL, s.BR.setIfInBounds j BRn⟩ with hscdef
  have hfin : (⟨(sb.A.setIfInBounds (j + 1) Ai).setIfInBounds j (pushRight (getA s j) C1),
      sb.qD.setIfInBounds (j + 1) (QN.neg qb), sb.BL, sb.BR.setIfInBounds j BRn⟩ : Sweep 𝕜) = sc := by
    simp [hsbdef, hscdef]
  rw [hfin] at hcan' hamp
  obtain ⟨e1, e2⟩ := normSq_energy_congr (o := H) (d := qd.length) (hcan'.len.trans hDB.can.len.symm)
    (fun σ hσ => hamp σ (by rw [← hDB.can.len]; exact hσ))
  have hDC : DInv H qd sc j E := ⟨hcan', e1.trans hDB.nrm, e2.trans hDB.en⟩
  -- forward half step of the new centre tensor
  have gscA : getA sc j = pushRight (getA s j) C1 := by
    show ((s.A.setIfInBounds (j + 1) Ai).setIfInBounds j _).getD j emptyT3 = _
    exact getD_setIfInBounds_eq _ _ _ (by simpa using hjcs)
  have gscR : getBR sc j = BRn := by
    show (s.BR.setIfInBounds j BRn).getD j emptyT3 = _
    exact getD_setIfInBounds_eq _ _ _ (by rw [h.can.sizeBR]; omega)
  have h4' : localHamiltonianStep k (getBL sc j) (getBR sc j) (H.A.getD j zeroT4) (getA sc j) (k.half * dt) numiter =
      .ok Ap2 := by rw [gscA, gscR]; exact h4
  obtain ⟨hfinal, _⟩ := centre_step_inv ctx hexp hDC hδ1 h4'
  have hst : (⟨sc.A.setIfInBounds j Ap2, sc.qD, sc.BL, sc.BR⟩ : Sweep 𝕜) =
      ⟨(s.A.setIfInBounds (j + 1) Ai).setIfInBounds j Ap2, s.qD.setIfInBounds (j + 1) (QN.neg qb), s.BL,
        s.BR.setIfInBounds j BRn⟩ := by
    simp [hscdef]
  rw [hst] at hfinal
  exact hfinal

/-- **One complete single-site TDVP time step** keeps the invariant (centre `0`), norm one and the energy. -/
theorem tdvp1Step_inv (ctx : SweepCtx k H qd numiter) (hexp : ∀ x : ℝ, ‖k.dexp (RCLike.I * (x : 𝕜))‖ = 1)
    {hh τ : ℝ} (hhalf : k.half = ((hh : ℝ) : 𝕜)) {dt : 𝕜} (hdt : dt = RCLike.I * ((τ : ℝ) : 𝕜))
    {s s' : Sweep 𝕜} {E : ℝ} (h : DInv H qd s 0 E) (hrun : tdvp1Step k H qd dt numiter s = .ok s') :
    DInv H qd s' 0 E := by
  obtain ⟨s1, Al, h1, h2, h3⟩ := tdvp1Step_unfold hrun
  have hL : 0 < H.A.length := h.can.hc
  have hleft := foldIdx_range (tdvp1Left k H qd dt numiter) (fun i t => DInv H qd t i E) (H.A.length - 1)
    (fun i hi t t' ht ht' => tdvp1Left_inv ctx hexp hhalf hdt ht (by omega) ht') s s1 h h1
  have hδ : -dt = RCLike.I * ((-τ : ℝ) : 𝕜) := by rw [hdt]; push_cast; ring
  obtain ⟨hmid, _⟩ := centre_step_inv ctx hexp hleft hδ h2
  exact foldIdx_down (tdvp1Right k H qd dt numiter) (fun i t => DInv H qd t i E) (H.A.length - 1)
    (fun i hi t t' ht ht' => tdvp1Right_inv ctx hexp hhalf hdt ht ht') _ s' hmid h3

/-- **Single-site TDVP with a purely imaginary time step conserves norm and energy**, for every number of steps and
every number of Krylov iterations: the result has norm one and the energy of the normalised start state. -/
theorem tdvp1_main (ctx : SweepCtx k H qd numiter) (hexp : ∀ x : ℝ, ‖k.dexp (RCLike.I * (x : 𝕜))‖ = 1)
    {hh τ : ℝ} (hhalf : k.half = ((hh : ℝ) : 𝕜)) {dt : 𝕜} (hdt : dt = RCLike.I * ((τ : ℝ) : 𝕜))
    {ψ ψ' : MPS 𝕜} (hqd : ψ.qd = qd) (hadm : Admissible ψ) {numsteps : Nat} {nrm : ℝ}
    (h : integrateLocalSinglesite k H ψ dt numsteps numiter = .ok (ψ', nrm)) :
    ∃ ψ1 E0, MPS.orthonormalize (ρ := ℝ) k.dqr ψ false = .ok (ψ1, nrm) ∧
      energy ψ1 H qd.length = ((E0 : ℝ) : 𝕜) ∧ normSq ψ' qd.length = 1 ∧ energy ψ' H qd.length = ((E0 : ℝ) : 𝕜) := by
  obtain ⟨s0, s, hp, _, hit, rfl⟩ := integrate1_unfold h
  obtain ⟨ψ1, E0, ho, hcur, hinv0⟩ := prologue_inv ctx hqd hadm hp
  rw [hqd] at hit
  have hfin := iterate_inv (tdvp1Step k H qd dt numiter) (fun t => DInv H qd t 0 E0)
    (fun t t' ht ht' => tdvp1Step_inv ctx hexp hhalf hdt ht ht') numsteps s0 s hinv0 hit
  have htm : toMPS ψ s = cur qd s := by rw [← hqd]; rfl
  exact ⟨ψ1, E0, ho, by rw [← hcur]; exact hinv0.en, by rw [htm]; exact hfin.nrm, by rw [htm]; exact hfin.en⟩

end Ptn.Evo

import PtnModel.Proofs.HamSpinChains
import PtnModel.Proofs.ChainPartition
/-!
# `SpinOperatorConverter.to_spin_opchain`: the word of the converted chain

`toSpinOpchain_word`: on a chain on `2 L` modes that satisfies the guards, is Jordan-Wigner shaped and spin balanced (`SpinReady`,
`Proofs/HamSpinConv.lean`) the conversion succeeds, keeps the coefficient, and the identity-padded word of the converted chain on `L`
sites is the image of the identity-padded word on `2 L` modes under `oid_single_pair_map`, aligned pair by aligned pair (the optional
identity inserted in front / appended is absorbed by the identity padding).
-/
set_option linter.unusedSectionVars false

namespace Ptn.Spin
open Ptn Ptn.Og Ptn.Ham Ptn.Ch List

theorem evenOddPairs_rep (x : Int) : ∀ (k : Nat) (l : List Int),
    evenOddPairs (List.replicate (2 * k) x ++ l) = List.replicate k (x, x) ++ evenOddPairs l := by
  intro k
  induction k with
  | zero => intro l; simp
  | succ k ih =>
    intro l
    have : 2 * (k + 1) = (2 * k + 1) + 1 := by omega
    rw [this, replicate_succ, replicate_succ, cons_append, cons_append, evenOddPairs, ih, replicate_succ, cons_append]

theorem evenOddPairs_append : ∀ (n : Nat) (l m : List Int), l.length = 2 * n →
    evenOddPairs (l ++ m) = evenOddPairs l ++ evenOddPairs m := by
  intro n
  induction n with
  | zero =>
    intro l m hl
    have : l = [] := List.eq_nil_of_length_eq_zero (by omega)
    subst this
    simp [evenOddPairs]
  | succ n ih =>
    intro l m hl
    match l, hl with
    | x :: y :: l, hl =>
      simp only [cons_append, evenOddPairs]
      rw [ih l m (by simp only [length_cons] at hl; omega)]
    | [], hl => simp at hl
    | [_], hl => simp at hl; omega

theorem evenOddPairs_rep_nil (x : Int) (k : Nat) : evenOddPairs (List.replicate (2 * k) x) = List.replicate k (x, x) := by
  have := evenOddPairs_rep x k []
  simpa [evenOddPairs] using this

theorem mapM_append_ok {α β : Type} (f : α → Except Err β) : ∀ (l m : List α) (l' m' : List β),
    l.mapM f = .ok l' → m.mapM f = .ok m' → (l ++ m).mapM f = .ok (l' ++ m') := by
  intro l
  induction l with
  | nil =>
    intro m l' m' hl hm
    simp only [mapM_nil, pure_ok_iff] at hl
    subst hl
    simpa using hm
  | cons a l ih =>
    intro m l' m' hl hm
    simp only [mapM_cons, bind_ok_iff, pure_ok_iff] at hl
    obtain ⟨b, hb, bs, hbs, rfl⟩ := hl
    simp only [cons_append, mapM_cons, bind_ok_iff, pure_ok_iff]
    exact ⟨b, hb, bs ++ m', ih m bs m' hbs hm, rfl⟩

theorem mapM_rep_II (k : Nat) : (List.replicate k (mI, mI)).mapM pairMapGet = .ok (List.replicate k (0 : Int)) := by
  induction k with
  | zero => rfl
  | succ k ih =>
    simp only [replicate_succ, mapM_cons, bind_ok_iff, pure_ok_iff]
    exact ⟨0, rfl, _, ih, rfl⟩

theorem mapM_len {α β : Type} (f : α → Except Err β) : ∀ (l : List α) (l' : List β), l.mapM f = .ok l' → l'.length = l.length := by
  intro l
  induction l with
  | nil => intro l' h; simp only [mapM_nil, pure_ok_iff] at h; subst h; rfl
  | cons a l ih =>
    intro l' h
    simp only [mapM_cons, bind_ok_iff, pure_ok_iff] at h
    obtain ⟨b, _, bs, hbs, rfl⟩ := h
    simp [ih bs hbs]

theorem evenOddPairs_length : ∀ (n : Nat) (l : List Int), l.length = 2 * n → (evenOddPairs l).length = n := by
  intro n
  induction n with
  | zero => intro l hl; have : l = [] := List.eq_nil_of_length_eq_zero (by omega); subst this; rfl
  | succ n ih =>
    intro l hl
    match l, hl with
    | x :: y :: l, hl => simp only [evenOddPairs, length_cons]; rw [ih l (by simp only [length_cons] at hl; omega)]
    | [], hl => simp at hl
    | [_], hl => simp at hl; omega

section
variable {κ : Type} [Add κ] [Mul κ] [Neg κ] [OfNat κ 0] [OfNat κ 1] [DecidableEq κ]

/-- padding an odd start with an identity in front does not change the identity-padded word -/
theorem padded_front (c : OpChain κ) (N : Int) (h1 : 1 ≤ c.istart) :
    ({ c with oids := mI :: c.oids, qnums := 0 :: c.qnums, istart := c.istart - 1 } : OpChain κ).paddedWord N 0 = c.paddedWord N 0 := by
  simp only [OpChain.paddedWord, OpChain.length, pyRepeat, length_cons, mI]
  have e1 : c.istart.toNat = (c.istart - 1).toNat + 1 := by omega
  have e2 : (N - ((c.oids.length + 1 : Nat) : Int) - (c.istart - 1)) = N - (c.oids.length : Int) - c.istart := by push_cast; omega
  rw [e1, e2, replicate_succ']
  simp

/-- appending an identity (room permitting) does not change the identity-padded word -/
theorem padded_back (c : OpChain κ) (N : Int) (h1 : c.istart + (c.oids.length : Int) < N) :
    ({ c with oids := c.oids ++ [mI], qnums := c.qnums ++ [0] } : OpChain κ).paddedWord N 0 = c.paddedWord N 0 := by
  simp only [OpChain.paddedWord, OpChain.length, pyRepeat, length_append, length_cons, length_nil, mI]
  have e1 : (N - (c.oids.length : Int) - c.istart).toNat = (N - ((c.oids.length + (0 + 1) : Nat) : Int) - c.istart).toNat + 1 := by
    push_cast; omega
  rw [e1, replicate_succ]
  simp

/-- **`to_spin_opchain`, the word**: on a chain on `2 L` modes satisfying the guards, Jordan-Wigner shaped and spin balanced the
conversion succeeds, keeps the coefficient, and the identity-padded word of the result on `L` sites is the image of the
identity-padded word on `2 L` modes under `oid_single_pair_map`, aligned pair by aligned pair -/
theorem toSpinOpchain_word (L : Int) (c : OpChain κ) (tail : List Int) (h : SpinReady L c tail) :
    ∃ sc, toSpinOpchain c = .ok sc ∧ ChainWF L sc ∧ sc.coeff = c.coeff ∧
      (evenOddPairs (c.paddedWord (2 * L) 0)).mapM pairMapGet = .ok (sc.paddedWord L 0) ∧
      (∀ o ∈ c.paddedWord (2 * L) 0, isMolOid o) := by
  -- front padding
  obtain ⟨c1, t1, h1, he1, hc1, hw1, hco1⟩ : ∃ (c1 : OpChain κ) (t1 : List Int), SpinReady L c1 t1 ∧ c1.istart % 2 = 0 ∧
      c1 = (if c.istart % 2 == 1 then { c with oids := mI :: c.oids, qnums := 0 :: c.qnums, istart := c.istart - 1 } else c) ∧
      c1.paddedWord (2 * L) 0 = c.paddedWord (2 * L) 0 ∧ c1.coeff = c.coeff := by
    by_cases ho : c.istart % 2 = 1
    · exact ⟨_, _, spinReady_front h ho, by simp only; omega, by simp [ho], padded_front c _ (by have := h.wf.start; omega), rfl⟩
    · have : ¬ (c.istart % 2 == 1) = true := by simpa using ho
      exact ⟨c, tail, h, by omega, by simp [this], rfl, rfl⟩
  -- back padding
  obtain ⟨c2, t2, h2, he2, hl2, hc2, hw2, hco2⟩ : ∃ (c2 : OpChain κ) (t2 : List Int), SpinReady L c2 t2 ∧ c2.istart % 2 = 0 ∧
      c2.oids.length % 2 = 0 ∧
      c2 = (if c1.length % 2 == 1 then { c1 with oids := c1.oids ++ [mI], qnums := c1.qnums ++ [0] } else c1) ∧
      c2.paddedWord (2 * L) 0 = c1.paddedWord (2 * L) 0 ∧ c2.coeff = c1.coeff := by
    by_cases ho : c1.oids.length % 2 = 1
    · refine ⟨_, _, spinReady_back h1 he1 ho, he1, ?_, by simp [OpChain.length, ho],
        padded_back c1 _ (by have := h1.wf.fits; omega), rfl⟩
      simp only [List.length_append, List.length_cons, List.length_nil]; omega
    · have : ¬ (c1.length % 2 == 1) = true := by simpa [OpChain.length] using ho
      exact ⟨c1, t1, h1, he1, by omega, by simp [this], rfl, rfl⟩
  obtain ⟨oids, qnums, ho, hqs, hlast, hlen, hpos, hhead, hfit⟩ := toSpin_core L c2 t2 h2 he2 hl2
  have hq0 : pyIdx c.qnums 0 = .ok 0 := by rw [h.hq]; rfl
  have hql : c.qnums.getLast? = some 0 := h.wf.qlast
  have hstart : 0 ≤ c2.istart / 2 := by have := h2.wf.start; omega
  refine ⟨⟨oids, qnums, c2.coeff, c2.istart / 2⟩, ?_, ⟨hlen.symm, hpos, hstart, hfit, hhead, hlast⟩, by rw [hco2, hco1], ?_, ?_⟩
  · unfold toSpinOpchain
    simp only [hq0, hql, bind, Except.bind, pyAssert, beq_self_eq_true, if_true, ← hc1]
    simp only [← hc2]
    have hl2'' : (c2.oids.length % 2 == 0) = true := by simpa using hl2
    simp only [if_true, ho, OpChain.length, hqs, hlast, beq_self_eq_true, pure, Except.pure, hl2'']
    exact mk'_ok oids qnums c2.coeff (c2.istart / 2) hlen hstart
  · rw [← hw1, ← hw2]
    obtain ⟨n, hn⟩ : ∃ n, c2.oids.length = 2 * n := ⟨c2.oids.length / 2, by omega⟩
    have hon : oids.length = n := by rw [mapM_len _ _ _ ho]; exact evenOddPairs_length n _ hn
    have hs2 := h2.wf.start
    have hf2 := h2.wf.fits
    simp only [OpChain.paddedWord, OpChain.length, pyRepeat]
    have e1 : c2.istart.toNat = 2 * (c2.istart / 2).toNat := by omega
    have e2 : (2 * L - (c2.oids.length : Int) - c2.istart).toNat = 2 * (L - (oids.length : Int) - c2.istart / 2).toNat := by
      rw [hon, hn]; push_cast; omega
    rw [e1, e2, append_assoc, evenOddPairs_rep, evenOddPairs_append n _ _ hn, evenOddPairs_rep_nil, append_assoc]
    exact mapM_append_ok _ _ _ _ _ (mapM_rep_II _) (mapM_append_ok _ _ _ _ _ ho (mapM_rep_II _))
  · rw [← hw1, ← hw2]
    intro o hoo
    simp only [OpChain.paddedWord, pyRepeat, mem_append, mem_replicate] at hoo
    have hmol : ∀ (q : Int) (os qs : List Int), JW q os qs → ∀ o ∈ os, isMolOid o := by
      intro q os
      induction os generalizing q with
      | nil => intro _ _ o ho; simp at ho
      | cons x os ih =>
        intro qs hj o ho
        cases qs with
        | nil => simp [JW] at hj
        | cons q' qs =>
          simp only [JW] at hj
          rcases mem_cons.1 ho with rfl | ho
          · exact hj.2.2.2.1
          · exact ih q' qs hj.2.2.2.2 o ho
    rcases hoo with (⟨_, rfl⟩ | hoo) | ⟨_, rfl⟩
    · exact Or.inr (Or.inl rfl)
    · exact hmol 0 _ _ h2.jw o hoo
    · exact Or.inr (Or.inl rfl)

end
end Ptn.Spin

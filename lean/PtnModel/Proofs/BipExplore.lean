import PtnModel.Proofs.BipBasic
/-!
# C18 helper lemmas, part 3: `_explore_alternating_paths`

`ExpPost`: what a finished exploration guarantees (the visited sets only grow, every newly visited
vertex is *closed* with respect to the final sets, and every newly visited vertex has an origin).
`explore_ok`: the fuel `exploreFuel g` suffices.
-/
namespace Ptn.Bip

/-- Guarantees of a finished (partial) exploration that started in `st` and ended in `st'`.
`O` describes the admissible `U`-vertices that are visited without coming from a matched partner. -/
structure ExpPost (g : BGraph) (m : List (Nat × Nat)) (O : Nat → Prop) (st st' : List Nat × List Nat) : Prop where
  subU : ∀ x ∈ st.1, x ∈ st'.1
  subV : ∀ y ∈ st.2, y ∈ st'.2
  lenU : st.1.length ≤ st'.1.length
  nodupU : st.1.Nodup → st'.1.Nodup
  nodupV : st.2.Nodup → st'.2.Nodup
  /-- a new `u` has all its non-matching neighbours visited -/
  closedU : ∀ x ∈ st'.1, x ∉ st.1 → ∀ v ∈ g.adjU.getD x [], (x, v) ∉ m → v ∈ st'.2
  /-- a new `v` has its matched partner(s) visited -/
  closedV : ∀ y ∈ st'.2, y ∉ st.2 → ∀ x ∈ g.adjV.getD y [], (x, y) ∈ m → x ∈ st'.1
  /-- a new `u` is a start vertex or was reached through a matching edge from a visited `v` -/
  originU : ∀ x ∈ st'.1, x ∉ st.1 → O x ∨ ∃ y ∈ st'.2, x ∈ g.adjV.getD y [] ∧ (x, y) ∈ m
  /-- a new `v` is a neighbour of a visited `u` via a non-matching edge -/
  originV : ∀ y ∈ st'.2, y ∉ st.2 → ∃ x ∈ st'.1, y ∈ g.adjU.getD x [] ∧ (x, y) ∉ m

theorem ExpPost.refl (g : BGraph) (m : List (Nat × Nat)) (O : Nat → Prop) (st : List Nat × List Nat) :
    ExpPost g m O st st :=
  ⟨fun _ h => h, fun _ h => h, Nat.le_refl _, fun h => h, fun h => h,
   fun _ h h' => absurd h h', fun _ h h' => absurd h h', fun _ h h' => absurd h h', fun _ h h' => absurd h h'⟩

theorem ExpPost.trans {g : BGraph} {m : List (Nat × Nat)} {O : Nat → Prop} {st st' st'' : List Nat × List Nat}
    (h1 : ExpPost g m O st st') (h2 : ExpPost g m O st' st'') : ExpPost g m O st st'' := by
  classical
  refine ⟨fun x h => h2.subU x (h1.subU x h), fun y h => h2.subV y (h1.subV y h),
    Nat.le_trans h1.lenU h2.lenU, fun h => h2.nodupU (h1.nodupU h), fun h => h2.nodupV (h1.nodupV h), ?_, ?_, ?_, ?_⟩
  · intro x hx hn v hv hm
    by_cases hx' : x ∈ st'.1
    · exact h2.subV v (h1.closedU x hx' hn v hv hm)
    · exact h2.closedU x hx hx' v hv hm
  · intro y hy hn x hx hm
    by_cases hy' : y ∈ st'.2
    · exact h2.subU x (h1.closedV y hy' hn x hx hm)
    · exact h2.closedV y hy hy' x hx hm
  · intro x hx hn
    by_cases hx' : x ∈ st'.1
    · rcases h1.originU x hx' hn with h | ⟨y, hy, h⟩
      · exact Or.inl h
      · exact Or.inr ⟨y, h2.subV y hy, h⟩
    · exact h2.originU x hx hx'
  · intro y hy hn
    by_cases hy' : y ∈ st'.2
    · obtain ⟨x, hx, h⟩ := h1.originV y hy' hn
      exact ⟨x, h2.subU x hx, h⟩
    · exact h2.originV y hy hy'

theorem ExpPost.mono {g : BGraph} {m : List (Nat × Nat)} {O O' : Nat → Prop} {st st' : List Nat × List Nat}
    (h : ExpPost g m O st st')
    (hO : ∀ x, O x → O' x ∨ ∃ y ∈ st.2, x ∈ g.adjV.getD y [] ∧ (x, y) ∈ m) : ExpPost g m O' st st' := by
  refine ⟨h.subU, h.subV, h.lenU, h.nodupU, h.nodupV, h.closedU, h.closedV, ?_, h.originV⟩
  intro x hx hn
  rcases h.originU x hx hn with h1 | h1
  · rcases hO x h1 with h2 | ⟨y, hy, h2⟩
    · exact Or.inl h2
    · exact Or.inr ⟨y, h.subV y hy, h2⟩
  · exact Or.inr h1

theorem explore_spec_aux (g : BGraph) (m : List (Nat × Nat)) :
    (∀ (fuel u : Nat) (st : List Nat × List Nat), ∀ st', explore g m fuel u st = .ok st' →
        ExpPost g m (· = u) st st' ∧ u ∈ st'.1) ∧
    (∀ (fuel u : Nat) (vs : List Nat) (st : List Nat × List Nat), ∀ st',
        exploreV g m fuel u vs st = .ok st' → u ∈ st.1 → (∀ v ∈ vs, v ∈ g.adjU.getD u []) →
        ExpPost g m (fun _ => False) st st' ∧ ∀ v ∈ vs, (u, v) ∉ m → v ∈ st'.2) ∧
    (∀ (fuel v : Nat) (us : List Nat) (st : List Nat × List Nat), ∀ st',
        exploreU g m fuel v us st = .ok st' → v ∈ st.2 → (∀ x ∈ us, x ∈ g.adjV.getD v []) →
        ExpPost g m (fun _ => False) st st' ∧ ∀ x ∈ us, (x, v) ∈ m → x ∈ st'.1) := by
  apply explore.mutual_induct g m
  · -- explore, no fuel
    intro u st st' h
    rw [explore] at h; cases h
  · -- explore, already visited
    intro fuel u uvis vvis hc st' h
    rw [explore] at h
    simp only [hc, if_true] at h
    cases h
    exact ⟨ExpPost.refl .., List.contains_iff_mem.1 hc⟩
  · -- explore, new vertex
    intro fuel u uvis vvis hc ih st' h
    rw [explore] at h
    simp only [hc] at h
    have hnu : u ∉ uvis := fun hm => hc (List.contains_iff_mem.2 hm)
    obtain ⟨post, hl⟩ := ih st' h (by simp) (fun v hv => hv)
    have hu' : u ∈ st'.1 := post.subU u (by simp)
    refine ⟨⟨?_, post.subV, ?_, ?_, post.nodupV, ?_, post.closedV, ?_, post.originV⟩, hu'⟩
    · intro x hx; exact post.subU x (by simp [hx])
    · have := post.lenU
      simp only [List.length_append, List.length_singleton] at this
      show uvis.length ≤ st'.1.length
      omega
    · intro hnd
      apply post.nodupU
      rw [List.nodup_append]
      refine ⟨hnd, List.nodup_singleton u, ?_⟩
      intro a ha b hb
      simp only [List.mem_singleton] at hb
      subst hb; intro e; subst e; exact hnu ha
    · intro x hx hn v hv hm
      by_cases hxu : x = u
      · subst hxu; exact hl v hv hm
      · exact post.closedU x hx (by simp [hn, hxu]) v hv hm
    · intro x hx hn
      by_cases hxu : x = u
      · exact Or.inl hxu
      · rcases post.originU x hx (by simp [hn, hxu]) with h1 | h1
        · exact absurd h1 id
        · exact Or.inr h1
  · -- exploreV, done
    intro fuel u st st' h _ _
    rw [exploreV] at h; cases h
    exact ⟨ExpPost.refl .., fun v hv => by cases hv⟩
  · -- exploreV, non-matching edge to visited v
    intro fuel u v vs uvis vvis hm hc ih st' h hu hadj
    rw [exploreV] at h
    simp only [hm, hc, if_true] at h
    obtain ⟨post, hl⟩ := ih st' h hu (fun v' hv' => hadj v' (List.mem_cons_of_mem _ hv'))
    refine ⟨post, ?_⟩
    intro v' hv' hm'
    rcases List.mem_cons.1 hv' with rfl | hv'
    · exact post.subV _ (List.contains_iff_mem.1 hc)
    · exact hl v' hv' hm'
  · -- exploreV, inner error
    intro fuel u v vs uvis vvis hm hc e he _ st' h
    rw [exploreV] at h
    simp only [hm, hc, if_true, he] at h
    cases h
  · -- exploreV, new v
    intro fuel u v vs uvis vvis hm hc st1 he ih3 ih2 st' h hu hadj
    rw [exploreV] at h
    simp only [hm, hc, if_true, he] at h
    have hnv : v ∉ vvis := fun hmem => hc (List.contains_iff_mem.2 hmem)
    have hnm : (u, v) ∉ m := by simpa using hm
    obtain ⟨post3, hl3⟩ := ih3 st1 he (by simp) (fun x hx => hx)
    have hu1 : u ∈ st1.1 := post3.subU u hu
    obtain ⟨post2, hl2⟩ := ih2 st' h hu1 (fun v' hv' => hadj v' (List.mem_cons_of_mem _ hv'))
    have hv1 : v ∈ st1.2 := post3.subV v (by simp)
    -- first the step (uvis, vvis) → st1
    have postA : ExpPost g m (fun _ => False) (uvis, vvis) st1 := by
      refine ⟨post3.subU, ?_, post3.lenU, post3.nodupU, ?_, post3.closedU, ?_, post3.originU, ?_⟩
      · intro y hy; exact post3.subV y (by simp [hy])
      · intro hnd
        apply post3.nodupV
        show (vvis ++ [v]).Nodup
        rw [List.nodup_append]
        refine ⟨hnd, List.nodup_singleton v, ?_⟩
        intro a ha b hb
        simp only [List.mem_singleton] at hb
        subst hb; intro e; subst e; exact hnv ha
      · intro y hy hn x hx hxm
        by_cases hyv : y = v
        · subst hyv; exact hl3 x hx hxm
        · exact post3.closedV y hy (by simp [hn, hyv]) x hx hxm
      · intro y hy hn
        by_cases hyv : y = v
        · subst hyv; exact ⟨u, hu1, hadj y (List.mem_cons_self ..), hnm⟩
        · exact post3.originV y hy (by simp [hn, hyv])
    refine ⟨postA.trans post2, ?_⟩
    intro v' hv' hm'
    rcases List.mem_cons.1 hv' with rfl | hv'
    · exact post2.subV _ hv1
    · exact hl2 v' hv' hm'
  · -- exploreV, matching edge
    intro fuel u v vs uvis vvis hm ih st' h hu hadj
    rw [exploreV] at h
    simp only [hm] at h
    obtain ⟨post, hl⟩ := ih st' h hu (fun v' hv' => hadj v' (List.mem_cons_of_mem _ hv'))
    refine ⟨post, ?_⟩
    intro v' hv' hm'
    rcases List.mem_cons.1 hv' with rfl | hv'
    · exact absurd (by simpa using hm) hm'
    · exact hl v' hv' hm'
  · -- exploreU, done
    intro fuel v st st' h _ _
    rw [exploreU] at h; cases h
    exact ⟨ExpPost.refl .., fun v hv => by cases hv⟩
  · -- exploreU, inner error
    intro fuel v u us st hm e he _ st' h
    rw [exploreU] at h
    simp only [hm, if_true, he] at h
    cases h
  · -- exploreU, matched partner
    intro fuel v u us st hm st1 he ih1 ih3 st' h hv hadj
    rw [exploreU] at h
    simp only [hm, if_true, he] at h
    obtain ⟨post1, hu1⟩ := ih1 st1 he
    obtain ⟨post3, hl3⟩ := ih3 st' h (post1.subV v hv) (fun x hx => hadj x (List.mem_cons_of_mem _ hx))
    have post1' : ExpPost g m (fun _ => False) st st1 := by
      apply post1.mono
      intro x hx
      subst hx
      exact Or.inr ⟨v, hv, hadj x (List.mem_cons_self ..), List.contains_iff_mem.1 hm⟩
    refine ⟨post1'.trans post3, ?_⟩
    intro x hx hxm
    rcases List.mem_cons.1 hx with rfl | hx
    · exact post3.subU _ hu1
    · exact hl3 x hx hxm
  · -- exploreU, non-matching
    intro fuel v u us st hm ih st' h hv hadj
    rw [exploreU] at h
    simp only [hm] at h
    obtain ⟨post, hl⟩ := ih st' h hv (fun x hx => hadj x (List.mem_cons_of_mem _ hx))
    refine ⟨post, ?_⟩
    intro x hx hxm
    rcases List.mem_cons.1 hx with rfl | hx
    · exact absurd (List.contains_iff_mem.2 hxm) hm
    · exact hl x hx hxm

theorem explore_spec {g : BGraph} {m : List (Nat × Nat)} {fuel u : Nat} {st st' : List Nat × List Nat}
    (h : explore g m fuel u st = .ok st') : ExpPost g m (· = u) st st' ∧ u ∈ st'.1 :=
  (explore_spec_aux g m).1 fuel u st st' h

theorem exploreV_spec {g : BGraph} {m : List (Nat × Nat)} {fuel u : Nat} {vs : List Nat}
    {st st' : List Nat × List Nat} (h : exploreV g m fuel u vs st = .ok st') (hu : u ∈ st.1)
    (hadj : ∀ v ∈ vs, v ∈ g.adjU.getD u []) :
    ExpPost g m (fun _ => False) st st' ∧ ∀ v ∈ vs, (u, v) ∉ m → v ∈ st'.2 :=
  (explore_spec_aux g m).2.1 fuel u vs st st' h hu hadj

theorem exploreU_spec {g : BGraph} {m : List (Nat × Nat)} {fuel v : Nat} {us : List Nat}
    {st st' : List Nat × List Nat} (h : exploreU g m fuel v us st = .ok st') (hv : v ∈ st.2)
    (hadj : ∀ x ∈ us, x ∈ g.adjV.getD v []) :
    ExpPost g m (fun _ => False) st st' ∧ ∀ x ∈ us, (x, v) ∈ m → x ∈ st'.1 :=
  (explore_spec_aux g m).2.2 fuel v us st st' h hv hadj

/-- the `U`-side stays in range -/
theorem ExpPost.rangeU {g : BGraph} (hg : g.WF) {m : List (Nat × Nat)} {O : Nat → Prop}
    {st st' : List Nat × List Nat} (post : ExpPost g m O st st') (hO : ∀ x, O x → x < g.numU)
    (h : ∀ x ∈ st.1, x < g.numU) : ∀ x ∈ st'.1, x < g.numU := by
  classical
  intro x hx
  by_cases hx0 : x ∈ st.1
  · exact h x hx0
  · rcases post.originU x hx hx0 with h1 | ⟨y, _, h1, _⟩
    · exact hO x h1
    · exact hg.rangeV y x h1

/-- the `V`-side stays in range -/
theorem ExpPost.rangeV {g : BGraph} (hg : g.WF) {m : List (Nat × Nat)} {O : Nat → Prop}
    {st st' : List Nat × List Nat} (post : ExpPost g m O st st')
    (h : ∀ y ∈ st.2, y < g.numV) : ∀ y ∈ st'.2, y < g.numV := by
  classical
  intro y hy
  by_cases hy0 : y ∈ st.2
  · exact h y hy0
  · obtain ⟨x, _, h1, _⟩ := post.originV y hy hy0
    exact hg.rangeU x y h1

theorem length_le_of_nodup_lt {l : List Nat} {n : Nat} (hnd : l.Nodup) (h : ∀ x ∈ l, x < n) :
    l.length ≤ n := by
  have := hnd.length_le_of_subset (l₂ := List.range n) (fun x hx => List.mem_range.2 (h x hx))
  simpa using this

/-! ## the fuel suffices -/

theorem explore_total_aux (g : BGraph) (hg : g.WF) (m : List (Nat × Nat)) :
    (∀ (fuel u : Nat) (st : List Nat × List Nat), st.1.Nodup → (∀ x ∈ st.1, x < g.numU) → u < g.numU →
        g.numU + 1 ≤ fuel + st.1.length → ∃ st', explore g m fuel u st = .ok st') ∧
    (∀ (fuel u : Nat) (vs : List Nat) (st : List Nat × List Nat), st.1.Nodup → (∀ x ∈ st.1, x < g.numU) →
        u ∈ st.1 → (∀ v ∈ vs, v ∈ g.adjU.getD u []) →
        g.numU + 1 ≤ fuel + st.1.length → ∃ st', exploreV g m fuel u vs st = .ok st') ∧
    (∀ (fuel v : Nat) (us : List Nat) (st : List Nat × List Nat), st.1.Nodup → (∀ x ∈ st.1, x < g.numU) →
        v ∈ st.2 → (∀ x ∈ us, x ∈ g.adjV.getD v []) →
        g.numU + 1 ≤ fuel + st.1.length → ∃ st', exploreU g m fuel v us st = .ok st') := by
  apply explore.mutual_induct g m
  · intro u st hnd hr _ hf
    have := length_le_of_nodup_lt hnd hr
    omega
  · intro fuel u uvis vvis hc _ _ _ _
    rw [explore]; simp only [hc, if_true]; exact ⟨_, rfl⟩
  · intro fuel u uvis vvis hc ih hnd hr hu hf
    rw [explore]; simp only [hc]
    have hnu : u ∉ uvis := fun hm => hc (List.contains_iff_mem.2 hm)
    apply ih
    · show (uvis ++ [u]).Nodup
      rw [List.nodup_append]
      refine ⟨hnd, List.nodup_singleton u, ?_⟩
      intro a ha b hb
      simp only [List.mem_singleton] at hb
      subst hb; intro e; subst e; exact hnu ha
    · intro x hx
      rcases List.mem_append.1 hx with hx | hx
      · exact hr x hx
      · simp only [List.mem_singleton] at hx; subst hx; exact hu
    · simp
    · exact fun v hv => hv
    · simp only [List.length_append, List.length_singleton]
      have : (uvis, vvis).1.length = uvis.length := rfl
      omega
  · intro fuel u st _ _ _ _ _
    rw [exploreV]; exact ⟨_, rfl⟩
  · intro fuel u v vs uvis vvis hm hc ih hnd hr hu hadj hf
    rw [exploreV]; simp only [hm, hc, if_true]
    exact ih hnd hr hu (fun v' hv' => hadj v' (List.mem_cons_of_mem _ hv')) hf
  · intro fuel u v vs uvis vvis hm hc e he ih3 hnd hr hu hadj hf
    obtain ⟨st', h'⟩ := ih3 hnd hr (by simp) (fun x hx => hx) hf
    rw [h'] at he; cases he
  · intro fuel u v vs uvis vvis hm hc st1 he ih3 ih2 hnd hr hu hadj hf
    rw [exploreV]; simp only [hm, hc, if_true, he]
    obtain ⟨post3, _⟩ := exploreU_spec he (by simp) (fun x hx => hx)
    apply ih2 (post3.nodupU hnd) (post3.rangeU hg (fun _ h => h.elim) hr) (post3.subU u hu)
      (fun v' hv' => hadj v' (List.mem_cons_of_mem _ hv'))
    have h1 : uvis.length ≤ st1.1.length := post3.lenU
    have h2 : g.numU + 1 ≤ fuel + uvis.length := hf
    omega
  · intro fuel u v vs uvis vvis hm ih hnd hr hu hadj hf
    rw [exploreV]; simp only [hm]
    exact ih hnd hr hu (fun v' hv' => hadj v' (List.mem_cons_of_mem _ hv')) hf
  · intro fuel v st _ _ _ _ _
    rw [exploreU]; exact ⟨_, rfl⟩
  · intro fuel v u us st hm e he ih1 hnd hr hv hadj hf
    obtain ⟨st', h'⟩ := ih1 hnd hr (hg.rangeV v u (hadj u (List.mem_cons_self ..))) hf
    rw [h'] at he; cases he
  · intro fuel v u us st hm st1 he ih1 ih3 hnd hr hv hadj hf
    rw [exploreU]; simp only [hm, if_true, he]
    have hu : u < g.numU := hg.rangeV v u (hadj u (List.mem_cons_self ..))
    obtain ⟨post1, _⟩ := explore_spec he
    apply ih3 (post1.nodupU hnd) (post1.rangeU hg (fun x h => h ▸ hu) hr) (post1.subV v hv)
      (fun x hx => hadj x (List.mem_cons_of_mem _ hx))
    have := post1.lenU
    omega
  · intro fuel v u us st hm ih hnd hr hv hadj hf
    rw [exploreU]; simp only [hm]
    exact ih hnd hr hv (fun x hx => hadj x (List.mem_cons_of_mem _ hx)) hf

/-- (e) With fuel `exploreFuel g` an exploration from an in-range start vertex never runs out of
fuel (`explore` has no other way to fail), whatever the list `m` is. -/
theorem explore_ok {g : BGraph} (hg : g.WF) (m : List (Nat × Nat)) {u : Nat} (hu : u < g.numU) :
    ∃ st', explore g m (exploreFuel g) u ([], []) = .ok st' := by
  apply (explore_total_aux g hg m).1 _ _ _ List.nodup_nil (fun x hx => by cases hx) hu
  simp [exploreFuel]

end Ptn.Bip

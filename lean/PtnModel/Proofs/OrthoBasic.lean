import PtnModel.Props.C11
import PtnModel.Proofs.EnvChain
/-!
# Basic vocabulary for the orthonormalization proofs (C01)

* `flatten2_length`, `flatten2_getD`   : `qnumber_flatten([a, b])` entry by entry;
* `SparseT3 A qd qa qb`               : Prop form of `QN.isSparseT3` (`isSparseT3_iff`);
* `T3Wf A qd qa qb`                   : `A` has shape `(len qd, len qa, len qb)` and is block sparse;
* `sparse_flattenLeft`                : the matricization handed to `qr` is block sparse;
* `WfChain qd qL As qs`               : recursive form of `MPS.wellFormed` (plus non-empty charge lists);
* `wellFormed_iff`                    : bridge between the two.
-/
set_option linter.unusedSectionVars false
namespace Ptn.Ortho
open Ptn.BondOps Finset

/-! ## `qnumber_flatten` -/

theorem flatten2_cons (x : Int) (a b : List Int) :
    QN.flatten2 (x :: a) b = b.map (fun y => x + y) ++ QN.flatten2 a b := by
  simp [QN.flatten2]

theorem flatten2_length (a b : List Int) : (QN.flatten2 a b).length = a.length * b.length := by
  induction a with
  | nil => simp [QN.flatten2]
  | cons x a ih =>
    rw [flatten2_cons, List.length_append, ih, List.length_map, List.length_cons, Nat.succ_mul, Nat.add_comm]

theorem flatten2_getD (a b : List Int) {i j : Nat} (hi : i < a.length) (hj : j < b.length) :
    (QN.flatten2 a b).getD (i * b.length + j) 0 = a.getD i 0 + b.getD j 0 := by
  induction a generalizing i with
  | nil => simp at hi
  | cons x a ih =>
    rw [flatten2_cons]
    cases i with
    | zero =>
      simp only [Nat.zero_mul, Nat.zero_add, List.getD_eq_getElem?_getD]
      rw [List.getElem?_append_left (by simpa using hj)]
      simp [hj]
    | succ i =>
      have : (i + 1) * b.length + j = (b.map (fun y => x + y)).length + (i * b.length + j) := by
        rw [List.length_map, Nat.succ_mul]; omega
      have ih' := ih (i := i) (by simpa using hi)
      simp only [List.getD_eq_getElem?_getD] at ih' ⊢
      rw [this, List.getElem?_append_right (by omega)]
      simp only [Nat.add_sub_cancel_left]
      rw [ih']
      simp

theorem neg_length (a : List Int) : (QN.neg a).length = a.length := by simp [QN.neg]

theorem neg_getD (a : List Int) (i : Nat) : (QN.neg a).getD i 0 = - a.getD i 0 := by
  simp only [QN.neg, List.getD_eq_getElem?_getD, List.getElem?_map]
  cases a[i]? <;> simp

theorem neg_neg (a : List Int) : QN.neg (QN.neg a) = a := by
  simp [QN.neg]

/-! ## index arithmetic -/

theorem fused_lt {a b m n : Nat} (ha : a < m) (hb : b < n) : a * n + b < m * n := by
  calc a * n + b < a * n + n := by omega
    _ = (a + 1) * n := by rw [Nat.succ_mul]
    _ ≤ m * n := Nat.mul_le_mul_right _ ha

theorem fused_div {a b n : Nat} (hb : b < n) : (a * n + b) / n = a := by
  have hn : 0 < n := by omega
  rw [Nat.mul_comm, Nat.mul_add_div hn, Nat.div_eq_of_lt hb]; rfl

theorem fused_mod {a b n : Nat} (hb : b < n) : (a * n + b) % n = b := by
  rw [Nat.mul_comm, Nat.mul_add_mod, Nat.mod_eq_of_lt hb]

theorem div_lt_of_lt_mul {x m n : Nat} (h : x < m * n) : x / n < m := by
  have hn : 0 < n := by
    rcases Nat.eq_zero_or_pos n with h0 | h0
    · simp [h0] at h
    · exact h0
  exact (Nat.div_lt_iff_lt_mul hn).2 h

theorem mod_lt_of_lt_mul {x m n : Nat} (h : x < m * n) : x % n < n := by
  have hn : 0 < n := by
    rcases Nat.eq_zero_or_pos n with h0 | h0
    · simp [h0] at h
    · exact h0
  exact Nat.mod_lt _ hn

/-- a sum over a fused (row-major) index is a double sum -/
theorem sum_fused {α : Type} [AddCommMonoid α] (m n : Nat) (g : Nat → α) :
    ∑ x ∈ range (m * n), g x = ∑ a ∈ range m, ∑ b ∈ range n, g (a * n + b) := by
  induction m with
  | zero => simp
  | succ m ih =>
    rw [Nat.succ_mul, Finset.sum_range_add, ih, Finset.sum_range_succ]

variable {𝕜 : Type} [CommRing 𝕜] [DecidableEq 𝕜]

/-! ## block sparsity of MPS tensors -/

/-- Prop form of `is_qsparse(A, [qd, qa, -qb])` -/
def SparseT3 (A : T3 𝕜) (qd qa qb : List Int) : Prop :=
  ∀ s a b, s < A.d0 → a < A.d1 → b < A.d2 → A.f s a b ≠ 0 → qd.getD s 0 + qa.getD a 0 - qb.getD b 0 = 0

theorem isSparseT3_iff (A : T3 𝕜) (qd qa qb : List Int) :
    QN.isSparseT3 A qd qa qb = true ↔ SparseT3 A qd qa qb := by
  unfold QN.isSparseT3 SparseT3 T3.all
  simp only [List.all_eq_true, List.mem_range, Bool.or_eq_true, decide_eq_true_eq]
  constructor
  · intro h s a b hs ha hb hne
    rcases h s hs a ha b hb with h' | h'
    · exact h'
    · exact absurd h' hne
  · intro h s hs a ha b hb
    by_cases h0 : A.f s a b = 0
    · exact Or.inr h0
    · exact Or.inl (h s a b hs ha hb h0)

/-- shape and block sparsity of one MPS tensor -/
structure T3Wf (A : T3 𝕜) (qd qa qb : List Int) : Prop where
  d0 : A.d0 = qd.length
  d1 : A.d1 = qa.length
  d2 : A.d2 = qb.length
  sp : SparseT3 A qd qa qb

/-- the matricization `A.reshape((d0*d1, d2))` handed to `qr` is block sparse -/
theorem sparse_flattenLeft {A : T3 𝕜} {qd qa qb : List Int} (h : T3Wf A qd qa qb) :
    Sparse A.flattenLeft.tab (QN.flatten2 qd qa) qb := by
  intro r c hr hc hne
  have hr' : r < A.d0 * A.d1 := hr
  have hc' : c < A.d2 := hc
  rw [Mat.tab_f A.flattenLeft hr' hc'] at hne
  have h1 := div_lt_of_lt_mul hr'
  have h2 := mod_lt_of_lt_mul hr'
  have := h.sp _ _ _ h1 h2 hc' hne
  have e : r = r / A.d1 * qa.length + r % A.d1 := by
    rw [← h.d1, Nat.mul_comm]; exact (Nat.div_add_mod r A.d1).symm
  rw [e, flatten2_getD _ _ (by rw [← h.d0]; exact h1) (by rw [← h.d1]; exact h2)]
  omega

/-- the matrix `Q` reshaped to `(d0, d1, ·)` is block sparse when `Q` is -/
theorem sparseT3_ofFlattenLeft {Q : Mat 𝕜} {qd qa qi : List Int} (hm : Q.m = qd.length * qa.length)
    (hn : Q.n = qi.length) (hsp : Sparse Q (QN.flatten2 qd qa) qi) :
    T3Wf (T3.ofFlattenLeft Q qd.length qa.length) qd qa qi := by
  refine ⟨rfl, rfl, hn, ?_⟩
  intro s a b hs ha hb hne
  have hs' : s < qd.length := hs
  have ha' : a < qa.length := ha
  have hb' : b < Q.n := hb
  have := hsp (s * qa.length + a) b (by rw [hm]; exact fused_lt hs' ha') hb' hne
  rw [flatten2_getD _ _ hs' ha'] at this
  omega

/-! ## equality of tensors on in-range indices -/

/-- same shape and same in-range entries -/
structure T3Eqv (X Y : T3 𝕜) : Prop where
  d0 : X.d0 = Y.d0
  d1 : X.d1 = Y.d1
  d2 : X.d2 = Y.d2
  f : ∀ s a b, s < X.d0 → a < X.d1 → b < X.d2 → X.f s a b = Y.f s a b

theorem T3Eqv.refl (X : T3 𝕜) : T3Eqv X X := ⟨rfl, rfl, rfl, fun _ _ _ _ _ _ => rfl⟩

theorem T3Eqv.symm {X Y : T3 𝕜} (h : T3Eqv X Y) : T3Eqv Y X :=
  ⟨h.d0.symm, h.d1.symm, h.d2.symm, fun s a b hs ha hb =>
    (h.f s a b (by rw [h.d0]; exact hs) (by rw [h.d1]; exact ha) (by rw [h.d2]; exact hb)).symm⟩

theorem T3Eqv.trans {X Y Z : T3 𝕜} (h : T3Eqv X Y) (h' : T3Eqv Y Z) : T3Eqv X Z :=
  ⟨h.d0.trans h'.d0, h.d1.trans h'.d1, h.d2.trans h'.d2, fun s a b hs ha hb =>
    (h.f s a b hs ha hb).trans (h'.f s a b (by rw [← h.d0]; exact hs) (by rw [← h.d1]; exact ha)
      (by rw [← h.d2]; exact hb))⟩

theorem T3Eqv.tab (X : T3 𝕜) : T3Eqv X.tab X :=
  ⟨rfl, rfl, rfl, fun _ _ _ hs ha hb => Env.t3_tab_f X hs ha hb⟩

theorem T3Wf.congr {X Y : T3 𝕜} {qd qa qb : List Int} (h : T3Eqv X Y) (hY : T3Wf Y qd qa qb) : T3Wf X qd qa qb :=
  ⟨h.d0.trans hY.d0, h.d1.trans hY.d1, h.d2.trans hY.d2, fun s a b hs ha hb hne =>
    hY.sp s a b (by rw [← h.d0]; exact hs) (by rw [← h.d1]; exact ha) (by rw [← h.d2]; exact hb)
      (by rw [← h.f s a b hs ha hb]; exact hne)⟩

/-- the matricization handed to `qr` only depends on the in-range entries -/
theorem flattenLeft_tab_congr {X Y : T3 𝕜} (h : T3Eqv X Y) : X.flattenLeft.tab = Y.flattenLeft.tab := by
  refine Mat.tab_congr ?_ h.d2 ?_
  · show X.d0 * X.d1 = Y.d0 * Y.d1
    rw [h.d0, h.d1]
  · intro r c hr hc
    have hr' : r < X.d0 * X.d1 := hr
    show X.f (r / X.d1) (r % X.d1) c = Y.f (r / Y.d1) (r % Y.d1) c
    rw [← h.d1]
    exact h.f _ _ _ (div_lt_of_lt_mul hr') (mod_lt_of_lt_mul hr') hc

/-! ## well-formed chains -/

/-- recursive form of `MPS.wellFormed`: `As[k]` has shape `(len qd, len q_k, len q_{k+1})` and is block sparse,
where `q_0 = qL` and `q_{k+1} = qs[k]`; all `qs[k]` are non-empty. -/
def WfChain (qd : List Int) : List Int → List (T3 𝕜) → List (List Int) → Prop
  | _, [], [] => True
  | qL, A :: As, qR :: qs => T3Wf A qd qL qR ∧ 0 < qR.length ∧ WfChain qd qR As qs
  | _, _, _ => False

@[simp] theorem wfChain_nil (qd qL : List Int) : WfChain (𝕜 := 𝕜) qd qL [] [] ↔ True := by simp [WfChain]
@[simp] theorem wfChain_cons (qd qL : List Int) (A : T3 𝕜) (As : List (T3 𝕜)) (qR : List Int) (qs : List (List Int)) :
    WfChain qd qL (A :: As) (qR :: qs) ↔ T3Wf A qd qL qR ∧ 0 < qR.length ∧ WfChain qd qR As qs := by
  simp [WfChain]
@[simp] theorem wfChain_nil_cons (qd qL : List Int) (qR : List Int) (qs : List (List Int)) :
    ¬ WfChain (𝕜 := 𝕜) qd qL [] (qR :: qs) := by simp [WfChain]
@[simp] theorem wfChain_cons_nil (qd qL : List Int) (A : T3 𝕜) (As : List (T3 𝕜)) :
    ¬ WfChain qd qL (A :: As) [] := by simp [WfChain]

theorem wfChain_length {qd : List Int} : ∀ {qL : List Int} {As : List (T3 𝕜)} {qs : List (List Int)},
    WfChain qd qL As qs → qs.length = As.length
  | _, [], [], _ => rfl
  | _, [], _ :: _, h => by simp at h
  | _, _ :: _, [], h => by simp at h
  | _, A :: As, qR :: qs, h => by
    simp only [wfChain_cons] at h
    simp [wfChain_length h.2.2]

/-- the bond-dimension chain underlying a well-formed chain -/
theorem wfChain_chain3 {qd : List Int} : ∀ {qL : List Int} {As : List (T3 𝕜)} {qs : List (List Int)},
    WfChain qd qL As qs →
      Env.Chain3 (List.replicate As.length qd.length) As qL.length ((qL :: qs).getLast?.getD []).length
  | _, [], [], _ => by simp
  | _, [], _ :: _, h => by simp at h
  | _, _ :: _, [], h => by simp at h
  | qL, A :: As, qR :: qs, h => by
    simp only [wfChain_cons] at h
    have ih := wfChain_chain3 h.2.2
    simp only [List.length_cons, List.replicate_succ, Env.chain3_cons]
    refine ⟨h.1.d0, h.1.d1, ?_⟩
    rw [h.1.d2]
    rw [List.getLast?_cons_cons]
    exact ih

/-- Prop-level well-formedness of an MPS: `qD = q0 :: qs` with a well-formed chain. -/
def WfMPS (ψ : MPS 𝕜) : Prop :=
  ∃ q0 qs, ψ.qD = q0 :: qs ∧ 0 < q0.length ∧ WfChain ψ.qd q0 ψ.A qs

/-- the tail of the index-based test -/
private theorem wf_all_shift (qd : List Int) (A : T3 𝕜) (As : List (T3 𝕜)) (q0 : List Int) (qs : List (List Int)) :
    ((List.range (A :: As).length).all fun i =>
      match (A :: As)[i]? with
      | none => false
      | some B =>
        B.d0 == qd.length && B.d1 == ((q0 :: qs).getD i []).length && B.d2 == ((q0 :: qs).getD (i + 1) []).length &&
          QN.isSparseT3 B qd ((q0 :: qs).getD i []) ((q0 :: qs).getD (i + 1) [])) =
    ((A.d0 == qd.length && A.d1 == q0.length && A.d2 == (qs.getD 0 []).length &&
        QN.isSparseT3 A qd q0 (qs.getD 0 [])) &&
      (List.range As.length).all fun i =>
        match As[i]? with
        | none => false
        | some B =>
          B.d0 == qd.length && B.d1 == (qs.getD i []).length && B.d2 == (qs.getD (i + 1) []).length &&
            QN.isSparseT3 B qd (qs.getD i []) (qs.getD (i + 1) [])) := by
  rw [List.length_cons, List.range_succ_eq_map, List.all_cons, List.all_map]
  rfl

/-- index-based test of the model ⇔ recursive predicate (without the positivity of the charge lists) -/
theorem wf_all_iff (qd : List Int) : ∀ (As : List (T3 𝕜)) (q0 : List Int) (qs : List (List Int)),
    qs.length = As.length →
    (((List.range As.length).all fun i =>
      match As[i]? with
      | none => false
      | some B =>
        B.d0 == qd.length && B.d1 == ((q0 :: qs).getD i []).length && B.d2 == ((q0 :: qs).getD (i + 1) []).length &&
          QN.isSparseT3 B qd ((q0 :: qs).getD i []) ((q0 :: qs).getD (i + 1) [])) = true ↔
      List.Forall₂ (fun (B : T3 𝕜) (p : List Int × List Int) => T3Wf B qd p.1 p.2) As ((q0 :: qs).zip qs))
  | [], q0, [], _ => by simp
  | [], _, _ :: _, h => by simp at h
  | _ :: _, _, [], h => by simp at h
  | A :: As, q0, qR :: qs, h => by
    rw [wf_all_shift, Bool.and_eq_true, wf_all_iff qd As qR qs (by simpa using h)]
    simp only [List.zip_cons_cons, List.forall₂_cons, List.getD_cons_zero, Bool.and_eq_true, beq_iff_eq,
      isSparseT3_iff]
    constructor
    · rintro ⟨⟨⟨⟨a, b⟩, c⟩, d⟩, e⟩; exact ⟨⟨a, b, c, d⟩, e⟩
    · rintro ⟨⟨a, b, c, d⟩, e⟩; exact ⟨⟨⟨⟨a, b⟩, c⟩, d⟩, e⟩

theorem forall₂_iff_wfChain (qd : List Int) : ∀ (As : List (T3 𝕜)) (q0 : List Int) (qs : List (List Int)),
    (List.Forall₂ (fun (B : T3 𝕜) (p : List Int × List Int) => T3Wf B qd p.1 p.2) As ((q0 :: qs).zip qs) ∧
      qs.length = As.length ∧ ∀ q ∈ qs, 0 < q.length) ↔ WfChain qd q0 As qs
  | [], q0, [] => by simp
  | [], _, _ :: _ => by simp
  | _ :: _, _, [] => by simp
  | A :: As, q0, qR :: qs => by
    rw [wfChain_cons, ← forall₂_iff_wfChain qd As qR qs]
    simp only [List.zip_cons_cons, List.forall₂_cons, List.length_cons, List.mem_cons, forall_eq_or_imp,
      Nat.add_right_cancel_iff]
    constructor
    · rintro ⟨⟨a, b⟩, c, d, e⟩; exact ⟨a, d, b, c, e⟩
    · rintro ⟨a, d, b, c, e⟩; exact ⟨⟨a, b⟩, c, d, e⟩

/-- `MPS.wellFormed` together with non-empty charge lists is the recursive predicate `WfMPS` -/
theorem wfMPS_iff (ψ : MPS 𝕜) :
    (ψ.wellFormed = true ∧ ∀ q ∈ ψ.qD, 0 < q.length) ↔ WfMPS ψ := by
  unfold MPS.wellFormed WfMPS
  rw [Bool.and_eq_true, beq_iff_eq]
  constructor
  · rintro ⟨⟨hlen, hall⟩, hpos⟩
    cases hq : ψ.qD with
    | nil => rw [hq] at hlen; simp at hlen
    | cons q0 qs =>
      rw [hq] at hlen hall hpos
      have hl : qs.length = ψ.A.length := by simpa using hlen
      refine ⟨q0, qs, rfl, hpos q0 (by simp), ?_⟩
      rw [← forall₂_iff_wfChain]
      exact ⟨(wf_all_iff ψ.qd ψ.A q0 qs hl).1 hall, hl, fun q hq' => hpos q (by simp [hq'])⟩
  · rintro ⟨q0, qs, hq, h0, hw⟩
    rw [← forall₂_iff_wfChain] at hw
    rw [hq]
    refine ⟨⟨by simp [hw.2.1], (wf_all_iff ψ.qd ψ.A q0 qs hw.2.1).2 hw.1⟩, ?_⟩
    intro q hq'
    rcases List.mem_cons.1 hq' with rfl | h
    · exact h0
    · exact hw.2.2 q h

end Ptn.Ortho

import PtnModel.Proofs.TreeBridge
/-!
# `from_optrees`: statements in terms of the model's `Graph.denFrom` / `Graph.denF`
-/
set_option linter.unusedSectionVars false

namespace Ptn.Og
open List Ptn.Dense

variable {κ : Type} [CommRing κ] [DecidableEq κ]

theorem map_fst_zip_of_length_eq {α β : Type} :
    ∀ (l : List α) (l' : List β), l.length = l'.length → (l.zip l').map (·.1) = l ∧ (l.zip l').map (·.2) = l' := by
  intro l
  induction l with
  | nil => intro l' h; cases l' <;> simp_all
  | cons a l ih =>
    intro l' h
    cases l' with
    | nil => simp at h
    | cons b l' =>
      simp only [length_cons, Nat.add_right_cancel_iff] at h
      obtain ⟨h1, h2⟩ := ih l' h
      simp [h1, h2]

/-- **`_insert_opchain`** (direction 1) adds to the path sum from `nidStart` exactly the chain followed by whatever
`nidEnd` denotes. -/
theorem insertOpchain_sem {g g' : Graph κ} {nidStart nidEnd : Int} {oids : List Int} {coeffs : List κ}
    {qnums : List Int} {U : Int → Prop}
    (h : g.insertOpchain nidStart nidEnd oids coeffs qnums true = .ok g') (sv : SValid g)
    (hs : nidStart ≠ g.term true) (he : nidEnd ≠ g.term false) (hse : nidStart ≠ nidEnd) (hU : UHyps g U nidStart) :
    SValid g' ∧ g'.nidTerminal = g.nidTerminal ∧ ∀ w, g'.denFrom w nidStart =
      g.denFrom w nidStart + chainCoef oids coeffs (fun w' => g'.denFrom w' nidEnd) w := by
  obtain ⟨nidNext, eid0, sv', hterm, hkeys, hedges, hl1, hl2, hS, hE⟩ := insertOpchain_spec h sv hs he hse
  refine ⟨sv', hterm, fun w => ?_⟩
  have t' : g'.term true = g.term true := by simp [Graph.term, hterm]
  rw [denFrom_eq_denE sv', denFrom_eq_denE sv, t', hedges]
  have hnd : (dKeys g.nodes ++ idRange nidNext qnums.length).Nodup := hkeys ▸ sv'.nodesKeys
  have hfresh : ∀ y ∈ idRange nidNext qnums.length, y ∉ dKeys g.nodes :=
    fun y hy hc => (List.disjoint_of_nodup_append hnd) hc hy
  have := chain_attached_sem g.edgeList [] (g.term true) U hU.closed nidStart hs (hU.notr hs) hU.out eid0
    (idRange nidNext qnums.length) nidEnd (oids.zip coeffs)
    (by simp only [length_zip, idRange_length]; omega)
    (by
      rw [nodup_cons]
      exact ⟨fun hc => hfresh _ hc hS, (nodup_append.1 hnd).2.1⟩)
    (fun y hy => ⟨fun hc => hfresh y hy (hU.sub y hc), fun hc => hfresh y hy (hc ▸ sv.term_mem true),
      fun e he hc => hfresh y hy (hc ▸ sv.edge_src_mem he)⟩)
    (by simp) w
  simp only [append_nil] at this
  obtain ⟨m1, m2⟩ := map_fst_zip_of_length_eq oids coeffs (by omega)
  rw [this, m1, m2]
  congr 2
  funext w'
  rw [denFrom_eq_denE sv', t', hedges]

/-- **`_insert_subtree`** adds to the path sum from `nidRoot` exactly the padded path sum of the subtree. -/
theorem insertSubtree_sem {id : Int} {T : TNode κ} {g g' : Graph κ} {r dist : Int} {U : Int → Prop}
    (h : Graph.insertSubtree id T r dist g = .ok g') (sv : SValid g) (hr : r ∈ dKeys g.nodes)
    (hrt : r = g.term true → dist = 0) (ht01 : g.term true ≠ g.term false) (hU : UHyps g U r) :
    SValid g' ∧ g'.nidTerminal = g.nidTerminal ∧ ∀ w, g'.denFrom w r =
      (if r = g.term true then 0 else g.denFrom w r) + symCoeff (T.paths.map (padPath id dist.toNat)) w := by
  obtain ⟨gr, sem⟩ := (subtree_children_spec id).1 T g r dist g' U h sv hr hrt ht01 hU
  refine ⟨gr.sv, gr.term, fun w => ?_⟩
  rw [denFrom_eq_denE gr.sv, denFrom_eq_denE sv, gr.term' true, sem w, (coef_eq_paths id).1 T]

/-- **`from_optrees` before `simplify`** denotes the sum of the padded trees -/
theorem fromOptreesPre_denF {trees : List (OpTree κ)} {L id : Int} {g : Graph κ}
    (h : fromOptreesPre trees L id = .ok g) :
    SValid g ∧ g.nidTerminal = (0, 1) ∧ ∀ w, g.denF w = symCoeff (denTreesRaw trees L id) w := by
  obtain ⟨sv, ht, sem⟩ := fromOptreesPre_spec h
  exact ⟨sv, ht, fun w => by rw [sem w, sum_coef_eq]⟩

/-- what C16 has to provide about `simplify` -/
def SimplifyKeeps (κ : Type) [CommRing κ] [DecidableEq κ] : Prop :=
  ∀ (g g' : Graph κ), SValid g → g.simplify = .ok g' → SValid g' ∧ ∀ w, g'.denF w = g.denF w

theorem fromOptrees_denF_of_simplify (hs : SimplifyKeeps κ) {trees : List (OpTree κ)} {L id : Int} {g : Graph κ}
    (h : fromOptrees trees L id = .ok g) :
    SValid g ∧ ∀ w, g.denF w = symCoeff (denTreesRaw trees L id) w := by
  rw [fromOptrees_eq, bind_ok] at h
  obtain ⟨gp, hp, hsimp⟩ := h
  obtain ⟨sv, _, sem⟩ := fromOptreesPre_denF hp
  obtain ⟨sv', keep⟩ := hs gp g sv hsimp
  exact ⟨sv', fun w => by rw [keep w, sem w]⟩

end Ptn.Og

import PtnModel.Proofs.OgLevels
import PtnModel.Proofs.OgMerge
/-!
# The level clause of `is_consistent` is kept by the rewrites

`LevelFun.transfer`: unique distances carry over along a node map `ρ` under which every BFS step of the new graph
lifts to a BFS step of the old graph at the same level.  Instances: `rename_edge_id`, `rename_node_id`, and both
cases of `merge_edges` (in both BFS directions).
-/
set_option linter.unusedSectionVars false
namespace Ptn.Og
open List Rw

variable {κ : Type} [CommRing κ] [DecidableEq κ]

/-- one BFS step in direction `d`: `c` is the far end of an edge listed in `eids (!d)` of the node `x` -/
def Kid (g : Graph κ) (d : Bool) (x c : Int) : Prop :=
  ∃ n eid e, dGet? g.nodes x = some n ∧ eid ∈ n.eids (!d) ∧ dGet? g.edges eid = some e ∧ e.nid (!d) = c

theorem ReachFrom.cons' {g : Graph κ} {d : Bool} {x c : Int} {k : Nat} {y : Int}
    (hk : Kid g d x c) (hr : ReachFrom g d c k y) : ReachFrom g d x (k + 1) y := by
  obtain ⟨n, eid, e, hn, he, hl, rfl⟩ := hk
  exact ReachFrom.cons hn he hl hr

theorem ReachFrom.snoc' {g : Graph κ} {d : Bool} {a x c : Int} {j : Nat}
    (hr : ReachFrom g d a j x) (hk : Kid g d x c) : ReachFrom g d a (j + 1) c := by
  obtain ⟨n, eid, e, hn, he, hl, rfl⟩ := hk
  exact hr.snoc hn he hl

/-- last step of a non-trivial walk -/
theorem ReachFrom.last {g : Graph κ} {d : Bool} {a : Int} {k : Nat} {y : Int}
    (hr : ReachFrom g d a (k + 1) y) : ∃ x, ReachFrom g d a k x ∧ Kid g d x y := by
  generalize hk : k + 1 = m at hr
  induction hr generalizing k with
  | refl x => omega
  | @cons x n eid e k' y hn he hl hr' ih =>
    have : k = k' := by omega
    subst this
    cases k with
    | zero =>
      have := hr'.zero
      subst this
      exact ⟨x, ReachFrom.refl _, n, eid, e, hn, he, hl, rfl⟩
    | succ k =>
      obtain ⟨z, hz, hkz⟩ := ih rfl
      exact ⟨z, ReachFrom.cons hn he hl hz, hkz⟩

/-- **Transfer of unique distances** along a node map -/
theorem LevelFun.transfer {g g' : Graph κ} {d : Bool} (ρ : Int → Int) (hterm : g'.term d = ρ (g.term d))
    (hkid : ∀ x j, ReachFrom g d (g.term d) j x → ∀ c', Kid g' d (ρ x) c' →
      ∃ x2 c, ReachFrom g d (g.term d) j x2 ∧ c' = ρ c ∧ Kid g d x2 c)
    (hinj : ∀ y1 y2 j1 j2, ReachFrom g d (g.term d) j1 y1 → ReachFrom g d (g.term d) j2 y2 →
      ρ y1 = ρ y2 → j1 = j2) : LevelFun g' d := by
  have lift : ∀ a' k y', ReachFrom g' d a' k y' → ∀ x j, a' = ρ x → ReachFrom g d (g.term d) j x →
      ∃ y, y' = ρ y ∧ ReachFrom g d (g.term d) (j + k) y := by
    intro a' k y' hr
    induction hr with
    | refl z => intro x j hz hx; exact ⟨x, hz, by simpa using hx⟩
    | @cons z n eid e k y hn he hl _ ih =>
      intro x j hz hx
      subst hz
      obtain ⟨x2, c, hx2, hc, hkc⟩ := hkid x j hx (e.nid (!d)) ⟨n, eid, e, hn, he, hl, rfl⟩
      obtain ⟨y0, hy0, hr0⟩ := ih c (j + 1) hc (hx2.snoc' hkc)
      refine ⟨y0, hy0, ?_⟩
      have e1 : j + 1 + k = j + (k + 1) := by omega
      rw [← e1]; exact hr0
  intro y' j j' h1 h2
  rw [hterm] at h1 h2
  obtain ⟨y1, hy1, r1⟩ := lift _ _ _ h1 (g.term d) 0 rfl (ReachFrom.refl _)
  obtain ⟨y2, hy2, r2⟩ := lift _ _ _ h2 (g.term d) 0 rfl (ReachFrom.refl _)
  have := hinj y1 y2 _ _ r1 r2 (by rw [← hy1, ← hy2])
  omega

/-! ## `rename_edge_id` -/

theorem renameEdgeId_edge_lookup {g g' : Graph κ} (h : SValid g) {cur new : Int}
    (hr : g.renameEdgeId cur new = .ok g') :
    ∃ edge, dGet? g.edges cur = some edge ∧ ∀ k, dGet? g'.edges k =
      if k = new then some { edge with eid := new } else if k = cur then none else dGet? g.edges k := by
  obtain ⟨edge, hget, hnew, heid, hedges, hterm⟩ := renameEdgeId_edges hr
  refine ⟨edge, hget, ?_⟩
  intro k
  have hnk : new ∉ dKeys (dErase g.edges cur) := by
    rw [dKeys_dErase]; exact fun hc => hnew (mem_of_mem_erase hc)
  rw [hedges, dGet?_append_single _ _ _ _ hnk, dGet?_dErase _ h.edgesKeys]

theorem LevelFun.renameEdgeId {g g' : Graph κ} (h : SValid g) {cur new : Int}
    (hr : g.renameEdgeId cur new = .ok g') (d : Bool) (hL : LevelFun g d) : LevelFun g' d := by
  obtain ⟨hkeys, hNL⟩ := renameEdgeId_nodes h hr
  obtain ⟨edge, hget, hEL⟩ := renameEdgeId_edge_lookup h hr
  obtain ⟨_, _, hnew, _, _, hterm⟩ := renameEdgeId_edges hr
  have hmem := mem_of_dGet?_eq_some hget
  apply LevelFun.transfer (g := g) id
  · cases d <;> simp [Graph.term, hterm]
  · intro x j hx c' hk
    refine ⟨x, c', hx, rfl, ?_⟩
    obtain ⟨n', eid, e', hn', he, hl, hc⟩ := hk
    simp only [id] at hn'
    rw [hNL] at hn'
    cases hn : dGet? g.nodes x with
    | none => rw [hn] at hn'; cases hn'
    | some n =>
      rw [hn] at hn'
      simp only [Option.map_some, Option.some.injEq] at hn'
      subst hn'
      rw [renNode_eids] at he
      have hmn := mem_of_dGet?_eq_some hn
      rcases mem_renL (h.eidsNodup x n hmn (!d)) he with ⟨rfl, hcur⟩ | ⟨hin, hne⟩
      · rw [hEL] at hl
        simp only [if_true, Option.some.injEq] at hl
        subst hl
        exact ⟨n, cur, edge, hn, hcur, hget, by rw [← hc]; cases d <;> rfl⟩
      · rw [hEL] at hl
        have hne' : eid ≠ eid ∨ True := Or.inr trivial
        have : ¬ eid = new := by
          intro q; subst q
          obtain ⟨e0, he0, _⟩ := h.nodeEdge x n hmn (!d) eid hin
          exact hnew (mem_map.2 ⟨_, he0, rfl⟩)
        simp only [this, if_false, hne] at hl
        exact ⟨n, eid, e', hn, hin, hl, hc⟩
  · intro y1 y2 j1 j2 r1 r2 hy
    simp only [id] at hy
    subst hy
    exact hL _ _ _ r1 r2


/-! ## `rename_node_id` -/

theorem LevelFun.renameNodeId {g g' : Graph κ} (h : SValid g) {cur new : Int}
    (hr : g.renameNodeId cur new = .ok g') (d : Bool) (hL : LevelFun g d) : LevelFun g' d := by
  obtain ⟨node, hget, hnew, hnodes, hedges, hterm⟩ := renameNodeId_spec h hr
  have hnk : new ∉ dKeys (dErase g.nodes cur) := by
    rw [dKeys_dErase]; exact fun hc => hnew (mem_of_mem_erase hc)
  have hNL : ∀ k, dGet? g'.nodes k =
      if k = new then some { node with nid := new } else if k = cur then none else dGet? g.nodes k := by
    intro k
    rw [hnodes, dGet?_append_single _ _ _ _ hnk, dGet?_dErase _ h.nodesKeys]
  have hreach_ne : ∀ {x j}, ReachFrom g d (g.term d) j x → x ≠ new := by
    intro x j hx hc
    subst hc
    exact hnew (reach_mem_keys h (term_mem_keys h d) hx)
  apply LevelFun.transfer (g := g) (rho cur new)
  · cases d <;> simp [Graph.term, hterm]
  · intro x j hx c' hk
    obtain ⟨n', eid, e', hn', he, hl, hc⟩ := hk
    have hxn := hreach_ne hx
    -- the node of g under x has the same lists
    obtain ⟨n, hn, hsame⟩ : ∃ n, dGet? g.nodes x = some n ∧ ∀ d', n'.eids d' = n.eids d' := by
      rw [hNL] at hn'
      by_cases hxc : x = cur
      · subst hxc
        simp only [rho, if_true, Option.some.injEq] at hn'
        subst hn'
        exact ⟨node, hget, fun d' => by cases d' <;> rfl⟩
      · have : rho cur new x = x := by simp [rho, hxc]
        rw [this] at hn'
        simp only [hxn, if_false, hxc] at hn'
        exact ⟨n', hn', fun _ => rfl⟩
    rw [hsame] at he
    rw [hedges, dGet?_map_snd] at hl
    cases hle : dGet? g.edges eid with
    | none => rw [hle] at hl; cases hl
    | some e =>
      rw [hle] at hl
      simp only [Option.map_some, Option.some.injEq] at hl
      subst hl
      refine ⟨x, e.nid (!d), hx, ?_, n, eid, e, hn, he, hle, rfl⟩
      rw [← hc, renE_nid]
  · intro y1 y2 j1 j2 r1 r2 hy
    have := (rho_inj (hreach_ne r1) (hreach_ne r2)).1 hy
    subst this
    exact hL _ _ _ r1 r2

/-! ## `merge_edges`, parallel case -/

theorem LevelFun.mergeEdges_par {g g' : Graph κ} (h : SValid g) {eid1 eid2 : Int} {d : Bool}
    (hr : g.mergeEdges eid1 eid2 d = .ok g') {edge1 edge2 : Edge κ}
    (h1 : dGet? g.edges eid1 = some edge1) (h2 : dGet? g.edges eid2 = some edge2)
    (hpar : edge1.nid (!d) = edge2.nid (!d)) (hne : eid1 ≠ eid2) (d' : Bool) (hL : LevelFun g d') :
    LevelFun g' d' := by
  obtain ⟨hnids, hedges, hterm, hkeys, hNL⟩ := mergeEdges_par_spec h hr h1 h2 hpar hne
  have hEL : ∀ k, dGet? g'.edges k = if k = eid1 then some (addedEdge edge1 edge2)
      else if k = eid2 then none else dGet? g.edges k := by
    intro k; rw [hedges]; exact par_edges_lookup h _ h1 hne k
  apply LevelFun.transfer (g := g) id
  · cases d' <;> simp [Graph.term, hterm]
  · intro x j hx c' hk
    refine ⟨x, c', hx, rfl, ?_⟩
    obtain ⟨n', eid, e', hn', he, hl, hc⟩ := hk
    simp only [id] at hn'
    rw [hNL] at hn'
    cases hn : dGet? g.nodes x with
    | none => rw [hn] at hn'; cases hn'
    | some n =>
      rw [hn] at hn'
      simp only [Option.map_some, Option.some.injEq] at hn'
      subst hn'
      rw [remNode_eids] at he
      have hin := mem_of_mem_erase he
      rw [hEL] at hl
      by_cases hk1 : eid = eid1
      · subst hk1
        simp only [if_true, Option.some.injEq] at hl
        subst hl
        exact ⟨n, eid, edge1, hn, hin, h1, by rw [← hc]; cases d' <;> rfl⟩
      · simp only [hk1, if_false] at hl
        by_cases hk2 : eid = eid2
        · simp [hk2] at hl
        · simp only [hk2, if_false] at hl
          exact ⟨n, eid, e', hn, hin, hl, hc⟩
  · intro y1 y2 j1 j2 r1 r2 hy
    simp only [id] at hy
    subst hy
    exact hL _ _ _ r1 r2


/-! ## `merge_edges`, node-merging case -/

/-- the node map of a node merge -/
def rhoM (u2 u1 : Int) (x : Int) : Int := if x = u2 then u1 else x

section NodeMerge
variable {g g' : Graph κ} {eid1 eid2 : Int} {d : Bool} {edge1 edge2 : Edge κ}

/-- facts about a successful node merge used for both BFS directions -/
structure NodeMergeFacts (g g' : Graph κ) (eid1 eid2 : Int) (d : Bool) (edge1 edge2 : Edge κ) (N1 N2 : Node) : Prop where
  hv : SValid g
  hm1 : (eid1, edge1) ∈ g.edges
  hm2 : (eid2, edge2) ∈ g.edges
  hmN1 : (edge1.nid (!d), N1) ∈ g.nodes
  hmN2 : (edge2.nid (!d), N2) ∈ g.nodes
  hbase : edge1.nid d = edge2.nid d
  hnp : edge1.nid (!d) ≠ edge2.nid (!d)
  hl1 : (N1.eids d).length = 1
  hl2 : (N2.eids d).length = 1
  hnt1 : edge2.nid (!d) ≠ g.nidTerminal.1
  hnt2 : edge2.nid (!d) ≠ g.nidTerminal.2
  hterm : g'.nidTerminal = g.nidTerminal
  hEL : ∀ k, dGet? g'.edges k = if k = eid2 then none
      else (dGet? g.edges k).map (redirE d (edge2.nid (!d)) (edge1.nid (!d)))
  hNL : ∀ k, dGet? g'.nodes k = if k = edge2.nid (!d) then none
      else (dGet? g.nodes k).map (mergeNode d eid2 (edge1.nid (!d)) ((N2.eids (!d)).erase eid2) k)

theorem nodeMergeFacts (h : SValid g) (hr : g.mergeEdges eid1 eid2 d = .ok g')
    (h1 : dGet? g.edges eid1 = some edge1) (h2 : dGet? g.edges eid2 = some edge2)
    (hnp : edge1.nid (!d) ≠ edge2.nid (!d)) : ∃ N1 N2, NodeMergeFacts g g' eid1 eid2 d edge1 edge2 N1 N2 := by
  obtain ⟨N1, N2, hN1, hN2, hbase, hop, hnt1, hnt2, hl1, hl2, hq, hacq, hterm, hedges, hkeys, hL⟩ :=
    mergeEdges_nodes_spec h hr h1 h2 hnp
  refine ⟨N1, N2, h, mem_of_dGet?_eq_some h1, mem_of_dGet?_eq_some h2, mem_of_dGet?_eq_some hN1,
    mem_of_dGet?_eq_some hN2, hbase, hnp, hl1, hl2, hnt1, hnt2, hterm, ?_, hL⟩
  intro k
  rw [hedges, dGet?_map_snd, dGet?_dErase _ h.edgesKeys]
  by_cases hk : k = eid2 <;> simp [hk]

variable {N1 N2 : Node}

/-- the only edge leaving `u1` in direction `d` is `eid1` -/
theorem NodeMergeFacts.only1 (F : NodeMergeFacts g g' eid1 eid2 d edge1 edge2 N1 N2) {eid : Int} {e : Edge κ}
    (he : (eid, e) ∈ g.edges) (hk : e.nid (!d) = edge1.nid (!d)) : eid = eid1 :=
  F.hv.single_eid F.hmN1 F.hl1 F.hm1 rfl he hk

theorem NodeMergeFacts.only2 (F : NodeMergeFacts g g' eid1 eid2 d edge1 edge2 N1 N2) {eid : Int} {e : Edge κ}
    (he : (eid, e) ∈ g.edges) (hk : e.nid (!d) = edge2.nid (!d)) : eid = eid2 :=
  F.hv.single_eid F.hmN2 F.hl2 F.hm2 rfl he hk

/-- in the BFS of direction `d` both upstream nodes are children of the common base node -/
theorem NodeMergeFacts.kid_base (F : NodeMergeFacts g g' eid1 eid2 d edge1 edge2 N1 N2) :
    Kid g d (edge2.nid d) (edge1.nid (!d)) ∧ Kid g d (edge2.nid d) (edge2.nid (!d)) := by
  obtain ⟨n, hn, hk⟩ := F.hv.edgeNode _ _ F.hm1 d
  obtain ⟨n', hn', hk'⟩ := F.hv.edgeNode _ _ F.hm2 d
  rw [F.hbase] at hn
  have := F.hv.node_unique hn hn'
  subst this
  have hl := dGet?_eq_some_of_mem F.hv.nodesKeys hn'
  exact ⟨⟨n, eid1, edge1, hl, hk, dGet?_eq_some_of_mem F.hv.edgesKeys F.hm1, rfl⟩,
         ⟨n, eid2, edge2, hl, hk', dGet?_eq_some_of_mem F.hv.edgesKeys F.hm2, rfl⟩⟩

/-- twins are reached at the same levels in the BFS of direction `d` -/
theorem NodeMergeFacts.twin (F : NodeMergeFacts g g' eid1 eid2 d edge1 edge2 N1 N2) {j : Nat} :
    ReachFrom g d (g.term d) j (edge1.nid (!d)) ↔ ReachFrom g d (g.term d) j (edge2.nid (!d)) := by
  have aux : ∀ {eidA : Int} {edgeA : Edge κ} {u : Int}, (eidA, edgeA) ∈ g.edges → edgeA.nid (!d) = u →
      (∀ {eid e}, (eid, e) ∈ g.edges → e.nid (!d) = u → eid = eidA) → edgeA.nid d = edge2.nid d →
      ∀ {u'}, Kid g d (edge2.nid d) u' → ReachFrom g d (g.term d) j u → ReachFrom g d (g.term d) j u' := by
    intro eidA edgeA u hmA huA honly hbA u' hkid hr
    have hne : u ≠ g.term d := by rw [← huA]; exact F.hv.ne_term_of_edge hmA d
    cases j with
    | zero => exact absurd hr.zero hne
    | succ k =>
      obtain ⟨x, hx, n, eid, e, hn, he, hl, hc⟩ := hr.last
      have hme := mem_of_dGet?_eq_some hl
      have := honly hme hc
      subst this
      have := F.hv.edge_unique hme hmA
      subst this
      obtain ⟨e0, he0, hk0⟩ := F.hv.nodeEdge x n (mem_of_dGet?_eq_some hn) (!d) eid he
      have := F.hv.edge_unique he0 hme
      subst this
      simp only [Bool.not_not] at hk0
      rw [← hk0, hbA] at hx
      exact hx.snoc' hkid
  constructor
  · exact aux F.hm1 rfl (fun he hk => F.only1 he hk) F.hbase F.kid_base.2
  · exact aux F.hm2 rfl (fun he hk => F.only2 he hk) rfl F.kid_base.1

theorem rhoM_ne (u2 u1 x : Int) (h : u1 ≠ u2) : rhoM u2 u1 x ≠ u2 := by
  unfold rhoM; split
  · exact h
  · assumption

/-- levels of the BFS in the merge direction -/
theorem LevelFun.mergeEdges_nodes_same (F : NodeMergeFacts g g' eid1 eid2 d edge1 edge2 N1 N2)
    (hL : LevelFun g d) : LevelFun g' d := by
  have h := F.hv
  apply LevelFun.transfer (g := g) (rhoM (edge2.nid (!d)) (edge1.nid (!d)))
  · have : g.term d ≠ (edge2.nid (!d)) := fun hc => h.ne_term_of_edge F.hm2 d hc.symm
    have e : g'.term d = g.term d := by cases d <;> simp [Graph.term, F.hterm]
    rw [e]; simp [rhoM, this]
  · intro x j hx c' hk
    obtain ⟨n', eid, e', hn', he, hl, hc⟩ := hk
    have hρ := rhoM_ne (edge2.nid (!d)) (edge1.nid (!d)) x F.hnp
    rw [F.hNL] at hn'
    simp only [hρ, if_false] at hn'
    cases hn : dGet? g.nodes (rhoM (edge2.nid (!d)) (edge1.nid (!d)) x) with
    | none => rw [hn] at hn'; cases hn'
    | some n =>
      rw [hn] at hn'
      simp only [Option.map_some, Option.some.injEq] at hn'
      subst hn'
      rw [mergeNode_eids_other] at he
      rw [F.hEL] at hl
      by_cases hk2 : eid = eid2
      · simp [hk2] at hl
      · simp only [hk2, if_false] at hl
        cases hle : dGet? g.edges eid with
        | none => rw [hle] at hl; cases hl
        | some e =>
          rw [hle] at hl
          simp only [Option.map_some, Option.some.injEq] at hl
          subst hl
          rw [redirE_nid_other] at hc
          have hme := mem_of_dGet?_eq_some hle
          have hcne : e.nid (!d) ≠ (edge2.nid (!d)) := fun q => hk2 (F.only2 hme q)
          have hρc : c' = rhoM (edge2.nid (!d)) (edge1.nid (!d)) (e.nid (!d)) := by rw [← hc]; simp [rhoM, hcne]
          -- reachability of the (possibly different) preimage
          have hreach1 : ReachFrom g d (g.term d) j (edge1.nid (!d)) → ReachFrom g d (g.term d) j (edge2.nid (!d)) := F.twin.1
          have hreach2 : ReachFrom g d (g.term d) j (edge2.nid (!d)) → ReachFrom g d (g.term d) j (edge1.nid (!d)) := F.twin.2
          have hxρ : ReachFrom g d (g.term d) j (rhoM (edge2.nid (!d)) (edge1.nid (!d)) x) := by
            unfold rhoM; split
            · rename_i q; rw [q] at hx; exact hreach2 hx
            · exact hx
          rcases mem_append.1 he with he | he
          · exact ⟨rhoM (edge2.nid (!d)) (edge1.nid (!d)) x, e.nid (!d), hxρ, hρc, n, eid, e, hn, mem_of_mem_erase he, hle, rfl⟩
          · by_cases hq : rhoM (edge2.nid (!d)) (edge1.nid (!d)) x = (edge1.nid (!d))
            · simp only [hq, if_true] at he
              have hx2 : ReachFrom g d (g.term d) j (edge2.nid (!d)) := by
                by_cases hxu : x = (edge2.nid (!d))
                · rw [← hxu]; exact hx
                · have : rhoM (edge2.nid (!d)) (edge1.nid (!d)) x = x := by simp [rhoM, hxu]
                  rw [this] at hq; rw [hq] at hx; exact hreach1 hx
              exact ⟨(edge2.nid (!d)), e.nid (!d), hx2, hρc, N2, eid, e, dGet?_eq_some_of_mem h.nodesKeys F.hmN2,
                mem_of_mem_erase he, hle, rfl⟩
            · simp [hq] at he
  · intro y1 y2 j1 j2 r1 r2 hy
    by_cases h12 : y1 = y2
    · subst h12; exact hL _ _ _ r1 r2
    · unfold rhoM at hy
      by_cases q1 : y1 = (edge2.nid (!d)) <;> by_cases q2 : y2 = (edge2.nid (!d))
      · exact absurd (q1.trans q2.symm) h12
      · simp only [q1, if_true, q2, if_false] at hy
        rw [q1] at r1; rw [← hy] at r2
        exact hL _ _ _ (F.twin.2 r1) r2
      · simp only [q1, if_false, q2, if_true] at hy
        rw [q2] at r2; rw [hy] at r1
        exact hL _ _ _ r1 (F.twin.2 r2)
      · simp only [q1, q2, if_false] at hy
        exact absurd hy h12

/-- levels of the BFS against the merge direction -/
theorem LevelFun.mergeEdges_nodes_other (F : NodeMergeFacts g g' eid1 eid2 d edge1 edge2 N1 N2)
    (hL : LevelFun g (!d)) : LevelFun g' (!d) := by
  have h := F.hv
  -- both upstream nodes have the base node as their only child in this BFS
  have kid1 : Kid g (!d) (edge1.nid (!d)) (edge1.nid d) :=
    ⟨N1, eid1, edge1, dGet?_eq_some_of_mem h.nodesKeys F.hmN1,
      by simpa using (h.mem_eids_iff F.hm1 F.hmN1 d).2 rfl,
      dGet?_eq_some_of_mem h.edgesKeys F.hm1, by simp⟩
  have kid2 : Kid g (!d) (edge2.nid (!d)) (edge2.nid d) :=
    ⟨N2, eid2, edge2, dGet?_eq_some_of_mem h.nodesKeys F.hmN2,
      by simpa using (h.mem_eids_iff F.hm2 F.hmN2 d).2 rfl,
      dGet?_eq_some_of_mem h.edgesKeys F.hm2, by simp⟩
  apply LevelFun.transfer (g := g) (rhoM (edge2.nid (!d)) (edge1.nid (!d)))
  · have hne : g.term (!d) ≠ (edge2.nid (!d)) := by
      cases d
      · simp only [Bool.not_false, Graph.term, if_true]; exact fun hc => F.hnt2 hc.symm
      · simp only [Bool.not_true, Graph.term, Bool.false_eq_true, if_false]; exact fun hc => F.hnt1 hc.symm
    have e : g'.term (!d) = g.term (!d) := by cases d <;> simp [Graph.term, F.hterm]
    rw [e]; simp [rhoM, hne]
  · intro x j hx c' hk
    obtain ⟨n', eid, e', hn', he, hl, hc⟩ := hk
    simp only [Bool.not_not] at he hc
    have hρ := rhoM_ne (edge2.nid (!d)) (edge1.nid (!d)) x F.hnp
    rw [F.hNL] at hn'
    simp only [hρ, if_false] at hn'
    cases hn : dGet? g.nodes (rhoM (edge2.nid (!d)) (edge1.nid (!d)) x) with
    | none => rw [hn] at hn'; cases hn'
    | some n =>
      rw [hn] at hn'
      simp only [Option.map_some, Option.some.injEq] at hn'
      subst hn'
      rw [mergeNode_eids_same] at he
      rw [F.hEL] at hl
      by_cases hk2 : eid = eid2
      · simp [hk2] at hl
      · simp only [hk2, if_false] at hl
        cases hle : dGet? g.edges eid with
        | none => rw [hle] at hl; cases hl
        | some e =>
          rw [hle] at hl
          simp only [Option.map_some, Option.some.injEq] at hl
          subst hl
          rw [redirE_nid] at hc
          have hρc : c' = rhoM (edge2.nid (!d)) (edge1.nid (!d)) (e.nid d) := by rw [← hc]; rfl
          by_cases hxu : x = (edge2.nid (!d))
          · -- the merged node seen from the absorbed one: its only child is the base node
            have hq : rhoM (edge2.nid (!d)) (edge1.nid (!d)) x = (edge1.nid (!d)) := by simp [rhoM, hxu]
            rw [hq] at hn
            have hmn := mem_of_dGet?_eq_some hn
            have := h.node_unique hmn F.hmN1
            subst this
            have hme := mem_of_dGet?_eq_some hle
            obtain ⟨e0, he0, hk0⟩ := h.nodeEdge _ _ hmn d eid he
            have := h.edge_unique he0 hme
            subst this
            have := F.only1 hme hk0
            subst this
            have := h.edge_unique hme F.hm1
            subst this
            refine ⟨(edge2.nid (!d)), edge2.nid d, by rw [← hxu]; exact hx, ?_, kid2⟩
            rw [hρc, F.hbase]
          · have hq : rhoM (edge2.nid (!d)) (edge1.nid (!d)) x = x := by simp [rhoM, hxu]
            rw [hq] at hn
            exact ⟨x, e.nid d, hx, hρc, n, eid, e, hn, by simpa using he, hle, by simp⟩
  · intro y1 y2 j1 j2 r1 r2 hy
    by_cases h12 : y1 = y2
    · subst h12; exact hL _ _ _ r1 r2
    · have key : ∀ {a b : Nat}, ReachFrom g (!d) (g.term (!d)) a (edge1.nid (!d)) → ReachFrom g (!d) (g.term (!d)) b (edge2.nid (!d)) → a = b := by
        intro a b ra rb
        have s1 := ra.snoc' kid1
        have s2 := rb.snoc' kid2
        rw [F.hbase] at s1
        have := hL _ _ _ s1 s2
        omega
      unfold rhoM at hy
      by_cases q1 : y1 = (edge2.nid (!d)) <;> by_cases q2 : y2 = (edge2.nid (!d))
      · exact absurd (q1.trans q2.symm) h12
      · simp only [q1, if_true, q2, if_false] at hy
        rw [q1] at r1; rw [← hy] at r2
        exact (key r2 r1).symm
      · simp only [q1, if_false, q2, if_true] at hy
        rw [q2] at r2; rw [hy] at r1
        exact key r1 r2
      · simp only [q1, q2, if_false] at hy
        exact absurd hy h12

end NodeMerge


/-! ## validity (all clauses of `is_consistent`) is kept -/

theorem Valid.renameEdgeId {g g' : Graph κ} (h : Valid g) {cur new : Int}
    (hr : g.renameEdgeId cur new = .ok g') : Valid g' := by
  rw [valid_iff_levelFun] at h ⊢
  exact ⟨h.1.renameEdgeId hr, LevelFun.renameEdgeId h.1 hr false h.2.1, LevelFun.renameEdgeId h.1 hr true h.2.2⟩

theorem Valid.renameNodeId {g g' : Graph κ} (h : Valid g) {cur new : Int}
    (hr : g.renameNodeId cur new = .ok g') : Valid g' := by
  rw [valid_iff_levelFun] at h ⊢
  exact ⟨h.1.renameNodeId hr, LevelFun.renameNodeId h.1 hr false h.2.1, LevelFun.renameNodeId h.1 hr true h.2.2⟩

theorem LevelFun.mergeEdges {g g' : Graph κ} (h : SValid g) {eid1 eid2 : Int} {d : Bool} (hne : eid1 ≠ eid2)
    (hr : g.mergeEdges eid1 eid2 d = .ok g') (hL0 : LevelFun g false) (hL1 : LevelFun g true) (d' : Bool) :
    LevelFun g' d' := by
  obtain ⟨edge1, edge2, h1, h2⟩ := mergeEdges_lookups hr
  have hLd : ∀ d'', LevelFun g d'' := fun d'' => by cases d'' <;> assumption
  by_cases hpar : edge1.nid (!d) = edge2.nid (!d)
  · exact LevelFun.mergeEdges_par h hr h1 h2 hpar hne d' (hLd d')
  · obtain ⟨N1, N2, F⟩ := nodeMergeFacts h hr h1 h2 hpar
    by_cases hd : d' = d
    · subst hd; exact LevelFun.mergeEdges_nodes_same F (hLd _)
    · have : d' = !d := by cases d <;> cases d' <;> simp_all
      subst this
      exact LevelFun.mergeEdges_nodes_other F (hLd _)

theorem Valid.mergeEdges {g g' : Graph κ} (h : Valid g) {eid1 eid2 : Int} {d : Bool} (hne : eid1 ≠ eid2)
    (hr : g.mergeEdges eid1 eid2 d = .ok g') : Valid g' := by
  rw [valid_iff_levelFun] at h ⊢
  exact ⟨(mergeEdges_sem h.1 hne hr).1, LevelFun.mergeEdges h.1 hne hr h.2.1 h.2.2 false,
    LevelFun.mergeEdges h.1 hne hr h.2.1 h.2.2 true⟩

end Ptn.Og

import PtnModel.Proofs.ChainBfs
import PtnModel.Proofs.ChainStar
import PtnModel.Proofs.ChainDen
import PtnModel.Proofs.ChainFinal
/-!
# The final graph of `from_opchains` passes `is_consistent` and has the requested length

`isConsistent_intro`: the four clauses of `is_consistent` as sufficient conditions.
`final_consistent`: a graph satisfying `GStar` with a layer function, after removing the dummy node and declaring
a node of the last layer the end node, is consistent.
`final_length`: its `length` is the number of layers.
-/
set_option linter.unusedSectionVars false

namespace Ptn.Ch
open Ptn Ptn.Og List

variable {κ : Type} [CommRing κ] [DecidableEq κ]

theorem isConsistent_intro (g : Graph κ)
    (hn : ∀ k n, (k, n) ∈ g.nodes → k = n.nid ∧
      ∀ d, ∀ eid ∈ n.eids d, ∃ e, dGet? g.edges eid = some e ∧ e.nid (!d) = n.nid)
    (he : ∀ k e, (k, e) ∈ g.edges → k = e.eid ∧
      (∀ d, ∃ n, dGet? g.nodes (e.nid d) = some n ∧ e.eid ∈ n.eids (!d)) ∧ e.opics = sortOpics e.opics)
    (ht : ∀ d, ∃ n, dGet? g.nodes (g.term d) = some n ∧ n.eids d = [])
    (hb : ∀ d, g.levelBfs d g.bfsFuel [(g.term d, 0)] [] = true) :
    g.isConsistent = true := by
  unfold Graph.isConsistent
  simp only [Bool.and_eq_true, List.all_eq_true]
  refine ⟨⟨⟨?_, ?_⟩, ?_⟩, ?_⟩
  · rintro ⟨k, n⟩ hkn
    obtain ⟨h1, h2⟩ := hn k n hkn
    refine ⟨by simpa using h1, ?_⟩
    intro d _ eid heid
    obtain ⟨e, he', hx⟩ := h2 d eid heid
    simp only [he']
    simpa using hx
  · rintro ⟨k, e⟩ hke
    obtain ⟨h1, h2, h3⟩ := he k e hke
    refine ⟨⟨by simpa using h1, ?_⟩, by simpa using h3⟩
    intro d _
    obtain ⟨n, hn1, hn2⟩ := h2 d
    simp only [hn1]
    simpa using hn2
  · intro d _
    obtain ⟨n, hn1, hn2⟩ := ht d
    simp only [hn1, hn2]
    rfl
  · intro d _
    exact hb d

/-- a graph under construction together with a layer function -/
structure Layered (g : Graph κ) (nn en : Int) (lay : Int → Nat) (H : Nat) : Prop where
  star : GStar g nn en
  lay0 : lay 0 = 0
  layE : ∀ e ∈ edgeList g, lay e.nids.2 = lay e.nids.1 + 1
  layN : ∀ x, 1 ≤ x → x < nn → 1 ≤ lay x ∧ lay x ≤ H
  created : (H : Int) + 1 ≤ nn

/-- remove the dummy node and make `t` the end node -/
def finalGraph (g : Graph κ) (t : Int) : Graph κ :=
  { nodes := dErase g.nodes (-1), edges := g.edges, nidTerminal := (0, t) }

theorem GStar.out_edge {g : Graph κ} {nn en : Int} (h : GStar g nn en) {k eid : Int} (he : eid ∈ outIds g k) :
    ∃ e, dGet? g.edges eid = some e ∧ e.nids.1 = k ∧ e ∈ edgeList g := by
  unfold outIds edgeList at he
  obtain ⟨e, he1, rfl⟩ := mem_map.1 he
  obtain ⟨he2, he3⟩ := mem_filter.1 he1
  obtain ⟨p, hp, rfl⟩ := mem_map.1 he2
  refine ⟨p.2, ?_, by simpa using he3, mem_map_of_mem hp⟩
  rw [h.keyEid p hp]
  exact dGet?_of_mem h.edgesKeys hp

theorem GStar.in_edge {g : Graph κ} {nn en : Int} (h : GStar g nn en) {k eid : Int} (he : eid ∈ inIds g k) :
    ∃ e, dGet? g.edges eid = some e ∧ e.nids.2 = k ∧ e ∈ edgeList g := by
  unfold inIds edgeList at he
  obtain ⟨e, he1, rfl⟩ := mem_map.1 he
  obtain ⟨he2, he3⟩ := mem_filter.1 he1
  obtain ⟨p, hp, rfl⟩ := mem_map.1 he2
  refine ⟨p.2, ?_, by simpa using he3, mem_map_of_mem hp⟩
  rw [h.keyEid p hp]
  exact dGet?_of_mem h.edgesKeys hp

theorem outIds_length_le (g : Graph κ) (k : Int) : (outIds g k).length ≤ g.edges.length := by
  unfold outIds edgeList
  rw [length_map]
  exact (length_filter_le _ _).trans (by rw [length_map])

theorem inIds_length_le (g : Graph κ) (k : Int) : (inIds g k).length ≤ g.edges.length := by
  unfold inIds edgeList
  rw [length_map]
  exact (length_filter_le _ _).trans (by rw [length_map])

theorem length_dErase {β : Type} (d : List (Int × β)) (k : Int) (h : dHas d k = true) :
    (dErase d k).length + 1 = d.length := by
  induction d with
  | nil => simp [dHas] at h
  | cons p rest ih =>
    obtain ⟨k', v'⟩ := p
    unfold dErase
    by_cases hk : k' = k
    · subst hk; simp
    · have hb : (k' == k) = false := by simpa using hk
      simp only [hb, Bool.false_eq_true, if_false, length_cons]
      have : dHas rest k = true := by
        have hb' : (k == k') = false := by simpa using (fun h => hk h.symm)
        simpa [dHas, lookup_cons, hb'] using h
      rw [ih this]

section
variable {g : Graph κ} {nn en : Int} {lay : Int → Nat} {H : Nat}

theorem Layered.node_final (h : Layered g nn en lay H) (t : Int) {k : Int} (hk : k ≠ -1) :
    dGet? (finalGraph g t).nodes k = dGet? g.nodes k := by
  simp only [finalGraph, dGet?]
  exact lookup_dErase_ne _ _ _ hk

theorem Layered.node_of_final (h : Layered g nn en lay H) (t : Int) {k : Int} {n : Node}
    (hkn : dGet? (finalGraph g t).nodes k = some n) :
    dGet? g.nodes k = some n ∧ 0 ≤ k ∧ k < nn := by
  have hmem : (k, n) ∈ g.nodes := mem_of_mem_dErase _ _ _ (mem_of_dGet? hkn)
  have hg : dGet? g.nodes k = some n := dGet?_of_mem h.star.nodesKeys hmem
  have hk : k ≠ -1 := by
    intro hk
    subst hk
    -- the only entry with key `-1` was removed
    have : (-1 : Int) ∈ dKeys (dErase g.nodes (-1)) := mem_map_of_mem (f := (·.1)) (mem_of_dGet? hkn)
    exact absurd this (not_mem_dKeys_dErase _ _ h.star.nodesKeys)
  have : dHas g.nodes k = true := by rw [dHas_eq_isSome, hg]; rfl
  rcases (h.star.nodesMem k).1 this with h1 | h1
  · exact absurd h1 hk
  · exact ⟨hg, h1⟩
where
  not_mem_dKeys_dErase {β : Type} (d : List (Int × β)) (k : Int) (hn : (dKeys d).Nodup) : k ∉ dKeys (dErase d k) := by
    induction d with
    | nil => simp [dErase, dKeys]
    | cons p rest ih =>
      obtain ⟨k', v'⟩ := p
      simp only [dKeys, map_cons, nodup_cons] at hn
      unfold dErase
      by_cases hk : k' = k
      · subst hk
        simp only [beq_self_eq_true, if_true]
        exact hn.1
      · have hb : (k' == k) = false := by simpa using hk
        simp only [hb, Bool.false_eq_true, if_false, dKeys, map_cons, mem_cons, not_or]
        exact ⟨fun h => hk h.symm, ih hn.2⟩

theorem Layered.lay_le (h : Layered g nn en lay H) {x : Int} (h0 : 0 ≤ x) (h1 : x < nn) : lay x ≤ H := by
  by_cases hx : 1 ≤ x
  · exact (h.layN x hx h1).2
  · have : x = 0 := by omega
    rw [this, h.lay0]; omega

/-- **Consistency of the result.** -/
theorem final_consistent (h : Layered g nn en lay H) (t : Int) (ht0 : 0 ≤ t) (htn : t < nn) (hlt : lay t = H) :
    (finalGraph g t).isConsistent = true := by
  have hel : edgeList (finalGraph g t) = edgeList g := rfl
  have hedges : (finalGraph g t).edges = g.edges := rfl
  have hnode : ∀ k, 0 ≤ k → k < nn → ∃ n, dGet? (finalGraph g t).nodes k = some n ∧ n.nid = k ∧
      n.eidsOut = outIds g k ∧ n.eidsIn = inIds g k := by
    intro k h0 h1
    obtain ⟨n, hn⟩ := h.star.node_exists (k := k) ⟨h0, h1⟩
    exact ⟨n, by rw [h.node_final t (by omega)]; exact hn, h.star.nodeOK k n hn⟩
  have hlen : H ≤ (finalGraph g t).nodes.length + 1 := by
    have h1 := length_dErase g.nodes (-1) ((h.star.nodesMem (-1)).2 (Or.inl rfl))
    have h2 := h.star.nodesLen
    have h3 := h.created
    simp only [finalGraph]
    omega
  have houtT : outIds g t = [] := by
    unfold outIds
    rw [map_eq_nil_iff, filter_eq_nil_iff]
    intro e he
    simp only [decide_eq_true_eq]
    intro he1
    have := h.layE e he
    have hok := h.star.edgeOK e he
    have := h.lay_le (x := e.nids.2) (by omega) hok.2.2.1
    rw [he1, hlt] at *
    omega
  apply isConsistent_intro
  · intro k n hkn
    have hkn' : dGet? (finalGraph g t).nodes k = some n := by
      have hmem : (k, n) ∈ g.nodes := mem_of_mem_dErase _ _ _ hkn
      have hk : k ≠ -1 := by
        intro hk; subst hk
        exact Layered.node_of_final.not_mem_dKeys_dErase _ _ h.star.nodesKeys (mem_map_of_mem (f := (·.1)) hkn)
      rw [h.node_final t hk]
      exact dGet?_of_mem h.star.nodesKeys hmem
    obtain ⟨hg, _, _⟩ := h.node_of_final t hkn'
    obtain ⟨e1, e2, e3⟩ := h.star.nodeOK k n hg
    refine ⟨e1.symm, ?_⟩
    intro d eid heid
    cases d with
    | true =>
      simp only [Node.eids, if_true, e2] at heid
      obtain ⟨e, he1, he2, _⟩ := h.star.out_edge heid
      exact ⟨e, he1, by simp [Edge.nid, he2, e1]⟩
    | false =>
      simp only [Node.eids, Bool.false_eq_true, if_false, e3] at heid
      obtain ⟨e, he1, he2, _⟩ := h.star.in_edge heid
      exact ⟨e, he1, by simp [Edge.nid, he2, e1]⟩
  · intro k e hke
    have hke' : (k, e) ∈ g.edges := hke
    have hmem : e ∈ edgeList g := mem_map_of_mem (f := (·.2)) hke'
    obtain ⟨h1, h2, h3, o, c, hop⟩ := h.star.edgeOK e hmem
    refine ⟨(h.star.keyEid _ hke').symm, ?_, by rw [hop]; simp [sortOpics, insertOpic]⟩
    intro d
    cases d with
    | true =>
      obtain ⟨n, hn, _, _, hin⟩ := hnode e.nids.2 (by omega) h3
      refine ⟨n, by simpa [Edge.nid] using hn, ?_⟩
      simp only [Node.eids, Bool.not_true, Bool.false_eq_true, if_false, hin]
      unfold inIds
      exact mem_map_of_mem (mem_filter.2 ⟨hmem, by simp⟩)
    | false =>
      obtain ⟨n, hn, _, hout, _⟩ := hnode e.nids.1 h1 (by omega)
      refine ⟨n, by simpa [Edge.nid] using hn, ?_⟩
      simp only [Node.eids, Bool.not_false, if_true, hout]
      unfold outIds
      exact mem_map_of_mem (mem_filter.2 ⟨hmem, by simp⟩)
  · intro d
    cases d with
    | true =>
      obtain ⟨n, hn, _, hout, _⟩ := hnode t ht0 htn
      exact ⟨n, hn, by simp [Node.eids, hout, houtT]⟩
    | false =>
      obtain ⟨n, hn, _, _, hin⟩ := hnode 0 (le_refl _) (by have := h.star.nnPos; omega)
      exact ⟨n, hn, by simp [Node.eids, hin, h.star.inIds_eq_nil (k := 0) (Or.inr (le_refl _))]⟩
  · intro d
    cases d with
    | false =>
      apply levelBfs_bfsFuel (d := false) (lev := lay) (H := H) _ hlen (show lay ((finalGraph g t).term false) = 0 from h.lay0)
      · obtain ⟨n, hn, _⟩ := hnode 0 (le_refl _) (by have := h.star.nnPos; omega)
        exact ⟨n, hn⟩
      · constructor
        intro x node hx
        obtain ⟨hg, hx0, hx1⟩ := h.node_of_final t hx
        obtain ⟨_, e2, _⟩ := h.star.nodeOK x node hg
        refine ⟨h.lay_le hx0 hx1, by simp only [Node.eids, Bool.not_false, if_true, e2]; exact outIds_length_le g x, ?_⟩
        intro eid heid
        simp only [Node.eids, Bool.not_false, if_true, e2] at heid
        obtain ⟨e, he1, he2, he3⟩ := h.star.out_edge heid
        have hok := h.star.edgeOK e he3
        obtain ⟨n', hn', _⟩ := hnode e.nids.2 (by omega) hok.2.2.1
        exact ⟨e, he1, ⟨n', by simpa [Edge.nid] using hn'⟩, by
          simp only [Edge.nid, Bool.not_false, if_true]; rw [h.layE e he3, he2]⟩
    | true =>
      apply levelBfs_bfsFuel (d := true) (lev := fun x => H - lay x) (H := H) _ hlen
        (show H - lay ((finalGraph g t).term true) = 0 by simp [finalGraph, Graph.term, hlt])
      · obtain ⟨n, hn, _⟩ := hnode t ht0 htn
        exact ⟨n, hn⟩
      · constructor
        intro x node hx
        obtain ⟨hg, hx0, hx1⟩ := h.node_of_final t hx
        obtain ⟨_, _, e3⟩ := h.star.nodeOK x node hg
        refine ⟨by simp, by simp only [Node.eids, Bool.not_true, Bool.false_eq_true, if_false, e3]; exact inIds_length_le g x, ?_⟩
        intro eid heid
        simp only [Node.eids, Bool.not_true, Bool.false_eq_true, if_false, e3] at heid
        obtain ⟨e, he1, he2, he3⟩ := h.star.in_edge heid
        have hok := h.star.edgeOK e he3
        obtain ⟨n', hn', _⟩ := hnode e.nids.1 hok.1 (by omega)
        refine ⟨e, he1, ⟨n', by simpa [Edge.nid] using hn'⟩, ?_⟩
        simp only [Edge.nid, Bool.not_true, Bool.false_eq_true, if_false]
        have h1 := h.layE e he3
        have h2 := h.lay_le (x := e.nids.2) (by omega) hok.2.2.1
        rw [he2] at h1 h2
        omega

theorem final_depth (h : Layered g nn en lay H) (t : Int)
    (hout : ∀ x, 0 ≤ x → x < nn → lay x < H → outIds g x ≠ []) :
    ∀ (fuel : Nat) (x : Int) (node : Node) (depth : Nat), dGet? (finalGraph g t).nodes x = some node →
      H - lay x < fuel → (finalGraph g t).nodeDepthLoop true fuel node depth = .ok (depth + (H - lay x)) := by
  intro fuel
  induction fuel with
  | zero => intro x node depth _ hf; omega
  | succ fuel ih =>
    intro x node depth hx hf
    obtain ⟨hg, hx0, hx1⟩ := h.node_of_final t hx
    obtain ⟨_, e2, _⟩ := h.star.nodeOK x node hg
    rw [Graph.nodeDepthLoop]
    cases hl : node.eids true with
    | nil =>
      simp only
      have : outIds g x = [] := by rw [← e2]; simpa [Node.eids] using hl
      have hlx : ¬ lay x < H := fun hlt => hout x hx0 hx1 hlt this
      have := h.lay_le hx0 hx1
      have : H - lay x = 0 := by omega
      rw [this]; rfl
    | cons eid rest =>
      simp only
      have heid : eid ∈ outIds g x := by
        rw [← e2]
        have : eid ∈ node.eids true := by rw [hl]; simp
        simpa [Node.eids] using this
      obtain ⟨e, he1, he2, he3⟩ := h.star.out_edge heid
      have hok := h.star.edgeOK e he3
      obtain ⟨n', hn'⟩ := h.star.node_exists (k := e.nids.2) ⟨by omega, hok.2.2.1⟩
      have hn'' : dGet? (finalGraph g t).nodes e.nids.2 = some n' := by
        rw [h.node_final t (by omega)]; exact hn'
      have hl1 := h.layE e he3
      have hl2 := h.lay_le (x := e.nids.2) (by omega) hok.2.2.1
      rw [he2] at hl1
      have hge : (finalGraph g t).getEdge eid = .ok e := (dGet_ok_iff _ _ _).2 he1
      have hgn : (finalGraph g t).getNode (e.nid true) = .ok n' := (dGet_ok_iff _ _ _).2 (by simpa [Edge.nid] using hn'')
      simp only [hge, hgn, bind, Except.bind]
      rw [ih e.nids.2 n' (depth + 1) hn'' (by omega)]
      congr 1
      omega

/-- **Length of the result.** -/
theorem final_length (h : Layered g nn en lay H) (t : Int)
    (hout : ∀ x, 0 ≤ x → x < nn → lay x < H → outIds g x ≠ []) :
    (finalGraph g t).length = .ok H := by
  unfold Graph.length Graph.nodeDepth
  have hpos := h.star.nnPos
  obtain ⟨n, hn⟩ := h.star.node_exists (k := 0) ⟨le_refl _, by omega⟩
  have hn' : dGet? (finalGraph g t).nodes 0 = some n := by rw [h.node_final t (by omega)]; exact hn
  have hgn : (finalGraph g t).getNode ((finalGraph g t).term false) = .ok n := (dGet_ok_iff _ _ _).2 hn'
  simp only [hgn, bind, Except.bind]
  have hlen : H < (finalGraph g t).nodes.length + 1 := by
    have h1 := length_dErase g.nodes (-1) ((h.star.nodesMem (-1)).2 (Or.inl rfl))
    have h2 := h.star.nodesLen
    have h3 := h.created
    simp only [finalGraph]
    omega
  rw [final_depth h t hout _ 0 n 0 hn' (by rw [h.lay0]; omega), h.lay0]
  simp

end

end Ptn.Ch

import Mathlib.Analysis.Normed.Algebra.MatrixExponential
import PtnModel.Proofs.KryExpHerm
import PtnModel.Proofs.KryExpArnoldi
/-!
# Bridge to Mathlib's matrix exponential (`NormedSpace.exp` on `Matrix (Fin n) (Fin n) 𝕜`)

* `exp_mulVec_eigen` : `M u = λ u ⟹ exp(M) u = exp(λ) u` (power series, termwise);
* `exp_intertwine`   : `M V = V N ⟹ exp(M) V = V exp(N)` for rectangular `V`;
* `toMatrix`, `toVec` : the model's index functions / list vectors as Mathlib matrices / vectors;
* `ExpmExact dexpm`  : the oracle `dexpm` returns the power-series exponential; it implies `ExpmContract`
  (`ExpmExact.contract`), and `expmTrue` satisfies it;
* `expm_herm_matrix` : Hermitian branch, exhausted Krylov space, `dexp = NormedSpace.exp`: the result is
  `exp(dt • A) *ᵥ v`;
* `expm_gen_matrix`  : general branch, exhausted Krylov space, `ExpmExact dexpm`: the result is `exp(dt • A) *ᵥ v`.
-/
set_option linter.unusedSectionVars false
namespace Ptn.Krylov
open Ptn Finset Matrix Ptn.Evo
open scoped Matrix.Norms.Operator

variable {𝕜 : Type} [RCLike 𝕜]
local notation "conj" => starRingEnd 𝕜

/-! ## two facts about the power series -/

theorem pow_mulVec_eigen {n : Type} [Fintype n] [DecidableEq n] (M : Matrix n n 𝕜) (u : n → 𝕜) (lam : 𝕜)
    (h : M *ᵥ u = lam • u) (k : ℕ) : (M ^ k) *ᵥ u = lam ^ k • u := by
  induction k with
  | zero => simp
  | succ k ih => rw [pow_succ, ← Matrix.mulVec_mulVec, h, Matrix.mulVec_smul, ih, smul_smul, pow_succ, mul_comm]

/-- the matrix exponential acts on an eigenvector as the scalar exponential of the eigenvalue -/
theorem exp_mulVec_eigen {n : Type} [Fintype n] [DecidableEq n] (M : Matrix n n 𝕜) (u : n → 𝕜) (lam : 𝕜)
    (h : M *ᵥ u = lam • u) : NormedSpace.exp M *ᵥ u = NormedSpace.exp lam • u := by
  have h1 : HasSum (fun k : ℕ => ((k.factorial : 𝕜)⁻¹) • M ^ k) (NormedSpace.exp M) :=
    NormedSpace.exp_series_hasSum_exp' (𝕂 := 𝕜) M
  have h2 : HasSum (fun k : ℕ => ((k.factorial : 𝕜)⁻¹) • lam ^ k) (NormedSpace.exp lam) :=
    NormedSpace.exp_series_hasSum_exp' (𝕂 := 𝕜) lam
  let L : Matrix n n 𝕜 →ₗ[𝕜] (n → 𝕜) := (Matrix.mulVecBilin 𝕜 𝕜).flip u
  have hL : Continuous L := LinearMap.continuous_of_finiteDimensional L
  have h3 : HasSum (fun k : ℕ => L (((k.factorial : 𝕜)⁻¹) • M ^ k)) (L (NormedSpace.exp M)) :=
    h1.mapL ⟨L, hL⟩
  have h4 := h2.smul_const u
  have e : (fun k : ℕ => L (((k.factorial : 𝕜)⁻¹) • M ^ k)) = fun k : ℕ => (((k.factorial : 𝕜)⁻¹) • lam ^ k) • u := by
    funext k
    show (((k.factorial : 𝕜)⁻¹) • M ^ k) *ᵥ u = _
    rw [Matrix.smul_mulVec, pow_mulVec_eigen M u lam h k, smul_smul, smul_eq_mul]
  rw [e] at h3
  exact h3.unique h4

theorem pow_intertwine {n k : Type} [Fintype n] [DecidableEq n] [Fintype k] [DecidableEq k]
    (M : Matrix n n 𝕜) (N : Matrix k k 𝕜) (V : Matrix n k 𝕜) (h : M * V = V * N) (j : ℕ) :
    M ^ j * V = V * N ^ j := by
  induction j with
  | zero => simp
  | succ j ih => rw [pow_succ, Matrix.mul_assoc, h, ← Matrix.mul_assoc, ih, Matrix.mul_assoc, ← pow_succ]

/-- the matrix exponential intertwines: `M V = V N ⟹ exp(M) V = V exp(N)` (`V` rectangular) -/
theorem exp_intertwine {n k : Type} [Fintype n] [DecidableEq n] [Fintype k] [DecidableEq k]
    (M : Matrix n n 𝕜) (N : Matrix k k 𝕜) (V : Matrix n k 𝕜) (h : M * V = V * N) :
    NormedSpace.exp M * V = V * NormedSpace.exp N := by
  have h1 : HasSum (fun j : ℕ => ((j.factorial : 𝕜)⁻¹) • M ^ j) (NormedSpace.exp M) :=
    NormedSpace.exp_series_hasSum_exp' (𝕂 := 𝕜) M
  have h2 : HasSum (fun j : ℕ => ((j.factorial : 𝕜)⁻¹) • N ^ j) (NormedSpace.exp N) :=
    NormedSpace.exp_series_hasSum_exp' (𝕂 := 𝕜) N
  let L1 : Matrix n n 𝕜 →ₗ[𝕜] Matrix n k 𝕜 :=
    { toFun := fun X => X * V, map_add' := fun X Y => Matrix.add_mul X Y V, map_smul' := fun c X => Matrix.smul_mul c X V }
  let L2 : Matrix k k 𝕜 →ₗ[𝕜] Matrix n k 𝕜 :=
    { toFun := fun X => V * X, map_add' := fun X Y => Matrix.mul_add V X Y, map_smul' := fun c X => Matrix.mul_smul V c X }
  have hL1 : Continuous L1 := LinearMap.continuous_of_finiteDimensional L1
  have hL2 : Continuous L2 := LinearMap.continuous_of_finiteDimensional L2
  have h3 := h1.mapL ⟨L1, hL1⟩
  have h4 := h2.mapL ⟨L2, hL2⟩
  have e : (fun j : ℕ => (⟨L1, hL1⟩ : Matrix n n 𝕜 →L[𝕜] Matrix n k 𝕜) (((j.factorial : 𝕜)⁻¹) • M ^ j)) =
      fun j : ℕ => (⟨L2, hL2⟩ : Matrix k k 𝕜 →L[𝕜] Matrix n k 𝕜) (((j.factorial : 𝕜)⁻¹) • N ^ j) := by
    funext j
    show (((j.factorial : 𝕜)⁻¹) • M ^ j) * V = V * (((j.factorial : 𝕜)⁻¹) • N ^ j)
    rw [Matrix.smul_mul, Matrix.mul_smul, pow_intertwine M N V h j]
  rw [e] at h3
  exact h3.unique h4

/-! ## the model's matrices and vectors -/

/-- an index function as an `m × k` matrix -/
def toRect (m k : Nat) (M : Nat → Nat → 𝕜) : Matrix (Fin m) (Fin k) 𝕜 := fun i j => M i j

/-- an index function as an `n × n` matrix -/
abbrev toMatrix (n : Nat) (M : Nat → Nat → 𝕜) : Matrix (Fin n) (Fin n) 𝕜 := toRect n n M

/-- a list vector (read through `vget`) as a vector of length `n` -/
def toVec (n : Nat) (x : List 𝕜) : Fin n → 𝕜 := fun i => vget x i

theorem mulVec_toVec (m n : Nat) (M : Nat → Nat → 𝕜) (x : List 𝕜) (i : Fin m) :
    (toRect m n M *ᵥ toVec n x) i = ∑ j ∈ range n, M i j * vget x j := by
  rw [← Fin.sum_univ_eq_sum_range (fun j => M i j * vget x j) n]
  rfl

theorem toRect_mul (m n k : Nat) (M N : Nat → Nat → 𝕜) (i : Fin m) (c : Fin k) :
    (toRect m n M * toRect n k N) i c = ∑ j ∈ range n, M i j * N j c := by
  rw [← Fin.sum_univ_eq_sum_range (fun j => M i j * N j c) n]
  rfl

theorem toMatrix_scale (t : 𝕜) (X : Mat 𝕜) : toMatrix X.m (Mat.scale t X).f = t • toMatrix X.m X.f := by
  funext i j
  rfl

/-- an eigenvector of a map acting as `M` is an eigenvector of the matrix `M` -/
theorem IsEigen.toVec {n : Nat} {Afun : List 𝕜 → List 𝕜} {M : Nat → Nat → 𝕜} (hM : ActsAs n Afun M) {θ : ℝ}
    {u : List 𝕜} (h : IsEigen n Afun θ u) (t : 𝕜) :
    (t • toMatrix n M) *ᵥ toVec n u = (t * ((θ : ℝ) : 𝕜)) • toVec n u := by
  funext i
  rw [Matrix.smul_mulVec, Pi.smul_apply, mulVec_toVec, ← hM u h.1 i i.isLt, h.2 i i.isLt]
  show t * (((θ : ℝ) : 𝕜) * vget u i) = (t * ((θ : ℝ) : 𝕜)) * vget u i
  ring

/-! ## the Hermitian branch -/

/-- **Hermitian branch = Mathlib's matrix exponential.**  For a map acting as the Hermitian matrix `M`, an exhausted Krylov
space and a scalar exponential oracle that is the exponential (`dexp = NormedSpace.exp`, i.e. `Complex.exp` / `Real.exp`),
the result of `expm_krylov(…, hermitian=True)` is `exp(dt • M) *ᵥ v`, for every complex `dt`. -/
theorem expm_herm_matrix {Afun : List 𝕜 → List 𝕜} {dnorm : List 𝕜 → ℝ} {deigh : List ℝ → List ℝ → List ℝ × Mat ℝ}
    {dexp : 𝕜 → 𝕜} {dexpm : Mat 𝕜 → Mat 𝕜} (hN : NormContract dnorm) {v : List 𝕜} {numiter : Nat} {M : Nat → Nat → 𝕜}
    (hM : ActsAs v.length Afun M) (hH : ∀ i j, i < v.length → j < v.length → conj (M i j) = M j i)
    (hE : C15.EighAt Afun dnorm deigh v numiter) (hX : C15.Exhausted Afun dnorm v numiter)
    (hexp : ∀ z : 𝕜, dexp z = NormedSpace.exp z) {dt : 𝕜} {r : List 𝕜}
    (h : expmKrylov Afun dnorm deigh dexp dexpm v dt numiter true = .ok r) :
    r.length = v.length ∧
    ∀ i : Fin v.length, vget r i = (NormedSpace.exp (dt • toMatrix v.length M) *ᵥ toVec v.length v) i := by
  obtain ⟨hrl, ⟨k, θ, c, u, hU, hv⟩, hall⟩ := expm_spectral hN hM hH hE hX h
  refine ⟨hrl, fun i => ?_⟩
  rw [hall k θ c u hU hv i i.isLt]
  have hvec : toVec v.length v = ∑ e ∈ range k, c e • toVec v.length (u e) := by
    funext j
    rw [Finset.sum_apply]
    exact hv j j.isLt
  rw [hvec, Matrix.mulVec_sum, Finset.sum_apply]
  refine sum_congr rfl fun e he => ?_
  rw [Matrix.mulVec_smul, exp_mulVec_eigen _ _ _ (IsEigen.toVec hM (hU e (mem_range.1 he)) dt), hexp]
  show _ = c e * (NormedSpace.exp (dt * ((θ e : ℝ) : 𝕜)) * vget (u e) i)
  ring

/-! ## the general branch -/

/-- the oracle `dexpm` is the power-series matrix exponential on square matrices -/
def ExpmExact (dexpm : Mat 𝕜 → Mat 𝕜) : Prop :=
  ∀ X : Mat 𝕜, X.m = X.n → (dexpm X).m = X.m ∧ (dexpm X).n = X.m ∧
    ∀ i j (hi : i < X.m) (hj : j < X.m), (dexpm X).f i j = NormedSpace.exp (toMatrix X.m X.f) ⟨i, hi⟩ ⟨j, hj⟩

/-- the power-series exponential as a model-level oracle -/
noncomputable def expmTrue (X : Mat 𝕜) : Mat 𝕜 :=
  ⟨X.m, X.m, fun i j => if h : i < X.m ∧ j < X.m then NormedSpace.exp (toMatrix X.m X.f) ⟨i, h.1⟩ ⟨j, h.2⟩ else 0⟩

theorem expmTrue_exact : ExpmExact (expmTrue : Mat 𝕜 → Mat 𝕜) := by
  intro X _
  refine ⟨rfl, rfl, fun i j hi hj => ?_⟩
  show (if h : i < X.m ∧ j < X.m then NormedSpace.exp (toMatrix X.m X.f) ⟨i, h.1⟩ ⟨j, h.2⟩ else 0) = _
  rw [dif_pos ⟨hi, hj⟩]

/-- **the power-series exponential satisfies the contract used for the general branch** -/
theorem ExpmExact.contract {dexpm : Mat 𝕜 → Mat 𝕜} (h : ExpmExact dexpm) : ExpmContract dexpm := by
  refine ⟨fun X hX => ⟨(h X hX).1, (h X hX).2.1.trans hX⟩, ?_⟩
  intro M N V hM hN hVm hVn hMV i c hi hc
  obtain ⟨_, _, hfM⟩ := h M hM
  obtain ⟨_, _, hfN⟩ := h N hN
  have hc' : c < N.m := by rw [hN]; exact hc
  -- matrix form of the hypothesis
  have hmat : toMatrix M.m M.f * toRect M.m N.m V.f = toRect M.m N.m V.f * toMatrix N.m N.f := by
    funext a b
    rw [toRect_mul, toRect_mul]
    have := hMV a b a.isLt (by rw [← hN]; exact b.isLt)
    rw [← hM] at this
    exact this
  have hexp := exp_intertwine _ _ _ hmat
  have hentry := congrFun (congrFun hexp ⟨i, hi⟩) ⟨c, hc'⟩
  rw [Matrix.mul_apply, Matrix.mul_apply] at hentry
  rw [← hM, Finset.sum_range, Finset.sum_range]
  have e1 : ∑ j : Fin M.m, (dexpm M).f i j * V.f j c =
      ∑ j : Fin M.m, NormedSpace.exp (toMatrix M.m M.f) ⟨i, hi⟩ j * toRect M.m N.m V.f j ⟨c, hc'⟩ :=
    Finset.sum_congr rfl fun j _ => by rw [hfM i j hi j.isLt]; rfl
  have e2 : ∑ d : Fin N.m, V.f i d * (dexpm N).f d c =
      ∑ d : Fin N.m, toRect M.m N.m V.f ⟨i, hi⟩ d * NormedSpace.exp (toMatrix N.m N.f) d ⟨c, hc'⟩ :=
    Finset.sum_congr rfl fun d _ => by rw [hfN d c d.isLt hc']; rfl
  rw [e1, e2]
  exact hentry

theorem expm_entry_aux {dexpm : Mat 𝕜 → Mat 𝕜} (hC : ExpmExact dexpm) {A : Mat 𝕜} {n : Nat} (hAm : A.m = n)
    (hAn : A.n = n) (dt : 𝕜) (v : List 𝕜) (i : Fin n) :
    ∑ j ∈ range n, (dexpm (Mat.scale dt A)).f i j * vget v j =
      (NormedSpace.exp (dt • toMatrix n A.f) *ᵥ toVec n v) i := by
  subst hAm
  have hf : ∀ i j (hi : i < A.m) (hj : j < A.m), (dexpm (Mat.scale dt A)).f i j =
      NormedSpace.exp (toMatrix A.m (Mat.scale dt A).f) ⟨i, hi⟩ ⟨j, hj⟩ :=
    (hC (Mat.scale dt A) (by show A.m = A.n; rw [hAn])).2.2
  have hsc : toMatrix A.m (Mat.scale dt A).f = dt • toMatrix A.m A.f := toMatrix_scale dt A
  rw [Finset.sum_range]
  show _ = ∑ j : Fin A.m, NormedSpace.exp (dt • toMatrix A.m A.f) i j * toVec A.m v j
  refine Finset.sum_congr rfl fun j _ => ?_
  rw [hf i j i.isLt j.isLt, hsc]
  rfl

/-- **General branch = Mathlib's matrix exponential.**  For a map acting as the (arbitrary) `n × n` matrix `A`, an
exhausted Krylov space (last Arnoldi residual zero) and an `expm` oracle that is the power-series exponential, the result
of `expm_krylov(…, hermitian=False)` is `exp(dt • A) *ᵥ v`. -/
theorem expm_gen_matrix {Afun : List 𝕜 → List 𝕜} {dnorm : List 𝕜 → ℝ} {deigh : List ℝ → List ℝ → List ℝ × Mat ℝ}
    {dexp : 𝕜 → 𝕜} {dexpm : Mat 𝕜 → Mat 𝕜} (hN : NormContract dnorm) (hC : ExpmExact dexpm)
    {v : List 𝕜} {numiter : Nat} {A : Mat 𝕜} (hAm : A.m = v.length) (hAn : A.n = v.length)
    (hM : ActsAs v.length Afun A.f) (hX : ExhaustedA Afun dnorm v numiter) {dt : 𝕜} {r : List 𝕜}
    (h : expmKrylov Afun dnorm deigh dexp dexpm v dt numiter false = .ok r) :
    r.length = v.length ∧
    ∀ i : Fin v.length, vget r i = (NormedSpace.exp (dt • toMatrix v.length A.f) *ᵥ toVec v.length v) i := by
  obtain ⟨hrl, hr⟩ := expm_general hN hC.contract hAm hAn hM hX h
  refine ⟨hrl, fun i => ?_⟩
  rw [hr i i.isLt]
  exact expm_entry_aux hC hAm hAn dt v i

end Ptn.Krylov

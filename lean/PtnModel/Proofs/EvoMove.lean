import PtnModel.Proofs.EvoSweep
/-!
# Gauge moves of the sweeps keep the invariant and the dense state

`canon_left`  : centre `c → c+1` (new left isometry at `c`, remainder pushed into `c+1`, new `BL[c+1]`);
`canon_right` : centre `j+1 → j` (new right isometry at `j+1`, remainder pushed into `j`, new `BR[j]`).
-/
set_option linter.unusedSectionVars false

namespace Ptn.Evo
open Ptn Ptn.BondOps Ptn.Ortho Ptn.Env Ptn.Krylov Finset

variable {𝕜 : Type} [RCLike 𝕜] [DecidableEq 𝕜]
local notation "conj" => starRingEnd 𝕜

omit [RCLike 𝕜] [DecidableEq 𝕜] in
theorem set_pair {β : Type} (l : List β) {i : Nat} (hi : i + 1 < l.length) (x y : β) :
    (l.set i x).set (i + 1) y = l.take i ++ x :: y :: l.drop (i + 2) := by
  apply List.ext_getElem
  · simp; omega
  · intro n h1 h2
    rw [List.getElem_set]
    by_cases hn : i + 1 = n
    · subst hn
      rw [if_pos rfl, List.getElem_append_right (by simp)]
      simp
      have : i + 1 - min i l.length = 1 := by omega
      simp [this]
    · rw [if_neg hn, List.getElem_set]
      by_cases hn2 : i = n
      · subst hn2
        rw [if_pos rfl, List.getElem_append_right (by simp)]
        simp
        have : i - min i l.length = 0 := by omega
        simp [this]
      · rw [if_neg hn2]
        by_cases hlt : n < i
        · rw [List.getElem_append_left (by simp; omega)]
          simp
        · rw [List.getElem_append_right (by simp; omega)]
          have hmin : min i l.length = i := by omega
          simp only [List.length_take, hmin]
          obtain ⟨k, rfl⟩ : ∃ k, n = i + 2 + k := ⟨n - (i + 2), by omega⟩
          have : i + 2 + k - i = k + 2 := by omega
          simp [this]

omit [RCLike 𝕜] [DecidableEq 𝕜] in
theorem set_pair' {β : Type} (l : List β) {i : Nat} (hi : i + 1 < l.length) (x y : β) :
    (l.set (i + 1) y).set i x = l.take i ++ x :: y :: l.drop (i + 2) := by
  rw [← set_pair l hi x y, List.set_comm _ _ (by omega)]

omit [RCLike 𝕜] [DecidableEq 𝕜] in
theorem split_pair {β : Type} [Inhabited β] (l : List β) {i : Nat} (hi : i + 1 < l.length) (d : β) :
    l = l.take i ++ l.getD i d :: l.getD (i + 1) d :: l.drop (i + 2) := by
  have h1 : l.getD i d = l[i] := by simp [List.getD_eq_getElem?_getD, (by omega : i < l.length)]
  have h2 : l.getD (i + 1) d = l[i + 1] := by simp [List.getD_eq_getElem?_getD, hi]
  rw [h1, h2]
  conv_lhs => rw [← List.take_append_drop i l]
  congr 1
  rw [List.drop_eq_getElem_cons (by omega : i < l.length), List.drop_eq_getElem_cons (by omega : i + 1 < l.length)]

instance : Inhabited (T3 𝕜) := ⟨emptyT3⟩

/-- **Left move.** -/
theorem canon_left {H : MPO 𝕜} {qd : List Int} {s : Sweep 𝕜} {c : Nat} (h : Canon H qd s c)
    (hH : C04.MPO.Shaped H qd.length) (hc1 : c + 1 < H.A.length) {X' Y' : T3 𝕜} {qb : List Int} {BLn : T3 𝕜}
    (hX' : X'.d0 = qd.length ∧ X'.d1 = (getQ s c).length ∧ X'.d2 = qb.length)
    (hY' : Y'.d0 = qd.length ∧ Y'.d1 = qb.length ∧ Y'.d2 = (getQ s (c + 2)).length) (hq : 0 < qb.length)
    (hiso : LeftIso X')
    (hprod : ∀ s0 a s1 y, s0 < qd.length → a < (getA s c).d1 → s1 < qd.length → y < (getA s (c + 1)).d2 →
      ∑ x ∈ range X'.d2, X'.f s0 a x * Y'.f s1 x y =
        ∑ x ∈ range (getA s c).d2, (getA s c).f s0 a x * (getA s (c + 1)).f s1 x y)
    (hBL : Op.opStepLeft X' X' (H.A.getD c zeroT4) (getBL s c) = .ok BLn) :
    Canon H qd (⟨(s.A.setIfInBounds c X').setIfInBounds (c + 1) Y', s.qD.setIfInBounds (c + 1) qb,
      s.BL.setIfInBounds (c + 1) BLn, s.BR⟩ : Sweep 𝕜) (c + 1) ∧
    ∀ σ, σ ∈ digitsU qd.length H.A.length →
      (cur qd (⟨(s.A.setIfInBounds c X').setIfInBounds (c + 1) Y', s.qD.setIfInBounds (c + 1) qb,
        s.BL.setIfInBounds (c + 1) BLn, s.BR⟩ : Sweep 𝕜)).amp σ = (cur qd s).amp σ := by
  set s' : Sweep 𝕜 := ⟨(s.A.setIfInBounds c X').setIfInBounds (c + 1) Y', s.qD.setIfInBounds (c + 1) qb,
      s.BL.setIfInBounds (c + 1) BLn, s.BR⟩ with hs'
  have hL : 0 < H.A.length := by omega
  have hA : ∀ m, getA s' m = if m = c then X' else if m = c + 1 then Y' else getA s m := by
    intro m
    show ((s.A.setIfInBounds c _).setIfInBounds (c + 1) _).getD m emptyT3 = _
    rw [getD_setIfInBounds, getD_setIfInBounds, Array.size_setIfInBounds, h.wf.sizeA]
    by_cases h1 : m = c
    · subst h1; rw [if_neg (by omega), if_pos ⟨rfl, by omega⟩, if_pos rfl]
    · rw [if_neg h1]
      by_cases h2 : m = c + 1
      · rw [if_pos ⟨h2, hc1⟩, if_pos h2]
      · rw [if_neg (fun hh => h2 hh.1), if_neg (fun hh => h1 hh.1), if_neg h2]; rfl
  have hQ : ∀ m, getQ s' m = if m = c + 1 then qb else getQ s m := by
    intro m
    show (s.qD.setIfInBounds (c + 1) qb).getD m [] = _
    rw [getD_setIfInBounds, h.wf.sizeQ]
    by_cases h2 : m = c + 1
    · rw [if_pos ⟨h2, by omega⟩, if_pos h2]
    · rw [if_neg (fun hh => h2 hh.1), if_neg h2]; rfl
  have hBLg : ∀ m, getBL s' m = if m = c + 1 then BLn else getBL s m := by
    intro m
    show (s.BL.setIfInBounds (c + 1) BLn).getD m emptyT3 = _
    rw [getD_setIfInBounds, h.sizeBL]
    by_cases h2 : m = c + 1
    · rw [if_pos ⟨h2, by omega⟩, if_pos h2]
    · rw [if_neg (fun hh => h2 hh.1), if_neg h2]; rfl
  have hwf : SweepWf qd H.A.length s' :=
    wf_update_pair h.wf hc1 (by simp [hs', h.wf.sizeA]) (by simp [hs', h.wf.sizeQ]) hA hQ hX' hY' hq
  have hq0 : (getQ s' 0).length = 1 := by rw [hQ, if_neg (by omega)]; exact h.q0
  have hqL : (getQ s' H.A.length).length = 1 := by rw [hQ, if_neg (by omega)]; exact h.qL
  have hsh' := shaped_cur hwf hL hq0 hqL
  have hlen' : (cur qd s').A.length = H.A.length := by rw [cur_length, hwf.sizeA]
  have hcurA : (cur qd s').A = ((cur qd s).A.set c X').set (c + 1) Y' := by simp [cur, hs']
  have hcl : c + 1 < (cur qd s).A.length := by rw [h.len]; exact hc1
  have hcan : Canon H qd s' (c + 1) := by
    refine ⟨hwf, by simp [hs', h.sizeBL], h.sizeBR, hc1, hq0, hqL, ?_, ?_, ?_, ?_⟩
    · intro j hj
      rw [hA]
      by_cases h1 : j = c
      · rw [if_pos h1]; exact hiso
      · rw [if_neg h1, if_neg (by omega)]; exact h.liso j (by omega)
    · intro j hj hj'
      rw [hA, if_neg (by omega), if_neg (by omega)]; exact h.riso j (by omega) hj'
    · intro j hj
      have hold : ∀ j', j' ≤ c → IsLeftBlock (cur qd s') H qd.length j' (getBL s j') := by
        intro j' hj'
        refine isLeftBlock_congr ?_ (by rw [h.len]; omega) (by rw [hlen']; omega) (h.bl j' hj')
        rw [hcurA, List.take_set_of_le (by omega), List.take_set_of_le hj']
      by_cases h1 : j = c + 1
      · subst h1
        rw [hBLg, if_pos rfl]
        have hW : H.A[c]? = some (H.A.getD c zeroT4) := by
          rw [List.getD_eq_getElem?_getD, List.getElem?_eq_getElem (by omega)]; rfl
        have hAc : (cur qd s').A[c]? = some X' := by
          rw [cur_getElem? qd s' (by rw [hwf.sizeA]; omega), hA, if_pos rfl]
        obtain ⟨T, hT, hTb⟩ := C04.left_step_dense hsh' hH hlen' (i := c) (by rw [hlen']; omega) hAc hW
          (hold c (Nat.le_refl c))
        have : T = BLn := Except.ok.inj (hT.symm.trans hBL)
        rw [← this]; exact hTb
      · rw [hBLg, if_neg h1]; exact hold j (by omega)
    · intro j hj hj'
      show IsRightBlock (cur qd s') H qd.length (j + 1) (getBR s j)
      refine isRightBlock_congr ?_ (by rw [hlen', h.len]) ?_ (h.br j (by omega) hj')
      · rw [hcurA, List.drop_set_of_lt (by omega), List.drop_set_of_lt (by omega)]
      · rw [mpsBond_cur hwf hL hq0 hqL (show j + 1 ≤ H.A.length by omega), h.bond (show j + 1 ≤ H.A.length by omega),
          hQ, if_neg (by omega)]
  refine ⟨hcan, ?_⟩
  intro σ hσ
  have e0 := split_pair (cur qd s).A hcl emptyT3
  rw [cur_getD, cur_getD] at e0
  have e1 : (cur qd s').A = (cur qd s).A.take c ++ X' :: Y' :: (cur qd s).A.drop (c + 2) := by
    rw [hcurA, set_pair _ hcl]
  refine amp_gauge h.shaped hsh' e0 e1 ?_ hprod (by rw [h.len]; exact hσ)
  rw [hY'.2.2, (h.wf.shape (c + 1) hc1).2.2]

/-- **Right move.** -/
theorem canon_right {H : MPO 𝕜} {qd : List Int} {s : Sweep 𝕜} {j : Nat} (h : Canon H qd s (j + 1))
    (hH : C04.MPO.Shaped H qd.length) {X' Y' : T3 𝕜} {qb : List Int} {BRn : T3 𝕜}
    (hX' : X'.d0 = qd.length ∧ X'.d1 = (getQ s j).length ∧ X'.d2 = qb.length)
    (hY' : Y'.d0 = qd.length ∧ Y'.d1 = qb.length ∧ Y'.d2 = (getQ s (j + 2)).length) (hq : 0 < qb.length)
    (hiso : RightIso Y')
    (hprod : ∀ s0 a s1 y, s0 < qd.length → a < (getA s j).d1 → s1 < qd.length → y < (getA s (j + 1)).d2 →
      ∑ x ∈ range X'.d2, X'.f s0 a x * Y'.f s1 x y =
        ∑ x ∈ range (getA s j).d2, (getA s j).f s0 a x * (getA s (j + 1)).f s1 x y)
    (hBR : Op.opStepRight Y' Y' (H.A.getD (j + 1) zeroT4) (getBR s (j + 1)) = .ok BRn) :
    Canon H qd (⟨(s.A.setIfInBounds (j + 1) Y').setIfInBounds j X', s.qD.setIfInBounds (j + 1) qb,
      s.BL, s.BR.setIfInBounds j BRn⟩ : Sweep 𝕜) j ∧
    ∀ σ, σ ∈ digitsU qd.length H.A.length →
      (cur qd (⟨(s.A.setIfInBounds (j + 1) Y').setIfInBounds j X', s.qD.setIfInBounds (j + 1) qb,
        s.BL, s.BR.setIfInBounds j BRn⟩ : Sweep 𝕜)).amp σ = (cur qd s).amp σ := by
  set s' : Sweep 𝕜 := ⟨(s.A.setIfInBounds (j + 1) Y').setIfInBounds j X', s.qD.setIfInBounds (j + 1) qb,
      s.BL, s.BR.setIfInBounds j BRn⟩ with hs'
  have hc1 : j + 1 < H.A.length := h.hc
  have hL : 0 < H.A.length := by omega
  have hA : ∀ m, getA s' m = if m = j then X' else if m = j + 1 then Y' else getA s m := by
    intro m
    show ((s.A.setIfInBounds (j + 1) _).setIfInBounds j _).getD m emptyT3 = _
    rw [getD_setIfInBounds, getD_setIfInBounds, Array.size_setIfInBounds, h.wf.sizeA]
    by_cases h1 : m = j
    · subst h1; rw [if_pos ⟨rfl, by omega⟩, if_pos rfl]
    · rw [if_neg h1, if_neg (fun hh => h1 hh.1)]
      by_cases h2 : m = j + 1
      · rw [if_pos ⟨h2, hc1⟩, if_pos h2]
      · rw [if_neg (fun hh => h2 hh.1), if_neg h2]; rfl
  have hQ : ∀ m, getQ s' m = if m = j + 1 then qb else getQ s m := by
    intro m
    show (s.qD.setIfInBounds (j + 1) qb).getD m [] = _
    rw [getD_setIfInBounds, h.wf.sizeQ]
    by_cases h2 : m = j + 1
    · rw [if_pos ⟨h2, by omega⟩, if_pos h2]
    · rw [if_neg (fun hh => h2 hh.1), if_neg h2]; rfl
  have hBRg : ∀ m, getBR s' m = if m = j then BRn else getBR s m := by
    intro m
    show (s.BR.setIfInBounds j BRn).getD m emptyT3 = _
    rw [getD_setIfInBounds, h.sizeBR]
    by_cases h2 : m = j
    · rw [if_pos ⟨h2, by omega⟩, if_pos h2]
    · rw [if_neg (fun hh => h2 hh.1), if_neg h2]; rfl
  have hwf : SweepWf qd H.A.length s' :=
    wf_update_pair h.wf hc1 (by simp [hs', h.wf.sizeA]) (by simp [hs', h.wf.sizeQ]) hA hQ hX' hY' hq
  have hq0 : (getQ s' 0).length = 1 := by rw [hQ, if_neg (by omega)]; exact h.q0
  have hqL : (getQ s' H.A.length).length = 1 := by rw [hQ, if_neg (by omega)]; exact h.qL
  have hsh' := shaped_cur hwf hL hq0 hqL
  have hlen' : (cur qd s').A.length = H.A.length := by rw [cur_length, hwf.sizeA]
  have hcurA : (cur qd s').A = ((cur qd s).A.set (j + 1) Y').set j X' := by simp [cur, hs']
  have hcl : j + 1 < (cur qd s).A.length := by rw [h.len]; exact hc1
  have hcan : Canon H qd s' j := by
    refine ⟨hwf, h.sizeBL, by simp [hs', h.sizeBR], by omega, hq0, hqL, ?_, ?_, ?_, ?_⟩
    · intro i hi
      rw [hA, if_neg (by omega), if_neg (by omega)]; exact h.liso i (by omega)
    · intro i hi hi'
      rw [hA, if_neg (by omega)]
      by_cases h1 : i = j + 1
      · rw [if_pos h1]; exact hiso
      · rw [if_neg h1]; exact h.riso i (by omega) hi'
    · intro i hi
      show IsLeftBlock (cur qd s') H qd.length i (getBL s i)
      refine isLeftBlock_congr ?_ (by rw [h.len]; omega) (by rw [hlen']; omega) (h.bl i (by omega))
      rw [hcurA, List.take_set_of_le hi, List.take_set_of_le (by omega)]
    · intro i hi hi'
      have hold : ∀ i', j + 1 ≤ i' → i' < H.A.length → IsRightBlock (cur qd s') H qd.length (i' + 1) (getBR s i') := by
        intro i' h1 h2
        refine isRightBlock_congr ?_ (by rw [hlen', h.len]) ?_ (h.br i' h1 h2)
        · rw [hcurA, List.drop_set_of_lt (by omega), List.drop_set_of_lt (by omega)]
        · rw [mpsBond_cur hwf hL hq0 hqL (show i' + 1 ≤ H.A.length by omega),
            h.bond (show i' + 1 ≤ H.A.length by omega), hQ, if_neg (by omega)]
      by_cases h1 : i = j
      · subst h1
        rw [hBRg, if_pos rfl]
        have hW : H.A[i + 1]? = some (H.A.getD (i + 1) zeroT4) := by
          rw [List.getD_eq_getElem?_getD, List.getElem?_eq_getElem hc1]; rfl
        have hAc : (cur qd s').A[i + 1]? = some Y' := by
          rw [cur_getElem? qd s' (by rw [hwf.sizeA]; omega), hA, if_neg (by omega), if_pos rfl]
        obtain ⟨T, hT, hTb⟩ := right_step_dense hsh' hH hlen' (i := i + 1) (by rw [hlen']; omega) hAc hW
          (hold (i + 1) (Nat.le_refl _) hc1)
        have : T = BRn := Except.ok.inj (hT.symm.trans hBR)
        rw [← this]; exact hTb
      · rw [hBRg, if_neg h1]; exact hold i (by omega) hi'
  refine ⟨hcan, ?_⟩
  intro σ hσ
  have e0 := split_pair (cur qd s).A hcl emptyT3
  rw [cur_getD, cur_getD] at e0
  have e1 : (cur qd s').A = (cur qd s).A.take j ++ X' :: Y' :: (cur qd s).A.drop (j + 2) := by
    rw [hcurA, set_pair' _ hcl]
  refine amp_gauge h.shaped hsh' e0 e1 ?_ hprod (by rw [h.len]; exact hσ)
  rw [hY'.2.2, (h.wf.shape (j + 1) hc1).2.2]

end Ptn.Evo

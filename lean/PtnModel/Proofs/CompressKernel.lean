import Mathlib.Data.List.Sort
import Mathlib.Analysis.Real.Sqrt
import PtnModel.Proofs.CompressSvdExists
import PtnModel.Proofs.CompressOk
/-!
# The kernel contracts of C13 are satisfiable (non-vacuity)

Over every `RCLike` field (`ℝ`, `ℂ`): `exKernels = ⟨fullSVD, normK, sortK⟩` satisfies `SvdKernel`
(`fullSVD`: a reduced SVD of every matrix from the spectral theorem; `normK = sqrt(Σ x²)`; `sortK`: insertion sort of
the indices by key), and `(‖·‖, z ↦ z / r)` satisfies `AbsContract`.
-/
set_option linter.unusedSectionVars false
namespace Ptn.Compress
open Ptn.BondOps Ptn.Ortho Finset

variable {𝕜 : Type} [RCLike 𝕜]

theorem fullSVD_contract : C12.SVDContract (ιR 𝕜) (SvdExists.fullSVD : Mat 𝕜 → Mat 𝕜 × List ℝ × Mat 𝕜) := by
  refine ⟨fun B _ _ => ?_, fun B i j hi hj => ?_, fun B p p' hp hp' => ?_, fun B p p' hp hp' => ?_, fun B => ?_⟩
  · have h := SvdExists.fullSVD_isSvd B
    exact ⟨h.um, h.un, h.sl, h.vm, h.vn⟩
  · exact (SvdExists.fullSVD_isSvd B).product i j hi hj
  · exact (SvdExists.fullSVD_isSvd B).isoU p p' hp hp'
  · exact (SvdExists.fullSVD_isSvd B).isoV p p' hp hp'
  · exact (SvdExists.fullSVD_isSvd B).nonneg

/-- `np.linalg.norm` of a real vector -/
noncomputable def normK (s : List ℝ) : ℝ := Real.sqrt (sqSum s)

theorem normK_contract (s : List ℝ) : C12.NormContract s (normK s) :=
  ⟨Real.sqrt_nonneg _, Real.mul_self_sqrt (sqSum_nonneg s)⟩

/-- `np.argsort`: insertion sort of the indices by key -/
noncomputable def sortK (keys : List ℝ) : List Nat :=
  (List.range keys.length).insertionSort (fun i j => keys.getD i 0 ≤ keys.getD j 0)

theorem sortK_contract (keys : List ℝ) : C12.SortContract keys (sortK keys) := by
  have : Std.Total (fun i j : Nat => keys.getD i 0 ≤ keys.getD j 0) := ⟨fun a b => le_total _ _⟩
  have : IsTrans Nat (fun i j : Nat => keys.getD i 0 ≤ keys.getD j 0) := ⟨fun a b c h1 h2 => le_trans h1 h2⟩
  refine ⟨List.perm_insertionSort _ _, ?_⟩
  rw [List.pairwise_map]
  exact List.pairwise_insertionSort (fun i j : Nat => keys.getD i 0 ≤ keys.getD j 0) _

/-- kernels satisfying the contracts of C13 -/
noncomputable def exKernels (𝕜 : Type) [RCLike 𝕜] : MPS.SvdKernels 𝕜 ℝ := ⟨SvdExists.fullSVD, normK, sortK⟩

theorem exKernels_ok : SvdKernel (exKernels 𝕜) := ⟨fullSVD_contract, normK_contract, sortK_contract⟩

theorem exAbs_ok : AbsContract (fun z : 𝕜 => ‖z‖) (fun z r => z / (r : 𝕜)) := ⟨fun _ => rfl, fun _ _ => rfl⟩

end Ptn.Compress

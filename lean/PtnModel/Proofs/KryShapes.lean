import PtnModel.Model.Krylov
/-!
# Sizes of the outputs of `lanczos` / `arnoldi` — for every scalar type and every oracle

Named pieces of one loop iteration (`lzA`, `lzW`, `arW`), the unfolding lemmas `lanczosStep_eq` / `arnoldiStep_eq`,
and the size bookkeeping of the loops: after the loop the state has `k` entries of `alpha` (columns of `H`),
`k - 1` entries of `beta` (subdiagonal entries) and `k` vectors, `1 ≤ k ≤ numiter`, with `k = numiter` unless the
breakdown branch was taken.

F11: `lanczosCore` / `arnoldiCore` are the uncapped iterations `lanczosCoreU` / `arnoldiCoreU` run with
`min numiter vstart.length` iterations.  Every core lemma is proved for the uncapped iteration (suffix `U`) and
instantiated at the capped count; `k ≤ numiter` stays true (`k ≤ min numiter n ≤ numiter`) and `k ≤ vstart.length` is new.
-/
set_option linter.unusedSectionVars false

namespace Ptn.Krylov

section snoc
variable {β : Type}

theorem getD_snoc_lt (l : List β) (x d : β) {i : Nat} (h : i < l.length) : (l ++ [x]).getD i d = l.getD i d := by
  simp [List.getD_eq_getElem?_getD, List.getElem?_append_left h]

theorem getD_snoc_eq (l : List β) (x d : β) : (l ++ [x]).getD l.length d = x := by
  simp [List.getD_eq_getElem?_getD]

theorem getD_snoc_eq' (l : List β) (x d : β) {i : Nat} (h : i = l.length) : (l ++ [x]).getD i d = x := by
  subst h; exact getD_snoc_eq l x d

end snoc

section
variable {α ρ : Type} [OfNat α 0] [Add α] [Mul α] [Sub α] [Div α] [HasConj α] [RealLike ρ α]
  [OfNat ρ 0] [NatCast ρ] [Div ρ] [LT ρ] [DecidableLT ρ]
variable (Afun : List α → List α) (dnorm : List α → ρ) (n : Nat)

/-! ### Lanczos -/

/-- `alpha[j]` as computed in iteration `j` -/
def lzA (j : Nat) (st : LState α ρ) : ρ := RealLike.re (vdot n (Afun (st.V.getD j [])) (st.V.getD j []))

/-- `w` after the three-term update of iteration `j` -/
def lzW (j : Nat) (st : LState α ρ) : List α :=
  vsub n (Afun (st.V.getD j []))
    (if 0 < j then
      vadd n (vscale n (RealLike.ofReal (lzA Afun n j st)) (st.V.getD j []))
        (vscale n (RealLike.ofReal (st.beta.getD (j - 1) 0)) (st.V.getD (j - 1) []))
    else vscale n (RealLike.ofReal (lzA Afun n j st)) (st.V.getD j []))

theorem lanczosStep_eq (j : Nat) (st : LState α ρ) :
    lanczosStep Afun dnorm n j st =
      if dnorm (lzW Afun n j st) < breakdownThr ρ n then
        ({ alpha := st.alpha ++ [lzA Afun n j st], beta := st.beta, V := st.V }, true)
      else
        ({ alpha := st.alpha ++ [lzA Afun n j st], beta := st.beta ++ [dnorm (lzW Afun n j st)],
           V := st.V ++ [vdiv n (lzW Afun n j st) (RealLike.ofReal (dnorm (lzW Afun n j st)))] }, false) := rfl

theorem lanczosLoop_zero (j : Nat) (st : LState α ρ) : lanczosLoop Afun dnorm n 0 j st = (st, false) := rfl

theorem lanczosLoop_succ (k j : Nat) (st : LState α ρ) :
    lanczosLoop Afun dnorm n (k + 1) j st =
      if (lanczosStep Afun dnorm n j st).2 then lanczosStep Afun dnorm n j st
      else lanczosLoop Afun dnorm n k (j + 1) (lanczosStep Afun dnorm n j st).1 := rfl

/-- sizes of a Lanczos state -/
def LState.Sized (st : LState α ρ) (a b v : Nat) : Prop :=
  st.alpha.length = a ∧ st.beta.length = b ∧ st.V.length = v

theorem lanczosStep_sized {j : Nat} {st : LState α ρ} (h : st.Sized j j (j + 1)) :
    ((lanczosStep Afun dnorm n j st).2 = true → (lanczosStep Afun dnorm n j st).1.Sized (j + 1) j (j + 1)) ∧
    ((lanczosStep Afun dnorm n j st).2 = false → (lanczosStep Afun dnorm n j st).1.Sized (j + 1) (j + 1) (j + 2)) := by
  obtain ⟨ha, hb, hv⟩ := h
  rw [lanczosStep_eq]
  split <;> simp [LState.Sized, ha, hb, hv]

theorem lanczosLoop_sized : ∀ (k j : Nat) (st : LState α ρ), st.Sized j j (j + 1) →
    ((lanczosLoop Afun dnorm n k j st).2 = true →
        ∃ j', j ≤ j' ∧ j' < j + k ∧ (lanczosLoop Afun dnorm n k j st).1.Sized (j' + 1) j' (j' + 1)) ∧
    ((lanczosLoop Afun dnorm n k j st).2 = false →
        (lanczosLoop Afun dnorm n k j st).1.Sized (j + k) (j + k) (j + k + 1))
  | 0, j, st, h => by
      rw [lanczosLoop_zero]
      exact ⟨fun hc => by simp at hc, fun _ => h⟩
  | k + 1, j, st, h => by
      rw [lanczosLoop_succ]
      have hs := lanczosStep_sized Afun dnorm n h
      by_cases hb : (lanczosStep Afun dnorm n j st).2 = true
      · rw [if_pos hb]
        exact ⟨fun _ => ⟨j, Nat.le_refl _, by omega, hs.1 hb⟩, fun hc => by rw [hb] at hc; simp at hc⟩
      · rw [if_neg hb]
        have hb' : (lanczosStep Afun dnorm n j st).2 = false := by simpa using hb
        have ih := lanczosLoop_sized k (j + 1) _ (hs.2 hb')
        refine ⟨fun hc => ?_, fun hc => ?_⟩
        · obtain ⟨j', h1, h2, h3⟩ := ih.1 hc
          exact ⟨j', by omega, by omega, h3⟩
        · have := ih.2 hc
          rwa [show j + 1 + k = j + (k + 1) by omega] at this

theorem lanczosFinish_sized {j : Nat} {st : LState α ρ} (h : st.Sized j j (j + 1)) :
    (lanczosFinish Afun n j st).Sized (j + 1) j (j + 1) := by
  obtain ⟨ha, hb, hv⟩ := h
  simp [lanczosFinish, LState.Sized, ha, hb, hv]

/-- unfolding of `lanczosCoreU` on its success path -/
theorem lanczosCoreU_ok {vstart : List α} {numiter : Nat} {st : LState α ρ}
    (h : lanczosCoreU Afun dnorm vstart numiter = .ok st) :
    decide (0 < dnorm vstart) = true ∧ numiter ≠ 0 ∧
    st = (if (lanczosLoop Afun dnorm vstart.length (numiter - 1) 0
              { alpha := [], beta := [], V := [vdiv vstart.length vstart (RealLike.ofReal (dnorm vstart))] }).2
          then (lanczosLoop Afun dnorm vstart.length (numiter - 1) 0
              { alpha := [], beta := [], V := [vdiv vstart.length vstart (RealLike.ofReal (dnorm vstart))] }).1
          else lanczosFinish Afun vstart.length (numiter - 1)
            (lanczosLoop Afun dnorm vstart.length (numiter - 1) 0
              { alpha := [], beta := [], V := [vdiv vstart.length vstart (RealLike.ofReal (dnorm vstart))] }).1) := by
  unfold lanczosCoreU at h
  by_cases h0 : decide (0 < dnorm vstart) = true
  · by_cases hm : numiter = 0
    · simp [pyAssert, h0, hm, bind, Except.bind, throw, throwThe, MonadExceptOf.throw] at h
    · refine ⟨h0, hm, ?_⟩
      simp only [pyAssert, h0, if_true, hm, if_false, bind, Except.bind, pure, Except.pure] at h
      split at h
      · rename_i hb; rw [if_pos hb]; injection h with h; exact h.symm
      · rename_i hb; rw [if_neg hb]; injection h with h; exact h.symm
  · simp [pyAssert, h0, bind, Except.bind] at h

/-- `lanczosCoreU` succeeds exactly when the norm of the start vector is positive and `numiter ≥ 1` -/
theorem lanczosCoreU_isOk {vstart : List α} {numiter : Nat} (h0 : 0 < dnorm vstart) (hm : 1 ≤ numiter) :
    ∃ st, lanczosCoreU Afun dnorm vstart numiter = .ok st := by
  have hm' : numiter ≠ 0 := by omega
  unfold lanczosCoreU
  simp only [pyAssert, decide_eq_true h0, if_true, hm', if_false, bind, Except.bind, pure, Except.pure]
  split <;> exact ⟨_, rfl⟩

theorem lanczosCoreU_sized {vstart : List α} {numiter : Nat} {st : LState α ρ}
    (h : lanczosCoreU Afun dnorm vstart numiter = .ok st) :
    ∃ k, 1 ≤ k ∧ k ≤ numiter ∧ st.Sized k (k - 1) k := by
  obtain ⟨_, hm, rfl⟩ := lanczosCoreU_ok Afun dnorm h
  have h0 : LState.Sized (α := α) (ρ := ρ)
      { alpha := [], beta := [], V := [vdiv vstart.length vstart (RealLike.ofReal (dnorm vstart))] } 0 0 (0 + 1) := by
    simp [LState.Sized]
  have hl := lanczosLoop_sized Afun dnorm vstart.length (numiter - 1) 0 _ h0
  split
  · rename_i hb
    obtain ⟨j', _, h2, h3⟩ := hl.1 hb
    exact ⟨j' + 1, by omega, by omega, h3⟩
  · rename_i hb
    have := lanczosFinish_sized Afun vstart.length (hl.2 (by simpa using hb))
    refine ⟨numiter, by omega, Nat.le_refl _, ?_⟩
    have e : 0 + (numiter - 1) + 1 = numiter := by omega
    have e' : 0 + (numiter - 1) = numiter - 1 := by omega
    rw [e'] at this
    rwa [show numiter - 1 + 1 = numiter by omega] at this

theorem lanczosCore_eq (vstart : List α) (numiter : Nat) :
    lanczosCore Afun dnorm vstart numiter = lanczosCoreU Afun dnorm vstart (min numiter vstart.length) := rfl

/-- the cap is idempotent -/
theorem lanczosCore_capped (vstart : List α) (numiter : Nat) :
    lanczosCore Afun dnorm vstart numiter = lanczosCore Afun dnorm vstart (min numiter vstart.length) := by
  rw [lanczosCore_eq, lanczosCore_eq, Nat.min_assoc, Nat.min_self]

/-- below the dimension the cap does nothing -/
theorem lanczosCore_eq_of_le {vstart : List α} {numiter : Nat} (h : numiter ≤ vstart.length) :
    lanczosCore Afun dnorm vstart numiter = lanczosCoreU Afun dnorm vstart numiter := by
  rw [lanczosCore_eq, Nat.min_eq_left h]

/-- unfolding of `lanczosCore` on its success path: the loop runs `min numiter vstart.length - 1` times (F11) -/
theorem lanczosCore_ok {vstart : List α} {numiter : Nat} {st : LState α ρ}
    (h : lanczosCore Afun dnorm vstart numiter = .ok st) :
    decide (0 < dnorm vstart) = true ∧ min numiter vstart.length ≠ 0 ∧
    st = (if (lanczosLoop Afun dnorm vstart.length (min numiter vstart.length - 1) 0
              { alpha := [], beta := [], V := [vdiv vstart.length vstart (RealLike.ofReal (dnorm vstart))] }).2
          then (lanczosLoop Afun dnorm vstart.length (min numiter vstart.length - 1) 0
              { alpha := [], beta := [], V := [vdiv vstart.length vstart (RealLike.ofReal (dnorm vstart))] }).1
          else lanczosFinish Afun vstart.length (min numiter vstart.length - 1)
            (lanczosLoop Afun dnorm vstart.length (min numiter vstart.length - 1) 0
              { alpha := [], beta := [], V := [vdiv vstart.length vstart (RealLike.ofReal (dnorm vstart))] }).1) :=
  lanczosCoreU_ok Afun dnorm h

/-- `lanczosCore` succeeds when the norm of the start vector is positive, `numiter ≥ 1` and the vector is not empty -/
theorem lanczosCore_isOk {vstart : List α} {numiter : Nat} (h0 : 0 < dnorm vstart) (hm : 1 ≤ numiter)
    (hn : 1 ≤ vstart.length) : ∃ st, lanczosCore Afun dnorm vstart numiter = .ok st :=
  lanczosCoreU_isOk Afun dnorm h0 (by omega)

/-- sizes of the capped run, with the bound by the dimension (F11) -/
theorem lanczosCore_sized' {vstart : List α} {numiter : Nat} {st : LState α ρ}
    (h : lanczosCore Afun dnorm vstart numiter = .ok st) :
    ∃ k, 1 ≤ k ∧ k ≤ numiter ∧ k ≤ vstart.length ∧ st.Sized k (k - 1) k := by
  obtain ⟨k, h1, h2, hs⟩ := lanczosCoreU_sized Afun dnorm h
  exact ⟨k, h1, by omega, by omega, hs⟩

theorem lanczosCore_sized {vstart : List α} {numiter : Nat} {st : LState α ρ}
    (h : lanczosCore Afun dnorm vstart numiter = .ok st) :
    ∃ k, 1 ≤ k ∧ k ≤ numiter ∧ st.Sized k (k - 1) k := by
  obtain ⟨k, h1, h2, _, hs⟩ := lanczosCore_sized' Afun dnorm h
  exact ⟨k, h1, h2, hs⟩

/-- `lanczos` is `lanczosCore` followed by the packaging of the result -/
theorem lanczos_ok {vstart : List α} {numiter : Nat} {alpha beta : List ρ} {V : Mat α}
    (h : lanczos Afun dnorm vstart numiter = .ok (alpha, beta, V)) :
    ∃ st, lanczosCore Afun dnorm vstart numiter = .ok st ∧ alpha = st.alpha ∧ beta = st.beta ∧
      V = colsMat vstart.length st.V := by
  unfold lanczos at h
  cases hc : lanczosCore Afun dnorm vstart numiter with
  | error e => rw [hc] at h; simp [bind, Except.bind] at h
  | ok st =>
    rw [hc] at h
    simp only [bind, Except.bind, pure, Except.pure, Except.ok.injEq, Prod.mk.injEq] at h
    exact ⟨st, rfl, h.1.symm, h.2.1.symm, h.2.2.symm⟩

/-- sizes of the outputs of `lanczos` -/
theorem lanczos_sizes {vstart : List α} {numiter : Nat} {alpha beta : List ρ} {V : Mat α}
    (h : lanczos Afun dnorm vstart numiter = .ok (alpha, beta, V)) :
    1 ≤ alpha.length ∧ alpha.length ≤ numiter ∧ beta.length = alpha.length - 1 ∧
      V.m = vstart.length ∧ V.n = alpha.length := by
  obtain ⟨st, hc, rfl, rfl, rfl⟩ := lanczos_ok Afun dnorm h
  obtain ⟨k, h1, h2, ha, hb, hv⟩ := lanczosCore_sized Afun dnorm hc
  exact ⟨by omega, by omega, by omega, rfl, by simp [colsMat, hv, ha]⟩

/-- F11: never more vectors than the dimension -/
theorem lanczos_le_length {vstart : List α} {numiter : Nat} {alpha beta : List ρ} {V : Mat α}
    (h : lanczos Afun dnorm vstart numiter = .ok (alpha, beta, V)) :
    V.n ≤ vstart.length ∧ alpha.length ≤ vstart.length := by
  obtain ⟨st, hc, rfl, rfl, rfl⟩ := lanczos_ok Afun dnorm h
  obtain ⟨k, _, _, h3, ha, _, hv⟩ := lanczosCore_sized' Afun dnorm hc
  exact ⟨by simp [colsMat, hv, h3], by omega⟩

/-- the cap is idempotent: `lanczos` at `numiter` is `lanczos` at `min numiter (len vstart)` -/
theorem lanczos_capped' (vstart : List α) (numiter : Nat) :
    lanczos Afun dnorm vstart numiter = lanczos Afun dnorm vstart (min numiter vstart.length) := by
  unfold lanczos; rw [lanczosCore_capped]

theorem lanczos_isOk {vstart : List α} {numiter : Nat} (h0 : 0 < dnorm vstart) (hm : 1 ≤ numiter)
    (hn : 1 ≤ vstart.length) : ∃ r, lanczos Afun dnorm vstart numiter = .ok r := by
  obtain ⟨st, hst⟩ := lanczosCore_isOk Afun dnorm h0 hm hn
  exact ⟨_, by unfold lanczos; rw [hst]; rfl⟩

/-- the two ways to fail.  After F11 the `ValueError` of `np.zeros(numiter-1)` is raised when the *capped* count is `0`:
`numiter = 0`, or an empty start vector whose (non-contract) norm is reported positive. -/
theorem lanczos_error {vstart : List α} {numiter : Nat} {e : Err}
    (h : lanczos Afun dnorm vstart numiter = .error e) :
    (e = .assertion ∧ ¬ 0 < dnorm vstart) ∨ (e = .value ∧ (numiter = 0 ∨ vstart.length = 0)) := by
  by_cases h0 : 0 < dnorm vstart
  · by_cases hm : min numiter vstart.length = 0
    · right
      unfold lanczos lanczosCore lanczosCoreU at h
      simp [pyAssert, h0, hm, bind, Except.bind, throw, throwThe, MonadExceptOf.throw] at h
      exact ⟨h.symm, by omega⟩
    · exfalso
      obtain ⟨r, hr⟩ := lanczos_isOk Afun dnorm (numiter := numiter) h0 (by omega) (by omega)
      rw [hr] at h; cases h
  · left
    unfold lanczos lanczosCore lanczosCoreU at h
    simp [pyAssert, h0, bind, Except.bind] at h
    exact ⟨h.symm, h0⟩

/-- the residual `A v_j - alpha_j v_j - beta_{j-1} v_{j-1}` computed from a (final) state -/
def lzRes (st : LState α ρ) (j : Nat) : List α :=
  vsub n (Afun (st.V.getD j []))
    (if 0 < j then
      vadd n (vscale n (RealLike.ofReal (st.alpha.getD j 0)) (st.V.getD j []))
        (vscale n (RealLike.ofReal (st.beta.getD (j - 1) 0)) (st.V.getD (j - 1) []))
    else vscale n (RealLike.ofReal (st.alpha.getD j 0)) (st.V.getD j []))

theorem lanczosStep_break_cause {j : Nat} {st : LState α ρ} (h : st.Sized j j (j + 1))
    (hb : (lanczosStep Afun dnorm n j st).2 = true) :
    dnorm (lzRes Afun n (lanczosStep Afun dnorm n j st).1 j) < breakdownThr ρ n := by
  obtain ⟨ha, _, _⟩ := h
  rw [lanczosStep_eq] at hb ⊢
  by_cases hlt : dnorm (lzW Afun n j st) < breakdownThr ρ n
  · rw [if_pos hlt]
    have e : lzRes Afun n { alpha := st.alpha ++ [lzA Afun n j st], beta := st.beta, V := st.V } j = lzW Afun n j st := by
      unfold lzRes lzW
      simp only [getD_snoc_eq' st.alpha (lzA Afun n j st) 0 ha.symm]
    rw [e]; exact hlt
  · rw [if_neg hlt] at hb; simp at hb

/-- the loop ends prematurely only because the residual norm fell below the threshold -/
theorem lanczosLoop_break_cause : ∀ (k j : Nat) (st : LState α ρ), st.Sized j j (j + 1) →
    (lanczosLoop Afun dnorm n k j st).2 = true →
      ∃ j', (lanczosLoop Afun dnorm n k j st).1.Sized (j' + 1) j' (j' + 1) ∧
        dnorm (lzRes Afun n (lanczosLoop Afun dnorm n k j st).1 j') < breakdownThr ρ n
  | 0, j, st, _, hc => by rw [lanczosLoop_zero] at hc; simp at hc
  | k + 1, j, st, h, hc => by
      rw [lanczosLoop_succ] at hc ⊢
      have hs := lanczosStep_sized Afun dnorm n h
      by_cases hb : (lanczosStep Afun dnorm n j st).2 = true
      · rw [if_pos hb]
        exact ⟨j, hs.1 hb, lanczosStep_break_cause Afun dnorm n h hb⟩
      · rw [if_neg hb] at hc ⊢
        exact lanczosLoop_break_cause k (j + 1) _ (hs.2 (by simpa using hb)) hc

/-- if fewer than `numiter` vectors are returned, the last residual norm is below the threshold -/
theorem lanczosCoreU_short {vstart : List α} {numiter : Nat} {st : LState α ρ}
    (h : lanczosCoreU Afun dnorm vstart numiter = .ok st) (hk : st.alpha.length < numiter) :
    dnorm (lzRes Afun vstart.length st (st.alpha.length - 1)) < breakdownThr ρ vstart.length := by
  obtain ⟨_, hm, rfl⟩ := lanczosCoreU_ok Afun dnorm h
  have h0 : LState.Sized (α := α) (ρ := ρ)
      { alpha := [], beta := [], V := [vdiv vstart.length vstart (RealLike.ofReal (dnorm vstart))] } 0 0 (0 + 1) := by
    simp [LState.Sized]
  have hl := lanczosLoop_sized Afun dnorm vstart.length (numiter - 1) 0 _ h0
  by_cases hb : (lanczosLoop Afun dnorm vstart.length (numiter - 1) 0
      { alpha := [], beta := [], V := [vdiv vstart.length vstart (RealLike.ofReal (dnorm vstart))] }).2 = true
  · rw [if_pos hb] at hk ⊢
    obtain ⟨j', hs, hlt⟩ := lanczosLoop_break_cause Afun dnorm vstart.length (numiter - 1) 0 _ h0 hb
    rw [hs.1, Nat.add_sub_cancel]; exact hlt
  · rw [if_neg hb] at hk
    have := lanczosFinish_sized Afun vstart.length (hl.2 (by simpa using hb))
    rw [show 0 + (numiter - 1) = numiter - 1 by omega] at this
    rw [this.1] at hk
    omega

/-- if fewer than `min numiter (len vstart)` vectors are returned, the last residual norm is below the threshold -/
theorem lanczosCore_short {vstart : List α} {numiter : Nat} {st : LState α ρ}
    (h : lanczosCore Afun dnorm vstart numiter = .ok st) (hk : st.alpha.length < min numiter vstart.length) :
    dnorm (lzRes Afun vstart.length st (st.alpha.length - 1)) < breakdownThr ρ vstart.length :=
  lanczosCoreU_short Afun dnorm h hk

/-! ### Arnoldi -/

/-- `(w, H[0..j, j])` after the Gram–Schmidt loop of iteration `j` -/
def arW (j : Nat) (st : AState α ρ) : List α × List α := mgs n (st.V.take (j + 1)) (Afun (st.V.getD j []))

theorem arnoldiStep_eq (j : Nat) (st : AState α ρ) :
    arnoldiStep Afun dnorm n j st =
      if dnorm (arW Afun n j st).1 < breakdownThr ρ n then
        ({ cols := st.cols ++ [(arW Afun n j st).2], sub := st.sub, V := st.V }, true)
      else
        ({ cols := st.cols ++ [(arW Afun n j st).2], sub := st.sub ++ [dnorm (arW Afun n j st).1],
           V := st.V ++ [vdiv n (arW Afun n j st).1 (RealLike.ofReal (dnorm (arW Afun n j st).1))] }, false) := rfl

theorem arnoldiLoop_zero (j : Nat) (st : AState α ρ) : arnoldiLoop Afun dnorm n 0 j st = (st, false) := rfl

theorem arnoldiLoop_succ (k j : Nat) (st : AState α ρ) :
    arnoldiLoop Afun dnorm n (k + 1) j st =
      if (arnoldiStep Afun dnorm n j st).2 then arnoldiStep Afun dnorm n j st
      else arnoldiLoop Afun dnorm n k (j + 1) (arnoldiStep Afun dnorm n j st).1 := rfl

def AState.Sized (st : AState α ρ) (a b v : Nat) : Prop :=
  st.cols.length = a ∧ st.sub.length = b ∧ st.V.length = v

theorem arnoldiStep_sized {j : Nat} {st : AState α ρ} (h : st.Sized j j (j + 1)) :
    ((arnoldiStep Afun dnorm n j st).2 = true → (arnoldiStep Afun dnorm n j st).1.Sized (j + 1) j (j + 1)) ∧
    ((arnoldiStep Afun dnorm n j st).2 = false → (arnoldiStep Afun dnorm n j st).1.Sized (j + 1) (j + 1) (j + 2)) := by
  obtain ⟨ha, hb, hv⟩ := h
  rw [arnoldiStep_eq]
  split <;> simp [AState.Sized, ha, hb, hv]

theorem arnoldiLoop_sized : ∀ (k j : Nat) (st : AState α ρ), st.Sized j j (j + 1) →
    ((arnoldiLoop Afun dnorm n k j st).2 = true →
        ∃ j', j ≤ j' ∧ j' < j + k ∧ (arnoldiLoop Afun dnorm n k j st).1.Sized (j' + 1) j' (j' + 1)) ∧
    ((arnoldiLoop Afun dnorm n k j st).2 = false →
        (arnoldiLoop Afun dnorm n k j st).1.Sized (j + k) (j + k) (j + k + 1))
  | 0, j, st, h => by
      rw [arnoldiLoop_zero]
      exact ⟨fun hc => by simp at hc, fun _ => h⟩
  | k + 1, j, st, h => by
      rw [arnoldiLoop_succ]
      have hs := arnoldiStep_sized Afun dnorm n h
      by_cases hb : (arnoldiStep Afun dnorm n j st).2 = true
      · rw [if_pos hb]
        exact ⟨fun _ => ⟨j, Nat.le_refl _, by omega, hs.1 hb⟩, fun hc => by rw [hb] at hc; simp at hc⟩
      · rw [if_neg hb]
        have hb' : (arnoldiStep Afun dnorm n j st).2 = false := by simpa using hb
        have ih := arnoldiLoop_sized k (j + 1) _ (hs.2 hb')
        refine ⟨fun hc => ?_, fun hc => ?_⟩
        · obtain ⟨j', h1, h2, h3⟩ := ih.1 hc
          exact ⟨j', by omega, by omega, h3⟩
        · have := ih.2 hc
          rwa [show j + 1 + k = j + (k + 1) by omega] at this

theorem arnoldiFinish_sized {j : Nat} {st : AState α ρ} (h : st.Sized j j (j + 1)) :
    (arnoldiFinish Afun n j st).Sized (j + 1) j (j + 1) := by
  obtain ⟨ha, hb, hv⟩ := h
  simp [arnoldiFinish, AState.Sized, ha, hb, hv]

theorem arnoldiCoreU_ok {vstart : List α} {numiter : Nat} {st : AState α ρ}
    (h : arnoldiCoreU Afun dnorm vstart numiter = .ok st) :
    decide (0 < dnorm vstart) = true ∧ numiter ≠ 0 ∧
    st = (if (arnoldiLoop Afun dnorm vstart.length (numiter - 1) 0
              { cols := [], sub := [], V := [vdiv vstart.length vstart (RealLike.ofReal (dnorm vstart))] }).2
          then (arnoldiLoop Afun dnorm vstart.length (numiter - 1) 0
              { cols := [], sub := [], V := [vdiv vstart.length vstart (RealLike.ofReal (dnorm vstart))] }).1
          else arnoldiFinish Afun vstart.length (numiter - 1)
            (arnoldiLoop Afun dnorm vstart.length (numiter - 1) 0
              { cols := [], sub := [], V := [vdiv vstart.length vstart (RealLike.ofReal (dnorm vstart))] }).1) := by
  unfold arnoldiCoreU at h
  by_cases h0 : decide (0 < dnorm vstart) = true
  · by_cases hm : numiter = 0
    · simp [pyAssert, h0, hm, bind, Except.bind, throw, throwThe, MonadExceptOf.throw] at h
    · refine ⟨h0, hm, ?_⟩
      simp only [pyAssert, h0, if_true, hm, if_false, bind, Except.bind, pure, Except.pure] at h
      split at h
      · rename_i hb; rw [if_pos hb]; injection h with h; exact h.symm
      · rename_i hb; rw [if_neg hb]; injection h with h; exact h.symm
  · simp [pyAssert, h0, bind, Except.bind] at h

theorem arnoldiCoreU_isOk {vstart : List α} {numiter : Nat} (h0 : 0 < dnorm vstart) (hm : 1 ≤ numiter) :
    ∃ st, arnoldiCoreU Afun dnorm vstart numiter = .ok st := by
  have hm' : numiter ≠ 0 := by omega
  unfold arnoldiCoreU
  simp only [pyAssert, decide_eq_true h0, if_true, hm', if_false, bind, Except.bind, pure, Except.pure]
  split <;> exact ⟨_, rfl⟩

theorem arnoldiCoreU_sized {vstart : List α} {numiter : Nat} {st : AState α ρ}
    (h : arnoldiCoreU Afun dnorm vstart numiter = .ok st) :
    ∃ k, 1 ≤ k ∧ k ≤ numiter ∧ st.Sized k (k - 1) k := by
  obtain ⟨_, hm, rfl⟩ := arnoldiCoreU_ok Afun dnorm h
  have h0 : AState.Sized (α := α) (ρ := ρ)
      { cols := [], sub := [], V := [vdiv vstart.length vstart (RealLike.ofReal (dnorm vstart))] } 0 0 (0 + 1) := by
    simp [AState.Sized]
  have hl := arnoldiLoop_sized Afun dnorm vstart.length (numiter - 1) 0 _ h0
  split
  · rename_i hb
    obtain ⟨j', _, h2, h3⟩ := hl.1 hb
    exact ⟨j' + 1, by omega, by omega, h3⟩
  · rename_i hb
    have := arnoldiFinish_sized Afun vstart.length (hl.2 (by simpa using hb))
    refine ⟨numiter, by omega, Nat.le_refl _, ?_⟩
    have e' : 0 + (numiter - 1) = numiter - 1 := by omega
    rw [e'] at this
    rwa [show numiter - 1 + 1 = numiter by omega] at this

theorem arnoldiStep_break_cause {j : Nat} {st : AState α ρ}
    (hb : (arnoldiStep Afun dnorm n j st).2 = true) :
    dnorm (arW Afun n j (arnoldiStep Afun dnorm n j st).1).1 < breakdownThr ρ n := by
  rw [arnoldiStep_eq] at hb ⊢
  by_cases hlt : dnorm (arW Afun n j st).1 < breakdownThr ρ n
  · rw [if_pos hlt]; exact hlt
  · rw [if_neg hlt] at hb; simp at hb

/-- the loop ends prematurely only because the norm of the orthogonalised vector fell below the threshold -/
theorem arnoldiLoop_break_cause : ∀ (k j : Nat) (st : AState α ρ), st.Sized j j (j + 1) →
    (arnoldiLoop Afun dnorm n k j st).2 = true →
      ∃ j', (arnoldiLoop Afun dnorm n k j st).1.Sized (j' + 1) j' (j' + 1) ∧
        dnorm (arW Afun n j' (arnoldiLoop Afun dnorm n k j st).1).1 < breakdownThr ρ n
  | 0, j, st, _, hc => by rw [arnoldiLoop_zero] at hc; simp at hc
  | k + 1, j, st, h, hc => by
      rw [arnoldiLoop_succ] at hc ⊢
      have hs := arnoldiStep_sized Afun dnorm n h
      by_cases hb : (arnoldiStep Afun dnorm n j st).2 = true
      · rw [if_pos hb]
        exact ⟨j, hs.1 hb, arnoldiStep_break_cause Afun dnorm n hb⟩
      · rw [if_neg hb] at hc ⊢
        exact arnoldiLoop_break_cause k (j + 1) _ (hs.2 (by simpa using hb)) hc

theorem arnoldiCoreU_short {vstart : List α} {numiter : Nat} {st : AState α ρ}
    (h : arnoldiCoreU Afun dnorm vstart numiter = .ok st) (hk : st.cols.length < numiter) :
    dnorm (arW Afun vstart.length (st.cols.length - 1) st).1 < breakdownThr ρ vstart.length := by
  obtain ⟨_, hm, rfl⟩ := arnoldiCoreU_ok Afun dnorm h
  have h0 : AState.Sized (α := α) (ρ := ρ)
      { cols := [], sub := [], V := [vdiv vstart.length vstart (RealLike.ofReal (dnorm vstart))] } 0 0 (0 + 1) := by
    simp [AState.Sized]
  have hl := arnoldiLoop_sized Afun dnorm vstart.length (numiter - 1) 0 _ h0
  by_cases hb : (arnoldiLoop Afun dnorm vstart.length (numiter - 1) 0
      { cols := [], sub := [], V := [vdiv vstart.length vstart (RealLike.ofReal (dnorm vstart))] }).2 = true
  · rw [if_pos hb] at hk ⊢
    obtain ⟨j', hs, hlt⟩ := arnoldiLoop_break_cause Afun dnorm vstart.length (numiter - 1) 0 _ h0 hb
    rw [hs.1, Nat.add_sub_cancel]; exact hlt
  · rw [if_neg hb] at hk
    have := arnoldiFinish_sized Afun vstart.length (hl.2 (by simpa using hb))
    rw [show 0 + (numiter - 1) = numiter - 1 by omega] at this
    rw [this.1] at hk
    omega

theorem arnoldiCore_eq (vstart : List α) (numiter : Nat) :
    arnoldiCore Afun dnorm vstart numiter = arnoldiCoreU Afun dnorm vstart (min numiter vstart.length) := rfl

/-- the cap is idempotent -/
theorem arnoldiCore_capped (vstart : List α) (numiter : Nat) :
    arnoldiCore Afun dnorm vstart numiter = arnoldiCore Afun dnorm vstart (min numiter vstart.length) := by
  rw [arnoldiCore_eq, arnoldiCore_eq, Nat.min_assoc, Nat.min_self]

theorem arnoldiCore_eq_of_le {vstart : List α} {numiter : Nat} (h : numiter ≤ vstart.length) :
    arnoldiCore Afun dnorm vstart numiter = arnoldiCoreU Afun dnorm vstart numiter := by
  rw [arnoldiCore_eq, Nat.min_eq_left h]

theorem arnoldiCore_ok {vstart : List α} {numiter : Nat} {st : AState α ρ}
    (h : arnoldiCore Afun dnorm vstart numiter = .ok st) :
    decide (0 < dnorm vstart) = true ∧ min numiter vstart.length ≠ 0 ∧
    st = (if (arnoldiLoop Afun dnorm vstart.length (min numiter vstart.length - 1) 0
              { cols := [], sub := [], V := [vdiv vstart.length vstart (RealLike.ofReal (dnorm vstart))] }).2
          then (arnoldiLoop Afun dnorm vstart.length (min numiter vstart.length - 1) 0
              { cols := [], sub := [], V := [vdiv vstart.length vstart (RealLike.ofReal (dnorm vstart))] }).1
          else arnoldiFinish Afun vstart.length (min numiter vstart.length - 1)
            (arnoldiLoop Afun dnorm vstart.length (min numiter vstart.length - 1) 0
              { cols := [], sub := [], V := [vdiv vstart.length vstart (RealLike.ofReal (dnorm vstart))] }).1) :=
  arnoldiCoreU_ok Afun dnorm h

theorem arnoldiCore_isOk {vstart : List α} {numiter : Nat} (h0 : 0 < dnorm vstart) (hm : 1 ≤ numiter)
    (hn : 1 ≤ vstart.length) : ∃ st, arnoldiCore Afun dnorm vstart numiter = .ok st :=
  arnoldiCoreU_isOk Afun dnorm h0 (by omega)

theorem arnoldiCore_sized' {vstart : List α} {numiter : Nat} {st : AState α ρ}
    (h : arnoldiCore Afun dnorm vstart numiter = .ok st) :
    ∃ k, 1 ≤ k ∧ k ≤ numiter ∧ k ≤ vstart.length ∧ st.Sized k (k - 1) k := by
  obtain ⟨k, h1, h2, hs⟩ := arnoldiCoreU_sized Afun dnorm h
  exact ⟨k, h1, by omega, by omega, hs⟩

theorem arnoldiCore_sized {vstart : List α} {numiter : Nat} {st : AState α ρ}
    (h : arnoldiCore Afun dnorm vstart numiter = .ok st) :
    ∃ k, 1 ≤ k ∧ k ≤ numiter ∧ st.Sized k (k - 1) k := by
  obtain ⟨k, h1, h2, _, hs⟩ := arnoldiCore_sized' Afun dnorm h
  exact ⟨k, h1, h2, hs⟩

theorem arnoldiCore_short {vstart : List α} {numiter : Nat} {st : AState α ρ}
    (h : arnoldiCore Afun dnorm vstart numiter = .ok st) (hk : st.cols.length < min numiter vstart.length) :
    dnorm (arW Afun vstart.length (st.cols.length - 1) st).1 < breakdownThr ρ vstart.length :=
  arnoldiCoreU_short Afun dnorm h hk

/-- `arnoldi` is `arnoldiCore` followed by the packaging of the result -/
theorem arnoldi_ok {vstart : List α} {numiter : Nat} {H V : Mat α}
    (h : arnoldi Afun dnorm vstart numiter = .ok (H, V)) :
    ∃ st, arnoldiCore Afun dnorm vstart numiter = .ok st ∧ H = hessMat st.cols st.sub ∧
      V = colsMat vstart.length st.V := by
  unfold arnoldi at h
  cases hc : arnoldiCore Afun dnorm vstart numiter with
  | error e => rw [hc] at h; simp [bind, Except.bind] at h
  | ok st =>
    rw [hc] at h
    simp only [bind, Except.bind, pure, Except.pure, Except.ok.injEq, Prod.mk.injEq] at h
    exact ⟨st, rfl, h.1.symm, h.2.symm⟩

/-- F11: never more vectors than the dimension -/
theorem arnoldi_le_length {vstart : List α} {numiter : Nat} {H V : Mat α}
    (h : arnoldi Afun dnorm vstart numiter = .ok (H, V)) : V.n ≤ vstart.length ∧ H.m ≤ vstart.length := by
  obtain ⟨st, hc, rfl, rfl⟩ := arnoldi_ok Afun dnorm h
  obtain ⟨k, _, _, h3, ha, _, hv⟩ := arnoldiCore_sized' Afun dnorm hc
  exact ⟨by simp [colsMat, hv, h3], by simp [hessMat, ha, h3]⟩

theorem arnoldi_capped' (vstart : List α) (numiter : Nat) :
    arnoldi Afun dnorm vstart numiter = arnoldi Afun dnorm vstart (min numiter vstart.length) := by
  unfold arnoldi; rw [arnoldiCore_capped]

theorem arnoldi_isOk {vstart : List α} {numiter : Nat} (h0 : 0 < dnorm vstart) (hm : 1 ≤ numiter)
    (hn : 1 ≤ vstart.length) : ∃ r, arnoldi Afun dnorm vstart numiter = .ok r := by
  obtain ⟨st, hst⟩ := arnoldiCore_isOk Afun dnorm h0 hm hn
  exact ⟨_, by unfold arnoldi; rw [hst]; rfl⟩

/-- after F11 the `IndexError` of `V[0] = vstart` is raised when the *capped* count is `0` -/
theorem arnoldi_error {vstart : List α} {numiter : Nat} {e : Err}
    (h : arnoldi Afun dnorm vstart numiter = .error e) :
    (e = .assertion ∧ ¬ 0 < dnorm vstart) ∨ (e = .index ∧ (numiter = 0 ∨ vstart.length = 0)) := by
  by_cases h0 : 0 < dnorm vstart
  · by_cases hm : min numiter vstart.length = 0
    · right
      unfold arnoldi arnoldiCore arnoldiCoreU at h
      simp [pyAssert, h0, hm, bind, Except.bind, throw, throwThe, MonadExceptOf.throw] at h
      exact ⟨h.symm, by omega⟩
    · exfalso
      obtain ⟨r, hr⟩ := arnoldi_isOk Afun dnorm (numiter := numiter) h0 (by omega) (by omega)
      rw [hr] at h; cases h
  · left
    unfold arnoldi arnoldiCore arnoldiCoreU at h
    simp [pyAssert, h0, bind, Except.bind] at h
    exact ⟨h.symm, h0⟩

end
end Ptn.Krylov

import PtnModel.Proofs.EvoRevTop
/-!
# Non-vacuity of the sweep-level reversibility theorems (`Props/C09Sweep.lean`)

For the kernels `exK` over `ℂ` (QR kernel `realQR`, 2-norm, eigen-decomposition of `1 × 1` matrices, `dexp ≡ 1`, one
Lanczos iteration), the Hermitian two-site MPO `exOC = Z ⊗ 1 + 1 ⊗ Z` and the admissible state `exψC = |01⟩ + i|10⟩`:

* `exRev_calls` : a call with `dt = i` returns, the call with `-dt` on its result returns, the prologue state and the final
  sweep state of the first call are in canonical form with centre `0`, and the final sweep state is gauge equivalent to
  itself — i.e. all hypotheses of `tdvp1_step_reversible` / `tdvp1_steps_reversible` / `tdvp1_calls_reversible_partial`
  other than the exactness predicates hold jointly for actual runs;
* `exRev_exp`   : `E(a) E(-a) = 1` for the scalar exponential of `exK`.
-/
set_option linter.unusedSectionVars false

namespace Ptn.Evo
open Ptn Ptn.BondOps Ptn.Ortho Ptn.Env Ptn.Krylov Ptn.Dense Finset

theorem exRev_exp : ∀ (a : ℂ) (x : ℝ), exK.dexp (a * (x : ℂ)) * exK.dexp (-a * (x : ℂ)) = 1 := fun _ _ => by simp [exK]

theorem exRev_calls (n : Nat) : ∃ (ψ1 ψ2 : MPS ℂ) (nrm1 nrm2 : ℝ) (s0 b : Sweep ℂ),
    integrateLocalSinglesite exK exOC exψC Complex.I n 1 = .ok (ψ1, nrm1) ∧
    integrateLocalSinglesite exK exOC ψ1 (-Complex.I) n 1 = .ok (ψ2, nrm2) ∧
    prologue exK exOC exψC = .ok (s0, nrm1) ∧ Canon exOC exψC.qd s0 0 ∧
    iterate (tdvp1Step exK exOC exψC.qd Complex.I 1) n s0 = .ok b ∧ Canon exOC exψC.qd b 0 ∧ ψ1 = toMPS exψC b ∧
    GaugeEq exOC exψC.qd b b 0 ∧ Admissible ψ1 := by
  obtain ⟨ψ1, nrm1, h1⟩ := C08.tdvp1_total (k := exK) (H := exOC) (ψ := exψC) exK_ctx exK_exp (hh := 1 / 2) (τ := 1) rfl
    (dt := Complex.I) (by simp) (le_refl 1) C02.exOC_wf C02.exCompat rfl exψC_adm rfl n
  obtain ⟨hadm1, _, _, ψ2, nrm2, h2⟩ := tdvp1_reverse_ok (k := exK) (H := exOC) (ψ := exψC) exK_ctx exK_exp (hh := 1 / 2)
    (τ' := -1) rfl (dt' := -Complex.I) (by simp) (le_refl 1) C02.exOC_wf C02.exCompat rfl exψC_adm h1 n
  obtain ⟨s0, b, _, hp, _, _, hcan0, hit, hcanb, e⟩ := integrate1_canon (k := exK) (H := exOC) exK_ctx exψC_adm h1
  exact ⟨ψ1, ψ2, nrm1, nrm2, s0, b, h1, h2, hp, hcan0, hit, hcanb, e, GaugeEq.refl hcanb, hadm1⟩

end Ptn.Evo

import Mathlib.Algebra.Ring.Rat
import Mathlib.Tactic.Ring
import PtnModel.Proofs.GaugeBlock
/-!
# Gaussian rationals are a commutative ring with conjugation

`GRat` (the driver's exact scalar type) with the operations of `Model/Scalar.lean` is a commutative ring, and its `HasConj` instance
satisfies `ConjLaws`: the gauge theorems apply to the scalars the correspondence runs on.
-/
set_option linter.unnecessarySeqFocus false

namespace Ptn.GRat

theorem ext' {a b : GRat} (h1 : a.re = b.re) (h2 : a.im = b.im) : a = b := by
  cases a; cases b; simp_all

@[simp] theorem add_re (a b : GRat) : (a + b).re = a.re + b.re := rfl
@[simp] theorem add_im (a b : GRat) : (a + b).im = a.im + b.im := rfl
@[simp] theorem sub_re (a b : GRat) : (a - b).re = a.re - b.re := rfl
@[simp] theorem sub_im (a b : GRat) : (a - b).im = a.im - b.im := rfl
@[simp] theorem neg_re (a : GRat) : (-a).re = -a.re := rfl
@[simp] theorem neg_im (a : GRat) : (-a).im = -a.im := rfl
@[simp] theorem mul_re (a b : GRat) : (a * b).re = a.re * b.re - a.im * b.im := rfl
@[simp] theorem mul_im (a b : GRat) : (a * b).im = a.re * b.im + a.im * b.re := rfl
@[simp] theorem zero_re : (0 : GRat).re = 0 := rfl
@[simp] theorem zero_im : (0 : GRat).im = 0 := rfl
@[simp] theorem one_re : (1 : GRat).re = 1 := rfl
@[simp] theorem one_im : (1 : GRat).im = 0 := rfl
@[simp] theorem conj_re (a : GRat) : (HasConj.conj a).re = a.re := rfl
@[simp] theorem conj_im (a : GRat) : (HasConj.conj a).im = -a.im := rfl

/-- the ring structure on `GRat` whose operations are those of the model -/
instance instCommRing : CommRing GRat where
  add := (· + ·)
  zero := 0
  neg := fun a => -a
  sub := fun a b => a - b
  mul := (· * ·)
  one := 1
  add_assoc a b c := by apply ext' <;> simp [add_assoc]
  zero_add a := by apply ext' <;> simp
  add_zero a := by apply ext' <;> simp
  add_comm a b := by apply ext' <;> simp [add_comm]
  neg_add_cancel a := by apply ext' <;> simp
  sub_eq_add_neg a b := by apply ext' <;> simp [sub_eq_add_neg]
  mul_assoc a b c := by apply ext' <;> simp <;> ring
  one_mul a := by apply ext' <;> simp
  mul_one a := by apply ext' <;> simp
  zero_mul a := by apply ext' <;> simp
  mul_zero a := by apply ext' <;> simp
  left_distrib a b c := by apply ext' <;> simp <;> ring
  right_distrib a b c := by apply ext' <;> simp <;> ring
  mul_comm a b := by apply ext' <;> simp <;> ring
  nsmul := nsmulRec
  zsmul := zsmulRec

theorem conjLaws : Ptn.Ham.Gauge.ConjLaws GRat where
  add a b := by apply ext' <;> simp <;> ring
  mul a b := by apply ext' <;> simp <;> ring
  invol a := by apply ext' <;> simp

end Ptn.GRat

import PtnModel.Proofs.EvoChain
import PtnModel.Proofs.EvoBridge
/-!
# Mixed-canonical matrix product states: norm, energy and gauge moves (MPS level)

For a shaped MPS `ψ` (C04 `MPS.Shaped`) whose tensors left of site `i` are left isometries and right of it right
isometries:
* `mixed_inner`  : `⟨ψ[i := B] | ψ[i := A]⟩ = ⟨B, A⟩`;
* `normSq_setSite`, `energy_setSite` : squared norm and energy of `ψ[i := X]` are `‖X‖²` and `⟨X, H_eff X⟩`;
* `amp_gauge`    : replacing the tensors of the sites `j, j+1` by a pair with the same two-site product keeps `amp`.
-/
set_option linter.unusedSectionVars false

namespace Ptn.Evo
open Ptn Ptn.BondOps Ptn.Ortho Ptn.Env Ptn.Krylov Finset

variable {𝕜 : Type} [RCLike 𝕜] [DecidableEq 𝕜]
local notation "conj" => starRingEnd 𝕜

/-- squared norm of the dense vector, as an element of `𝕜` -/
noncomputable def normSq (ψ : MPS 𝕜) (d : Nat) : 𝕜 := ∑ σ ∈ digitsU d ψ.A.length, star (ψ.amp σ) * ψ.amp σ

/-- energy expectation value `⟨ψ|H|ψ⟩` of the dense vector (not divided by the norm) -/
noncomputable def energy (ψ : MPS 𝕜) (o : MPO 𝕜) (d : Nat) : 𝕜 :=
  ∑ σ ∈ digitsU d ψ.A.length, ∑ τ ∈ digitsU d ψ.A.length, star (ψ.amp σ) * o.elem σ τ * ψ.amp τ

omit [DecidableEq 𝕜] in
theorem mem_take_getD {l : List (T3 𝕜)} {i : Nat} {X : T3 𝕜} (h : X ∈ l.take i) :
    ∃ j, j < i ∧ j < l.length ∧ X = l.getD j emptyT3 := by
  obtain ⟨j, hj, rfl⟩ := List.mem_iff_getElem.1 h
  have hj' : j < min i l.length := by simpa using hj
  refine ⟨j, by omega, by omega, ?_⟩
  rw [List.getElem_take, List.getD_eq_getElem?_getD, List.getElem?_eq_getElem (by omega)]
  rfl

omit [DecidableEq 𝕜] in
theorem mem_drop_getD {l : List (T3 𝕜)} {i : Nat} {X : T3 𝕜} (h : X ∈ l.drop i) :
    ∃ j, i ≤ j ∧ j < l.length ∧ X = l.getD j emptyT3 := by
  obtain ⟨j, hj, rfl⟩ := List.mem_iff_getElem.1 h
  have hj' : j < l.length - i := by simpa using hj
  refine ⟨i + j, by omega, by omega, ?_⟩
  rw [List.getElem_drop, List.getD_eq_getElem?_getD, List.getElem?_eq_getElem (by omega)]
  rfl

/-- **Mixed-canonical inner product.** -/
theorem mixed_inner {ψ : MPS 𝕜} {d : Nat} (hψ : C04.MPS.Shaped ψ d) {i : Nat} (hi : i < ψ.A.length)
    (hl : ∀ j, j < i → LeftIso (ψ.A.getD j emptyT3))
    (hr : ∀ j, i < j → j < ψ.A.length → RightIso (ψ.A.getD j emptyT3)) {A B : T3 𝕜}
    (hA0 : A.d0 = d) (hA1 : A.d1 = mpsBond ψ i) (hA2 : A.d2 = mpsBond ψ (i + 1))
    (hB0 : B.d0 = d) (hB1 : B.d1 = mpsBond ψ i) (hB2 : B.d2 = mpsBond ψ (i + 1)) :
    ∑ σ ∈ digitsU d ψ.A.length, star ((ψ.setSite i B).amp σ) * (ψ.setSite i A).amp σ =
      ∑ s ∈ range d, ∑ a ∈ range (mpsBond ψ i), ∑ b ∈ range (mpsBond ψ (i + 1)), star (B.f s a b) * A.f s a b := by
  have hψ' := hψ.2
  have cL : Chain3 (List.replicate i d) (ψ.A.take i) 1 (mpsBond ψ i) := by
    have := chain3_take hψ' i (Nat.le_of_lt hi)
    rwa [take_replicate_le (Nat.le_of_lt hi)] at this
  have cR : Chain3 (List.replicate (ψ.A.length - (i + 1)) d) (ψ.A.drop (i + 1)) (mpsBond ψ (i + 1)) 1 := by
    have := chain3_drop hψ' (i + 1) (Nat.succ_le_of_lt hi)
    rwa [drop_replicate'] at this
  have cA : Chain3 (List.replicate ψ.A.length d) (ψ.A.take i ++ A :: ψ.A.drop (i + 1)) 1 1 := by
    rw [replicate_split hi]
    exact chain3_append cL (by simp only [chain3_cons]; exact ⟨hA0, hA1, hA2 ▸ cR⟩)
  have cB : Chain3 (List.replicate ψ.A.length d) (ψ.A.take i ++ B :: ψ.A.drop (i + 1)) 1 1 := by
    rw [replicate_split hi]
    exact chain3_append cL (by simp only [chain3_cons]; exact ⟨hB0, hB1, hB2 ▸ cR⟩)
  have sA : (ψ.setSite i A).A = ψ.A.take i ++ A :: ψ.A.drop (i + 1) := by
    simp only [MPS.setSite, List.set_eq_take_append_cons_drop, hi, if_true]
  have sB : (ψ.setSite i B).A = ψ.A.take i ++ B :: ψ.A.drop (i + 1) := by
    simp only [MPS.setSite, List.set_eq_take_append_cons_drop, hi, if_true]
  have e1 : ∀ σ ∈ digitsU d ψ.A.length, star ((ψ.setSite i B).amp σ) * (ψ.setSite i A).amp σ =
      star (pmat (ψ.A.take i ++ B :: ψ.A.drop (i + 1)) σ 0 0) * pmat (ψ.A.take i ++ A :: ψ.A.drop (i + 1)) σ 0 0 := by
    intro σ hσ
    rw [amp_eq_pmat (ψ := ψ.setSite i B) (sB ▸ cB) hσ, amp_eq_pmat (ψ := ψ.setSite i A) (sA ▸ cA) hσ, sA, sB]
  rw [Finset.sum_congr rfl e1]
  have := mixed_inner_chain (d := d) (A := A) (B := B) cL cR
    (fun X hX => by
      obtain ⟨j, hj, _, rfl⟩ := mem_take_getD hX
      exact hl j hj)
    (fun X hX => by
      obtain ⟨j, hj, hj', rfl⟩ := mem_drop_getD hX
      exact hr j (by omega) hj') hA2 hB2
  rw [← replicate_split hi] at this
  exact this

/-- squared norm of `ψ[i := X]` in mixed-canonical form -/
theorem normSq_setSite {ψ : MPS 𝕜} {d : Nat} (hψ : C04.MPS.Shaped ψ d) {i : Nat} (hi : i < ψ.A.length)
    (hl : ∀ j, j < i → LeftIso (ψ.A.getD j emptyT3))
    (hr : ∀ j, i < j → j < ψ.A.length → RightIso (ψ.A.getD j emptyT3)) {X : T3 𝕜}
    (h0 : X.d0 = d) (h1 : X.d1 = mpsBond ψ i) (h2 : X.d2 = mpsBond ψ (i + 1)) :
    normSq (ψ.setSite i X) d = ((frob3 X : ℝ) : 𝕜) := by
  unfold normSq
  have hlen : (ψ.setSite i X).A.length = ψ.A.length := by simp [MPS.setSite]
  rw [hlen, mixed_inner hψ hi hl hr h0 h1 h2 h0 h1 h2, ← inner3_self]
  unfold inner3
  rw [h0, h1, h2]
  rfl

/-- energy of `ψ[i := X]`: the local quadratic form -/
theorem energy_setSite {ψ : MPS 𝕜} {o : MPO 𝕜} {d : Nat} (hψ : C04.MPS.Shaped ψ d) (ho : C04.MPO.Shaped o d)
    (hL : ψ.A.length = o.A.length) {i : Nat} (hi : i < ψ.A.length) {W : T4 𝕜} (hW : o.A[i]? = some W) {X T : T3 𝕜}
    (h0 : X.d0 = d) (h1 : X.d1 = mpsBond ψ i) (h2 : X.d2 = mpsBond ψ (i + 1))
    {Lb Rb : T3 𝕜} (hLb : IsLeftBlock ψ o d i Lb) (hRb : IsRightBlock ψ o d (i + 1) Rb)
    (hT : Op.applyLocalHamiltonian Lb Rb W X = .ok T) : energy (ψ.setSite i X) o d = inner3 X T := by
  obtain ⟨T', hT', t0, t1, t2, e⟩ := C04.local_projection hψ ho hL hi hW h0 h1 h2 h0 h1 h2 hLb hRb
  have : T' = T := Except.ok.inj (hT'.symm.trans hT)
  subst this
  unfold energy
  have hlen : (ψ.setSite i X).A.length = ψ.A.length := by simp [MPS.setSite]
  rw [hlen, ← e]
  unfold inner3
  rw [t0, t1, t2]
  rfl

/-- **Gauge move.**  If `ψ'` differs from `ψ` only in the tensors of the sites `j, j+1` (`j = Ls.length`), the two-site
products agree and both are shaped, then all amplitudes agree. -/
theorem amp_gauge {ψ ψ' : MPS 𝕜} {d : Nat} (hψ : C04.MPS.Shaped ψ d) (hψ' : C04.MPS.Shaped ψ' d)
    {Ls Rs : List (T3 𝕜)} {X Y X' Y' : T3 𝕜}
    (hA : ψ.A = Ls ++ X :: Y :: Rs) (hA' : ψ'.A = Ls ++ X' :: Y' :: Rs) (hd2 : Y'.d2 = Y.d2)
    (h : ∀ s a s' y, s < d → a < X.d1 → s' < d → y < Y.d2 →
      ∑ x ∈ range X'.d2, X'.f s a x * Y'.f s' x y = ∑ x ∈ range X.d2, X.f s a x * Y.f s' x y)
    {σ : List Nat} (hσ : σ ∈ digitsU d ψ.A.length) : ψ'.amp σ = ψ.amp σ := by
  have hlen : ψ'.A.length = ψ.A.length := by rw [hA', hA]; simp
  have hσ' : σ ∈ digitsU d ψ'.A.length := by rw [hlen]; exact hσ
  rw [amp_eq_pmat hψ'.2 hσ', amp_eq_pmat hψ.2 hσ]
  have hj : Ls.length + 1 < ψ.A.length := by rw [hA]; simp
  obtain ⟨σl, s, s', σr, hl, hs, hs', _, rfl⟩ := mem_digits_split2_inv hj hσ
  have cL : Chain3 (List.replicate Ls.length d) Ls 1 X.d1 := by
    have h1 := chain3_take hψ.2 Ls.length (by omega)
    rw [take_replicate_le (by omega)] at h1
    have e : ψ.A.take Ls.length = Ls := by rw [hA]; simp
    rw [e] at h1
    have hb : bond3 ψ.A 1 Ls.length = X.d1 := by
      rw [bond3_eq_d1 hψ.2 (by omega)]
      simp [hA]
    rw [hb] at h1
    exact h1
  rw [hA', hA]
  exact pmat_pair_chain cL hd2 (fun a y ha hy => h s a s' y hs ha hs' hy) hl σr

end Ptn.Evo

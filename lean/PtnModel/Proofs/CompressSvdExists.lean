import Mathlib.Analysis.InnerProductSpace.Spectrum
import Mathlib.Analysis.InnerProductSpace.Adjoint
import Mathlib.Analysis.InnerProductSpace.PiL2
import PtnModel.Proofs.QrExists
/-!
# Existence of the reduced singular value decomposition over `ℝ`/`ℂ` (any `RCLike` field)

Only used for non-vacuity: the kernel contract `C12.SVDContract` (for ALL matrices, rank-deficient ones and both
`m ≤ n`, `m > n`) is satisfied by some function.

* `exists_svd_linear` : for `T : E → F` linear with `dim E = n ≤ m = dim F` there are an orthonormal basis `v` of `E`,
  an orthonormal family `u : Fin n → F` and `σ ≥ 0` with `T vᵢ = σᵢ uᵢ` (spectral theorem for `T† T`, completion of
  the normalised images to an orthonormal basis of `F`).
-/
open Module Submodule Set InnerProductSpace Finset
open scoped InnerProductSpace

namespace Ptn.SvdExists

variable {𝕜 : Type} [RCLike 𝕜]

theorem exists_svd_linear {E F : Type} [NormedAddCommGroup E] [InnerProductSpace 𝕜 E] [FiniteDimensional 𝕜 E]
    [NormedAddCommGroup F] [InnerProductSpace 𝕜 F] [FiniteDimensional 𝕜 F]
    {m n : ℕ} (hn : finrank 𝕜 E = n) (hm : finrank 𝕜 F = m) (hnm : n ≤ m) (T : E →ₗ[𝕜] F) :
    ∃ (v : OrthonormalBasis (Fin n) 𝕜 E) (u : Fin n → F) (σ : Fin n → ℝ),
      Orthonormal 𝕜 u ∧ (∀ i, 0 ≤ σ i) ∧ ∀ i, T (v i) = (σ i : 𝕜) • u i := by
  classical
  have hS : (LinearMap.adjoint T ∘ₗ T).IsSymmetric := by
    intro x y
    simp only [LinearMap.comp_apply, LinearMap.adjoint_inner_left, LinearMap.adjoint_inner_right]
  let v := hS.eigenvectorBasis hn
  let lam := hS.eigenvalues hn
  have hTT : ∀ i j, ⟪T (v i), T (v j)⟫_𝕜 = if i = j then (lam j : 𝕜) else 0 := by
    intro i j
    have h1 : ⟪T (v i), T (v j)⟫_𝕜 = ⟪v i, (LinearMap.adjoint T ∘ₗ T) (v j)⟫_𝕜 := by
      rw [LinearMap.comp_apply, LinearMap.adjoint_inner_right]
    rw [h1, hS.apply_eigenvectorBasis hn j, inner_smul_right, orthonormal_iff_ite.1 v.orthonormal]
    split
    · simp only [mul_one]; rfl
    · simp
  have hlam : ∀ j, lam j = ‖T (v j)‖ ^ 2 := by
    intro j
    have := hTT j j
    rw [if_pos rfl, inner_self_eq_norm_sq_to_K] at this
    exact_mod_cast this.symm
  let σ : Fin n → ℝ := fun j => ‖T (v j)‖
  let g : Fin n → F := fun j => ((σ j : 𝕜))⁻¹ • T (v j)
  have hg : ∀ i j, σ i ≠ 0 → σ j ≠ 0 → ⟪g i, g j⟫_𝕜 = if i = j then 1 else 0 := by
    intro i j hi hj
    simp only [g, inner_smul_left, inner_smul_right, hTT i j]
    by_cases hij : i = j
    · subst hij
      rw [if_pos rfl, if_pos rfl, hlam i]
      have : ((σ i : ℝ) : 𝕜) ≠ 0 := by exact_mod_cast hi
      simp only [map_inv₀, RCLike.conj_ofReal]
      show ((σ i : ℝ) : 𝕜)⁻¹ * (((σ i : ℝ) : 𝕜)⁻¹ * ((σ i ^ 2 : ℝ) : 𝕜)) = 1
      rw [RCLike.ofReal_pow]
      field_simp
    · rw [if_neg hij, if_neg hij, mul_zero, mul_zero]
  -- extend the normalised images to an orthonormal basis of `F`
  let w : Fin m → F := fun i => if h : i.val < n then g ⟨i.val, h⟩ else 0
  let s : Set (Fin m) := {i | ∃ h : i.val < n, σ ⟨i.val, h⟩ ≠ 0}
  have hw : Orthonormal 𝕜 (s.domRestrict w) := by
    rw [orthonormal_iff_ite]
    intro x y
    obtain ⟨hx, hx0⟩ := x.prop
    obtain ⟨hy, hy0⟩ := y.prop
    have ex : s.domRestrict w x = g ⟨x.val.val, hx⟩ := by simp [Set.domRestrict, w, hx]
    have ey : s.domRestrict w y = g ⟨y.val.val, hy⟩ := by simp [Set.domRestrict, w, hy]
    rw [ex, ey, hg _ _ hx0 hy0]
    have : ((⟨x.val.val, hx⟩ : Fin n) = ⟨y.val.val, hy⟩) ↔ x = y := by
      constructor
      · intro h
        have := congrArg Fin.val h
        exact Subtype.ext (Fin.ext this)
      · intro h; subst h; rfl
    simp only [this]
  obtain ⟨b, hb⟩ := hw.exists_orthonormalBasis_extension_of_card_eq (by simpa using hm)
  refine ⟨v, fun j => b (Fin.castLE hnm j), σ, ?_, fun i => norm_nonneg _, ?_⟩
  · exact b.orthonormal.comp _ (Fin.castLE_injective hnm)
  · intro j
    by_cases h0 : σ j = 0
    · have : T (v j) = 0 := norm_eq_zero.1 h0
      rw [this, h0]; simp
    · have hs : Fin.castLE hnm j ∈ s := ⟨j.isLt, h0⟩
      show T (v j) = (σ j : 𝕜) • b (Fin.castLE hnm j)
      rw [hb _ hs]
      have : w (Fin.castLE hnm j) = g j := by simp [w]
      rw [this]
      simp only [g]
      have hne : ((σ j : ℝ) : 𝕜) ≠ 0 := by exact_mod_cast h0
      rw [smul_smul, mul_inv_cancel₀ hne, one_smul]

open Ptn.QrExists

/-- the five clauses of the SVD contract at one matrix, for a candidate triple -/
structure IsSvd (B U : Mat 𝕜) (s : List ℝ) (V : Mat 𝕜) : Prop where
  um : U.m = B.m
  un : U.n = min B.m B.n
  sl : s.length = min B.m B.n
  vm : V.m = min B.m B.n
  vn : V.n = B.n
  product : ∀ i j, i < B.m → j < B.n →
    ∑ p ∈ Finset.range (min B.m B.n), U.f i p * ((s.getD p 0 : ℝ) : 𝕜) * V.f p j = B.f i j
  isoU : ∀ p p', p < min B.m B.n → p' < min B.m B.n →
    ∑ i ∈ Finset.range B.m, star (U.f i p) * U.f i p' = if p = p' then 1 else 0
  isoV : ∀ p p', p < min B.m B.n → p' < min B.m B.n →
    ∑ j ∈ Finset.range B.n, V.f p j * star (V.f p' j) = if p = p' then 1 else 0
  nonneg : ∀ x ∈ s, 0 ≤ x

theorem coord_sum_smul {m : ℕ} {ι : Type} (S : Finset ι) (c : ι → 𝕜) (x : ι → EuclideanSpace 𝕜 (Fin m)) {i : ℕ}
    (hi : i < m) : coord (∑ q ∈ S, c q • x q) i = ∑ q ∈ S, c q * coord (x q) i := by
  simp [coord, hi, WithLp.ofLp_sum]

theorem getD_ofFn {n : ℕ} (σ : Fin n → ℝ) {p : ℕ} (hp : p < n) : (List.ofFn σ).getD p 0 = σ ⟨p, hp⟩ := by
  rw [List.getD_eq_getElem?_getD, List.getElem?_eq_getElem (by simpa using hp)]
  simp

/-- a reduced SVD of a tall matrix (`n ≤ m`) -/
theorem exists_svd_tall (B : Mat 𝕜) (hnm : B.n ≤ B.m) : ∃ U s V, IsSvd B U s V := by
  classical
  let ε := EuclideanSpace.basisFun (Fin B.n) 𝕜
  let T : EuclideanSpace 𝕜 (Fin B.n) →ₗ[𝕜] EuclideanSpace 𝕜 (Fin B.m) :=
    ε.toBasis.constr 𝕜 (fun j => colVec B j.val)
  have hT : ∀ j, T (ε j) = colVec B j.val := by
    intro j
    have := ε.toBasis.constr_basis 𝕜 (fun j => colVec B j.val) j
    rwa [OrthonormalBasis.coe_toBasis] at this
  obtain ⟨v, u, σ, hu, hσ, hTv⟩ := exists_svd_linear (𝕜 := 𝕜) (E := EuclideanSpace 𝕜 (Fin B.n))
    (F := EuclideanSpace 𝕜 (Fin B.m)) (by simp) (by simp) hnm T
  have hk : min B.m B.n = B.n := Nat.min_eq_right hnm
  let U : Mat 𝕜 := ⟨B.m, B.n, fun i p => if h : p < B.n then coord (u ⟨p, h⟩) i else 0⟩
  let V : Mat 𝕜 := ⟨B.n, B.n, fun p j => if h : p < B.n ∧ j < B.n then ⟪v ⟨p, h.1⟩, ε ⟨j, h.2⟩⟫_𝕜 else 0⟩
  refine ⟨U, List.ofFn σ, V, rfl, hk.symm, by simp [hk], hk.symm, rfl, ?_, ?_, ?_, ?_⟩
  · intro i j hi hj
    rw [hk]
    have h1 : ε ⟨j, hj⟩ = ∑ p, ⟪v p, ε ⟨j, hj⟩⟫_𝕜 • v p := (v.sum_repr' _).symm
    have h2 : colVec B j = ∑ p, ⟪v p, ε ⟨j, hj⟩⟫_𝕜 • ((σ p : 𝕜) • u p) := by
      have := congrArg T h1
      rw [hT, map_sum] at this
      simp only [map_smul, hTv] at this
      exact this
    have h3 := congrArg (fun x : EuclideanSpace 𝕜 (Fin B.m) => coord x i) h2
    simp only [coord_colVec B j hi] at h3
    rw [h3, coord_sum_smul _ _ _ hi, Finset.sum_range]
    refine Finset.sum_congr rfl fun p _ => ?_
    have hp : p.val < B.n := p.isLt
    simp only [U, V, dif_pos hp, dif_pos (And.intro hp hj), getD_ofFn σ hp]
    have : coord ((σ p : 𝕜) • u p) i = (σ p : 𝕜) * coord (u p) i := by
      simp [coord, hi, RCLike.real_smul_eq_coe_mul]
    rw [this]
    ring
  · intro p p' hp hp'
    rw [hk] at hp hp'
    simp only [U, dif_pos hp, dif_pos hp']
    rw [← inner_eq_sum_coord, orthonormal_iff_ite.1 hu]
    simp [Fin.ext_iff]
  · intro p p' hp hp'
    rw [hk] at hp hp'
    have := OrthonormalBasis.sum_inner_mul_inner ε (v ⟨p, hp⟩) (v ⟨p', hp'⟩)
    rw [orthonormal_iff_ite.1 v.orthonormal] at this
    rw [Finset.sum_range]
    have e : ∀ j : Fin B.n, V.f p j.val * star (V.f p' j.val) =
        ⟪v ⟨p, hp⟩, ε j⟫_𝕜 * ⟪ε j, v ⟨p', hp'⟩⟫_𝕜 := by
      intro j
      simp only [V, dif_pos (And.intro hp j.isLt), dif_pos (And.intro hp' j.isLt)]
      rw [← inner_conj_symm (ε j) (v ⟨p', hp'⟩)]
      rfl
    rw [Finset.sum_congr rfl (fun j _ => e j), this]
    simp [Fin.ext_iff]
  · intro x hx
    obtain ⟨i, rfl⟩ := (List.mem_ofFn' σ x).1 hx
    exact hσ i

/-- conjugate transpose -/
def ctr (B : Mat 𝕜) : Mat 𝕜 := ⟨B.n, B.m, fun i j => star (B.f j i)⟩

/-- a reduced SVD of a wide matrix (`m ≤ n`), from the tall case applied to the conjugate transpose -/
theorem exists_svd_wide (B : Mat 𝕜) (hmn : B.m ≤ B.n) : ∃ U s V, IsSvd B U s V := by
  obtain ⟨U', s, V', h⟩ := exists_svd_tall (ctr B) hmn
  have hk' : min (ctr B).m (ctr B).n = B.m := Nat.min_eq_right hmn
  have hk : min B.m B.n = B.m := Nat.min_eq_left hmn
  refine ⟨⟨B.m, B.m, fun i p => star (V'.f p i)⟩, s, ⟨B.m, B.n, fun p j => star (U'.f j p)⟩,
    rfl, hk.symm, ?_, hk.symm, rfl, ?_, ?_, ?_, h.nonneg⟩
  · rw [h.sl, hk', hk]
  · intro i j hi hj
    have := h.product j i hj hi
    rw [hk'] at this
    have e : B.f i j = star ((ctr B).f j i) := by simp [ctr]
    rw [e, ← this, star_sum, hk]
    refine Finset.sum_congr rfl fun p _ => ?_
    rw [star_mul', star_mul']
    have : star (((s.getD p 0 : ℝ) : 𝕜)) = ((s.getD p 0 : ℝ) : 𝕜) := RCLike.conj_ofReal _
    rw [this]
    ring
  · intro p p' hp hp'
    rw [hk] at hp hp'
    have := h.isoV p p' (by rw [hk']; exact hp) (by rw [hk']; exact hp')
    rw [← this]
    show ∑ i ∈ Finset.range B.m, star (star (V'.f p i)) * star (V'.f p' i) = ∑ j ∈ Finset.range B.m, _
    refine Finset.sum_congr rfl fun i _ => ?_
    rw [star_star]
  · intro p p' hp hp'
    rw [hk] at hp hp'
    have := h.isoU p p' (by rw [hk']; exact hp) (by rw [hk']; exact hp')
    rw [← this]
    show ∑ j ∈ Finset.range B.n, star (U'.f j p) * star (star (U'.f j p')) = ∑ i ∈ Finset.range B.n, _
    refine Finset.sum_congr rfl fun i _ => ?_
    rw [star_star]

theorem exists_svd (B : Mat 𝕜) : ∃ U s V, IsSvd B U s V := by
  rcases le_total B.n B.m with h | h
  · exact exists_svd_tall B h
  · exact exists_svd_wide B h

/-- a reduced singular value decomposition of every matrix (non-constructive) -/
noncomputable def fullSVD (B : Mat 𝕜) : Mat 𝕜 × List ℝ × Mat 𝕜 :=
  ((exists_svd B).choose, (exists_svd B).choose_spec.choose, (exists_svd B).choose_spec.choose_spec.choose)

theorem fullSVD_isSvd (B : Mat 𝕜) : IsSvd B (fullSVD B).1 (fullSVD B).2.1 (fullSVD B).2.2 :=
  (exists_svd B).choose_spec.choose_spec.choose_spec

end Ptn.SvdExists

import PtnModel.Proofs.OrthoMps
/-!
# Right-orthonormalization as left-orthonormalization of the mirrored chain

* `localRight_of_run`, `sweepRight_of_run` : a successful local right step / right sweep is a local left step /
  `SweepLeft` of the mirrored tensors (bond axes swapped, charges negated);
* `mirror ψ`, `admissible_mirror`, `pmat_mirror`, `amp_mirror`, `sum_digitsU_reverse`;
* `ortho_right_eq`, `leftRun_of_mps_right`, `mps_right_ok`.
-/
set_option linter.unusedSectionVars false
namespace Ptn.Ortho
open Ptn.BondOps Finset Ptn.Env

section generic
variable {𝕜 : Type} [CommRing 𝕜] [DecidableEq 𝕜]
variable {dqr : Mat 𝕜 → Mat 𝕜 × Mat 𝕜}

/-- the tensor `Aprev · Rᵀ` of a local right step (`np.tensordot(Aprev, R, (2, 1))`) -/
def pushL (R : Mat 𝕜) (Aprev : T3 𝕜) : T3 𝕜 :=
  (⟨Aprev.d0, Aprev.d1, R.m, fun s a p => sumRange R.n fun b => Aprev.f s a b * R.f p b⟩ : T3 𝕜).tab

theorem localRight_eq (A Aprev : T3 𝕜) (qd qL qR : List Int) :
    MPS.localOrthoRightQr dqr A Aprev qd qL qR =
      match qr dqr A.swap12.flattenLeft.tab (QN.flatten2 qd (QN.neg qR)) (QN.neg qL) with
      | .error e => .error e
      | .ok (Q, R, qb) =>
        if R.n ≠ Aprev.d2 then .error .value
        else .ok ((T3.ofFlattenLeft Q A.d0 A.d2).swap12.tab, pushL R Aprev, QN.neg qb) := by
  unfold MPS.localOrthoRightQr
  dsimp only
  cases h : qr dqr A.swap12.flattenLeft.tab (QN.flatten2 qd (QN.neg qR)) (QN.neg qL) with
  | error e => rfl
  | ok r =>
    obtain ⟨Q, R, qb⟩ := r
    by_cases hc : R.n ≠ Aprev.d2
    · simp only [bind, Except.bind]; rfl
    · simp only [bind, Except.bind]; rfl

theorem pushL_swap_eqv (R : Mat 𝕜) (X : T3 𝕜) : T3Eqv (pushL R X).swap12 (rawPush R X.swap12) :=
  ⟨rfl, rfl, rfl, fun s p c hs hp hc => by
    have hs' : s < X.d0 := hs
    have hp' : p < R.m := hp
    have hc' : c < X.d1 := hc
    show (pushL R X).f s c p = ∑ b ∈ range R.n, R.f p b * X.f s c b
    unfold pushL
    rw [Env.t3_tab_f (A := ⟨X.d0, X.d1, R.m, fun s a p => sumRange R.n fun b => X.f s a b * R.f p b⟩) hs' hc' hp']
    show sumRange R.n (fun b => X.f s c b * R.f p b) = _
    rw [Env.sumRange_eq]
    exact Finset.sum_congr rfl fun b _ => mul_comm _ _⟩

/-- a successful local right step is a local left step of the mirrored tensors -/
theorem localRight_of_run {A Aprev : T3 𝕜} {qd qL qR : List Int} {A' Aprev' : T3 𝕜} {qb : List Int}
    (h : MPS.localOrthoRightQr dqr A Aprev qd qL qR = .ok (A', Aprev', qb)) :
    LocalLeft dqr A.swap12 Aprev.swap12 qd (QN.neg qR) (QN.neg qL) A'.swap12 Aprev'.swap12 (QN.neg qb) := by
  rw [localRight_eq] at h
  cases hq : qr dqr A.swap12.flattenLeft.tab (QN.flatten2 qd (QN.neg qR)) (QN.neg qL) with
  | error e => rw [hq] at h; cases h
  | ok r =>
    obtain ⟨Q, R, qb'⟩ := r
    rw [hq] at h
    dsimp only at h
    by_cases hc : R.n ≠ Aprev.d2
    · rw [if_pos hc] at h; cases h
    · rw [if_neg hc] at h
      injection h with h
      injection h with h1 h
      injection h with h2 h3
      subst h3 h1 h2
      refine ⟨Q, R, by rw [neg_neg]; exact hq, not_not.1 hc, ?_, pushL_swap_eqv R Aprev⟩
      exact ⟨rfl, rfl, rfl, fun s a b hs ha hb =>
        Env.t3_tab_f (A := (T3.ofFlattenLeft Q A.d0 A.d2).swap12) hs hb ha⟩

/-- no exception in a local right step on admissible (mirrored) input -/
theorem localRight_ok (hshape : ∀ B, ShapeAt dqr B) {A Aprev : T3 𝕜} {qd qL qR : List Int}
    (hA : T3Wf A.swap12 qd (QN.neg qR) (QN.neg qL)) (hd : 0 < qd.length) (hL : 0 < qL.length)
    (hR : 0 < qR.length) (hN : Aprev.d2 = qL.length) :
    ∃ A' Aprev' qb, MPS.localOrthoRightQr dqr A Aprev qd qL qR = .ok (A', Aprev', qb) := by
  have H := qrInput_flattenLeft hA hd (by rw [neg_length]; exact hR) (by rw [neg_length]; exact hL)
  obtain ⟨Q, R, qb, hrun⟩ := qr_ok' (fun B _ => hshape B) H
  have hres := result_of_run (fun B _ => hshape B) H hrun
  refine ⟨(T3.ofFlattenLeft Q A.d0 A.d2).swap12.tab, pushL R Aprev, QN.neg qb, ?_⟩
  rw [localRight_eq, hrun]
  dsimp only
  rw [if_neg]
  rw [not_not, hres.Rn, hN, ← neg_length qL]
  exact hA.d2

theorem sweepRight_of_run {qd : List Int} : ∀ {rest : List (T3 𝕜)} {A : T3 𝕜} {qR : List Int} {qLs : List (List Int)}
    {As : List (T3 𝕜)} {qs : List (List Int)} {T : T3 𝕜},
    MPS.sweepRightQr dqr qd A qR rest qLs = .ok (As, qs, T) →
    SweepLeft dqr qd A.swap12 (QN.neg qR) (rest.map T3.swap12) (qLs.map QN.neg) (As.map T3.swap12)
      (qs.map QN.neg) T.swap12
  | [], A, qR, [], _, _, _, h => by simp [MPS.sweepRightQr] at h
  | [], A, qR, [qL], As, qs, T, h => by
    rw [MPS.sweepRightQr] at h
    cases hl : MPS.localOrthoRightQr dqr A MPS.ones111 qd qL qR with
    | error e => rw [hl] at h; cases h
    | ok r =>
      obtain ⟨A', T', qb⟩ := r
      rw [hl] at h
      injection h with h
      injection h with h1 h
      injection h with h2 h3
      subst h1 h2 h3
      exact SweepLeft.last (X := (MPS.ones111 : T3 𝕜).swap12) ⟨rfl, rfl, rfl, rfl⟩ (localRight_of_run hl)
  | [], A, qR, _ :: _ :: _, _, _, _, h => by simp [MPS.sweepRightQr] at h
  | Aprev :: rest, A, qR, [], _, _, _, h => by simp [MPS.sweepRightQr] at h
  | Aprev :: rest, A, qR, qL :: qRest, As, qs, T, h => by
    rw [MPS.sweepRightQr] at h
    cases hl : MPS.localOrthoRightQr dqr A Aprev qd qL qR with
    | error e => rw [hl] at h; cases h
    | ok r =>
      obtain ⟨A', Aprev', qb⟩ := r
      rw [hl] at h
      cases hs : MPS.sweepRightQr dqr qd Aprev' qb rest qRest with
      | error e => simp only [bind, Except.bind, hs] at h; cases h
      | ok r' =>
        obtain ⟨As', qs', T'⟩ := r'
        simp only [bind, Except.bind, hs] at h
        injection h with h
        injection h with h1 h
        injection h with h2 h3
        subst h1 h2 h3
        exact SweepLeft.cons (localRight_of_run hl) (sweepRight_of_run hs)


/-- no exception in the right sweep when the mirrored chain is well-formed and its last bond has dimension one -/
theorem sweepRight_ok (hshape : ∀ B, ShapeAt dqr B) {qd : List Int} (hd : 0 < qd.length) :
    ∀ {rest : List (T3 𝕜)} {A : T3 𝕜} {qR : List Int} {qLs : List (List Int)}, 0 < qR.length →
    WfChain qd (QN.neg qR) ((A :: rest).map T3.swap12) (qLs.map QN.neg) →
    (((QN.neg qR) :: qLs.map QN.neg).getLast?.getD []).length = 1 →
    ∃ As qs T, MPS.sweepRightQr dqr qd A qR rest qLs = .ok (As, qs, T)
  | [], A, qR, [], _, h, _ => by simp at h
  | [], A, qR, [qL], hR, h, h1 => by
    simp only [List.map_cons, List.map_nil, wfChain_cons, wfChain_nil, and_true] at h
    have h1' : qL.length = 1 := by simpa [neg_length] using h1
    obtain ⟨A', T, qb, hl⟩ := localRight_ok (Aprev := MPS.ones111) hshape h.1 hd (by omega) hR h1'.symm
    exact ⟨[A'], [qb], T, by rw [MPS.sweepRightQr, hl]; rfl⟩
  | [], A, qR, _ :: _ :: _, _, h, _ => by simp at h
  | Aprev :: rest, A, qR, [], _, h, _ => by simp at h
  | Aprev :: rest, A, qR, [qL], _, h, _ => by simp at h
  | Aprev :: rest, A, qR, qL :: qL' :: qRest, hR, h, h1 => by
    simp only [List.map_cons, wfChain_cons] at h
    obtain ⟨hA, hL, hN, hL', hrest⟩ := h
    have hLpos : 0 < qL.length := by rw [neg_length] at hL; exact hL
    obtain ⟨A', Aprev', qb, hl⟩ := localRight_ok (Aprev := Aprev) hshape hA hd hLpos hR
      (by have := hN.d1; rw [neg_length] at this; exact this)
    have hloc := localRight_of_run hl
    have hdims := hloc.dims hshape hA hd (by rw [neg_length]; exact hR) hL
    have hN' := hloc.wfNext hshape hA hd (by rw [neg_length]; exact hR) hL hN
    have h1' : (((QN.neg qb) :: (qL' :: qRest).map QN.neg).getLast?.getD []).length = 1 := by
      simp only [List.map_cons] at h1 ⊢
      rw [List.getLast?_cons_cons] at h1 ⊢
      rw [List.getLast?_cons_cons] at h1
      exact h1
    obtain ⟨As, qs, T, hs⟩ := sweepRight_ok hshape hd (rest := rest) (A := Aprev') (qR := qb)
      (qLs := qL' :: qRest) (by have := hdims.pos; rw [neg_length] at this; exact this)
      (by simp only [List.map_cons, wfChain_cons]; exact ⟨hN', hL', hrest⟩) h1'
    exact ⟨A' :: As, qb :: qs, T, by rw [MPS.sweepRightQr, hl]; simp only [bind, Except.bind, hs]; rfl⟩

end generic

section generic
variable {𝕜 : Type} [CommRing 𝕜] [DecidableEq 𝕜]
variable {dqr : Mat 𝕜 → Mat 𝕜 × Mat 𝕜}
variable {ρ : Type} [RealLike ρ 𝕜] [OfNat ρ 0] [OfNat ρ 1] [Neg ρ] [LT ρ] [DecidableLT ρ]

/-- `orthonormalize(mode='right')` in terms of the sweep -/
theorem ortho_right_eq (qd : List Int) (A0 : T3 𝕜) (rest : List (T3 𝕜)) (qD : List (List Int))
    {Al : T3 𝕜} {rrest : List (T3 𝕜)} {ql : List Int} {qrrest : List (List Int)}
    (hAr : (A0 :: rest).reverse = Al :: rrest) (hqr : qD.reverse = ql :: qrrest) :
    MPS.orthonormalize (ρ := ρ) dqr ⟨qd, qD, A0 :: rest⟩ false =
      match MPS.sweepRightQr dqr qd Al ql rrest qrrest with
      | .error e => .error e
      | .ok (As, qs, T) =>
        if (T.d0 == 1 && T.d1 == 1 && T.d2 == 1) = true then
          .ok (⟨qd, (ql :: qs).reverse,
              (if (RealLike.re (T.f 0 0 0) : ρ) < 0 then negLast As else As).reverse⟩,
            if (RealLike.re (T.f 0 0 0) : ρ) < 0 then -(RealLike.re (T.f 0 0 0) : ρ) else RealLike.re (T.f 0 0 0))
        else .error .assertion := by
  unfold MPS.orthonormalize
  simp only [Bool.false_eq_true, if_false]
  rw [hAr, hqr]
  dsimp only
  cases hs : MPS.sweepRightQr dqr qd Al ql rrest qrrest with
  | error e => rfl
  | ok r =>
    obtain ⟨As, qs, T⟩ := r
    simp only [bind, Except.bind, pyAssert]
    by_cases hT : (T.d0 == 1 && T.d1 == 1 && T.d2 == 1) = true
    · simp only [hT, if_true, take_drop_negLast]; rfl
    · simp only [hT]
      rfl
end generic

section generic
variable {𝕜 : Type} [CommRing 𝕜] [DecidableEq 𝕜]

/-- the mirrored chain: reversed order, bond axes swapped, bond charges negated and reversed -/
def mirror (ψ : MPS 𝕜) : MPS 𝕜 := ⟨ψ.qd, ψ.qD.reverse.map QN.neg, ψ.A.reverse.map T3.swap12⟩

theorem swap12_swap12 (A : T3 𝕜) : A.swap12.swap12 = A := rfl

theorem mirror_mirror (ψ : MPS 𝕜) : mirror (mirror ψ) = ψ := by
  obtain ⟨qd, qD, A⟩ := ψ
  simp only [mirror, List.map_reverse, List.reverse_reverse, List.map_map]
  congr 1
  · have : (QN.neg ∘ QN.neg) = id := by funext q; exact neg_neg q
    rw [this, List.map_id]
  · have : (T3.swap12 ∘ T3.swap12) = (id : T3 𝕜 → T3 𝕜) := by funext A; rfl
    rw [this, List.map_id]

theorem t3wf_swap {B : T3 𝕜} {qd qa qb : List Int} (h : T3Wf B qd qa qb) :
    T3Wf B.swap12 qd (QN.neg qb) (QN.neg qa) := by
  refine ⟨h.d0, by rw [neg_length]; exact h.d2, by rw [neg_length]; exact h.d1, ?_⟩
  intro s a b hs ha hb hne
  have := h.sp s b a hs hb ha hne
  rw [neg_getD, neg_getD]
  omega

/-- index form of `MPS.wellFormed` -/
theorem wellFormed_iff_idx (ψ : MPS 𝕜) : ψ.wellFormed = true ↔
    ψ.qD.length = ψ.A.length + 1 ∧
      ∀ i (h : i < ψ.A.length), T3Wf ψ.A[i] ψ.qd (ψ.qD.getD i []) (ψ.qD.getD (i + 1) []) := by
  unfold MPS.wellFormed
  rw [Bool.and_eq_true, beq_iff_eq, List.all_eq_true]
  refine and_congr Iff.rfl ?_
  constructor
  · intro h i hi
    have := h i (List.mem_range.2 hi)
    rw [List.getElem?_eq_getElem hi] at this
    simp only [Bool.and_eq_true, beq_iff_eq, isSparseT3_iff] at this
    exact ⟨this.1.1.1, this.1.1.2, this.1.2, this.2⟩
  · intro h i hi
    have hi' := List.mem_range.1 hi
    have := h i hi'
    rw [List.getElem?_eq_getElem hi']
    simp only [Bool.and_eq_true, beq_iff_eq, isSparseT3_iff]
    exact ⟨⟨⟨this.d0, this.d1⟩, this.d2⟩, this.sp⟩

theorem getD_reverse_map_neg (l : List (List Int)) {i : Nat} (hi : i < l.length) :
    (l.reverse.map QN.neg).getD i [] = QN.neg (l.getD (l.length - 1 - i) []) := by
  simp only [List.getD_eq_getElem?_getD, List.getElem?_map, List.getElem?_reverse hi]
  have : l.length - 1 - i < l.length := by omega
  rw [List.getElem?_eq_getElem this]
  rfl

theorem wellFormed_mirror {ψ : MPS 𝕜} (h : ψ.wellFormed = true) : (mirror ψ).wellFormed = true := by
  rw [wellFormed_iff_idx] at h ⊢
  obtain ⟨hl, hi⟩ := h
  refine ⟨by simp [mirror, hl], ?_⟩
  intro i hi'
  have hiL : i < ψ.A.length := by simpa [mirror] using hi'
  have e : (mirror ψ).A[i] = (ψ.A[ψ.A.length - 1 - i]'(by omega)).swap12 := by
    simp [mirror]
  rw [e]
  show T3Wf _ ψ.qd ((ψ.qD.reverse.map QN.neg).getD i []) ((ψ.qD.reverse.map QN.neg).getD (i + 1) [])
  rw [getD_reverse_map_neg _ (by omega), getD_reverse_map_neg _ (by omega)]
  have := hi (ψ.A.length - 1 - i) (by omega)
  have e1 : ψ.qD.length - 1 - i = ψ.A.length - 1 - i + 1 := by omega
  have e2 : ψ.qD.length - 1 - (i + 1) = ψ.A.length - 1 - i := by omega
  rw [e1, e2]
  exact t3wf_swap this

end generic

section adm
variable {𝕜 : Type} [RCLike 𝕜] [DecidableEq 𝕜]

theorem admissible_mirror {ψ : MPS 𝕜} (h : Admissible ψ) : Admissible (mirror ψ) := by
  refine ⟨wellFormed_mirror h.wf, h.d_pos, ?_, ?_, ?_, ?_⟩
  · intro h0
    apply h.nonempty
    simpa [mirror] using h0
  · intro q hq
    simp only [mirror, List.mem_map, List.mem_reverse] at hq
    obtain ⟨q', hq', rfl⟩ := hq
    rw [neg_length]; exact h.bond_pos q' hq'
  · have := h.last
    simp only [mirror, List.head?_map, List.head?_reverse]
    cases hq : ψ.qD.getLast? with
    | none => rw [hq] at this; simp at this
    | some q => rw [hq] at this; simpa [neg_length] using this
  · have := h.first
    simp only [mirror, List.getLast?_map, List.getLast?_reverse]
    cases hq : ψ.qD.head? with
    | none => rw [hq] at this; simp at this
    | some q => rw [hq] at this; simpa [neg_length] using this

theorem admissible_of_mirror {ψ : MPS 𝕜} (h : Admissible (mirror ψ)) : Admissible ψ := by
  have := admissible_mirror h
  rwa [mirror_mirror] at this

end adm


section generic
variable {𝕜 : Type} [CommRing 𝕜] [DecidableEq 𝕜]

theorem chain3_mirror : ∀ {ds : List Nat} {As : List (T3 𝕜)} {Dl Dr : Nat}, Chain3 ds As Dl Dr →
    Chain3 ds.reverse (As.reverse.map T3.swap12) Dr Dl
  | [], [], _, _, h => by simp only [chain3_nil] at h; subst h; simp
  | [], _ :: _, _, _, h => by simp at h
  | _ :: _, [], _, _, h => by simp at h
  | d :: ds, A :: As, Dl, Dr, h => by
    simp only [chain3_cons] at h
    have ih := chain3_mirror h.2.2
    simp only [List.reverse_cons, List.map_append, List.map_cons, List.map_nil]
    refine chain3_append ih ?_
    simp only [chain3_cons, chain3_nil]
    exact ⟨h.1, rfl, h.2.1⟩

theorem mem_digits_replicate {d n : Nat} {σ : List Nat} :
    σ ∈ digits (List.replicate n d) ↔ σ.length = n ∧ ∀ x ∈ σ, x < d := by
  induction n generalizing σ with
  | zero =>
    simp only [List.replicate_zero, digits_nil, Finset.mem_singleton, List.length_eq_zero_iff]
    exact ⟨fun h => ⟨h, by subst h; simp⟩, fun h => h.1⟩
  | succ n ih =>
    rw [List.replicate_succ]
    cases σ with
    | nil =>
      constructor
      · intro h; obtain ⟨x, t, _, _, h⟩ := mem_digits_cons.1 h; cases h
      · intro h; simp at h
    | cons s σ =>
      rw [cons_mem_digits, ih]
      simp only [List.length_cons, Nat.add_right_cancel_iff, List.mem_cons, forall_eq_or_imp]
      tauto

theorem reverse_mem_digitsU {d n : Nat} {σ : List Nat} (h : σ ∈ digitsU d n) : σ.reverse ∈ digitsU d n := by
  rw [digitsU, mem_digits_replicate] at h ⊢
  exact ⟨by simpa using h.1, fun x hx => h.2 x (by simpa using hx)⟩

theorem sum_digitsU_reverse {β : Type} [AddCommMonoid β] (d n : Nat) (f : List Nat → β) :
    ∑ σ ∈ digitsU d n, f σ.reverse = ∑ σ ∈ digitsU d n, f σ := by
  refine Finset.sum_nbij' (fun σ => σ.reverse) (fun σ => σ.reverse) ?_ ?_ ?_ ?_ ?_
  · intro σ hσ; exact reverse_mem_digitsU hσ
  · intro σ hσ; exact reverse_mem_digitsU hσ
  · intro σ _; exact List.reverse_reverse σ
  · intro σ _; exact List.reverse_reverse σ
  · intro σ _; rfl

/-- matrix products of the mirrored chain are the transposes -/
theorem pmat_mirror : ∀ {ds : List Nat} {As : List (T3 𝕜)} {Dl Dr : Nat}, Chain3 ds As Dl Dr →
    ∀ {σ : List Nat}, σ ∈ digits ds → ∀ {a c : Nat}, a < Dl → c < Dr →
    pmat (As.reverse.map T3.swap12) σ.reverse c a = pmat As σ a c
  | [], [], _, _, h, σ, hσ, a, c, _, _ => by
    simp only [digits_nil, Finset.mem_singleton] at hσ
    subst hσ
    simp only [List.reverse_nil, List.map_nil, pmat_nil, eq_comm]
  | [], _ :: _, _, _, h, _, _, _, _, _, _ => by simp at h
  | _ :: _, [], _, _, h, _, _, _, _, _, _ => by simp at h
  | d :: ds, A :: As, Dl, Dr, h, σ, hσ, a, c, ha, hc => by
    simp only [chain3_cons] at h
    obtain ⟨s, σ', hs, hσ', rfl⟩ := mem_digits_cons.1 hσ
    have hm := chain3_mirror h.2.2
    have hσr : σ'.reverse ∈ digits ds.reverse := by
      -- digits of a reversed profile
      have : ∀ {es : List Nat} {τ : List Nat}, τ ∈ digits es → τ.reverse ∈ digits es.reverse := by
        intro es
        induction es with
        | nil => intro τ hτ; simp only [digits_nil, Finset.mem_singleton] at hτ; subst hτ; simp
        | cons e es ih =>
          intro τ hτ
          obtain ⟨x, t, hx, ht, rfl⟩ := mem_digits_cons.1 hτ
          simp only [List.reverse_cons]
          have h1 : t.reverse ∈ digits es.reverse := ih ht
          have h2 : [x] ∈ digits [e] := by
            rw [cons_mem_digits]; exact ⟨hx, by simp⟩
          -- membership in digits of an append
          have key : ∀ {as bs : List Nat} {u v : List Nat}, u ∈ digits as → v ∈ digits bs →
              u ++ v ∈ digits (as ++ bs) := by
            intro as
            induction as with
            | nil => intro bs u v hu hv; simp only [digits_nil, Finset.mem_singleton] at hu; subst hu; simpa using hv
            | cons a as ih2 =>
              intro bs u v hu hv
              obtain ⟨y, w, hy, hw, rfl⟩ := mem_digits_cons.1 hu
              simp only [List.cons_append]
              rw [cons_mem_digits]
              exact ⟨hy, ih2 hw hv⟩
          exact key h1 h2
      exact this hσ'
    simp only [List.reverse_cons, List.map_append, List.map_cons, List.map_nil]
    rw [pmat_append hm [A.swap12] hσr [s] hc a, pmat_cons]
    refine Finset.sum_congr rfl fun x hx => ?_
    rw [pmat_mirror h.2.2 hσ' (Finset.mem_range.1 hx) hc]
    simp only [pmat_cons, pmat_nil]
    have : (A.swap12).d2 = Dl := h.2.1
    rw [this, sum_ite_eq_of_lt ha]
    exact mul_comm _ _

end generic

section assembly
variable {𝕜 : Type} [RCLike 𝕜] [DecidableEq 𝕜]
variable {dqr : Mat 𝕜 → Mat 𝕜 × Mat 𝕜}
attribute [local instance] rcRealLike

theorem negLast_map_swap : ∀ (As : List (T3 𝕜)), (negLast As).map T3.swap12 = negLast (As.map T3.swap12)
  | [] => rfl
  | [A] => rfl
  | A :: B :: As => by
    have := negLast_map_swap (B :: As)
    simp only [negLast, List.map_cons] at this ⊢
    rw [this]

/-- amplitudes of the mirrored state at the reversed digit list -/
theorem amp_mirror {ψ : MPS 𝕜} (h : Admissible ψ) {σ : List Nat} (hσ : σ ∈ digitsU ψ.qd.length ψ.A.length) :
    (mirror ψ).amp σ.reverse = ψ.amp σ := by
  have hm := admissible_mirror h
  have hL : (mirror ψ).A.length = ψ.A.length := by simp [mirror]
  have hσr : σ.reverse ∈ digits (List.replicate (mirror ψ).A.length (mirror ψ).qd.length) := by
    rw [hL]; exact reverse_mem_digitsU hσ
  rw [amp_eq_pmat hm.chain3 hσr, amp_eq_pmat h.chain3 hσ]
  exact pmat_mirror h.chain3 hσ Nat.one_pos Nat.one_pos

/-- a successful `orthonormalize(mode='right')` is a `LeftRun` of the mirrored chain -/
theorem leftRun_of_mps_right {ψ ψ' : MPS 𝕜} {nrm : ℝ} (hne : ψ.A ≠ [])
    (hrun : MPS.orthonormalize dqr ψ false = .ok (ψ', nrm)) : LeftRun dqr (mirror ψ) (mirror ψ') nrm := by
  obtain ⟨qd, qD, A⟩ := ψ
  cases A with
  | nil => exact absurd rfl hne
  | cons A0 rest =>
    cases hAr : (A0 :: rest).reverse with
    | nil => simp at hAr
    | cons Al rrest =>
      cases hqr : qD.reverse with
      | nil =>
        unfold MPS.orthonormalize at hrun
        simp only [Bool.false_eq_true, if_false] at hrun
        rw [hAr, hqr] at hrun
        cases hrun
      | cons ql qrrest =>
        rw [ortho_right_eq qd A0 rest qD hAr hqr] at hrun
        cases hs : MPS.sweepRightQr dqr qd Al ql rrest qrrest with
        | error e => rw [hs] at hrun; cases hrun
        | ok r =>
          obtain ⟨As, qs, T⟩ := r
          rw [hs] at hrun
          dsimp only at hrun
          by_cases hT : (T.d0 == 1 && T.d1 == 1 && T.d2 == 1) = true
          · rw [if_pos hT] at hrun
            obtain ⟨t0, t1, t2⟩ := (dims_one_iff T).1 hT
            injection hrun with h
            injection h with h1 h2
            refine ⟨Al.swap12, rrest.map T3.swap12, QN.neg ql, qrrest.map QN.neg, As.map T3.swap12, qs.map QN.neg,
              T.swap12, ?_, ?_, sweepRight_of_run hs, t0, t2, t1, ?_⟩
            · show (A0 :: rest).reverse.map T3.swap12 = _
              rw [hAr]; rfl
            · show qD.reverse.map QN.neg = _
              rw [hqr]; rfl
            · by_cases hn : (RealLike.re (T.f 0 0 0) : ℝ) < 0
              · rw [if_pos hn] at h1 h2
                refine Or.inl ⟨hn, ?_, h2.symm⟩
                rw [← h1]
                simp only [mirror, List.reverse_reverse, List.map_cons, negLast_map_swap]
              · rw [if_neg hn] at h1 h2
                refine Or.inr ⟨hn, ?_, h2.symm⟩
                rw [← h1]
                simp only [mirror, List.reverse_reverse, List.map_cons]
          · rw [if_neg hT] at hrun; cases hrun

/-- `orthonormalize(mode='right')` raises no exception on admissible input (kernel: shape clause only) -/
theorem mps_right_ok (hshape : ∀ B, ShapeAt dqr B) {ψ : MPS 𝕜} (hadm : Admissible ψ) :
    ∃ ψ' nrm, MPS.orthonormalize (ρ := ℝ) dqr ψ false = .ok (ψ', nrm) := by
  have hadm' := admissible_mirror hadm
  obtain ⟨qd, qD, A⟩ := ψ
  cases A with
  | nil => exact absurd rfl hadm.nonempty
  | cons A0 rest =>
    cases hAr : (A0 :: rest).reverse with
    | nil => simp at hAr
    | cons Al rrest =>
      cases hqr : qD.reverse with
      | nil =>
        have := hadm.last
        have hq : qD = [] := by simpa using hqr
        simp [hq] at this
      | cons ql qrrest =>
        have hA' : (mirror (⟨qd, qD, A0 :: rest⟩ : MPS 𝕜)).A = Al.swap12 :: rrest.map T3.swap12 := by
          show (A0 :: rest).reverse.map T3.swap12 = _
          rw [hAr]; rfl
        have hq' : (mirror (⟨qd, qD, A0 :: rest⟩ : MPS 𝕜)).qD = QN.neg ql :: qrrest.map QN.neg := by
          show qD.reverse.map QN.neg = _
          rw [hqr]; rfl
        obtain ⟨hw, h0, hl⟩ := hadm'.chain hA' hq'
        have hw' : WfChain qd (QN.neg ql) ((Al :: rrest).map T3.swap12) (qrrest.map QN.neg) := hw
        have hql : 0 < ql.length := by rw [neg_length] at h0; omega
        obtain ⟨As, qs, T, hs⟩ := sweepRight_ok hshape hadm.d_pos hql hw' hl
        obtain ⟨t0, t1, t2⟩ := (sweepRight_of_run hs).dims_one hshape hadm.d_pos (by omega) hw hl
        have hT : (T.d0 == 1 && T.d1 == 1 && T.d2 == 1) = true := (dims_one_iff T).2 ⟨t0, t2, t1⟩
        rw [ortho_right_eq qd A0 rest qD hAr hqr, hs]
        dsimp only
        rw [if_pos hT]
        exact ⟨_, _, rfl⟩

end assembly
end Ptn.Ortho

import PtnModel.Proofs.ChainOk
import PtnModel.Proofs.BridgeElem
/-!
# The graph built by `from_opchains` has a single sink

`fromOpchains_result_sink` : the description of the result of `from_opchains` (`fromOpchains_result` of `ChainOk.lean`, same
                             proof) extended by: the end node is the only node of the last layer;
`fromOpchains_singleSink`  : hence the end node is the only node without outgoing edges;
`fromOpchains_nonzero`     : `from_opchains` only returns when some coefficient is non-zero, so that the guard `ChainsWF`
                             follows from the per-chain guards once the call has returned (`chainsWF_of_ok`).
-/
set_option linter.unusedSectionVars false

namespace Ptn.Ch
open Ptn Ptn.Og List

variable {κ : Type} [CommRing κ] [DecidableEq κ]

/-- **Result of `from_opchains`**: as `fromOpchains_result`, and the end node is the only node of the last layer. -/
theorem fromOpchains_result_sink (chains : List (OpChain κ)) (L id : Int) (hwf : ChainsWF chains L) :
    ∃ (g1 : Graph κ) (nn en : Int) (lay : Int → Nat) (t : Int),
      fromOpchains chains L id = .ok (finalGraph g1 t) ∧ Layered g1 nn en lay L.toNat ∧
      0 ≤ t ∧ t < nn ∧ lay t = L.toNat ∧
      (∀ x, 0 ≤ x → x < nn → lay x < L.toNat → outIds g1 x ≠ []) ∧
      (∀ x, 0 ≤ x → x < nn → lay x = L.toNat → x = t) := by
  have hL := hwf.1
  obtain ⟨c0w, hc0w, hc0n⟩ := hwf.2.1
  have hall := hwf.2.2
  have hemp : chains.isEmpty = false := by
    cases chains with
    | nil => simp at hc0w
    | cons _ _ => rfl
  have hpch : (chains.filter (fun c => c.coeff != 0)).mapM (fun c => c.padded L id)
      = .ok ((chains.filter (fun c => c.coeff != 0)).map (padF L id)) := by
    apply mapM_eq_ok_map
    intro c hc
    obtain ⟨hcm, hcn⟩ := mem_filter.1 hc
    obtain ⟨h1, h2, h3, _, _⟩ := hall c hcm (by simpa using hcn)
    exact padded_eq_ok L id c h1 h2 h3
  have hvl0 : ((chains.filter (fun c => c.coeff != 0)).map (padF L id)).mapM
      (fun c => HalfChain.mk' (c.oids ++ [id]) (c.qnums ++ [0]) 0)
      = .ok (((chains.filter (fun c => c.coeff != 0)).map (padF L id)).map
          (fun c => (⟨c.oids ++ [id], c.qnums ++ [0], 0⟩ : HalfChain))) := by
    apply mapM_eq_ok_map
    intro c' hc'
    obtain ⟨c, hc, rfl⟩ := mem_map.1 hc'
    obtain ⟨hcm, hcn⟩ := mem_filter.1 hc
    obtain ⟨h1, h2, h3, _, _⟩ := hall c hcm (by simpa using hcn)
    have hlen := padF_length L id c (by simp only [OpChain.length]; omega) h1
    have hqlen : (padF L id c).qnums.length = L.toNat + 1 := by
      simp only [padF, pyRepeat, length_append, length_replicate, OpChain.length]
      omega
    exact (halfChain_mk'_ok_iff _ _ _ _).2 ⟨by simp [hlen, hqlen], rfl⟩
  have hw0 := winv_init chains L id hwf
  obtain ⟨s, hfold, ⟨lay, w⟩, hone⟩ := iter_total L.toNat 0 _ _ hw0 (by omega)
  simp only [Nat.zero_add] at w hone
  have hlen1 : s.vlistNext.length = 1 := hone (by omega) trivial
  obtain ⟨last, hvl⟩ := length_eq_one_iff.1 hlen1
  obtain ⟨c0, hcs⟩ := length_eq_one_iff.1 (by rw [← w.len]; exact hlen1 : s.coeffsNext.length = 1)
  have hlast : s.vlistNext[0]? = some last := by rw [hvl]; rfl
  have hc0 : s.coeffsNext[0]? = some c0 := by rw [hcs]; rfl
  have H := w.hc last (by rw [hvl]; simp)
  have hbase : Layered s.graph s.nidNext s.eidNext lay L.toNat := ⟨w.star, w.lay0, w.layE, w.layN, w.created⟩
  have href : ∀ x, 0 ≤ x → x < s.nidNext → lay x = L.toNat → x = last.nidl := by
    intro x h0 h1 h2
    obtain ⟨h', hh', hx⟩ := w.ref x h0 h1 h2
    rw [hvl] at hh'
    simp only [mem_singleton] at hh'
    rw [← hx, hh']
  by_cases hc1 : c0 = 1
  · -- nothing to absorb
    obtain ⟨nd, hnd⟩ := Option.isSome_iff_exists.1 ((w.star.nodesMem (-1)).2 (Or.inl rfl))
    have hrem := removeNode_ok (s.graph.setTerm true last.nidl) (-1) nd (by
      simp only [Graph.setTerm, if_true]; exact hnd)
    have hfin : ({ s.graph.setTerm true last.nidl with nodes := dErase (s.graph.setTerm true last.nidl).nodes (-1) } : Graph κ)
        = finalGraph s.graph last.nidl := by
      simp [finalGraph, Graph.setTerm, w.star.term]
    rw [hfin] at hrem
    have hcons := final_consistent hbase last.nidl H.lo H.hi H.lay
    exact ⟨s.graph, s.nidNext, s.eidNext, lay, last.nidl,
      fromOpchains_eval chains L id _ _ s last c0 s.graph nd _ hemp hpch hvl0 hfold hlen1 hlast hc0
        (Or.inl ⟨hc1, rfl⟩) hrem hcons, hbase, H.lo, H.hi, H.lay, w.out, href⟩
  · -- the trailing coefficient is multiplied into the edges entering the end node
    obtain ⟨nodeEnd, hne⟩ := w.star.node_exists (k := last.nidl) ⟨H.lo, H.hi⟩
    have hK : nodeEnd.eidsIn = inIds s.graph last.nidl := (w.star.nodeOK _ _ hne).2.2
    obtain ⟨gA, hgA⟩ := scaleFold_ok c0 nodeEnd.eidsIn s.graph (by
      intro eid heid
      rw [hK] at heid
      obtain ⟨e, he, _⟩ := w.star.in_edge heid
      rw [dHas_eq_isSome, he]; rfl)
    obtain ⟨hA1, hA2, hA3⟩ := scaleFold_spec c0 _ _ _ hgA w.star.edgesKeys (by
      rw [hK]
      unfold inIds edgeList
      have := w.star.edgesKeys
      have hsub : (((s.graph.edges.map (·.2)).filter (fun e => e.nids.2 = last.nidl)).map (·.eid)).Sublist (dKeys s.graph.edges) := by
        have h1 : ((s.graph.edges.map (·.2)).filter (fun e => decide (e.nids.2 = last.nidl))).map (·.eid)
            = ((s.graph.edges.filter (fun p => decide (p.2.nids.2 = last.nidl))).map (·.1)) := by
          rw [filter_map, map_map]
          apply map_congr_left
          intro p hp
          exact w.star.keyEid p (mem_filter.1 hp).1
        rw [h1]
        exact (filter_sublist).map _
      exact this.sublist hsub)
    obtain ⟨hs1, hout1, hnids1⟩ := w.star.scale nodeEnd.eidsIn c0
    have hgAeq : gA = { s.graph with edges := s.graph.edges.map (fun p => if p.1 ∈ nodeEnd.eidsIn then (p.1, scaleEdge c0 p.2) else p) } := by
      cases gA
      simp only at hA1 hA2 hA3
      simp [hA1, hA2, hA3]
    have hlayered : Layered gA s.nidNext s.eidNext lay L.toNat := by
      rw [hgAeq]
      refine ⟨hs1, w.lay0, ?_, w.layN, w.created⟩
      intro e he
      obtain ⟨e0, he0, hn⟩ := hnids1 e he
      rw [hn]
      exact w.layE e0 he0
    obtain ⟨nd, hnd⟩ := Option.isSome_iff_exists.1 ((w.star.nodesMem (-1)).2 (Or.inl rfl))
    have hrem := removeNode_ok (gA.setTerm true last.nidl) (-1) nd (by
      simp only [Graph.setTerm, if_true, hA1]; exact hnd)
    have hfin : ({ gA.setTerm true last.nidl with nodes := dErase (gA.setTerm true last.nidl).nodes (-1) } : Graph κ)
        = finalGraph gA last.nidl := by
      simp [finalGraph, Graph.setTerm, hA2, w.star.term]
    rw [hfin] at hrem
    have hcons := final_consistent hlayered last.nidl H.lo H.hi H.lay
    refine ⟨gA, s.nidNext, s.eidNext, lay, last.nidl,
      fromOpchains_eval chains L id _ _ s last c0 gA nd _ hemp hpch hvl0 hfold hlen1 hlast hc0
        (Or.inr ⟨hc1, nodeEnd, hne, hgA⟩) hrem hcons, hlayered, H.lo, H.hi, H.lay, ?_, href⟩
    intro x h0 h1 h2
    rw [hgAeq, hout1]
    exact w.out x h0 h1 h2


theorem dErase_sublist_ch {β : Type} (d : List (Int × β)) (k : Int) : (dErase d k).Sublist d := by
  induction d with
  | nil => simp [dErase]
  | cons p rest ih =>
    obtain ⟨k1, v1⟩ := p
    unfold dErase
    by_cases h1 : (k1 == k) = true
    · simp [h1]
    · simp only [h1]; exact ih.cons_cons _

/-- the graph built by `from_opchains` from a well-formed chain list: the end node is its only sink -/
theorem fromOpchains_singleSink (chains : List (OpChain κ)) (L id : Int) (hwf : ChainsWF chains L) (g : Graph κ)
    (h : fromOpchains chains L id = .ok g) : SingleSink g := by
  obtain ⟨g1, nn, en, lay, t, h', hlay, _, _, _, hout, href⟩ := fromOpchains_result_sink chains L id hwf
  rw [h'] at h
  cases h
  have hL := hwf.1
  intro p hp hsink
  obtain ⟨k, n⟩ := p
  have hkn : dGet? (finalGraph g1 t).nodes k = some n := by
    apply dGet?_of_mem _ hp
    have : (dKeys (finalGraph g1 t).nodes).Sublist (dKeys g1.nodes) := by
      simp only [finalGraph, dKeys]
      exact (dErase_sublist_ch _ _).map _
    exact hlay.star.nodesKeys.sublist this
  obtain ⟨hg, h0, h1⟩ := hlay.node_of_final t hkn
  have hout' : n.eidsOut = outIds g1 k := (hlay.star.nodeOK k n hg).2.1
  have hle := hlay.lay_le h0 h1
  show k = t
  apply href k h0 h1
  by_contra hne
  exact hout k h0 h1 (by omega) (by rw [← hout']; exact hsink)

/-- `from_opchains` only returns when some chain has a non-zero coefficient -/
theorem fromOpchains_nonzero (chains : List (OpChain κ)) (L id : Int) (g : Graph κ)
    (h : fromOpchains chains L id = .ok g) : ∃ c ∈ chains, c.coeff ≠ 0 := by
  by_contra hall
  have hf : chains.filter (fun c => c.coeff != 0) = [] := by
    rw [filter_eq_nil_iff]
    intro c hc
    have : c.coeff = 0 := by
      by_contra h0
      exact hall ⟨c, hc, h0⟩
    simp [this]
  unfold fromOpchains at h
  by_cases hemp : chains.isEmpty = true
  · simp [hemp, throw, throwThe, MonadExceptOf.throw, bind, Except.bind] at h
  · simp only [hemp, Bool.false_eq_true, if_false, hf] at h
    simp only [bind_ok_iff, nodeMk'_ok_iff, pyAssert_ok_iff, pyIdx_ok_iff] at h
    obtain ⟨ns, ⟨_, _, rfl⟩, nd, ⟨_, _, rfl⟩, gr, hgr, pch, hpch, vl0, hvl0, s, hfold, _, hlen, _⟩ := h
    rw [graph0_mk] at hgr
    cases hgr
    simp only [mapM_nil, pure_ok_iff] at hpch
    subst hpch
    simp only [mapM_nil, pure_ok_iff] at hvl0
    subst hvl0
    have hS0 : SInv (⟨graph0, 1, 0, [], [], []⟩ : ChState κ) :=
      ⟨by simp [edgeList, graph0], by simp, le_refl _⟩
    have hG0 : GI (graph0 : Graph κ) :=
      ⟨by simp [graph0, dKeys], by intro p hp; simp [graph0] at hp; rcases hp with rfl | rfl <;> simp, rfl⟩
    obtain ⟨_, _, _, _, _, hD⟩ := iter_sem L.toNat _ s hfold hS0 hG0
    have : s.vlistNext = [] := by
      cases hv : s.vlistNext with
      | nil => rfl
      | cons a rest =>
        obtain ⟨h0, hh0, _⟩ := hD a (by rw [hv]; simp)
        simp at hh0
    rw [this] at hlen
    simp at hlen

/-- once `from_opchains` has returned for `L ≥ 1`, the per-chain guards give the guard `ChainsWF` -/
theorem chainsWF_of_ok (chains : List (OpChain κ)) (L id : Int) (g : Graph κ)
    (h : fromOpchains chains L id = .ok g) (hL : 1 ≤ L)
    (hch : ∀ c ∈ chains, c.coeff ≠ 0 →
      0 ≤ c.istart ∧ c.istart + (c.oids.length : Int) ≤ L ∧ c.qnums.length = c.oids.length + 1 ∧
      c.qnums.head? = some 0 ∧ c.qnums.getLast? = some 0) : ChainsWF chains L :=
  ⟨hL, fromOpchains_nonzero chains L id g h, hch⟩

end Ptn.Ch

import PtnModel.Proofs.SpinExplDefs
/-!
# Explicit spin-orbital molecular graph: every right-forest node other than the sink has an outgoing wiring edge
-/
set_option linter.unusedSectionVars false
set_option linter.unusedSimpArgs false
set_option linter.unusedVariables false
namespace Ptn.Ham
open Ptn.Og List

theorem sxr_mem (L : Int) (n : Nat) (y : Lab × Lab × Int)
    (h : match n with
      | 2 => y ∈ sseg2 tri L | 8 => y ∈ sseg8 tri L | 9 => y ∈ sseg9 tri L | 10 => y ∈ sseg10 tri L
      | 11 => y ∈ sseg11 tri L | 12 => y ∈ sseg12 tri L | _ => False) : y ∈ swireGen tri L := by
  unfold swireGen
  simp only [mem_append]
  split at h
  · exact Or.inr (Or.inl h)
  · exact Or.inr (Or.inr (Or.inr (Or.inr (Or.inr (Or.inr (Or.inr (Or.inl h)))))))
  · exact Or.inr (Or.inr (Or.inr (Or.inr (Or.inr (Or.inr (Or.inr (Or.inr (Or.inl h))))))))
  · exact Or.inr (Or.inr (Or.inr (Or.inr (Or.inr (Or.inr (Or.inr (Or.inr (Or.inr (Or.inl h)))))))))
  · exact Or.inr (Or.inr (Or.inr (Or.inr (Or.inr (Or.inr (Or.inr (Or.inr (Or.inr (Or.inr (Or.inl h))))))))))
  · exact Or.inr (Or.inr (Or.inr (Or.inr (Or.inr (Or.inr (Or.inr (Or.inr (Or.inr (Or.inr (Or.inr h))))))))))
  · exact h.elim

theorem sxr_spin {s : Int} (h0 : 0 ≤ s) (h1 : s ≤ 1) : s = 0 ∨ s = 1 := by omega

theorem sxr_c11 (L k : Int) (h1 : 1 ≤ k) (h2 : k < L) :
    ∃ y ∈ swireGen tri L, y.1 = (11, [], k) ∧ isLeft y.2.1 = false :=
  ⟨tri (11, [], k) (11, [], k + 1) sId, sxr_mem L 2 _ (mem_flatMap.2 ⟨k, mem_pyRange.2 ⟨h1, h2⟩, mem_singleton.2 rfl⟩), rfl, rfl⟩

theorem sxr_c5 (L i s k : Int) (hi1 : 1 ≤ i) (hi2 : i < L) (hs : s = 0 ∨ s = 1) (hk1 : 1 ≤ k) (hk2 : k < i + 1) :
    ∃ y ∈ swireGen tri L, y.1 = (5, [i, s], k) ∧ isLeft y.2.1 = false := by
  by_cases hk : k < i
  · refine ⟨tri (5, [i, s], k) (5, [i, s], k + 1) sZZ, sxr_mem L 8 _ ?_, rfl, rfl⟩
    exact mem_flatMap.2 ⟨(i, s), mem_prodRS.2 ⟨hi1, hi2, hs⟩, mem_append_left _
      (mem_flatMap.2 ⟨k, mem_pyRange.2 ⟨hk1, hk⟩, mem_singleton.2 rfl⟩)⟩
  · have : k = i := by omega
    subst this
    refine ⟨tri (5, [k, s], k) (11, [], k + 1) (pick sCI sZC s), sxr_mem L 8 _ ?_, rfl, rfl⟩
    exact mem_flatMap.2 ⟨(k, s), mem_prodRS.2 ⟨hi1, hi2, hs⟩, mem_append_right _ (mem_singleton.2 rfl)⟩

theorem sxr_c6 (L i s k : Int) (hi1 : 1 ≤ i) (hi2 : i < L) (hs : s = 0 ∨ s = 1) (hk1 : 1 ≤ k) (hk2 : k < i + 1) :
    ∃ y ∈ swireGen tri L, y.1 = (6, [i, s], k) ∧ isLeft y.2.1 = false := by
  by_cases hk : k < i
  · refine ⟨tri (6, [i, s], k) (6, [i, s], k + 1) sZZ, sxr_mem L 9 _ ?_, rfl, rfl⟩
    exact mem_flatMap.2 ⟨(i, s), mem_prodRS.2 ⟨hi1, hi2, hs⟩, mem_append_left _
      (mem_flatMap.2 ⟨k, mem_pyRange.2 ⟨hk1, hk⟩, mem_singleton.2 rfl⟩)⟩
  · have : k = i := by omega
    subst this
    refine ⟨tri (6, [k, s], k) (11, [], k + 1) (pick sAI sZA s), sxr_mem L 9 _ ?_, rfl, rfl⟩
    exact mem_flatMap.2 ⟨(k, s), mem_prodRS.2 ⟨hi1, hi2, hs⟩, mem_append_right _ (mem_singleton.2 rfl)⟩

theorem sxr_c7 (L i s j t k : Int) (h1 : L / 2 + 1 ≤ i) (h2 : i ≤ j) (h3 : j < L) (hs : s = 0 ∨ s = 1) (ht : t = 0 ∨ t = 1)
    (hlt : i < j ∨ (i = j ∧ s < t)) (hk1 : L / 2 + 1 ≤ k) (hk2 : k < i + 1) :
    ∃ y ∈ swireGen tri L, y.1 = (7, [i, s, j, t], k) ∧ isLeft y.2.1 = false := by
  have hp : pLt (i, s) (j, t) = true := (pLt_iff _ _).2 hlt
  have hmem : ∀ y, y ∈ ((pyRange (L / 2 + 1) i).flatMap (fun k => [tri (7, [i, s, j, t], k) (7, [i, s, j, t], k + 1) sId]) ++
      [if i < j then tri (7, [i, s, j, t], i) (5, [j, t], i + 1) (pick sCZ sIC s)
        else tri (7, [i, s, j, t], i) (11, [], i + 1) sCC]) → y ∈ swireGen tri L := by
    intro y hy
    refine sxr_mem L 10 _ (mem_flatMap.2 ⟨(i, s), mem_prodRS.2 ⟨h1, by omega, hs⟩, mem_flatMap.2 ⟨(j, t), mem_prodRS.2 ⟨h2, h3, ht⟩, ?_⟩⟩)
    simp only [hp, if_true]
    exact hy
  by_cases hk : k < i
  · exact ⟨tri (7, [i, s, j, t], k) (7, [i, s, j, t], k + 1) sId,
      hmem _ (mem_append_left _ (mem_flatMap.2 ⟨k, mem_pyRange.2 ⟨hk1, hk⟩, mem_singleton.2 rfl⟩)), rfl, rfl⟩
  · have : k = i := by omega
    subst this
    by_cases hij : k < j
    · refine ⟨tri (7, [k, s, j, t], k) (5, [j, t], k + 1) (pick sCZ sIC s), hmem _ (mem_append_right _ ?_), rfl, rfl⟩
      rw [if_pos hij]; exact mem_singleton.2 rfl
    · refine ⟨tri (7, [k, s, j, t], k) (11, [], k + 1) sCC, hmem _ (mem_append_right _ ?_), rfl, rfl⟩
      rw [if_neg hij]; exact mem_singleton.2 rfl

theorem sxr_c8 (L i s j t k : Int) (h1 : L / 2 + 1 ≤ j) (h2 : j ≤ i) (h3 : i < L) (hs : s = 0 ∨ s = 1) (ht : t = 0 ∨ t = 1)
    (hlt : j < i ∨ (j = i ∧ t < s)) (hk1 : L / 2 + 1 ≤ k) (hk2 : k < j + 1) :
    ∃ y ∈ swireGen tri L, y.1 = (8, [i, s, j, t], k) ∧ isLeft y.2.1 = false := by
  have hp : pLt (j, t) (i, s) = true := (pLt_iff _ _).2 hlt
  have hmem : ∀ y, y ∈ ((pyRange (L / 2 + 1) j).flatMap (fun k => [tri (8, [i, s, j, t], k) (8, [i, s, j, t], k + 1) sId]) ++
      [if i > j then tri (8, [i, s, j, t], j) (6, [i, s], j + 1) (pick sAZ sIA t)
        else tri (8, [i, s, j, t], j) (11, [], j + 1) sAA]) → y ∈ swireGen tri L := by
    intro y hy
    refine sxr_mem L 11 _ (mem_flatMap.2 ⟨(i, s), mem_prodRS.2 ⟨by show L / 2 + 1 ≤ i; omega, h3, hs⟩,
      mem_flatMap.2 ⟨(j, t), mem_prodRS.2 ⟨h1, by show j < i + 1; omega, ht⟩, ?_⟩⟩)
    simp only [hp, if_true]
    exact hy
  by_cases hk : k < j
  · exact ⟨tri (8, [i, s, j, t], k) (8, [i, s, j, t], k + 1) sId,
      hmem _ (mem_append_left _ (mem_flatMap.2 ⟨k, mem_pyRange.2 ⟨hk1, hk⟩, mem_singleton.2 rfl⟩)), rfl, rfl⟩
  · have : k = j := by omega
    subst this
    by_cases hij : i > k
    · refine ⟨tri (8, [i, s, k, t], k) (6, [i, s], k + 1) (pick sAZ sIA t), hmem _ (mem_append_right _ ?_), rfl, rfl⟩
      rw [if_pos hij]; exact mem_singleton.2 rfl
    · refine ⟨tri (8, [i, s, k, t], k) (11, [], k + 1) sAA, hmem _ (mem_append_right _ ?_), rfl, rfl⟩
      rw [if_neg hij]; exact mem_singleton.2 rfl

theorem sxr_c9 (L i s j t k : Int) (h1 : L / 2 + 1 ≤ i) (h2 : i < L) (h3 : L / 2 + 1 ≤ j) (h4 : j < L) (hs : s = 0 ∨ s = 1) (ht : t = 0 ∨ t = 1)
    (hk1 : L / 2 + 1 ≤ k) (hk2 : k < min i j + 1) :
    ∃ y ∈ swireGen tri L, y.1 = (9, [i, s, j, t], k) ∧ isLeft y.2.1 = false := by
  have hmem : ∀ y, y ∈ ((pyRange (L / 2 + 1) (min i j)).flatMap (fun k => [tri (9, [i, s, j, t], k) (9, [i, s, j, t], k + 1) sId]) ++
      [if i < j then tri (9, [i, s, j, t], i) (6, [j, t], i + 1) (pick sCZ sIC s)
        else if i = j then tri (9, [i, s, j, t], i) (11, [], i + 1) (diagOid s t)
        else tri (9, [i, s, j, t], j) (5, [i, s], j + 1) (pick sAZ sIA t)]) → y ∈ swireGen tri L := by
    intro y hy
    exact sxr_mem L 12 _ (mem_flatMap.2 ⟨(i, s), mem_prodRS.2 ⟨h1, h2, hs⟩, mem_flatMap.2 ⟨(j, t), mem_prodRS.2 ⟨h3, h4, ht⟩, hy⟩⟩)
  by_cases hk : k < min i j
  · exact ⟨tri (9, [i, s, j, t], k) (9, [i, s, j, t], k + 1) sId,
      hmem _ (mem_append_left _ (mem_flatMap.2 ⟨k, mem_pyRange.2 ⟨hk1, hk⟩, mem_singleton.2 rfl⟩)), rfl, rfl⟩
  · have hkm : k = min i j := by omega
    by_cases h1' : i < j
    · have : k = i := by omega
      subst this
      refine ⟨tri (9, [k, s, j, t], k) (6, [j, t], k + 1) (pick sCZ sIC s), hmem _ (mem_append_right _ ?_), rfl, rfl⟩
      rw [if_pos h1']; exact mem_singleton.2 rfl
    · by_cases h2' : i = j
      · subst h2'
        have : k = i := by omega
        subst this
        refine ⟨tri (9, [k, s, k, t], k) (11, [], k + 1) (diagOid s t), hmem _ (mem_append_right _ ?_), rfl, rfl⟩
        rw [if_neg h1', if_pos rfl]; exact mem_singleton.2 rfl
      · have : k = j := by omega
        subst this
        refine ⟨tri (9, [i, s, k, t], k) (5, [i, s], k + 1) (pick sAZ sIA t), hmem _ (mem_append_right _ ?_), rfl, rfl⟩
        rw [if_neg h1', if_neg h2']; exact mem_singleton.2 rfl

/-- every right-forest node other than the sink is the source of a right wiring edge -/
theorem sxr_right_complete (L : Int) (a : Lab) (ha : sLabOk L a) (hr : isLeft a = false) (ht : a ≠ (11, [], L)) :
    ∃ y ∈ swireGen tri L, y.1 = a ∧ isLeft y.2.1 = false := by
  unfold sLabOk at ha
  split at ha
  · cases hr
  · cases hr
  · cases hr
  · cases hr
  · cases hr
  · obtain ⟨a1, a2, a3, a4, a5, a6⟩ := ha
    exact sxr_c5 L _ _ _ a1 a2 (sxr_spin a3 a4) a5 a6
  · obtain ⟨a1, a2, a3, a4, a5, a6⟩ := ha
    exact sxr_c6 L _ _ _ a1 a2 (sxr_spin a3 a4) a5 a6
  · obtain ⟨a1, a2, a3, a4, a5, a6, a7, a8, a9, a10⟩ := ha
    exact sxr_c7 L _ _ _ _ _ a1 a2 a3 (sxr_spin a4 a5) (sxr_spin a6 a7) a8 a9 a10
  · obtain ⟨a1, a2, a3, a4, a5, a6, a7, a8, a9, a10⟩ := ha
    exact sxr_c8 L _ _ _ _ _ a1 a2 a3 (sxr_spin a4 a5) (sxr_spin a6 a7) a8 a9 a10
  · obtain ⟨a1, a2, a3, a4, a5, a6, a7, a8, a9, a10⟩ := ha
    exact sxr_c9 L _ _ _ _ _ a1 a2 a3 a4 (sxr_spin a5 a6) (sxr_spin a7 a8) a9 a10
  · cases hr
  · obtain ⟨a1, a2⟩ := ha
    rename_i k
    have : k < L := by
      by_contra hc
      have : k = L := by omega
      exact ht (by rw [this])
    exact sxr_c11 L k a1 this
  · exact ha.elim

end Ptn.Ham

import PtnModel.Proofs.ChainSem
import PtnModel.Proofs.ChainDen
/-!
# `from_opchains`: the graph denotes the sum of the identity-padded chains

`fromOpchains_denF`: if `fromOpchains chains L id = .ok g` (with `1 ≤ L` and non-negative start sites) then
`g.denF w = Σ_{c ∈ chains} [paddedWord c = w] · c.coeff` for every word `w` (in particular `0` for words whose length is not `L`).
-/
set_option linter.unusedSectionVars false

namespace Ptn.Ch
open Ptn Ptn.Og List

variable {κ : Type} [CommRing κ] [DecidableEq κ]

/-- the symbolic meaning of a chain list on `L` sites, as a function on words -/
def chainsDen (chains : List (OpChain κ)) (L : Int) (oidIdentity : Int) (w : Word) : κ :=
  (chains.map fun c => if c.paddedWord L oidIdentity = w then c.coeff else 0).sum

/-- chains with coefficient zero do not contribute -/
theorem chainsDen_filter (chains : List (OpChain κ)) (L : Int) (oid : Int) (w : Word) :
    chainsDen (chains.filter fun c => c.coeff != 0) L oid w = chainsDen chains L oid w := by
  unfold chainsDen
  induction chains with
  | nil => simp
  | cons c cs ih =>
    by_cases hc : c.coeff = 0
    · simp only [filter_cons, hc, bne_self_eq_false, Bool.false_eq_true, if_false, map_cons, sum_cons, ite_self,
        zero_add]
      exact ih
    · have : (c.coeff != 0) = true := by simpa using hc
      simp only [filter_cons, this, if_true, map_cons, sum_cons, ih]

theorem mapM_ok_eq_map {α β : Type} (f : α → Except Err β) (F : α → β) : ∀ (l : List α) (l' : List β),
    (∀ a ∈ l, ∀ b, f a = .ok b → b = F a) → l.mapM f = .ok l' → l' = l.map F := by
  intro l
  induction l with
  | nil =>
    intro l' _ h
    simp only [mapM_nil, pure_ok_iff] at h
    simp [← h]
  | cons a l ih =>
    intro l' hf h
    simp only [mapM_cons, bind_ok_iff, pure_ok_iff] at h
    obtain ⟨b, hb, l1, hl1, rfl⟩ := h
    rw [map_cons, hf a (by simp) b hb, ih l1 (fun a' ha' => hf a' (mem_cons_of_mem _ ha')) hl1]

/-- `OpChain.padded` as a function -/
def padF (L id : Int) (c : OpChain κ) : OpChain κ :=
  ⟨c.paddedWord L id,
   pyRepeat c.istart (0 : Int) ++ c.qnums ++ pyRepeat (L - (c.length : Int) - c.istart) (0 : Int), c.coeff, 0⟩

theorem padded_ok (L id : Int) (c c' : OpChain κ) (h : c.padded L id = .ok c') :
    c' = padF L id c ∧ 0 ≤ L - (c.length : Int) - c.istart := by
  unfold OpChain.padded OpChain.mk' at h
  simp only [bind_ok_iff, pyAssert_ok_iff] at h
  obtain ⟨_, h1, h2⟩ := h
  split at h2
  · cases h2
  · split at h2
    · cases h2
    · cases h2
      exact ⟨rfl, by simpa using h1⟩

theorem padF_length (L id : Int) (c : OpChain κ) (h1 : 0 ≤ L - (c.length : Int) - c.istart) (h2 : 0 ≤ c.istart) :
    (padF L id c).oids.length = L.toNat := by
  simp only [padF, OpChain.paddedWord, pyRepeat, length_append, length_replicate, OpChain.length] at h1 ⊢
  omega

/-! ## iterating the sweep step -/

theorem hsum_nil_of_pos (es : List (Edge κ)) (hs : List HalfChain) (cs : List κ) (b : Word)
    (h : ∀ h' ∈ hs, 1 ≤ h'.nidl) : hsum es hs cs [] b = 0 := by
  unfold hsum hsumφ
  apply sum_map_eq_zero
  intro hc hhc
  have := h hc.1 (of_mem_zip (a := hc.1) (b := hc.2) hhc).1
  have : hc.1.nidl ≠ 0 := by omega
  simp [phi, pre, this]

theorem iter_sem : ∀ (n : Nat) (s s' : ChState κ),
    (List.range n).foldlM (fun s _ => siteStep s) s = .ok s' → SInv s → GI s.graph →
    SInv s' ∧ GI s'.graph ∧
    (∀ (w r0 : List Int) (b : Word), w.length = n →
      hsum (edgeList s'.graph) s'.vlistNext s'.coeffsNext (w.reverse ++ r0) b
        = hsum (edgeList s.graph) s.vlistNext s.coeffsNext r0 (w ++ b)) ∧
    (∀ (r : List Int) (b : Word), r.length < n →
      hsum (edgeList s'.graph) s'.vlistNext s'.coeffsNext r b = 0) ∧
    (1 ≤ n → ∀ h' ∈ s'.vlistNext, 1 ≤ h'.nidl) ∧
    (∀ h' ∈ s'.vlistNext, ∃ h ∈ s.vlistNext, ∃ w : Word, w.length = n ∧ h.oids = w ++ h'.oids) := by
  intro n
  induction n with
  | zero =>
    intro s s' h hS hG
    simp only [range_zero, foldlM_nil, pure_ok_iff] at h
    subst h
    refine ⟨hS, hG, ?_, by simp, by simp, ?_⟩
    · intro w r0 b hw
      have : w = [] := by simpa using hw
      subst this
      simp
    · intro h' hh'
      exact ⟨h', hh', [], rfl, rfl⟩
  | succ n ih =>
    intro s s' h hS hG
    rw [range_succ, foldlM_append] at h
    simp only [bind_ok_iff, foldlM_cons, foldlM_nil, pure_ok_iff] at h
    obtain ⟨s1, h1, s2, h2, rfl⟩ := h
    obtain ⟨hS1, hG1, hA, hB, _, hD⟩ := ih s s1 h1 hS hG
    obtain ⟨hS2, hstep, hnid, hsrc⟩ := siteStep_sem s1 s2 h2 hS1
    have hG2 := siteStep_gi s1 s2 hG1 h2
    have hpos : ∀ h' ∈ s2.vlistNext, 1 ≤ h'.nidl := by
      intro h' hh'
      have := hnid h' hh'
      have := hS1.pos
      omega
    refine ⟨hS2, hG2, ?_, ?_, fun _ => hpos, ?_⟩
    · intro w r0 b hw
      rcases eq_nil_or_concat' w with hw0 | ⟨w', o, rfl⟩
      · subst hw0; simp at hw
      · simp only [length_append, length_singleton, Nat.add_right_cancel_iff] at hw
        rw [reverse_append, reverse_singleton, singleton_append, cons_append, hstep, hA _ _ _ hw, append_assoc]
        rfl
    · intro r b hr
      cases r with
      | nil => exact hsum_nil_of_pos _ _ _ _ hpos
      | cons o r =>
        rw [hstep]
        apply hB
        simpa using hr
    · intro h' hh'
      obtain ⟨h1', hh1, o, ho⟩ := hsrc h' hh'
      obtain ⟨h0, hh0, w, hw, hw'⟩ := hD h1' hh1
      refine ⟨h0, hh0, w ++ [o], by simp [hw], ?_⟩
      rw [hw', ho, append_assoc]
      rfl

/-! ## the result of `from_opchains` -/

theorem lookup_dErase_ne {β : Type} (d : List (Int × β)) (k k2 : Int) (h : k2 ≠ k) :
    (dErase d k).lookup k2 = d.lookup k2 := by
  induction d with
  | nil => simp [dErase]
  | cons p rest ih =>
    obtain ⟨k', v'⟩ := p
    unfold dErase
    by_cases hk : k' = k
    · subst hk
      have : (k2 == k') = false := by simpa using h
      simp [lookup_cons, this]
    · have hb : (k' == k) = false := by simpa using hk
      simp only [hb, Bool.false_eq_true, if_false, lookup_cons]
      rw [ih]

theorem mem_of_mem_dErase {β : Type} (d : List (Int × β)) (k : Int) (p : Int × β) (h : p ∈ dErase d k) : p ∈ d := by
  induction d with
  | nil => simp [dErase] at h
  | cons q rest ih =>
    obtain ⟨k', v'⟩ := q
    unfold dErase at h
    by_cases hk : (k' == k) = true
    · simp only [hk, if_true] at h
      exact mem_cons_of_mem _ h
    · have hb : (k' == k) = false := by simpa using hk
      simp only [hb, Bool.false_eq_true, if_false, mem_cons] at h
      rcases h with h | h
      · rw [h]; exact mem_cons_self
      · exact mem_cons_of_mem _ (ih h)

/-- The graph returned by `from_opchains`, described explicitly: the sweep's graph without the dummy node,
end node `t`, and the operators of the edges with key in `K` multiplied by `c0` (`K` = the incoming edge ids
of the end node if `c0 ≠ 1`, nothing otherwise).  If it passes `is_consistent`, its denotation is `c0` times
the walk sum of the sweep's graph from node 0 to `t`. -/
theorem final_core (s : ChState κ) (hS : SInv s) (hG : GI s.graph) (t : Int) (ht : 1 ≤ t) (c0 : κ)
    (K : List Int) (g : Graph κ)
    (hg : g = { nodes := dErase s.graph.nodes (-1),
                edges := s.graph.edges.map (fun p => if p.1 ∈ K then (p.1, scaleEdge c0 p.2) else p),
                nidTerminal := (0, t) })
    (hK : (c0 ≠ 1 ∧ ∃ nodeEnd, dGet? s.graph.nodes t = some nodeEnd ∧ K = nodeEnd.eidsIn) ∨ (c0 = 1 ∧ K = []))
    (hcons : g.isConsistent = true) :
    ∀ w : Word, g.denF w = if w = [] then 0 else c0 * pre (edgeList s.graph) 0 w.reverse t := by
  let f : Int × Edge κ → Edge κ := fun p => p.2
  let g' : Int × Edge κ → Edge κ := fun p => if p.1 ∈ K then scaleEdge c0 p.2 else p.2
  have hgn : g.nodes = dErase s.graph.nodes (-1) := by rw [hg]
  have hge : g.edges = s.graph.edges.map (fun p => (p.1, g' p)) := by
    rw [hg]
    apply map_congr_left
    intro p _
    by_cases hp : p.1 ∈ K <;> simp [g', hp]
  have hgt : g.term true = t := by rw [hg]; rfl
  have hgf : g.term false = 0 := by rw [hg]; rfl
  have hel : edgeList g = s.graph.edges.map g' := by
    unfold edgeList; rw [hge, map_map]; rfl
  have hel0 : edgeList s.graph = s.graph.edges.map f := rfl
  have hkeys : (dKeys g.edges).Nodup := by
    have : dKeys g.edges = dKeys s.graph.edges := by
      rw [hge]; simp [dKeys, Function.comp_def]
    rw [this]; exact hG.edgesKeys
  have hnodes : NodesOK g.nodes := by
    intro p hp
    rw [hgn] at hp
    exact hG.nodesOK p (mem_of_mem_dErase _ _ _ hp)
  have hcv := CValid.of_consistent g hcons hkeys hnodes
  have hnids : ∀ p ∈ s.graph.edges, (f p).nids = (g' p).nids := by
    intro p _
    by_cases hp : p.1 ∈ K <;> simp [f, g', hp, scaleEdge]
  have hmono : ∀ p ∈ s.graph.edges, (f p).nids.1 < (f p).nids.2 := by
    intro p hp
    exact (hS.mono _ (mem_map_of_mem hp)).1
  have hop : ∀ p ∈ s.graph.edges, ∀ o, opc (g' p) o = opc (f p) o * (if (f p).nids.2 = t then c0 else 1) := by
    intro p hp o
    rcases hK with ⟨_, nodeEnd, hne, rfl⟩ | ⟨hc, rfl⟩
    · obtain ⟨fn, fe, _⟩ := isConsistent_facts g hcons
      have hmem : (p.1, g' p) ∈ g.edges := by
        rw [hge]; exact mem_map_of_mem (f := fun p => (p.1, g' p)) hp
      have hnode : dGet? g.nodes t = some nodeEnd := by
        rw [hgn, dGet?, lookup_dErase_ne _ _ _ (by omega)]
        exact hne
      have hiff : p.1 ∈ nodeEnd.eidsIn ↔ p.2.nids.2 = t := by
        constructor
        · intro hin
          obtain ⟨h1, h2⟩ := fn t nodeEnd (mem_of_dGet? hnode)
          obtain ⟨e, he, hx⟩ := h2 false p.1 (by simpa [Node.eids] using hin)
          rw [dGet?_of_mem hkeys hmem] at he
          cases he
          have : (g' p).nids.2 = t := by rw [h1]; simpa [Edge.nid] using hx
          rw [← hnids p hp] at this
          exact this
        · intro htgt
          obtain ⟨h1, h2⟩ := fe p.1 (g' p) hmem
          obtain ⟨n, hn1, hn2⟩ := h2 true
          have : (g' p).nid true = t := by
            simp only [Edge.nid, if_true]
            rw [← hnids p hp]
            exact htgt
          rw [this, hnode] at hn1
          cases hn1
          rw [h1]
          simpa [Node.eids] using hn2
      by_cases hin : p.1 ∈ nodeEnd.eidsIn
      · have := hiff.1 hin
        simp only [g', f, hin, if_true, this, opc_scaleEdge]
      · have : ¬ p.2.nids.2 = t := fun h => hin (hiff.2 h)
        simp only [g', f, hin, if_false, this, mul_one]
    · simp [g', f, hc]
  intro w
  unfold Graph.denF
  rw [denFrom_eq_fwd hcv, hgt, hgf, fwd_eq_pre, hel]
  by_cases hw : w = []
  · subst hw
    have : t ≠ 0 := by omega
    simp [pre, this]
  · rw [if_neg hw]
    cases hr : w.reverse with
    | nil => simp at hr; exact absurd hr hw
    | cons o r =>
      rw [pre_scaled _ f g' 0 t c0 hnids hmono hop, hel0]

end Ptn.Ch

import PtnModel.Proofs.EvoExactDefs
/-!
# Completeness of the bases of a chain of SQUARE isometries, and in-range dependence of the amplitudes

A chain of left isometries all of which are square (`d0 · d1 = d2`) is a chain of unitaries: the prefix products
`pmat As σ a x` are not only orthonormal in `x` (`leftIso_chain`) but also complete — orthonormal in `(σ, a)`.
Mirror image for chains of square right isometries.
-/
set_option linter.unusedSectionVars false

namespace Ptn.Evo
open Ptn Ptn.BondOps Ptn.Ortho Ptn.Env Ptn.Krylov Ptn.Dense Finset

variable {𝕜 : Type} [RCLike 𝕜] [DecidableEq 𝕜]

/-! ## square isometries are unitary -/

theorem fused_eq_iff {s a s' a' n : Nat} (ha : a < n) (ha' : a' < n) :
    s * n + a = s' * n + a' ↔ s = s' ∧ a = a' := by
  constructor
  · intro e
    have e1 := congrArg (· / n) e
    have e2 := congrArg (· % n) e
    simp only [Ortho.fused_div ha, Ortho.fused_div ha', Ortho.fused_mod ha, Ortho.fused_mod ha'] at e1 e2
    exact ⟨e1, e2⟩
  · rintro ⟨rfl, rfl⟩; rfl

omit [DecidableEq 𝕜] in
/-- rows of a square left isometry are orthonormal (private copy of `sq_left_unitary`) -/
theorem sq_left_unitary' {Q : T3 𝕜} (hQ : LeftIso Q) (hsq : Q.d0 * Q.d1 = Q.d2) {s a s' a' : Nat}
    (hs : s < Q.d0) (ha : a < Q.d1) (hs' : s' < Q.d0) (ha' : a' < Q.d1) :
    ∑ p ∈ range Q.d2, Q.f s a p * star (Q.f s' a' p) = if s = s' ∧ a = a' then 1 else 0 := by
  have key := sq_iso_unitary (𝕜 := 𝕜) Q.d2 (fun q p => Q.f (q / Q.d1) (q % Q.d1) p) (fun p p' hp hp' => by
    rw [← hQ p p' hp hp', ← hsq, Ortho.sum_fused]
    refine sum_congr rfl fun s _ => sum_congr rfl fun a ha => ?_
    rw [Ortho.fused_div (mem_range.1 ha), Ortho.fused_mod (mem_range.1 ha)])
  have := key (s * Q.d1 + a) (s' * Q.d1 + a') (by rw [← hsq]; exact Ortho.fused_lt hs ha) (by rw [← hsq]; exact Ortho.fused_lt hs' ha')
  simp only [Ortho.fused_div ha, Ortho.fused_mod ha, Ortho.fused_div ha', Ortho.fused_mod ha'] at this
  rw [this]
  by_cases h : s = s' ∧ a = a'
  · rw [if_pos h, if_pos ((fused_eq_iff ha ha').2 h)]
  · rw [if_neg h, if_neg (fun e => h ((fused_eq_iff ha ha').1 e))]

omit [DecidableEq 𝕜] in
/-- columns of a square right isometry are orthonormal (private copy of `sq_right_unitary`) -/
theorem sq_right_unitary' {R : T3 𝕜} (hR : RightIso R) (hsq : R.d1 = R.d0 * R.d2) {s b s' b' : Nat}
    (hs : s < R.d0) (hb : b < R.d2) (hs' : s' < R.d0) (hb' : b' < R.d2) :
    ∑ a ∈ range R.d1, R.f s a b * star (R.f s' a b') = if s = s' ∧ b = b' then 1 else 0 := by
  have key := sq_iso_unitary (𝕜 := 𝕜) R.d1 (fun q p => R.f (q / R.d2) p (q % R.d2)) (fun p p' hp hp' => by
    rw [← hR p p' hp hp', hsq, Ortho.sum_fused]
    refine sum_congr rfl fun s _ => sum_congr rfl fun b hb => ?_
    rw [Ortho.fused_div (mem_range.1 hb), Ortho.fused_mod (mem_range.1 hb)])
  have := key (s * R.d2 + b) (s' * R.d2 + b') (by rw [hsq]; exact Ortho.fused_lt hs hb) (by rw [hsq]; exact Ortho.fused_lt hs' hb')
  simp only [Ortho.fused_div hb, Ortho.fused_mod hb, Ortho.fused_div hb', Ortho.fused_mod hb'] at this
  rw [this]
  by_cases h : s = s' ∧ b = b'
  · rw [if_pos h, if_pos ((fused_eq_iff hb hb').2 h)]
  · rw [if_neg h, if_neg (fun e => h ((fused_eq_iff hb hb').1 e))]

/-! ## algebra -/

omit [DecidableEq 𝕜] in
theorem alg_completeL (Sx Sy Sy' : Finset Nat) (u v : Nat → 𝕜) (P Q : Nat → Nat → 𝕜) :
    ∑ x ∈ Sx, (∑ y ∈ Sy, u y * P y x) * star (∑ y' ∈ Sy', v y' * Q y' x) =
    ∑ y ∈ Sy, ∑ y' ∈ Sy', u y * star (v y') * ∑ x ∈ Sx, P y x * star (Q y' x) := by
  simp only [star_sum, Finset.sum_mul, Finset.mul_sum, star_mul']
  sum_pull Sy
  sum_pull Sy'
  sum_pull Sx
  ring

omit [DecidableEq 𝕜] in
theorem alg_completeR (Sa Sy Sy' : Finset Nat) (A B : Nat → Nat → 𝕜) (p q : Nat → 𝕜) :
    ∑ a ∈ Sa, (∑ y ∈ Sy, A a y * p y) * star (∑ y' ∈ Sy', B a y' * q y') =
    ∑ y ∈ Sy, ∑ y' ∈ Sy', (∑ a ∈ Sa, A a y * star (B a y')) * (p y * star (q y')) := by
  simp only [star_sum, Finset.sum_mul, Finset.mul_sum, star_mul']
  sum_pull Sy
  sum_pull Sy'
  sum_pull Sa
  ring

omit [DecidableEq 𝕜] in
/-- `Σ_y Σ_y' F y y' · [c ∧ y = y'] = [c] Σ_y F y y` -/
theorem sum_sum_delta (n : Nat) (F : Nat → Nat → 𝕜) (c : Prop) [Decidable c] :
    ∑ y ∈ range n, ∑ y' ∈ range n, F y y' * (if c ∧ y = y' then 1 else 0) =
    if c then ∑ y ∈ range n, F y y else 0 := by
  by_cases hc : c
  · rw [if_pos hc]
    refine sum_congr rfl fun y hy => ?_
    have e : ∀ y' ∈ range n, F y y' * (if c ∧ y = y' then (1 : 𝕜) else 0) = if y = y' then F y y' else 0 := by
      intro y' _
      by_cases h : y = y'
      · rw [if_pos ⟨hc, h⟩, if_pos h, mul_one]
      · rw [if_neg (fun e => h e.2), if_neg h, mul_zero]
    rw [sum_congr rfl e, sum_ite_eq (range n) y, if_pos hy]
  · rw [if_neg hc]
    refine sum_eq_zero fun y _ => sum_eq_zero fun y' _ => ?_
    rw [if_neg (fun e => hc e.1), mul_zero]

/-- a chain of square left isometries is complete: `Σ_x P_σ[a,x] conj P_σ'[a',x] = δ_{σσ'} δ_{aa'}` -/
theorem leftIso_chain_complete {ds : List Nat} {As : List (T3 𝕜)} {Dl Dr : Nat} (h : Chain3 ds As Dl Dr)
    (hiso : ∀ B ∈ As, LeftIso B) (hsq : ∀ B ∈ As, B.d0 * B.d1 = B.d2) {σ σ' : List Nat}
    (hσ : σ ∈ digits ds) (hσ' : σ' ∈ digits ds) {a a' : Nat} (ha : a < Dl) (ha' : a' < Dl) :
    ∑ x ∈ range Dr, pmat As σ a x * star (pmat As σ' a' x) = if σ = σ' ∧ a = a' then 1 else 0 := by
  induction ds generalizing As Dl a a' σ σ' with
  | nil =>
    cases As with
    | cons _ _ => simp at h
    | nil =>
      simp only [chain3_nil] at h
      subst h
      simp only [digits_nil, Finset.mem_singleton] at hσ hσ'
      subst hσ; subst hσ'
      simp only [pmat_nil, true_and]
      have e : ∀ x ∈ range Dl, (if a = x then (1 : 𝕜) else 0) * star (if a' = x then (1 : 𝕜) else 0) =
          if a = x then (if a = a' then 1 else 0) else 0 := by
        intro x _
        by_cases h1 : a = x
        · subst h1
          by_cases h2 : a = a'
          · subst h2; simp
          · have : ¬ a' = a := fun e => h2 e.symm
            simp [h2, this]
        · simp [h1]
      rw [sum_congr rfl e, sum_ite_eq (range Dl) a, if_pos (mem_range.2 ha)]
  | cons d ds ih =>
    cases As with
    | nil => simp at h
    | cons A As =>
      simp only [chain3_cons] at h
      obtain ⟨h0, h1, hc⟩ := h
      obtain ⟨s, ss, hs, hss, rfl⟩ := mem_digits_cons.1 hσ
      obtain ⟨s', ss', hs', hss', rfl⟩ := mem_digits_cons.1 hσ'
      have hA := hiso A (by simp)
      have hAsq := hsq A (by simp)
      simp only [pmat_cons]
      rw [alg_completeL (range Dr) (range A.d2) (range A.d2) (fun y => A.f s a y) (fun y => A.f s' a' y)
        (fun y x => pmat As ss y x) (fun y x => pmat As ss' y x)]
      have e : ∀ y ∈ range A.d2, ∀ y' ∈ range A.d2,
          A.f s a y * star (A.f s' a' y') * ∑ x ∈ range Dr, pmat As ss y x * star (pmat As ss' y' x) =
          A.f s a y * star (A.f s' a' y') * (if ss = ss' ∧ y = y' then 1 else 0) := by
        intro y hy y' hy'
        rw [ih hc (fun B hB => hiso B (by simp [hB])) (fun B hB => hsq B (by simp [hB])) hss hss'
          (mem_range.1 hy) (mem_range.1 hy')]
      rw [sum_congr rfl fun y hy => sum_congr rfl fun y' hy' => e y hy y' hy',
        sum_sum_delta A.d2 (fun y y' => A.f s a y * star (A.f s' a' y')) (ss = ss'),
        sq_left_unitary' hA hAsq (by rw [h0]; exact hs) (by rw [h1]; exact ha) (by rw [h0]; exact hs')
          (by rw [h1]; exact ha')]
      by_cases h2 : ss = ss'
      · by_cases h3 : s = s' ∧ a = a'
        · rw [if_pos h2, if_pos h3, if_pos ⟨by rw [h2, h3.1], h3.2⟩]
        · rw [if_pos h2, if_neg h3, if_neg (fun e => h3 ⟨(List.cons.inj e.1).1, e.2⟩)]
      · rw [if_neg h2, if_neg (fun e => h2 (List.cons.inj e.1).2)]

/-- a chain of square right isometries is complete: `Σ_a P_σ[a,c] conj P_σ'[a,c'] = δ_{σσ'} δ_{cc'}` -/
theorem rightIso_chain_complete {ds : List Nat} {As : List (T3 𝕜)} {Dl Dr : Nat} (h : Chain3 ds As Dl Dr)
    (hiso : ∀ B ∈ As, RightIso B) (hsq : ∀ B ∈ As, B.d1 = B.d0 * B.d2) {σ σ' : List Nat}
    (hσ : σ ∈ digits ds) (hσ' : σ' ∈ digits ds) {c c' : Nat} (hc : c < Dr) (hc' : c' < Dr) :
    ∑ a ∈ range Dl, pmat As σ a c * star (pmat As σ' a c') = if σ = σ' ∧ c = c' then 1 else 0 := by
  induction ds generalizing As Dl σ σ' with
  | nil =>
    cases As with
    | cons _ _ => simp at h
    | nil =>
      simp only [chain3_nil] at h
      subst h
      simp only [digits_nil, Finset.mem_singleton] at hσ hσ'
      subst hσ; subst hσ'
      simp only [pmat_nil, true_and]
      have e : ∀ a ∈ range Dl, (if a = c then (1 : 𝕜) else 0) * star (if a = c' then (1 : 𝕜) else 0) =
          if a = c then (if c = c' then 1 else 0) else 0 := by
        intro a _
        by_cases h1 : a = c
        · subst h1; simp
        · simp [h1]
      rw [sum_congr rfl e, sum_ite_eq' (range Dl) c, if_pos (mem_range.2 hc)]
  | cons d ds ih =>
    cases As with
    | nil => simp at h
    | cons A As =>
      simp only [chain3_cons] at h
      obtain ⟨h0, h1, hch⟩ := h
      obtain ⟨s, ss, hs, hss, rfl⟩ := mem_digits_cons.1 hσ
      obtain ⟨s', ss', hs', hss', rfl⟩ := mem_digits_cons.1 hσ'
      have hA := hiso A (by simp)
      have hAsq := hsq A (by simp)
      simp only [pmat_cons]
      rw [← h1, alg_completeR (range A.d1) (range A.d2) (range A.d2) (fun a y => A.f s a y) (fun a y => A.f s' a y)
        (fun y => pmat As ss y c) (fun y => pmat As ss' y c')]
      have e : ∀ y ∈ range A.d2, ∀ y' ∈ range A.d2,
          (∑ a ∈ range A.d1, A.f s a y * star (A.f s' a y')) * (pmat As ss y c * star (pmat As ss' y' c')) =
          pmat As ss y c * star (pmat As ss' y' c') * (if s = s' ∧ y = y' then 1 else 0) := by
        intro y hy y' hy'
        rw [sq_right_unitary' hA hAsq (by rw [h0]; exact hs) (mem_range.1 hy) (by rw [h0]; exact hs') (mem_range.1 hy'),
          mul_comm]
      rw [sum_congr rfl fun y hy => sum_congr rfl fun y' hy' => e y hy y' hy',
        sum_sum_delta A.d2 (fun y y' => pmat As ss y c * star (pmat As ss' y' c')) (s = s'),
        ih hch (fun B hB => hiso B (by simp [hB])) (fun B hB => hsq B (by simp [hB])) hss hss']
      by_cases h2 : s = s'
      · by_cases h3 : ss = ss' ∧ c = c'
        · rw [if_pos h2, if_pos h3, if_pos ⟨by rw [h2, h3.1], h3.2⟩]
        · rw [if_pos h2, if_neg h3, if_neg (fun e => h3 ⟨(List.cons.inj e.1).2, e.2⟩)]
      · rw [if_neg h2, if_neg (fun e => h2 (List.cons.inj e.1).1)]

/-- the amplitudes of `ψ[i := X]` only read the in-range entries of `X` -/
theorem amp_setSite_congr {ψ : MPS 𝕜} {d : Nat} (hψ : C04.MPS.Shaped ψ d) {i : Nat} (hi : i < ψ.A.length) {X Y : T3 𝕜}
    (hX0 : X.d0 = d) (hX1 : X.d1 = mpsBond ψ i) (hX2 : X.d2 = mpsBond ψ (i + 1)) (hXY : T3Eqv Y X)
    {σ : List Nat} (hσ : σ ∈ digitsU d ψ.A.length) : (ψ.setSite i Y).amp σ = (ψ.setSite i X).amp σ := by
  have hψ' := hψ.2
  have hY0 : Y.d0 = d := hXY.d0.trans hX0
  have hY1 : Y.d1 = mpsBond ψ i := hXY.d1.trans hX1
  have hY2 : Y.d2 = mpsBond ψ (i + 1) := hXY.d2.trans hX2
  have cL : Chain3 (List.replicate i d) (ψ.A.take i) 1 (mpsBond ψ i) := by
    have := chain3_take hψ' i (Nat.le_of_lt hi)
    rwa [take_replicate_le (Nat.le_of_lt hi)] at this
  have cR : Chain3 (List.replicate (ψ.A.length - (i + 1)) d) (ψ.A.drop (i + 1)) (mpsBond ψ (i + 1)) 1 := by
    have := chain3_drop hψ' (i + 1) (Nat.succ_le_of_lt hi)
    rwa [drop_replicate'] at this
  have cX : Chain3 (List.replicate ψ.A.length d) (ψ.A.take i ++ X :: ψ.A.drop (i + 1)) 1 1 := by
    rw [replicate_split hi]
    exact chain3_append cL (by simp only [chain3_cons]; exact ⟨hX0, hX1, hX2 ▸ cR⟩)
  have cY : Chain3 (List.replicate ψ.A.length d) (ψ.A.take i ++ Y :: ψ.A.drop (i + 1)) 1 1 := by
    rw [replicate_split hi]
    exact chain3_append cL (by simp only [chain3_cons]; exact ⟨hY0, hY1, hY2 ▸ cR⟩)
  have sX : (ψ.setSite i X).A = ψ.A.take i ++ X :: ψ.A.drop (i + 1) := by
    simp only [MPS.setSite, List.set_eq_take_append_cons_drop, hi, if_true]
  have sY : (ψ.setSite i Y).A = ψ.A.take i ++ Y :: ψ.A.drop (i + 1) := by
    simp only [MPS.setSite, List.set_eq_take_append_cons_drop, hi, if_true]
  rw [amp_eq_pmat (ψ := ψ.setSite i Y) (sY ▸ cY) hσ, amp_eq_pmat (ψ := ψ.setSite i X) (sX ▸ cX) hσ, sX, sY]
  have hσ2 : σ ∈ digits (List.replicate i d ++ d :: List.replicate (ψ.A.length - (i + 1)) d) := by
    rw [← replicate_split hi]; exact hσ
  obtain ⟨σl, τ, hl, hτ, rfl⟩ := mem_digits_append hσ2
  obtain ⟨s, σr, hs, _, rfl⟩ := mem_digits_cons.1 hτ
  rw [pmat_append cL _ hl _ Nat.one_pos 0, pmat_append cL _ hl _ Nat.one_pos 0]
  refine sum_congr rfl fun x hx => ?_
  congr 1
  rw [pmat_cons, pmat_cons, hXY.d2]
  refine sum_congr rfl fun y hy => ?_
  congr 1
  exact hXY.f s x y (by rw [hY0]; exact hs) (by rw [hY1]; exact mem_range.1 hx)
    (by rw [hXY.d2]; exact mem_range.1 hy)

variable {H : MPO 𝕜} {qd : List Int}

/-- the amplitudes of a sweep state only read the in-range entries of the centre tensor -/
theorem sameAmp_setA_congr {s : Sweep 𝕜} {c : Nat} (h : Canon H qd s c) {X Y : T3 𝕜}
    (hX : X.d0 = (getA s c).d0 ∧ X.d1 = (getA s c).d1 ∧ X.d2 = (getA s c).d2) (hXY : T3Eqv Y X) :
    SameAmp qd H.A.length (setA s c X) (setA s c Y) := by
  have hc' : c < (cur qd s).A.length := by rw [h.len]; exact h.hc
  obtain ⟨s0, s1, s2⟩ := h.wf.shape c h.hc
  have b1 := h.bond (j := c) (Nat.le_of_lt h.hc)
  have b2 := h.bond (j := c + 1) h.hc
  intro σ hσ
  rw [cur_setSite, cur_setSite]
  exact amp_setSite_congr h.shaped hc' (hX.1.trans s0) (hX.2.1.trans (s1.trans b1.symm))
    (hX.2.2.trans (s2.trans b2.symm)) hXY (by rw [h.len]; exact hσ)

/-- writing the centre tensor back changes nothing -/
theorem sameAmp_setA_self {s : Sweep 𝕜} {c : Nat} (h : Canon H qd s c) :
    SameAmp qd H.A.length s (setA s c (getA s c)) := by
  have hcs : c < s.A.size := by rw [h.wf.sizeA]; exact h.hc
  intro σ _
  rw [cur_setSite, cur_setSite_self qd s hcs]

end Ptn.Evo

import PtnModel.Model.Hamiltonian
/-!
# Chain templates of the lattice models: structural guards

`ChainWF L c`: the guards under which `OpGraph.from_opchains` accepts a chain on `L` sites
(`len(qnums) = len(oids) + 1`, start index non-negative, the chain fits, leading and trailing charge 0).
`translateChains` turns well-formed templates into well-formed chains, for every `L`.
-/
namespace Ptn.Ham
open Ptn.Og

theorem mem_pyRange {a b x : Int} : x ∈ pyRange a b ↔ a ≤ x ∧ x < b := by
  unfold pyRange
  simp only [List.mem_map, List.mem_range]
  constructor
  · rintro ⟨k, hk, rfl⟩
    omega
  · rintro ⟨h1, h2⟩
    exact ⟨(x - a).toNat, by omega, by omega⟩

theorem pyRange_length (a b : Int) : (pyRange a b).length = (b - a).toNat := by
  simp [pyRange]

theorem pyRange_nodup (a b : Int) : (pyRange a b).Nodup := by
  unfold pyRange
  rw [List.Nodup, List.pairwise_map]
  exact List.Pairwise.imp (fun h h' => h (by omega)) List.nodup_range

section
variable {κ : Type}

/-- what a chain template has to satisfy (everything except its position on the lattice) -/
structure TemplateWF (t : OpChain κ) : Prop where
  lens : t.qnums.length = t.oids.length + 1
  nonempty : 0 < t.oids.length
  q0 : t.qnums.head? = some 0
  qlast : t.qnums.getLast? = some 0

/-- the guards of `from_opchains` / `OpChain.padded` on a chain placed on `L` sites -/
structure ChainWF (L : Int) (c : OpChain κ) : Prop where
  lens : c.qnums.length = c.oids.length + 1
  nonempty : 0 < c.oids.length
  start : 0 ≤ c.istart
  fits : c.istart + (c.oids.length : Int) ≤ L
  q0 : c.qnums.head? = some 0
  qlast : c.qnums.getLast? = some 0

theorem mem_translateChains {lop : List (OpChain κ)} {L : Int} {ch : OpChain κ} :
    ch ∈ translateChains lop L ↔
      ∃ t ∈ lop, ∃ i : Int, 0 ≤ i ∧ i + (t.oids.length : Int) ≤ L ∧ ch = { t with istart := i } := by
  unfold translateChains
  simp only [List.mem_flatMap, List.mem_map, mem_pyRange, OpChain.length]
  constructor
  · rintro ⟨t, ht, i, ⟨h0, h1⟩, rfl⟩
    exact ⟨t, ht, i, h0, by omega, rfl⟩
  · rintro ⟨t, ht, i, h0, h1, rfl⟩
    exact ⟨t, ht, i, ⟨h0, by omega⟩, rfl⟩

/-- translation over the lattice keeps the guards, for every lattice size (also sizes shorter than a template:
then the template contributes no chain) -/
theorem translateChains_wf {lop : List (OpChain κ)} (h : ∀ t ∈ lop, TemplateWF t) (L : Int) :
    ∀ ch ∈ translateChains lop L, ChainWF L ch := by
  intro ch hch
  obtain ⟨t, ht, i, h0, h1, rfl⟩ := mem_translateChains.1 hch
  have w := h t ht
  exact ⟨w.lens, w.nonempty, h0, h1, w.q0, w.qlast⟩

/-- a template longer than the lattice contributes nothing; otherwise `L - len + 1` shifted copies -/
theorem translateChains_length_single (t : OpChain κ) (L : Int) :
    (translateChains [t] L).length = (L - (t.oids.length : Int) + 1).toNat := by
  simp [translateChains, pyRange_length, OpChain.length]

/-- a well-formed chain passes `OpChain.padded` (the first thing `from_opchains` does with it) -/
theorem padded_ok {L : Int} {c : OpChain κ} (w : ChainWF L c) (oid : Int) :
    ∃ p, c.padded L oid = .ok p ∧ p.oids.length = L.toNat ∧ p.qnums.length = L.toNat + 1 ∧ p.coeff = c.coeff := by
  have hs := w.start
  have hf := w.fits
  have hl := w.lens
  unfold OpChain.padded
  have h1 : decide (L - (c.length : Int) - c.istart ≥ 0) = true := by
    apply decide_eq_true
    simp only [OpChain.length]; omega
  simp only [pyAssert, h1, if_true]
  have hlen1 : (pyRepeat c.istart oid ++ c.oids ++ pyRepeat (L - (c.length : Int) - c.istart) oid).length = L.toNat := by
    simp only [pyRepeat, List.length_append, List.length_replicate, OpChain.length]; omega
  have hlen2 : (pyRepeat c.istart (0 : Int) ++ c.qnums ++ pyRepeat (L - (c.length : Int) - c.istart) (0 : Int)).length = L.toNat + 1 := by
    simp only [pyRepeat, List.length_append, List.length_replicate, OpChain.length]; omega
  refine ⟨⟨_, _, c.coeff, 0⟩, ?_, hlen1, hlen2, rfl⟩
  simp only [OpChain.mk', bind, Except.bind, hlen1, hlen2]
  simp

end
end Ptn.Ham

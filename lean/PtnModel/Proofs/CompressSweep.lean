import PtnModel.Proofs.CompressBasic
/-!
# The truncating sweep of `MPS.compress`, abstractly (left-sweep coordinates)

* `StepSem tol A Anext A' Anext' qd qL qR qb` : what one local truncation step provides: `A'` well-formed left
  isometry, `Anext' = W · Anext` for a block-sparse `K × D` matrix `W` carrying between `(1 - tol)` and all of the
  Frobenius weight of `A`, and `A = A' W` when `tol = 0`;
* `Sweep Loc …`      : a run of the sweep recursion with an arbitrary local relation `Loc` (left SVD step, or right
  SVD step in mirrored coordinates);
* `SweepS tol qd …`  : the same annotated with `StepSem` at every site; `Sweep.toS`;
* consequences: `SweepS.wf`, `SweepS.iso`, `SweepS.weight`, `SweepS.dense0`.
-/
set_option linter.unusedSectionVars false
namespace Ptn.Compress
open Ptn.BondOps Ptn.Ortho Ptn.Env Finset

variable {𝕜 : Type} [RCLike 𝕜] [DecidableEq 𝕜]

/-- the matrix `W` pushed into the next tensor by a truncation step, with its properties -/
structure PushSem (tol : ℝ) (A Anext A' Anext' : T3 𝕜) (qR qb : List Int) (W : Mat 𝕜) : Prop where
  m : W.m = qb.length
  n : W.n = qR.length
  sp : Sparse W qb qR
  next : T3Eqv Anext' (rawPush W Anext)
  le : frobM W ≤ frobT A
  ge : (1 - tol) * frobT A ≤ frobM W
  exact : tol = 0 → ∀ s a b, s < A.d0 → a < A.d1 → b < A.d2 →
      ∑ p ∈ range qb.length, A'.f s a p * W.f p b = A.f s a b
  proj : ∀ p b, p < qb.length → b < A.d2 →
      ∑ s ∈ range A.d0, ∑ a ∈ range A.d1, star (A'.f s a p) * A.f s a b = W.f p b

/-- semantic content of one truncation step (left-sweep coordinates) -/
structure StepSem (tol : ℝ) (A Anext A' Anext' : T3 𝕜) (qd qL qR qb : List Int) : Prop where
  dims : LocalDims A A' Anext' Anext qd qL qR qb
  iso : LeftIso A'
  push : ∃ W : Mat 𝕜, PushSem tol A Anext A' Anext' qR qb W

section step
variable {tol : ℝ} {A Anext A' Anext' : T3 𝕜} {qd qL qR qb : List Int}

/-- the pushed tensor is well-formed w.r.t. the new bond charges -/
theorem StepSem.wfNext (h : StepSem tol A Anext A' Anext' qd qL qR qb) {qR' : List Int}
    (hN : T3Wf Anext qd qR qR') : T3Wf Anext' qd qb qR' := by
  obtain ⟨W, ⟨hm, hn, hsp, hN', -, -, -, -⟩⟩ := h.push
  refine T3Wf.congr hN' ⟨hN.d0, hm, hN.d2, ?_⟩
  intro s p c hs hp hc hne
  have hne' : ∑ b ∈ range W.n, W.f p b * Anext.f s b c ≠ 0 := hne
  obtain ⟨b, hb, hb0⟩ := Finset.exists_ne_zero_of_sum_ne_zero hne'
  have hb' : b < W.n := Finset.mem_range.1 hb
  have h1 : W.f p b ≠ 0 := fun h0 => hb0 (by rw [h0, zero_mul])
  have h2 : Anext.f s b c ≠ 0 := fun h0 => hb0 (by rw [h0, mul_zero])
  have e1 := hsp p b hp hb' h1
  have e2 := hN.sp s b c hs (by rw [hN.d1, ← hn]; exact hb') hc h2
  omega

/-- weight of the pushed tensor when `Anext` is a right isometry -/
theorem StepSem.weightNext (h : StepSem tol A Anext A' Anext' qd qL qR qb) (hA : T3Wf A qd qL qR)
    (hiso : RightIso Anext) : frobT Anext' ≤ frobT A ∧ (1 - tol) * frobT A ≤ frobT Anext' := by
  obtain ⟨W, ⟨hm, hn, hsp, hN', h1, h2, -, -⟩⟩ := h.push
  have : frobT Anext' = frobM W := by
    rw [frobT_congr hN']
    exact frobT_rawPush hiso (by rw [hn, ← hA.d2]; exact h.dims.dn)
  rw [this]
  exact ⟨h1, h2⟩

/-- with zero tolerance the two-site product is unchanged -/
theorem StepSem.prod (h : StepSem tol A Anext A' Anext' qd qL qR qb) (h0 : tol = 0) (hA : T3Wf A qd qL qR)
    {s a s' c : Nat} (hs : s < A.d0) (ha : a < A.d1) (hs' : s' < Anext.d0) (hc : c < Anext.d2) :
    ∑ p ∈ range qb.length, A'.f s a p * Anext'.f s' p c = ∑ b ∈ range A.d2, A.f s a b * Anext.f s' b c := by
  obtain ⟨W, ⟨hm, hn, hsp, hN', -, -, hex, -⟩⟩ := h.push
  have hWn : W.n = A.d2 := by rw [hn, hA.d2]
  have e1 : ∀ p ∈ range qb.length, A'.f s a p * Anext'.f s' p c =
      ∑ b ∈ range A.d2, (A'.f s a p * W.f p b) * Anext.f s' b c := by
    intro p hp
    have hp' : p < qb.length := Finset.mem_range.1 hp
    rw [hN'.f s' p c (by rw [hN'.d0]; exact hs') (by rw [hN'.d1]; show p < W.m; rw [hm]; exact hp')
        (by rw [hN'.d2]; exact hc)]
    show A'.f s a p * ∑ b ∈ range W.n, W.f p b * Anext.f s' b c = _
    rw [hWn, Finset.mul_sum]
    refine Finset.sum_congr rfl fun b _ => ?_
    rw [mul_assoc]
  rw [Finset.sum_congr rfl e1, Finset.sum_comm]
  refine Finset.sum_congr rfl fun b hb => ?_
  rw [← Finset.sum_mul, hex h0 s a b hs ha (Finset.mem_range.1 hb)]

end step

/-- a run of the sweep recursion with local relation `Loc A Anext qL qR A' Anext' qb` -/
inductive Sweep (Loc : T3 𝕜 → T3 𝕜 → List Int → List Int → T3 𝕜 → T3 𝕜 → List Int → Prop) :
    T3 𝕜 → List Int → List (T3 𝕜) → List (List Int) → List (T3 𝕜) → List (List Int) → T3 𝕜 → Prop
  | last {A X : T3 𝕜} {qL qR : List Int} {A' T : T3 𝕜} {qb : List Int} :
      IsOne X → Loc A X qL qR A' T qb → Sweep Loc A qL [] [qR] [A'] [qb] T
  | cons {A Anext : T3 𝕜} {qL qR : List Int} {rest : List (T3 𝕜)} {qRest : List (List Int)}
      {A' Anext' : T3 𝕜} {qb : List Int} {As : List (T3 𝕜)} {qs : List (List Int)} {T : T3 𝕜} :
      Loc A Anext qL qR A' Anext' qb → Sweep Loc Anext' qb rest qRest As qs T →
      Sweep Loc A qL (Anext :: rest) (qR :: qRest) (A' :: As) (qb :: qs) T

/-- a sweep annotated with the semantic content of every step -/
inductive SweepS (tol : ℝ) (qd : List Int) :
    T3 𝕜 → List Int → List (T3 𝕜) → List (List Int) → List (T3 𝕜) → List (List Int) → T3 𝕜 → Prop
  | last {A X : T3 𝕜} {qL qR : List Int} {A' T : T3 𝕜} {qb : List Int} :
      IsOne X → T3Wf A qd qL qR → 0 < qL.length → qR.length = 1 →
      StepSem tol A X A' T qd qL qR qb → SweepS tol qd A qL [] [qR] [A'] [qb] T
  | cons {A Anext : T3 𝕜} {qL qR : List Int} {rest : List (T3 𝕜)} {qRest : List (List Int)}
      {A' Anext' : T3 𝕜} {qb : List Int} {As : List (T3 𝕜)} {qs : List (List Int)} {T : T3 𝕜} :
      T3Wf A qd qL qR → 0 < qL.length → 0 < qR.length → RightIso Anext → Anext.d0 = qd.length →
      StepSem tol A Anext A' Anext' qd qL qR qb → SweepS tol qd Anext' qb rest qRest As qs T →
      SweepS tol qd A qL (Anext :: rest) (qR :: qRest) (A' :: As) (qb :: qs) T

section toS
variable {Loc : T3 𝕜 → T3 𝕜 → List Int → List Int → T3 𝕜 → T3 𝕜 → List Int → Prop}
variable {tol : ℝ} {qd : List Int}

/-- annotate a run: the invariants (well-formed chain, right isometries to the right, non-zero current tensor) are
maintained along the sweep when `tol < 1` -/
theorem Sweep.toS
    (hsem : ∀ {A Anext : T3 𝕜} {qL qR : List Int} {A' Anext' : T3 𝕜} {qb : List Int},
      Loc A Anext qL qR A' Anext' qb → T3Wf A qd qL qR → 0 < qL.length → 0 < qR.length →
      Anext.d1 = qR.length → 0 < frobT A → StepSem tol A Anext A' Anext' qd qL qR qb)
    (htol1 : tol < 1)
    {A : T3 𝕜} {qL : List Int} {rest : List (T3 𝕜)} {qRs : List (List Int)}
    {As : List (T3 𝕜)} {qs : List (List Int)} {T : T3 𝕜}
    (h : Sweep Loc A qL rest qRs As qs T) (hL : 0 < qL.length) (hw : WfChain qd qL (A :: rest) qRs)
    (hl : ((qL :: qRs).getLast?.getD []).length = 1) (hiso : ∀ B ∈ rest, RightIso B) (hpos : 0 < frobT A) :
    SweepS tol qd A qL rest qRs As qs T := by
  induction h with
  | @last A X qL qR A' T qb hX hloc =>
    simp only [wfChain_cons, wfChain_nil, and_true] at hw
    have h1 : qR.length = 1 := by simpa using hl
    exact SweepS.last hX hw.1 hL h1 (hsem hloc hw.1 hL hw.2 (by rw [hX.2.1, h1]) hpos)
  | @cons A Anext qL qR rest qRest A' Anext' qb As qs T hloc hsw ih =>
    cases qRest with
    | nil => simp at hw
    | cons qR' qRest =>
      simp only [wfChain_cons] at hw
      obtain ⟨hA, hR, hN, hR', hrest⟩ := hw
      have hst := hsem hloc hA hL hR hN.d1 hpos
      have hNiso := hiso Anext (by simp)
      have hN' := hst.wfNext hN
      have hwt := hst.weightNext hA hNiso
      have hpos' : 0 < frobT Anext' := by
        have : 0 < (1 - tol) * frobT A := mul_pos (by linarith) hpos
        linarith [hwt.2]
      have hl' : ((qb :: qR' :: qRest).getLast?.getD []).length = 1 := by
        rw [List.getLast?_cons_cons] at hl ⊢
        rw [List.getLast?_cons_cons] at hl
        exact hl
      exact SweepS.cons hA hL hR hNiso hN.d0 hst
        (ih hst.dims.pos (by simp only [wfChain_cons]; exact ⟨hN', hR', hrest⟩) hl'
          (fun B hB => hiso B (List.mem_cons_of_mem _ hB)) hpos')

end toS

section props
variable {tol : ℝ} {qd : List Int} {A : T3 𝕜} {qL : List Int} {rest : List (T3 𝕜)} {qRs : List (List Int)}
  {As : List (T3 𝕜)} {qs : List (List Int)} {T : T3 𝕜}

/-- the new chain is well-formed, the trailing factor is `1 × 1 × 1`, bonds do not grow -/
theorem SweepS.wf (h : SweepS tol qd A qL rest qRs As qs T) :
    WfChain qd qL As qs ∧ As.length = rest.length + 1 ∧ T.d0 = 1 ∧ T.d1 = 1 ∧ T.d2 = 1 ∧
      ((qL :: qs).getLast?.getD []).length = 1 ∧ BondLe qd.length qL.length qs qRs := by
  induction h with
  | @last A X qL qR A' T qb hX hA hL h1 hst =>
    have hd := hst.dims
    have hle := hd.le
    have hp := hd.pos
    have hb1 : qb.length = 1 := by
      have := Nat.le_trans hle (Nat.min_le_right _ _)
      omega
    refine ⟨by simp only [wfChain_cons, wfChain_nil, and_true]; exact ⟨hd.wfA, hd.pos⟩, rfl,
      hd.d0.trans hX.1, hd.d1.trans hb1, hd.d2.trans hX.2.2.1, by simpa using hb1, ?_⟩
    exact ⟨hd.pos, hd.le, trivial⟩
  | @cons A Anext qL qR rest qRest A' Anext' qb As qs T hA hL hR hNiso hN0 hst hsw ih =>
    obtain ⟨i1, i2, i3, i4, i5, i6, i7⟩ := ih
    have hd := hst.dims
    refine ⟨by simp only [wfChain_cons]; exact ⟨hd.wfA, hd.pos, i1⟩, by simp [i2], i3, i4, i5, ?_, ?_⟩
    · rw [List.getLast?_cons_cons]; exact i6
    · cases qRest with
      | nil => cases hsw
      | cons qR' qRest => exact ⟨hd.pos, hd.le, i7⟩

/-- every tensor of the new chain is a left isometry -/
theorem SweepS.iso (h : SweepS tol qd A qL rest qRs As qs T) : ∀ B ∈ As, LeftIso B := by
  induction h with
  | @last A X qL qR A' T qb hX hA hL h1 hst =>
    intro B hB
    rw [List.mem_singleton] at hB
    subst hB
    exact hst.iso
  | @cons A Anext qL qR rest qRest A' Anext' qb As qs T hA hL hR hNiso hN0 hst hsw ih =>
    intro B hB
    rcases List.mem_cons.1 hB with rfl | hB
    · exact hst.iso
    · exact ih B hB

/-- the weight of the trailing factor: at most that of the first tensor, at least `(1 - tol)^L` of it -/
theorem SweepS.weight (h : SweepS tol qd A qL rest qRs As qs T) (htol1 : tol ≤ 1) :
    frobT T ≤ frobT A ∧ (1 - tol) ^ (rest.length + 1) * frobT A ≤ frobT T := by
  have h1t : 0 ≤ 1 - tol := by linarith
  induction h with
  | @last A X qL qR A' T qb hX hA hL h1 hst =>
    have := hst.weightNext hA (isOne_rightIso hX)
    simpa using this
  | @cons A Anext qL qR rest qRest A' Anext' qb As qs T hA hL hR hNiso hN0 hst hsw ih =>
    have hw := hst.weightNext hA hNiso
    refine ⟨le_trans ih.1 hw.1, le_trans ?_ ih.2⟩
    rw [List.length_cons, pow_succ, mul_assoc]
    exact mul_le_mul_of_nonneg_left hw.2 (pow_nonneg h1t _)

/-- with zero tolerance the dense meaning is unchanged: `∏ A_k[σ_k] = (∏ A'_k[σ_k]) · T` -/
theorem SweepS.dense0 (h : SweepS tol qd A qL rest qRs As qs T) (h0 : tol = 0)
    {σ : List Nat} (hσ : σ ∈ digits (List.replicate (rest.length + 1) qd.length)) {a : Nat} (ha : a < qL.length) :
    pmat (A :: rest) σ a 0 = ∑ p ∈ range T.d1, pmat As σ a p * T.f 0 p 0 := by
  induction h generalizing σ a with
  | @last A X qL qR A' T qb hX hA hL h1 hst =>
    have hdims := hst.dims
    obtain ⟨s, t, hs, ht, rfl⟩ := mem_digits_cons.1 hσ
    simp only [List.length_nil, List.replicate_zero, digits_nil, Finset.mem_singleton] at ht
    subst ht
    have hA2 : A.d2 = 1 := hdims.dn.trans hX.2.1
    have hp := hst.prod h0 hA (s := s) (a := a) (s' := 0) (c := 0)
      (by rw [hA.d0]; exact hs) (by rw [hA.d1]; exact ha) (by rw [hX.1]; exact Nat.one_pos)
      (by rw [hX.2.2.1]; exact Nat.one_pos)
    simp only [pmat_cons, pmat_nil]
    rw [hA2] at hp ⊢
    rw [Finset.sum_range_one] at hp ⊢
    rw [hX.2.2.2, mul_one] at hp
    rw [if_pos rfl, mul_one, ← hp, hdims.d1]
    refine Finset.sum_congr rfl fun p hp' => ?_
    rw [hdims.wfA.d2, sum_ite_eq_of_lt (Finset.mem_range.1 hp')]
  | @cons A Anext qL qR rest qRest A' Anext' qb As qs T hA hL hR hNiso hN0 hst hsw ih =>
    have hdims := hst.dims
    obtain ⟨s, σ', hs, hσ', rfl⟩ := mem_digits_cons.1 hσ
    have ih' := fun x (hx : x < qb.length) => ih hσ' hx
    obtain ⟨s', σ'', hs', hσ'', rfl⟩ := mem_digits_cons.1 hσ'
    rw [pmat_cons]
    have e : ∑ p ∈ range T.d1, pmat (A' :: As) (s :: s' :: σ'') a p * T.f 0 p 0 =
        ∑ x ∈ range qb.length, A'.f s a x * pmat (Anext' :: rest) (s' :: σ'') x 0 := by
      simp only [pmat_cons (A := A'), Finset.sum_mul]
      rw [Finset.sum_comm, hdims.wfA.d2]
      refine Finset.sum_congr rfl fun x hx => ?_
      rw [ih' x (Finset.mem_range.1 hx), Finset.mul_sum]
      refine Finset.sum_congr rfl fun p _ => ?_
      rw [mul_assoc]
    rw [e]
    symm
    refine pmat_pair hdims.d2 ?_
    intro y hy
    exact hst.prod h0 hA (by rw [hA.d0]; exact hs) (by rw [hA.d1]; exact ha)
      (by rw [hN0]; exact hs') hy

end props

/-! ## overlap of the new chain with the old one -/

/-- the algebraic step behind `SweepS.overlap` -/
theorem overlap_step {ι : Type} (S : Finset ι) (d0 d1 K D : Nat) (A' A : Nat → Nat → Nat → 𝕜)
    (P Q : ι → Nat → 𝕜) (W : Nat → Nat → 𝕜)
    (hproj : ∀ x b, x < K → b < D → ∑ s ∈ range d0, ∑ a ∈ range d1, star (A' s a x) * A s a b = W x b) :
    ∑ s ∈ range d0, ∑ σ ∈ S, ∑ a ∈ range d1,
      star (∑ x ∈ range K, A' s a x * P σ x) * ∑ b ∈ range D, A s a b * Q σ b =
    ∑ σ ∈ S, ∑ x ∈ range K, star (P σ x) * ∑ b ∈ range D, W x b * Q σ b := by
  rw [Finset.sum_comm]
  refine Finset.sum_congr rfl fun σ _ => ?_
  calc ∑ s ∈ range d0, ∑ a ∈ range d1,
        star (∑ x ∈ range K, A' s a x * P σ x) * ∑ b ∈ range D, A s a b * Q σ b
      = ∑ s ∈ range d0, ∑ a ∈ range d1, ∑ x ∈ range K, ∑ b ∈ range D,
          (star (P σ x) * Q σ b) * (star (A' s a x) * A s a b) := by
        refine Finset.sum_congr rfl fun s _ => Finset.sum_congr rfl fun a _ => ?_
        rw [star_sum, Finset.sum_mul_sum]
        refine Finset.sum_congr rfl fun x _ => Finset.sum_congr rfl fun b _ => ?_
        rw [star_mul']; ring
    _ = ∑ x ∈ range K, ∑ b ∈ range D, ∑ s ∈ range d0, ∑ a ∈ range d1,
          (star (P σ x) * Q σ b) * (star (A' s a x) * A s a b) := sum4_reorder _ _ _ _ _
    _ = _ := by
        refine Finset.sum_congr rfl fun x hx => ?_
        rw [Finset.mul_sum]
        refine Finset.sum_congr rfl fun b hb => ?_
        simp only [← Finset.mul_sum]
        rw [hproj x b (Finset.mem_range.1 hx) (Finset.mem_range.1 hb)]
        ring

section overlap
variable {tol : ℝ} {qd : List Int} {A : T3 𝕜} {qL : List Int} {rest : List (T3 𝕜)} {qRs : List (List Int)}
  {As : List (T3 𝕜)} {qs : List (List Int)} {T : T3 𝕜}

/-- pushing `W` into the head of a chain: `Σ_b W[x,b] (∏ chain)[b,c] = (∏ chain')[x,c]` -/
theorem pmat_push {W : Mat 𝕜} {X X' : T3 𝕜} (hX' : T3Eqv X' (rawPush W X)) (rest : List (T3 𝕜))
    {s : Nat} (σ : List Nat) (hs : s < X.d0) {x : Nat} (hx : x < W.m) (c : Nat) :
    ∑ b ∈ range W.n, W.f x b * pmat (X :: rest) (s :: σ) b c = pmat (X' :: rest) (s :: σ) x c := by
  simp only [pmat_cons, Finset.mul_sum]
  rw [Finset.sum_comm, hX'.d2]
  show _ = ∑ y ∈ range X.d2, _
  refine Finset.sum_congr rfl fun y hy => ?_
  rw [hX'.f s x y (by rw [hX'.d0]; exact hs) (by rw [hX'.d1]; exact hx) (by rw [hX'.d2]; exact Finset.mem_range.1 hy)]
  show _ = (∑ b ∈ range W.n, W.f x b * X.f s b y) * _
  rw [Finset.sum_mul]
  refine Finset.sum_congr rfl fun b _ => ?_
  ring

/-- overlap of the new (left-canonical) chain with the old chain: `Σ_σ Σ_a conj(P'_σ[a,p]) P_σ[a,0] = T[0,p,0]` -/
theorem SweepS.overlap (h : SweepS tol qd A qL rest qRs As qs T) {p : Nat} (hp : p < T.d1) :
    ∑ σ ∈ digits (List.replicate (rest.length + 1) qd.length), ∑ a ∈ range qL.length,
      star (pmat As σ a p) * pmat (A :: rest) σ a 0 = T.f 0 p 0 := by
  induction h with
  | @last A X qL qR A' T qb hX hA hL h1 hst =>
    have hd := hst.dims
    obtain ⟨W, hW⟩ := hst.push
    have hA2 : A.d2 = 1 := hd.dn.trans hX.2.1
    have hp' : p < qb.length := by rw [← hd.d1]; exact hp
    simp only [List.length_nil, Nat.zero_add, List.replicate_one]
    rw [sum_digits_cons]
    simp only [digits_nil, Finset.sum_singleton, pmat_cons, pmat_nil]
    have hT : T.f 0 p 0 = W.f p 0 := by
      rw [hW.next.f 0 p 0 (by rw [hd.d0, hX.1]; exact Nat.one_pos) (by rw [hd.d1]; exact hp')
        (by rw [hd.d2, hX.2.2.1]; exact Nat.one_pos)]
      show ∑ b ∈ range W.n, W.f p b * X.f 0 b 0 = _
      rw [hW.n, h1, Finset.sum_range_one, hX.2.2.2, mul_one]
    rw [hT, ← hW.proj p 0 hp' (by rw [hA2]; exact Nat.one_pos), hA.d0, hA.d1]
    refine Finset.sum_congr rfl fun s _ => Finset.sum_congr rfl fun a _ => ?_
    rw [hd.wfA.d2, sum_ite_eq_of_lt hp', hA2, Finset.sum_range_one, if_pos rfl, mul_one]
  | @cons A Anext qL qR rest qRest A' Anext' qb As qs T hA hL hR hNiso hN0 hst hsw ih =>
    have hd := hst.dims
    obtain ⟨W, hW⟩ := hst.push
    have IH := ih hp
    simp only [List.length_cons]
    rw [List.replicate_succ, sum_digits_cons]
    simp only [pmat_cons (A := A'), pmat_cons (A := A)]
    have key := overlap_step (digits (List.replicate (rest.length + 1) qd.length)) qd.length qL.length qb.length A.d2
      A'.f A.f (fun σ x => pmat As σ x p) (fun σ b => pmat (Anext :: rest) σ b 0) W.f
      (fun x b hx hb => by rw [← hW.proj x b hx hb, hA.d0, hA.d1])
    rw [hd.wfA.d2, key, ← IH]
    refine Finset.sum_congr rfl fun σ hσ => Finset.sum_congr rfl fun x hx => ?_
    obtain ⟨s', σ'', hs', hσ'', rfl⟩ := mem_digits_cons.1 hσ
    congr 1
    have hWn : W.n = A.d2 := by rw [hW.n, hA.d2]
    rw [← hWn]
    exact pmat_push hW.next rest σ'' (by rw [hN0]; exact hs') (by rw [hW.m]; exact Finset.mem_range.1 hx) 0

end overlap
end Ptn.Compress

import PtnModel.Proofs.DenseSparse
import PtnModel.Proofs.DenseFromVectorShape
/-!
# The sparse and the dense path of `as_matrix` return the same matrix

`asMatrix_ok`: the dense path returns on shaped MPOs; `asMatrixSparse_eq_asMatrix`: both paths return matrices of shape
`d^L × d^L` with equal entries (every position `< d^L` is the row-major position of a digit list, `flat_surj`).
-/
namespace Ptn.MPO
open Finset Dense
variable {R : Type} [CommRing R]

/-- the dense path of `as_matrix` returns on every shaped MPO -/
theorem asMatrix_ok (o : MPO R) (d : Nat) (ho : Shaped o d) : ∃ m, o.asMatrix = .ok m := by
  have hc := ho.chain
  unfold asMatrix
  split
  · rename_i hA; exact absurd hA ho.nonempty
  · rename_i A0 rest hA
    rw [hA] at hc
    obtain ⟨_, _, h2, hc'⟩ := hc
    obtain ⟨_, _, i2, i3, _⟩ := fold_merge d rest A0 1 hc'
    refine ⟨⟨(rest.foldl (fun acc A => (mergePair acc A).tab) A0).d0,
      (rest.foldl (fun acc A => (mergePair acc A).tab) A0).d1,
      fun s t => (rest.foldl (fun acc A => (mergePair acc A).tab) A0).f s t 0 0⟩, ?_⟩
    simp only [pyAssert_bind, pure_ok]
    exact ⟨by simp [i2, i3, h2], trivial⟩

theorem asMatrixSparse_eq_asMatrix (o : MPO R) (d : Nat) (ho : Shaped o d) (hd : 0 < d ∨ o.A.length = 1)
    (hpos : ∀ A ∈ o.A, 0 < A.d2) :
    ∃ ms md, o.asMatrixSparse = .ok ms ∧ o.asMatrix = .ok md ∧
      ms.m = d ^ o.A.length ∧ ms.n = d ^ o.A.length ∧ md.m = d ^ o.A.length ∧ md.n = d ^ o.A.length ∧
      ∀ i < d ^ o.A.length, ∀ j < d ^ o.A.length, ms.f i j = md.f i j := by
  obtain ⟨ms, hs, hsm, hsn, hsf⟩ := asMatrixSparse_elem o d ho hd hpos
  obtain ⟨md, hdm⟩ := asMatrix_ok o d ho
  obtain ⟨hdm', hdn, hdf⟩ := asMatrix_elem o d ho md hdm
  refine ⟨ms, md, hs, hdm, hsm, hsn, hdm', hdn, ?_⟩
  intro i hi j hj
  obtain ⟨s, hs', rfl⟩ := flat_surj d _ i hi
  obtain ⟨t, ht', rfl⟩ := flat_surj d _ j hj
  rw [hsf s t hs' ht', hdf s t hs' ht']

end Ptn.MPO

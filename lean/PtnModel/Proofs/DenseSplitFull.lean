import PtnModel.Props.C12Split
import PtnModel.Proofs.DenseSplit
/-!
# Zero-tolerance `split_mps_tensor` followed by `merge_mps_tensor_pair` is the identity, under the kernel contracts

Discharges the reconstruction hypothesis of `MPS.split_merge` from the C12 facts about `split_matrix_svd`
(`C12.split_tol0_exact`, `C12.split_dims`, `C12.split_rule_positive`, `C12.split_zero`).
-/
namespace Ptn.MPS
open Finset Dense BondOps Ptn.C12

variable {𝕜 : Type} [CommRing 𝕜] [StarRing 𝕜] [DecidableEq 𝕜]
variable {ρ : Type} [Field ρ] [LinearOrder ρ] [IsStrictOrderedRing ρ] [RealLike ρ 𝕜]

omit [StarRing 𝕜] [IsStrictOrderedRing ρ] [RealLike ρ 𝕜] in
/-- the asserts at the head of `split_matrix_svd` -/
theorem splitMatrixSvd_pre (dsvd : Mat 𝕜 → Mat 𝕜 × List ρ × Mat 𝕜) (dnorm : List ρ → ρ)
    (dargsort : List ρ → List Nat) (M : Mat 𝕜) (q0 q1 : List Int) (tol : ρ) (r)
    (h : splitMatrixSvd dsvd dnorm dargsort M q0 q1 tol = .ok r) :
    q0.length = M.m ∧ q1.length = M.n ∧ Sparse M q0 q1 := by
  unfold splitMatrixSvd at h
  simp only [pyAssert_bind] at h
  obtain ⟨h0, h1, h2, _⟩ := h
  exact ⟨by simpa using h0, by simpa using h1, (isSparseMat_iff M q0 q1).1 h2⟩

omit [LinearOrder ρ] [IsStrictOrderedRing ρ] in
theorem getD_zero_or_mem (l : List ρ) (i : Nat) : l.getD i 0 = 0 ∨ l.getD i 0 ∈ l := by
  rcases Nat.lt_or_ge i l.length with h | h
  · right; simp [List.getD_eq_getElem?_getD, List.getElem?_eq_getElem h]
  · left; simp [List.getD_eq_getElem?_getD, List.getElem?_eq_none h]

theorem split_merge_tol0' (ι : ρ →+* 𝕜) (hι : ∀ x : ρ, (RealLike.ofReal x : 𝕜) = ι x)
    (k : SvdKernels 𝕜 ρ) (dsqrt : ρ → ρ) (A : T3 𝕜) (qd0 qd1 qD0 qD2 : List Int) (distr : Nat)
    (hc : SVDContractOn ι k.dsvd (splitMat A qd0.length qd1.length).tab (QN.flatten2 qd0 qD0)
      (QN.flatten2 (QN.neg qd1) qD2))
    (hnorm : NormContract
      (spectrum k.dsvd (splitMat A qd0.length qd1.length).tab (QN.flatten2 qd0 qD0) (QN.flatten2 (QN.neg qd1) qD2))
      (k.dnorm (spectrum k.dsvd (splitMat A qd0.length qd1.length).tab (QN.flatten2 qd0 qD0)
        (QN.flatten2 (QN.neg qd1) qD2))))
    (hsort : SortContract
      (sortKeys (spectrum k.dsvd (splitMat A qd0.length qd1.length).tab (QN.flatten2 qd0 qD0)
          (QN.flatten2 (QN.neg qd1) qD2))
        (k.dnorm (spectrum k.dsvd (splitMat A qd0.length qd1.length).tab (QN.flatten2 qd0 qD0)
          (QN.flatten2 (QN.neg qd1) qD2))))
      (k.dargsort (sortKeys (spectrum k.dsvd (splitMat A qd0.length qd1.length).tab (QN.flatten2 qd0 qD0)
          (QN.flatten2 (QN.neg qd1) qD2))
        (k.dnorm (spectrum k.dsvd (splitMat A qd0.length qd1.length).tab (QN.flatten2 qd0 qD0)
          (QN.flatten2 (QN.neg qd1) qD2))))))
    (hsqrt : distr = 2 → ∀ x, (x = 0 ∨ x ∈ spectrum k.dsvd (splitMat A qd0.length qd1.length).tab
      (QN.flatten2 qd0 qD0) (QN.flatten2 (QN.neg qd1) qD2)) → dsqrt x * dsqrt x = x)
    (B0 B1 : T3 𝕜) (qb : List Int)
    (h : splitMpsTensor k dsqrt A qd0 qd1 qD0 qD2 distr (0 : ρ) = .ok (B0, B1, qb)) :
    (mergePair B0 B1).d0 = A.d0 ∧ (mergePair B0 B1).d1 = A.d1 ∧ (mergePair B0 B1).d2 = A.d2 ∧
    ∀ s < A.d0, ∀ a < A.d1, ∀ c < A.d2, (mergePair B0 B1).f s a c = A.f s a c := by
  apply split_merge' k dsqrt A qd0 qd1 qD0 qD2 distr 0 B0 B1 qb h
  intro hm hn U σ V q hrun
  obtain ⟨hq0, hq1, hsp⟩ := splitMatrixSvd_pre _ _ _ _ _ _ _ _ hrun
  have hm' : 0 < (splitMat A qd0.length qd1.length).tab.m := hm
  have hn' : 0 < (splitMat A qd0.length qd1.length).tab.n := hn
  obtain ⟨um, un, vm, vn, _⟩ := split_dims k.dnorm k.dargsort 0 hc.shape hq0 hq1 hm' hn' hsp hrun
  constructor
  · intro hd p hp
    have hmem : σ.getD p 0 = 0 ∨ σ.getD p 0 ∈ spectrum k.dsvd (splitMat A qd0.length qd1.length).tab
        (QN.flatten2 qd0 qD0) (QN.flatten2 (QN.neg qd1) qD2) := by
      by_cases hne : ¬ AnyNZ (splitMat A qd0.length qd1.length).tab
      · obtain ⟨u', v', hr', _⟩ := split_zero (A := (splitMat A qd0.length qd1.length).tab) k.dnorm k.dargsort 0
          ι k.dsvd hq0 hq1 hm' hn' hsp hne
        rw [hr'] at hrun
        simp only [Except.ok.injEq, Prod.mk.injEq] at hrun
        obtain ⟨_, rfl, _⟩ := hrun
        have : p = 0 := by simpa using hp
        subst this
        left; simp
      · obtain ⟨hs, _⟩ := split_values k.dnorm k.dargsort 0 hc.shape hq0 hq1 hm' hn' hsp hrun
          (Classical.not_not.1 hne)
        have hp' : p < (retainedBondIndices k.dnorm k.dargsort (spectrum k.dsvd
            (splitMat A qd0.length qd1.length).tab (QN.flatten2 qd0 qD0) (QN.flatten2 (QN.neg qd1) qD2)) 0).length := by
          rw [hs] at hp; simpa using hp
        rw [hs, List.getD_eq_getElem?_getD, List.getElem?_map, List.getElem?_eq_getElem hp']
        exact getD_zero_or_mem _ _
    rw [hι, hι, ← map_mul, hsqrt hd _ hmem]
  · intro i hi j hj
    have e := split_tol0_exact k.dnorm k.dargsort hc hq0 hq1 hm' hn' hsp hrun hnorm hsort
      (i := i) (j := j) hi hj
    rw [Mat.tab_f _ hi hj] at e
    rw [← e]
    simp only [tripleF, un, hι]

end Ptn.MPS

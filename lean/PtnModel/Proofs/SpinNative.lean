import PtnModel.Proofs.SpinEnum
/-!
# Jordan-Wigner operators of the spin orbitals as words over the pair tables (`L` sites of dimension 4)

`a†_{iσ}` / `a_{iσ}` on `L` sites of dimension 4: identities (`Id = 0`) on the sites before `i`, at site `i` the pair `(C, Z)` / `(A, Z)`
(`σ = 0`, spin up: the `Z` of the string already acts on the spin-down mode of the same site) resp. `(I, C)` / `(I, A)` (`σ = 1`), and
`(Z, Z) = 22` on all later sites.

* `sjwC_weight`, `sjwA_weight` : their dense entries over `spinMolOpmap` at `(s, u)` are those of `jwC (2 L) (2 i + σ)` / `jwA …` over
                                 `molOpmap` at `(unpair s, unpair u)`;
* `sumDigits_unpair`           : a sum over `{0..3}^L` of a function of the split digit list is the sum over `{0,1}^{2L}`;
* `sjw2_eq`, `sjw4_eq`         : the products of these `4^L × 4^L` matrices are the products of the `2^{2L} × 2^{2L}` Jordan-Wigner matrices.
-/
set_option linter.unusedSectionVars false

namespace Ptn.Spin
open Ptn Ptn.Og Ptn.Ham Ptn.Ch Ptn.Ham2 List

variable {κ : Type} [CommRing κ] [DecidableEq κ]

/-- `a†_{iσ}` on `L` sites of dimension 4 (ids of `SpinMolecularOID`: `CZ = 8`, `IC = 1`, `ZZ = 22`, `Id = 0`) -/
def sjwC (L i σ : Nat) : Word := List.replicate i 0 ++ (if σ = 0 then 8 else 1) :: List.replicate (L - 1 - i) 22
/-- `a_{iσ}` on `L` sites of dimension 4 (`AZ = 13`, `IA = 2`) -/
def sjwA (L i σ : Nat) : Word := List.replicate i 0 ++ (if σ = 0 then 13 else 2) :: List.replicate (L - 1 - i) 22

theorem mapM_rep_pair (p : Int × Int) (v : Int) (hp : pairMapGet p = .ok v) (k : Nat) :
    (List.replicate k p).mapM pairMapGet = .ok (List.replicate k v) := by
  induction k with
  | zero => rfl
  | succ k ih =>
    simp only [replicate_succ, mapM_cons, bind_ok_iff, pure_ok_iff]
    exact ⟨v, hp, _, ih, rfl⟩

/-- the mode word `I^{2i+σ} X Z^{2L-1-2i-σ}` (`X` = `C` or `A`) is paired into `Id^i (X,Z)|(I,X) ZZ^{L-1-i}` -/
theorem pairs_jw (L i σ : Nat) (hi : i < L) (hσ : σ < 2) (X vx0 vx1 : Int) (h0 : pairMapGet (X, mZ) = .ok vx0)
    (h1 : pairMapGet (mI, X) = .ok vx1) :
    (evenOddPairs (List.replicate (2 * i + σ) mI ++ X :: List.replicate (2 * L - 1 - (2 * i + σ)) mZ)).mapM pairMapGet
      = .ok (List.replicate i 0 ++ (if σ = 0 then vx0 else vx1) :: List.replicate (L - 1 - i) 22) := by
  have hσ' : σ = 0 ∨ σ = 1 := by omega
  rcases hσ' with rfl | rfl
  · have e : 2 * L - 1 - (2 * i + 0) = 2 * (L - 1 - i) + 1 := by omega
    rw [e, Nat.add_zero, replicate_succ, evenOddPairs_rep, evenOddPairs, evenOddPairs_rep_nil]
    exact mapM_append_ok _ _ _ _ _ (mapM_rep_II _) (by
      simp only [mapM_cons, bind_ok_iff, pure_ok_iff]
      exact ⟨vx0, h0, _, mapM_rep_pair (mZ, mZ) 22 rfl _, by simp⟩)
  · have e : 2 * L - 1 - (2 * i + 1) = 2 * (L - 1 - i) := by omega
    rw [e, replicate_succ', append_assoc, evenOddPairs_rep]
    simp only [cons_append, nil_append, evenOddPairs]
    rw [evenOddPairs_rep_nil]
    exact mapM_append_ok _ _ _ _ _ (mapM_rep_II _) (by
      simp only [mapM_cons, bind_ok_iff, pure_ok_iff]
      exact ⟨vx1, h1, _, mapM_rep_pair (mZ, mZ) 22 rfl _, by simp⟩)

theorem jwC_mol (n m : Nat) : ∀ o ∈ jwC n m, isMolOid o := by
  intro o ho
  simp only [jwC, mem_append, mem_replicate, mem_cons] at ho
  rcases ho with ⟨_, rfl⟩ | rfl | ⟨_, rfl⟩
  · exact Or.inr (Or.inl rfl)
  · exact Or.inr (Or.inr (Or.inl rfl))
  · exact Or.inr (Or.inr (Or.inr (Or.inr rfl)))

theorem jwA_mol (n m : Nat) : ∀ o ∈ jwA n m, isMolOid o := by
  intro o ho
  simp only [jwA, mem_append, mem_replicate, mem_cons] at ho
  rcases ho with ⟨_, rfl⟩ | rfl | ⟨_, rfl⟩
  · exact Or.inr (Or.inl rfl)
  · exact Or.inl rfl
  · exact Or.inr (Or.inr (Or.inr (Or.inr rfl)))

theorem sjwC_length (L i σ : Nat) (hi : i < L) : (sjwC L i σ).length = L := by simp [sjwC]; omega
theorem sjwA_length (L i σ : Nat) (hi : i < L) : (sjwA L i σ).length = L := by simp [sjwA]; omega

/-- dense entries of `a†_{iσ}` over the pair tables = dense entries of the Jordan-Wigner word of mode `2 i + σ` -/
theorem sjwC_weight (L i σ : Nat) (hi : i < L) (hσ : σ < 2) (s u : List Nat) (hs : s.length = L) (hu : u.length = L) :
    wordWeight (spinMolOpmap : OpMap κ) (sjwC L i σ) s u = wordWeight molOpmap (jwC (2 * L) (2 * i + σ)) (unpair s) (unpair u) := by
  have hl := sjwC_length L i σ hi
  exact pairWord_weight _ _ s u (jwC_mol _ _) (by rw [hl, jwC_length _ _ (by omega)])
    (pairs_jw L i σ hi hσ mC 8 1 rfl rfl) (by rw [hl, hs]) (by rw [hl, hu])

theorem sjwA_weight (L i σ : Nat) (hi : i < L) (hσ : σ < 2) (s u : List Nat) (hs : s.length = L) (hu : u.length = L) :
    wordWeight (spinMolOpmap : OpMap κ) (sjwA L i σ) s u = wordWeight molOpmap (jwA (2 * L) (2 * i + σ)) (unpair s) (unpair u) := by
  have hl := sjwA_length L i σ hi
  exact pairWord_weight _ _ s u (jwA_mol _ _) (by rw [hl, jwA_length _ _ (by omega)])
    (pairs_jw L i σ hi hσ mA 13 2 rfl rfl) (by rw [hl, hs]) (by rw [hl, hu])

/-- summing over the `4^L` site digit lists a function of the split list = summing over the `2^{2L}` occupation lists -/
theorem sumDigits_unpair : ∀ (L : Nat) (F : List Nat → κ),
    sumDigits 4 L (fun u => F (unpair u)) = sumDigits 2 (2 * L) F := by
  intro L
  induction L with
  | zero => intro F; rfl
  | succ L ih =>
    intro F
    have e : 2 * (L + 1) = (2 * L + 1) + 1 := by omega
    rw [e, sumDigits_succ', sumDigits_succ']
    simp only [sumDigits_succ', unpair]
    have h := fun a : Nat => ih (fun us => F (a / 2 :: a % 2 :: us))
    simp only [h]
    simp [Finset.sum_range_succ]
    ring

/-- `⟨s| a†_{iσ} a_{jτ} |t⟩` as a product of `4^L × 4^L` matrices -/
def sjw2 (L i σ j τ : Nat) (s t : List Nat) : κ :=
  sumDigits 4 L fun u => wordWeight (spinMolOpmap : OpMap κ) (sjwC L i σ) s u * wordWeight spinMolOpmap (sjwA L j τ) u t

/-- `⟨s| a†_{iσ} a†_{jτ} a_{lν} a_{kμ} |t⟩ = (a†_{iσ} a†_{jτ})(a_{lν} a_{kμ})` as a product of `4^L × 4^L` matrices -/
def sjw4 (L i σ j τ k μ l ν : Nat) (s t : List Nat) : κ :=
  sumDigits 4 L fun u =>
    (sumDigits 4 L fun u1 => wordWeight (spinMolOpmap : OpMap κ) (sjwC L i σ) s u1 * wordWeight spinMolOpmap (sjwC L j τ) u1 u) *
    (sumDigits 4 L fun u3 => wordWeight (spinMolOpmap : OpMap κ) (sjwA L l ν) u u3 * wordWeight spinMolOpmap (sjwA L k μ) u3 t)

theorem sjw2_eq (L i σ j τ : Nat) (hi : i < L) (hσ : σ < 2) (hj : j < L) (hτ : τ < 2) (s t : List Nat)
    (hs : s.length = L) (ht : t.length = L) :
    sjw2 (κ := κ) L i σ j τ s t = sumDigits 2 (2 * L) (fun u =>
      wordWeight molOpmap (jwC (2 * L) (2 * i + σ)) (unpair s) u * wordWeight molOpmap (jwA (2 * L) (2 * j + τ)) u (unpair t)) := by
  rw [← sumDigits_unpair]
  apply sumDigits_congr'
  intro u hu
  rw [sjwC_weight L i σ hi hσ s u hs hu, sjwA_weight L j τ hj hτ u t hu ht]

theorem sjw4_eq (L i σ j τ k μ l ν : Nat) (hi : i < L) (hσ : σ < 2) (hj : j < L) (hτ : τ < 2) (hk : k < L) (hμ : μ < 2)
    (hl : l < L) (hν : ν < 2) (s t : List Nat) (hs : s.length = L) (ht : t.length = L) :
    sjw4 (κ := κ) L i σ j τ k μ l ν s t = jw4 (2 * L) (2 * i + σ) (2 * j + τ) (2 * k + μ) (2 * l + ν) (unpair s) (unpair t) := by
  unfold sjw4 jw4
  rw [← sumDigits_unpair]
  apply sumDigits_congr'
  intro u hu
  congr 1
  · rw [← sumDigits_unpair]
    apply sumDigits_congr'
    intro u1 hu1
    rw [sjwC_weight L i σ hi hσ s u1 hs hu1, sjwC_weight L j τ hj hτ u1 u hu1 hu]
  · rw [← sumDigits_unpair]
    apply sumDigits_congr'
    intro u3 hu3
    rw [sjwA_weight L l ν hl hν u u3 hu hu3, sjwA_weight L k μ hk hμ u3 t hu3 ht]

end Ptn.Spin

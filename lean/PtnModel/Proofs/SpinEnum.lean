import PtnModel.Proofs.SpinChains
/-!
# Spin-orbital enumeration: the sum of all chains

`spin_molecular_hamiltonian_mpo(tkin, vint, optimize=True)` enumerates chains on `2 L` modes `m = 2 i + σ` (`σ = 0` up, `1` down) and
converts them with `to_spin_opchain`.

* `spinMolChains_split` : the enumeration is `hop ++ int` (filtered `mapM` / accumulating loop with the `valid` filter);
* `getVintCoeff_eq`     : `get_vint_coeff` returns the antisymmetrisation `V_ijkl - V_jikl - V_ijlk + V_jilk` of
                          `V_{m1 m2 m3 m4} = ½ δ_{σ1 σ3} δ_{σ2 σ4} v_{m1/2, m2/2, m3/2, m4/2}` (`spinV`), and reports `valid = False` only
                          when all four terms vanish identically;
* `spin_hop_sum`        : the hopping chains sum to `Σ_ij Σ_σ t_ij a†_{iσ} a_{jσ}`;
* `spin_int_sum`        : the interaction chains sum to `Σ_ijkl Σ_στ ½ v_ijkl a†_{iσ} a†_{jτ} a_{lτ} a_{kσ}`,
as dense entries under the Jordan-Wigner matrices of `2 L` modes, site digits split by `unpair`.
-/
set_option linter.unusedSectionVars false

namespace Ptn.Spin
open Ptn Ptn.Og Ptn.Ham Ptn.Ch Ptn.Ham2 List

variable {κ : Type} [CommRing κ] [DecidableEq κ]

theorem spinMolChains_split (c : Consts κ) (tkin : List (List κ)) (vint : List (List (List (List κ)))) (chains : List (OpChain κ))
    (h : spinMolChains c tkin vint = .ok chains) :
    ∃ hop int, chains = hop ++ int ∧
      ((hopPairs (2 * (tkin.length : Int))).filter fun x => (x.1 - x.2) % 2 == 0).mapM (fun (x : Int × Int) =>
        if (x.1 == x.2) = true then (do
          let single ← OpChain.mk' [mN] [0, 0] (t2 tkin (x.1 / 2) (x.1 / 2)) x.1
          toSpinOpchain single)
        else (do
          let single ← molHopChain x.1 x.2 (t2 tkin (x.1 / 2) (x.2 / 2))
          toSpinOpchain single)) = .ok hop ∧
      (intTuples (2 * (tkin.length : Int))).foldlM (fun (acc : List (OpChain κ)) (q : Int × Int × Int × Int) =>
        if (!(getVintCoeff c vint (q.1 / 2, q.2.1 / 2, q.2.2.1 / 2, q.2.2.2 / 2) (q.1 % 2, q.2.1 % 2, q.2.2.1 % 2, q.2.2.2 % 2)).2) = true
        then pure acc
        else (do
          let single ← molIntChain q.1 q.2.1 q.2.2.1 q.2.2.2
            (getVintCoeff c vint (q.1 / 2, q.2.1 / 2, q.2.2.1 / 2, q.2.2.2 / 2) (q.1 % 2, q.2.1 % 2, q.2.2.1 % 2, q.2.2.2 % 2)).1
          let sc ← toSpinOpchain single
          pure (acc ++ [sc]))) [] = .ok int := by
  unfold spinMolChains at h
  simp only [bind_ok_iff, pure_ok_iff] at h
  obtain ⟨hop, hhop, int, hint, rfl⟩ := h
  exact ⟨hop, int, rfl, hhop, hint⟩

/-- sum over the result of an accumulating loop that appends at most one element per step -/
theorem foldlM_sum {α β : Type} (step : List β → α → Except Err (List β)) (G : β → κ) (H : α → κ) :
    ∀ (l : List α) (acc r : List β),
      (∀ a ∈ l, ∀ acc acc', step acc a = .ok acc' → (acc'.map G).sum = (acc.map G).sum + H a) →
      l.foldlM step acc = .ok r → (r.map G).sum = (acc.map G).sum + (l.map H).sum := by
  intro l
  induction l with
  | nil =>
    intro acc r _ h
    simp only [foldlM_nil, pure_ok_iff] at h
    subst h
    simp
  | cons a l ih =>
    intro acc r hst h
    simp only [foldlM_cons, bind_ok_iff] at h
    obtain ⟨acc1, h1, h2⟩ := h
    rw [ih acc1 r (fun x hx => hst x (mem_cons_of_mem _ hx)) h2, hst a (mem_cons_self ..) acc acc1 h1]
    simp only [map_cons, sum_cons]
    ring

/-- the coefficient function of the spin-orbital interaction on modes: `v'_{m1 m2 m3 m4} = ½ δ_{σ1 σ3} δ_{σ2 σ4} v_{m1/2, m2/2, m3/2, m4/2}` -/
def spinV (c : Consts κ) (vint : List (List (List (List κ)))) (m1 m2 m3 m4 : Nat) : κ :=
  if m1 % 2 = m3 % 2 ∧ m2 % 2 = m4 % 2 then
    c.half * v4 vint ((m1 / 2 : Nat) : Int) ((m2 / 2 : Nat) : Int) ((m3 / 2 : Nat) : Int) ((m4 / 2 : Nat) : Int) else 0

/-- `get_vint_coeff` is the antisymmetrisation of `spinV`; invalid spin patterns have antisymmetrised coefficient 0 -/
theorem getVintCoeff_eq (c : Consts κ) (vint : List (List (List (List κ)))) (i j k l : Nat) :
    (if (getVintCoeff c vint ((i : Int) / 2, (j : Int) / 2, (k : Int) / 2, (l : Int) / 2)
          ((i : Int) % 2, (j : Int) % 2, (k : Int) % 2, (l : Int) % 2)).2 = true then
        (getVintCoeff c vint ((i : Int) / 2, (j : Int) / 2, (k : Int) / 2, (l : Int) / 2)
          ((i : Int) % 2, (j : Int) % 2, (k : Int) % 2, (l : Int) % 2)).1 else 0)
      = spinV c vint i j k l - spinV c vint j i k l - spinV c vint i j l k + spinV c vint j i l k := by
  have ei : (i : Int) / 2 = ((i / 2 : Nat) : Int) := by omega
  have ej : (j : Int) / 2 = ((j / 2 : Nat) : Int) := by omega
  have ek : (k : Int) / 2 = ((k / 2 : Nat) : Int) := by omega
  have el : (l : Int) / 2 = ((l / 2 : Nat) : Int) := by omega
  rcases Nat.mod_two_eq_zero_or_one i with hi | hi <;> rcases Nat.mod_two_eq_zero_or_one j with hj | hj <;>
    rcases Nat.mod_two_eq_zero_or_one k with hk | hk <;> rcases Nat.mod_two_eq_zero_or_one l with hl | hl <;>
    (have hi' : (i : Int) % 2 = ((i % 2 : Nat) : Int) := by omega
     have hj' : (j : Int) % 2 = ((j % 2 : Nat) : Int) := by omega
     have hk' : (k : Int) % 2 = ((k % 2 : Nat) : Int) := by omega
     have hl' : (l : Int) % 2 = ((l % 2 : Nat) : Int) := by omega
     unfold getVintCoeff spinV gint0 gint1
     rw [hi', hj', hk', hl', ei, ej, ek, el, hi, hj, hk, hl]
     simp
     try ring)

theorem two_mul_cast (L : Nat) : 2 * (L : Int) = ((2 * L : Nat) : Int) := by push_cast; rfl

/-- a sum over the index pairs of the hopping loop as a double sum over ranges -/
theorem sum_hopPairs (n : Nat) (Φ : Int × Int → κ) :
    ((hopPairs (n : Int)).map Φ).sum = S2 n (fun i j => Φ ((i : Int), (j : Int))) := by
  unfold hopPairs S2
  rw [Ch.sum_flatMap, sum_pyRange_zero]
  apply Ch.sum_map_congr
  intro i _
  rw [map_map, sum_pyRange_zero]
  rfl

/-- **the hopping chains of the spin-orbital enumeration** sum to `Σ_ij Σ_σ t_ij a†_{iσ} a_{jσ}` (modes `2 i + σ`) -/
theorem spin_hop_sum (tkin : List (List κ)) (hop : List (OpChain κ))
    (h : ((hopPairs (2 * (tkin.length : Int))).filter fun x => (x.1 - x.2) % 2 == 0).mapM (fun (x : Int × Int) =>
        if (x.1 == x.2) = true then (do
          let single ← OpChain.mk' [mN] [0, 0] (t2 tkin (x.1 / 2) (x.1 / 2)) x.1
          toSpinOpchain single)
        else (do
          let single ← molHopChain x.1 x.2 (t2 tkin (x.1 / 2) (x.2 / 2))
          toSpinOpchain single)) = .ok hop)
    (s t : List Nat) (hs : s.length = tkin.length) (ht : t.length = tkin.length) :
    termsEntry spinMolOpmap (denChainsRaw hop (tkin.length : Int) 0) s t =
      S2 tkin.length (fun i j => ((List.range 2).map fun σ =>
        t2 tkin (i : Int) (j : Int) * sumDigits 2 (2 * tkin.length) (fun u =>
          wordWeight molOpmap (jwC (2 * tkin.length) (2 * i + σ)) (unpair s) u *
            wordWeight molOpmap (jwA (2 * tkin.length) (2 * j + σ)) u (unpair t))).sum) := by
  set L := tkin.length with hL
  obtain ⟨e1, _⟩ := mapM_sum _
    (fun ch : OpChain κ => ch.coeff * wordWeight spinMolOpmap (ch.paddedWord (L : Int) 0) s t)
    (fun p : Int × Int => t2 tkin (p.1 / 2) (p.2 / 2) *
      wordWeight molOpmap (hopWord (2 * L) p.1.toNat p.2.toNat) (unpair s) (unpair t))
    _ hop h (by
      intro p hp y hy
      simp only [hopPairs, mem_filter, mem_flatMap, mem_map, mem_pyRange, beq_iff_eq] at hp
      obtain ⟨⟨i, ⟨hi0, hi1⟩, j, ⟨hj0, hj1⟩, rfl⟩, hpar⟩ := hp
      simp only at hpar hy ⊢
      have ei : ((i.toNat : Nat) : Int) = i := by omega
      have ej : ((j.toNat : Nat) : Int) = j := by omega
      rw [← ei, ← ej] at hy
      have := spin_hop_chain L i.toNat j.toNat (by omega) (by omega) (by omega)
        (t2 tkin (((i.toNat : Nat) : Int) / 2) (((i.toNat : Nat) : Int) / 2))
        (t2 tkin (((i.toNat : Nat) : Int) / 2) (((j.toNat : Nat) : Int) / 2)) (by intro e; rw [e]) s t hs ht y hy
      rw [ei, ej] at this
      exact this)
  unfold termsEntry denChainsRaw
  rw [map_map]
  simp only [Function.comp_def]
  rw [e1, sum_filter, two_mul_cast, sum_hopPairs]
  have hcongr : ∀ m1 < 2 * L, ∀ m2 < 2 * L,
      (if ((((m1 : Int), (m2 : Int)).1 - ((m1 : Int), (m2 : Int)).2) % 2 == 0) = true then
        t2 tkin (((m1 : Int), (m2 : Int)).1 / 2) (((m1 : Int), (m2 : Int)).2 / 2) *
          wordWeight molOpmap (hopWord (2 * L) ((m1 : Int), (m2 : Int)).1.toNat ((m1 : Int), (m2 : Int)).2.toNat) (unpair s) (unpair t)
        else 0)
      = if m1 % 2 = m2 % 2 then t2 tkin ((m1 / 2 : Nat) : Int) ((m2 / 2 : Nat) : Int) *
          sumDigits 2 (2 * L) (fun u => wordWeight molOpmap (jwC (2 * L) m1) (unpair s) u *
            wordWeight molOpmap (jwA (2 * L) m2) u (unpair t)) else 0 := by
    intro m1 h1 m2 h2
    simp only [Int.toNat_natCast, beq_iff_eq]
    have e : (((m1 : Int) - (m2 : Int)) % 2 = 0) ↔ m1 % 2 = m2 % 2 := by omega
    have d1 : (m1 : Int) / 2 = ((m1 / 2 : Nat) : Int) := by omega
    have d2 : (m2 : Int) / 2 = ((m2 / 2 : Nat) : Int) := by omega
    rw [jw_hop_dense (2 * L) m1 m2 h1 h2 _ _ (by rw [unpair_length, hs]) (by rw [unpair_length, ht]), d1, d2]
    by_cases hp : m1 % 2 = m2 % 2
    · rw [if_pos (e.2 hp), if_pos hp]
    · rw [if_neg (fun h' => hp (e.1 h')), if_neg hp]
  rw [S2_congr _ _ _ hcongr, S2_spin_diag]
  apply S2_congr
  intro i _ j _
  apply Ch.sum_map_congr
  intro σ hσ
  have := mem_range.1 hσ
  have d1 : (2 * i + σ) / 2 = i := by omega
  have d2 : (2 * j + σ) / 2 = j := by omega
  rw [d1, d2]

/-- **the interaction chains of the spin-orbital enumeration** sum to
`Σ_ijkl Σ_στ ½ v_ijkl a†_{iσ} a†_{jτ} a_{lτ} a_{kσ}` (modes `2 i + σ`; all orbital indices and both spins unrestricted) -/
theorem spin_int_sum (c : Consts κ) (L : Nat) (vint : List (List (List (List κ)))) (int : List (OpChain κ))
    (h : (intTuples (2 * (L : Int))).foldlM (fun (acc : List (OpChain κ)) (q : Int × Int × Int × Int) =>
        if (!(getVintCoeff c vint (q.1 / 2, q.2.1 / 2, q.2.2.1 / 2, q.2.2.2 / 2) (q.1 % 2, q.2.1 % 2, q.2.2.1 % 2, q.2.2.2 % 2)).2) = true
        then pure acc
        else (do
          let single ← molIntChain q.1 q.2.1 q.2.2.1 q.2.2.2
            (getVintCoeff c vint (q.1 / 2, q.2.1 / 2, q.2.2.1 / 2, q.2.2.2 / 2) (q.1 % 2, q.2.1 % 2, q.2.2.1 % 2, q.2.2.2 % 2)).1
          let sc ← toSpinOpchain single
          pure (acc ++ [sc]))) [] = .ok int)
    (s t : List Nat) (hs : s.length = L) (ht : t.length = L) :
    termsEntry spinMolOpmap (denChainsRaw int (L : Int) 0) s t =
      S2 L (fun i j => S2 L (fun k l => S2 2 (fun σ τ =>
        (c.half * v4 vint (i : Int) (j : Int) (k : Int) (l : Int)) *
          jw4 (2 * L) (2 * i + σ) (2 * j + τ) (2 * k + σ) (2 * l + τ) (unpair s) (unpair t)))) := by
  have e1 := foldlM_sum _
    (fun ch : OpChain κ => ch.coeff * wordWeight spinMolOpmap (ch.paddedWord (L : Int) 0) s t)
    (fun q : Int × Int × Int × Int =>
      (if (getVintCoeff c vint (q.1 / 2, q.2.1 / 2, q.2.2.1 / 2, q.2.2.2 / 2) (q.1 % 2, q.2.1 % 2, q.2.2.1 % 2, q.2.2.2 % 2)).2 = true
        then (getVintCoeff c vint (q.1 / 2, q.2.1 / 2, q.2.2.1 / 2, q.2.2.2 / 2) (q.1 % 2, q.2.1 % 2, q.2.2.1 % 2, q.2.2.2 % 2)).1
        else 0) * jw4 (2 * L) q.1.toNat q.2.1.toNat q.2.2.1.toNat q.2.2.2.toNat (unpair s) (unpair t))
    _ [] int (by
      rintro ⟨i, j, k, l⟩ hq acc acc' hstep
      rw [mem_intTuples] at hq
      obtain ⟨hi, hij, hj, hk, hkl, hl⟩ := hq
      simp only at hi hij hj hk hkl hl hstep ⊢
      cases hv : (getVintCoeff c vint (i / 2, j / 2, k / 2, l / 2) (i % 2, j % 2, k % 2, l % 2)).2 with
      | false =>
        rw [hv] at hstep
        simp only [Bool.not_false, if_true, pure_ok_iff] at hstep
        subst hstep
        simp
      | true =>
        rw [hv] at hstep
        simp only [Bool.not_true, Bool.false_eq_true, if_false, bind_ok_iff, pure_ok_iff] at hstep
        obtain ⟨single, h1, sc, h2, rfl⟩ := hstep
        have hvalid := getVintCoeff_valid c vint _ _ _ _ _ hv
        have ei : ((i.toNat : Nat) : Int) = i := by omega
        have ej : ((j.toNat : Nat) : Int) = j := by omega
        have ek : ((k.toNat : Nat) : Int) = k := by omega
        have el : ((l.toNat : Nat) : Int) = l := by omega
        obtain ⟨ch, sc', g1, g2, g3⟩ := spin_int_chain L i.toNat j.toNat k.toNat l.toNat (by omega) (by omega) (by omega) (by omega)
          (by omega) (getVintCoeff c vint (i / 2, j / 2, k / 2, l / 2) (i % 2, j % 2, k % 2, l % 2)).1 s t hs ht
        rw [ei, ej, ek, el, h1] at g1
        cases g1
        rw [h2] at g2
        cases g2
        simp only [map_append, map_cons, map_nil, sum_append, sum_cons, sum_nil, add_zero, if_true]
        rw [g3]) h
  unfold termsEntry denChainsRaw
  rw [map_map]
  simp only [Function.comp_def]
  rw [e1, map_nil, sum_nil, zero_add, two_mul_cast, sum_intTuples]
  have hspin : S2 (2 * L) (fun m1 m2 => S2 (2 * L) (fun m3 m4 => spinV c vint m1 m2 m3 m4 * jw4 (2 * L) m1 m2 m3 m4 (unpair s) (unpair t)))
      = S2 L (fun i j => S2 L (fun k l => S2 2 (fun σ τ =>
        (c.half * v4 vint (i : Int) (j : Int) (k : Int) (l : Int)) *
          jw4 (2 * L) (2 * i + σ) (2 * j + τ) (2 * k + σ) (2 * l + τ) (unpair s) (unpair t)))) := by
    have h0 : ∀ m1 m2 m3 m4 : Nat, spinV c vint m1 m2 m3 m4 * jw4 (2 * L) m1 m2 m3 m4 (unpair s) (unpair t)
        = if m1 % 2 = m3 % 2 ∧ m2 % 2 = m4 % 2 then
            (c.half * v4 vint ((m1 / 2 : Nat) : Int) ((m2 / 2 : Nat) : Int) ((m3 / 2 : Nat) : Int) ((m4 / 2 : Nat) : Int)) *
              jw4 (2 * L) m1 m2 m3 m4 (unpair s) (unpair t) else 0 := by
      intro m1 m2 m3 m4
      unfold spinV
      split_ifs <;> simp
    simp only [h0]
    rw [S2_spin L (fun m1 m2 m3 m4 =>
      (c.half * v4 vint ((m1 / 2 : Nat) : Int) ((m2 / 2 : Nat) : Int) ((m3 / 2 : Nat) : Int) ((m4 / 2 : Nat) : Int)) *
        jw4 (2 * L) m1 m2 m3 m4 (unpair s) (unpair t))]
    apply S2_congr
    intro i _ j _
    apply S2_congr
    intro k _ l _
    apply S2_congr
    intro σ hσ τ hτ
    have d1 : (2 * i + σ) / 2 = i := by omega
    have d2 : (2 * j + τ) / 2 = j := by omega
    have d3 : (2 * k + σ) / 2 = k := by omega
    have d4 : (2 * l + τ) / 2 = l := by omega
    simp only [d1, d2, d3, d4]
  rw [← hspin, four_sum_fn (spinV c vint) (2 * L) _ _ (by rw [unpair_length, hs]) (by rw [unpair_length, ht])]
  apply S2_congr
  intro i _ j _
  by_cases hij : i < j
  · rw [if_pos hij, if_pos hij]
    apply S2_congr
    intro k _ l _
    by_cases hkl : k < l
    · rw [if_pos hkl, if_pos hkl]
      simp only [Int.toNat_natCast]
      rw [getVintCoeff_eq]
    · rw [if_neg hkl, if_neg hkl]
  · rw [if_neg hij, if_neg hij]

end Ptn.Spin

import PtnModel.Proofs.TotalSpinMol
import PtnModel.Proofs.Ham2JW
/-!
# Spin-orbital molecular Hamiltonian: the pair tables are Kronecker products

`spinMolOpmap[(x, y)] = kron(molOpmap[x], molOpmap[y])` entry by entry (`spin_opEntry`), and hence the dense entry of a word over the
pair tables on `L` sites of dimension 4 is the dense entry of the underlying word over the single-mode tables on `2 L` modes, the site
digit `s_k = 2 n_{k,up} + n_{k,dn}` being split into the two occupation digits (`unpair`, `pairWord_weight`).
-/
set_option linter.unusedSectionVars false

namespace Ptn.Spin
open Ptn Ptn.Og Ptn.Ham Ptn.Ch Ptn.Ham2 List

variable {κ : Type} [CommRing κ] [DecidableEq κ]

/-- occupation digits of the `2 L` modes `(0↑, 0↓, 1↑, 1↓, …)` from the site digits `s_k = 2 n_{k↑} + n_{k↓}` -/
def unpair : List Nat → List Nat
  | [] => []
  | a :: s => (a / 2) :: (a % 2) :: unpair s

theorem unpair_length (s : List Nat) : (unpair s).length = 2 * s.length := by
  induction s with
  | nil => rfl
  | cons a s ih => simp only [unpair, length_cons, ih]; omega

theorem kron22 (a00 a01 a10 a11 b00 b01 b10 b11 : κ) :
    Mat.kron ([[a00, a01], [a10, a11]] : Og.Mat κ) [[b00, b01], [b10, b11]] =
      [[a00 * b00, a00 * b01, a01 * b00, a01 * b01], [a00 * b10, a00 * b11, a01 * b10, a01 * b11],
       [a10 * b00, a10 * b01, a11 * b00, a11 * b01], [a10 * b10, a10 * b11, a11 * b10, a11 * b11]] := by
  simp [Mat.kron]

theorem entry22_row (a00 a01 a10 a11 : κ) (i j : Nat) (hi : 2 ≤ i) :
    Mat.entry ([[a00, a01], [a10, a11]] : Og.Mat κ) i j = 0 := by
  obtain ⟨i, rfl⟩ : ∃ k, i = k + 2 := ⟨i - 2, by omega⟩
  simp [Mat.entry]

theorem entry22_col (a00 a01 a10 a11 : κ) (i j : Nat) (hj : 2 ≤ j) :
    Mat.entry ([[a00, a01], [a10, a11]] : Og.Mat κ) i j = 0 := by
  obtain ⟨j, rfl⟩ : ∃ k, j = k + 2 := ⟨j - 2, by omega⟩
  rcases i with _ | _ | i <;> simp [Mat.entry]

/-- entries of the Kronecker product of two `2 × 2` tables -/
theorem kron22_entry (a00 a01 a10 a11 b00 b01 b10 b11 : κ) (a b : Nat) :
    Mat.entry (Mat.kron ([[a00, a01], [a10, a11]] : Og.Mat κ) [[b00, b01], [b10, b11]]) a b =
      Mat.entry ([[a00, a01], [a10, a11]] : Og.Mat κ) (a / 2) (b / 2) *
        Mat.entry ([[b00, b01], [b10, b11]] : Og.Mat κ) (a % 2) (b % 2) := by
  rw [kron22]
  by_cases ha : a < 4
  · by_cases hb : b < 4
    · have : a = 0 ∨ a = 1 ∨ a = 2 ∨ a = 3 := by omega
      have : b = 0 ∨ b = 1 ∨ b = 2 ∨ b = 3 := by omega
      rcases ‹a = 0 ∨ _› with rfl | rfl | rfl | rfl <;> rcases ‹b = 0 ∨ _› with rfl | rfl | rfl | rfl <;>
        simp [Mat.entry]
    · rw [entry22_col _ _ _ _ (a / 2) (b / 2) (by omega), zero_mul]
      obtain ⟨b, rfl⟩ : ∃ k, b = k + 4 := ⟨b - 4, by omega⟩
      have : a = 0 ∨ a = 1 ∨ a = 2 ∨ a = 3 := by omega
      rcases this with rfl | rfl | rfl | rfl <;> simp [Mat.entry]
  · rw [entry22_row _ _ _ _ (a / 2) (b / 2) (by omega), zero_mul]
    obtain ⟨a, rfl⟩ : ∃ k, a = k + 4 := ⟨a - 4, by omega⟩
    simp [Mat.entry]

/-- **the pair tables are Kronecker products**: `spinMolOpmap[(x, y)][a, b] = molOpmap[x][a / 2, b / 2] · molOpmap[y][a % 2, b % 2]`
for every pair of `oid_single_pair_map` and all row / column indices -/
theorem spin_opEntry (x y o : Int) (hx : isMolOid x) (hy : isMolOid y) (hp : pairMapGet (x, y) = .ok o) (a b : Nat) :
    Ch.opEntry (spinMolOpmap : OpMap κ) o a b =
      Ch.opEntry (molOpmap : OpMap κ) x (a / 2) (b / 2) * Ch.opEntry (molOpmap : OpMap κ) y (a % 2) (b % 2) := by
  obtain ⟨a00, a01, a10, a11, ha, _⟩ := mol_hasCharge (κ := κ) x hx
  obtain ⟨b00, b01, b10, b11, hb, _⟩ := mol_hasCharge (κ := κ) y hy
  have hl := spin_lookup (κ := κ) x y o hx hy hp
  rw [ha, hb] at hl
  simp only [Option.getD_some] at hl
  unfold Ch.opEntry
  rw [hl, ha, hb]
  exact kron22_entry _ _ _ _ _ _ _ _ a b

/-- **dense entries of a paired word**: if `w'` is the image of the mode word `w` (even length) under the pair look-ups, then
`Π_k spinMolOpmap[w'_k][s_k, t_k] = Π_m molOpmap[w_m][(unpair s)_m, (unpair t)_m]` -/
theorem pairWord_weight : ∀ (w' w : Word) (s t : List Nat), (∀ o ∈ w, isMolOid o) → w.length = 2 * w'.length →
    (evenOddPairs w).mapM pairMapGet = .ok w' → s.length = w'.length → t.length = w'.length →
    wordWeight (spinMolOpmap : OpMap κ) w' s t = wordWeight (molOpmap : OpMap κ) w (unpair s) (unpair t) := by
  intro w'
  induction w' with
  | nil =>
    intro w s t _ hl _ hs ht
    have : w = [] := List.eq_nil_of_length_eq_zero (by simpa using hl)
    subst this
    rw [length_nil, length_eq_zero_iff] at hs ht
    subst hs ht
    rfl
  | cons o w' ih =>
    intro w s t hm hl hp hs ht
    match w, hl, hm, hp with
    | x :: y :: w, hl, hm, hp =>
      obtain ⟨a, s, rfl⟩ := exists_cons_of_length_eq_add_one hs
      obtain ⟨b, t, rfl⟩ := exists_cons_of_length_eq_add_one ht
      simp only [evenOddPairs, mapM_cons, bind_ok_iff, pure_ok_iff] at hp
      obtain ⟨o', ho', os, hos, heq⟩ := hp
      cases heq
      simp only [length_cons] at hl hs ht
      simp only [unpair, wordWeight]
      rw [ih w s t (fun o ho => hm o (by simp [ho])) (by omega) hos (by omega) (by omega),
        spin_opEntry x y o (hm x (by simp)) (hm y (by simp)) ho' a b]
      ring
    | [], hl, _, _ => simp at hl
    | [_], hl, _, _ => simp at hl; omega

import PtnModel.Props.C14
import PtnModel.Proofs.KryExact
/-!
# The general (Arnoldi) branch of `expm_krylov` once the Krylov space is exhausted

* `AFin.strong`   : if the last Gram–Schmidt residual vanishes then `A v_b = ∑_a H[a, b] v_a` entrywise (`A V = V H`);
* `ExpmContract`  : the contract of `scipy.linalg.expm` used here — square output of the size of the input and the
  intertwining property `M V = V N ⟹ expm(M) V = V expm(N)` (rectangular `V` allowed), which the power series has;
* `expm_general`  : under this contract the result of the general branch is `expm(dt A) v`.
-/
set_option linter.unusedSectionVars false
namespace Ptn.Krylov
open Ptn Finset

variable {𝕜 : Type} [RCLike 𝕜]
local notation "conj" => starRingEnd 𝕜

/-! ## columns of the Hessenberg matrix -/

theorem sum_hess_col (cols : List (List 𝕜)) (sub : List ℝ) (x : Nat → 𝕜) {b k : Nat} (hb : b + 1 < k) :
    ∑ a ∈ range k, (hessMat cols sub).f a b * x a =
      ∑ t ∈ range (b + 1), vget (cols.getD b []) t * x t + ((sub.getD b 0 : ℝ) : 𝕜) * x (b + 1) := by
  have hle : b + 2 ≤ k := hb
  rw [← Finset.sum_range_add_sum_Ico _ hle, Finset.sum_range_succ]
  have e1 : ∑ a ∈ Ico (b + 2) k, (hessMat cols sub).f a b * x a = 0 := by
    refine sum_eq_zero fun a ha => ?_
    have := (mem_Ico.1 ha).1
    show (if a ≤ b then vget (cols.getD b []) a else if a = b + 1 then RealLike.ofReal (sub.getD b 0) else (0 : 𝕜)) * x a = 0
    rw [if_neg (by omega), if_neg (by omega), zero_mul]
  have e2 : ∑ a ∈ range (b + 1), (hessMat cols sub).f a b * x a = ∑ t ∈ range (b + 1), vget (cols.getD b []) t * x t := by
    refine sum_congr rfl fun a ha => ?_
    have := mem_range.1 ha
    show (if a ≤ b then vget (cols.getD b []) a else if a = b + 1 then RealLike.ofReal (sub.getD b 0) else (0 : 𝕜)) * x a = _
    rw [if_pos (by omega)]
  have e3 : (hessMat cols sub).f (b + 1) b = ((sub.getD b 0 : ℝ) : 𝕜) := by
    show (if b + 1 ≤ b then vget (cols.getD b []) (b + 1) else if b + 1 = b + 1 then RealLike.ofReal (sub.getD b 0) else (0 : 𝕜)) = _
    rw [if_neg (by omega), if_pos rfl]; rfl
  rw [e1, e2, e3, add_zero]

theorem sum_hess_last (cols : List (List 𝕜)) (sub : List ℝ) (x : Nat → 𝕜) {b k : Nat} (hb : b + 1 = k) :
    ∑ a ∈ range k, (hessMat cols sub).f a b * x a = ∑ t ∈ range k, vget (cols.getD b []) t * x t := by
  refine sum_congr rfl fun a ha => ?_
  have := mem_range.1 ha
  show (if a ≤ b then vget (cols.getD b []) a else if a = b + 1 then RealLike.ofReal (sub.getD b 0) else (0 : 𝕜)) * x a = _
  rw [if_pos (by omega)]

section strong
variable {n : Nat} {Afun : List 𝕜 → List 𝕜}

/-- with a vanishing last Gram–Schmidt residual, `A v_b = ∑_a H[a, b] v_a` entrywise for every returned vector -/
theorem AFin.strong {st : AState 𝕜 ℝ} {k : Nat} (hf : AFin n Afun st k)
    (hz : ∀ i, i < n → vget (arW Afun n (k - 1) st).1 i = 0) {b : Nat} (hb : b < k) {i : Nat} (hi : i < n) :
    vget (Afun (st.vec b)) i = ∑ a ∈ range k, (hessMat st.cols st.sub).f a b * vget (st.vec a) i := by
  by_cases hb1 : b + 1 < k
  · rw [sum_hess_col st.cols st.sub (fun a => vget (st.vec a) i) hb1]
    have := hf.rcr b hb1 (unitVec n i)
    simp only [vdot_unitVec hi] at this
    exact this
  · have hbk : b + 1 = k := by omega
    rw [sum_hess_last st.cols st.sub (fun a => vget (st.vec a) i) hbk]
    have hkb : k - 1 = b := by omega
    have hvl : st.V.length = k := hf.sized.2.2
    have hrows : st.V.take (k - 1 + 1) = st.V := List.take_of_length_le (by omega)
    have horth : Orthonormal n st.V := by
      intro a c ha hc
      rw [hvl] at ha hc
      exact hf.orth a c ha hc
    have hspec : MgsSpec n st.V (Afun (st.vec b)) (arW Afun n (k - 1) st) := by
      unfold arW
      rw [hrows, hkb]
      exact mgs_spec n st.V _ horth
    have hex := hspec.expand (unitVec n i)
    simp only [vdot_unitVec hi] at hex
    rw [hz i hi, hvl] at hex
    have hco : ∀ t ∈ range k, vget (arW Afun n (k - 1) st).2 t * vget (st.V.getD t []) i =
        vget (st.cols.getD b []) t * vget (st.vec t) i := by
      intro t ht
      have ht' := mem_range.1 ht
      rw [hspec.coeff t (by rw [hvl]; exact ht'), hf.hcol b hb t (by omega)]
    rw [sum_congr rfl hco] at hex
    exact (sub_eq_zero.1 hex.symm)

end strong

/-! ## the contract of `scipy.linalg.expm` -/

/-- `dt * X` as built by the model -/
def Mat.scale (t : 𝕜) (X : Mat 𝕜) : Mat 𝕜 := ⟨X.m, X.n, fun r c => t * X.f r c⟩

/-- what is used of `scipy.linalg.expm`: a square matrix is mapped to a square matrix of the same size, and the map
intertwines: `M V = V N ⟹ expm(M) V = V expm(N)` for square `M`, `N` and a (rectangular) `V` of matching shape -/
structure ExpmContract (dexpm : Mat 𝕜 → Mat 𝕜) : Prop where
  shape : ∀ X : Mat 𝕜, X.m = X.n → (dexpm X).m = X.m ∧ (dexpm X).n = X.n
  intertwine : ∀ M N V : Mat 𝕜, M.m = M.n → N.m = N.n → V.m = M.n → V.n = N.m →
    (∀ i c, i < M.m → c < N.n → ∑ j ∈ range M.n, M.f i j * V.f j c = ∑ d ∈ range N.m, V.f i d * N.f d c) →
    ∀ i c, i < M.m → c < N.n →
      ∑ j ∈ range M.n, (dexpm M).f i j * V.f j c = ∑ d ∈ range N.m, V.f i d * (dexpm N).f d c

/-- the Arnoldi run on `(v, numiter)` exhausts the Krylov space: the last Gram–Schmidt residual has norm zero -/
def ExhaustedA (Afun : List 𝕜 → List 𝕜) (dnorm : List 𝕜 → ℝ) (v : List 𝕜) (numiter : Nat) : Prop :=
  ∀ H V, arnoldi Afun dnorm v numiter = .ok (H, V) → dnorm (C14.arnoldiResidual Afun V (V.n - 1)) = 0

theorem expmKrylov_gen_ok {Afun : List 𝕜 → List 𝕜} {dnorm : List 𝕜 → ℝ} {deigh : List ℝ → List ℝ → List ℝ × Mat ℝ}
    {dexp : 𝕜 → 𝕜} {dexpm : Mat 𝕜 → Mat 𝕜} {v : List 𝕜} {dt : 𝕜} {numiter : Nat} {r : List 𝕜}
    (h : expmKrylov Afun dnorm deigh dexp dexpm v dt numiter false = .ok r) :
    ∃ H V, arnoldi Afun dnorm v numiter = .ok (H, V) ∧ (dexpm (Mat.scale dt H)).n ≠ 0 ∧
      V.n = (dexpm (Mat.scale dt H)).m ∧
      r = (List.range V.m).map fun i => sumRange V.n fun c => V.f i c *
        vget ((List.range (dexpm (Mat.scale dt H)).m).map fun r =>
          RealLike.ofReal (dnorm v) * (dexpm (Mat.scale dt H)).f r 0) c := by
  unfold expmKrylov at h
  simp only [Bool.false_eq_true, if_false] at h
  cases hl : arnoldi Afun dnorm v numiter with
  | error e => rw [hl] at h; simp [bind, Except.bind] at h
  | ok res =>
    obtain ⟨H, V⟩ := res
    rw [hl] at h
    simp only [bind, Except.bind] at h
    by_cases h1 : (dexpm (Mat.scale dt H)).n = 0
    · have h1' : (dexpm ⟨H.m, H.n, fun r c => dt * H.f r c⟩).n = 0 := h1
      simp [h1', throw, throwThe, MonadExceptOf.throw] at h
    · have h1' : ¬ (dexpm ⟨H.m, H.n, fun r c => dt * H.f r c⟩).n = 0 := h1
      by_cases h3 : V.n = (dexpm (Mat.scale dt H)).m
      · have h3' : V.n = (dexpm ⟨H.m, H.n, fun r c => dt * H.f r c⟩).m := h3
        simp only [h1', h3', ne_eq, not_true_eq_false, if_false, pure, Except.pure, Except.ok.injEq] at h
        exact ⟨H, V, rfl, h1, h3, by rw [← h, h3']; rfl⟩
      · have h3' : ¬ V.n = (dexpm ⟨H.m, H.n, fun r c => dt * H.f r c⟩).m := h3
        simp [h1', h3', throw, throwThe, MonadExceptOf.throw] at h

/-- **The general branch is exact once the Krylov space is exhausted** (relative to the contract of `expm`): for a map
acting as the matrix `A` (`n × n`, arbitrary — not necessarily normal), if the last Arnoldi residual vanishes, the result
of `expm_krylov(…, hermitian=False)` is `expm(dt A) @ v`. -/
theorem expm_general {Afun : List 𝕜 → List 𝕜} {dnorm : List 𝕜 → ℝ} {deigh : List ℝ → List ℝ → List ℝ × Mat ℝ}
    {dexp : 𝕜 → 𝕜} {dexpm : Mat 𝕜 → Mat 𝕜} (hN : NormContract dnorm) (hC : ExpmContract dexpm)
    {v : List 𝕜} {numiter : Nat} {A : Mat 𝕜} (hAm : A.m = v.length) (hAn : A.n = v.length)
    (hM : ActsAs v.length Afun A.f) (hX : ExhaustedA Afun dnorm v numiter) {dt : 𝕜} {r : List 𝕜}
    (h : expmKrylov Afun dnorm deigh dexp dexpm v dt numiter false = .ok r) :
    r.length = v.length ∧
    ∀ i, i < v.length → vget r i = ∑ j ∈ range v.length, (dexpm (Mat.scale dt A)).f i j * vget v j := by
  obtain ⟨H, V, hl, hEn, hVn, rfl⟩ := expmKrylov_gen_ok h
  have hX' := hX H V hl
  obtain ⟨st, hc, rfl, rfl⟩ := arnoldi_ok Afun dnorm hl
  obtain ⟨k, _, hf⟩ := arnoldiCore_fin hN hc
  obtain ⟨h0, _, _⟩ := arnoldiCore_ok Afun dnorm hc
  have h0' : 0 < dnorm v := of_decide_eq_true h0
  have hnrm : ((dnorm v : ℝ) : 𝕜) ≠ 0 := by exact_mod_cast h0'.ne'
  have hvl : st.V.length = k := hf.sized.2.2
  have hcl : st.cols.length = k := hf.sized.1
  have hfirst := arnoldiCore_first Afun dnorm hc
  set n := v.length with hn
  -- the residual of the model is the Gram–Schmidt residual of the last column
  have hcol : ∀ c, c < k → matCol (colsMat n st.V) c = st.vec c :=
    fun c hc' => matCol_colsMat st.V c (hf.len c hc')
  have hres : C14.arnoldiResidual Afun (colsMat n st.V) (k - 1) = (arW Afun n (k - 1) st).1 := by
    unfold C14.arnoldiResidual arW
    rw [hcol (k - 1) (by have := hf.kpos; omega)]
    have : (List.range (k - 1 + 1)).map (matCol (colsMat n st.V)) = st.V.take (k - 1 + 1) := by
      have hk1 := hf.kpos
      rw [show k - 1 + 1 = k by omega, List.take_of_length_le (by omega)]
      apply List.ext_getElem
      · simp [hvl]
      · intro i h1 h2
        have hi : i < k := by simpa using h1
        simp only [List.getElem_map, List.getElem_range]
        rw [hcol i hi]
        simp [List.getD_eq_getElem?_getD, h2]
    rw [this]; rfl
  have hz : ∀ i, i < n → vget (arW Afun n (k - 1) st).1 i = 0 := by
    intro i _
    have e : (colsMat n st.V).n = k := hvl
    rw [e, hres] at hX'
    exact hN.vget_eq_zero hX' i
  -- shapes
  set Hm : Mat 𝕜 := hessMat st.cols st.sub with hHm
  have hHmm : Hm.m = k := hcl
  have hHmn : Hm.n = k := hcl
  set Vm : Mat 𝕜 := colsMat n st.V with hVm
  have hVmm : Vm.m = n := rfl
  have hVmn : Vm.n = k := hvl
  have hVf : ∀ j c, Vm.f j c = vget (st.vec c) j := fun _ _ => rfl
  obtain ⟨hEm, hEn'⟩ := hC.shape (Mat.scale dt Hm) (by show Hm.m = Hm.n; rw [hHmm, hHmn])
  have hEm' : (dexpm (Mat.scale dt Hm)).m = k := hEm.trans hHmm
  -- `A V = V H`, scaled by `dt`
  have hAV : ∀ i c, i < (Mat.scale dt A).m → c < (Mat.scale dt Hm).n →
      ∑ j ∈ range (Mat.scale dt A).n, (Mat.scale dt A).f i j * Vm.f j c =
        ∑ d ∈ range (Mat.scale dt Hm).m, Vm.f i d * (Mat.scale dt Hm).f d c := by
    intro i c hi hc'
    have hi' : i < n := by rw [← hAm]; exact hi
    have hc'' : c < k := by rw [← hHmn]; exact hc'
    show ∑ j ∈ range A.n, (dt * A.f i j) * Vm.f j c = ∑ d ∈ range Hm.m, Vm.f i d * (dt * Hm.f d c)
    rw [hAn, hHmm]
    have e1 := hM (st.vec c) (hf.len c hc'') i hi'
    have e2 := hf.strong hz hc'' hi'
    calc ∑ j ∈ range n, (dt * A.f i j) * Vm.f j c = dt * ∑ j ∈ range n, A.f i j * vget (st.vec c) j := by
          rw [mul_sum]; exact sum_congr rfl fun j _ => by rw [hVf]; ring
      _ = dt * ∑ a ∈ range k, Hm.f a c * vget (st.vec a) i := by rw [← e1, e2]
      _ = _ := by rw [mul_sum]; exact sum_congr rfl fun d _ => by rw [hVf]; ring
  have hint := hC.intertwine (Mat.scale dt A) (Mat.scale dt Hm) Vm (by show A.m = A.n; rw [hAm, hAn])
    (by show Hm.m = Hm.n; rw [hHmm, hHmn]) (by show n = A.n; rw [hAn]) (by show Vm.n = Hm.m; rw [hVmn, hHmm]) hAV
  refine ⟨by simp only [List.length_map, List.length_range]; exact hVmm, fun i hi => ?_⟩
  rw [vget_map_range, if_pos (by show i < n; exact hi), sumRange_eq_sum, hVmn]
  have hk0 : 0 < k := hf.kpos
  have hy : ∀ c ∈ range k, Vm.f i c * vget ((List.range (dexpm (Mat.scale dt Hm)).m).map fun r =>
      RealLike.ofReal (dnorm v) * (dexpm (Mat.scale dt Hm)).f r 0) c =
      ((dnorm v : ℝ) : 𝕜) * (Vm.f i c * (dexpm (Mat.scale dt Hm)).f c 0) := by
    intro c hc'
    rw [vget_map_range, if_pos (by rw [hEm']; exact mem_range.1 hc'), ofReal_eq]
    ring
  rw [sum_congr rfl hy, ← mul_sum]
  have h00 := hint i 0 (by show i < A.m; rw [hAm]; exact hi) (by show 0 < Hm.n; rw [hHmn]; exact hk0)
  have h00' : ∑ j ∈ range n, (dexpm (Mat.scale dt A)).f i j * Vm.f j 0 =
      ∑ d ∈ range k, Vm.f i d * (dexpm (Mat.scale dt Hm)).f d 0 := by
    have e1 : (Mat.scale dt A).n = n := hAn
    have e2 : (Mat.scale dt Hm).m = k := hHmm
    rw [e1, e2] at h00
    exact h00
  rw [← h00', mul_sum]
  refine sum_congr rfl fun j hj => ?_
  have hj' := mem_range.1 hj
  rw [hVf]
  show _ * ((dexpm (Mat.scale dt A)).f i j * vget (st.V.getD 0 []) j) = _
  rw [hfirst, vget_vdiv hj', ofReal_eq]
  field_simp

end Ptn.Krylov

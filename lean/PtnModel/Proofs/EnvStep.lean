import PtnModel.Proofs.EnvBasic
/-!
# Entry formulas of the contraction steps of `Model/Operation.lean`

For each step function: if the dimension checks pass the result is `.ok T`, `T` has the stated dimensions and its
in-range entries are the nested `Finset` sums written in the code (`tab` and `sumRange` removed).
-/
set_option linter.unusedSectionVars false
set_option linter.unusedSimpArgs false
namespace Ptn.Env
open Finset
variable {R : Type} [CommRing R] [StarRing R]
attribute [local instance] starConj

/-- side goals `i < dim` after rewriting with a `tab` lemma -/
macro "tab_side" : tactic => `(tactic| any_goals (solve | (simp only [Finset.mem_range] at *; omega)))

theorem stepRight_ok (A B : T3 R) (Rm : Mat R) (h1 : A.d2 = Rm.m) (h2 : A.d0 = B.d0) (h3 : Rm.n = B.d2) :
    ∃ T, Op.stepRight A B Rm = .ok T ∧ T.m = A.d1 ∧ T.n = B.d1 ∧
      ∀ a a', a < A.d1 → a' < B.d1 → T.f a a' =
        ∑ s ∈ range A.d0, ∑ r ∈ range B.d2, (∑ b ∈ range A.d2, A.f s a b * Rm.f b r) * star (B.f s a' r) := by
  unfold Op.stepRight
  simp only [h1, h2, h3, ne_eq, not_true_eq_false, or_self, if_false]
  refine ⟨_, rfl, rfl, rfl, ?_⟩
  intro a a' ha ha'
  rw [mat_tab_f _ ha ha']
  simp only [sumRange_eq]
  refine Finset.sum_congr rfl fun s hs => Finset.sum_congr rfl fun r hr => ?_
  rw [t3_tab_f]
  tab_side
  try rfl

theorem stepLeft_ok (A B : T3 R) (Lm : Mat R) (h1 : Lm.n = B.d1) (h2 : A.d0 = B.d0) (h3 : A.d1 = Lm.m) :
    ∃ T, Op.stepLeft A B Lm = .ok T ∧ T.m = A.d2 ∧ T.n = B.d2 ∧
      ∀ b b', b < A.d2 → b' < B.d2 → T.f b b' =
        ∑ s ∈ range A.d0, ∑ a ∈ range A.d1, A.f s a b * ∑ a' ∈ range B.d1, Lm.f a a' * star (B.f s a' b') := by
  unfold Op.stepLeft
  simp only [h1, h2, h3, ne_eq, not_true_eq_false, or_self, if_false]
  refine ⟨_, rfl, rfl, rfl, ?_⟩
  intro b b' hb hb'
  rw [mat_tab_f _ hb hb']
  simp only [sumRange_eq]
  refine Finset.sum_congr rfl fun s hs => Finset.sum_congr rfl fun a ha => ?_
  rw [t3_tab_f]
  tab_side
  try rfl

theorem opStepRight_ok (A B : T3 R) (W : T4 R) (E : T3 R) (h1 : A.d2 = E.d0) (h2 : W.d1 = A.d0)
    (h3 : W.d3 = E.d1) (h4 : W.d0 = B.d0) (h5 : E.d2 = B.d2) :
    ∃ T, Op.opStepRight A B W E = .ok T ∧ T.d0 = A.d1 ∧ T.d1 = W.d2 ∧ T.d2 = B.d1 ∧
      ∀ a w a', a < A.d1 → w < W.d2 → a' < B.d1 → T.f a w a' =
        ∑ s' ∈ range W.d0, ∑ b' ∈ range B.d2,
          (∑ s ∈ range W.d1, ∑ w' ∈ range W.d3, W.f s' s w w' * ∑ b ∈ range A.d2, A.f s a b * E.f b w' b')
            * star (B.f s' a' b') := by
  unfold Op.opStepRight
  simp only [h1, h2, h3, h4, h5, ne_eq, not_true_eq_false, or_self, if_false]
  refine ⟨_, rfl, rfl, rfl, rfl, ?_⟩
  intro a w a' ha hw ha'
  rw [t3_tab_f]
  tab_side
  simp only [sumRange_eq]
  refine Finset.sum_congr rfl fun s' hs' => Finset.sum_congr rfl fun b' hb' => ?_
  rw [t4_tab_f]
  tab_side
  simp only [sumRange_eq]
  congr 1
  refine Finset.sum_congr rfl fun s hs => Finset.sum_congr rfl fun w' hw' => ?_
  rw [t4_tab_f]
  tab_side
  try rfl

theorem opStepLeft_ok (A B : T3 R) (W : T4 R) (E : T3 R) (h1 : E.d2 = B.d1) (h2 : W.d0 = B.d0)
    (h3 : W.d2 = E.d1) (h4 : A.d0 = W.d1) (h5 : A.d1 = E.d0) :
    ∃ T, Op.opStepLeft A B W E = .ok T ∧ T.d0 = A.d2 ∧ T.d1 = W.d3 ∧ T.d2 = B.d2 ∧
      ∀ b w' b', b < A.d2 → w' < W.d3 → b' < B.d2 → T.f b w' b' =
        ∑ s ∈ range A.d0, ∑ a ∈ range A.d1, A.f s a b *
          ∑ s' ∈ range W.d0, ∑ w ∈ range W.d2, W.f s' s w w' *
            ∑ a' ∈ range B.d1, E.f a w a' * star (B.f s' a' b') := by
  unfold Op.opStepLeft
  simp only [h1, h2, h3, h4, h5, ne_eq, not_true_eq_false, or_self, if_false]
  refine ⟨_, rfl, rfl, rfl, rfl, ?_⟩
  intro b w' b' hb hw' hb'
  rw [t3_tab_f]
  tab_side
  simp only [sumRange_eq]
  refine Finset.sum_congr rfl fun s hs => Finset.sum_congr rfl fun a ha => ?_
  rw [t4_tab_f]
  tab_side
  simp only [sumRange_eq]
  congr 1
  refine Finset.sum_congr rfl fun s' hs' => Finset.sum_congr rfl fun w hw => ?_
  rw [t4_tab_f]
  tab_side
  try rfl

theorem densityStepRight_ok (A W : T4 R) (Rm : Mat R) (h1 : A.d3 = Rm.m) (h2 : A.d1 = W.d0) (h3 : A.d0 = W.d1)
    (h4 : Rm.n = W.d3) :
    ∃ T, Op.densityStepRight A W Rm = .ok T ∧ T.m = A.d2 ∧ T.n = W.d2 ∧
      ∀ a w, a < A.d2 → w < W.d2 → T.f a w =
        ∑ t ∈ range A.d1, ∑ s ∈ range A.d0, ∑ r ∈ range W.d3,
          (∑ b ∈ range A.d3, A.f s t a b * Rm.f b r) * W.f t s w r := by
  unfold Op.densityStepRight
  simp only [h1, h2, h3, h4, ne_eq, not_true_eq_false, or_self, if_false]
  refine ⟨_, rfl, rfl, rfl, ?_⟩
  intro a w ha hw
  rw [mat_tab_f _ ha hw]
  simp only [sumRange_eq]
  refine Finset.sum_congr rfl fun t ht => Finset.sum_congr rfl fun s hs => Finset.sum_congr rfl fun r hr => ?_
  rw [t4_tab_f]
  tab_side
  try rfl

theorem applyLocalHamiltonian_ok (L E : T3 R) (W : T4 R) (A : T3 R) (h1 : A.d2 = E.d0) (h2 : W.d1 = A.d0)
    (h3 : W.d3 = E.d1) (h4 : A.d1 = L.d0) (h5 : W.d2 = L.d1) :
    ∃ T, Op.applyLocalHamiltonian L E W A = .ok T ∧ T.d0 = W.d0 ∧ T.d1 = L.d2 ∧ T.d2 = E.d2 ∧
      ∀ s' a' b', s' < W.d0 → a' < L.d2 → b' < E.d2 → T.f s' a' b' =
        ∑ a ∈ range A.d1, ∑ w ∈ range W.d2,
          (∑ s ∈ range W.d1, ∑ w' ∈ range W.d3, W.f s' s w w' * ∑ b ∈ range A.d2, A.f s a b * E.f b w' b')
            * L.f a w a' := by
  unfold Op.applyLocalHamiltonian
  simp only [h1, h2, h3, h4, h5, ne_eq, not_true_eq_false, or_self, if_false]
  refine ⟨_, rfl, rfl, rfl, rfl, ?_⟩
  intro s' a' b' hs' ha' hb'
  rw [t3_tab_f]
  tab_side
  simp only [sumRange_eq]
  refine Finset.sum_congr rfl fun a ha => Finset.sum_congr rfl fun w hw => ?_
  rw [t4_tab_f]
  tab_side
  simp only [sumRange_eq]
  congr 1
  refine Finset.sum_congr rfl fun s hs => Finset.sum_congr rfl fun w' hw' => ?_
  rw [t4_tab_f]
  tab_side
  try rfl

theorem applyLocalBondContraction_ok (L E : T3 R) (C : Mat R) (h1 : C.n = E.d0) (h2 : L.d0 = C.m)
    (h3 : L.d1 = E.d1) :
    ∃ T, Op.applyLocalBondContraction L E C = .ok T ∧ T.m = L.d2 ∧ T.n = E.d2 ∧
      ∀ a' b', a' < L.d2 → b' < E.d2 → T.f a' b' =
        ∑ a ∈ range L.d0, ∑ w ∈ range L.d1, L.f a w a' * ∑ b ∈ range C.n, C.f a b * E.f b w b' := by
  unfold Op.applyLocalBondContraction
  simp only [h1, h2, h3, ne_eq, not_true_eq_false, or_self, if_false]
  refine ⟨_, rfl, rfl, rfl, ?_⟩
  intro a' b' ha' hb'
  rw [mat_tab_f _ ha' hb']
  simp only [sumRange_eq]
  refine Finset.sum_congr rfl fun a ha => Finset.sum_congr rfl fun w hw => ?_
  rw [t3_tab_f]
  tab_side
  try rfl

end Ptn.Env

import PtnModel.Proofs.EvoRevDefs
/-!
# The site-local maps and steps across a change of gauge on both bonds

The backward call of a reversibility test meets environment blocks and tensors that are those of the forward call in
another unitary gauge on the virtual bonds (`GBL`, `GBR`, `GT3`, `GMat` of `EvoRevDefs`).

* `gauge_core`               : the generic computation `K'(Ulᴴ X Ur) = Ulᴴ K(X) Ur` for kernels
                               `K(a',b';a,b) = Σ_ω Lf ω a a' · Rf ω b b'` over an abstract set of operator legs;
* `applyBond_gauge`          : the zero-site maps of two gauges are intertwined by the gauge;
* `applyLocal_gauge`         : the one-site maps of two gauges are intertwined by the gauge;
* `gFlat2`, `gFlat3`         : the gauge map as a matrix on flat indices;
* `bondStep_cancel_gauge2`   : `_local_bond_step(L, R, C, δ)` returning `C1` followed by
                               `_local_bond_step(L', R', Ulᴴ C1 Ur, -δ)` returns `Ulᴴ C Ur` (exact local exponentials);
* `localStep_cancel_gauge2`  : the same for `_local_hamiltonian_step`.
-/
set_option linter.unusedSectionVars false

namespace Ptn.Evo
open Ptn Ptn.Krylov Ptn.Dense Ptn.BondOps Ptn.Ortho Finset

variable {𝕜 : Type} [RCLike 𝕜] [DecidableEq 𝕜]
local notation "conj" => starRingEnd 𝕜

/-! ## algebra -/

omit [DecidableEq 𝕜] in
/-- a double sum against a Kronecker delta -/
theorem sum_delta (D : Nat) (F S : Nat → Nat → 𝕜)
    (hS : ∀ p a, p < D → a < D → S p a = if p = a then 1 else 0) :
    ∑ p ∈ range D, ∑ a ∈ range D, F p a * S p a = ∑ p ∈ range D, F p p := by
  refine sum_congr rfl fun p hp => ?_
  have e : ∀ a ∈ range D, F p a * S p a = if p = a then F p a else 0 := by
    intro a ha
    rw [hS p a (mem_range.1 hp) (mem_range.1 ha)]
    by_cases h : p = a
    · rw [if_pos h, if_pos h, mul_one]
    · rw [if_neg h, if_neg h, mul_zero]
  rw [sum_congr rfl e, sum_ite_eq (range D) p, if_pos hp]

omit [DecidableEq 𝕜] in
/-- pure rearrangement: the two gauge matrices that meet are collected into `U Uᴴ` factors -/
theorem alg_gauge_collect {Ω : Type} (Sa1 Sb1 : Finset Nat) (SΩ : Finset Ω) (Sp Sq Sp' Sq' Sa Sb : Finset Nat)
    (ul ulc ur urc : Nat → Nat → 𝕜) (Lf Rf : Ω → Nat → Nat → 𝕜) (X : Nat → Nat → 𝕜) (u2 : Nat → 𝕜) (v2 : Nat → 𝕜) :
    ∑ a1 ∈ Sa1, ∑ b1 ∈ Sb1,
        (∑ ω ∈ SΩ, (∑ p ∈ Sp, ∑ q ∈ Sq, ul p a1 * Lf ω p q * u2 q) *
          (∑ p' ∈ Sp', ∑ q' ∈ Sq', urc p' b1 * Rf ω p' q' * v2 q')) *
        (∑ a ∈ Sa, ∑ b ∈ Sb, ulc a a1 * X a b * ur b b1) =
      ∑ ω ∈ SΩ, ∑ q ∈ Sq, ∑ q' ∈ Sq', ∑ p ∈ Sp, ∑ a ∈ Sa,
        (∑ b ∈ Sb, ∑ p' ∈ Sp', (Lf ω p q * u2 q * Rf ω p' q' * v2 q' * X a b) * (∑ b1 ∈ Sb1, ur b b1 * urc p' b1)) *
          (∑ a1 ∈ Sa1, ul p a1 * ulc a a1) := by
  simp only [Finset.sum_mul, Finset.mul_sum]
  sum_pull SΩ
  sum_pull Sq
  sum_pull Sq'
  sum_pull Sp
  sum_pull Sa
  sum_pull Sb
  sum_pull Sp'
  sum_pull Sb1
  sum_pull Sa1
  ring

omit [DecidableEq 𝕜] in
theorem alg_gauge_final {Ω : Type} (SΩ : Finset Ω) (Sq Sq' Sp Sb : Finset Nat)
    (Lf Rf : Ω → Nat → Nat → 𝕜) (X : Nat → Nat → 𝕜) (u2 : Nat → 𝕜) (v2 : Nat → 𝕜) :
    ∑ ω ∈ SΩ, ∑ q ∈ Sq, ∑ q' ∈ Sq', ∑ p ∈ Sp, ∑ b ∈ Sb, Lf ω p q * u2 q * Rf ω b q' * v2 q' * X p b =
      ∑ q ∈ Sq, ∑ q' ∈ Sq', u2 q * (∑ a ∈ Sp, ∑ b ∈ Sb, (∑ ω ∈ SΩ, Lf ω a q * Rf ω b q') * X a b) * v2 q' := by
  simp only [Finset.sum_mul, Finset.mul_sum]
  sum_pull Sq
  sum_pull Sq'
  sum_pull Sp
  sum_pull Sb
  sum_pull SΩ
  ring

omit [DecidableEq 𝕜] in
/-- **The generic gauge computation.** -/
theorem gauge_core {Ω : Type} (SΩ : Finset Ω) {D1 D2 : Nat} {Ul Ur : Nat → Nat → 𝕜} (hUl : IsU D1 Ul) (hUr : IsU D2 Ur)
    (Lf Lf' Rf Rf' : Ω → Nat → Nat → 𝕜) (X X' : Nat → Nat → 𝕜) {a2 b2 : Nat}
    (hL : ∀ ω ∈ SΩ, ∀ a1, a1 < D1 →
      Lf' ω a1 a2 = ∑ p ∈ range D1, ∑ q ∈ range D1, Ul p a1 * Lf ω p q * star (Ul q a2))
    (hR : ∀ ω ∈ SΩ, ∀ b1, b1 < D2 →
      Rf' ω b1 b2 = ∑ p ∈ range D2, ∑ q ∈ range D2, star (Ur p b1) * Rf ω p q * Ur q b2)
    (hX : ∀ a1 b1, a1 < D1 → b1 < D2 →
      X' a1 b1 = ∑ a ∈ range D1, ∑ b ∈ range D2, star (Ul a a1) * X a b * Ur b b1) :
    ∑ a1 ∈ range D1, ∑ b1 ∈ range D2, (∑ ω ∈ SΩ, Lf' ω a1 a2 * Rf' ω b1 b2) * X' a1 b1 =
      ∑ q ∈ range D1, ∑ q' ∈ range D2,
        star (Ul q a2) * (∑ a ∈ range D1, ∑ b ∈ range D2, (∑ ω ∈ SΩ, Lf ω a q * Rf ω b q') * X a b) * Ur q' b2 := by
  have e1 : ∀ a1 ∈ range D1, ∀ b1 ∈ range D2, (∑ ω ∈ SΩ, Lf' ω a1 a2 * Rf' ω b1 b2) * X' a1 b1 =
      (∑ ω ∈ SΩ, (∑ p ∈ range D1, ∑ q ∈ range D1, Ul p a1 * Lf ω p q * star (Ul q a2)) *
          (∑ p' ∈ range D2, ∑ q' ∈ range D2, star (Ur p' b1) * Rf ω p' q' * Ur q' b2)) *
        (∑ a ∈ range D1, ∑ b ∈ range D2, star (Ul a a1) * X a b * Ur b b1) := by
    intro a1 ha1 b1 hb1
    rw [hX a1 b1 (mem_range.1 ha1) (mem_range.1 hb1)]
    congr 1
    refine sum_congr rfl fun ω hω => ?_
    rw [hL ω hω a1 (mem_range.1 ha1), hR ω hω b1 (mem_range.1 hb1)]
  rw [sum_congr rfl fun a1 ha1 => sum_congr rfl fun b1 hb1 => e1 a1 ha1 b1 hb1]
  rw [alg_gauge_collect (range D1) (range D2) SΩ (range D1) (range D1) (range D2) (range D2) (range D1) (range D2)
    Ul (fun a a1 => star (Ul a a1)) Ur (fun p' b1 => star (Ur p' b1)) Lf Rf X (fun q => star (Ul q a2))
    (fun q' => Ur q' b2)]
  rw [← alg_gauge_final SΩ (range D1) (range D2) (range D1) (range D2) Lf Rf X (fun q => star (Ul q a2))
    (fun q' => Ur q' b2)]
  refine sum_congr rfl fun ω _ => sum_congr rfl fun q _ => sum_congr rfl fun q' _ => ?_
  rw [sum_delta D1 (fun p a => ∑ b ∈ range D2, ∑ p' ∈ range D2,
      (Lf ω p q * star (Ul q a2) * Rf ω p' q' * Ur q' b2 * X a b) * (∑ b1 ∈ range D2, Ur b b1 * star (Ur p' b1)))
    (fun p a => ∑ a1 ∈ range D1, Ul p a1 * star (Ul a a1)) hUl.row]
  refine sum_congr rfl fun p _ => ?_
  exact sum_delta D2 (fun b p' => Lf ω p q * star (Ul q a2) * Rf ω p' q' * Ur q' b2 * X p b)
    (fun b p' => ∑ b1 ∈ range D2, Ur b b1 * star (Ur p' b1)) hUr.row


/-! ## the local maps in two gauges -/

omit [DecidableEq 𝕜] in
/-- the zero-site maps of two gauges are intertwined by the gauge -/
theorem applyBond_gauge {L R L' R' : T3 𝕜} {m n : Nat} {Ul Ur : Nat → Nat → 𝕜}
    (hF : BondFits L R m n) (hF' : BondFits L' R' m n)
    (hUl : IsU m Ul) (hUr : IsU n Ur) (hL : GBL Ul L L') (hR : GBR Ur R R')
    {X X' T T' : Mat 𝕜} (x0 : X.m = m) (x1 : X.n = n) (hX : GMat Ul Ur X X')
    (hT : Op.applyLocalBondContraction L R X = .ok T) (hT' : Op.applyLocalBondContraction L' R' X' = .ok T') :
    GMat Ul Ur T T' := by
  obtain ⟨T1, h1, t0, t1, f1⟩ := applyBond_ker hF x0 x1
  obtain ⟨T2, h2, s0, s1, f2⟩ := applyBond_ker hF' (hX.m.trans x0) (hX.n.trans x1)
  have := Except.ok.inj (h1.symm.trans hT); subst this
  have := Except.ok.inj (h2.symm.trans hT'); subst this
  refine ⟨s0.trans t0.symm, s1.trans t1.symm, ?_⟩
  rw [t0, t1]
  intro a2 b2 ha2 hb2
  rw [f2 a2 b2 ha2 hb2]
  unfold bondKer
  rw [hL.d1]
  have key := gauge_core (range L.d1) hUl hUr (fun w a a' => L.f a w a') (fun w a a' => L'.f a w a')
    (fun w b b' => R.f b w b') (fun w b b' => R'.f b w b') X.f X'.f (a2 := a2) (b2 := b2)
    (fun w hw a1 ha1 => by
      have := hL.f a1 w a2 (by rw [hF.l0]; exact ha1) (mem_range.1 hw) (by rw [hF.l2]; exact ha2)
      rw [hF.l0, hF.l2] at this
      exact this)
    (fun w hw b1 hb1 => by
      have := hR.f b1 w b2 (by rw [hF.r0]; exact hb1) (by rw [← hF.w]; exact mem_range.1 hw) (by rw [hF.r2]; exact hb2)
      rw [hF.r0, hF.r2] at this
      exact this)
    (fun a1 b1 ha1 hb1 => by
      have := hX.f a1 b1 (by rw [x0]; exact ha1) (by rw [x1]; exact hb1)
      rw [x0, x1] at this
      exact this)
  rw [key]
  refine sum_congr rfl fun q hq => sum_congr rfl fun q' hq' => ?_
  rw [f1 q q' (mem_range.1 hq) (mem_range.1 hq')]
  rfl


omit [DecidableEq 𝕜] in
theorem localKer_prod (L R : T3 𝕜) (W : T4 𝕜) (s' a' b' s a b : Nat) :
    localKer L R W s' a' b' s a b =
      ∑ ω ∈ range W.d2 ×ˢ range W.d3, (L.f a ω.1 a' * W.f s' s ω.1 ω.2) * R.f b ω.2 b' := by
  unfold localKer
  rw [sum_product]
  exact sum_congr rfl fun w _ => sum_congr rfl fun w' _ => by ring

omit [DecidableEq 𝕜] in
theorem alg_pull_phys (Sa Sb Ss : Finset Nat) (u v : Nat → 𝕜) (F : Nat → Nat → Nat → 𝕜) :
    ∑ a ∈ Sa, ∑ b ∈ Sb, u a * (∑ s ∈ Ss, F s a b) * v b = ∑ s ∈ Ss, ∑ a ∈ Sa, ∑ b ∈ Sb, u a * F s a b * v b := by
  simp only [Finset.sum_mul, Finset.mul_sum]
  simp only [Finset.sum_comm (t := Ss)]

omit [DecidableEq 𝕜] in
/-- the one-site maps of two gauges are intertwined by the gauge -/
theorem applyLocal_gauge {L R L' R' : T3 𝕜} {W : T4 𝕜} {d0 d1 d2 : Nat} {Ul Ur : Nat → Nat → 𝕜}
    (hF : LocalFits L R W d0 d1 d2) (hF' : LocalFits L' R' W d0 d1 d2)
    (hUl : IsU d1 Ul) (hUr : IsU d2 Ur) (hL : GBL Ul L L') (hR : GBR Ur R R')
    {X X' T T' : T3 𝕜} (x0 : X.d0 = d0) (x1 : X.d1 = d1) (x2 : X.d2 = d2) (hX : GT3 Ul Ur X X')
    (hT : Op.applyLocalHamiltonian L R W X = .ok T) (hT' : Op.applyLocalHamiltonian L' R' W X' = .ok T') :
    GT3 Ul Ur T T' := by
  obtain ⟨T1, h1, t0, t1, t2, f1⟩ := applyLocal_ker hF x0 x1 x2
  obtain ⟨T2, h2, s0, s1, s2, f2⟩ := applyLocal_ker hF' (hX.d0.trans x0) (hX.d1.trans x1) (hX.d2.trans x2)
  have := Except.ok.inj (h1.symm.trans hT); subst this
  have := Except.ok.inj (h2.symm.trans hT'); subst this
  refine ⟨s0.trans t0.symm, s1.trans t1.symm, s2.trans t2.symm, ?_⟩
  rw [t0, t1, t2]
  intro s' a2 b2 hs' ha2 hb2
  rw [f2 s' a2 b2 hs' ha2 hb2]
  have e1 : ∀ a ∈ range d1, ∀ b ∈ range d2, star (Ul a a2) * T1.f s' a b * Ur b b2 =
      star (Ul a a2) * (∑ s ∈ range d0, ∑ a0 ∈ range d1, ∑ b0 ∈ range d2, localKer L R W s' a b s a0 b0 * X.f s a0 b0) *
        Ur b b2 := by
    intro a ha b hb
    rw [f1 s' a b hs' (mem_range.1 ha) (mem_range.1 hb)]
  rw [sum_congr rfl fun a ha => sum_congr rfl fun b hb => e1 a ha b hb]
  rw [alg_pull_phys (range d1) (range d2) (range d0) (fun a => star (Ul a a2)) (fun b => Ur b b2)
    (fun s a b => ∑ a0 ∈ range d1, ∑ b0 ∈ range d2, localKer L R W s' a b s a0 b0 * X.f s a0 b0)]
  refine sum_congr rfl fun s hs => ?_
  have key := gauge_core (range W.d2 ×ˢ range W.d3) hUl hUr
    (fun ω a a' => L.f a ω.1 a' * W.f s' s ω.1 ω.2) (fun ω a a' => L'.f a ω.1 a' * W.f s' s ω.1 ω.2)
    (fun ω b b' => R.f b ω.2 b') (fun ω b b' => R'.f b ω.2 b') (X.f s) (X'.f s) (a2 := a2) (b2 := b2)
    (fun ω hω a1 ha1 => by
      have hw := mem_range.1 (mem_product.1 hω).1
      have := hL.f a1 ω.1 a2 (by rw [hF.l0]; exact ha1) (by rw [← hF.w2]; exact hw) (by rw [hF.l2]; exact ha2)
      rw [hF.l0, hF.l2] at this
      show L'.f a1 ω.1 a2 * W.f s' s ω.1 ω.2 = _
      rw [this, sum_mul]
      refine sum_congr rfl fun p _ => ?_
      rw [sum_mul]
      exact sum_congr rfl fun q _ => by ring)
    (fun ω hω b1 hb1 => by
      have hw := mem_range.1 (mem_product.1 hω).2
      have := hR.f b1 ω.2 b2 (by rw [hF.r0]; exact hb1) (by rw [← hF.w3]; exact hw) (by rw [hF.r2]; exact hb2)
      rw [hF.r0, hF.r2] at this
      exact this)
    (fun a1 b1 ha1 hb1 => by
      have := hX.f s a1 b1 (by rw [x0]; exact mem_range.1 hs) (by rw [x1]; exact ha1) (by rw [x2]; exact hb1)
      rw [x1, x2] at this
      exact this)
  have e2 : ∀ a1 ∈ range d1, ∀ b1 ∈ range d2, localKer L' R' W s' a2 b2 s a1 b1 * X'.f s a1 b1 =
      (∑ ω ∈ range W.d2 ×ˢ range W.d3, (L'.f a1 ω.1 a2 * W.f s' s ω.1 ω.2) * R'.f b1 ω.2 b2) * X'.f s a1 b1 := by
    intro a1 _ b1 _
    rw [localKer_prod]
  rw [sum_congr rfl fun a1 ha1 => sum_congr rfl fun b1 hb1 => e2 a1 ha1 b1 hb1]
  refine key.trans ?_
  refine sum_congr rfl fun q _ => sum_congr rfl fun q' _ => ?_
  congr 2
  refine sum_congr rfl fun a _ => sum_congr rfl fun b _ => ?_
  rw [localKer_prod]


/-! ## the flat intertwiners -/

/-- the matrix of `X ↦ Ulᴴ X Ur` on flat `D × n` matrices -/
def gFlat2 (Ul Ur : Nat → Nat → 𝕜) (n : Nat) (i j : Nat) : 𝕜 := star (Ul (j / n) (i / n)) * Ur (j % n) (i % n)

omit [DecidableEq 𝕜] in
theorem gFlat2_apply (Ul Ur : Nat → Nat → 𝕜) (D : Nat) {n : Nat} (x : List 𝕜) (i : Nat) :
    ∑ j ∈ range (D * n), gFlat2 Ul Ur n i j * vget x j =
      ∑ a ∈ range D, ∑ b ∈ range n, star (Ul a (i / n)) * vget x (a * n + b) * Ur b (i % n) := by
  rw [Ortho.sum_fused D n]
  refine sum_congr rfl fun a _ => sum_congr rfl fun b hb => ?_
  unfold gFlat2
  rw [Ortho.fused_mod (mem_range.1 hb), Ortho.fused_div (mem_range.1 hb)]
  ring

/-- **A forward and a backward zero-site step cancel across a change of gauge on both sides.** -/
theorem bondStep_cancel_gauge2 {k : EvoKernels 𝕜 ℝ} {L R L' R' : T3 𝕜} {C C1 C1' C2 : Mat 𝕜}
    {Ul Ur : Nat → Nat → 𝕜} {δ : 𝕜} {m m' : Nat} (hN : NormContract k.cnorm)
    (hF : BondFits L R C.m C.n) (hH : BondHermitian L R C.m C.n)
    (hF' : BondFits L' R' C.m C.n) (hH' : BondHermitian L' R' C.m C.n)
    (hUl : IsU C.m Ul) (hUr : IsU C.n Ur) (hL : GBL Ul L L') (hR : GBR Ur R R')
    (hE : C15.EighAt (localBondFun L R C.m C.n) k.cnorm k.deigh (flat2 C) m)
    (hX : C15.Exhausted (localBondFun L R C.m C.n) k.cnorm (flat2 C) m)
    (h1 : localBondStep k L R C δ m = .ok C1)
    (hC1' : GMat Ul Ur C1 C1')
    (hE' : C15.EighAt (localBondFun L' R' C1'.m C1'.n) k.cnorm k.deigh (flat2 C1') m')
    (hX' : C15.Exhausted (localBondFun L' R' C1'.m C1'.n) k.cnorm (flat2 C1') m')
    (h2 : localBondStep k L' R' C1' (-δ) m' = .ok C2)
    (hexp : ∀ x : ℝ, k.dexp (δ * (x : 𝕜)) * k.dexp (-δ * (x : 𝕜)) = 1) :
    GMat Ul Ur C C2 := by
  obtain ⟨y, hy, rfl⟩ := bondStep_unfold h1
  obtain ⟨z, hz, rfl⟩ := bondStep_unfold h2
  have c0 : C1'.m = C.m := hC1'.m
  have c1 : C1'.n = C.n := hC1'.n
  rw [c0, c1] at hz hE' hX'
  have hA := isHermitian_localBondFun hF hH
  have hM := actsAs_localBondFun hF
  have hHM := herm_matrix_of_actsAs hA hM
  have hA' := isHermitian_localBondFun hF' hH'
  have hM' := actsAs_localBondFun hF'
  have hHM' := herm_matrix_of_actsAs hA' hM'
  have hvl : (flat2 C).length = C.m * C.n := length_flat2 C
  have hv'l : (flat2 C1').length = (flat2 C).length := by rw [length_flat2, c0, c1, hvl]
  rw [← hvl] at hM hHM hM' hHM'
  -- the intermediate vector
  obtain ⟨_, _, _, _, _, _, hyl, _⟩ := C15.expm_exact_partial hN hM hHM hE hX hy
  rw [hvl] at hyl
  have hC1f : ∀ r b, r < C.m → b < C.n → (unflat2 y C.m C.n).tab.f r b = vget y (r * C.n + b) := by
    intro r b hr hb
    rw [Env.mat_tab_f (unflat2 y C.m C.n) hr hb, unflat2_f]
  -- the start vector of the backward run is `G y`
  have hv' : ∀ i, i < (flat2 C).length →
      vget (flat2 C1') i = ∑ j ∈ range (flat2 C).length, gFlat2 Ul Ur C.n i j * vget y j := by
    intro i hi
    rw [hvl] at hi ⊢
    have ha : i / C.n < C.m := Ortho.div_lt_of_lt_mul hi
    have hb : i % C.n < C.n := Ortho.mod_lt_of_lt_mul hi
    rw [gFlat2_apply Ul Ur C.m y i]
    have : vget (flat2 C1') i = C1'.f (i / C.n) (i % C.n) := by
      unfold flat2
      rw [vget_map_range, c0, c1, if_pos hi]
    rw [this, hC1'.f _ _ ha hb]
    show ∑ a ∈ range C.m, ∑ b ∈ range C.n, _ = _
    exact sum_congr rfl fun r hr => sum_congr rfl fun b hb' => by rw [hC1f r b (mem_range.1 hr) (mem_range.1 hb')]
  -- the intertwining relation on vectors
  have hG : ∀ x : List 𝕜, x.length = (flat2 C).length → ∀ i, i < (flat2 C).length →
      vget (localBondFun L' R' C.m C.n (mvec (flat2 C).length (gFlat2 Ul Ur C.n) x)) i =
        ∑ j ∈ range (flat2 C).length, gFlat2 Ul Ur C.n i j * vget (localBondFun L R C.m C.n x) j := by
    intro x hx i hi
    rw [hvl] at hx hi ⊢
    have ha : i / C.n < C.m := Ortho.div_lt_of_lt_mul hi
    have hb : i % C.n < C.n := Ortho.mod_lt_of_lt_mul hi
    obtain ⟨KX, hKX, eK, k0, k1⟩ := localBondFun_eq hF x
    obtain ⟨KG, hKG, eG, g0, g1⟩ := localBondFun_eq hF' (mvec (C.m * C.n) (gFlat2 Ul Ur C.n) x)
    have hXX : GMat Ul Ur (unflat2 x C.m C.n) (unflat2 (mvec (C.m * C.n) (gFlat2 Ul Ur C.n) x) C.m C.n) := by
      refine ⟨rfl, rfl, ?_⟩
      intro a' b' (ha' : a' < C.m) (hb' : b' < C.n)
      rw [unflat2_f, vget_mvec (gFlat2 Ul Ur C.n) x (Ortho.fused_lt ha' hb'), gFlat2_apply Ul Ur C.m x,
        Ortho.fused_div hb', Ortho.fused_mod hb']
      show _ = ∑ a ∈ range C.m, ∑ b ∈ range C.n, _
      exact sum_congr rfl fun a _ => sum_congr rfl fun b _ => by rw [unflat2_f]
    have hgl := applyBond_gauge hF hF' hUl hUr hL hR (X := unflat2 x C.m C.n) rfl rfl hXX hKX hKG
    rw [eG, eK, gFlat2_apply Ul Ur C.m (flat2 KX) i]
    have e1 : vget (flat2 KG) i = KG.f (i / C.n) (i % C.n) := by
      unfold flat2
      rw [vget_map_range, g0, g1, if_pos hi]
    rw [e1, hgl.f _ _ (by rw [k0]; exact ha) (by rw [k1]; exact hb), k0, k1]
    refine sum_congr rfl fun r hr => sum_congr rfl fun b hb' => ?_
    have := vget_flat2 KX (i := r) (j := b) (by rw [k0]; exact mem_range.1 hr) (by rw [k1]; exact mem_range.1 hb')
    rw [k1] at this
    rw [this]
  obtain ⟨hzl, hzv⟩ := krylov_cancel_gauge' hN hM hHM hM' hHM' hG hE hX hy hv'l hv' hE' hX' hz (fun x => by
    have := hexp x
    rw [_root_.neg_neg]
    exact this)
  rw [hvl] at hzl hzv
  refine ⟨c0, c1, ?_⟩
  intro p b hp hb
  rw [Env.mat_tab_f (unflat2 z C1'.m C1'.n) (by show p < C1'.m; rw [c0]; exact hp) (by show b < C1'.n; rw [c1]; exact hb),
    unflat2_f, c1, hzv _ (Ortho.fused_lt hp hb), gFlat2_apply Ul Ur C.m (flat2 C),
    Ortho.fused_div hb, Ortho.fused_mod hb]
  refine sum_congr rfl fun r hr => sum_congr rfl fun b' hb' => ?_
  rw [vget_flat2 C (mem_range.1 hr) (mem_range.1 hb')]


/-- the matrix of `X ↦ (1 ⊗ Ulᴴ) X Ur` on flat `d0 × d1 × d2` tensors -/
def gFlat3 (Ul Ur : Nat → Nat → 𝕜) (d1 d2 : Nat) (i j : Nat) : 𝕜 :=
  if i / (d1 * d2) = j / (d1 * d2) then star (Ul (j / d2 % d1) (i / d2 % d1)) * Ur (j % d2) (i % d2) else 0

omit [DecidableEq 𝕜] in
theorem gFlat3_apply (Ul Ur : Nat → Nat → 𝕜) {d0 d1 d2 : Nat} (x : List 𝕜) {i : Nat} (hi : i < d0 * d1 * d2) :
    ∑ j ∈ range (d0 * d1 * d2), gFlat3 Ul Ur d1 d2 i j * vget x j =
      ∑ a ∈ range d1, ∑ b ∈ range d2,
        star (Ul a (i / d2 % d1)) * vget x ((i / (d1 * d2) * d1 + a) * d2 + b) * Ur b (i % d2) := by
  have hi2 : i < d0 * (d1 * d2) := by rw [← Nat.mul_assoc]; exact hi
  have hs : i / (d1 * d2) < d0 := Ortho.div_lt_of_lt_mul hi2
  rw [sum_flat3]
  have e : ∀ s ∈ range d0, (∑ a ∈ range d1, ∑ b ∈ range d2,
      gFlat3 Ul Ur d1 d2 i ((s * d1 + a) * d2 + b) * vget x ((s * d1 + a) * d2 + b)) =
      if i / (d1 * d2) = s then ∑ a ∈ range d1, ∑ b ∈ range d2,
        star (Ul a (i / d2 % d1)) * vget x ((s * d1 + a) * d2 + b) * Ur b (i % d2) else 0 := by
    intro s _
    by_cases h : i / (d1 * d2) = s
    · rw [if_pos h]
      refine sum_congr rfl fun a ha => sum_congr rfl fun b hb => ?_
      unfold gFlat3
      rw [idx3_div0 (mem_range.1 ha) (mem_range.1 hb), idx3_div1 (mem_range.1 ha) (mem_range.1 hb),
        idx3_mod (mem_range.1 hb), if_pos h]
      ring
    · rw [if_neg h]
      refine sum_eq_zero fun a ha => sum_eq_zero fun b hb => ?_
      unfold gFlat3
      rw [idx3_div0 (mem_range.1 ha) (mem_range.1 hb), if_neg h, zero_mul]
  rw [sum_congr rfl e, sum_ite_eq (range d0) (i / (d1 * d2)), if_pos (mem_range.2 hs)]

/-- **A forward and a backward one-site step cancel across a change of gauge on both bonds.** -/
theorem localStep_cancel_gauge2 {k : EvoKernels 𝕜 ℝ} {L R L' R' : T3 𝕜} {W : T4 𝕜} {A A1 A1' A2 : T3 𝕜}
    {Ul Ur : Nat → Nat → 𝕜} {δ : 𝕜} {m m' : Nat} (hN : NormContract k.cnorm)
    (hF : LocalFits L R W A.d0 A.d1 A.d2) (hH : LocalHermitian L R W A.d0 A.d1 A.d2)
    (hF' : LocalFits L' R' W A.d0 A.d1 A.d2) (hH' : LocalHermitian L' R' W A.d0 A.d1 A.d2)
    (hUl : IsU A.d1 Ul) (hUr : IsU A.d2 Ur) (hL : GBL Ul L L') (hR : GBR Ur R R')
    (hE : C15.EighAt (localHFun L R W A.d0 A.d1 A.d2) k.cnorm k.deigh (flat3 A) m)
    (hX : C15.Exhausted (localHFun L R W A.d0 A.d1 A.d2) k.cnorm (flat3 A) m)
    (h1 : localHamiltonianStep k L R W A δ m = .ok A1)
    (hA1' : GT3 Ul Ur A1 A1')
    (hE' : C15.EighAt (localHFun L' R' W A1'.d0 A1'.d1 A1'.d2) k.cnorm k.deigh (flat3 A1') m')
    (hX' : C15.Exhausted (localHFun L' R' W A1'.d0 A1'.d1 A1'.d2) k.cnorm (flat3 A1') m')
    (h2 : localHamiltonianStep k L' R' W A1' (-δ) m' = .ok A2)
    (hexp : ∀ x : ℝ, k.dexp (δ * (x : 𝕜)) * k.dexp (-δ * (x : 𝕜)) = 1) :
    GT3 Ul Ur A A2 := by
  obtain ⟨y, hy, rfl⟩ := localStep_unfold h1
  obtain ⟨z, hz, rfl⟩ := localStep_unfold h2
  have c0 : A1'.d0 = A.d0 := hA1'.d0
  have c1 : A1'.d1 = A.d1 := hA1'.d1
  have c2 : A1'.d2 = A.d2 := hA1'.d2
  rw [c0, c1, c2] at hz hE' hX'
  have hA := isHermitian_localHFun hF hH
  have hM := actsAs_localHFun hF
  have hHM := herm_matrix_of_actsAs hA hM
  have hA' := isHermitian_localHFun hF' hH'
  have hM' := actsAs_localHFun hF'
  have hHM' := herm_matrix_of_actsAs hA' hM'
  have hvl : (flat3 A).length = A.d0 * A.d1 * A.d2 := length_flat3 A
  have hv'l : (flat3 A1').length = (flat3 A).length := by rw [length_flat3, c0, c1, c2, hvl]
  rw [← hvl] at hM hHM hM' hHM'
  -- the intermediate vector
  obtain ⟨_, _, _, _, _, _, hyl, _⟩ := C15.expm_exact_partial hN hM hHM hE hX hy
  rw [hvl] at hyl
  have hA1f : ∀ s a b, s < A.d0 → a < A.d1 → b < A.d2 →
      (unflat3 y A.d0 A.d1 A.d2).tab.f s a b = vget y ((s * A.d1 + a) * A.d2 + b) := by
    intro s a b hs ha hb
    rw [Env.t3_tab_f (unflat3 y A.d0 A.d1 A.d2) hs ha hb, unflat3_f]
  -- the start vector of the backward run is `G y`
  have hv' : ∀ i, i < (flat3 A).length →
      vget (flat3 A1') i = ∑ j ∈ range (flat3 A).length, gFlat3 Ul Ur A.d1 A.d2 i j * vget y j := by
    intro i hi
    rw [hvl] at hi ⊢
    have hi2 : i < A.d0 * (A.d1 * A.d2) := by rw [← Nat.mul_assoc]; exact hi
    have hs : i / (A.d1 * A.d2) < A.d0 := Ortho.div_lt_of_lt_mul hi2
    have ha : i / A.d2 % A.d1 < A.d1 := Ortho.mod_lt_of_lt_mul (Ortho.div_lt_of_lt_mul hi)
    have hb : i % A.d2 < A.d2 := Ortho.mod_lt_of_lt_mul hi
    rw [gFlat3_apply Ul Ur y hi]
    have : vget (flat3 A1') i = A1'.f (i / (A.d1 * A.d2)) (i / A.d2 % A.d1) (i % A.d2) := by
      unfold flat3
      rw [vget_map_range, c0, c1, c2, if_pos hi]
    rw [this, hA1'.f _ _ _ hs ha hb]
    show ∑ a ∈ range A.d1, ∑ b ∈ range A.d2, _ = _
    exact sum_congr rfl fun a ha' => sum_congr rfl fun b hb' => by
      rw [hA1f _ a b hs (mem_range.1 ha') (mem_range.1 hb')]
  -- the intertwining relation on vectors
  have hG : ∀ x : List 𝕜, x.length = (flat3 A).length → ∀ i, i < (flat3 A).length →
      vget (localHFun L' R' W A.d0 A.d1 A.d2 (mvec (flat3 A).length (gFlat3 Ul Ur A.d1 A.d2) x)) i =
        ∑ j ∈ range (flat3 A).length, gFlat3 Ul Ur A.d1 A.d2 i j * vget (localHFun L R W A.d0 A.d1 A.d2 x) j := by
    intro x hx i hi
    rw [hvl] at hx hi ⊢
    have hi2 : i < A.d0 * (A.d1 * A.d2) := by rw [← Nat.mul_assoc]; exact hi
    have hs : i / (A.d1 * A.d2) < A.d0 := Ortho.div_lt_of_lt_mul hi2
    have ha : i / A.d2 % A.d1 < A.d1 := Ortho.mod_lt_of_lt_mul (Ortho.div_lt_of_lt_mul hi)
    have hb : i % A.d2 < A.d2 := Ortho.mod_lt_of_lt_mul hi
    obtain ⟨KX, hKX, eK, k0, k1, k2⟩ := localHFun_eq hF x
    obtain ⟨KG, hKG, eG, g0, g1, g2⟩ :=
      localHFun_eq hF' (mvec (A.d0 * A.d1 * A.d2) (gFlat3 Ul Ur A.d1 A.d2) x)
    have hXX : GT3 Ul Ur (unflat3 x A.d0 A.d1 A.d2)
        (unflat3 (mvec (A.d0 * A.d1 * A.d2) (gFlat3 Ul Ur A.d1 A.d2) x) A.d0 A.d1 A.d2) := by
      refine ⟨rfl, rfl, rfl, ?_⟩
      intro s a' b' (hs' : s < A.d0) (ha' : a' < A.d1) (hb' : b' < A.d2)
      rw [unflat3_f, vget_mvec (gFlat3 Ul Ur A.d1 A.d2) x (idx3_lt hs' ha' hb'),
        gFlat3_apply Ul Ur x (idx3_lt hs' ha' hb'), idx3_div0 ha' hb', idx3_div1 ha' hb', idx3_mod hb']
      show _ = ∑ a ∈ range A.d1, ∑ b ∈ range A.d2, _
      exact sum_congr rfl fun a _ => sum_congr rfl fun b _ => by rw [unflat3_f]
    have hgl := applyLocal_gauge hF hF' hUl hUr hL hR (X := unflat3 x A.d0 A.d1 A.d2) rfl rfl rfl hXX hKX hKG
    rw [eG, eK, gFlat3_apply Ul Ur (flat3 KX) hi]
    have e1 : vget (flat3 KG) i = KG.f (i / (A.d1 * A.d2)) (i / A.d2 % A.d1) (i % A.d2) := by
      unfold flat3
      rw [vget_map_range, g0, g1, g2, if_pos hi]
    rw [e1, hgl.f _ _ _ (by rw [k0]; exact hs) (by rw [k1]; exact ha) (by rw [k2]; exact hb), k1, k2]
    refine sum_congr rfl fun a ha' => sum_congr rfl fun b hb' => ?_
    have := vget_flat3 KX (i := i / (A.d1 * A.d2)) (j := a) (k := b) (by rw [k0]; exact hs)
      (by rw [k1]; exact mem_range.1 ha') (by rw [k2]; exact mem_range.1 hb')
    rw [k1, k2] at this
    rw [this]
  obtain ⟨hzl, hzv⟩ := krylov_cancel_gauge' hN hM hHM hM' hHM' hG hE hX hy hv'l hv' hE' hX' hz (fun x => by
    have := hexp x
    rw [_root_.neg_neg]
    exact this)
  rw [hvl] at hzl hzv
  refine ⟨c0, c1, c2, ?_⟩
  intro s a' b' hs ha hb
  show (unflat3 z A1'.d0 A1'.d1 A1'.d2).tab.f s a' b' = _
  rw [Env.t3_tab_f (unflat3 z A1'.d0 A1'.d1 A1'.d2) (by show s < A1'.d0; rw [c0]; exact hs)
      (by show a' < A1'.d1; rw [c1]; exact ha) (by show b' < A1'.d2; rw [c2]; exact hb),
    unflat3_f, c1, c2, hzv _ (idx3_lt hs ha hb), gFlat3_apply Ul Ur (flat3 A) (idx3_lt hs ha hb),
    idx3_div0 ha hb, idx3_div1 ha hb, idx3_mod hb]
  refine sum_congr rfl fun a ha' => sum_congr rfl fun b hb' => ?_
  rw [vget_flat3 A hs (mem_range.1 ha') (mem_range.1 hb')]

end Ptn.Evo

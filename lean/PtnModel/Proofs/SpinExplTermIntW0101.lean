import PtnModel.Proofs.SpinExplTermIntW0101p0
import PtnModel.Proofs.SpinExplTermIntW0101p1
import PtnModel.Proofs.SpinExplTermIntW0101p2
import PtnModel.Proofs.SpinExplTermIntW0101p3
import PtnModel.Proofs.SpinExplTermIntW0101p4
import PtnModel.Proofs.SpinExplTermIntW0101p5
/-!
# Explicit spin-orbital molecular graph: interaction terms, spin pattern 0101, words
-/
set_option linter.unusedSectionVars false
set_option linter.unusedSimpArgs false
set_option linter.unusedVariables false
set_option linter.unusedTactic false
set_option linter.unreachableTactic false

namespace Ptn.Ham
open Ptn.Og List Ptn.Ham2

theorem sint_word_0101 (L : Int) (hL : 2 ≤ L) (i j k l : Int) (hi : 0 ≤ i) (hjL : j < L) (hk : 0 ≤ k) (hlL : l < L) (hij : i ≤ j) (hkl : k ≤ l) :
    ∃ x, stermE L (sortTrips [(i, 0, mC), (j, 1, mC), (l, 1, mA), (k, 0, mA)]) = .ok x ∧
      STw L (intF (md i 0).toNat (md j 1).toNat (md k 0).toNat (md l 1).toNat) x := by
  rcases Int.lt_trichotomy i k with hh0 | hh0 | hh0
  · rcases Int.lt_trichotomy j l with hh1 | hh1 | hh1
    · rcases Int.lt_trichotomy j k with hh2 | hh2 | hh2
      · rcases Int.lt_trichotomy i j with hh3 | hh3 | hh3
        · rcases Int.lt_trichotomy k l with hh4 | hh4 | hh4
          · exact sint_word_0101_0123 L hL _ _ _ _ (by omega) (by omega) (by omega) (by omega) (by omega)
          · obtain rfl : k = l := by omega
            exact sint_word_0101_0122 L hL _ _ _ (by omega) (by omega) (by omega) (by omega)
          · exfalso; omega
        · rcases Int.lt_trichotomy k l with hh4 | hh4 | hh4
          · obtain rfl : i = j := by omega
            exact sint_word_0101_0012 L hL _ _ _ (by omega) (by omega) (by omega) (by omega)
          · obtain rfl : i = j := by omega
            obtain rfl : k = l := by omega
            exact sint_word_0101_0011 L hL _ _ (by omega) (by omega) (by omega)
          · exfalso; omega
        · exfalso; omega
      · obtain rfl : j = k := by omega
        exact sint_word_0101_0112 L hL _ _ _ (by omega) (by omega) (by omega) (by omega)
      · exact sint_word_0101_0213 L hL _ _ _ _ (by omega) (by omega) (by omega) (by omega) (by omega)
    · rcases Int.lt_trichotomy j k with hh2 | hh2 | hh2
      · exfalso; omega
      · obtain rfl : j = k := by omega
        obtain rfl : j = l := by omega
        exact sint_word_0101_0111 L hL _ _ (by omega) (by omega) (by omega)
      · obtain rfl : j = l := by omega
        exact sint_word_0101_0212 L hL _ _ _ (by omega) (by omega) (by omega) (by omega)
    · rcases Int.lt_trichotomy k l with hh2 | hh2 | hh2
      · exact sint_word_0101_0312 L hL _ _ _ _ (by omega) (by omega) (by omega) (by omega) (by omega)
      · obtain rfl : k = l := by omega
        exact sint_word_0101_0211 L hL _ _ _ (by omega) (by omega) (by omega) (by omega)
      · exfalso; omega
  · rcases Int.lt_trichotomy j l with hh1 | hh1 | hh1
    · rcases Int.lt_trichotomy j k with hh2 | hh2 | hh2
      · exfalso; omega
      · obtain rfl : i = j := by omega
        obtain rfl : i = k := by omega
        exact sint_word_0101_0001 L hL _ _ (by omega) (by omega) (by omega)
      · obtain rfl : i = k := by omega
        exact sint_word_0101_0102 L hL _ _ _ (by omega) (by omega) (by omega) (by omega)
    · rcases Int.lt_trichotomy j k with hh2 | hh2 | hh2
      · exfalso; omega
      · obtain rfl : i = j := by omega
        obtain rfl : i = k := by omega
        obtain rfl : i = l := by omega
        exact sint_word_0101_0000 L hL _ (by omega) (by omega)
      · obtain rfl : i = k := by omega
        obtain rfl : j = l := by omega
        exact sint_word_0101_0101 L hL _ _ (by omega) (by omega) (by omega)
    · rcases Int.lt_trichotomy i l with hh2 | hh2 | hh2
      · obtain rfl : i = k := by omega
        exact sint_word_0101_0201 L hL _ _ _ (by omega) (by omega) (by omega) (by omega)
      · obtain rfl : i = k := by omega
        obtain rfl : i = l := by omega
        exact sint_word_0101_0100 L hL _ _ (by omega) (by omega) (by omega)
      · exfalso; omega
  · rcases Int.lt_trichotomy j l with hh1 | hh1 | hh1
    · rcases Int.lt_trichotomy i j with hh2 | hh2 | hh2
      · exact sint_word_0101_1203 L hL _ _ _ _ (by omega) (by omega) (by omega) (by omega) (by omega)
      · obtain rfl : i = j := by omega
        exact sint_word_0101_1102 L hL _ _ _ (by omega) (by omega) (by omega) (by omega)
      · exfalso; omega
    · rcases Int.lt_trichotomy i l with hh2 | hh2 | hh2
      · obtain rfl : j = l := by omega
        exact sint_word_0101_1202 L hL _ _ _ (by omega) (by omega) (by omega) (by omega)
      · obtain rfl : i = j := by omega
        obtain rfl : i = l := by omega
        exact sint_word_0101_1101 L hL _ _ (by omega) (by omega) (by omega)
      · exfalso; omega
    · rcases Int.lt_trichotomy i l with hh2 | hh2 | hh2
      · exact sint_word_0101_1302 L hL _ _ _ _ (by omega) (by omega) (by omega) (by omega) (by omega)
      · obtain rfl : i = l := by omega
        exact sint_word_0101_1201 L hL _ _ _ (by omega) (by omega) (by omega) (by omega)
      · rcases Int.lt_trichotomy i j with hh3 | hh3 | hh3
        · rcases Int.lt_trichotomy k l with hh4 | hh4 | hh4
          · exact sint_word_0101_2301 L hL _ _ _ _ (by omega) (by omega) (by omega) (by omega) (by omega)
          · obtain rfl : k = l := by omega
            exact sint_word_0101_1200 L hL _ _ _ (by omega) (by omega) (by omega) (by omega)
          · exfalso; omega
        · rcases Int.lt_trichotomy k l with hh4 | hh4 | hh4
          · obtain rfl : i = j := by omega
            exact sint_word_0101_2201 L hL _ _ _ (by omega) (by omega) (by omega) (by omega)
          · obtain rfl : i = j := by omega
            obtain rfl : k = l := by omega
            exact sint_word_0101_1100 L hL _ _ (by omega) (by omega) (by omega)
          · exfalso; omega
        · exfalso; omega

end Ptn.Ham

import PtnModel.Proofs.Evo2TotTdvp
/-!
# Totality of two-site DMRG (`calculate_ground_state_local_twosite`), every split tolerance `0 ≤ tol < 1`

Same scheme as `Evo2TotTdvp.lean` with the positive-norm invariant `PInv`; a window `(i, i+1)` whose centre is either of
its sites is described by `WInv`.  The final `local_orthonormalize_right_qr` of the first tensor returns a right isometry
with leading bond of dimension one (`normalizeP`), so the centre tensor has norm one afterwards — whatever was truncated
during the sweep.  Valid for every chain length `L ≥ 1` (for `L = 1` both half sweeps are empty).
-/
set_option linter.unusedSectionVars false

namespace Ptn.Evo
open Ptn Ptn.BondOps Ptn.Ortho Ptn.Env Ptn.Krylov Ptn.Dense Finset

variable {𝕜 : Type} [RCLike 𝕜] [DecidableEq 𝕜]
variable {k : EvoKernels 𝕜 ℝ} {H : MPO 𝕜} {qd : List Int} {numiter : Nat} {tol : ℝ}

/-- window invariant: mixed canonical around `(i, i+1)`, non-zero merged pair, block sparse -/
structure WInv (H : MPO 𝕜) (qd : List Int) (s : Sweep 𝕜) (i : Nat) : Prop where
  can : Canon2 H qd s i
  pos : 0 < frob3 (mergedA s i)
  sp : HistWf.EvoSparse H qd s i (i + 1)

theorem PInv.toWL {s : Sweep 𝕜} {i : Nat} (h : PInv H qd s i) (hi : i + 1 < H.A.length) (hH : C04.MPO.Shaped H qd.length) :
    WInv H qd s i :=
  ⟨h.can.toTwoL hi, by rw [mergedA_frob_L h.can hi hH]; exact h.pos, h.sp.mono (Nat.le_refl _) (Nat.le_succ _)⟩

theorem PInv.toWR {s : Sweep 𝕜} {i : Nat} (h : PInv H qd s (i + 1)) (hH : C04.MPO.Shaped H qd.length) : WInv H qd s i :=
  ⟨h.can.toTwoR, by rw [mergedA_frob_R h.can hH]; exact h.pos, h.sp.mono (Nat.le_succ _) (Nat.le_refl _)⟩

/-- **the left-to-right loop body of a two-site DMRG sweep returns** (centre `i → i+1`) -/
theorem dmrg2Left_ok (ctx : SweepCtx k H qd numiter) (hk : Compress.SvdKernel k.svd) (hm : 1 ≤ numiter)
    (hH : HistWf.HOk H qd) (ht0 : 0 ≤ tol) (ht1 : tol < 1) {s : Sweep 𝕜} {e : ℝ} {i : Nat} (h : WInv H qd s i) :
    ∃ se', dmrg2Left k H qd numiter tol (s, e) i = .ok se' ∧ PInv H qd se'.1 (i + 1) := by
  obtain ⟨s1, en, h1, hcan1, hsp1, hl, _, _, _⟩ := dmrg2Update_ok ctx hk hm hH h.can h.sp (Nat.le_refl i) (Nat.le_refl _)
    h.pos (Nat.le_refl 1) ht0 ht1
  rw [Nat.min_self, Nat.max_self] at hsp1
  obtain ⟨hiso, hp1⟩ := hl rfl
  obtain ⟨BLn, h2, hP2⟩ := window_left ctx hH hcan1 hsp1 hiso hp1
  refine ⟨(⟨s1.A, s1.qD, s1.BL.setIfInBounds (i + 1) BLn, s1.BR⟩, en), ?_, hP2⟩
  unfold dmrg2Left
  rw [bind_ok]
  refine ⟨(s1, en), h1, ?_⟩
  dsimp only
  rw [bind_ok]
  exact ⟨BLn, h2, rfl⟩

/-- **the right-to-left loop body of a two-site DMRG sweep returns** (the centre ends at `i`) -/
theorem dmrg2Right_ok (ctx : SweepCtx k H qd numiter) (hk : Compress.SvdKernel k.svd) (hm : 1 ≤ numiter)
    (hH : HistWf.HOk H qd) (ht0 : 0 ≤ tol) (ht1 : tol < 1) {s : Sweep 𝕜} {e : ℝ} {i : Nat} (h : WInv H qd s i) :
    ∃ se', dmrg2Right k H qd numiter tol (s, e) i = .ok se' ∧ PInv H qd se'.1 i := by
  obtain ⟨s1, en, h1, hcan1, hsp1, _, hr, _, _⟩ := dmrg2Update_ok ctx hk hm hH h.can h.sp (Nat.le_refl i) (Nat.le_refl _)
    h.pos (Nat.zero_le 1) ht0 ht1
  rw [Nat.min_self, Nat.max_self] at hsp1
  obtain ⟨hiso, hp0⟩ := hr rfl
  obtain ⟨BRn, h2, hP2⟩ := window_right ctx hH hcan1 hsp1 hiso hp0
  refine ⟨(⟨s1.A, s1.qD, s1.BL, s1.BR.setIfInBounds i BRn⟩, en), ?_, hP2⟩
  unfold dmrg2Right
  rw [bind_ok]
  refine ⟨(s1, en), h1, ?_⟩
  dsimp only
  rw [bind_ok]
  exact ⟨BRn, h2, rfl⟩

/-- **the final normalisation of the first tensor returns** and keeps `PInv`; afterwards the centre tensor has norm one -/
theorem normalizeP (ctx : SweepCtx k H qd numiter) {s : Sweep 𝕜} (h : PInv H qd s 0) :
    ∃ s', dmrgNormalizeFirst k qd s = .ok s' ∧ PInv H qd s' 0 ∧ frob3 (getA s' 0) = 1 := by
  have hL : 0 < H.A.length := h.can.hc
  have hwf := h.sp.site 0 hL
  obtain ⟨A0', X, qb, hq⟩ := localRight_ok (dqr := k.dqr) ctx.qr.contract.shape (t3wf_swap hwf) ctx.dpos
    (h.can.wf.qpos 0 (by omega)) (h.can.wf.qpos 1 (by omega)) (Aprev := MPS.ones111)
    (by rw [h.can.q0]; rfl)
  have hrun : dmrgNormalizeFirst k qd s = .ok ⟨s.A.setIfInBounds 0 A0', s.qD.setIfInBounds 0 qb, s.BL, s.BR⟩ := by
    unfold dmrgNormalizeFirst
    rw [bind_ok]
    exact ⟨(A0', X, qb), hq, rfl⟩
  have hsp' := HistWf.dmrgNormalizeFirst_sparse ctx.qr.contract.shape hL h.sp hrun
  obtain ⟨Q, R, qb', hqr, hRn, rfl, _, rfl⟩ := localRight_run hq
  obtain ⟨s0, s1, s2⟩ := h.can.wf.shape 0 hL
  have hq0 := h.can.q0
  have hm : 0 < (getA s 0).swap12.flattenLeft.tab.m := by
    show 0 < (getA s 0).d0 * (getA s 0).d2
    rw [s0, s2]; exact Nat.mul_pos ctx.dpos (h.can.wf.qpos 1 (by omega))
  have hn : 0 < (getA s 0).swap12.flattenLeft.tab.n := by
    show 0 < (getA s 0).d1
    rw [s1, hq0]; exact Nat.one_pos
  have hf := qr_facts ctx.qr.contract hm hn hqr
  have hqb : qb'.length = 1 := by
    have h1 := hf.le
    have h2 := hf.pos
    have e : (getA s 0).swap12.flattenLeft.tab.n = 1 := by show (getA s 0).d1 = 1; rw [s1, hq0]
    rw [e] at h1
    omega
  set A0 := (T3.ofFlattenLeft Q (getA s 0).d0 (getA s 0).d2).swap12.tab with hA0
  have hdims : A0.d0 = (getA s 0).d0 ∧ A0.d1 = (getA s 0).d1 ∧ A0.d2 = (getA s 0).d2 := by
    refine ⟨rfl, ?_, rfl⟩
    show Q.n = _
    rw [hf.Qn, hqb, s1, hq0]
  have hs0 : 0 < s.A.size := by rw [h.can.wf.sizeA]; exact hL
  have hcan := canon_replace' h.can (X := A0) hdims (qD' := s.qD.setIfInBounds 0 (QN.neg qb')) (by simp)
    (fun m => by
      rw [getD_setIfInBounds]
      split
      · rename_i hm'
        rw [hm'.1, neg_len, hqb, hq0]
      · rfl)
  have hget : getA (⟨s.A.setIfInBounds 0 A0, s.qD.setIfInBounds 0 (QN.neg qb'), s.BL, s.BR⟩ : Sweep 𝕜) 0 = A0 :=
    getD_setIfInBounds_eq _ _ _ hs0
  have hfrobA0 : frob3 A0 = 1 := by
    have hiso := rightQR_iso hf
    have h00 := hiso 0 0 (by show 0 < Q.n; rw [hf.Qn, hqb]; exact Nat.one_pos)
      (by show 0 < Q.n; rw [hf.Qn, hqb]; exact Nat.one_pos)
    rw [if_pos rfl] at h00
    have hd1 : A0.d1 = 1 := by rw [hdims.2.1, s1, hq0]
    have : ((frob3 A0 : ℝ) : 𝕜) = 1 := by
      rw [← inner3_self]
      unfold inner3
      rw [hd1]
      simp only [Finset.sum_range_one]
      exact h00
    exact_mod_cast this
  exact ⟨_, hrun, ⟨hcan, by rw [hget, hfrobA0]; exact one_pos, hsp'⟩, by rw [hget]; exact hfrobA0⟩

/-- **one complete two-site DMRG sweep returns** (every `L ≥ 1`) and keeps `PInv` -/
theorem dmrg2Sweep_ok (ctx : SweepCtx k H qd numiter) (hk : Compress.SvdKernel k.svd) (hm : 1 ≤ numiter)
    (hH : HistWf.HOk H qd) (ht0 : 0 ≤ tol) (ht1 : tol < 1) {s : Sweep 𝕜} {es : List ℝ} (h : PInv H qd s 0) :
    ∃ se', dmrg2Sweep k H qd numiter tol (s, es) = .ok se' ∧ PInv H qd se'.1 0 := by
  have hL : 0 < H.A.length := h.can.hc
  obtain ⟨⟨s1, e1⟩, h1, hs1⟩ := foldIdx_range_ok (dmrg2Left k H qd numiter tol)
    (fun i (t : Sweep 𝕜 × ℝ) => PInv H qd t.1 i) (H.A.length - 2)
    (fun i hi t ht => by
      obtain ⟨t1, t2⟩ := t
      exact dmrg2Left_ok ctx hk hm hH ht0 ht1 (PInv.toWL ht (by omega) ctx.hH))
    (s, (0 : ℝ)) h
  obtain ⟨⟨s2, e2⟩, h2, hs2⟩ := foldIdx_rev_ok (dmrg2Right k H qd numiter tol)
    (fun j (t : Sweep 𝕜 × ℝ) => PInv H qd t.1 (min j (H.A.length - 2))) (H.A.length - 1)
    (fun i hi t ht => by
      obtain ⟨t1, t2⟩ := t
      dsimp only at ht
      have hw : WInv H qd t1 i := by
        by_cases hc : i = H.A.length - 2
        · have e : min (i + 1) (H.A.length - 2) = i := by omega
          rw [e] at ht
          exact PInv.toWL ht (by omega) ctx.hH
        · have e : min (i + 1) (H.A.length - 2) = i + 1 := by omega
          rw [e] at ht
          exact PInv.toWR ht ctx.hH
      have e : min i (H.A.length - 2) = i := by omega
      rw [e]
      exact dmrg2Right_ok ctx hk hm hH ht0 ht1 hw)
    (s1, e1) (by
      have e : min (H.A.length - 1) (H.A.length - 2) = H.A.length - 2 := by omega
      dsimp only
      rw [e]; exact hs1)
  have hs2' : PInv H qd s2 0 := by simpa using hs2
  obtain ⟨s3, h3, hs3, _⟩ := normalizeP ctx hs2'
  refine ⟨(s3, es ++ [e2]), ?_, hs3⟩
  unfold dmrg2Sweep
  rw [bind_ok]
  refine ⟨(s1, e1), h1, ?_⟩
  dsimp only
  rw [bind_ok]
  refine ⟨(s2, e2), h2, ?_⟩
  dsimp only
  rw [bind_ok]
  exact ⟨s3, h3, rfl⟩

/-- **`calculate_ground_state_local_twosite` returns**, every tolerance `0 ≤ tol < 1`, every `L ≥ 1` -/
theorem dmrg2_ok {ψ : MPS 𝕜} (ctx : SweepCtx k H ψ.qd numiter) (hk : Compress.SvdKernel k.svd) (hm : 1 ≤ numiter)
    (hH : HistWf.HOk H ψ.qd) (hlast : (H.qD.getD H.A.length []).getD 0 0 = 0) (hadm : Admissible ψ)
    (hlen : H.A.length = ψ.A.length) (ht0 : 0 ≤ tol) (ht1 : tol < 1) (numsweeps : Nat) :
    ∃ ψ' en, dmrgTwosite k H ψ numsweeps numiter tol = .ok (ψ', en) := by
  obtain ⟨s0, nrm, E0, hp, hinv0⟩ := prologue_ok ctx hH hlast hadm hlen
  obtain ⟨⟨s, en⟩, hit, _⟩ := iterate_ok (dmrg2Sweep k H ψ.qd numiter tol)
    (fun (t : Sweep 𝕜 × List ℝ) => PInv H ψ.qd t.1 0)
    (fun t ht => by
      obtain ⟨t1, t2⟩ := t
      exact dmrg2Sweep_ok ctx hk hm hH ht0 ht1 ht) numsweeps (s0, []) (hinv0.toP ctx)
  refine ⟨toMPS ψ s, en, ?_⟩
  unfold dmrgTwosite
  rw [bind_ok]
  refine ⟨(s0, nrm), hp, ?_⟩
  dsimp only
  rw [bind_ok]
  exact ⟨(s, en), hit, rfl⟩

end Ptn.Evo

import PtnModel.Proofs.OrthoSweep
/-!
# The trailing factor of the sweep is real

`RealDiag dqr` (the in-range diagonal entries of the dense `R` factor are real — the fact behind
`nrm = T[0, 0, 0].real` in `orthonormalize`) implies that the `(0,0)` entry of the block-QR factor `R` of a
single-column matrix is real (`qr_R00_real`).
-/
set_option linter.unusedSectionVars false
namespace Ptn.Ortho
open Ptn.BondOps Finset Ptn.Env
variable {𝕜 : Type} [CommRing 𝕜] [DecidableEq 𝕜] [StarRing 𝕜]
variable {dqr : Mat 𝕜 → Mat 𝕜 × Mat 𝕜}

/-- the in-range diagonal entries of the `R` factor returned by the dense kernel are real -/
def RealDiag (dqr : Mat 𝕜 → Mat 𝕜 × Mat 𝕜) : Prop :=
  ∀ (B : Mat 𝕜) (p : Nat), p < (dqr B).2.m → p < (dqr B).2.n → star ((dqr B).2.f p p) = (dqr B).2.f p p

theorem intersect_single (q0 : List Int) (c : Int) : intersect1d q0 [c] = [] ∨ intersect1d q0 [c] = [c] := by
  have hp := pairwise_intersect1d q0 [c]
  have hm : ∀ x ∈ intersect1d q0 [c], x = c := fun x hx => by
    have := (mem_intersect1d.1 hx).2
    simpa using this
  cases h : intersect1d q0 [c] with
  | nil => exact Or.inl rfl
  | cons x l =>
    right
    rw [h] at hp hm
    have hx := hm x (by simp)
    subst hx
    cases l with
    | nil => rfl
    | cons y l =>
      have hy := hm y (by simp)
      subst hy
      have := (List.pairwise_cons.1 hp).1 y (by simp)
      omega

theorem stableArgsort_single (c : Int) : stableArgsort [c] = [0] := rfl

/-- for a single column the `(0,0)` entry of the block-QR factor `R` is real -/
theorem qr_R00_real (hreal : RealDiag dqr) {A : Mat 𝕜} {q0 : List Int} {c : Int} {Q R : Mat 𝕜} {qi : List Int}
    (H : QRInput A q0 [c]) (hrun : qr dqr A q0 [c] = .ok (Q, R, qi)) : star (R.f 0 0) = R.f 0 0 := by
  have hsp := (isSparseMat_iff A q0 [c]).2 H.hsp
  have hn : A.n = 1 := by simpa using H.hq1.symm
  rcases intersect_single q0 c with he | he
  · obtain ⟨Q', R', hrun', -, -, -, -, -, -, hR, -⟩ := C11.disjoint dqr H.hq0 H.hq1 H.hm H.hn H.hsp he
    rw [hrun] at hrun'
    injection hrun' with h
    injection h with _ h
    injection h with h _
    subst h
    rw [hR 0 0, star_zero]
  · rw [qr_eq dqr A q0 [c] H.hq0 H.hq1 hsp (by rw [he]; rfl)] at hrun
    split at hrun
    · injection hrun with h
      injection h with _ h
      injection h with h _
      subst h
      obtain ⟨o1, o2, o3⟩ := outR_spec dqr A q0 [c] H.hq0 H.hq1
      by_cases hD : 0 < (loopState dqr A q0 [c]).D
      · rw [o3 0 0 hD (by rw [hn]; exact Nat.one_pos)]
        have e0 : (invPerm (stableArgsort [c])).getD 0 0 = 0 := rfl
        rw [e0]
        have hl : loopState dqr A q0 [c] =
            qrStep dqr (srt A q0 [c]).2.2 (srt A q0 [c]).1 (srt A q0 [c]).2.1
              ⟨0, Mat.zero (srt A q0 [c]).2.2.m (min (srt A q0 [c]).2.2.m (srt A q0 [c]).2.2.n),
                Mat.zero (min (srt A q0 [c]).2.2.m (srt A q0 [c]).2.2.n) (srt A q0 [c]).2.2.n, []⟩ c := by
          unfold loopState
          rw [he]
          rfl
        rw [hl, qrStep_eq]
        simp only [Mat.setBlock_f, Mat.zero_f]
        split
        · rename_i hc
          have hq1s : (srt A q0 [c]).2.1 = [c] := by
            rw [(srt_spec A q0 [c] H.hq0 H.hq1).2.1]; rfl
          have hf : firstIdx (srt A q0 [c]).2.1 c = 0 := by
            rw [hq1s]; simp [firstIdx]
          rw [hf] at hc ⊢
          exact hreal _ 0 (by omega) (by omega)
        · exact star_zero _
      · -- out-of-range entry of a tabulated matrix
        have : (outR dqr A q0 [c]).f 0 0 = 0 := by
          unfold outR
          have e1 : isIdPerm (stableArgsort [c]) = true := rfl
          simp only [e1, Bool.not_true, Bool.false_eq_true, if_false]
          apply Mat.tab_f_of_not
          simp only [Mat.slice_m]
          omega
        rw [this, star_zero]
    · cases hrun

/-- the trailing factor of the last local step is real -/
theorem LocalLeft.real {A X A' T : T3 𝕜} {qd qL qR qb : List Int} (h : LocalLeft dqr A X qd qL qR A' T qb)
    (hshape : ∀ B, ShapeAt dqr B) (hreal : RealDiag dqr) (hX : IsOne X)
    (hA : T3Wf A qd qL qR) (hd : 0 < qd.length) (hL : 0 < qL.length) (hR : 0 < qR.length) :
    star (T.f 0 0 0) = T.f 0 0 0 := by
  have hdims := h.dims hshape hA hd hL hR
  obtain ⟨Q, R, hrun, hRn, hA', hN'⟩ := h
  have H := qrInput_flattenLeft hA hd hL hR
  have hres := result_of_run (fun B _ => hshape B) H hrun
  have hn1 : R.n = 1 := hRn.trans hX.2.1
  have hqR : qR.length = 1 := by rw [← hA.d2]; exact hres.Rn.symm.trans hn1
  obtain ⟨c, rfl⟩ := List.length_eq_one_iff.1 hqR
  have e : T.f 0 0 0 = R.f 0 0 := by
    rw [hN'.f 0 0 0 (by rw [hdims.d0, hX.1]; exact Nat.one_pos) (by rw [hdims.d1]; exact hdims.pos)
      (by rw [hdims.d2, hX.2.2.1]; exact Nat.one_pos)]
    show ∑ b ∈ range R.n, R.f 0 b * X.f 0 b 0 = _
    rw [hn1, Finset.sum_range_one, hX.2.2.2, mul_one]
  rw [e]
  exact qr_R00_real hreal H hrun

/-- the trailing factor of the sweep is real -/
theorem SweepLeft.real {qd : List Int} {A : T3 𝕜} {qL : List Int} {rest : List (T3 𝕜)} {qRs : List (List Int)}
    {As : List (T3 𝕜)} {qs : List (List Int)} {T : T3 𝕜}
    (h : SweepLeft dqr qd A qL rest qRs As qs T) (hshape : ∀ B, ShapeAt dqr B) (hreal : RealDiag dqr)
    (hd : 0 < qd.length) (hL : 0 < qL.length) (hw : WfChain qd qL (A :: rest) qRs) :
    star (T.f 0 0 0) = T.f 0 0 0 := by
  induction h with
  | @last A X qL qR A' T qb hX hloc =>
    simp only [wfChain_cons, wfChain_nil, and_true] at hw
    exact hloc.real hshape hreal hX hw.1 hd hL hw.2
  | @cons A Anext qL qR rest qRest A' Anext' qb As qs T hloc hsw ih =>
    cases qRest with
    | nil => simp at hw
    | cons qR' qRest =>
      simp only [wfChain_cons] at hw
      obtain ⟨hA, hR, hN, hR', hrest⟩ := hw
      have hdims := hloc.dims hshape hA hd hL hR
      have hN' := hloc.wfNext hshape hA hd hL hR hN
      exact ih hdims.pos (by simp only [wfChain_cons]; exact ⟨hN', hR', hrest⟩)

end Ptn.Ortho

import PtnModel.Proofs.SpinExplDefs
/-!
# Explicit spin-orbital molecular graph, part 1: `generate_graph`'s edge loops as a list of edge specifications

`swire_emits`: the twelve edge loops of `SpinNodes.wire` are the `add_connect_edge` calls for the edges `swireGen …` in this order
with consecutive edge ids (every table look-up is defined, every assertion inside the loops holds).  Spin analogue of `wire_emits`
(`ExplProg`); the `Emits` calculus of that file is reused.  The program is cut in two pieces (loops 1 to 7, loops 8 to 12 =
`SpinNodes.sxpWireR`) to keep each proof short.
-/
set_option linter.unusedSectionVars false
set_option linter.unusedSimpArgs false
set_option linter.unusedVariables false
set_option linter.unusedTactic false
set_option linter.unreachableTactic false

namespace Ptn.Ham
open Ptn.Og List

section
variable {κ : Type} [Add κ] [Mul κ] [Neg κ] [OfNat κ 0] [OfNat κ 1] [DecidableEq κ]

/-- the edge loops of `SpinNodes.wire` for the right forest (loops 8 to 12) -/
def SpinNodes.sxpWireR (n : SpinNodes) : GB κ Unit := do
  let L := n.L
  let h := L / 2
  let idR := fun (i : Int) => liftE (κ := κ) (dGet n.identityR i)
  let g2 := fun (f : Fam) (key : List Int) (k : Int) => liftE (κ := κ) (f.get2 key k)
  for (i, s) in prodRS 1 L do
    for j in pyRange 1 i do
      addE (← g2 n.aDagR [i, s] j) (← g2 n.aDagR [i, s] (j + 1)) sZZ 1
    addE (← g2 n.aDagR [i, s] i) (← idR (i + 1)) (pick sCI sZC s) 1
  for (i, s) in prodRS 1 L do
    for j in pyRange 1 i do
      addE (← g2 n.aAnnR [i, s] j) (← g2 n.aAnnR [i, s] (j + 1)) sZZ 1
    addE (← g2 n.aAnnR [i, s] i) (← idR (i + 1)) (pick sAI sZA s) 1
  for (i, s) in prodRS (h + 1) L do
    for (j, t) in prodRS i L do
      if !(pLt (i, s) (j, t)) then continue
      for k in pyRange (h + 1) i do
        addE (← g2 n.aDagADagR [i, s, j, t] k) (← g2 n.aDagADagR [i, s, j, t] (k + 1)) sId 1
      if i < j then
        addE (← g2 n.aDagADagR [i, s, j, t] i) (← g2 n.aDagR [j, t] (i + 1)) (pick sCZ sIC s) 1
      else
        liftE (pyAssert (s == 0 && t == 1))
        addE (← g2 n.aDagADagR [i, s, j, t] i) (← idR (i + 1)) sCC 1
  for (i, s) in prodRS (h + 1) L do
    for (j, t) in prodRS (h + 1) (i + 1) do
      if !(pLt (j, t) (i, s)) then continue
      for k in pyRange (h + 1) j do
        addE (← g2 n.aAnnAAnnR [i, s, j, t] k) (← g2 n.aAnnAAnnR [i, s, j, t] (k + 1)) sId 1
      if i > j then
        addE (← g2 n.aAnnAAnnR [i, s, j, t] j) (← g2 n.aAnnR [i, s] (j + 1)) (pick sAZ sIA t) 1
      else
        liftE (pyAssert (s == 1 && t == 0))
        addE (← g2 n.aAnnAAnnR [i, s, j, t] j) (← idR (j + 1)) sAA 1
  for (i, s) in prodRS (h + 1) L do
    for (j, t) in prodRS (h + 1) L do
      for k in pyRange (h + 1) (min i j) do
        addE (← g2 n.aDagAAnnR [i, s, j, t] k) (← g2 n.aDagAAnnR [i, s, j, t] (k + 1)) sId 1
      if i < j then
        addE (← g2 n.aDagAAnnR [i, s, j, t] i) (← g2 n.aAnnR [j, t] (i + 1)) (pick sCZ sIC s) 1
      else if i == j then
        let oid := if s < t then sCA else if s == t then pick sNI sIN s else sAC
        addE (← g2 n.aDagAAnnR [i, s, j, t] i) (← idR (i + 1)) oid 1
      else
        addE (← g2 n.aDagAAnnR [i, s, j, t] j) (← g2 n.aDagR [i, s] (j + 1)) (pick sAZ sIA t) 1

end

variable {κ : Type} [CommRing κ] [DecidableEq κ]

theorem sxEmits_forIn {ι : Type} (l : List ι) (s : ι → List (ESpec κ)) (body : ι → PUnit → GB κ (ForInStep PUnit))
    (h : ∀ i ∈ l, Emits (s i) (ForInStep.yield PUnit.unit) (body i PUnit.unit)) :
    Emits (l.flatMap s) PUnit.unit (forIn l PUnit.unit body) := by
  induction l with
  | nil => exact Emits.pure _
  | cons i l ih =>
    rw [List.forIn_cons, flatMap_cons]
    exact Emits.bind (h i (mem_cons_self ..)) (ih fun j hj => h j (mem_cons_of_mem _ hj))

theorem sxEmits_forIn_last {ι β : Type} (l : List ι) (s : ι → List (ESpec κ)) (body : ι → PUnit → GB κ (ForInStep PUnit)) (b : β)
    (h : ∀ i ∈ l, Emits (s i) (ForInStep.yield PUnit.unit) (body i PUnit.unit)) :
    Emits (l.flatMap s) b (ForIn.forIn l PUnit.unit body >>= fun _ => Pure.pure b) := by
  have := Emits.bind (f := fun _ => Pure.pure b) (sxEmits_forIn l s body h) (Emits.pure (κ := κ) b)
  simpa using this

theorem sxEmits_forIn_then {ι β : Type} (l : List ι) (s : ι → List (ESpec κ)) (body : ι → PUnit → GB κ (ForInStep PUnit)) (b : β)
    (s2 : List (ESpec κ)) (rest : GB κ β)
    (h : ∀ i ∈ l, Emits (s i) (ForInStep.yield PUnit.unit) (body i PUnit.unit)) (h2 : Emits s2 b rest) :
    Emits (l.flatMap s ++ s2) b (ForIn.forIn l PUnit.unit body >>= fun _ => rest) :=
  Emits.bind (sxEmits_forIn l s body h) h2

theorem sxEmits_edge {β : Type} (L : Int) (T : STab L) (l1 l2 : Lab) (o : Int) (c : κ) (s : List (ESpec κ)) (r : β) (rest : GB κ β)
    (h1 : sLabOk L l1) (h2 : sLabOk L l2) (hr : Emits s r rest) :
    Emits (((SpinNodes.init L).nidOf l1, (SpinNodes.init L).nidOf l2, o, c) :: s) r
      (liftE ((SpinNodes.init L).look l1) >>= fun a => liftE ((SpinNodes.init L).look l2) >>= fun b =>
        Ham.addE a b o c >>= fun _ => rest) :=
  Emits.lift (T.look l1 h1) (Emits.lift (T.look l2 h2)
    (Emits.bind (s1 := [_]) (Emits.addE _ _ o c) hr))

theorem sxEmits_edge_last {β : Type} (L : Int) (T : STab L) (l1 l2 : Lab) (o : Int) (c : κ) (r : β)
    (h1 : sLabOk L l1) (h2 : sLabOk L l2) :
    Emits [((SpinNodes.init L).nidOf l1, (SpinNodes.init L).nidOf l2, o, c)] r
      (liftE ((SpinNodes.init L).look l1) >>= fun a => liftE ((SpinNodes.init L).look l2) >>= fun b =>
        Ham.addE a b o c >>= fun _ => Pure.pure r) :=
  sxEmits_edge L T l1 l2 o c [] r _ h1 h2 (Emits.pure r)

theorem sxp_diagOid_eq (s t : Int) :
    (if s < t then sCA else if (s == t) = true then pick sNI sIN s else sAC) = diagOid s t := by
  simp only [diagOid, beq_iff_eq]

/-- (also generates the equation lemmas of `sLabOk` once, outside the long proofs) -/
theorem sxp_sLabOk_idL (L k : Int) : sLabOk L (10, [], k) ↔ (0 ≤ k ∧ k < L) := by simp only [sLabOk]

theorem sxp_init_L (L : Int) : (SpinNodes.init L).L = L := rfl

/-- discharge the range conditions of a label from the loop hypotheses -/
macro "sxp_lab_ok" : tactic =>
  `(tactic| (try simp only [mem_pyRange, mem_prodRS, pLt_iff, sxp_init_L] at *
             simp only [sLabOk]; omega))

theorem sxp_assert {b : Bool} (h : b = true) : pyAssert b = .ok () := by subst h; rfl

/-- the assertion `s == a && t == b` in the equal-site branches -/
macro "sxp_assert_ok" : tactic =>
  `(tactic| (refine Emits.lift (a := ()) (sxp_assert ?_) ?_
             · simp only [mem_prodRS, pLt_iff] at *
               simp only [Bool.and_eq_true, beq_iff_eq]; omega))

macro "sxp_last" T:term : tactic => `(tactic| (apply sxEmits_edge_last _ $T <;> sxp_lab_ok))
macro "sxp_then" T:term : tactic => `(tactic| (apply sxEmits_edge _ $T <;> first | sxp_lab_ok | skip))

/-- the edges of the right forest, loops 8 to 12 -/
def sxpWireGenR {α : Type} (mk : Lab → Lab → Int → α) (L : Int) : List α :=
  sseg8 mk L ++ (sseg9 mk L ++ (sseg10 mk L ++ (sseg11 mk L ++ sseg12 mk L)))

set_option maxRecDepth 4000 in
theorem sxp_wireR_emits (L : Int) (T : STab L) :
    Emits (κ := κ) (sxpWireGenR (fun a b o => ((SpinNodes.init L).nidOf a, (SpinNodes.init L).nidOf b, o, (1 : κ))) L) ()
      ((SpinNodes.init L).sxpWireR (κ := κ)) := by
  unfold SpinNodes.sxpWireR sxpWireGenR
  unfold sseg8 sseg9 sseg10 sseg11 sseg12
  refine sxEmits_forIn_then _ _ _ _ _ _ ?_ ?_
  · intro p hp
    obtain ⟨i, s⟩ := p
    refine Emits.forIn_then _ _ _ _ _ _ ?_ ?_
    · intro j hj
      sxp_last T
    sxp_last T
  refine sxEmits_forIn_then _ _ _ _ _ _ ?_ ?_
  · intro p hp
    obtain ⟨i, s⟩ := p
    refine Emits.forIn_then _ _ _ _ _ _ ?_ ?_
    · intro j hj
      sxp_last T
    sxp_last T
  refine sxEmits_forIn_then _ _ _ _ _ _ ?_ ?_
  · intro p hp
    obtain ⟨i, s⟩ := p
    refine sxEmits_forIn_last _ _ _ _ ?_
    intro q hq
    obtain ⟨j, t⟩ := q
    cases hlt : pLt (i, s) (j, t)
    · simp only [hlt, Bool.not_false, if_true, Bool.false_eq_true, if_false]
      exact Emits.pure _
    · simp only [hlt, Bool.not_true, if_true, Bool.false_eq_true, if_false]
      refine Emits.forIn_then _ _ _ _ _ _ ?_ ?_
      · intro k hk
        sxp_last T
      by_cases h1 : i < j
      · simp only [h1, if_true]
        sxp_last T
      · simp only [h1, if_false]
        sxp_assert_ok
        sxp_last T
  refine sxEmits_forIn_then _ _ _ _ _ _ ?_ ?_
  · intro p hp
    obtain ⟨i, s⟩ := p
    refine sxEmits_forIn_last _ _ _ _ ?_
    intro q hq
    obtain ⟨j, t⟩ := q
    cases hlt : pLt (j, t) (i, s)
    · simp only [hlt, Bool.not_false, if_true, Bool.false_eq_true, if_false]
      exact Emits.pure _
    · simp only [hlt, Bool.not_true, if_true, Bool.false_eq_true, if_false]
      refine Emits.forIn_then _ _ _ _ _ _ ?_ ?_
      · intro k hk
        sxp_last T
      by_cases h1 : i > j
      · simp only [h1, if_true]
        sxp_last T
      · simp only [h1, if_false]
        sxp_assert_ok
        sxp_last T
  refine sxEmits_forIn_last _ _ _ _ ?_
  intro p hp
  obtain ⟨i, s⟩ := p
  refine sxEmits_forIn_last _ _ _ _ ?_
  intro q hq
  obtain ⟨j, t⟩ := q
  refine Emits.forIn_then _ _ _ _ _ _ ?_ ?_
  · intro k hk
    sxp_last T
  by_cases h1 : i < j
  · simp only [h1, if_true]
    sxp_last T
  · by_cases h2 : i = j
    · subst h2
      simp only [lt_irrefl, beq_self_eq_true, if_true, if_false, sxp_diagOid_eq]
      sxp_last T
    · have h2' : ¬ ((i == j) = true) := by simpa using h2
      simp only [h1, h2, h2', if_false]
      sxp_last T


set_option maxRecDepth 4000 in
theorem swire_emits (L : Int) (T : STab L) :
    Emits (κ := κ) (swireGen (fun a b o => ((SpinNodes.init L).nidOf a, (SpinNodes.init L).nidOf b, o, (1 : κ))) L) ()
      ((SpinNodes.init L).wire (κ := κ)) := by
  unfold SpinNodes.wire swireGen
  unfold sseg1 sseg2 sseg3 sseg4 sseg5 sseg6 sseg7
  refine Emits.forIn_then _ _ _ _ _ _ ?_ ?_
  · intro i hi
    sxp_last T
  refine Emits.forIn_then _ _ _ _ _ _ ?_ ?_
  · intro i hi
    sxp_last T
  refine sxEmits_forIn_then _ _ _ _ _ _ ?_ ?_
  · intro p hp
    obtain ⟨i, s⟩ := p
    sxp_then T
    refine Emits.forIn_last _ _ _ _ ?_
    intro j hj
    sxp_last T
  refine sxEmits_forIn_then _ _ _ _ _ _ ?_ ?_
  · intro p hp
    obtain ⟨i, s⟩ := p
    sxp_then T
    refine Emits.forIn_last _ _ _ _ ?_
    intro j hj
    sxp_last T
  refine sxEmits_forIn_then _ _ _ _ _ _ ?_ ?_
  · intro p hp
    obtain ⟨i, s⟩ := p
    refine sxEmits_forIn_last _ _ _ _ ?_
    intro q hq
    obtain ⟨j, t⟩ := q
    cases hlt : pLt (i, s) (j, t)
    · simp only [hlt, Bool.not_false, if_true, Bool.false_eq_true, if_false]
      exact Emits.pure _
    · simp only [hlt, Bool.not_true, if_true, Bool.false_eq_true, if_false]
      by_cases h1 : i < j
      · simp only [h1, if_true]
        sxp_then T
        refine Emits.forIn_last _ _ _ _ ?_
        intro k hk
        sxp_last T
      · simp only [h1, if_false]
        sxp_assert_ok
        sxp_then T
        refine Emits.forIn_last _ _ _ _ ?_
        intro k hk
        sxp_last T
  refine sxEmits_forIn_then _ _ _ _ _ _ ?_ ?_
  · intro p hp
    obtain ⟨i, s⟩ := p
    refine sxEmits_forIn_last _ _ _ _ ?_
    intro q hq
    obtain ⟨j, t⟩ := q
    cases hlt : pLt (j, t) (i, s)
    · simp only [hlt, Bool.not_false, if_true, Bool.false_eq_true, if_false]
      exact Emits.pure _
    · simp only [hlt, Bool.not_true, if_true, Bool.false_eq_true, if_false]
      by_cases h1 : i > j
      · simp only [h1, if_true]
        sxp_then T
        refine Emits.forIn_last _ _ _ _ ?_
        intro k hk
        sxp_last T
      · simp only [h1, if_false]
        sxp_assert_ok
        sxp_then T
        refine Emits.forIn_last _ _ _ _ ?_
        intro k hk
        sxp_last T
  refine sxEmits_forIn_then _ _ _ _ _ _ ?_ ?_
  · intro p hp
    obtain ⟨i, s⟩ := p
    refine sxEmits_forIn_last _ _ _ _ ?_
    intro q hq
    obtain ⟨j, t⟩ := q
    by_cases h1 : i < j
    · simp only [h1, if_true]
      sxp_then T
      refine Emits.forIn_last _ _ _ _ ?_
      intro k hk
      sxp_last T
    · by_cases h2 : i = j
      · subst h2
        simp only [lt_irrefl, beq_self_eq_true, if_true, if_false, sxp_diagOid_eq]
        sxp_then T
        refine Emits.forIn_last _ _ _ _ ?_
        intro k hk
        sxp_last T
      · have h2' : ¬ ((i == j) = true) := by simpa using h2
        simp only [h1, h2, h2', if_false]
        sxp_then T
        refine Emits.forIn_last _ _ _ _ ?_
        intro k hk
        sxp_last T
  exact sxp_wireR_emits L T

/-! ## the edge list under a map of the edge maker -/

theorem sxp_sseg1_map {α β : Type} (mk : Lab → Lab → Int → α) (f : α → β) (L : Int) :
    (sseg1 mk L).map f = sseg1 (fun a b o => f (mk a b o)) L := by
  simp only [sseg1, map_flatMap, map_cons, map_nil, map_append, apply_ite (List.map f), apply_ite f]

theorem sxp_sseg2_map {α β : Type} (mk : Lab → Lab → Int → α) (f : α → β) (L : Int) :
    (sseg2 mk L).map f = sseg2 (fun a b o => f (mk a b o)) L := by
  simp only [sseg2, map_flatMap, map_cons, map_nil, map_append, apply_ite (List.map f), apply_ite f]

theorem sxp_sseg3_map {α β : Type} (mk : Lab → Lab → Int → α) (f : α → β) (L : Int) :
    (sseg3 mk L).map f = sseg3 (fun a b o => f (mk a b o)) L := by
  simp only [sseg3, map_flatMap, map_cons, map_nil, map_append, apply_ite (List.map f), apply_ite f]

theorem sxp_sseg4_map {α β : Type} (mk : Lab → Lab → Int → α) (f : α → β) (L : Int) :
    (sseg4 mk L).map f = sseg4 (fun a b o => f (mk a b o)) L := by
  simp only [sseg4, map_flatMap, map_cons, map_nil, map_append, apply_ite (List.map f), apply_ite f]

theorem sxp_sseg5_map {α β : Type} (mk : Lab → Lab → Int → α) (f : α → β) (L : Int) :
    (sseg5 mk L).map f = sseg5 (fun a b o => f (mk a b o)) L := by
  simp only [sseg5, map_flatMap, map_cons, map_nil, map_append, apply_ite (List.map f), apply_ite f]

theorem sxp_sseg6_map {α β : Type} (mk : Lab → Lab → Int → α) (f : α → β) (L : Int) :
    (sseg6 mk L).map f = sseg6 (fun a b o => f (mk a b o)) L := by
  simp only [sseg6, map_flatMap, map_cons, map_nil, map_append, apply_ite (List.map f), apply_ite f]

theorem sxp_sseg7_map {α β : Type} (mk : Lab → Lab → Int → α) (f : α → β) (L : Int) :
    (sseg7 mk L).map f = sseg7 (fun a b o => f (mk a b o)) L := by
  simp only [sseg7, map_flatMap, map_cons, map_nil, map_append, apply_ite (List.map f), apply_ite f]

theorem sxp_sseg8_map {α β : Type} (mk : Lab → Lab → Int → α) (f : α → β) (L : Int) :
    (sseg8 mk L).map f = sseg8 (fun a b o => f (mk a b o)) L := by
  simp only [sseg8, map_flatMap, map_cons, map_nil, map_append, apply_ite (List.map f), apply_ite f]

theorem sxp_sseg9_map {α β : Type} (mk : Lab → Lab → Int → α) (f : α → β) (L : Int) :
    (sseg9 mk L).map f = sseg9 (fun a b o => f (mk a b o)) L := by
  simp only [sseg9, map_flatMap, map_cons, map_nil, map_append, apply_ite (List.map f), apply_ite f]

theorem sxp_sseg10_map {α β : Type} (mk : Lab → Lab → Int → α) (f : α → β) (L : Int) :
    (sseg10 mk L).map f = sseg10 (fun a b o => f (mk a b o)) L := by
  simp only [sseg10, map_flatMap, map_cons, map_nil, map_append, apply_ite (List.map f), apply_ite f]

theorem sxp_sseg11_map {α β : Type} (mk : Lab → Lab → Int → α) (f : α → β) (L : Int) :
    (sseg11 mk L).map f = sseg11 (fun a b o => f (mk a b o)) L := by
  simp only [sseg11, map_flatMap, map_cons, map_nil, map_append, apply_ite (List.map f), apply_ite f]

theorem sxp_sseg12_map {α β : Type} (mk : Lab → Lab → Int → α) (f : α → β) (L : Int) :
    (sseg12 mk L).map f = sseg12 (fun a b o => f (mk a b o)) L := by
  simp only [sseg12, map_flatMap, map_cons, map_nil, map_append, apply_ite (List.map f), apply_ite f]

theorem swireGen_map {α β : Type} (mk : Lab → Lab → Int → α) (f : α → β) (L : Int) :
    (swireGen mk L).map f = swireGen (fun a b o => f (mk a b o)) L := by
  simp only [swireGen, map_append, sxp_sseg1_map, sxp_sseg2_map, sxp_sseg3_map, sxp_sseg4_map, sxp_sseg5_map, sxp_sseg6_map,
    sxp_sseg7_map, sxp_sseg8_map, sxp_sseg9_map, sxp_sseg10_map, sxp_sseg11_map, sxp_sseg12_map]

end Ptn.Ham

import PtnModel.Proofs.KryExpMatrix
import PtnModel.Proofs.KryExpExample
/-!
# A full-length Krylov run is an exhausted run

`n` orthonormal vectors of length `n` form a square matrix `V` with `Vᴴ V = 1`, hence `V Vᴴ = 1`
(`Matrix.mul_eq_one_comm`), so a vector orthogonal to all of them vanishes (`eq_zero_of_orth_full`).

* `LFin.res_orth` : the last Lanczos residual `A v_{k-1} - alpha_{k-1} v_{k-1} - beta_{k-2} v_{k-2}` is orthogonal to all
  `k` returned vectors (three-term recurrence + Hermiticity: `LFin.proj`; no linearity needed);
* `LFin.res_zero_of_full` : for `k = n` it vanishes entrywise, `LFin.res_norm_zero_of_full`: its norm is zero;
* `AFin.res_orth`, `AFin.res_zero_of_full`, `AFin.res_norm_zero_of_full` : the same for the last Gram–Schmidt residual of
  the Arnoldi iteration (arbitrary map).
-/
set_option linter.unusedSectionVars false
namespace Ptn.Krylov
open Ptn Finset Matrix

variable {𝕜 : Type} [RCLike 𝕜]
local notation "conj" => starRingEnd 𝕜

/-- **`n` orthonormal vectors of length `n` span everything**: a vector orthogonal to all of them has vanishing entries -/
theorem eq_zero_of_orth_full {n : Nat} (X : Nat → List 𝕜)
    (horth : ∀ a b, a < n → b < n → vdot n (X a) (X b) = if a = b then 1 else 0)
    {r : List 𝕜} (hr : ∀ a, a < n → vdot n (X a) r = 0) : ∀ i, i < n → vget r i = 0 := by
  obtain ⟨V, hV⟩ : ∃ V : Matrix (Fin n) (Fin n) 𝕜, ∀ i c, V i c = vget (X c) i :=
    ⟨Matrix.of fun i c => vget (X c) i, fun _ _ => rfl⟩
  have h1 : Vᴴ * V = 1 := by
    ext a b
    rw [Matrix.mul_apply, Matrix.one_apply]
    have := horth a b a.isLt b.isLt
    rw [vdot_eq_sum, Finset.sum_range] at this
    simp only [Matrix.conjTranspose_apply, hV, RCLike.star_def]
    rw [this]
    simp only [Fin.ext_iff]
  have h2 : V * Vᴴ = 1 := mul_eq_one_comm.1 h1
  obtain ⟨rv, hrv⟩ : ∃ rv : Fin n → 𝕜, ∀ i, rv i = vget r i := ⟨fun i => vget r i, fun _ => rfl⟩
  have h3 : Vᴴ *ᵥ rv = 0 := by
    funext a
    have := hr a a.isLt
    rw [vdot_eq_sum, Finset.sum_range] at this
    simp only [Matrix.mulVec, dotProduct, Matrix.conjTranspose_apply, hV, RCLike.star_def, hrv, Pi.zero_apply]
    exact this
  have h4 : rv = 0 := by
    calc rv = (1 : Matrix (Fin n) (Fin n) 𝕜) *ᵥ rv := (Matrix.one_mulVec rv).symm
      _ = (V * Vᴴ) *ᵥ rv := by rw [h2]
      _ = V *ᵥ (Vᴴ *ᵥ rv) := (Matrix.mulVec_mulVec _ _ _).symm
      _ = 0 := by rw [h3, Matrix.mulVec_zero]
  intro i hi
  rw [← hrv ⟨i, hi⟩, h4]; rfl

section lanczos
variable {n : Nat} {Afun : List 𝕜 → List 𝕜}

/-- the last Lanczos residual is orthogonal to all returned vectors (Hermitian map, no linearity) -/
theorem LFin.res_orth (hA : IsHermitian n Afun) {st : LState 𝕜 ℝ} {k : Nat} (hf : LFin n Afun st k)
    {b : Nat} (hb : b < k) : vdot n (st.vec b) (lzRes Afun n st (k - 1)) = 0 := by
  have hk := hf.kpos
  have hk1 : k - 1 < k := by omega
  unfold lzRes
  rw [vdot_vsub_right]
  have hp := hf.proj hA hb hk1
  have hp' : vdot n (st.vec b) (Afun (st.V.getD (k - 1) [])) = ((tridiag st.alpha st.beta b (k - 1) : ℝ) : 𝕜) := hp
  rw [hp']
  unfold tridiag
  by_cases hj : 0 < k - 1
  · rw [if_pos hj, vdot_vadd_right, vdot_vscale_right, vdot_vscale_right, ofReal_eq, ofReal_eq]
    have o1 := hf.orth b (k - 1) hb hk1
    have o2 := hf.orth b (k - 1 - 1) hb (by omega)
    have o1' : vdot n (st.vec b) (st.V.getD (k - 1) []) = if b = k - 1 then 1 else 0 := o1
    have o2' : vdot n (st.vec b) (st.V.getD (k - 1 - 1) []) = if b = k - 1 - 1 then 1 else 0 := o2
    rw [o1', o2']
    by_cases h1 : b = k - 1
    · rw [if_pos h1, if_pos h1, if_neg (by omega), h1]; simp
    · rw [if_neg h1, if_neg h1]
      by_cases h2 : b + 1 = k - 1
      · have h2' : b = k - 1 - 1 := by omega
        rw [if_pos h2, if_pos h2', h2']; simp
      · rw [if_neg h2, if_neg (by omega), if_neg (by omega)]; simp
  · rw [if_neg hj, vdot_vscale_right, ofReal_eq]
    have hb0 : b = k - 1 := by omega
    have o1 := hf.orth b (k - 1) hb hk1
    have o1' : vdot n (st.vec b) (st.V.getD (k - 1) []) = if b = k - 1 then 1 else 0 := o1
    rw [o1', if_pos hb0, if_pos hb0, hb0]; simp

/-- **a Lanczos run that returned `n` vectors in dimension `n` is exhausted**: the last residual vanishes entrywise -/
theorem LFin.res_zero_of_full (hA : IsHermitian n Afun) {st : LState 𝕜 ℝ} (hf : LFin n Afun st n) :
    ∀ i, i < n → vget (lzRes Afun n st (n - 1)) i = 0 :=
  eq_zero_of_orth_full (fun a => st.vec a) hf.orth (fun _ ha => hf.res_orth hA ha)

theorem length_lzRes (st : LState 𝕜 ℝ) (j : Nat) : (lzRes Afun n st j).length = n := by
  unfold lzRes; exact length_vsub _ _ _

/-- all entries of a list of length `n` whose `vget` vanishes below `n` are zero -/
theorem all_zero_of_vget {x : List 𝕜} (hl : x.length = n) (h : ∀ i, i < n → vget x i = 0) : ∀ z ∈ x, z = 0 := by
  intro z hz
  obtain ⟨i, hi, rfl⟩ := List.getElem_of_mem hz
  have := h i (by omega)
  unfold vget at this
  rwa [List.getD_eq_getElem?_getD, List.getElem?_eq_getElem hi, Option.getD_some] at this

/-- … and the norm oracle returns exactly zero on it -/
theorem LFin.res_norm_zero_of_full {dnorm : List 𝕜 → ℝ} (hN : NormContract dnorm) (hA : IsHermitian n Afun)
    {st : LState 𝕜 ℝ} (hf : LFin n Afun st n) : dnorm (lzRes Afun n st (n - 1)) = 0 :=
  hN.eq_zero_of_entries (all_zero_of_vget (length_lzRes st _) (hf.res_zero_of_full hA))

end lanczos

section arnoldi
variable {n : Nat} {Afun : List 𝕜 → List 𝕜}

/-- the last Gram–Schmidt residual of the Arnoldi run is orthogonal to all returned vectors (arbitrary map) -/
theorem AFin.res_orth {st : AState 𝕜 ℝ} {k : Nat} (hf : AFin n Afun st k) {b : Nat} (hb : b < k) :
    vdot n (st.vec b) (arW Afun n (k - 1) st).1 = 0 := by
  have hk := hf.kpos
  have hvl : st.V.length = k := hf.sized.2.2
  have hrows : st.V.take (k - 1 + 1) = st.V := List.take_of_length_le (by omega)
  have horth : Orthonormal n st.V := by
    intro a c ha hc
    rw [hvl] at ha hc
    exact hf.orth a c ha hc
  have hspec : MgsSpec n st.V (Afun (st.vec (k - 1))) (arW Afun n (k - 1) st) := by
    unfold arW
    rw [hrows]
    exact mgs_spec n st.V _ horth
  exact hspec.orth horth (by rw [hvl]; exact hb)

theorem AFin.length_res {st : AState 𝕜 ℝ} {k : Nat} (hf : AFin n Afun st k) : (arW Afun n (k - 1) st).1.length = n := by
  unfold arW
  apply mgs_length
  intro h0
  have hvl : st.V.length = k := hf.sized.2.2
  have hk := hf.kpos
  have : (st.V.take (k - 1 + 1)).length = k := by rw [List.length_take]; omega
  rw [h0] at this
  simp at this
  omega

/-- **an Arnoldi run that returned `n` vectors in dimension `n` is exhausted** -/
theorem AFin.res_zero_of_full {st : AState 𝕜 ℝ} (hf : AFin n Afun st n) :
    ∀ i, i < n → vget (arW Afun n (n - 1) st).1 i = 0 :=
  eq_zero_of_orth_full (fun a => st.vec a) hf.orth (fun _ ha => hf.res_orth ha)

theorem AFin.res_norm_zero_of_full {dnorm : List 𝕜 → ℝ} (hN : NormContract dnorm) {st : AState 𝕜 ℝ}
    (hf : AFin n Afun st n) : dnorm (arW Afun n (n - 1) st).1 = 0 :=
  hN.eq_zero_of_entries (all_zero_of_vget hf.length_res hf.res_zero_of_full)

/-- the Gram–Schmidt residual computed from the outputs is the residual of the final state -/
theorem arnoldiResidual_eq {st : AState 𝕜 ℝ} {k : Nat} (hf : AFin n Afun st k) :
    C14.arnoldiResidual Afun (colsMat n st.V) (k - 1) = (arW Afun n (k - 1) st).1 := by
  have hvl : st.V.length = k := hf.sized.2.2
  have hk1 := hf.kpos
  have hcol : ∀ c, c < k → matCol (colsMat n st.V) c = st.vec c :=
    fun c hc' => matCol_colsMat st.V c (hf.len c hc')
  unfold C14.arnoldiResidual arW
  rw [hcol (k - 1) (by omega)]
  have : (List.range (k - 1 + 1)).map (matCol (colsMat n st.V)) = st.V.take (k - 1 + 1) := by
    rw [show k - 1 + 1 = k by omega, List.take_of_length_le (by omega)]
    apply List.ext_getElem
    · simp [hvl]
    · intro i h1 h2
      have hi : i < k := by simpa using h1
      simp only [List.getElem_map, List.getElem_range]
      rw [hcol i hi]
      simp [List.getD_eq_getElem?_getD, h2]
  rw [this]; rfl

end arnoldi
end Ptn.Krylov

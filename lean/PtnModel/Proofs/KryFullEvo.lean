import PtnModel.Props.C15Full
import PtnModel.Proofs.EvoExactCalls
import PtnModel.Proofs.Evo2Pair
/-!
# Full-length local Lanczos runs along a single-site TDVP run

The trace predicates `LeftExact` / `RightExact` / `MidExact` / `StepExact` / `RunExact` (`Proofs/EvoRevExact.lean`) ask every
executed Lanczos run to be exhausted (`C15.Exhausted`: the norm oracle returns exactly `0` on the last residual).  Here the
same predicates with `C15.FullRun` in place of `C15.Exhausted` — every executed Lanczos run returned as many vectors as the
dimension of the local problem, a condition that can be read off the outputs of `lanczos_iteration` — are defined
(`LeftFull`, `RightFull`, `MidFull`, `StepFull`, `RunFull`; the other parts — the QR keeps the bond dimension, full rank of the
triangular factor for `inv = true` — are unchanged) and shown to imply the former along every run that starts in canonical
form: the local one-site and zero-site maps met by the run are Hermitian (`canon_local`, `bondHermitian_left`,
`right_move_canon`), so `C15.exhausted_of_full` applies.
-/
set_option linter.unusedSectionVars false

namespace Ptn.Evo
open Ptn Ptn.BondOps Ptn.Ortho Ptn.Env Ptn.Krylov Ptn.Dense Finset

/-! ## changing the trace predicate along a loop, given an invariant -/

theorem foldAll_range_imp {σ : Type} (f : σ → Nat → Except Err σ) (P Q : σ → Nat → Prop) (I : Nat → σ → Prop) :
    ∀ (n : Nat), (∀ i, i < n → ∀ s, I i s → P s i → Q s i) →
      (∀ i, i < n → ∀ s s', I i s → f s i = .ok s' → I (i + 1) s') →
      ∀ s, I 0 s → FoldAll f P (List.range n) s → FoldAll f Q (List.range n) s
  | 0, _, _, _, _, _ => by simp [FoldAll]
  | n + 1, hPQ, hI, s, h0, hall => by
    rw [List.range_succ, foldAll_append] at hall ⊢
    refine ⟨foldAll_range_imp f P Q I n (fun i hi => hPQ i (by omega)) (fun i hi => hI i (by omega)) s h0 hall.1, ?_⟩
    intro s1 hs1
    have hIn : I n s1 := foldIdx_range f I n (fun i hi => hI i (by omega)) s s1 h0 hs1
    have hP := (hall.2 s1 hs1).1
    exact ⟨hPQ n (by omega) s1 hIn hP, fun _ _ => trivial⟩

theorem foldAll_down_imp {σ : Type} (f : σ → Nat → Except Err σ) (P Q : σ → Nat → Prop) (I : Nat → σ → Prop) :
    ∀ (n : Nat), (∀ i, i < n → ∀ s, I (i + 1) s → P s (i + 1) → Q s (i + 1)) →
      (∀ i, i < n → ∀ s s', I (i + 1) s → f s (i + 1) = .ok s' → I i s') →
      ∀ s, I n s → FoldAll f P ((List.range n).reverse.map (· + 1)) s →
        FoldAll f Q ((List.range n).reverse.map (· + 1)) s
  | 0, _, _, _, _, _ => by simp [FoldAll]
  | n + 1, hPQ, hI, s, h0, hall => by
    rw [idxR_succ] at hall ⊢
    refine ⟨hPQ n (by omega) s h0 hall.1, fun s' hs' => ?_⟩
    exact foldAll_down_imp f P Q I n (fun i hi => hPQ i (by omega)) (fun i hi => hI i (by omega)) s'
      (hI n (by omega) s s' h0 hs') (hall.2 s' hs')

theorem iterAll_imp {σ : Type} (f : σ → Except Err σ) (P Q : σ → Prop) (I : σ → Prop)
    (hPQ : ∀ s, I s → P s → Q s) (hI : ∀ s s', I s → f s = .ok s' → I s') :
    ∀ (n : Nat) (s : σ), I s → IterAll f P n s → IterAll f Q n s
  | 0, _, _, _ => trivial
  | n + 1, s, h0, hall => ⟨hPQ s h0 hall.1, fun s' hs' => iterAll_imp f P Q I hPQ hI n s' (hI s s' h0 hs') (hall.2 s' hs')⟩

variable {𝕜 : Type} [RCLike 𝕜] [DecidableEq 𝕜]

/-! ## the predicates -/

/-- **one call `tdvp1Left … s i` with full-length Lanczos runs**: `LeftExact` with `C15.FullRun` (the run returned as many
vectors as the dimension of the local problem) in place of `C15.Exhausted`; the other parts are unchanged -/
def LeftFull (inv : Bool) (k : EvoKernels 𝕜 ℝ) (H : MPO 𝕜) (qd : List Int) (dt : 𝕜) (numiter : Nat) (s : Sweep 𝕜) (i : Nat) : Prop :=
  ∀ A1 Q C qb BLn,
    localHamiltonianStep k (getBL s i) (getBR s i) (H.A.getD i zeroT4) (getA s i) (k.half * dt) numiter = .ok A1 →
    BondOps.qr k.dqr A1.flattenLeft.tab (QN.flatten2 qd (getQ s i)) (getQ s (i + 1)) = .ok (Q, C, qb) →
    Op.opStepLeft (T3.ofFlattenLeft Q A1.d0 A1.d1).tab (T3.ofFlattenLeft Q A1.d0 A1.d1).tab (H.A.getD i zeroT4)
      (getBL s i) = .ok BLn →
    C15.FullRun (localHFun (getBL s i) (getBR s i) (H.A.getD i zeroT4) (getA s i).d0 (getA s i).d1 (getA s i).d2)
      k.cnorm (flat3 (getA s i)) numiter ∧
    C15.FullRun (localBondFun BLn (getBR s i) C.m C.n) k.cnorm (flat2 C) numiter ∧
    qb.length = (getQ s (i + 1)).length ∧ (inv = true → RightInv C qb.length)

/-- **one call `tdvp1Right … s i` with full-length Lanczos runs** -/
def RightFull (inv : Bool) (k : EvoKernels 𝕜 ℝ) (H : MPO 𝕜) (qd : List Int) (dt : 𝕜) (numiter : Nat) (s : Sweep 𝕜) (i : Nat) : Prop :=
  ∀ Q C qb BRn C1,
    BondOps.qr k.dqr (getA s i).swap12.flattenLeft.tab (QN.flatten2 qd (QN.neg (getQ s (i + 1)))) (QN.neg (getQ s i)) =
      .ok (Q, C, qb) →
    Op.opStepRight (T3.ofFlattenLeft Q (getA s i).d0 (getA s i).d2).swap12.tab
      (T3.ofFlattenLeft Q (getA s i).d0 (getA s i).d2).swap12.tab (H.A.getD i zeroT4) (getBR s i) = .ok BRn →
    localBondStep k (getBL s i) BRn C.transpose.tab (-(k.half * dt)) numiter = .ok C1 →
    C15.FullRun (localBondFun (getBL s i) BRn C.transpose.tab.m C.transpose.tab.n) k.cnorm (flat2 C.transpose.tab)
      numiter ∧
    C15.FullRun (localHFun (getBL s (i - 1)) BRn (H.A.getD (i - 1) zeroT4) (pushRight (getA s (i - 1)) C1).d0
      (pushRight (getA s (i - 1)) C1).d1 (pushRight (getA s (i - 1)) C1).d2) k.cnorm
      (flat3 (pushRight (getA s (i - 1)) C1)) numiter ∧
    qb.length = (getQ s i).length ∧ (inv = true → RightInv C qb.length)

/-- the Lanczos run of the full step at the last site is full-length -/
def MidFull (k : EvoKernels 𝕜 ℝ) (H : MPO 𝕜) (numiter : Nat) (s : Sweep 𝕜) (c : Nat) : Prop :=
  C15.FullRun (localHFun (getBL s c) (getBR s c) (H.A.getD c zeroT4) (getA s c).d0 (getA s c).d1 (getA s c).d2)
    k.cnorm (flat3 (getA s c)) numiter

/-- every Lanczos run executed by the time step `tdvp1Step … dt … s` is full-length, every QR keeps its bond dimension
(and, for `inv = true`, has a triangular factor of full rank) -/
def StepFull (inv : Bool) (k : EvoKernels 𝕜 ℝ) (H : MPO 𝕜) (qd : List Int) (dt : 𝕜) (numiter : Nat) (s : Sweep 𝕜) : Prop :=
  FoldAll (tdvp1Left k H qd dt numiter) (LeftFull inv k H qd dt numiter) (List.range (H.A.length - 1)) s ∧
  ∀ s1, foldIdx (tdvp1Left k H qd dt numiter) (List.range (H.A.length - 1)) s = .ok s1 →
    MidFull k H numiter s1 (H.A.length - 1) ∧
    ∀ Al, localHamiltonianStep k (getBL s1 (H.A.length - 1)) (getBR s1 (H.A.length - 1))
        (H.A.getD (H.A.length - 1) zeroT4) (getA s1 (H.A.length - 1)) dt numiter = .ok Al →
      FoldAll (tdvp1Right k H qd dt numiter) (RightFull inv k H qd dt numiter)
        ((List.range (H.A.length - 1)).reverse.map (· + 1))
        (⟨s1.A.setIfInBounds (H.A.length - 1) Al, s1.qD, s1.BL, s1.BR⟩ : Sweep 𝕜)

/-- every Lanczos run executed by `numsteps` time steps from `s` is full-length (and the QR steps are regular) -/
def RunFull (inv : Bool) (k : EvoKernels 𝕜 ℝ) (H : MPO 𝕜) (qd : List Int) (dt : 𝕜) (numiter numsteps : Nat) (s : Sweep 𝕜) : Prop :=
  IterAll (tdvp1Step k H qd dt numiter) (StepFull inv k H qd dt numiter) numsteps s

/-! ## full-length ⟹ exact, at a state in canonical form -/

variable {k : EvoKernels 𝕜 ℝ} {H : MPO 𝕜} {qd : List Int} {numiter : Nat}

theorem midExact_of_full (ctx : SweepCtx k H qd numiter) {s : Sweep 𝕜} {c : Nat} (h : Canon H qd s c)
    (hfull : MidFull k H numiter s c) : MidExact k H numiter s c := by
  obtain ⟨hF0, hH0⟩ := canon_local h ctx.hH ctx.herm
  have hA := isHermitian_localHFun hF0 hH0
  exact C15.exhausted_of_full ctx.norm (by rw [length_flat3]; exact hA) hfull

theorem leftExact_of_full (ctx : SweepCtx k H qd numiter) {inv : Bool} {dt : 𝕜} {s : Sweep 𝕜} {i : Nat}
    (h : Canon H qd s i) (hi1 : i + 1 < H.A.length) (hfull : LeftFull inv k H qd dt numiter s i) :
    LeftExact inv k H qd dt numiter s i := by
  intro A1 Q C qb BLn h1 h2 h3
  obtain ⟨f1, f0, hq, hinv⟩ := hfull A1 Q C qb BLn h1 h2 h3
  obtain ⟨hF0, hH0⟩ := canon_local h ctx.hH ctx.herm
  have hA := isHermitian_localHFun hF0 hH0
  refine ⟨C15.exhausted_of_full ctx.norm (by rw [length_flat3]; exact hA) f1, ?_, hq, hinv⟩
  obtain ⟨a0, a1, a2⟩ := localStep_dims h1
  obtain ⟨s0, s1, s2⟩ := h.wf.shape i (by omega)
  have hm : 0 < A1.flattenLeft.tab.m := by
    show 0 < A1.d0 * A1.d1
    rw [a0, a1, s0, s1]; exact Nat.mul_pos ctx.dpos (h.wf.qpos i (by omega))
  have hn : 0 < A1.flattenLeft.tab.n := by
    show 0 < A1.d2
    rw [a2, s2]; exact h.wf.qpos (i + 1) (by omega)
  have hf := qr_facts ctx.qr.contract hm hn h2
  set Ai : T3 𝕜 := (T3.ofFlattenLeft Q A1.d0 A1.d1).tab with hAi
  have hAi2 : Ai.d2 = qb.length := hf.Qn
  have hCm : C.m = Ai.d2 := hf.Rm.trans hAi2.symm
  have hCn : C.n = A1.d2 := hf.Rn
  have hF' : LocalFits (getBL s i) (getBR s i) (H.A.getD i zeroT4) Ai.d0 Ai.d1 A1.d2 := by
    show LocalFits _ _ _ A1.d0 A1.d1 A1.d2
    rw [a0, a1, a2]; exact hF0
  have hH' : LocalHermitian (getBL s i) (getBR s i) (H.A.getD i zeroT4) Ai.d0 Ai.d1 A1.d2 := by
    show LocalHermitian _ _ _ A1.d0 A1.d1 A1.d2
    rw [a0, a1, a2]; exact hH0
  obtain ⟨hFB, hHB⟩ := bondHermitian_left hF' hH' h3
  have hFB' : BondFits BLn (getBR s i) C.m C.n := by rw [hCm, hCn]; exact hFB
  have hHB' : BondHermitian BLn (getBR s i) C.m C.n := by rw [hCm, hCn]; exact hHB
  have hAb := isHermitian_localBondFun hFB' hHB'
  exact C15.exhausted_of_full ctx.norm (by rw [length_flat2]; exact hAb) f0

theorem rightExact_of_full (ctx : SweepCtx k H qd numiter) {inv : Bool} {dt : 𝕜} {s : Sweep 𝕜} {j : Nat}
    (h : Canon H qd s (j + 1)) (hfull : RightFull inv k H qd dt numiter s (j + 1)) :
    RightExact inv k H qd dt numiter s (j + 1) := by
  intro Q C qb BRn C1 h1 h2 h3
  obtain ⟨f0, f1, hq, hinv⟩ := hfull Q C qb BRn C1 h1 h2 h3
  simp only [Nat.add_sub_cancel] at f1 ⊢
  have hi : j + 1 < H.A.length := h.hc
  have hrm := right_move_canon ctx h h1 h2
  dsimp only at hrm
  obtain ⟨_, _, _, _, _, _, _, _, hFB, hHB, hcanC⟩ := hrm
  obtain ⟨c0, c1⟩ := bondStep_dims h3
  have hcan := hcanC C1 c0 c1
  have hjs : j < s.A.size := by rw [h.wf.sizeA]; omega
  set Ai : T3 𝕜 := (T3.ofFlattenLeft Q (getA s (j + 1)).d0 (getA s (j + 1)).d2).swap12.tab with hAi
  obtain ⟨hFj, hHj⟩ := canon_local hcan ctx.hH ctx.herm
  have gA : getA (⟨(s.A.setIfInBounds (j + 1) Ai).setIfInBounds j (pushRight (getA s j) C1),
      s.qD.setIfInBounds (j + 1) (QN.neg qb), s.BL, s.BR.setIfInBounds j BRn⟩ : Sweep 𝕜) j = pushRight (getA s j) C1 :=
    getD_setIfInBounds_eq _ _ _ (by simpa using hjs)
  have gR : getBR (⟨(s.A.setIfInBounds (j + 1) Ai).setIfInBounds j (pushRight (getA s j) C1),
      s.qD.setIfInBounds (j + 1) (QN.neg qb), s.BL, s.BR.setIfInBounds j BRn⟩ : Sweep 𝕜) j = BRn :=
    getD_setIfInBounds_eq _ _ _ (by rw [h.sizeBR]; omega)
  rw [gA, gR] at hFj hHj
  have hFj' : LocalFits (getBL s j) BRn (H.A.getD j zeroT4) (pushRight (getA s j) C1).d0 (pushRight (getA s j) C1).d1
      (pushRight (getA s j) C1).d2 := hFj
  have hHj' : LocalHermitian (getBL s j) BRn (H.A.getD j zeroT4) (pushRight (getA s j) C1).d0
      (pushRight (getA s j) C1).d1 (pushRight (getA s j) C1).d2 := hHj
  have hAb := isHermitian_localBondFun hFB hHB
  have hAl := isHermitian_localHFun hFj' hHj'
  exact ⟨C15.exhausted_of_full ctx.norm (by rw [length_flat2]; exact hAb) f0,
    C15.exhausted_of_full ctx.norm (by rw [length_flat3]; exact hAl) f1, hq, hinv⟩

/-- **one time step**: full-length Lanczos runs ⟹ exact sub-steps, from a state in canonical form with centre `0` -/
theorem stepExact_of_full (ctx : SweepCtx k H qd numiter) {inv : Bool} {dt : 𝕜} {s : Sweep 𝕜} (h : Canon H qd s 0)
    (hfull : StepFull inv k H qd dt numiter s) : StepExact inv k H qd dt numiter s := by
  obtain ⟨hL, hrest⟩ := hfull
  have hlen : 0 < H.A.length := h.hc
  refine ⟨foldAll_range_imp (tdvp1Left k H qd dt numiter) _ _ (fun i t => Canon H qd t i) (H.A.length - 1)
    (fun i hi t ht hP => leftExact_of_full ctx ht (by omega) hP)
    (fun i hi t t' ht ht' => tdvp1Left_canon ctx ht (by omega) ht') s h hL, ?_⟩
  intro s1 hs1
  obtain ⟨hM, hR⟩ := hrest s1 hs1
  have hleft : Canon H qd s1 (H.A.length - 1) :=
    foldIdx_range (tdvp1Left k H qd dt numiter) (fun i t => Canon H qd t i) (H.A.length - 1)
      (fun i hi t t' ht ht' => tdvp1Left_canon ctx ht (by omega) ht') s s1 h hs1
  refine ⟨midExact_of_full ctx hleft hM, fun Al hAl => ?_⟩
  obtain ⟨hmid, _⟩ := centre_step_canon hleft hAl
  exact foldAll_down_imp (tdvp1Right k H qd dt numiter) _ _ (fun i t => Canon H qd t i) (H.A.length - 1)
    (fun i hi t ht hP => rightExact_of_full ctx ht hP)
    (fun i hi t t' ht ht' => tdvp1Right_canon ctx ht ht') _ hmid (hR Al hAl)

/-- **`numsteps` time steps**: `RunFull ⟹ RunExact` from a state in canonical form with centre `0` -/
theorem runExact_of_full (ctx : SweepCtx k H qd numiter) {inv : Bool} {dt : 𝕜} {n : Nat} {s : Sweep 𝕜}
    (h : Canon H qd s 0) (hfull : RunFull inv k H qd dt numiter n s) : RunExact inv k H qd dt numiter n s :=
  iterAll_imp (tdvp1Step k H qd dt numiter) _ _ (fun t => Canon H qd t 0)
    (fun _ ht hP => stepExact_of_full ctx ht hP) (fun _ _ ht ht' => tdvp1Step_canon ctx ht ht') n s h hfull

end Ptn.Evo

import PtnModel.Proofs.BipBasic
/-!
# C18 helper lemmas, part 2: the Hopcroft–Karp state keeps a valid matching

`MInv g mu mv`: `mu`/`mv` are mutually inverse partial maps and matched pairs are edges.
The BFS never touches `mu`/`mv`; the DFS `dfs` (= `__add_augmenting_path`) re-establishes the
invariant after every augmentation.  The key points of the DFS proof:

* frame: a call at `x` changes `dist`/`mu` only at vertices whose distance label is larger than
  that of `x` (or at `x` itself), so vertices on the recursion stack are never revisited;
* a successful call at `some u` leaves exactly one stale entry, `mv[old partner of u]`, which the
  caller overwrites (`holeMv`).
-/
namespace Ptn.Bip

/-- `mu`/`mv` describe a matching of `g`. -/
structure MInv (g : BGraph) (mu mv : List (Option Nat)) : Prop where
  lenU : mu.length = g.numU
  lenV : mv.length = g.numV
  iff : ∀ u v, mu.getD u none = some v ↔ mv.getD v none = some u
  edge : ∀ u v, mu.getD u none = some v → g.Edge u v

/-- `mv` with the entry of `h` (if any) reset to NIL. -/
def holeMv (mv : List (Option Nat)) : Option Nat → List (Option Nat)
  | none => mv
  | some v => mv.set v none

theorem MInv.init (g : BGraph) : MInv g (HK.init g).mu (HK.init g).mv := by
  refine ⟨by simp [HK.init], by simp [HK.init], ?_, ?_⟩
  · intro u v; simp only [HK.init, getD_replicate_self]; simp
  · intro u v; simp only [HK.init, getD_replicate_self]; simp

/-- Matching a `mv`-free `v` to `u` leaves only the entry of the old partner of `u` stale. -/
theorem MInv.rematch {g : BGraph} {mu mv : List (Option Nat)} {u v : Nat} (hg : g.WF) (h : MInv g mu mv)
    (hv : mv.getD v none = none) (e : g.Edge u v) :
    MInv g (mu.set u (some v)) (holeMv (mv.set v (some u)) (mu.getD u none)) := by
  obtain ⟨hu, hvv⟩ := hg.edge_lt e
  have hlu := h.lenU
  have hlv := h.lenV
  cases hh : mu.getD u none with
  | none =>
    simp only [holeMv]
    refine ⟨by simpa using hlu, by simpa using hlv, ?_, ?_⟩
    · intro u' v'
      have i1 := h.iff u' v'
      have i2 := h.iff u v'
      have i3 := h.iff u' v
      simp only [getD_set_eq]
      split_ifs <;> grind
    · intro u' v'
      have i1 := h.edge u' v'
      simp only [getD_set_eq]
      split_ifs <;> grind
  | some vh =>
    simp only [holeMv]
    have hvh : mv.getD vh none = some u := (h.iff u vh).1 hh
    refine ⟨by simpa using hlu, by simpa using hlv, ?_, ?_⟩
    · intro u' v'
      have i1 := h.iff u' v'
      have i2 := h.iff u v'
      have i3 := h.iff u' v
      have i4 := h.iff u' vh
      simp only [getD_set_eq, List.length_set]
      split_ifs <;> grind
    · intro u' v'
      have i1 := h.edge u' v'
      simp only [getD_set_eq]
      split_ifs <;> grind

/-! ## distance bookkeeping -/

@[simp] theorem dist_some (s : HK) (u : Nat) : s.dist (some u) = s.du.getD u 0 := rfl
@[simp] theorem dist_none (s : HK) : s.dist none = s.dnil := rfl

@[simp] theorem setDist_mu (s : HK) (x : Option Nat) (d : Nat) : (s.setDist x d).mu = s.mu := by
  cases x <;> rfl
@[simp] theorem setDist_mv (s : HK) (x : Option Nat) (d : Nat) : (s.setDist x d).mv = s.mv := by
  cases x <;> rfl
@[simp] theorem setDist_some_dnil (s : HK) (u : Nat) (d : Nat) : (s.setDist (some u) d).dnil = s.dnil := rfl
@[simp] theorem setDist_some_du (s : HK) (u : Nat) (d : Nat) : (s.setDist (some u) d).du = s.du.set u d := rfl
@[simp] theorem setDist_none_du (s : HK) (d : Nat) : (s.setDist none d).du = s.du := rfl
@[simp] theorem setDist_none_dnil (s : HK) (d : Nat) : (s.setDist none d).dnil = d := rfl
@[simp] theorem mateV_eq (s : HK) (v : Nat) : s.mateV v = s.mv.getD v none := rfl

/-! ## the DFS -/

/-- What a finished call `dfs g fuel x s = .ok (s', b)` guarantees. -/
structure DfsPost (g : BGraph) (x : Option Nat) (s s' : HK) (b : Bool) : Prop where
  dnil : s'.dnil = s.dnil
  frame : ∀ w, some w ≠ x → s.dist (some w) ≤ s.dist x →
    s'.dist (some w) = s.dist (some w) ∧ s'.mu.getD w none = s.mu.getD w none
  fail : b = false → s'.mu = s.mu ∧ s'.mv = s.mv
  nil : x = none → s' = s ∧ b = true
  succ : b = true → ∀ u, x = some u → MInv g s'.mu (holeMv s'.mv (s.mu.getD u none))

theorem dfs_spec_aux (g : BGraph) (hg : g.WF) :
    (∀ (fuel : Nat) (x : Option Nat) (s : HK), ∀ s' b, MInv g s.mu s.mv →
        dfs g fuel x s = .ok (s', b) → DfsPost g x s s' b) ∧
    (∀ (fuel u : Nat) (vs : List Nat) (s : HK), ∀ s' b, MInv g s.mu s.mv → (∀ v ∈ vs, g.Edge u v) →
        dfsNeighbours g fuel u vs s = .ok (s', b) → DfsPost g (some u) s s' b) := by
  apply dfs.mutual_induct g
  · -- dfs none
    intro fuel s s' b hinv h
    rw [dfs] at h
    cases h
    exact ⟨rfl, fun _ _ _ => ⟨rfl, rfl⟩, (fun h => by cases h), fun _ => ⟨rfl, rfl⟩, (fun _ u h => by cases h)⟩
  · intro u s s' b hinv h
    rw [dfs] at h; cases h
  · intro fuel u s ih s' b hinv h
    rw [dfs] at h
    exact ih s' b hinv (fun v hv => hv) h
  · -- no neighbours left
    intro fuel u s s' b hinv _ h
    rw [dfsNeighbours] at h
    cases h
    refine ⟨rfl, ?_, fun _ => ⟨by simp, by simp⟩, (fun h => by cases h), (fun h => by cases h)⟩
    intro w hw _
    have : u ≠ w := fun e => hw (by rw [e])
    exact ⟨getD_set_ne _ _ _ this, rfl⟩
  · -- inner error
    intro fuel u v vs s hc e hd _ s' b hinv _ h
    rw [dfsNeighbours] at h
    simp only [hc, if_true, hd] at h
    cases h
  · -- inner success: augment
    intro fuel u v vs s hc s1 hd ih s' b hinv hedge h
    rw [dfsNeighbours] at h
    simp only [hc, if_true, hd] at h
    cases h
    have post := ih s1 true hinv hd
    have huv : g.Edge u v := hedge v (List.mem_cons_self ..)
    refine ⟨post.dnil, ?_, (fun h => by cases h), (fun h => by cases h), ?_⟩
    · intro w hw hle
      have hwu : u ≠ w := fun e => hw (by rw [e])
      have hne : some w ≠ s.mateV v := by
        intro e
        rw [← e] at hc
        simp only [dist_some] at hc hle
        omega
      have hle' : s.dist (some w) ≤ s.dist (s.mateV v) := by
        rw [hc]; exact Nat.le_succ_of_le hle
      obtain ⟨f1, f2⟩ := post.frame w hne hle'
      refine ⟨f1, ?_⟩
      show (s1.mu.set u (some v)).getD w none = _
      rw [getD_set_ne _ _ _ hwu, f2]
    · intro _ u' hu'
      cases hu'
      show MInv g (s1.mu.set u (some v)) (holeMv (s1.mv.set v (some u)) (s.mu.getD u none))
      cases hm : s.mateV v with
      | none =>
        obtain ⟨rfl, _⟩ := post.nil hm
        exact hinv.rematch hg (by simpa using hm) huv
      | some u1 =>
        have hmu1 : s.mu.getD u1 none = some v := (hinv.iff u1 v).2 (by simpa using hm)
        have hs1 := post.succ rfl u1 hm
        rw [hmu1] at hs1
        simp only [holeMv] at hs1
        have hne : some u ≠ s.mateV v := by
          intro e
          rw [← e] at hc
          simp only [dist_some] at hc
          omega
        have hle' : s.dist (some u) ≤ s.dist (s.mateV v) := by
          rw [hc]; exact Nat.le_succ _
        obtain ⟨_, f2⟩ := post.frame u hne hle'
        have hv0 : (s1.mv.set v none).getD v none = none := by
          rw [getD_set_eq]; split_ifs <;> simp_all
        have := hs1.rematch hg hv0 huv
        rw [List.set_set, f2] at this
        exact this
  · -- inner failure: continue
    intro fuel u v vs s hc s1 hd ih1 ih2 s' b hinv hedge h
    rw [dfsNeighbours] at h
    simp only [hc, if_true, hd] at h
    have post := ih1 s1 false hinv hd
    obtain ⟨e1, e2⟩ := post.fail rfl
    have hinv1 : MInv g s1.mu s1.mv := by rw [e1, e2]; exact hinv
    have post2 := ih2 s' b hinv1 (fun v' hv' => hedge v' (List.mem_cons_of_mem _ hv')) h
    have hneu : some u ≠ s.mateV v := by
      intro e
      rw [← e] at hc
      simp only [dist_some] at hc
      omega
    have hleu : s.dist (some u) ≤ s.dist (s.mateV v) := by
      rw [hc]; exact Nat.le_succ _
    obtain ⟨fu1, fu2⟩ := post.frame u hneu hleu
    refine ⟨post2.dnil.trans post.dnil, ?_, ?_, (fun h => by cases h), ?_⟩
    · intro w hw hle
      have hne : some w ≠ s.mateV v := by
        intro e
        rw [← e] at hc
        simp only [dist_some] at hc hle
        omega
      have hle' : s.dist (some w) ≤ s.dist (s.mateV v) := by
        rw [hc]; exact Nat.le_succ_of_le hle
      obtain ⟨f1, f2⟩ := post.frame w hne hle'
      obtain ⟨g1, g2⟩ := post2.frame w hw (by rw [f1, fu1]; exact hle)
      exact ⟨g1.trans f1, g2.trans f2⟩
    · intro hb
      obtain ⟨g1, g2⟩ := post2.fail hb
      exact ⟨g1.trans e1, g2.trans e2⟩
    · intro hb u' hu'
      cases hu'
      have := post2.succ hb u rfl
      rw [fu2] at this
      exact this
  · -- label mismatch: continue
    intro fuel u v vs s hc ih s' b hinv hedge h
    rw [dfsNeighbours] at h
    simp only [hc, if_false] at h
    exact ih s' b hinv (fun v' hv' => hedge v' (List.mem_cons_of_mem _ hv')) h

theorem dfs_spec {g : BGraph} (hg : g.WF) {fuel : Nat} {x : Option Nat} {s s' : HK} {b : Bool}
    (hinv : MInv g s.mu s.mv) (h : dfs g fuel x s = .ok (s', b)) : DfsPost g x s s' b :=
  (dfs_spec_aux g hg).1 fuel x s s' b hinv h

/-- A top-level call of the DFS at a free vertex keeps the matching invariant. -/
theorem dfs_top_inv {g : BGraph} (hg : g.WF) {fuel u : Nat} {s s' : HK} {b : Bool}
    (hinv : MInv g s.mu s.mv) (hfree : s.mu.getD u none = none)
    (h : dfs g fuel (some u) s = .ok (s', b)) : MInv g s'.mu s'.mv := by
  have post := dfs_spec hg hinv h
  cases b with
  | false => obtain ⟨e1, e2⟩ := post.fail rfl; rw [e1, e2]; exact hinv
  | true =>
    have := post.succ rfl u rfl
    rw [hfree] at this
    exact this

theorem augmentAll_inv {g : BGraph} (hg : g.WF) : ∀ (us : List Nat) {s s' : HK},
    MInv g s.mu s.mv → augmentAll g us s = .ok s' → MInv g s'.mu s'.mv := by
  intro us
  induction us with
  | nil => intro s s' hinv h; rw [augmentAll] at h; cases h; exact hinv
  | cons u us ih =>
    intro s s' hinv h
    rw [augmentAll] at h
    split at h
    · rename_i hfree
      split at h
      · cases h
      · rename_i s1 b hd
        have hfree' : s.mu.getD u none = none := by
          cases hh : s.mu.getD u none with
          | none => rfl
          | some v => rw [hh] at hfree; cases hfree
        exact ih (dfs_top_inv hg hinv hfree' hd) h
    · exact ih hinv h

/-! ## the BFS does not touch the matching -/

theorem bfsNeighbours_mu (g : BGraph) (u : Nat) : ∀ (vs : List Nat) (s : HK) (q : List (Option Nat)),
    (bfsNeighbours g u vs s q).1.mu = s.mu ∧ (bfsNeighbours g u vs s q).1.mv = s.mv := by
  intro vs
  induction vs with
  | nil => intro s q; exact ⟨rfl, rfl⟩
  | cons v vs ih =>
    intro s q
    rw [bfsNeighbours]
    split
    · obtain ⟨h1, h2⟩ := ih (s.setDist (s.mateV v) (s.dist (some u) + 1)) (q ++ [s.mateV v])
      rw [h1, h2]; simp
    · exact ih s q

theorem bfsLoop_nil (g : BGraph) (fuel : Nat) (s : HK) : bfsLoop g fuel s [] = .ok s := by
  rw [bfsLoop.eq_def]

theorem bfsLoop_zero_cons (g : BGraph) (s : HK) (x : Option Nat) (q : List (Option Nat)) :
    bfsLoop g 0 s (x :: q) = .error .fuel := by
  rw [bfsLoop.eq_def]

theorem bfsLoop_succ_some (g : BGraph) (fuel : Nat) (s : HK) (u : Nat) (q : List (Option Nat)) :
    bfsLoop g (fuel + 1) s (some u :: q) =
      if s.dist (some u) < s.dnil then
        bfsLoop g fuel (bfsNeighbours g u (g.adjU.getD u []) s q).1 (bfsNeighbours g u (g.adjU.getD u []) s q).2
      else bfsLoop g fuel s q := by
  rw [bfsLoop.eq_def]

theorem bfsLoop_succ_none (g : BGraph) (fuel : Nat) (s : HK) (q : List (Option Nat)) :
    bfsLoop g (fuel + 1) s (none :: q) = bfsLoop g fuel s q := by
  rw [bfsLoop.eq_def]
  simp

theorem bfsLoop_mu (g : BGraph) : ∀ (fuel : Nat) (s : HK) (q : List (Option Nat)) (s' : HK),
    bfsLoop g fuel s q = .ok s' → s'.mu = s.mu ∧ s'.mv = s.mv := by
  intro fuel
  induction fuel with
  | zero =>
    intro s q s' h
    cases q with
    | nil => rw [bfsLoop_nil] at h; cases h; exact ⟨rfl, rfl⟩
    | cons x q => rw [bfsLoop_zero_cons] at h; cases h
  | succ fuel ih =>
    intro s q s' h
    cases q with
    | nil => rw [bfsLoop_nil] at h; cases h; exact ⟨rfl, rfl⟩
    | cons x q =>
      cases x with
      | none => rw [bfsLoop_succ_none] at h; exact ih _ _ _ h
      | some u =>
        rw [bfsLoop_succ_some] at h
        split at h
        · obtain ⟨h1, h2⟩ := ih _ _ _ h
          obtain ⟨k1, k2⟩ := bfsNeighbours_mu g u (g.adjU.getD u []) s q
          exact ⟨h1.trans k1, h2.trans k2⟩
        · exact ih _ _ _ h

theorem bfsInit_mu (g : BGraph) (s : HK) : (bfsInit g s).1.mu = s.mu ∧ (bfsInit g s).1.mv = s.mv := by
  unfold bfsInit
  exact ⟨rfl, rfl⟩

theorem connectUnmatched_ok {g : BGraph} {s s1 : HK} {b : Bool} (h : connectUnmatched g s = .ok (s1, b)) :
    bfsLoop g (bfsFuel g) (bfsInit g s).1 (bfsInit g s).2 = .ok s1 ∧ b = (s1.dnil != infDist g) := by
  unfold connectUnmatched at h
  cases hb : bfsLoop g (bfsFuel g) (bfsInit g s).1 (bfsInit g s).2 with
  | error e => simp [hb, bind, Except.bind] at h
  | ok s2 =>
    simp [hb, bind, Except.bind, pure, Except.pure] at h
    obtain ⟨rfl, rfl⟩ := h
    exact ⟨rfl, rfl⟩

theorem connectUnmatched_mu {g : BGraph} {s s1 : HK} {b : Bool} (h : connectUnmatched g s = .ok (s1, b)) :
    s1.mu = s.mu ∧ s1.mv = s.mv := by
  obtain ⟨h1, _⟩ := connectUnmatched_ok h
  obtain ⟨a1, a2⟩ := bfsLoop_mu g _ _ _ _ h1
  obtain ⟨b1, b2⟩ := bfsInit_mu g s
  exact ⟨a1.trans b1, a2.trans b2⟩

/-! ## the phase loop -/

/-- The final state of the phase loop carries a valid matching and is the result of a BFS that did
not reach NIL. -/
theorem phaseLoop_spec {g : BGraph} (hg : g.WF) : ∀ (fuel : Nat) {s s' : HK},
    MInv g s.mu s.mv → phaseLoop g fuel s = .ok s' →
    MInv g s'.mu s'.mv ∧ ∃ sp, MInv g sp.mu sp.mv ∧ connectUnmatched g sp = .ok (s', false) := by
  intro fuel
  induction fuel with
  | zero => intro s s' _ h; rw [phaseLoop] at h; cases h
  | succ fuel ih =>
    intro s s' hinv h
    rw [phaseLoop] at h
    split at h
    · cases h
    · rename_i s1 hc
      cases h
      obtain ⟨e1, e2⟩ := connectUnmatched_mu hc
      exact ⟨by rw [e1, e2]; exact hinv, s, hinv, hc⟩
    · rename_i s1 hc
      obtain ⟨e1, e2⟩ := connectUnmatched_mu hc
      have hinv1 : MInv g s1.mu s1.mv := by rw [e1, e2]; exact hinv
      split at h
      · cases h
      · rename_i s2 ha
        exact ih (augmentAll_inv hg _ hinv1 ha) h

theorem hopcroftKarpState_spec {g : BGraph} (hg : g.WF) {s : HK} (h : hopcroftKarpState g = .ok s) :
    MInv g s.mu s.mv ∧ ∃ sp, MInv g sp.mu sp.mv ∧ connectUnmatched g sp = .ok (s, false) :=
  phaseLoop_spec hg _ (MInv.init g) h

theorem hopcroftKarp_ok {g : BGraph} {m : List (Nat × Nat)} (h : hopcroftKarp g = .ok m) :
    ∃ s, hopcroftKarpState g = .ok s ∧ m = matchingOf s := by
  unfold hopcroftKarp at h
  cases hs : hopcroftKarpState g with
  | error e => simp [hs, bind, Except.bind] at h
  | ok s =>
    simp [hs, bind, Except.bind, pure, Except.pure] at h
    exact ⟨s, rfl, h.symm⟩

/-! ## reading off the matching -/

theorem mem_matchingOf {s : HK} {u v : Nat} : (u, v) ∈ matchingOf s ↔ s.mu.getD u none = some v := by
  unfold matchingOf
  rw [List.mem_filterMap]
  constructor
  · rintro ⟨a, _, ha⟩
    cases hh : s.mu.getD a none with
    | none => rw [hh] at ha; cases ha
    | some w => rw [hh] at ha; cases ha; exact hh
  · intro h
    exact ⟨u, List.mem_range.2 (lt_length_of_getD_some h), by rw [h]; rfl⟩

theorem matchingOf_isMatching {g : BGraph} {s : HK} (hinv : MInv g s.mu s.mv) :
    IsMatching g (matchingOf s) := by
  refine ⟨?_, ?_, ?_⟩
  · rintro ⟨u, v⟩ hp
    exact hinv.edge u v (mem_matchingOf.1 hp)
  · unfold matchingOf
    rw [List.map_filterMap]
    apply List.Nodup.filterMap _ List.nodup_range
    intro a a' b hb hb'
    cases h1 : s.mu.getD a none with
    | none => rw [h1] at hb; simp at hb
    | some w =>
      cases h2 : s.mu.getD a' none with
      | none => rw [h2] at hb'; simp at hb'
      | some w' =>
        rw [h1] at hb; rw [h2] at hb'
        simp at hb hb'
        omega
  · unfold matchingOf
    rw [List.map_filterMap]
    apply List.Nodup.filterMap _ List.nodup_range
    intro a a' b hb hb'
    cases h1 : s.mu.getD a none with
    | none => rw [h1] at hb; simp at hb
    | some w =>
      cases h2 : s.mu.getD a' none with
      | none => rw [h2] at hb'; simp at hb'
      | some w' =>
        rw [h1] at hb; rw [h2] at hb'
        simp at hb hb'
        subst hb; subst hb'
        have k1 := (hinv.iff a _).1 h1
        have k2 := (hinv.iff a' _).1 h2
        rw [k1] at k2
        cases k2; rfl

/-- (b) the result of `hopcroftKarp` is a matching of `g`. -/
theorem hopcroftKarp_isMatching {g : BGraph} (hg : g.WF) {m : List (Nat × Nat)}
    (h : hopcroftKarp g = .ok m) : IsMatching g m := by
  obtain ⟨s, hs, rfl⟩ := hopcroftKarp_ok h
  exact matchingOf_isMatching (hopcroftKarpState_spec hg hs).1

end Ptn.Bip

import PtnModel.Proofs.SvdFold
/-!
# Algebraic invariants of the loop of `split_matrix_svd`

Singular values live in an ordered field `ρ` and are embedded into the entry ring `𝕜` by a ring homomorphism
`ι : ρ →+* 𝕜` (`ℝ → ℂ`, `ℝ → ℝ`, `ℚ → ℚ`).

* `SProdInv`  : `u[:, :D] · diag(ι s) · v[:D, :]` equals `As` on the blocks of the processed charges, `0` elsewhere;
* `svd_foldl_*` : all invariants after the whole loop.
-/
set_option linter.unusedSectionVars false

namespace Ptn.BondOps
open Finset

variable {𝕜 : Type} [CommRing 𝕜] [DecidableEq 𝕜]
variable {ρ : Type} [Field ρ] [LinearOrder ρ] [IsStrictOrderedRing ρ]
variable {dsvd : Mat 𝕜 → Mat 𝕜 × List ρ × Mat 𝕜} {As : Mat 𝕜} {q0s q1s : List Int}

/-- product clause of the SVD kernel contract at the matrix `B`: `U · diag(ι s) · Vh = B` -/
def SvdProdAt (ι : ρ →+* 𝕜) (dsvd : Mat 𝕜 → Mat 𝕜 × List ρ × Mat 𝕜) (B : Mat 𝕜) : Prop :=
  ∀ (i j : Nat), i < B.m → j < B.n →
    ∑ p ∈ range (min B.m B.n), (dsvd B).1.f i p * ι ((dsvd B).2.1.getD p 0) * (dsvd B).2.2.f p j = B.f i j

def SvdProdOn (ι : ρ →+* 𝕜) (dsvd : Mat 𝕜 → Mat 𝕜 × List ρ × Mat 𝕜) (As : Mat 𝕜) (q0s q1s : List Int) : Prop :=
  ∀ c, c ∈ q0s → c ∈ q1s → SvdProdAt ι dsvd (blk As q0s q1s c)

/-- non-negativity of the singular values at the matrix `B` -/
def SvdNonnegAt (dsvd : Mat 𝕜 → Mat 𝕜 × List ρ × Mat 𝕜) (B : Mat 𝕜) : Prop := ∀ x ∈ (dsvd B).2.1, 0 ≤ x

theorem svdStep_D (C : SvdCtx dsvd As q0s q1s) (st : SVDState 𝕜 ρ) {c : Int} (h0 : c ∈ q0s) (h1 : c ∈ q1s) :
    (svdStep dsvd As q0s q1s st c).D = st.D + (dsvd (blk As q0s q1s c)).1.n := by
  rw [svdStep_eq, C.len_eq h0 h1]

theorem svd_u_new (C : SvdCtx dsvd As q0s q1s) {P : List Int} {st : SVDState 𝕜 ρ} {c : Int}
    (I : SvdInv As q0s q1s P st) (h0 : c ∈ q0s) (h1 : c ∈ q1s) (i p : Nat)
    (hp : p < (dsvd (blk As q0s q1s c)).1.n) :
    (svdStep dsvd As q0s q1s st c).u.f i (st.D + p) =
      if firstIdx q0s c ≤ i ∧ i < lastIdxSucc q0s c then (dsvd (blk As q0s q1s c)).1.f (i - firstIdx q0s c) p else 0 := by
  have h := congrArg QRState.Q (svdStep_toQr dsvd As q0s q1s st c (C.len_eq h0 h1))
  have := step_Q_new C.toQr I.base h0 h1 i p hp
  rw [← h] at this
  exact this

theorem svd_v_new (C : SvdCtx dsvd As q0s q1s) {P : List Int} {st : SVDState 𝕜 ρ} {c : Int}
    (I : SvdInv As q0s q1s P st) (h0 : c ∈ q0s) (h1 : c ∈ q1s) (p j : Nat)
    (hp : p < (dsvd (blk As q0s q1s c)).1.n) :
    (svdStep dsvd As q0s q1s st c).v.f (st.D + p) j =
      if firstIdx q1s c ≤ j ∧ j < lastIdxSucc q1s c then (dsvd (blk As q0s q1s c)).2.2.f p (j - firstIdx q1s c) else 0 := by
  have h := congrArg QRState.R (svdStep_toQr dsvd As q0s q1s st c (C.len_eq h0 h1))
  have := step_R_new C.toQr I.base h0 h1 p j hp
  rw [← h] at this
  exact this

theorem svd_u_old (st : SVDState 𝕜 ρ) (c : Int) (i p : Nat) (hp : p < st.D) :
    (svdStep dsvd As q0s q1s st c).u.f i p = st.u.f i p := by
  rw [svdStep_eq]
  simp only
  rw [Mat.setBlock_f, if_neg (by omega)]

theorem svd_v_old (st : SVDState 𝕜 ρ) (c : Int) (p j : Nat) (hp : p < st.D) :
    (svdStep dsvd As q0s q1s st c).v.f p j = st.v.f p j := by
  rw [svdStep_eq]
  simp only
  rw [Mat.setBlock_f, if_neg (by omega)]

/-- `u[:, :D] · diag(ι s) · v[:D, :]` is `As` restricted to the blocks of the processed charges `P` -/
def SProdInv (ι : ρ →+* 𝕜) (As : Mat 𝕜) (q0s q1s : List Int) (P : List Int) (st : SVDState 𝕜 ρ) : Prop :=
  ∀ i j, i < As.m → j < As.n →
    ∑ p ∈ range st.D, st.u.f i p * ι (st.s.getD p 0) * st.v.f p j =
      if q0s.getD i 0 ∈ P ∧ q0s.getD i 0 = q1s.getD j 0 then As.f i j else 0

theorem sProdInv_init (ι : ρ →+* 𝕜) (As : Mat 𝕜) (q0s q1s : List Int) (u v : Mat 𝕜) :
    SProdInv ι As q0s q1s [] (⟨0, u, v, [], []⟩ : SVDState 𝕜 ρ) := by
  intro i j _ _
  simp

theorem svd_new_sum (ι : ρ →+* 𝕜) (C : SvdCtx dsvd As q0s q1s) (hprod : SvdProdOn ι dsvd As q0s q1s)
    {P : List Int} {st : SVDState 𝕜 ρ} {c : Int}
    (I : SvdInv As q0s q1s P st) (h0 : c ∈ q0s) (h1 : c ∈ q1s) (i j : Nat) :
    ∑ p ∈ range (dsvd (blk As q0s q1s c)).1.n,
        (svdStep dsvd As q0s q1s st c).u.f i (st.D + p) * ι ((svdStep dsvd As q0s q1s st c).s.getD (st.D + p) 0) *
          (svdStep dsvd As q0s q1s st c).v.f (st.D + p) j =
      if (firstIdx q0s c ≤ i ∧ i < lastIdxSucc q0s c) ∧ (firstIdx q1s c ≤ j ∧ j < lastIdxSucc q1s c)
      then As.f i j else 0 := by
  obtain ⟨a1, a2, b1, b2, hm, hn, s1, s2, s3, s4⟩ := C.toQr.blk_shape h0 h1
  have e : ∀ p ∈ range (dsvd (blk As q0s q1s c)).1.n,
      (svdStep dsvd As q0s q1s st c).u.f i (st.D + p) * ι ((svdStep dsvd As q0s q1s st c).s.getD (st.D + p) 0) *
          (svdStep dsvd As q0s q1s st c).v.f (st.D + p) j =
      (if firstIdx q0s c ≤ i ∧ i < lastIdxSucc q0s c then (dsvd (blk As q0s q1s c)).1.f (i - firstIdx q0s c) p else 0) *
      ι ((dsvd (blk As q0s q1s c)).2.1.getD p 0) *
      (if firstIdx q1s c ≤ j ∧ j < lastIdxSucc q1s c then (dsvd (blk As q0s q1s c)).2.2.f p (j - firstIdx q1s c) else 0) := by
    intro p hp
    have hs : (svdStep dsvd As q0s q1s st c).s.getD (st.D + p) 0 = (dsvd (blk As q0s q1s c)).2.1.getD p 0 := by
      rw [svdStep_s_getD I c, if_neg (by omega), Nat.add_sub_cancel_left]
    rw [hs, svd_u_new C I h0 h1 i p (mem_range.1 hp), svd_v_new C I h0 h1 p j (mem_range.1 hp)]
  rw [sum_congr rfl e]
  by_cases hr : firstIdx q0s c ≤ i ∧ i < lastIdxSucc q0s c
  · by_cases hc : firstIdx q1s c ≤ j ∧ j < lastIdxSucc q1s c
    · simp only [if_pos hr, if_pos hc]
      have hi' : i - firstIdx q0s c < (blk As q0s q1s c).m := by rw [hm]; omega
      have hj' : j - firstIdx q1s c < (blk As q0s q1s c).n := by rw [hn]; omega
      have hU : (dsvd (blk As q0s q1s c)).1.n = min (blk As q0s q1s c).m (blk As q0s q1s c).n := by
        rw [hm, hn]; exact s2
      rw [hU, hprod c h0 h1 _ _ hi' hj', if_pos ⟨hr, hc⟩]
      unfold blk at hi' hj' ⊢
      rw [Mat.tab_f _ (by simpa using hi') (by simpa using hj'), Mat.slice_f,
        Nat.add_sub_of_le hr.1, Nat.add_sub_of_le hc.1]
    · simp only [if_neg hc, mul_zero, sum_const_zero]
      rw [if_neg (fun h => hc h.2)]
  · simp only [if_neg hr, zero_mul, sum_const_zero]
    rw [if_neg (fun h => hr h.1)]

theorem sProdInv_step (ι : ρ →+* 𝕜) (C : SvdCtx dsvd As q0s q1s) (hprod : SvdProdOn ι dsvd As q0s q1s)
    {P : List Int} {st : SVDState 𝕜 ρ} {c : Int}
    (I : SvdInv As q0s q1s P st) (J : SProdInv ι As q0s q1s P st)
    (hP : ∀ c' ∈ P, c' < c) (h0 : c ∈ q0s) (h1 : c ∈ q1s) :
    SProdInv ι As q0s q1s (P ++ [c]) (svdStep dsvd As q0s q1s st c) := by
  intro i j hi hj
  have hcP : c ∉ P := fun h => lt_irrefl c (hP c h)
  rw [svdStep_D C st h0 h1, sum_range_add, svd_new_sum ι C hprod I h0 h1 i j]
  have e : ∑ p ∈ range st.D, (svdStep dsvd As q0s q1s st c).u.f i p *
        ι ((svdStep dsvd As q0s q1s st c).s.getD p 0) * (svdStep dsvd As q0s q1s st c).v.f p j =
      ∑ p ∈ range st.D, st.u.f i p * ι (st.s.getD p 0) * st.v.f p j := by
    apply sum_congr rfl
    intro p hp
    have hs : (svdStep dsvd As q0s q1s st c).s.getD p 0 = st.s.getD p 0 := by
      rw [svdStep_s_getD I c, if_pos (mem_range.1 hp)]
    rw [hs, svd_u_old st c i p (mem_range.1 hp), svd_v_old st c p j (mem_range.1 hp)]
  rw [e, J i j hi hj]
  simp only [block_iff C.hs0 h0 (C.hl0 ▸ hi), block_iff C.hs1 h1 (C.hl1 ▸ hj)]
  generalize q0s.getD i 0 = a
  generalize q1s.getD j 0 = b
  by_cases ha : a = c
  · subst ha
    by_cases hb : b = a
    · subst hb; simp [hcP]
    · simp [hcP, hb, Ne.symm hb]
  · simp [ha]

/-! ### the whole loop -/

section
variable {qis : List Int} (hq : qis.Pairwise (· < ·)) (hmem : ∀ c ∈ qis, c ∈ q0s ∧ c ∈ q1s)
include hq hmem

theorem svdInv_foldl (C : SvdCtx dsvd As q0s q1s) (m' n' m'' n'' : Nat) :
    SvdInv As q0s q1s qis
      (qis.foldl (svdStep dsvd As q0s q1s) (⟨0, Mat.zero m' n', Mat.zero m'' n'', [], []⟩ : SVDState 𝕜 ρ)) := by
  have := foldl_prefix_inv (svdStep dsvd As q0s q1s) (SvdInv As q0s q1s) qis []
    (⟨0, Mat.zero m' n', Mat.zero m'' n'', [], []⟩ : SVDState 𝕜 ρ) ?_ (svdInv_init As q0s q1s m' n' m'' n'')
  · simpa using this
  · intro P' st' c rest' he I
    have he' : qis = P' ++ c :: rest' := by simpa using he
    have hc := hmem c (by rw [he']; simp)
    exact svdInv_step C I (prefix_lt_of_pairwise hq he') hc.1 hc.2

/-- the QR projection of the final SVD state is the final QR state for the kernel `toQr dsvd` -/
theorem svd_foldl_toQr (C : SvdCtx dsvd As q0s q1s) (m' n' m'' n'' : Nat) :
    (qis.foldl (svdStep dsvd As q0s q1s) (⟨0, Mat.zero m' n', Mat.zero m'' n'', [], []⟩ : SVDState 𝕜 ρ)).toQr =
      qis.foldl (qrStep (toQr dsvd) As q0s q1s) ⟨0, Mat.zero m' n', Mat.zero m'' n'', []⟩ := by
  have key : ∀ (l : List Int) (st : SVDState 𝕜 ρ), (∀ c ∈ l, c ∈ q0s ∧ c ∈ q1s) →
      (l.foldl (svdStep dsvd As q0s q1s) st).toQr = l.foldl (qrStep (toQr dsvd) As q0s q1s) st.toQr := by
    intro l
    induction l with
    | nil => intro st _; rfl
    | cons c cs ih =>
      intro st hl
      simp only [List.foldl_cons]
      have hc := hl c (by simp)
      rw [ih _ (fun c' hc' => hl c' (List.mem_cons_of_mem _ hc')),
        svdStep_toQr dsvd As q0s q1s st c (C.len_eq hc.1 hc.2)]
  exact key qis _ hmem

theorem sProdInv_foldl (ι : ρ →+* 𝕜) (C : SvdCtx dsvd As q0s q1s) (hprod : SvdProdOn ι dsvd As q0s q1s)
    (m' n' m'' n'' : Nat) :
    SProdInv ι As q0s q1s qis
      (qis.foldl (svdStep dsvd As q0s q1s) (⟨0, Mat.zero m' n', Mat.zero m'' n'', [], []⟩ : SVDState 𝕜 ρ)) := by
  have := foldl_prefix_inv (svdStep dsvd As q0s q1s)
    (fun P st => SvdInv As q0s q1s P st ∧ SProdInv ι As q0s q1s P st) qis []
    (⟨0, Mat.zero m' n', Mat.zero m'' n'', [], []⟩ : SVDState 𝕜 ρ) ?_
    ⟨svdInv_init As q0s q1s m' n' m'' n'', sProdInv_init ι As q0s q1s _ _⟩
  · simpa using this.2
  · intro P' st' c rest' he I
    have he' : qis = P' ++ c :: rest' := by simpa using he
    have hc := hmem c (by rw [he']; simp)
    have hlt := prefix_lt_of_pairwise hq he'
    exact ⟨svdInv_step C I.1 hlt hc.1 hc.2, sProdInv_step ι C hprod I.1 I.2 hlt hc.1 hc.2⟩

omit hq in
/-- all accumulated singular values are non-negative -/
theorem nonneg_foldl (hnn : ∀ c, c ∈ q0s → c ∈ q1s → SvdNonnegAt dsvd (blk As q0s q1s c)) (m' n' m'' n'' : Nat) :
    ∀ x ∈ (qis.foldl (svdStep dsvd As q0s q1s)
      (⟨0, Mat.zero m' n', Mat.zero m'' n'', [], []⟩ : SVDState 𝕜 ρ)).s, 0 ≤ x := by
  have key : ∀ (l : List Int) (st : SVDState 𝕜 ρ), (∀ c ∈ l, c ∈ q0s ∧ c ∈ q1s) → (∀ x ∈ st.s, 0 ≤ x) →
      ∀ x ∈ (l.foldl (svdStep dsvd As q0s q1s) st).s, 0 ≤ x := by
    intro l
    induction l with
    | nil => intro st _ h; exact h
    | cons c cs ih =>
      intro st hl hst
      simp only [List.foldl_cons]
      apply ih _ (fun c' hc' => hl c' (List.mem_cons_of_mem _ hc'))
      intro x hx
      rw [svdStep_s] at hx
      rcases List.mem_append.1 hx with h | h
      · exact hst x h
      · exact hnn c (hl c (by simp)).1 (hl c (by simp)).2 x h
  exact key qis _ hmem (by intro x hx; exact absurd hx (List.not_mem_nil))

end

/-- the dimensions of `u`, `v` never change -/
theorem svd_foldl_dims (l : List Int) (st : SVDState 𝕜 ρ) :
    (l.foldl (svdStep dsvd As q0s q1s) st).u.m = st.u.m ∧ (l.foldl (svdStep dsvd As q0s q1s) st).v.n = st.v.n := by
  induction l generalizing st with
  | nil => exact ⟨rfl, rfl⟩
  | cons c cs ih =>
    simp only [List.foldl_cons]
    obtain ⟨h1, h2⟩ := ih (svdStep dsvd As q0s q1s st c)
    exact ⟨h1, h2⟩

end Ptn.BondOps

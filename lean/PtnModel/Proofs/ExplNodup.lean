import PtnModel.Proofs.ExplLab
/-!
# Explicit molecular graph, part 8: every node has exactly one wiring edge on its terminal's side

The targets of the left wiring edges enumerate the left node families (without the source), the sources of the right wiring
edges enumerate the right node families (without the sink), each label exactly once.
-/
set_option linter.unusedSectionVars false
set_option linter.unusedSimpArgs false
set_option linter.unusedVariables false

namespace Ptn.Ham
open Ptn.Og List

/-- the labels of a node family, in creation order (tags 10 / 11: the identity chains without the source / the sink) -/
def famLabs (L : Int) : Nat → List Lab
  | 0 => (pyRange 0 (L - 2)).flatMap fun i => (pyRange (i + 1) (L - 1)).map fun k => (0, [i], k)
  | 1 => (pyRange 0 (L - 2)).flatMap fun i => (pyRange (i + 1) (L - 1)).map fun k => (1, [i], k)
  | 2 => (pyRange 0 (L / 2 - 1)).flatMap fun i => (pyRange (i + 1) (L / 2)).flatMap fun j =>
      (pyRange (j + 1) (L / 2 + 1)).map fun k => (2, [i, j], k)
  | 3 => (pyRange 0 (L / 2)).flatMap fun i => (pyRange 0 i).flatMap fun j =>
      (pyRange (i + 1) (L / 2 + 1)).map fun k => (3, [i, j], k)
  | 4 => (pyRange 0 (L / 2)).flatMap fun i => (pyRange 0 (L / 2)).flatMap fun j =>
      (pyRange (max i j + 1) (L / 2 + 1)).map fun k => (4, [i, j], k)
  | 5 => (pyRange 2 L).flatMap fun i => (pyRange 2 (i + 1)).map fun k => (5, [i], k)
  | 6 => (pyRange 2 L).flatMap fun i => (pyRange 2 (i + 1)).map fun k => (6, [i], k)
  | 7 => (pyRange (L / 2 + 1) (L - 1)).flatMap fun i => (pyRange (i + 1) L).flatMap fun j =>
      (pyRange (L / 2 + 1) (i + 1)).map fun k => (7, [i, j], k)
  | 8 => (pyRange (L / 2 + 1) L).flatMap fun i => (pyRange (L / 2 + 1) i).flatMap fun j =>
      (pyRange (L / 2 + 1) (j + 1)).map fun k => (8, [i, j], k)
  | 9 => (pyRange (L / 2 + 1) L).flatMap fun i => (pyRange (L / 2 + 1) L).flatMap fun j =>
      (pyRange (L / 2 + 1) (min i j + 1)).map fun k => (9, [i, j], k)
  | 10 => (pyRange 1 L).map fun k => (10, [], k)
  | 11 => (pyRange 1 L).map fun k => (11, [], k)
  | _ => []

/-! ## lists -/

theorem flatMap_congr' {α β : Type} (l : List α) (f g : α → List β) (h : ∀ a ∈ l, f a = g a) : l.flatMap f = l.flatMap g := by
  induction l with
  | nil => rfl
  | cons a l ih =>
    simp only [flatMap_cons]
    rw [h a (mem_cons_self ..), ih (fun b hb => h b (mem_cons_of_mem _ hb))]

theorem flatMap_single {α β : Type} (l : List α) (f : α → β) : l.flatMap (fun a => [f a]) = l.map f := by
  induction l with
  | nil => rfl
  | cons a l ih => simp [ih]

theorem pyRange_single (b : Int) : pyRange b (b + 1) = [b] := by
  unfold pyRange
  have : (b + 1 - b).toNat = 1 := by omega
  rw [this]
  simp

theorem pyRange_map_succ (a b : Int) : (pyRange a b).map (· + 1) = pyRange (a + 1) (b + 1) := by
  unfold pyRange
  have : (b + 1 - (a + 1)).toNat = (b - a).toNat := by omega
  rw [this, map_map]
  apply map_congr_left
  intro k _
  simp only [Function.comp]
  omega

/-- `f a :: [f (j + 1) for j in range(a, b)]` is `[f k for k in range(a, b + 1)]` -/
theorem klistA {α : Type} (f : Int → α) (a b c : Int) (hab : a ≤ b) (hc : c = b + 1) :
    f a :: (pyRange a b).flatMap (fun j => [f (j + 1)]) = (pyRange a c).map f := by
  subst hc
  rw [flatMap_single, ← pyRange_append a (a + 1) (b + 1) (by omega) (by omega), pyRange_single, ← pyRange_map_succ, map_append,
    map_map]
  rfl

/-- `[f j for j in range(a, b)] + [f b]` is `[f k for k in range(a, b + 1)]` -/
theorem klistB {α : Type} (f : Int → α) (a b c : Int) (hab : a ≤ b) (hc : c = b + 1) :
    (pyRange a b).flatMap (fun j => [f j]) ++ [f b] = (pyRange a c).map f := by
  subst hc
  rw [flatMap_single, ← pyRange_append a b (b + 1) hab (by omega), pyRange_single, map_append]
  rfl

theorem klistS {α : Type} (f : Int → α) (a b : Int) :
    (pyRange a b).flatMap (fun i => [f (i + 1)]) = (pyRange (a + 1) (b + 1)).map f := by
  rw [flatMap_single, ← pyRange_map_succ, map_map]
  rfl

/-! ## projections of the wiring segments -/

def dstOf (_ b : Lab) (_ : Int) : Lab := b
def srcOf (a _ : Lab) (_ : Int) : Lab := a

theorem seg1_dst (L : Int) : seg1 dstOf L = famLabs L 10 := by
  unfold seg1 famLabs dstOf
  have := klistS (fun k => ((10, [], k) : Lab)) 0 (L - 1)
  rw [this]
  congr 2
  omega

theorem seg3_dst (L : Int) : seg3 dstOf L = famLabs L 0 := by
  unfold seg3 famLabs dstOf
  apply flatMap_congr'
  intro i hi
  obtain ⟨h0, h1⟩ := mem_pyRange.1 hi
  exact klistA (fun k => ((0, [i], k) : Lab)) (i + 1) (L - 2) (L - 1) (by omega) (by omega)

theorem seg4_dst (L : Int) : seg4 dstOf L = famLabs L 1 := by
  unfold seg4 famLabs dstOf
  apply flatMap_congr'
  intro i hi
  obtain ⟨h0, h1⟩ := mem_pyRange.1 hi
  exact klistA (fun k => ((1, [i], k) : Lab)) (i + 1) (L - 2) (L - 1) (by omega) (by omega)

theorem seg5_dst (L : Int) : seg5 dstOf L = famLabs L 2 := by
  unfold seg5 famLabs dstOf
  apply flatMap_congr'
  intro i hi
  apply flatMap_congr'
  intro j hj
  obtain ⟨h0, h1⟩ := mem_pyRange.1 hj
  exact klistA (fun k => ((2, [i, j], k) : Lab)) (j + 1) (L / 2) (L / 2 + 1) (by omega) (by omega)

theorem seg6_dst (L : Int) : seg6 dstOf L = famLabs L 3 := by
  unfold seg6 famLabs dstOf
  apply flatMap_congr'
  intro i hi
  obtain ⟨h0, h1⟩ := mem_pyRange.1 hi
  apply flatMap_congr'
  intro j hj
  exact klistA (fun k => ((3, [i, j], k) : Lab)) (i + 1) (L / 2) (L / 2 + 1) (by omega) (by omega)

theorem seg7_dst (L : Int) : seg7 dstOf L = famLabs L 4 := by
  unfold seg7 famLabs dstOf
  apply flatMap_congr'
  intro i hi
  obtain ⟨h0, h1⟩ := mem_pyRange.1 hi
  apply flatMap_congr'
  intro j hj
  obtain ⟨h2, h3⟩ := mem_pyRange.1 hj
  have e : (if i < j then ((4, [i, j], j + 1) : Lab) else if i = j then (4, [i, j], i + 1) else (4, [i, j], i + 1))
      = (4, [i, j], max i j + 1) := by
    split_ifs <;> (congr 2; omega)
  rw [e]
  exact klistA (fun k => ((4, [i, j], k) : Lab)) (max i j + 1) (L / 2) (L / 2 + 1) (by omega) (by omega)

theorem seg2_src (L : Int) : seg2 srcOf L = famLabs L 11 := by
  unfold seg2 famLabs srcOf
  exact flatMap_single _ _

theorem seg8_src (L : Int) : seg8 srcOf L = famLabs L 5 := by
  unfold seg8 famLabs srcOf
  apply flatMap_congr'
  intro i hi
  obtain ⟨h0, h1⟩ := mem_pyRange.1 hi
  exact klistB (fun k => ((5, [i], k) : Lab)) 2 i (i + 1) h0 rfl

theorem seg9_src (L : Int) : seg9 srcOf L = famLabs L 6 := by
  unfold seg9 famLabs srcOf
  apply flatMap_congr'
  intro i hi
  obtain ⟨h0, h1⟩ := mem_pyRange.1 hi
  exact klistB (fun k => ((6, [i], k) : Lab)) 2 i (i + 1) h0 rfl

theorem seg10_src (L : Int) : seg10 srcOf L = famLabs L 7 := by
  unfold seg10 famLabs srcOf
  apply flatMap_congr'
  intro i hi
  obtain ⟨h0, h1⟩ := mem_pyRange.1 hi
  apply flatMap_congr'
  intro j hj
  exact klistB (fun k => ((7, [i, j], k) : Lab)) (L / 2 + 1) i (i + 1) h0 rfl

theorem seg11_src (L : Int) : seg11 srcOf L = famLabs L 8 := by
  unfold seg11 famLabs srcOf
  apply flatMap_congr'
  intro i hi
  apply flatMap_congr'
  intro j hj
  obtain ⟨h0, h1⟩ := mem_pyRange.1 hj
  exact klistB (fun k => ((8, [i, j], k) : Lab)) (L / 2 + 1) j (j + 1) h0 rfl

theorem seg12_src (L : Int) : seg12 srcOf L = famLabs L 9 := by
  unfold seg12 famLabs srcOf
  apply flatMap_congr'
  intro i hi
  obtain ⟨h0, h1⟩ := mem_pyRange.1 hi
  apply flatMap_congr'
  intro j hj
  obtain ⟨h2, h3⟩ := mem_pyRange.1 hj
  have e : (if i < j then ((9, [i, j], i) : Lab) else if i = j then (9, [i, j], i) else (9, [i, j], j))
      = (9, [i, j], min i j) := by
    split_ifs <;> (congr 2; omega)
  rw [e]
  exact klistB (fun k => ((9, [i, j], k) : Lab)) (L / 2 + 1) (min i j) (min i j + 1) (by omega) rfl


/-! ## the family enumerations are duplicate free and complete -/

theorem nodup_flatMap_proj {α : Type} (π : α → Int) (l : List Int) (g : Int → List α) (hl : l.Nodup)
    (hg : ∀ i ∈ l, (g i).Nodup) (hπ : ∀ i ∈ l, ∀ x ∈ g i, π x = i) : (l.flatMap g).Nodup := by
  induction l with
  | nil => simp
  | cons a l ih =>
    obtain ⟨ha, hl'⟩ := nodup_cons.1 hl
    rw [flatMap_cons, nodup_append]
    refine ⟨hg a (mem_cons_self ..), ih hl' (fun i hi => hg i (mem_cons_of_mem _ hi))
      (fun i hi => hπ i (mem_cons_of_mem _ hi)), ?_⟩
    intro x hx y hy hxy
    obtain ⟨i, hi, hyi⟩ := mem_flatMap.1 hy
    have h1 := hπ a (mem_cons_self ..) x hx
    have h2 := hπ i (mem_cons_of_mem _ hi) y hyi
    rw [← hxy, h1] at h2
    exact ha (h2 ▸ hi)

theorem nodup_lab_map (t : Nat) (key : List Int) (l : List Int) (hl : l.Nodup) : (l.map fun k => ((t, key, k) : Lab)).Nodup :=
  hl.map (fun a b h => by injection h with _ h2; injection h2)

theorem mem_lab_map {t : Nat} {key : List Int} {l : List Int} {x : Lab} (h : x ∈ l.map fun k => ((t, key, k) : Lab)) :
    x.1 = t ∧ x.2.1 = key ∧ x.2.2 ∈ l := by
  obtain ⟨k, hk, rfl⟩ := mem_map.1 h
  exact ⟨rfl, rfl, hk⟩

theorem nodup_fam1 (t : Nat) (I : List Int) (K : Int → List Int) (hI : I.Nodup) (hK : ∀ i ∈ I, (K i).Nodup) :
    (I.flatMap fun i => (K i).map fun k => ((t, [i], k) : Lab)).Nodup :=
  nodup_flatMap_proj (fun x => x.2.1.headD 0) I _ hI (fun i hi => nodup_lab_map _ _ _ (hK i hi))
    (fun i _ x hx => by rw [(mem_lab_map hx).2.1]; rfl)

theorem nodup_fam2 (t : Nat) (I : List Int) (J : Int → List Int) (K : Int → Int → List Int) (hI : I.Nodup)
    (hJ : ∀ i ∈ I, (J i).Nodup) (hK : ∀ i ∈ I, ∀ j ∈ J i, (K i j).Nodup) :
    (I.flatMap fun i => (J i).flatMap fun j => (K i j).map fun k => ((t, [i, j], k) : Lab)).Nodup :=
  nodup_flatMap_proj (fun x => x.2.1.headD 0) I _ hI
    (fun i hi => nodup_flatMap_proj (fun x => x.2.1.getD 1 0) (J i) _ (hJ i hi)
      (fun j hj => nodup_lab_map _ _ _ (hK i hi j hj))
      (fun j _ x hx => by rw [(mem_lab_map hx).2.1]; rfl))
    (fun i _ x hx => by
      obtain ⟨j, _, hx⟩ := mem_flatMap.1 hx
      rw [(mem_lab_map hx).2.1]; rfl)

theorem famLabs_nodup (L : Int) (t : Nat) : (famLabs L t).Nodup := by
  unfold famLabs
  split
  · exact nodup_fam1 _ _ _ (pyRange_nodup ..) (fun _ _ => pyRange_nodup ..)
  · exact nodup_fam1 _ _ _ (pyRange_nodup ..) (fun _ _ => pyRange_nodup ..)
  · exact nodup_fam2 _ _ _ _ (pyRange_nodup ..) (fun _ _ => pyRange_nodup ..) (fun _ _ _ _ => pyRange_nodup ..)
  · exact nodup_fam2 _ _ _ _ (pyRange_nodup ..) (fun _ _ => pyRange_nodup ..) (fun _ _ _ _ => pyRange_nodup ..)
  · exact nodup_fam2 _ _ _ _ (pyRange_nodup ..) (fun _ _ => pyRange_nodup ..) (fun _ _ _ _ => pyRange_nodup ..)
  · exact nodup_fam1 _ _ _ (pyRange_nodup ..) (fun _ _ => pyRange_nodup ..)
  · exact nodup_fam1 _ _ _ (pyRange_nodup ..) (fun _ _ => pyRange_nodup ..)
  · exact nodup_fam2 _ _ _ _ (pyRange_nodup ..) (fun _ _ => pyRange_nodup ..) (fun _ _ _ _ => pyRange_nodup ..)
  · exact nodup_fam2 _ _ _ _ (pyRange_nodup ..) (fun _ _ => pyRange_nodup ..) (fun _ _ _ _ => pyRange_nodup ..)
  · exact nodup_fam2 _ _ _ _ (pyRange_nodup ..) (fun _ _ => pyRange_nodup ..) (fun _ _ _ _ => pyRange_nodup ..)
  · exact nodup_lab_map _ _ _ (pyRange_nodup ..)
  · exact nodup_lab_map _ _ _ (pyRange_nodup ..)
  · exact nodup_nil

theorem famLabs_tag (L : Int) (t : Nat) (x : Lab) (h : x ∈ famLabs L t) : x.1 = t := by
  unfold famLabs at h
  split at h
  all_goals first
    | (simp only [mem_flatMap] at h
       first
       | (obtain ⟨_, _, _, _, h⟩ := h; exact (mem_lab_map h).1)
       | (obtain ⟨_, _, h⟩ := h; exact (mem_lab_map h).1))
    | exact (mem_lab_map h).1
    | cases h

/-- targets of the left wiring edges -/
def leftDsts (L : Int) : List Lab :=
  famLabs L 10 ++ (famLabs L 0 ++ (famLabs L 1 ++ (famLabs L 2 ++ (famLabs L 3 ++ famLabs L 4))))
/-- sources of the right wiring edges -/
def rightSrcs (L : Int) : List Lab :=
  famLabs L 11 ++ (famLabs L 5 ++ (famLabs L 6 ++ (famLabs L 7 ++ (famLabs L 8 ++ famLabs L 9))))

def tagIn (T : List Nat) (l : List Lab) : Prop := ∀ y ∈ l, y.1 ∈ T

theorem tagIn_fam (L : Int) (t : Nat) : tagIn [t] (famLabs L t) := fun y hy => by
  rw [famLabs_tag L t y hy]; exact mem_singleton.2 rfl

theorem tagIn_append {T1 T2 : List Nat} {A B : List Lab} (h1 : tagIn T1 A) (h2 : tagIn T2 B) : tagIn (T1 ++ T2) (A ++ B) := by
  intro y hy
  rcases mem_append.1 hy with h | h
  · exact mem_append_left _ (h1 y h)
  · exact mem_append_right _ (h2 y h)

theorem nodup_append_tags (T1 T2 : List Nat) (A B : List Lab) (hA : A.Nodup) (hB : B.Nodup) (h1 : tagIn T1 A) (h2 : tagIn T2 B)
    (hd : ∀ t ∈ T1, t ∉ T2) : (A ++ B).Nodup := by
  rw [nodup_append]
  exact ⟨hA, hB, fun x hx y hy hxy => hd _ (h1 x hx) (hxy ▸ h2 y hy)⟩

theorem leftDsts_nodup (L : Int) : (leftDsts L).Nodup := by
  unfold leftDsts
  have t4 := tagIn_fam L 4
  have t34 := tagIn_append (tagIn_fam L 3) t4
  have t234 := tagIn_append (tagIn_fam L 2) t34
  have t1234 := tagIn_append (tagIn_fam L 1) t234
  have t01234 := tagIn_append (tagIn_fam L 0) t1234
  exact nodup_append_tags _ _ _ _ (famLabs_nodup ..)
    (nodup_append_tags _ _ _ _ (famLabs_nodup ..)
      (nodup_append_tags _ _ _ _ (famLabs_nodup ..)
        (nodup_append_tags _ _ _ _ (famLabs_nodup ..)
          (nodup_append_tags _ _ _ _ (famLabs_nodup ..) (famLabs_nodup ..) (tagIn_fam L 3) t4 (by decide))
          (tagIn_fam L 2) t34 (by decide))
        (tagIn_fam L 1) t234 (by decide))
      (tagIn_fam L 0) t1234 (by decide))
    (tagIn_fam L 10) t01234 (by decide)

theorem rightSrcs_nodup (L : Int) : (rightSrcs L).Nodup := by
  unfold rightSrcs
  have t4 := tagIn_fam L 9
  have t34 := tagIn_append (tagIn_fam L 8) t4
  have t234 := tagIn_append (tagIn_fam L 7) t34
  have t1234 := tagIn_append (tagIn_fam L 6) t234
  have t01234 := tagIn_append (tagIn_fam L 5) t1234
  exact nodup_append_tags _ _ _ _ (famLabs_nodup ..)
    (nodup_append_tags _ _ _ _ (famLabs_nodup ..)
      (nodup_append_tags _ _ _ _ (famLabs_nodup ..)
        (nodup_append_tags _ _ _ _ (famLabs_nodup ..)
          (nodup_append_tags _ _ _ _ (famLabs_nodup ..) (famLabs_nodup ..) (tagIn_fam L 8) t4 (by decide))
          (tagIn_fam L 7) t34 (by decide))
        (tagIn_fam L 6) t234 (by decide))
      (tagIn_fam L 5) t1234 (by decide))
    (tagIn_fam L 11) t01234 (by decide)


theorem seg1_map {α β : Type} (mk : Lab → Lab → Int → α) (f : α → β) (L : Int) :
    (seg1 mk L).map f = seg1 (fun a b o => f (mk a b o)) L := by
  simp only [seg1, map_flatMap, map_cons, map_nil, map_append, apply_ite f]

theorem seg2_map {α β : Type} (mk : Lab → Lab → Int → α) (f : α → β) (L : Int) :
    (seg2 mk L).map f = seg2 (fun a b o => f (mk a b o)) L := by
  simp only [seg2, map_flatMap, map_cons, map_nil, map_append, apply_ite f]

theorem seg3_map {α β : Type} (mk : Lab → Lab → Int → α) (f : α → β) (L : Int) :
    (seg3 mk L).map f = seg3 (fun a b o => f (mk a b o)) L := by
  simp only [seg3, map_flatMap, map_cons, map_nil, map_append, apply_ite f]

theorem seg4_map {α β : Type} (mk : Lab → Lab → Int → α) (f : α → β) (L : Int) :
    (seg4 mk L).map f = seg4 (fun a b o => f (mk a b o)) L := by
  simp only [seg4, map_flatMap, map_cons, map_nil, map_append, apply_ite f]

theorem seg5_map {α β : Type} (mk : Lab → Lab → Int → α) (f : α → β) (L : Int) :
    (seg5 mk L).map f = seg5 (fun a b o => f (mk a b o)) L := by
  simp only [seg5, map_flatMap, map_cons, map_nil, map_append, apply_ite f]

theorem seg6_map {α β : Type} (mk : Lab → Lab → Int → α) (f : α → β) (L : Int) :
    (seg6 mk L).map f = seg6 (fun a b o => f (mk a b o)) L := by
  simp only [seg6, map_flatMap, map_cons, map_nil, map_append, apply_ite f]

theorem seg7_map {α β : Type} (mk : Lab → Lab → Int → α) (f : α → β) (L : Int) :
    (seg7 mk L).map f = seg7 (fun a b o => f (mk a b o)) L := by
  simp only [seg7, map_flatMap, map_cons, map_nil, map_append, apply_ite f]

theorem seg8_map {α β : Type} (mk : Lab → Lab → Int → α) (f : α → β) (L : Int) :
    (seg8 mk L).map f = seg8 (fun a b o => f (mk a b o)) L := by
  simp only [seg8, map_flatMap, map_cons, map_nil, map_append, apply_ite f]

theorem seg9_map {α β : Type} (mk : Lab → Lab → Int → α) (f : α → β) (L : Int) :
    (seg9 mk L).map f = seg9 (fun a b o => f (mk a b o)) L := by
  simp only [seg9, map_flatMap, map_cons, map_nil, map_append, apply_ite f]

theorem seg10_map {α β : Type} (mk : Lab → Lab → Int → α) (f : α → β) (L : Int) :
    (seg10 mk L).map f = seg10 (fun a b o => f (mk a b o)) L := by
  simp only [seg10, map_flatMap, map_cons, map_nil, map_append, apply_ite f]

theorem seg11_map {α β : Type} (mk : Lab → Lab → Int → α) (f : α → β) (L : Int) :
    (seg11 mk L).map f = seg11 (fun a b o => f (mk a b o)) L := by
  simp only [seg11, map_flatMap, map_cons, map_nil, map_append, apply_ite f]

theorem seg12_map {α β : Type} (mk : Lab → Lab → Int → α) (f : α → β) (L : Int) :
    (seg12 mk L).map f = seg12 (fun a b o => f (mk a b o)) L := by
  simp only [seg12, map_flatMap, map_cons, map_nil, map_append, apply_ite f]

theorem filter_all {α : Type} (l : List α) (p : α → Bool) (h : ∀ x ∈ l, p x = true) : l.filter p = l := filter_eq_self.2 h
theorem filter_none {α : Type} (l : List α) (p : α → Bool) (h : ∀ x ∈ l, p x = false) : l.filter p = [] :=
  filter_eq_nil_iff.2 (fun x hx => by rw [h x hx]; simp)

/-- the targets of the wiring edges that end at a left node: every left node other than the source exactly once -/
theorem wire_leftDsts (L : Int) :
    ((wireGen tri L).filter fun x => isLeft x.2.1).map (·.2.1) = leftDsts L := by
  rw [wireGen_segs]
  simp only [filter_append, map_append]
  rw [filter_all _ _ (fun x hx => (seg1_wl L x hx).l2), filter_none _ _ (fun x hx => (seg2_wr L x hx).r2),
    filter_all _ _ (fun x hx => (seg3_wl L x hx).l2), filter_all _ _ (fun x hx => (seg4_wl L x hx).l2),
    filter_all _ _ (fun x hx => (seg5_wl L x hx).l2), filter_all _ _ (fun x hx => (seg6_wl L x hx).l2),
    filter_all _ _ (fun x hx => (seg7_wl L x hx).l2), filter_none _ _ (fun x hx => (seg8_wr L x hx).r2),
    filter_none _ _ (fun x hx => (seg9_wr L x hx).r2), filter_none _ _ (fun x hx => (seg10_wr L x hx).r2),
    filter_none _ _ (fun x hx => (seg11_wr L x hx).r2), filter_none _ _ (fun x hx => (seg12_wr L x hx).r2)]
  simp only [map_nil, append_nil, nil_append, seg1_map, seg3_map, seg4_map, seg5_map, seg6_map, seg7_map]
  show seg1 dstOf L ++ (seg3 dstOf L ++ (seg4 dstOf L ++ (seg5 dstOf L ++ (seg6 dstOf L ++ seg7 dstOf L)))) = _
  rw [seg1_dst, seg3_dst, seg4_dst, seg5_dst, seg6_dst, seg7_dst]
  rfl

/-- the sources of the wiring edges that start at a right node: every right node other than the sink exactly once -/
theorem wire_rightSrcs (L : Int) :
    ((wireGen tri L).filter fun x => !isLeft x.1).map (·.1) = rightSrcs L := by
  rw [wireGen_segs]
  simp only [filter_append, map_append]
  rw [filter_none _ _ (fun x hx => by rw [(seg1_wl L x hx).l1]; rfl), filter_all _ _ (fun x hx => by rw [(seg2_wr L x hx).r1]; rfl),
    filter_none _ _ (fun x hx => by rw [(seg3_wl L x hx).l1]; rfl), filter_none _ _ (fun x hx => by rw [(seg4_wl L x hx).l1]; rfl),
    filter_none _ _ (fun x hx => by rw [(seg5_wl L x hx).l1]; rfl), filter_none _ _ (fun x hx => by rw [(seg6_wl L x hx).l1]; rfl),
    filter_none _ _ (fun x hx => by rw [(seg7_wl L x hx).l1]; rfl), filter_all _ _ (fun x hx => by rw [(seg8_wr L x hx).r1]; rfl),
    filter_all _ _ (fun x hx => by rw [(seg9_wr L x hx).r1]; rfl), filter_all _ _ (fun x hx => by rw [(seg10_wr L x hx).r1]; rfl),
    filter_all _ _ (fun x hx => by rw [(seg11_wr L x hx).r1]; rfl), filter_all _ _ (fun x hx => by rw [(seg12_wr L x hx).r1]; rfl)]
  simp only [map_nil, append_nil, nil_append, seg2_map, seg8_map, seg9_map, seg10_map, seg11_map, seg12_map]
  show seg2 srcOf L ++ (seg8 srcOf L ++ (seg9 srcOf L ++ (seg10 srcOf L ++ (seg11 srcOf L ++ seg12 srcOf L)))) = _
  rw [seg2_src, seg8_src, seg9_src, seg10_src, seg11_src, seg12_src]
  rfl

/-- every left node other than the source is the target of a left wiring edge -/
theorem left_complete (L : Int) (b : Lab) (hb : labOk L b) (hl : isLeft b = true) (hs : b ≠ (10, [], 0)) : b ∈ leftDsts L := by
  unfold leftDsts
  simp only [mem_append]
  unfold labOk at hb
  split at hb
  · right; left
    simp only [famLabs, mem_flatMap, mem_map, mem_pyRange]
    exact ⟨_, ⟨hb.1, hb.2.1⟩, _, ⟨hb.2.2.1, hb.2.2.2⟩, rfl⟩
  · right; right; left
    simp only [famLabs, mem_flatMap, mem_map, mem_pyRange]
    exact ⟨_, ⟨hb.1, hb.2.1⟩, _, ⟨hb.2.2.1, hb.2.2.2⟩, rfl⟩
  · right; right; right; left
    simp only [famLabs, mem_flatMap, mem_map, mem_pyRange]
    exact ⟨_, ⟨hb.1, hb.2.1⟩, _, ⟨hb.2.2.1, hb.2.2.2.1⟩, _, ⟨hb.2.2.2.2.1, hb.2.2.2.2.2⟩, rfl⟩
  · right; right; right; right; left
    simp only [famLabs, mem_flatMap, mem_map, mem_pyRange]
    exact ⟨_, ⟨hb.1, hb.2.1⟩, _, ⟨hb.2.2.1, hb.2.2.2.1⟩, _, ⟨hb.2.2.2.2.1, hb.2.2.2.2.2⟩, rfl⟩
  · right; right; right; right; right
    simp only [famLabs, mem_flatMap, mem_map, mem_pyRange]
    exact ⟨_, ⟨hb.1, hb.2.1⟩, _, ⟨hb.2.2.1, hb.2.2.2.1⟩, _, ⟨hb.2.2.2.2.1, hb.2.2.2.2.2⟩, rfl⟩
  · cases hl
  · cases hl
  · cases hl
  · cases hl
  · cases hl
  · left
    simp only [famLabs, mem_map, mem_pyRange]
    refine ⟨_, ⟨?_, hb.2⟩, rfl⟩
    rename_i k
    by_contra hc
    have : k = 0 := by omega
    subst this
    exact hs rfl
  · cases hl
  · exact hb.elim

/-- every right node other than the sink is the source of a right wiring edge -/
theorem right_complete (L : Int) (a : Lab) (ha : labOk L a) (hr : isLeft a = false) (ht : a ≠ (11, [], L)) : a ∈ rightSrcs L := by
  unfold rightSrcs
  simp only [mem_append]
  unfold labOk at ha
  split at ha
  · cases hr
  · cases hr
  · cases hr
  · cases hr
  · cases hr
  · right; left
    simp only [famLabs, mem_flatMap, mem_map, mem_pyRange]
    exact ⟨_, ⟨ha.1, ha.2.1⟩, _, ⟨ha.2.2.1, ha.2.2.2⟩, rfl⟩
  · right; right; left
    simp only [famLabs, mem_flatMap, mem_map, mem_pyRange]
    exact ⟨_, ⟨ha.1, ha.2.1⟩, _, ⟨ha.2.2.1, ha.2.2.2⟩, rfl⟩
  · right; right; right; left
    simp only [famLabs, mem_flatMap, mem_map, mem_pyRange]
    exact ⟨_, ⟨ha.1, ha.2.1⟩, _, ⟨ha.2.2.1, ha.2.2.2.1⟩, _, ⟨ha.2.2.2.2.1, ha.2.2.2.2.2⟩, rfl⟩
  · right; right; right; right; left
    simp only [famLabs, mem_flatMap, mem_map, mem_pyRange]
    exact ⟨_, ⟨ha.1, ha.2.1⟩, _, ⟨ha.2.2.1, ha.2.2.2.1⟩, _, ⟨ha.2.2.2.2.1, ha.2.2.2.2.2⟩, rfl⟩
  · right; right; right; right; right
    simp only [famLabs, mem_flatMap, mem_map, mem_pyRange]
    exact ⟨_, ⟨ha.1, ha.2.1⟩, _, ⟨ha.2.2.1, ha.2.2.2.1⟩, _, ⟨ha.2.2.2.2.1, ha.2.2.2.2.2⟩, rfl⟩
  · cases hr
  · left
    simp only [famLabs, mem_map, mem_pyRange]
    refine ⟨_, ⟨ha.1, ?_⟩, rfl⟩
    rename_i k
    by_contra hc
    have : k = L := by omega
    subst this
    exact ht rfl
  · exact ha.elim

end Ptn.Ham

import PtnModel.Proofs.EvoExactStep
/-!
# Exactness of `integrate_local_singlesite` on a complete manifold (call level)

The prologue right-orthonormalises the state (`ψ₀ = ψ / nrm`, `C01.ortho_dense`) and builds the sweep state `s0` with centre
`0`; `numsteps` time steps follow.  If the bond dimensions of `ψ₀` are those of a complete manifold with some centre `m`
(`CompleteMPS`) and every executed sub-step is exact and regular (`RunExact false`), the returned state is
`E(-(numsteps · dt) · H_dense) ψ₀`.
-/
set_option linter.unusedSectionVars false

namespace Ptn.Evo
open Ptn Ptn.BondOps Ptn.Ortho Ptn.Env Ptn.Krylov Ptn.Dense Finset

variable {𝕜 : Type} [RCLike 𝕜] [DecidableEq 𝕜]
variable {k : EvoKernels 𝕜 ℝ} {H : MPO 𝕜} {numiter : Nat}

/-- the bond dimensions `D_j = len(ψ.qD[j])` of the MPS `ψ` are those of a complete manifold with centre `m`:
`d · D_j = D_{j+1}` for `j < m`, `D_j = d · D_{j+1}` for `m < j < L` -/
def CompleteMPS (ψ : MPS 𝕜) (m : Nat) : Prop :=
  m < ψ.A.length ∧
  (∀ j, j < m → ψ.qd.length * (ψ.qD.getD j []).length = (ψ.qD.getD (j + 1) []).length) ∧
  (∀ j, m < j → j < ψ.A.length → (ψ.qD.getD j []).length = ψ.qd.length * (ψ.qD.getD (j + 1) []).length)

omit [DecidableEq 𝕜] in
theorem getQ_cur (qd : List Int) (s : Sweep 𝕜) (j : Nat) : (cur qd s).qD.getD j [] = getQ s j :=
  toList_getD' _ _ _

omit [DecidableEq 𝕜] in
theorem complete_of_mps {qd : List Int} {s0 : Sweep 𝕜} {ψ0 : MPS 𝕜} {L m : Nat} (hcur : cur qd s0 = ψ0) (hqd : ψ0.qd = qd)
    (hL : ψ0.A.length = L) (h : CompleteMPS ψ0 m) : Complete qd L m s0 := by
  obtain ⟨hm, hl, hr⟩ := h
  refine ⟨hL ▸ hm, fun j hj => ?_, fun j hj hj' => ?_⟩
  · have := hl j hj
    rw [← hcur, getQ_cur, getQ_cur] at this
    unfold SqL
    rw [← hqd, ← hcur]
    exact this
  · have := hr j hj (hL ▸ hj')
    rw [← hcur, getQ_cur, getQ_cur] at this
    unfold SqR
    rw [← hqd, ← hcur]
    exact this

/-- the maximal bond dimensions `D_j = min(d^j, d^(L-j))` of a state without quantum-number restrictions are those of a
complete manifold with centre `L / 2` -/
theorem completeMPS_of_maximal {ψ : MPS 𝕜} (hd : 0 < ψ.qd.length) (hL : 0 < ψ.A.length)
    (hmax : ∀ j, j ≤ ψ.A.length →
      (ψ.qD.getD j []).length = min (ψ.qd.length ^ j) (ψ.qd.length ^ (ψ.A.length - j))) :
    CompleteMPS ψ (ψ.A.length / 2) := by
  refine ⟨Nat.div_lt_self hL (by omega), fun j hj => ?_, fun j hj hj' => ?_⟩
  · have h2 : 2 * (j + 1) ≤ ψ.A.length := by
      have := Nat.div_mul_le_self ψ.A.length 2
      omega
    rw [hmax j (by omega), hmax (j + 1) (by omega),
      min_eq_left (Nat.pow_le_pow_right hd (by omega)), min_eq_left (Nat.pow_le_pow_right hd (by omega)), pow_succ, mul_comm]
  · have h2 : ψ.A.length < 2 * j := by
      have := Nat.lt_div_mul_add (a := ψ.A.length) (b := 2) (by omega)
      omega
    rw [hmax j (by omega), hmax (j + 1) (by omega),
      min_eq_right (Nat.pow_le_pow_right hd (by omega)), min_eq_right (Nat.pow_le_pow_right hd (by omega)),
      show ψ.A.length - j = (ψ.A.length - (j + 1)) + 1 by omega, pow_succ, mul_comm]

/-- **`integrate_local_singlesite` on a complete manifold.** -/
theorem tdvp1_call_exact {ψ ψ' : MPS 𝕜} (ctx : SweepCtx k H ψ.qd numiter) (hE : ExpLaw k.dexp)
    (hhalf : k.half + k.half = 1) (hadm : Admissible ψ) {dt : 𝕜} {n m : Nat} {nrm : ℝ}
    (h : integrateLocalSinglesite k H ψ dt n numiter = .ok (ψ', nrm))
    (hcomp : ∀ ψ0, MPS.orthonormalize (ρ := ℝ) k.dqr ψ false = .ok (ψ0, nrm) → CompleteMPS ψ0 m)
    (hex : ∀ s0, prologue k H ψ = .ok (s0, nrm) → RunExact false k H ψ.qd dt numiter n s0) :
    ∃ ψ0, MPS.orthonormalize (ρ := ℝ) k.dqr ψ false = .ok (ψ0, nrm) ∧
      (∀ σ, σ ∈ digitsU ψ.qd.length ψ.A.length → (nrm : 𝕜) * ψ0.amp σ = ψ.amp σ) ∧
      (∑ σ ∈ digitsU ψ.qd.length ψ.A.length, ‖ψ0.amp σ‖ ^ 2 = 1) ∧
      DenseExp H ψ.qd.length k.dexp (-((n : 𝕜) * dt)) ψ0.amp ψ'.amp := by
  obtain ⟨s0, b, ψ0, hp, ho, hcur, hcan0, hit, _, rfl⟩ := integrate1_canon ctx hadm h
  obtain ⟨_, hqd0, hlen0⟩ := C01.ortho_wf (dqr := k.dqr) ctx.qr.contract.shape hadm ho
  have hLen : ψ0.A.length = H.A.length := by
    rw [← hcur, cur_length, hcan0.wf.sizeA]
  have hc : Complete ψ.qd H.A.length m s0 := complete_of_mps hcur hqd0 hLen (hcomp ψ0 ho)
  obtain ⟨_, _, he⟩ := tdvp1Steps_exact ctx hE hhalf n s0 b hcan0 hc hit (hex s0 hp)
  refine ⟨ψ0, ho, fun σ hσ => C01.ortho_dense ctx.qr hadm ho hσ, C01.ortho_unit ctx.qr hadm ho, ?_⟩
  rw [← hcur]
  exact he

end Ptn.Evo

import PtnModel.Proofs.SpinExplLab
/-!
# Explicit spin-orbital molecular graph: classification of the wiring edges, words

For every edge of `swireGen` in the left forest the mode letters of the target label before the source's layer are those of the source
label and the pair of letters at the source's layer is the operator of the edge (`swire_wl`); for every edge in the right forest the
pair of letters of the source label at its layer is the operator and the later letters are those of the target label (`swire_wr`).
Hence the left / right words of the labels grow by the operator along the edges (`SWLw.word`, `SWRw.word`).
-/
set_option linter.unusedSectionVars false
set_option linter.unusedSimpArgs false
set_option linter.unusedVariables false
set_option linter.unusedTactic false
set_option linter.unreachableTactic false

namespace Ptn.Ham
open Ptn.Og List

theorem sxl_mletOf_idL (k p : Int) : mletOf (10, [], k) p = mI := rfl
theorem sxl_mletOf_idR (k p : Int) : mletOf (11, [], k) p = mI := rfl

theorem SWLw.word {L : Int} {y : Lab × Lab × Int} (h : SWLw y) (ok : SOk L y) : slwLab y.2.1 = slwLab y.1 ++ [y.2.2] := by
  unfold slwLab
  have e : y.2.1.2.2.toNat = y.1.2.2.toNat + 1 := by rw [ok.lev]; have := ok.pos; omega
  rw [e, range_succ, map_append, map_cons, map_nil]
  congr 1
  · apply map_congr_left
    intro q hq
    have := mem_range.1 hq
    have h0 := ok.pos
    unfold sletOf
    rw [h.pre (2 * (q : Int)) (by omega) (by omega), h.pre (2 * (q : Int) + 1) (by omega) (by omega)]
  · have : ((y.1.2.2.toNat : Nat) : Int) = y.1.2.2 := by have := ok.pos; omega
    unfold sletOf
    rw [this, h.last]

theorem SWRw.word {L : Int} {y : Lab × Lab × Int} (h : SWRw L y) (ok : SOk L y) : srwLab L y.1 = y.2.2 :: srwLab L y.2.1 := by
  unfold srwLab
  have e : (L - y.1.2.2).toNat = (L - y.2.1.2.2).toNat + 1 := by have := ok.lev; have := ok.le; omega
  rw [e, range_succ_eq_map, map_cons, map_map]
  congr 1
  · simpa [sletOf] using h.first
  · apply map_congr_left
    intro q hq
    have := mem_range.1 hq
    have h1 := ok.lev
    have h2 := ok.le
    simp only [Function.comp, sletOf]
    rw [h.post _ (by push_cast; omega) (by push_cast; omega), h.post _ (by push_cast; omega) (by push_cast; omega)]
    have e2 : y.1.2.2 + ((q + 1 : Nat) : Int) = y.2.1.2.2 + (q : Int) := by push_cast; omega
    rw [e2]

macro "sxl_w_tac" : tactic =>
  `(tactic| (refine ⟨?_, ?_⟩ <;>
      (try simp only [mem_pyRange, mem_prodRS, pLt_iff] at *) <;>
      (try intro p hp0 hp1) <;>
      (try simp only [tri, sxl_mletOf_idL, sxl_mletOf_idR] at *) <;>
      (try simp only [mletOf, modeLab, letOf, md] at *) <;>
      (try simp (disch := omega) only [if_pos, if_neg]) <;>
      (try split_ifs) <;>
      first | rfl | omega | decide))

theorem sseg1_wl (L : Int) : ∀ y ∈ sseg1 tri L, SWLw y := by
  unfold sseg1
  simp only [mem_flatMap, mem_cons, not_mem_nil, or_false]
  rintro x ⟨i, hi, rfl⟩
  sxl_w_tac

theorem sseg3_wl (L : Int) : ∀ y ∈ sseg3 tri L, SWLw y := by
  unfold sseg3
  simp only [mem_flatMap, mem_cons, not_mem_nil, or_false, mem_prodRS]
  rintro x ⟨⟨i, s⟩, ⟨hi0, hi1, rfl | rfl⟩, rfl | ⟨j, hj, rfl⟩⟩
  · sxl_w_tac
  · sxl_w_tac
  · sxl_w_tac
  · sxl_w_tac

theorem sseg2_wr (L : Int) : ∀ y ∈ sseg2 tri L, SWRw L y := by
  unfold sseg2
  simp only [mem_flatMap, mem_cons, not_mem_nil, or_false]
  rintro x ⟨i, hi, rfl⟩
  sxl_w_tac

theorem sseg4_wl (L : Int) : ∀ y ∈ sseg4 tri L, SWLw y := by
  unfold sseg4
  simp only [mem_flatMap, mem_cons, not_mem_nil, or_false, mem_prodRS]
  rintro x ⟨⟨i, s⟩, ⟨hi0, hi1, rfl | rfl⟩, rfl | ⟨j, hj, rfl⟩⟩
  · sxl_w_tac
  · sxl_w_tac
  · sxl_w_tac
  · sxl_w_tac

theorem sseg5_wl (L : Int) : ∀ y ∈ sseg5 tri L, SWLw y := by
  unfold sseg5
  simp only [mem_flatMap, mem_prodRS]
  rintro x ⟨⟨i, s⟩, ⟨hi0, hi1, hs⟩, ⟨j, t⟩, ⟨hj0, hj1, ht⟩, hx⟩
  by_cases h : pLt (i, s) (j, t) = true
  · rw [if_pos h] at hx
    simp only [mem_flatMap, mem_cons, not_mem_nil, or_false] at hx
    dsimp only at *
    rcases hx with rfl | ⟨k, hk, rfl⟩
    · by_cases h1 : i < j
      · rw [if_pos h1]
        rcases hs with rfl | rfl <;> rcases ht with rfl | rfl <;> sxl_w_tac
      · rw [if_neg h1]
        rcases hs with rfl | rfl <;> rcases ht with rfl | rfl <;> sxl_w_tac
    · rcases hs with rfl | rfl <;> rcases ht with rfl | rfl <;> sxl_w_tac
  · rw [if_neg h] at hx
    exact absurd hx not_mem_nil

theorem sseg6_wl (L : Int) : ∀ y ∈ sseg6 tri L, SWLw y := by
  unfold sseg6
  simp only [mem_flatMap, mem_prodRS]
  rintro x ⟨⟨i, s⟩, ⟨hi0, hi1, hs⟩, ⟨j, t⟩, ⟨hj0, hj1, ht⟩, hx⟩
  by_cases h : pLt (j, t) (i, s) = true
  · rw [if_pos h] at hx
    simp only [mem_flatMap, mem_cons, not_mem_nil, or_false] at hx
    dsimp only at *
    rcases hx with rfl | ⟨k, hk, rfl⟩
    · by_cases h1 : i > j
      · rw [if_pos h1]
        rcases hs with rfl | rfl <;> rcases ht with rfl | rfl <;> sxl_w_tac
      · rw [if_neg h1]
        rcases hs with rfl | rfl <;> rcases ht with rfl | rfl <;> sxl_w_tac
    · rcases hs with rfl | rfl <;> rcases ht with rfl | rfl <;> sxl_w_tac
  · rw [if_neg h] at hx
    exact absurd hx not_mem_nil

theorem sseg7_wl_a (i j : Int) (h1 : i < j) (s t : Int) (hs : s = 0 ∨ s = 1) (ht : t = 0 ∨ t = 1) :
    SWLw (tri (0, [i, s], j) (4, [i, s, j, t], j + 1) (pick sAI sZA t)) := by
  rcases hs with rfl | rfl <;> rcases ht with rfl | rfl <;> sxl_w_tac

theorem sseg7_wl_b (i : Int) (s t : Int) (hs : s = 0 ∨ s = 1) (ht : t = 0 ∨ t = 1) :
    SWLw (tri (10, [], i) (4, [i, s, i, t], i + 1) (diagOid s t)) := by
  rcases hs with rfl | rfl <;> rcases ht with rfl | rfl <;> sxl_w_tac

theorem sseg7_wl_c (i j : Int) (h1 : j < i) (s t : Int) (hs : s = 0 ∨ s = 1) (ht : t = 0 ∨ t = 1) :
    SWLw (tri (1, [j, t], i) (4, [i, s, j, t], i + 1) (pick sCI sZC s)) := by
  rcases hs with rfl | rfl <;> rcases ht with rfl | rfl <;> sxl_w_tac

theorem sseg7_wl_d (i j k : Int) (hk : max i j + 1 ≤ k) (s t : Int) (hs : s = 0 ∨ s = 1) (ht : t = 0 ∨ t = 1) :
    SWLw (tri (4, [i, s, j, t], k) (4, [i, s, j, t], k + 1) sId) := by
  rcases hs with rfl | rfl <;> rcases ht with rfl | rfl <;> sxl_w_tac

theorem sseg7_wl (L : Int) : ∀ y ∈ sseg7 tri L, SWLw y := by
  unfold sseg7
  simp only [mem_flatMap, mem_prodRS, mem_cons, not_mem_nil, or_false]
  rintro x ⟨⟨i, s⟩, ⟨hi0, hi1, hs⟩, ⟨j, t⟩, ⟨hj0, hj1, ht⟩, hx⟩
  dsimp only at *
  rcases hx with rfl | ⟨k, hk, rfl⟩
  · by_cases h1 : i < j
    · rw [if_pos h1]
      exact sseg7_wl_a i j h1 s t hs ht
    · rw [if_neg h1]
      by_cases h2 : i = j
      · rw [if_pos h2]; subst h2
        exact sseg7_wl_b i s t hs ht
      · rw [if_neg h2]
        exact sseg7_wl_c i j (by omega) s t hs ht
  · exact sseg7_wl_d i j k (mem_pyRange.1 hk).1 s t hs ht

theorem sseg8_wr (L : Int) : ∀ y ∈ sseg8 tri L, SWRw L y := by
  unfold sseg8
  simp only [mem_flatMap, mem_append, mem_cons, not_mem_nil, or_false, mem_prodRS]
  rintro x ⟨⟨i, s⟩, ⟨hi0, hi1, rfl | rfl⟩, ⟨j, hj, rfl⟩ | rfl⟩
  · sxl_w_tac
  · sxl_w_tac
  · sxl_w_tac
  · sxl_w_tac

theorem sseg9_wr (L : Int) : ∀ y ∈ sseg9 tri L, SWRw L y := by
  unfold sseg9
  simp only [mem_flatMap, mem_append, mem_cons, not_mem_nil, or_false, mem_prodRS]
  rintro x ⟨⟨i, s⟩, ⟨hi0, hi1, rfl | rfl⟩, ⟨j, hj, rfl⟩ | rfl⟩
  · sxl_w_tac
  · sxl_w_tac
  · sxl_w_tac
  · sxl_w_tac

theorem sseg10_wr (L : Int) : ∀ y ∈ sseg10 tri L, SWRw L y := by
  unfold sseg10
  simp only [mem_flatMap, mem_prodRS]
  rintro x ⟨⟨i, s⟩, ⟨hi0, hi1, hs⟩, ⟨j, t⟩, ⟨hj0, hj1, ht⟩, hx⟩
  by_cases h : pLt (i, s) (j, t) = true
  · rw [if_pos h] at hx
    simp only [mem_flatMap, mem_append, mem_cons, not_mem_nil, or_false] at hx
    dsimp only at *
    rcases hx with ⟨k, hk, rfl⟩ | rfl
    · rcases hs with rfl | rfl <;> rcases ht with rfl | rfl <;> sxl_w_tac
    · by_cases h1 : i < j
      · rw [if_pos h1]
        rcases hs with rfl | rfl <;> rcases ht with rfl | rfl <;> sxl_w_tac
      · rw [if_neg h1]
        rcases hs with rfl | rfl <;> rcases ht with rfl | rfl <;> sxl_w_tac
  · rw [if_neg h] at hx
    exact absurd hx not_mem_nil

theorem sseg11_wr (L : Int) : ∀ y ∈ sseg11 tri L, SWRw L y := by
  unfold sseg11
  simp only [mem_flatMap, mem_prodRS]
  rintro x ⟨⟨i, s⟩, ⟨hi0, hi1, hs⟩, ⟨j, t⟩, ⟨hj0, hj1, ht⟩, hx⟩
  by_cases h : pLt (j, t) (i, s) = true
  · rw [if_pos h] at hx
    simp only [mem_flatMap, mem_append, mem_cons, not_mem_nil, or_false] at hx
    dsimp only at *
    rcases hx with ⟨k, hk, rfl⟩ | rfl
    · rcases hs with rfl | rfl <;> rcases ht with rfl | rfl <;> sxl_w_tac
    · by_cases h1 : i > j
      · rw [if_pos h1]
        rcases hs with rfl | rfl <;> rcases ht with rfl | rfl <;> sxl_w_tac
      · rw [if_neg h1]
        rcases hs with rfl | rfl <;> rcases ht with rfl | rfl <;> sxl_w_tac
  · rw [if_neg h] at hx
    exact absurd hx not_mem_nil

theorem sseg12_wr_a (L i j : Int) (h1 : i < j) (s t : Int) (hs : s = 0 ∨ s = 1) (ht : t = 0 ∨ t = 1) :
    SWRw L (tri (9, [i, s, j, t], i) (6, [j, t], i + 1) (pick sCZ sIC s)) := by
  rcases hs with rfl | rfl <;> rcases ht with rfl | rfl <;> sxl_w_tac

theorem sseg12_wr_b (L i : Int) (s t : Int) (hs : s = 0 ∨ s = 1) (ht : t = 0 ∨ t = 1) :
    SWRw L (tri (9, [i, s, i, t], i) (11, [], i + 1) (diagOid s t)) := by
  rcases hs with rfl | rfl <;> rcases ht with rfl | rfl <;> sxl_w_tac

theorem sseg12_wr_c (L i j : Int) (h1 : j < i) (s t : Int) (hs : s = 0 ∨ s = 1) (ht : t = 0 ∨ t = 1) :
    SWRw L (tri (9, [i, s, j, t], j) (5, [i, s], j + 1) (pick sAZ sIA t)) := by
  rcases hs with rfl | rfl <;> rcases ht with rfl | rfl <;> sxl_w_tac

theorem sseg12_wr_d (L i j k : Int) (hk : k < min i j) (s t : Int) (hs : s = 0 ∨ s = 1) (ht : t = 0 ∨ t = 1) :
    SWRw L (tri (9, [i, s, j, t], k) (9, [i, s, j, t], k + 1) sId) := by
  rcases hs with rfl | rfl <;> rcases ht with rfl | rfl <;> sxl_w_tac

theorem sseg12_wr (L : Int) : ∀ y ∈ sseg12 tri L, SWRw L y := by
  unfold sseg12
  simp only [mem_flatMap, mem_prodRS, mem_append, mem_cons, not_mem_nil, or_false]
  rintro x ⟨⟨i, s⟩, ⟨hi0, hi1, hs⟩, ⟨j, t⟩, ⟨hj0, hj1, ht⟩, hx⟩
  dsimp only at *
  rcases hx with ⟨k, hk, rfl⟩ | rfl
  · exact sseg12_wr_d L i j k (mem_pyRange.1 hk).2 s t hs ht
  · by_cases h1 : i < j
    · rw [if_pos h1]
      exact sseg12_wr_a L i j h1 s t hs ht
    · rw [if_neg h1]
      by_cases h2 : i = j
      · rw [if_pos h2]; subst h2
        exact sseg12_wr_b L i s t hs ht
      · rw [if_neg h2]
        exact sseg12_wr_c L i j (by omega) s t hs ht

theorem sseg1_side (L : Int) : ∀ y ∈ sseg1 tri L, isLeft y.1 = true := by
  unfold sseg1
  simp only [mem_flatMap, mem_cons, not_mem_nil, or_false]
  rintro x ⟨i, hi, rfl⟩
  rfl

theorem sseg2_side (L : Int) : ∀ y ∈ sseg2 tri L, isLeft y.1 = false := by
  unfold sseg2
  simp only [mem_flatMap, mem_cons, not_mem_nil, or_false]
  rintro x ⟨i, hi, rfl⟩
  rfl

theorem sseg3_side (L : Int) : ∀ y ∈ sseg3 tri L, isLeft y.1 = true := by
  unfold sseg3
  simp only [mem_flatMap, mem_cons, not_mem_nil, or_false, mem_prodRS]
  rintro x ⟨⟨i, s⟩, ⟨hi0, hi1, rfl | rfl⟩, rfl | ⟨j, hj, rfl⟩⟩
  · rfl
  · rfl
  · rfl
  · rfl

theorem sseg4_side (L : Int) : ∀ y ∈ sseg4 tri L, isLeft y.1 = true := by
  unfold sseg4
  simp only [mem_flatMap, mem_cons, not_mem_nil, or_false, mem_prodRS]
  rintro x ⟨⟨i, s⟩, ⟨hi0, hi1, rfl | rfl⟩, rfl | ⟨j, hj, rfl⟩⟩
  · rfl
  · rfl
  · rfl
  · rfl

theorem sseg5_side (L : Int) : ∀ y ∈ sseg5 tri L, isLeft y.1 = true := by
  unfold sseg5
  simp only [mem_flatMap, mem_prodRS]
  rintro x ⟨⟨i, s⟩, ⟨hi0, hi1, hs⟩, ⟨j, t⟩, ⟨hj0, hj1, ht⟩, hx⟩
  by_cases h : pLt (i, s) (j, t) = true
  · rw [if_pos h] at hx
    simp only [mem_flatMap, mem_cons, not_mem_nil, or_false] at hx
    dsimp only at *
    rcases hx with rfl | ⟨k, hk, rfl⟩
    · by_cases h1 : i < j
      · rw [if_pos h1]
        rfl
      · rw [if_neg h1]
        rfl
    · rfl
  · rw [if_neg h] at hx
    exact absurd hx not_mem_nil

theorem sseg6_side (L : Int) : ∀ y ∈ sseg6 tri L, isLeft y.1 = true := by
  unfold sseg6
  simp only [mem_flatMap, mem_prodRS]
  rintro x ⟨⟨i, s⟩, ⟨hi0, hi1, hs⟩, ⟨j, t⟩, ⟨hj0, hj1, ht⟩, hx⟩
  by_cases h : pLt (j, t) (i, s) = true
  · rw [if_pos h] at hx
    simp only [mem_flatMap, mem_cons, not_mem_nil, or_false] at hx
    dsimp only at *
    rcases hx with rfl | ⟨k, hk, rfl⟩
    · by_cases h1 : i > j
      · rw [if_pos h1]
        rfl
      · rw [if_neg h1]
        rfl
    · rfl
  · rw [if_neg h] at hx
    exact absurd hx not_mem_nil

theorem sseg7_side (L : Int) : ∀ y ∈ sseg7 tri L, isLeft y.1 = true := by
  unfold sseg7
  simp only [mem_flatMap, mem_prodRS, mem_cons, not_mem_nil, or_false]
  rintro x ⟨⟨i, s⟩, ⟨hi0, hi1, hs⟩, ⟨j, t⟩, ⟨hj0, hj1, ht⟩, hx⟩
  dsimp only at *
  rcases hx with rfl | ⟨k, hk, rfl⟩
  · by_cases h1 : i < j
    · rw [if_pos h1]
      rfl
    · rw [if_neg h1]
      by_cases h2 : i = j
      · rw [if_pos h2]; subst h2
        rfl
      · rw [if_neg h2]
        rfl
  · rfl

theorem sseg8_side (L : Int) : ∀ y ∈ sseg8 tri L, isLeft y.1 = false := by
  unfold sseg8
  simp only [mem_flatMap, mem_append, mem_cons, not_mem_nil, or_false, mem_prodRS]
  rintro x ⟨⟨i, s⟩, ⟨hi0, hi1, rfl | rfl⟩, ⟨j, hj, rfl⟩ | rfl⟩
  · rfl
  · rfl
  · rfl
  · rfl

theorem sseg9_side (L : Int) : ∀ y ∈ sseg9 tri L, isLeft y.1 = false := by
  unfold sseg9
  simp only [mem_flatMap, mem_append, mem_cons, not_mem_nil, or_false, mem_prodRS]
  rintro x ⟨⟨i, s⟩, ⟨hi0, hi1, rfl | rfl⟩, ⟨j, hj, rfl⟩ | rfl⟩
  · rfl
  · rfl
  · rfl
  · rfl

theorem sseg10_side (L : Int) : ∀ y ∈ sseg10 tri L, isLeft y.1 = false := by
  unfold sseg10
  simp only [mem_flatMap, mem_prodRS]
  rintro x ⟨⟨i, s⟩, ⟨hi0, hi1, hs⟩, ⟨j, t⟩, ⟨hj0, hj1, ht⟩, hx⟩
  by_cases h : pLt (i, s) (j, t) = true
  · rw [if_pos h] at hx
    simp only [mem_flatMap, mem_append, mem_cons, not_mem_nil, or_false] at hx
    dsimp only at *
    rcases hx with ⟨k, hk, rfl⟩ | rfl
    · rfl
    · by_cases h1 : i < j
      · rw [if_pos h1]
        rfl
      · rw [if_neg h1]
        rfl
  · rw [if_neg h] at hx
    exact absurd hx not_mem_nil

theorem sseg11_side (L : Int) : ∀ y ∈ sseg11 tri L, isLeft y.1 = false := by
  unfold sseg11
  simp only [mem_flatMap, mem_prodRS]
  rintro x ⟨⟨i, s⟩, ⟨hi0, hi1, hs⟩, ⟨j, t⟩, ⟨hj0, hj1, ht⟩, hx⟩
  by_cases h : pLt (j, t) (i, s) = true
  · rw [if_pos h] at hx
    simp only [mem_flatMap, mem_append, mem_cons, not_mem_nil, or_false] at hx
    dsimp only at *
    rcases hx with ⟨k, hk, rfl⟩ | rfl
    · rfl
    · by_cases h1 : i > j
      · rw [if_pos h1]
        rfl
      · rw [if_neg h1]
        rfl
  · rw [if_neg h] at hx
    exact absurd hx not_mem_nil

theorem sseg12_side (L : Int) : ∀ y ∈ sseg12 tri L, isLeft y.1 = false := by
  unfold sseg12
  simp only [mem_flatMap, mem_prodRS, mem_append, mem_cons, not_mem_nil, or_false]
  rintro x ⟨⟨i, s⟩, ⟨hi0, hi1, hs⟩, ⟨j, t⟩, ⟨hj0, hj1, ht⟩, hx⟩
  dsimp only at *
  rcases hx with ⟨k, hk, rfl⟩ | rfl
  · rfl
  · by_cases h1 : i < j
    · rw [if_pos h1]
      rfl
    · rw [if_neg h1]
      by_cases h2 : i = j
      · rw [if_pos h2]; subst h2
        rfl
      · rw [if_neg h2]
        rfl

/-- the forest an edge of `swireGen` lies in, by segment -/
theorem swire_side (L : Int) : ∀ y ∈ swireGen tri L,
    (isLeft y.1 = true ∧ (y ∈ sseg1 tri L ∨ y ∈ sseg3 tri L ∨ y ∈ sseg4 tri L ∨ y ∈ sseg5 tri L ∨ y ∈ sseg6 tri L ∨ y ∈ sseg7 tri L)) ∨
    (isLeft y.1 = false ∧ (y ∈ sseg2 tri L ∨ y ∈ sseg8 tri L ∨ y ∈ sseg9 tri L ∨ y ∈ sseg10 tri L ∨ y ∈ sseg11 tri L ∨
      y ∈ sseg12 tri L)) := by
  intro y hy
  simp only [swireGen, mem_append] at hy
  rcases hy with h | h | h | h | h | h | h | h | h | h | h | h
  · exact Or.inl ⟨sseg1_side L y h, Or.inl h⟩
  · exact Or.inr ⟨sseg2_side L y h, Or.inl h⟩
  · exact Or.inl ⟨sseg3_side L y h, Or.inr (Or.inl h)⟩
  · exact Or.inl ⟨sseg4_side L y h, Or.inr (Or.inr (Or.inl h))⟩
  · exact Or.inl ⟨sseg5_side L y h, Or.inr (Or.inr (Or.inr (Or.inl h)))⟩
  · exact Or.inl ⟨sseg6_side L y h, Or.inr (Or.inr (Or.inr (Or.inr (Or.inl h))))⟩
  · exact Or.inl ⟨sseg7_side L y h, Or.inr (Or.inr (Or.inr (Or.inr (Or.inr h))))⟩
  · exact Or.inr ⟨sseg8_side L y h, Or.inr (Or.inl h)⟩
  · exact Or.inr ⟨sseg9_side L y h, Or.inr (Or.inr (Or.inl h))⟩
  · exact Or.inr ⟨sseg10_side L y h, Or.inr (Or.inr (Or.inr (Or.inl h)))⟩
  · exact Or.inr ⟨sseg11_side L y h, Or.inr (Or.inr (Or.inr (Or.inr (Or.inl h))))⟩
  · exact Or.inr ⟨sseg12_side L y h, Or.inr (Or.inr (Or.inr (Or.inr (Or.inr h))))⟩

/-- left forest: the letters of the target before the source's layer are the source's, the pair at the source's layer is the operator -/
theorem swire_wl (L : Int) : ∀ y ∈ swireGen tri L, isLeft y.1 = true → SWLw y := by
  intro y hy hl
  rcases swire_side L y hy with ⟨_, h | h | h | h | h | h⟩ | ⟨hr, _⟩
  · exact sseg1_wl L y h
  · exact sseg3_wl L y h
  · exact sseg4_wl L y h
  · exact sseg5_wl L y h
  · exact sseg6_wl L y h
  · exact sseg7_wl L y h
  · rw [hr] at hl; cases hl

/-- right forest: the pair at the source's layer is the operator, the letters of the source behind it are the target's -/
theorem swire_wr (L : Int) : ∀ y ∈ swireGen tri L, isLeft y.1 = false → SWRw L y := by
  intro y hy hl
  rcases swire_side L y hy with ⟨hr, _⟩ | ⟨_, h | h | h | h | h | h⟩
  · rw [hr] at hl; cases hl
  · exact sseg2_wr L y h
  · exact sseg8_wr L y h
  · exact sseg9_wr L y h
  · exact sseg10_wr L y h
  · exact sseg11_wr L y h
  · exact sseg12_wr L y h

/-- non-vacuity: edges of both forests for `L = 4` -/
example : tri (0, [0, 1], 1) (2, [0, 1, 1, 0], 2) sCI ∈ swireGen tri 4 ∧ isLeft (0, [0, 1], 1) = true ∧
    tri (9, [3, 0, 3, 1], 3) (11, [], 4) sCA ∈ swireGen tri 4 ∧ isLeft (9, [3, 0, 3, 1], 3) = false := by decide

end Ptn.Ham

import PtnModel.Proofs.OgBasic
/-!
# `Graph.denFrom` is the path sum over the edge dictionary

For a structurally valid graph the adjacency lists of the nodes are (up to order) determined by the edges,
so the model's path-sum denotation `denFrom` (which walks `node.eidsOut`) equals `denE` of the edge list.
-/
set_option linter.unusedSectionVars false

namespace Ptn.Og
open List

variable {κ : Type} [CommRing κ]

theorem sum_map_ite_zero {α : Type} (l : List α) (p : α → Prop) [DecidablePred p] (f : α → κ) :
    (l.map fun a => if p a then f a else 0).sum = ((l.filter fun a => decide (p a)).map f).sum := by
  induction l with
  | nil => simp
  | cons a l ih =>
    by_cases h : p a <;> simp [h, ih]

theorem sum_map_mul_const {α : Type} (l : List α) (f : α → κ) (c : κ) :
    (l.map fun a => f a * c).sum = (l.map f).sum * c := by
  induction l with
  | nil => simp
  | cons a l ih => simp [ih, add_mul]

theorem sum_map_const_mul {α : Type} (l : List α) (f : α → κ) (c : κ) :
    (l.map fun a => c * f a).sum = c * (l.map f).sum := by
  induction l with
  | nil => simp
  | cons a l ih => simp [ih, mul_add]

theorem sum_map_eq_zero {α : Type} (l : List α) (f : α → κ) (h : ∀ a ∈ l, f a = 0) : (l.map f).sum = 0 := by
  induction l with
  | nil => simp
  | cons a l ih =>
    simp only [map_cons, sum_cons]
    rw [h a (by simp), ih (fun b hb => h b (by simp [hb]))]
    simp

theorem sum_map_congr {α : Type} (l : List α) (f g : α → κ) (h : ∀ a ∈ l, f a = g a) :
    (l.map f).sum = (l.map g).sum := by
  induction l with
  | nil => simp
  | cons a l ih =>
    simp only [map_cons, sum_cons]
    rw [h a (by simp), ih (fun b hb => h b (by simp [hb]))]

/-- the inner sum of `denFrom` over the operators of an edge -/
theorem opics_sum (e : Edge κ) (o : Int) (c : κ) :
    Ptn.sumList (e.opics.map fun p => if p.1 = o then p.2 * c else 0) = opc e o * c := by
  rw [sumList_eq_sum]
  unfold opc
  rw [← sum_map_mul_const]
  apply sum_map_congr
  intro p _
  by_cases h : p.1 = o <;> simp [h]

/-- the outgoing edge ids of a node are, up to order, the keys of the edges leaving it -/
theorem SValid.out_perm {g : Graph κ} (h : SValid g) {x : Int} {n : Node} (hn : (x, n) ∈ g.nodes) :
    n.eidsOut.Perm ((g.edges.filter fun p => decide (p.2.nids.1 = x)).map (·.1)) := by
  rw [perm_ext_iff_of_nodup]
  · intro a
    constructor
    · intro ha
      obtain ⟨e, he, hx⟩ := h.nodeEdge x n hn true a (by simpa [Node.eids] using ha)
      refine mem_map.2 ⟨(a, e), mem_filter.2 ⟨he, ?_⟩, rfl⟩
      simpa [Edge.nid] using hx
    · intro ha
      obtain ⟨⟨k, e⟩, hp, hk⟩ := mem_map.1 ha
      simp only at hk; subst hk
      obtain ⟨he, hx⟩ := mem_filter.1 hp
      simp only [decide_eq_true_eq] at hx
      obtain ⟨n', hn', hk'⟩ := h.edgeNode k e he false
      have : e.nid false = x := by simpa [Edge.nid] using hx
      rw [this] at hn'
      have := h.node_unique hn hn'
      subst this
      simpa [Node.eids] using hk'
  · simpa [Node.eids] using h.eidsNodup x n hn true
  · exact h.edgesKeys.sublist ((filter_sublist).map _)

/-- sum over the outgoing edge ids of a node = sum over the edges leaving it -/
theorem SValid.sum_out {g : Graph κ} (h : SValid g) {x : Int} {n : Node} (hn : (x, n) ∈ g.nodes)
    (φ : Edge κ → κ) :
    (n.eidsOut.map fun eid => match dGet? g.edges eid with | none => 0 | some e => φ e).sum
      = (g.edgeList.map fun e => if e.nids.1 = x then φ e else 0).sum := by
  rw [(h.out_perm hn).map _ |>.sum_eq]
  unfold Graph.edgeList
  rw [sum_map_ite_zero, map_map, filter_map, map_map]
  apply sum_map_congr
  intro p hp
  obtain ⟨k, e⟩ := p
  have he := (mem_filter.1 hp).1
  simp only [Function.comp]
  rw [dGet?_eq_some_of_mem h.edgesKeys he]

/-- **Bridge**: on a structurally valid graph the model's `denFrom` is the path sum over the edge list. -/
theorem denFrom_eq_denE {g : Graph κ} (h : SValid g) :
    ∀ (w : Word) (x : Int), g.denFrom w x = denE g.edgeList (g.term true) w x := by
  intro w
  induction w with
  | nil => intro x; simp [Graph.denFrom, denE]
  | cons o w ih =>
    intro x
    unfold Graph.denFrom denE
    by_cases hx : x = g.term true
    · simp [hx]
    · simp only [hx, if_false]
      cases hl : dGet? g.nodes x with
      | none =>
        simp only
        symm
        apply sum_map_eq_zero
        intro e he
        obtain ⟨⟨k, e'⟩, hp, rfl⟩ := mem_map.1 he
        by_cases hxe : e'.nids.1 = x
        · exfalso
          obtain ⟨n, hn, _⟩ := h.edgeNode k e' hp false
          have : e'.nid false = x := by simpa [Edge.nid] using hxe
          rw [this] at hn
          have := dGet?_eq_some_of_mem h.nodesKeys hn
          rw [hl] at this; cases this
        · simp [hxe]
      | some n =>
        simp only
        have hn := mem_of_dGet?_eq_some hl
        rw [sumList_eq_sum]
        have key := h.sum_out hn (fun e => opc e o * g.denFrom w e.nids.2)
        refine Eq.trans ?_ (Eq.trans key ?_)
        · apply sum_map_congr
          intro eid _
          cases dGet? g.edges eid with
          | none => rfl
          | some e => simp only; rw [opics_sum]
        · apply sum_map_congr
          intro e _
          rw [ih]

/-- the denotation function of the model on a structurally valid graph -/
theorem denF_eq_denE {g : Graph κ} (h : SValid g) (w : Word) :
    g.denF w = denE g.edgeList (g.term true) w (g.term false) := denFrom_eq_denE h w _

end Ptn.Og

import PtnModel.Proofs.BridgeHam
import PtnModel.Proofs.HamMolGraphWords
/-!
# Dense matrices of the bond-optimized molecular Hamiltonian MPOs

`opchains_denseIs` : `from_opchains` followed by `from_opgraph`, for a chain list satisfying the per-chain guards `ChainWF`;
`mol_denseIs`, `spinMol_denseIs` : whenever `molecular_hamiltonian_mpo(tkin, vint, optimize=True)` resp.
`spin_molecular_hamiltonian_mpo(…, optimize=True)` returns (`L ≥ 1`), the MPO has `L` sites and its dense matrix is the sum over the
enumerated chains of `coeff · ⊗_k opmap[padded word_k]`.
-/
set_option linter.unusedSectionVars false

namespace Ptn.Ham
open Ptn Ptn.Og Ptn.Ch List

variable {κ : Type} [CommRing κ] [DecidableEq κ]

theorem opchains_denseIs (chains : List (OpChain κ)) (L id : Int) (g : Graph κ) (hg : fromOpchains chains L id = .ok g)
    (hL : 1 ≤ L) (hwf : ∀ c ∈ chains, ChainWF L c) (qd : List Int) (opmap : OpMap κ) (on : Bool) (m : MpoOut κ)
    (hm : fromOpgraph qd g opmap on = .ok m) (hw : OpMapWF opmap qd.length) :
    MPO.DenseIs (m.toMPO qd) qd.length L.toNat (termsEntry opmap (denChainsRaw chains L id)) := by
  have hwf' : ChainsWF chains L := by
    apply chainsWF_of_ok _ L id g hg hL
    intro c hc _
    have w := hwf c hc
    exact ⟨w.start, w.fits, w.lens, w.q0, w.qlast⟩
  have hc := fromOpchains_consistent _ L _ g hg
  have hs := fromOpchains_singleSink _ L _ hwf' g hg
  have hlen := Ptn.C05.from_opchains_length _ L _ g hwf' hg
  apply fromOpgraph_denseIs qd g opmap on m hm hc hs L.toNat hlen (by omega) hw
  intro w _
  rw [Ptn.C05.from_opchains_sem _ L _ g hg hL (fun c hc' _ => (hwf c hc').start) w, chainsDen_eq_coeffIn]
  rfl

/-- Boolean shape check (evaluated by the kernel on the explicit tables) -/
def shapeB (d : Nat) (M : Og.Mat κ) : Bool := M.length == d && M.all (fun r => r.length == d)

theorem opMapWF_of_all (opmap : OpMap κ) (d : Nat) (h : opmap.all (fun p => shapeB d p.2) = true) : OpMapWF opmap d := by
  intro p hp
  have := all_eq_true.1 h p hp
  simp only [shapeB, Bool.and_eq_true, beq_iff_eq, all_eq_true] at this
  exact this

theorem molOpmap_wf : OpMapWF (molOpmap : OpMap κ) 2 := opMapWF_of_all _ 2 rfl

theorem spinMolOpmap_wf : OpMapWF (spinMolOpmap : OpMap κ) 4 := opMapWF_of_all _ 4 rfl

/-- spinless, `optimize=True` -/
theorem mol_denseIs (c : Consts κ) (tkin : List (List κ)) (vint : List (List (List (List κ)))) (b : Built κ)
    (hb : molBuildOpt c tkin vint = .ok b) (hL : 1 ≤ (tkin.length : Int)) :
    ∃ chains, molChains c tkin vint = .ok chains ∧ (∀ ch ∈ chains, ChainWF (tkin.length : Int) ch) ∧
      b.qd = [0, 1] ∧ b.opmap = molOpmap ∧
      MPO.DenseIs (b.mpo.toMPO [0, 1]) 2 tkin.length
        (termsEntry molOpmap (denChainsRaw chains (tkin.length : Int) 0)) := by
  obtain ⟨chains, hch, hwf⟩ := molChains_wf c tkin vint
  refine ⟨chains, hch, hwf, ?_⟩
  unfold molBuildOpt at hb
  obtain ⟨_, _, hb⟩ := bind_ok hb
  obtain ⟨chains', hch', hb⟩ := bind_ok hb
  rw [hch] at hch'
  simp only [Except.ok.injEq] at hch'
  subst hch'
  obtain ⟨g, hg, hb⟩ := bind_ok hb
  have hb := ite_jp_ok hb
  obtain ⟨m, hm, hb⟩ := bind_ok hb
  simp only [pure, Except.pure, Except.ok.injEq] at hb
  subst hb
  refine ⟨rfl, rfl, ?_⟩
  have := opchains_denseIs chains (tkin.length : Int) 0 g hg hL hwf [0, 1] molOpmap false m hm molOpmap_wf
  simpa using this

/-- spin-orbital basis, `optimize=True` -/
theorem spinMol_denseIs (c : Consts κ) (tkin : List (List κ)) (vint : List (List (List (List κ)))) (b : Built κ)
    (hb : spinMolBuildOpt c tkin vint = .ok b) (hL : 1 ≤ (tkin.length : Int)) :
    ∃ chains, spinMolChains c tkin vint = .ok chains ∧ (∀ ch ∈ chains, ChainWF (tkin.length : Int) ch) ∧
      b.qd = spinQd ∧ b.opmap = spinMolOpmap ∧
      MPO.DenseIs (b.mpo.toMPO spinQd) 4 tkin.length
        (termsEntry spinMolOpmap (denChainsRaw chains (tkin.length : Int) 0)) := by
  obtain ⟨chains, hch, hwf⟩ := spinMolChains_wf c tkin vint
  refine ⟨chains, hch, hwf, ?_⟩
  unfold spinMolBuildOpt at hb
  obtain ⟨_, _, hb⟩ := bind_ok hb
  obtain ⟨chains', hch', hb⟩ := bind_ok hb
  rw [hch] at hch'
  simp only [Except.ok.injEq] at hch'
  subst hch'
  obtain ⟨g, hg, hb⟩ := bind_ok hb
  have hb := ite_jp_ok hb
  obtain ⟨m, hm, hb⟩ := bind_ok hb
  simp only [pure, Except.pure, Except.ok.injEq] at hb
  subst hb
  refine ⟨rfl, rfl, ?_⟩
  have := opchains_denseIs chains (tkin.length : Int) 0 g hg hL hwf spinQd spinMolOpmap false m hm spinMolOpmap_wf
  have h4 : spinQd.length = 4 := rfl
  rw [h4] at this
  simpa using this

end Ptn.Ham

import PtnModel.Proofs.Evo2Pair
/-!
# Gauge relations between sweep states (definitions)

The second call of a reversibility test (`dt` followed by `-dt`) meets sweep states that equal those of the first call only
up to unitary matrices on the virtual bonds (the QR gauge is not unique).  This file fixes the vocabulary:

* `IsU D U`          : `U` (a function `Nat → Nat → 𝕜`) is unitary on its `D × D` block;
* `GT3 Ul Ur A A'`   : `A' = Ulᴴ · A · Ur` (site tensors), `GMat Ul Ur C C'` the same for bond matrices;
* `GBL U L L'`       : `L'[a₁,w,a₂] = Σ U[p,a₁] L[p,w,q] conj U[q,a₂]` (left environment blocks);
* `GBR U R R'`       : `R'[b₁,w,b₂] = Σ conj U[p,b₁] R[p,w,q] U[q,b₂]` (right environment blocks);
* `GaugeRel H U s t` : the tensors of the sweep state `t` are the gauge transforms of those of `s` by the family `U` of
                       bond unitaries (`U 0 = U L = 1`);
* `GaugeEq H qd s t c` : both states satisfy the sweep invariant with centre `c` and are gauge related.
-/
set_option linter.unusedSectionVars false

namespace Ptn.Evo
open Ptn Ptn.BondOps Ptn.Ortho Ptn.Env Finset

variable {𝕜 : Type} [RCLike 𝕜]

/-- `U` is unitary on its `D × D` block -/
structure IsU (D : Nat) (U : Nat → Nat → 𝕜) : Prop where
  row : ∀ q r, q < D → r < D → ∑ p ∈ range D, U q p * star (U r p) = if q = r then 1 else 0
  col : ∀ p p', p < D → p' < D → ∑ q ∈ range D, star (U q p) * U q p' = if p = p' then 1 else 0

/-- `A' = Ulᴴ · A · Ur` on in-range entries -/
structure GT3 (Ul Ur : Nat → Nat → 𝕜) (A A' : T3 𝕜) : Prop where
  d0 : A'.d0 = A.d0
  d1 : A'.d1 = A.d1
  d2 : A'.d2 = A.d2
  f : ∀ s a' b', s < A.d0 → a' < A.d1 → b' < A.d2 →
    A'.f s a' b' = ∑ a ∈ range A.d1, ∑ b ∈ range A.d2, star (Ul a a') * A.f s a b * Ur b b'

/-- `C' = Ulᴴ · C · Ur` on in-range entries -/
structure GMat (Ul Ur : Nat → Nat → 𝕜) (C C' : Mat 𝕜) : Prop where
  m : C'.m = C.m
  n : C'.n = C.n
  f : ∀ a' b', a' < C.m → b' < C.n →
    C'.f a' b' = ∑ a ∈ range C.m, ∑ b ∈ range C.n, star (Ul a a') * C.f a b * Ur b b'

/-- left environment block in the gauge `U`: `L'[a₁,w,a₂] = Σ U[p,a₁] L[p,w,q] conj U[q,a₂]` -/
structure GBL (U : Nat → Nat → 𝕜) (L L' : T3 𝕜) : Prop where
  d0 : L'.d0 = L.d0
  d1 : L'.d1 = L.d1
  d2 : L'.d2 = L.d2
  f : ∀ a1 w a2, a1 < L.d0 → w < L.d1 → a2 < L.d2 →
    L'.f a1 w a2 = ∑ p ∈ range L.d0, ∑ q ∈ range L.d2, U p a1 * L.f p w q * star (U q a2)

/-- right environment block in the gauge `U`: `R'[b₁,w,b₂] = Σ conj U[p,b₁] R[p,w,q] U[q,b₂]` -/
structure GBR (U : Nat → Nat → 𝕜) (R R' : T3 𝕜) : Prop where
  d0 : R'.d0 = R.d0
  d1 : R'.d1 = R.d1
  d2 : R'.d2 = R.d2
  f : ∀ b1 w b2, b1 < R.d0 → w < R.d1 → b2 < R.d2 →
    R'.f b1 w b2 = ∑ p ∈ range R.d0, ∑ q ∈ range R.d2, star (U p b1) * R.f p w q * U q b2

/-- the tensors of `t` are those of `s` in the gauge given by the bond unitaries `U m` (`m = 0 … L`) -/
structure GaugeRel (H : MPO 𝕜) (U : Nat → Nat → Nat → 𝕜) (s t : Sweep 𝕜) : Prop where
  uni : ∀ m, m ≤ H.A.length → IsU (getQ s m).length (U m)
  u0 : U 0 0 0 = 1
  uL : U H.A.length 0 0 = 1
  qlen : ∀ m, m ≤ H.A.length → (getQ t m).length = (getQ s m).length
  ten : ∀ m, m < H.A.length → GT3 (U m) (U (m + 1)) (getA s m) (getA t m)

/-- two sweep states in mixed-canonical form with the same centre that differ by a unitary gauge on the bonds -/
def GaugeEq [DecidableEq 𝕜] (H : MPO 𝕜) (qd : List Int) (s t : Sweep 𝕜) (c : Nat) : Prop :=
  Canon H qd s c ∧ Canon H qd t c ∧ ∃ U, GaugeRel H U s t

/-- the identity gauge -/
def idU : Nat → Nat → 𝕜 := fun p q => if p = q then 1 else 0

theorem isU_id (D : Nat) : IsU D (idU (𝕜 := 𝕜)) := by
  constructor
  · intro q r hq hr
    have e : ∀ p ∈ range D, idU q p * star (idU (𝕜 := 𝕜) r p) = if q = p then (if r = p then 1 else 0) else 0 := by
      intro p _
      unfold idU
      by_cases h1 : q = p
      · by_cases h2 : r = p
        · simp only [if_pos h1, if_pos h2, star_one, mul_one]
        · simp only [if_pos h1, if_neg h2, star_zero, mul_zero]
      · simp only [if_neg h1, zero_mul]
    rw [sum_congr rfl e, sum_ite_eq (range D) q, if_pos (mem_range.2 hq)]
    by_cases h : q = r
    · rw [if_pos h.symm, if_pos h]
    · rw [if_neg (fun e => h e.symm), if_neg h]
  · intro p p' hp hp'
    have e : ∀ q ∈ range D, star (idU (𝕜 := 𝕜) q p) * idU q p' = if p = q then (if q = p' then 1 else 0) else 0 := by
      intro q _
      unfold idU
      by_cases h1 : q = p
      · by_cases h2 : q = p'
        · simp only [if_pos h1, if_pos h2, if_pos h1.symm, star_one, mul_one]
        · simp only [if_pos h1, if_neg h2, if_pos h1.symm, star_one, mul_zero]
      · simp only [if_neg h1, if_neg (fun e : p = q => h1 e.symm), star_zero, zero_mul]
    rw [sum_congr rfl e, sum_ite_eq (range D) p, if_pos (mem_range.2 hp)]

/-- row-orthonormality is enough (square matrix) -/
theorem IsU.of_row {D : Nat} {U : Nat → Nat → 𝕜}
    (h : ∀ q r, q < D → r < D → ∑ p ∈ range D, U q p * star (U r p) = if q = r then 1 else 0) : IsU D U := by
  refine ⟨h, ?_⟩
  have key := sq_iso_unitary (𝕜 := 𝕜) D (fun q p => star (U p q)) (fun p p' hp hp' => by
    simp only [star_star]
    exact h p p' hp hp')
  intro p p' hp hp'
  have := key p p' hp hp'
  simp only [star_star] at this
  exact this

end Ptn.Evo

import PtnModel.Proofs.EvoRevLocal
import PtnModel.Proofs.EvoRevDense
import PtnModel.Proofs.EvoRevCanon
import PtnModel.Proofs.EvoRevAlg
/-!
# A sweep step of single-site TDVP is undone, up to a unitary gauge, by the mirrored step with negated time

The second call of a reversibility test runs on states that are only *gauge equivalent* (`GaugeEq`, `EvoRevDefs.lean`) to
the states of the first call.  The two pair lemmas of this file are the induction steps of the nested cancellation:

* `pairRL_gauge` : `tdvp1Right … dt` at site `j+1` from `s`, then `tdvp1Left … (-dt)` at site `j` from ANY state gauge
  equivalent to the result, gives a state gauge equivalent to `s`;
* `pairLR_gauge` : the mirror image (`tdvp1Left … dt` at `i`, then `tdvp1Right … (-dt)` at `i+1`).

Ingredients: the local cancellation lemmas across a two-sided gauge (`EvoRevLocal.lean`), the gauge relation of the
environment blocks derived from the dense characterisation of the blocks (`EvoRevDense.lean`), QR uniqueness up to a
unitary across a gauge change (`EvoRevAlg.lean`), and the sweep invariant for arbitrary complex `dt` (`EvoRevCanon.lean`).
-/
set_option linter.unusedSectionVars false

namespace Ptn.Evo
open Ptn Ptn.BondOps Ptn.Ortho Ptn.Env Ptn.Krylov Ptn.Dense Finset

variable {𝕜 : Type} [RCLike 𝕜] [DecidableEq 𝕜]

omit [RCLike 𝕜] [DecidableEq 𝕜] in
theorem getD_set2 {β : Type} (a : Array β) {i i' : Nat} (x y d : β) (hi : i < a.size) (hi' : i' < a.size) (m : Nat) :
    ((a.setIfInBounds i x).setIfInBounds i' y).getD m d = if m = i' then y else if m = i then x else a.getD m d := by
  rw [getD_setIfInBounds, getD_setIfInBounds, Array.size_setIfInBounds]
  by_cases h1 : m = i'
  · rw [if_pos ⟨h1, hi'⟩, if_pos h1]
  · rw [if_neg (fun hh => h1 hh.1), if_neg h1]
    by_cases h2 : m = i
    · rw [if_pos ⟨h2, hi⟩, if_pos h2]
    · rw [if_neg (fun hh => h2 hh.1), if_neg h2]

omit [RCLike 𝕜] [DecidableEq 𝕜] in
theorem getD_set1 {β : Type} (a : Array β) {i : Nat} (x d : β) (hi : i < a.size) (m : Nat) :
    (a.setIfInBounds i x).getD m d = if m = i then x else a.getD m d := by
  rw [getD_setIfInBounds]
  by_cases h1 : m = i
  · rw [if_pos ⟨h1, hi⟩, if_pos h1]
  · rw [if_neg (fun hh => h1 hh.1), if_neg h1]

variable {k : EvoKernels 𝕜 ℝ} {H : MPO 𝕜} {qd : List Int} {numiter : Nat}

omit [DecidableEq 𝕜] in
/-- the gauge relation after a pair of sites `(j, j+1)` and the bond between them have been rewritten on both sides -/
theorem gaugeRel_pair {U : Nat → Nat → Nat → 𝕜} {s s' t' t'' : Sweep 𝕜} {j : Nat} {Un : Nat → Nat → 𝕜}
    {X'' Y'' : T3 𝕜} {qb'' : List Int} (hj : j + 1 < H.A.length)
    (hsA : ∀ m, m ≠ j → m ≠ j + 1 → getA s' m = getA s m)
    (hsQ : ∀ m, m ≠ j + 1 → getQ s' m = getQ s m)
    (htA : ∀ m, getA t'' m = if m = j then X'' else if m = j + 1 then Y'' else getA t' m)
    (htQ : ∀ m, getQ t'' m = if m = j + 1 then qb'' else getQ t' m)
    (hU : GaugeRel H U s' t') (hUn : IsU (getQ s (j + 1)).length Un) (hqb : qb''.length = (getQ s (j + 1)).length)
    (hX : GT3 (U j) Un (getA s j) X'') (hY : GT3 Un (U (j + 2)) (getA s (j + 1)) Y'') :
    GaugeRel H (Function.update U (j + 1) Un) s t'' := by
  refine ⟨?_, ?_, ?_, ?_, ?_⟩
  · intro m hm
    by_cases h1 : m = j + 1
    · subst h1; rw [Function.update_self]; exact hUn
    · rw [Function.update_of_ne h1, ← hsQ m h1]; exact hU.uni m hm
  · rw [Function.update_of_ne (by omega)]; exact hU.u0
  · rw [Function.update_of_ne (by omega)]; exact hU.uL
  · intro m hm
    rw [htQ]
    by_cases h1 : m = j + 1
    · subst h1; rw [if_pos rfl]; exact hqb
    · rw [if_neg h1, hU.qlen m hm, hsQ m h1]
  · intro m hm
    rw [htA]
    by_cases h1 : m = j
    · subst h1
      rw [if_pos rfl, Function.update_of_ne (by omega), Function.update_self]; exact hX
    · rw [if_neg h1]
      by_cases h2 : m = j + 1
      · subst h2
        rw [if_pos rfl, Function.update_self, Function.update_of_ne (by omega)]; exact hY
      · rw [if_neg h2, Function.update_of_ne h2, Function.update_of_ne (by omega), ← hsA m h1 h2]
        exact hU.ten m hm

omit [DecidableEq 𝕜] in
/-- the gauge relation after the tensor of one site has been rewritten on both sides -/
theorem gaugeRel_site {U : Nat → Nat → Nat → 𝕜} {s s' t' t'' : Sweep 𝕜} {c : Nat} {X'' : T3 𝕜}
    (hsA : ∀ m, m ≠ c → getA s' m = getA s m) (hsQ : ∀ m, getQ s' m = getQ s m)
    (htA : ∀ m, getA t'' m = if m = c then X'' else getA t' m) (htQ : ∀ m, getQ t'' m = getQ t' m)
    (hU : GaugeRel H U s' t') (hX : GT3 (U c) (U (c + 1)) (getA s c) X'') : GaugeRel H U s t'' := by
  refine ⟨fun m hm => by rw [← hsQ m]; exact hU.uni m hm, hU.u0, hU.uL,
    fun m hm => by rw [htQ, hU.qlen m hm, hsQ], ?_⟩
  intro m hm
  rw [htA]
  by_cases h1 : m = c
  · subst h1; rw [if_pos rfl]; exact hX
  · rw [if_neg h1, ← hsA m h1]; exact hU.ten m hm

/-- **A backward-sweep step with `dt` is undone, up to a unitary gauge on the bonds, by the mirrored forward-sweep step
with `-dt` started from any gauge-equivalent state.** -/
theorem pairRL_gauge (ctx : SweepCtx k H qd numiter) {inv : Bool} {s s' t' t'' : Sweep 𝕜} {j : Nat} {dt : 𝕜}
    (h : Canon H qd s (j + 1))
    (hR : tdvp1Right k H qd dt numiter s (j + 1) = .ok s')
    (hg : GaugeEq H qd s' t' j)
    (hL : tdvp1Left k H qd (-dt) numiter t' j = .ok t'')
    (hexR : RightExact inv k H qd dt numiter s (j + 1)) (hexL : LeftExact true k H qd (-dt) numiter t' j)
    (hexp : ∀ (a : 𝕜) (x : ℝ), k.dexp (a * (x : 𝕜)) * k.dexp (-a * (x : 𝕜)) = 1) :
    GaugeEq H qd s t'' (j + 1) := by
  obtain ⟨hcs', hct', U, hU⟩ := hg
  have hi : j + 1 < H.A.length := h.hc
  have hct'' : Canon H qd t'' (j + 1) := tdvp1Left_canon ctx hct' hi hL
  -- the first call
  obtain ⟨Q, C, qb, BRn, C1, Ap2, h1, h2, h3, _, h4, hs'⟩ := tdvp1Right_unfold hR
  obtain ⟨hX0, hX1, hsq, _⟩ := hexR Q C qb BRn C1 h1 h2 h3
  simp only [Nat.add_sub_cancel] at h4 hs' hX1
  -- the second call
  obtain ⟨A1', Q', C', qb', BLn', C1', g1, g2, g3, g4, _, ht''⟩ := tdvp1Left_unfold hL
  obtain ⟨hX1', hX0', hsq', hinv0'⟩ := hexL A1' Q' C' qb' BLn' g1 g2 g3
  have hinv' := hinv0' rfl
  obtain ⟨p0, p1, p2⟩ := h.wf.shape j (by omega)
  obtain ⟨s0, s1, s2⟩ := h.wf.shape (j + 1) hi
  have hrm := right_move_canon ctx h h1 h2
  dsimp only at hrm
  obtain ⟨hAiIso, ai0, ai1, ai2, hqbpos, hCtm, hCtn, hAcf, hFB, hHB, hcanC⟩ := hrm
  set Ai : T3 𝕜 := (T3.ofFlattenLeft Q (getA s (j + 1)).d0 (getA s (j + 1)).d2).swap12.tab with hAi
  set Ct : Mat 𝕜 := C.transpose.tab with hCt
  set P : T3 𝕜 := getA s j with hP
  obtain ⟨c0, c1⟩ := bondStep_dims h3
  have hcan := hcanC C1 c0 c1
  set Ap' : T3 𝕜 := pushRight P C1 with hAp'
  have ap0 : Ap'.d0 = P.d0 := rfl
  have ap1 : Ap'.d1 = P.d1 := rfl
  have ap2 : Ap'.d2 = C1.n := rfl
  have hjs : j < s.A.size := by rw [h.wf.sizeA]; omega
  have hj1s : j + 1 < s.A.size := by rw [h.wf.sizeA]; omega
  -- the one-site operator at site `j` of the first call
  obtain ⟨hFj, hHj⟩ := canon_local hcan ctx.hH ctx.herm
  have gA : getA (⟨(s.A.setIfInBounds (j + 1) Ai).setIfInBounds j Ap', s.qD.setIfInBounds (j + 1) (QN.neg qb), s.BL,
      s.BR.setIfInBounds j BRn⟩ : Sweep 𝕜) j = Ap' := getD_setIfInBounds_eq _ _ _ (by simpa using hjs)
  have gR : getBR (⟨(s.A.setIfInBounds (j + 1) Ai).setIfInBounds j Ap', s.qD.setIfInBounds (j + 1) (QN.neg qb), s.BL,
      s.BR.setIfInBounds j BRn⟩ : Sweep 𝕜) j = BRn := getD_setIfInBounds_eq _ _ _ (by rw [h.sizeBR]; omega)
  rw [gA, gR] at hFj hHj
  have hFj' : LocalFits (getBL s j) BRn (H.A.getD j zeroT4) Ap'.d0 Ap'.d1 Ap'.d2 := hFj
  have hHj' : LocalHermitian (getBL s j) BRn (H.A.getD j zeroT4) Ap'.d0 Ap'.d1 Ap'.d2 := hHj
  -- reading the state `s'`
  have hs'A : ∀ m, getA s' m = if m = j then Ap2 else if m = j + 1 then Ai else getA s m := by
    intro m; rw [hs']; exact getD_set2 s.A Ai Ap2 emptyT3 hj1s hjs m
  have hs'Q : ∀ m, getQ s' m = if m = j + 1 then QN.neg qb else getQ s m := by
    intro m; rw [hs']; exact getD_set1 s.qD (QN.neg qb) [] (by rw [h.wf.sizeQ]; omega) m
  have hs'BL : ∀ m, getBL s' m = getBL s m := by intro m; rw [hs']; rfl
  have hs'BR : getBR s' j = BRn := by rw [hs']; exact getD_setIfInBounds_eq _ _ _ (by rw [h.sizeBR]; omega)
  have eA2 : getA s' j = Ap2 := by rw [hs'A, if_pos rfl]
  have eAi : getA s' (j + 1) = Ai := by rw [hs'A, if_neg (by omega), if_pos rfl]
  have eQj : getQ s' j = getQ s j := by rw [hs'Q, if_neg (by omega)]
  have eQj1 : getQ s' (j + 1) = QN.neg qb := by rw [hs'Q, if_pos rfl]
  -- gauge data at the centre `j` of `s'`, `t'`
  have hTj : GT3 (U j) (U (j + 1)) Ap2 (getA t' j) := by have := hU.ten j (by omega); rwa [eA2] at this
  have hTj1 : GT3 (U (j + 1)) (U (j + 2)) Ai (getA t' (j + 1)) := by have := hU.ten (j + 1) hi; rwa [eAi] at this
  have hBLj : GBL (U j) (getBL s j) (getBL t' j) := by
    have := gaugeRel_bl hcs' hct' ctx.hH hU (Nat.le_refl j); rwa [hs'BL] at this
  have hBRj : GBR (U (j + 1)) BRn (getBR t' j) := by
    have := gaugeRel_br hcs' hct' ctx.hH hU (Nat.le_refl j) (by omega); rwa [hs'BR] at this
  have hUj : IsU P.d1 (U j) := by have := hU.uni j (by omega); rwa [eQj, ← p1] at this
  have hqbn : qb.length = C1.n := by rw [c1, hCtn]
  have hUj1 : IsU C1.n (U (j + 1)) := by
    have := hU.uni (j + 1) (by omega); rwa [eQj1, neg_len, hqbn] at this
  obtain ⟨a20, a21, a22⟩ := localStep_dims h4
  -- 1. the two one-site half steps cancel
  obtain ⟨hFt, hHt⟩ := canon_local hct' ctx.hH ctx.herm
  rw [hTj.d0, hTj.d1, hTj.d2, a20, a21, a22] at hFt hHt
  have g1' : localHamiltonianStep k (getBL t' j) (getBR t' j) (H.A.getD j zeroT4) (getA t' j) (-(k.half * dt)) numiter =
      .ok A1' := by
    have e : k.half * -dt = -(k.half * dt) := by ring
    rw [e] at g1; exact g1
  have r1 : GT3 (U j) (U (j + 1)) Ap' A1' :=
    localStep_cancel_gauge2 ctx.norm hFj' hHj' hFt hHt hUj (by rw [ap2]; exact hUj1) hBLj hBRj (ctx.eigh _ _) hX1 h4 hTj
      (ctx.eigh _ _) hX1' g1' (fun x => hexp _ x)
  -- 2. the second QR
  have hm2 : 0 < A1'.flattenLeft.tab.m := by
    show 0 < A1'.d0 * A1'.d1
    rw [r1.d0, r1.d1, ap0, ap1, p0, p1]; exact Nat.mul_pos ctx.dpos (h.wf.qpos j (by omega))
  have hn2 : 0 < A1'.flattenLeft.tab.n := by
    show 0 < A1'.d2
    rw [r1.d2, ap2, ← hqbn]; exact hqbpos
  have hf2 := qr_facts ctx.qr.contract hm2 hn2 g2
  set Ai' : T3 𝕜 := (T3.ofFlattenLeft Q' A1'.d0 A1'.d1).tab with hAi'
  have hAi'Iso : LeftIso Ai' := leftQR_iso hf2
  have hqt : (getQ t' (j + 1)).length = qb.length := by rw [hU.qlen (j + 1) (by omega), eQj1, neg_len]
  have hD : qb'.length = P.d2 := by rw [hsq', hqt, hsq, p2]
  have q0 : Ai'.d0 = P.d0 := r1.d0
  have q1 : Ai'.d1 = P.d1 := r1.d1
  have q2 : Ai'.d2 = P.d2 := by show Q'.n = _; rw [hf2.Qn]; exact hD
  have hC'n : C'.n = C1.n := hf2.Rn.trans r1.d2
  have hC'm : C'.m = P.d2 := hf2.Rm.trans hD
  have hC1m : C1.m = P.d2 := by rw [c0, hCtm, p2]
  have hAi'f : ∀ s' a p, s' < P.d0 → a < P.d1 → p < P.d2 → Ai'.f s' a p = Q'.f (s' * P.d1 + a) p := by
    intro s' a p hs' ha hp
    rw [hAi', Env.t3_tab_f (A := T3.ofFlattenLeft Q' A1'.d0 A1'.d1) (by show s' < A1'.d0; rw [r1.d0]; exact hs')
      (by show a < A1'.d1; rw [r1.d1]; exact ha) (by show p < Q'.n; rw [hf2.Qn, hD]; exact hp)]
    show Q'.f (s' * A1'.d1 + a) p = _
    rw [r1.d1]; rfl
  have hprod : ∀ s' a' x, s' < P.d0 → a' < P.d1 → x < C1.n →
      ∑ p ∈ range P.d2, Ai'.f s' a' p * C'.f p x =
        ∑ a ∈ range P.d1, ∑ b ∈ range C1.n, star (U j a a') * (∑ q ∈ range P.d2, P.f s' a q * C1.f q b) *
          U (j + 1) b x := by
    intro s' a' x hs' ha' hx
    have hr : s' * A1'.d1 + a' < A1'.d0 * A1'.d1 :=
      Ortho.fused_lt (by rw [r1.d0]; exact hs') (by rw [r1.d1]; exact ha')
    have := hf2.prod (s' * A1'.d1 + a') x hr (by show x < A1'.d2; rw [r1.d2]; exact hx)
    rw [Mat.tab_f A1'.flattenLeft hr (by show x < A1'.d2; rw [r1.d2]; exact hx), hD] at this
    have e : A1'.flattenLeft.f (s' * A1'.d1 + a') x = A1'.f s' a' x := by
      show A1'.f ((s' * A1'.d1 + a') / A1'.d1) ((s' * A1'.d1 + a') % A1'.d1) x = _
      rw [Ortho.fused_div (by rw [r1.d1]; exact ha'), Ortho.fused_mod (by rw [r1.d1]; exact ha')]
    rw [e, r1.f s' a' x hs' ha' hx] at this
    rw [r1.d1, ap1] at this
    have e2 : ∀ p ∈ range P.d2, Ai'.f s' a' p * C'.f p x = Q'.f (s' * P.d1 + a') p * C'.f p x := fun p hp => by
      rw [hAi'f s' a' p hs' ha' (mem_range.1 hp)]
    rw [sum_congr rfl e2, this]
    refine sum_congr rfl fun a ha => sum_congr rfl fun b hb => ?_
    rw [hAp', pushRight_f P C1 hs' (mem_range.1 ha) (mem_range.1 hb)]
  obtain ⟨Un, hUn, hXn, hCn⟩ := qr_gauge_left2 (h.liso j (by omega)) hAi'Iso q0 q1 q2 hC1m hC'm hC'n hUj hprod
    (by rw [← hD]; exact hinv')
  -- reading the state `t''`
  have htjs : j < t'.A.size := by rw [hct'.wf.sizeA]; omega
  have htj1s : j + 1 < t'.A.size := by rw [hct'.wf.sizeA]; omega
  set Y'' : T3 𝕜 := pushLeft (getA t' (j + 1)) C1' with hY''
  have ht''A : ∀ m, getA t'' m = if m = j then Ai' else if m = j + 1 then Y'' else getA t' m := by
    intro m
    rw [ht'']
    show ((t'.A.setIfInBounds j Ai').setIfInBounds (j + 1) Y'').getD m emptyT3 = _
    rw [getD_set2 t'.A Ai' Y'' emptyT3 htjs htj1s m]
    by_cases h1 : m = j
    · subst h1; rw [if_neg (by omega), if_pos rfl, if_pos rfl]
    · rw [if_neg h1, if_neg h1]; rfl
  have ht''Q : ∀ m, getQ t'' m = if m = j + 1 then qb' else getQ t' m := by
    intro m; rw [ht'']; exact getD_set1 t'.qD qb' [] (by rw [hct'.wf.sizeQ]; omega) m
  have ht''BL : getBL t'' (j + 1) = BLn' := by
    rw [ht'']; exact getD_setIfInBounds_eq _ _ _ (by rw [hct'.sizeBL]; omega)
  -- 3. the new left block, through an auxiliary state whose centre tensor is the gauge transform of that of `s`
  have hs'A' : ∀ m, m ≠ j → m ≠ j + 1 → getA s' m = getA s m := fun m h1 h2 => by rw [hs'A, if_neg h1, if_neg h2]
  have hs'Q' : ∀ m, m ≠ j + 1 → getQ s' m = getQ s m := fun m h1 => by rw [hs'Q, if_neg h1]
  have hUnq : IsU (getQ s (j + 1)).length Un := by rw [← p2]; exact hUn
  have hqb'q : qb'.length = (getQ s (j + 1)).length := by rw [hD, p2]
  set X0 : T3 𝕜 := gaugeT3 Un (U (j + 2)) (getA s (j + 1)) with hX0def
  have hX0g : GT3 Un (U (j + 2)) (getA s (j + 1)) X0 := gT3_gaugeT3 _ _ _
  have hj1t'' : j + 1 < t''.A.size := by rw [hct''.wf.sizeA]; exact hi
  obtain ⟨y0, y1, y2⟩ := hct''.wf.shape (j + 1) hi
  have hcan0 := canon_replace hct'' (X := X0)
    ⟨by rw [hX0g.d0, s0, y0], by rw [hX0g.d1, s1, y1, ht''Q, if_pos rfl, hqb'q],
     by rw [hX0g.d2, s2, y2, ht''Q, if_neg (by omega), hU.qlen (j + 2) (by omega), hs'Q' (j + 2) (by omega)]⟩
  set t0 : Sweep 𝕜 := ⟨t''.A.setIfInBounds (j + 1) X0, t''.qD, t''.BL, t''.BR⟩ with ht0
  have ht0A : ∀ m, getA t0 m = if m = j then Ai' else if m = j + 1 then X0 else getA t' m := by
    intro m
    show (t''.A.setIfInBounds (j + 1) X0).getD m emptyT3 = _
    rw [getD_set1 t''.A X0 emptyT3 hj1t'' m]
    by_cases h1 : m = j + 1
    · subst h1; rw [if_pos rfl, if_neg (by omega), if_pos rfl]
    · rw [if_neg h1]
      show getA t'' m = _
      rw [ht''A m]
      by_cases h2 : m = j
      · rw [if_pos h2, if_pos h2]
      · rw [if_neg h2, if_neg h2, if_neg h1, if_neg h1]
  have hrel0 : GaugeRel H (Function.update U (j + 1) Un) s t0 :=
    gaugeRel_pair hi hs'A' hs'Q' ht0A (fun m => ht''Q m) hU hUnq hqb'q hXn hX0g
  have hBLn : GBL Un (getBL s (j + 1)) BLn' := by
    have := gaugeRel_bl h hcan0 ctx.hH hrel0 (Nat.le_refl (j + 1))
    rw [Function.update_self] at this
    have e : getBL t0 (j + 1) = BLn' := ht''BL
    rwa [e] at this
  -- 4. the two zero-site steps cancel
  have hFt' : LocalFits (getBL t' j) (getBR t' j) (H.A.getD j zeroT4) Ai'.d0 Ai'.d1 C1.n := by
    rw [q0, q1]; exact hFt
  have hHt' : LocalHermitian (getBL t' j) (getBR t' j) (H.A.getD j zeroT4) Ai'.d0 Ai'.d1 C1.n := by
    rw [q0, q1]; exact hHt
  obtain ⟨hFBt, hHBt⟩ := bondHermitian_left hFt' hHt' g3
  have hCtmP : Ct.m = P.d2 := hCtm.trans p2.symm
  have hCtnC : Ct.n = C1.n := c1.symm
  have g4' : localBondStep k BLn' (getBR t' j) C' (-(-(k.half * dt))) numiter = .ok C1' := by
    have e : -(k.half * -dt) = -(-(k.half * dt)) := by ring
    rw [e] at g4; exact g4
  have r2 : GMat Un (U (j + 1)) Ct C1' :=
    bondStep_cancel_gauge2 ctx.norm hFB hHB (by rw [hCtmP, hCtnC, ← q2]; exact hFBt) (by rw [hCtmP, hCtnC, ← q2]; exact hHBt)
      (by rw [hCtmP]; exact hUn) (by rw [hCtnC]; exact hUj1) hBLn hBRj (ctx.eigh _ _) hX0 h3 hCn (ctx.eigh _ _) hX0' g4'
      (fun x => hexp _ x)
  -- 5. the tensor pushed into site `j+1`
  have hY : GT3 Un (U (j + 2)) (getA s (j + 1)) Y'' := by
    refine gT3_mulLeft (P := Ai) (C := Ct) (by rw [ai1, hqbn]; exact hUj1) r2 hTj1 (by rw [hCtn, ai1])
      ⟨s0.trans ai0.symm, s1.trans hCtm.symm, s2.trans ai2.symm, ?_⟩ (pushLeft_eqv _ _)
    intro a x b ha hx hb
    exact (hAcf a x b (by rw [← s0]; exact ha) (by rw [← s1]; exact hx) (by rw [← s2]; exact hb)).symm
  exact ⟨h, hct'', _, gaugeRel_pair hi hs'A' hs'Q' ht''A ht''Q hU hUnq hqb'q hXn hY⟩

/-- **A forward-sweep step with `dt` is undone, up to a unitary gauge on the bonds, by the mirrored backward-sweep step
with `-dt` started from any gauge-equivalent state.** -/
theorem pairLR_gauge (ctx : SweepCtx k H qd numiter) {inv : Bool} {s s' t' t'' : Sweep 𝕜} {i : Nat} {dt : 𝕜}
    (h : Canon H qd s i) (hi1 : i + 1 < H.A.length)
    (hLr : tdvp1Left k H qd dt numiter s i = .ok s')
    (hg : GaugeEq H qd s' t' (i + 1))
    (hRr : tdvp1Right k H qd (-dt) numiter t' (i + 1) = .ok t'')
    (hexL : LeftExact inv k H qd dt numiter s i) (hexR : RightExact true k H qd (-dt) numiter t' (i + 1))
    (hexp : ∀ (a : 𝕜) (x : ℝ), k.dexp (a * (x : 𝕜)) * k.dexp (-a * (x : 𝕜)) = 1) :
    GaugeEq H qd s t'' i := by
  obtain ⟨hcs', hct', U, hU⟩ := hg
  have hct'' : Canon H qd t'' i := tdvp1Right_canon ctx hct' hRr
  -- the first call
  obtain ⟨A1, Q, C, qb, BLn, C1, h1, h2, h3, h4, _, hs'⟩ := tdvp1Left_unfold hLr
  obtain ⟨hX1, hX0, hsq, _⟩ := hexL A1 Q C qb BLn h1 h2 h3
  -- the second call
  obtain ⟨Qu, Cu, qbu, BRu, C1u, Ap2u, k1, k2, k3, _, k4, ht''⟩ := tdvp1Right_unfold hRr
  obtain ⟨hX0u, hX1u, hsqu, hinvu0⟩ := hexR Qu Cu qbu BRu C1u k1 k2 k3
  have hinvu := hinvu0 rfl
  simp only [Nat.add_sub_cancel] at k4 ht'' hX1u
  obtain ⟨p0, p1, p2⟩ := h.wf.shape i (by omega)
  obtain ⟨n0, n1, n2⟩ := h.wf.shape (i + 1) hi1
  have his : i < s.A.size := by rw [h.wf.sizeA]; omega
  have hi1s : i + 1 < s.A.size := by rw [h.wf.sizeA]; omega
  obtain ⟨a0, a1, a2⟩ := localStep_dims h1
  -- QR of the first call
  have hm : 0 < A1.flattenLeft.tab.m := by
    show 0 < A1.d0 * A1.d1
    rw [a0, a1, p0, p1]; exact Nat.mul_pos ctx.dpos (h.wf.qpos i (by omega))
  have hn : 0 < A1.flattenLeft.tab.n := by
    show 0 < A1.d2
    rw [a2, p2]; exact h.wf.qpos (i + 1) (by omega)
  have hf := qr_facts ctx.qr.contract hm hn h2
  set Ai : T3 𝕜 := (T3.ofFlattenLeft Q A1.d0 A1.d1).tab with hAi
  have hAiIso : LeftIso Ai := leftQR_iso hf
  have hAi2 : Ai.d2 = qb.length := hf.Qn
  have hCm : C.m = Ai.d2 := hf.Rm.trans hAi2.symm
  have hCn : C.n = A1.d2 := hf.Rn
  have hA1 : ∀ a x b, a < A1.d0 → x < A1.d1 → b < A1.d2 → (mulRight Ai C).f a x b = A1.f a x b := by
    intro a x b ha hx hb
    have hr : a * A1.d1 + x < A1.d0 * A1.d1 := fused_lt ha hx
    have := hf.prod (a * A1.d1 + x) b hr hb
    rw [Mat.tab_f A1.flattenLeft hr hb] at this
    show ∑ p ∈ range Ai.d2, Ai.f a x p * C.f p b = _
    rw [hAi2]
    have e : A1.flattenLeft.f (a * A1.d1 + x) b = A1.f a x b := by
      show A1.f ((a * A1.d1 + x) / A1.d1) ((a * A1.d1 + x) % A1.d1) b = _
      rw [fused_div hx, fused_mod hx]
    rw [← e, ← this]
    refine sum_congr rfl fun p hp => ?_
    rw [hAi, Env.t3_tab_f (A := T3.ofFlattenLeft Q A1.d0 A1.d1) ha hx (by show p < Q.n; rw [hf.Qn]; exact mem_range.1 hp)]
    rfl
  -- effective operators of the first call
  obtain ⟨hF, hH⟩ := canon_local h ctx.hH ctx.herm
  have hF' : LocalFits (getBL s i) (getBR s i) (H.A.getD i zeroT4) Ai.d0 Ai.d1 A1.d2 := by
    show LocalFits _ _ _ A1.d0 A1.d1 A1.d2
    rw [a0, a1, a2]; exact hF
  have hH' : LocalHermitian (getBL s i) (getBR s i) (H.A.getD i zeroT4) Ai.d0 Ai.d1 A1.d2 := by
    show LocalHermitian _ _ _ A1.d0 A1.d1 A1.d2
    rw [a0, a1, a2]; exact hH
  obtain ⟨hFB, hHB⟩ := bondHermitian_left hF' hH' h3
  have hFB' : BondFits BLn (getBR s i) C.m C.n := by rw [hCm, hCn]; exact hFB
  have hHB' : BondHermitian BLn (getBR s i) C.m C.n := by rw [hCm, hCn]; exact hHB
  obtain ⟨c0, c1⟩ := bondStep_dims h4
  set Pn : T3 𝕜 := getA s (i + 1) with hPn
  have hPnIso : RightIso Pn := h.riso (i + 1) (by omega) hi1
  -- reading the state `s'`
  have hs'A : ∀ m, getA s' m = if m = i then Ai else if m = i + 1 then pushLeft Pn C1 else getA s m := by
    intro m
    rw [hs']
    show ((s.A.setIfInBounds i Ai).setIfInBounds (i + 1) (pushLeft Pn C1)).getD m emptyT3 = _
    rw [getD_set2 s.A Ai (pushLeft Pn C1) emptyT3 his hi1s m]
    by_cases e1 : m = i
    · subst e1; rw [if_neg (by omega), if_pos rfl, if_pos rfl]
    · rw [if_neg e1, if_neg e1]; rfl
  have hs'Q : ∀ m, getQ s' m = if m = i + 1 then qb else getQ s m := by
    intro m; rw [hs']; exact getD_set1 s.qD qb [] (by rw [h.wf.sizeQ]; omega) m
  have hs'BL : ∀ m, getBL s' m = if m = i + 1 then BLn else getBL s m := by
    intro m; rw [hs']; exact getD_set1 s.BL BLn emptyT3 (by rw [h.sizeBL]; omega) m
  have eAi : getA s' i = Ai := by rw [hs'A, if_pos rfl]
  have eAn : getA s' (i + 1) = pushLeft Pn C1 := by rw [hs'A, if_neg (by omega), if_pos rfl]
  have eQi : getQ s' i = getQ s i := by rw [hs'Q, if_neg (by omega)]
  have eQi1 : getQ s' (i + 1) = qb := by rw [hs'Q, if_pos rfl]
  have eQi2 : getQ s' (i + 2) = getQ s (i + 2) := by rw [hs'Q, if_neg (by omega)]
  -- gauge data
  have hTi : GT3 (U i) (U (i + 1)) Ai (getA t' i) := by have := hU.ten i (by omega); rwa [eAi] at this
  have hTi1 : GT3 (U (i + 1)) (U (i + 2)) (pushLeft Pn C1) (getA t' (i + 1)) := by
    have := hU.ten (i + 1) hi1; rwa [eAn] at this
  have hBLi : GBL (U i) (getBL s i) (getBL t' i) := by
    have := gaugeRel_bl hcs' hct' ctx.hH hU (Nat.le_succ i); rwa [hs'BL, if_neg (by omega)] at this
  have hBLi1 : GBL (U (i + 1)) BLn (getBL t' (i + 1)) := by
    have := gaugeRel_bl hcs' hct' ctx.hH hU (Nat.le_refl (i + 1)); rwa [hs'BL, if_pos rfl] at this
  have hUi : IsU (getQ s i).length (U i) := by have := hU.uni i (by omega); rwa [eQi] at this
  have hUi1 : IsU qb.length (U (i + 1)) := by have := hU.uni (i + 1) (by omega); rwa [eQi1] at this
  have hUi2 : IsU (getQ s (i + 2)).length (U (i + 2)) := by have := hU.uni (i + 2) (by omega); rwa [eQi2] at this
  -- structure of the second call
  have hrm := right_move_canon ctx hct' k1 k2
  dsimp only at hrm
  obtain ⟨hAiuIso, au0, au1, au2, hqbupos, hCtum, hCtun, hAcfu, hFBu, hHBu, hcanCu⟩ := hrm
  set Aiu : T3 𝕜 := (T3.ofFlattenLeft Qu (getA t' (i + 1)).d0 (getA t' (i + 1)).d2).swap12.tab with hAiu
  set Ctu : Mat 𝕜 := Cu.transpose.tab with hCtu
  have hqt1 : (getQ t' (i + 1)).length = qb.length := by rw [hU.qlen (i + 1) (by omega), eQi1]
  have hqt2 : (getQ t' (i + 2)).length = (getQ s (i + 2)).length := by rw [hU.qlen (i + 2) (by omega), eQi2]
  have hqbu : qbu.length = (getQ s (i + 1)).length := by rw [hsqu, hqt1, hsq]
  have hC1n : C1.n = Pn.d1 := by rw [c1, hCn, a2, p2, n1]
  have hC1m : C1.m = qb.length := by rw [c0, hCm, hAi2]
  -- 1. the QR of the second call returns the old right isometry up to a unitary
  have hprod : ∀ s0 x' b', s0 < Pn.d0 → x' < C1.m → b' < Pn.d2 →
      ∑ p ∈ range Pn.d1, Ctu.f x' p * Aiu.f s0 p b' =
        ∑ x ∈ range C1.m, ∑ b ∈ range Pn.d2, star (U (i + 1) x x') * (∑ q ∈ range Pn.d1, C1.f x q * Pn.f s0 q b) *
          U (i + 2) b b' := by
    intro s0 x' b' hs0 hx' hb'
    have e1 := hAcfu s0 x' b' (by rw [← n0]; exact hs0) (by rw [hqt1, ← hC1m]; exact hx') (by rw [hqt2, ← n2]; exact hb')
    have e2 : (mulLeft Ctu Aiu).f s0 x' b' = ∑ p ∈ range Pn.d1, Ctu.f x' p * Aiu.f s0 p b' := by
      show ∑ p ∈ range Aiu.d1, Ctu.f x' p * Aiu.f s0 p b' = _
      rw [au1, hqbu, ← n1]
    rw [← e2, e1, hTi1.f s0 x' b' (by show s0 < Pn.d0; exact hs0) (by show x' < C1.m; exact hx')
      (by show b' < Pn.d2; exact hb')]
    show ∑ x ∈ range C1.m, ∑ b ∈ range Pn.d2, _ = _
    refine sum_congr rfl fun x hx => sum_congr rfl fun b hb => ?_
    rw [pushLeft_f Pn C1 hs0 (mem_range.1 hx) (mem_range.1 hb)]
    congr 2
    exact sum_congr rfl fun q _ => mul_comm _ _
  have hinvt : ∃ Cinv : Mat 𝕜, ∀ p p', p < Pn.d1 → p' < Pn.d1 →
      ∑ x ∈ range Ctu.m, Ctu.f x p * Cinv.f x p' = if p = p' then 1 else 0 := by
    obtain ⟨Cinv, hCinv⟩ := hinvu
    refine ⟨Cinv, fun p p' hp hp' => ?_⟩
    have hpq : p < qbu.length := by rw [hqbu, ← n1]; exact hp
    have hpq' : p' < qbu.length := by rw [hqbu, ← n1]; exact hp'
    rw [← hCinv p p' hpq hpq']
    show ∑ x ∈ range Cu.n, _ = _
    refine sum_congr rfl fun x hx => ?_
    rw [hCtu, Env.mat_tab_f Cu.transpose (by show x < Cu.n; exact mem_range.1 hx)
      (by show p < Cu.m; have : Ctu.n = Cu.m := rfl; rw [← this, hCtun]; exact hpq)]
    rfl
  obtain ⟨V, hV, hQV, hCV⟩ := qr_gauge_right2 (C1 := C1) (C' := Ctu) (Ul := U (i + 1)) hPnIso hAiuIso (au0.trans n0.symm)
    (by rw [au1, hqbu, n1]) (by rw [au2, hqt2, n2]) hC1n (by rw [hCtun, hqbu, n1]) (by rw [hCtum, hqt1, hC1m])
    (by rw [n2]; exact hUi2) hprod hinvt
  -- reading the state `t''`
  have htis : i < t'.A.size := by rw [hct'.wf.sizeA]; omega
  have hti1s : i + 1 < t'.A.size := by rw [hct'.wf.sizeA]; omega
  have ht''A : ∀ m, getA t'' m = if m = i then Ap2u else if m = i + 1 then Aiu else getA t' m := by
    intro m; rw [ht'']; exact getD_set2 t'.A Aiu Ap2u emptyT3 hti1s htis m
  have ht''Q : ∀ m, getQ t'' m = if m = i + 1 then QN.neg qbu else getQ t' m := by
    intro m; rw [ht'']; exact getD_set1 t'.qD (QN.neg qbu) [] (by rw [hct'.wf.sizeQ]; omega) m
  have ht''BR : getBR t'' i = BRu := by
    rw [ht'']; exact getD_setIfInBounds_eq _ _ _ (by rw [hct'.sizeBR]; omega)
  have hs'A' : ∀ m, m ≠ i → m ≠ i + 1 → getA s' m = getA s m := fun m e1 e2 => by rw [hs'A, if_neg e1, if_neg e2]
  have hs'Q' : ∀ m, m ≠ i + 1 → getQ s' m = getQ s m := fun m e1 => by rw [hs'Q, if_neg e1]
  have hVq : IsU (getQ s (i + 1)).length V := by rw [← n1]; exact hV
  have hnqbu : (QN.neg qbu).length = (getQ s (i + 1)).length := by rw [neg_len]; exact hqbu
  -- 2. the new right block, through an auxiliary state whose centre tensor is the gauge transform of that of `s`
  set X0 : T3 𝕜 := gaugeT3 (U i) V (getA s i) with hX0def
  have hX0g : GT3 (U i) V (getA s i) X0 := gT3_gaugeT3 _ _ _
  have hit'' : i < t''.A.size := by rw [hct''.wf.sizeA]; omega
  obtain ⟨y0, y1, y2⟩ := hct''.wf.shape i (by omega)
  have hcan0 := canon_replace hct'' (X := X0)
    ⟨by rw [hX0g.d0, p0, y0], by rw [hX0g.d1, p1, y1, ht''Q, if_neg (by omega), hU.qlen i (by omega), eQi],
     by rw [hX0g.d2, p2, y2, ht''Q, if_pos rfl, hnqbu]⟩
  set t0 : Sweep 𝕜 := ⟨t''.A.setIfInBounds i X0, t''.qD, t''.BL, t''.BR⟩ with ht0
  have ht0A : ∀ m, getA t0 m = if m = i then X0 else if m = i + 1 then Aiu else getA t' m := by
    intro m
    show (t''.A.setIfInBounds i X0).getD m emptyT3 = _
    rw [getD_set1 t''.A X0 emptyT3 hit'' m]
    by_cases e1 : m = i
    · rw [if_pos e1, if_pos e1]
    · rw [if_neg e1, if_neg e1]
      show getA t'' m = _
      rw [ht''A m, if_neg e1]
  have hrel0 : GaugeRel H (Function.update U (i + 1) V) s t0 :=
    gaugeRel_pair hi1 hs'A' hs'Q' ht0A (fun m => ht''Q m) hU hVq hnqbu hX0g hQV
  have hBRu : GBR V (getBR s i) BRu := by
    have := gaugeRel_br h hcan0 ctx.hH hrel0 (Nat.le_refl i) (by omega)
    rw [Function.update_self] at this
    have e : getBR t0 i = BRu := ht''BR
    rwa [e] at this
  -- 3. the two zero-site steps cancel
  have k3' : localBondStep k (getBL t' (i + 1)) BRu Ctu (-(-(k.half * dt))) numiter = .ok C1u := by
    have e : -(k.half * -dt) = -(-(k.half * dt)) := by ring
    rw [e] at k3; exact k3
  have hCtumC : Ctu.m = C.m := by rw [hCtum, hqt1, hCm, hAi2]
  have hCtunC : Ctu.n = C.n := by rw [hCtun, hqbu, hCn, a2, p2]
  have r2 : GMat (U (i + 1)) V C C1u :=
    bondStep_cancel_gauge2 ctx.norm hFB' hHB' (by rw [← hCtumC, ← hCtunC]; exact hFBu)
      (by rw [← hCtumC, ← hCtunC]; exact hHBu) (by rw [hCm, hAi2]; exact hUi1) (by rw [hCn, a2, p2]; exact hVq) hBLi1 hBRu
      (ctx.eigh _ _) hX0 h4 hCV (ctx.eigh _ _) hX0u k3' (fun x => hexp _ x)
  -- 4. the tensor pushed into site `i`
  set Xp : T3 𝕜 := pushRight (getA t' i) C1u with hXp
  have hXpg : GT3 (U i) V A1 Xp :=
    gT3_mulRight (P := Ai) (C := C) (by rw [hAi2]; exact hUi1) hTi r2 hCm
      ⟨rfl, rfl, hCn.symm, fun a x b ha hx hb => (hA1 a x b ha hx hb).symm⟩ (pushRight_eqv _ _)
  -- 5. the two one-site half steps cancel
  obtain ⟨cu0, cu1⟩ := bondStep_dims k3
  have hcanu := hcanCu C1u cu0 cu1
  obtain ⟨hFu, hHu⟩ := canon_local hcanu ctx.hH ctx.herm
  have gAu : getA (⟨(t'.A.setIfInBounds (i + 1) Aiu).setIfInBounds i Xp, t'.qD.setIfInBounds (i + 1) (QN.neg qbu), t'.BL,
      t'.BR.setIfInBounds i BRu⟩ : Sweep 𝕜) i = Xp := getD_setIfInBounds_eq _ _ _ (by simpa using htis)
  have gRu : getBR (⟨(t'.A.setIfInBounds (i + 1) Aiu).setIfInBounds i Xp, t'.qD.setIfInBounds (i + 1) (QN.neg qbu), t'.BL,
      t'.BR.setIfInBounds i BRu⟩ : Sweep 𝕜) i = BRu := getD_setIfInBounds_eq _ _ _ (by rw [hct'.sizeBR]; omega)
  rw [gAu, gRu] at hFu hHu
  have hFu' : LocalFits (getBL t' i) BRu (H.A.getD i zeroT4) (getA s i).d0 (getA s i).d1 (getA s i).d2 := by
    rw [← a0, ← a1, ← a2, ← hXpg.d0, ← hXpg.d1, ← hXpg.d2]; exact hFu
  have hHu' : LocalHermitian (getBL t' i) BRu (H.A.getD i zeroT4) (getA s i).d0 (getA s i).d1 (getA s i).d2 := by
    rw [← a0, ← a1, ← a2, ← hXpg.d0, ← hXpg.d1, ← hXpg.d2]; exact hHu
  have k4' : localHamiltonianStep k (getBL t' i) BRu (H.A.getD i zeroT4) Xp (-(k.half * dt)) numiter = .ok Ap2u := by
    have e : k.half * -dt = -(k.half * dt) := by ring
    rw [e] at k4; exact k4
  have r3 : GT3 (U i) V (getA s i) Ap2u :=
    localStep_cancel_gauge2 ctx.norm hF hH hFu' hHu' (by rw [p1]; exact hUi) (by rw [p2]; exact hVq) hBLi hBRu
      (ctx.eigh _ _) hX1 h1 hXpg (ctx.eigh _ _) hX1u k4' (fun x => hexp _ x)
  exact ⟨h, hct'', _, gaugeRel_pair hi1 hs'A' hs'Q' ht''A ht''Q hU hVq hnqbu r3 hQV⟩

end Ptn.Evo

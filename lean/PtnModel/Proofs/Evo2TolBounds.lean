import PtnModel.Proofs.Evo2TotDmrg
import PtnModel.Proofs.Evo2Dmrg
/-!
# Two-site DMRG with a genuine truncation (`0 ≤ tol_split < 1`): what still holds

With `tol_split > 0` the energy of the returned state is NOT the last reported energy (known finding F13: the Ritz value is
reported before the truncating split).  Two clauses of C10 survive every truncation and are proved here for every
`0 ≤ tol_split < 1`, `L ≥ 2`:

* `dmrg2Update_lower`  : the energy returned by one merge–minimise–split update is `≥` every lower bound of the dense operator
                         (it is a Ritz value of a compression `P† H P` with `P` an isometry: only the canonical form of the
                         window is used, not the norm of the state);
* `dmrg2Sweep_bounds`  : one sweep returns, keeps the positive-norm invariant `PInv`, leaves a centre tensor of norm one and
                         appends an energy that satisfies the lower bound;
* `dmrg2_tol_bounds`   : every reported energy of `calculate_ground_state_local_twosite` satisfies the lower bound, one energy
                         is reported per sweep, and after at least one sweep the returned state has norm one.
-/
set_option linter.unusedSectionVars false

namespace Ptn.Evo
open Ptn Ptn.BondOps Ptn.Ortho Ptn.Env Ptn.Krylov Ptn.Dense Finset

variable {𝕜 : Type} [RCLike 𝕜] [DecidableEq 𝕜]
variable {k : EvoKernels 𝕜 ℝ} {H : MPO 𝕜} {qd : List Int} {numiter : Nat} {tol : ℝ}

/-- **lower bound of one update**, any tolerance and distribution: only the canonical form of the window is used -/
theorem dmrg2Update_lower (ctx : SweepCtx k H qd numiter) {s s' : Sweep 𝕜} {i distr : Nat} {en : ℝ}
    (h : Canon2 H qd s i) (hrun : dmrg2Update k H qd numiter tol distr s i = .ok (s', en)) :
    ∀ μ, DenseLower H qd.length μ → μ ≤ en := by
  obtain ⟨Aopt, A0, A1, qb, h1, _, _⟩ := dmrg2Update_unfold hrun
  obtain ⟨hF, hHerm⟩ := canon2_local h ctx.hH ctx.herm
  obtain ⟨m0, m1, m2⟩ := mergedA_dims h
  rw [← m0, ← m1, ← m2] at hF hHerm
  have hE := ctx.eigh (localHFun (getBL s i) (getBR s (i + 1)) (mergedW H i) (mergedA s i).d0 (mergedA s i).d1
    (mergedA s i).d2) (flat3 (mergedA s i))
  obtain ⟨_, _, _, _, _, _, _, hlow⟩ := minimize_spec ctx.norm hF hHerm hE h1
  intro μ hμ
  apply hlow
  intro X T x0 x1 x2 hT
  obtain ⟨hnX, heX⟩ := canon2_centre h ctx.hH (X := X) ⟨x0.trans m0, x1.trans m1, x2.trans m2⟩
  have heX' := heX T hT
  have := hμ (fun σ => ampTwo (cur qd s) qd.length i X σ)
  rw [normSq2_real, h.len] at hnX
  have hnX' : ∑ σ ∈ digitsU qd.length H.A.length, ‖ampTwo (cur qd s) qd.length i X σ‖ ^ 2 = frob3 X := by
    exact_mod_cast hnX
  rw [hnX'] at this
  unfold energy2 at heX'
  rw [h.len] at heX'
  rw [heX'] at this
  exact this

theorem dmrg2Right_lower (ctx : SweepCtx k H qd numiter) {s : Sweep 𝕜} {e : ℝ} {i : Nat} {se' : Sweep 𝕜 × ℝ}
    (h : Canon2 H qd s i) (hrun : dmrg2Right k H qd numiter tol (s, e) i = .ok se') :
    ∀ μ, DenseLower H qd.length μ → μ ≤ se'.2 := by
  obtain ⟨s1, en, BRn, h1, _, h3⟩ := dmrg2Right_unfold hrun
  subst h3
  exact dmrg2Update_lower ctx h h1

/-- **one sweep, every tolerance** (`L ≥ 2`): returns, keeps `PInv`, centre tensor of norm one, the appended energy is bounded
below -/
theorem dmrg2Sweep_bounds (ctx : SweepCtx k H qd numiter) (hk : Compress.SvdKernel k.svd) (hm : 1 ≤ numiter)
    (hH : HistWf.HOk H qd) (ht0 : 0 ≤ tol) (ht1 : tol < 1) (hL2 : 2 ≤ H.A.length) {s : Sweep 𝕜} {es : List ℝ}
    (h : PInv H qd s 0) :
    ∃ se' e, dmrg2Sweep k H qd numiter tol (s, es) = .ok se' ∧ PInv H qd se'.1 0 ∧ frob3 (getA se'.1 0) = 1 ∧
      se'.2 = es ++ [e] ∧ ∀ μ, DenseLower H qd.length μ → μ ≤ e := by
  obtain ⟨⟨s1, e1⟩, h1, hs1⟩ := foldIdx_range_ok (dmrg2Left k H qd numiter tol)
    (fun i (t : Sweep 𝕜 × ℝ) => PInv H qd t.1 i) (H.A.length - 2)
    (fun i hi t ht => by
      obtain ⟨t1, t2⟩ := t
      exact dmrg2Left_ok ctx hk hm hH ht0 ht1 (PInv.toWL ht (by omega) ctx.hH))
    (s, (0 : ℝ)) h
  obtain ⟨⟨s2, e2⟩, h2, hs2⟩ := foldIdx_rev_ok (dmrg2Right k H qd numiter tol)
    (fun j (t : Sweep 𝕜 × ℝ) => PInv H qd t.1 (min j (H.A.length - 2)) ∧
      (j < H.A.length - 1 → ∀ μ, DenseLower H qd.length μ → μ ≤ t.2)) (H.A.length - 1)
    (fun i hi t ht => by
      obtain ⟨t1, t2⟩ := t
      obtain ⟨ht, _⟩ := ht
      dsimp only at ht
      have hw : WInv H qd t1 i := by
        by_cases hc : i = H.A.length - 2
        · have e : min (i + 1) (H.A.length - 2) = i := by omega
          rw [e] at ht
          exact PInv.toWL ht (by omega) ctx.hH
        · have e : min (i + 1) (H.A.length - 2) = i + 1 := by omega
          rw [e] at ht
          exact PInv.toWR ht ctx.hH
      have e : min i (H.A.length - 2) = i := by omega
      obtain ⟨se', hr', hP'⟩ := dmrg2Right_ok (e := t2) ctx hk hm hH ht0 ht1 hw
      refine ⟨se', hr', ?_, fun _ => dmrg2Right_lower ctx hw.can hr'⟩
      rw [e]; exact hP')
    (s1, e1) ⟨by
      have e : min (H.A.length - 1) (H.A.length - 2) = H.A.length - 2 := by omega
      dsimp only
      rw [e]; exact hs1, fun hlt => absurd hlt (lt_irrefl _)⟩
  obtain ⟨hs2', hlow2⟩ := hs2
  have hs2'' : PInv H qd s2 0 := by simpa using hs2'
  have hlow := hlow2 (by omega)
  dsimp only at hlow
  obtain ⟨s3, h3, hs3, hf3⟩ := normalizeP ctx hs2''
  refine ⟨(s3, es ++ [e2]), e2, ?_, hs3, hf3, rfl, hlow⟩
  unfold dmrg2Sweep
  rw [bind_ok]
  refine ⟨(s1, e1), h1, ?_⟩
  dsimp only
  rw [bind_ok]
  refine ⟨(s2, e2), h2, ?_⟩
  dsimp only
  rw [bind_ok]
  exact ⟨s3, h3, rfl⟩

/-- `iterate` with an invariant that may depend on the number of steps done -/
theorem iterate_ok_idx {σ : Type} (f : σ → Except Err σ) (P : Nat → σ → Prop)
    (step : ∀ j s, P j s → ∃ s', f s = .ok s' ∧ P (j + 1) s') :
    ∀ (n j : Nat) (s : σ), P j s → ∃ r, iterate f n s = .ok r ∧ P (j + n) r
  | 0, j, s, h => ⟨s, rfl, h⟩
  | n + 1, j, s, h => by
    obtain ⟨s', h1, hs'⟩ := step j s h
    obtain ⟨r, h2, hr⟩ := iterate_ok_idx f P step n (j + 1) s' hs'
    refine ⟨r, ?_, by rw [show j + (n + 1) = j + 1 + n by omega]; exact hr⟩
    unfold iterate
    rw [bind_ok]
    exact ⟨s', h1, h2⟩

/-- **`calculate_ground_state_local_twosite`, every `0 ≤ tol_split < 1`, `L ≥ 2`**: every reported energy is `≥` every lower
bound of the dense operator, one energy is reported per sweep, and after at least one sweep the returned state has norm one. -/
theorem dmrg2_tol_bounds {ψ ψ' : MPS 𝕜} (ctx : SweepCtx k H ψ.qd numiter) (hk : Compress.SvdKernel k.svd) (hm : 1 ≤ numiter)
    (hH : HistWf.HOk H ψ.qd) (hlast : (H.qD.getD H.A.length []).getD 0 0 = 0) (hadm : Admissible ψ)
    (hlen : H.A.length = ψ.A.length) (ht0 : 0 ≤ tol) (ht1 : tol < 1) (hL2 : 2 ≤ H.A.length) {numsweeps : Nat} {en : List ℝ}
    (h : dmrgTwosite k H ψ numsweeps numiter tol = .ok (ψ', en)) :
    (∀ e ∈ en, ∀ μ, DenseLower H ψ.qd.length μ → μ ≤ e) ∧ en.length = numsweeps ∧
      (1 ≤ numsweeps → normSq ψ' ψ.qd.length = 1) := by
  obtain ⟨s0', nrm', s, hp', hit', rfl⟩ := dmrgTwosite_unfold h
  obtain ⟨s0, nrm, E0, hp, hinv0⟩ := prologue_ok ctx hH hlast hadm hlen
  rw [hp] at hp'
  injection hp' with hp'
  injection hp' with hs0 _
  subst hs0
  obtain ⟨⟨r1, r2⟩, hit, hP, hall, hlenr, hfr⟩ := iterate_ok_idx (dmrg2Sweep k H ψ.qd numiter tol)
    (fun j (t : Sweep 𝕜 × List ℝ) => PInv H ψ.qd t.1 0 ∧ (∀ e ∈ t.2, ∀ μ, DenseLower H ψ.qd.length μ → μ ≤ e) ∧
      t.2.length = j ∧ (1 ≤ j → frob3 (getA t.1 0) = 1))
    (fun j t ht => by
      obtain ⟨t1, t2⟩ := t
      obtain ⟨hP, hall, hl, _⟩ := ht
      obtain ⟨se', e, hr, hP', hf', hes, hlow⟩ := dmrg2Sweep_bounds (es := t2) ctx hk hm hH ht0 ht1 hL2 hP
      refine ⟨se', hr, hP', ?_, ?_, fun _ => hf'⟩
      · intro x hx
        rw [hes] at hx
        rcases List.mem_append.1 hx with hx | hx
        · exact hall x hx
        · have : x = e := by simpa using hx
          subst this
          exact hlow
      · rw [hes]
        simp only [List.length_append, List.length_cons, List.length_nil]
        dsimp only at hl
        omega)
    numsweeps 0 (s0, []) ⟨hinv0.toP ctx, fun e he => absurd he (by simp), rfl, fun h0 => absurd h0 (by omega)⟩
  rw [hit] at hit'
  injection hit' with hit'
  injection hit' with hr1 hr2
  subst hr1 hr2
  dsimp only at hP hall hlenr hfr
  refine ⟨hall, by omega, fun h1 => ?_⟩
  have htm : toMPS ψ r1 = cur ψ.qd r1 := rfl
  rw [htm, (canon_centre hP.can ctx.hH).1, hfr (by omega)]
  simp

end Ptn.Evo

import PtnModel.Proofs.OrthoMpo
/-!
# Consequences for `MPO.orthonormalize` in terms of the MPO itself

* `fuse d σ τ`, `sum_fuse`, `pmatO_eq_pmat`, `elem_eq_amp` : dense matrix elements of an MPO are the amplitudes of
  the matricized chain at the fused digit list;
* `LeftIso4`, `RightIso4` : isometry statements for MPO tensors;
* `mpo_ok`, `mpo_wf`, `mpo_dense`, `mpo_iso`, `mpo_nonneg`, `mpo_unit`, `mpo_norm_sq`, `mpo_bond`.
-/
set_option linter.unusedSectionVars false
namespace Ptn.Ortho
open Ptn.BondOps Finset Ptn.Env

/-- fused digit list `(s, t) ↦ s * d + t`, site by site -/
def fuse (d : Nat) (σ τ : List Nat) : List Nat := List.zipWith (fun s t => s * d + t) σ τ

section generic
variable {𝕜 : Type} [CommRing 𝕜] [DecidableEq 𝕜]

theorem fuse_mem {d : Nat} : ∀ {n : Nat} {σ τ : List Nat}, σ ∈ digitsU d n → τ ∈ digitsU d n →
    fuse d σ τ ∈ digitsU (d * d) n
  | 0, σ, τ, hσ, hτ => by
    simp only [digitsU, List.replicate_zero, digits_nil, Finset.mem_singleton] at hσ hτ ⊢
    subst hσ hτ; rfl
  | n + 1, σ, τ, hσ, hτ => by
    simp only [digitsU, List.replicate_succ] at hσ hτ ⊢
    obtain ⟨s, σ', hs, hσ', rfl⟩ := mem_digits_cons.1 hσ
    obtain ⟨t, τ', ht, hτ', rfl⟩ := mem_digits_cons.1 hτ
    show (s * d + t) :: fuse d σ' τ' ∈ _
    rw [cons_mem_digits]
    exact ⟨fused_lt hs ht, fuse_mem hσ' hτ'⟩

/-- a sum over fused digit lists is a double sum -/
theorem sum_fuse {β : Type} [AddCommMonoid β] (d : Nat) : ∀ (n : Nat) (g : List Nat → β),
    ∑ ρ ∈ digitsU (d * d) n, g ρ = ∑ σ ∈ digitsU d n, ∑ τ ∈ digitsU d n, g (fuse d σ τ)
  | 0, g => by simp [digitsU, fuse]
  | n + 1, g => by
    calc ∑ ρ ∈ digitsU (d * d) (n + 1), g ρ
        = ∑ s ∈ range d, ∑ t ∈ range d, ∑ ρ ∈ digitsU (d * d) n, g ((s * d + t) :: ρ) := by
          rw [sum_digitsU_succ, sum_fused]
      _ = ∑ s ∈ range d, ∑ t ∈ range d, ∑ σ ∈ digitsU d n, ∑ τ ∈ digitsU d n,
            g ((s * d + t) :: fuse d σ τ) := by
          refine Finset.sum_congr rfl fun s _ => Finset.sum_congr rfl fun t _ => ?_
          exact sum_fuse d n (fun ρ => g ((s * d + t) :: ρ))
      _ = ∑ s ∈ range d, ∑ σ ∈ digitsU d n, ∑ t ∈ range d, ∑ τ ∈ digitsU d n,
            g ((s * d + t) :: fuse d σ τ) := by
          refine Finset.sum_congr rfl fun s _ => ?_
          exact Finset.sum_comm
      _ = ∑ σ ∈ digitsU d (n + 1), ∑ τ ∈ digitsU d (n + 1), g (fuse d σ τ) := by
          rw [sum_digitsU_succ]
          refine Finset.sum_congr rfl fun s _ => Finset.sum_congr rfl fun σ _ => ?_
          rw [sum_digitsU_succ]
          rfl

/-- matrix products of an MPO chain are those of the matricized chain at the fused digit list -/
theorem pmatO_eq_pmat {d : Nat} : ∀ {Ws : List (T4 𝕜)} {σ τ : List Nat}, (∀ W ∈ Ws, W.d1 = d) →
    σ.length = Ws.length → τ.length = Ws.length → (∀ t ∈ τ, t < d) → ∀ (b c : Nat),
    pmatO Ws σ τ b c = pmat (Ws.map toT3) (fuse d σ τ) b c
  | [], σ, τ, _, _, _, _, b, c => by simp
  | W :: Ws, [], _, _, h, _, _, _, _ => by simp at h
  | W :: Ws, _ :: _, [], _, _, h, _, _, _ => by simp at h
  | W :: Ws, s :: σ, t :: τ, hd, hσ, hτ, ht, b, c => by
    have hW : W.d1 = d := hd W (by simp)
    have htd : t < W.d1 := by rw [hW]; exact ht t (by simp)
    show _ = pmat (toT3 W :: Ws.map toT3) ((s * d + t) :: fuse d σ τ) b c
    rw [pmatO_cons, pmat_cons]
    refine Finset.sum_congr rfl fun x _ => ?_
    rw [← hW, toT3_f W htd, hW,
      pmatO_eq_pmat (fun X hX => hd X (by simp [hX])) (by simpa using hσ) (by simpa using hτ)
        (fun u hu => ht u (by simp [hu]))]

theorem chain4_of_chain3 {d : Nat} : ∀ {n : Nat} {Ws : List (T4 𝕜)} {Dl Dr : Nat},
    (∀ W ∈ Ws, W.d0 = d ∧ W.d1 = d) → Chain3 (List.replicate n (d * d)) (Ws.map toT3) Dl Dr →
    Chain4 (List.replicate n d) Ws Dl Dr
  | 0, [], _, _, _, h => by simpa using h
  | 0, _ :: _, _, _, _, h => by simp at h
  | n + 1, [], _, _, _, h => by simp [List.replicate_succ] at h
  | n + 1, W :: Ws, Dl, Dr, hd, h => by
    simp only [List.replicate_succ, List.map_cons, chain3_cons] at h
    simp only [List.replicate_succ, chain4_cons]
    have hW := hd W (by simp)
    exact ⟨hW.1, hW.2, h.2.1, chain4_of_chain3 (fun X hX => hd X (by simp [hX])) h.2.2⟩

end generic

section rc
variable {𝕜 : Type} [RCLike 𝕜] [DecidableEq 𝕜]

/-- dense matrix elements of an MPO are the amplitudes of the matricized chain at the fused digit list -/
theorem elem_eq_amp {o : MPO 𝕜} (h : MpoAdmissible o) {σ τ : List Nat} (hσ : σ ∈ digitsU o.qd.length o.A.length)
    (hτ : τ ∈ digitsU o.qd.length o.A.length) : o.elem σ τ = (toMPS o).amp (fuse o.qd.length σ τ) := by
  have hadm := admissible_toMPS h
  have hphys := phys_of_wellFormed h.wf
  have hL : (toMPS o).A.length = o.A.length := by simp [toMPS]
  have hc3 := hadm.chain3
  rw [hL, toMPS_qd_length] at hc3
  have hc4 : Chain4 (List.replicate o.A.length o.qd.length) o.A 1 1 := chain4_of_chain3 hphys hc3
  have hf := fuse_mem hσ hτ
  rw [elem_eq_pmatO hc4 hσ hτ, amp_eq_pmat (ds := List.replicate o.A.length (o.qd.length * o.qd.length)) hc3 hf]
  have hσ' := (mem_digits_replicate.1 hσ)
  have hτ' := (mem_digits_replicate.1 hτ)
  exact pmatO_eq_pmat (fun W hW => (hphys W hW).2) hσ'.1 hτ'.1 hτ'.2 0 0

end rc

section iso
variable {𝕜 : Type} [CommRing 𝕜] [DecidableEq 𝕜] [StarRing 𝕜]

/-- left isometry of an MPO tensor: `Σ_{s,t,a} conj(A[s,t,a,b]) A[s,t,a,b'] = δ_{b b'}` -/
def LeftIso4 (A : T4 𝕜) : Prop :=
  ∀ b b', b < A.d3 → b' < A.d3 →
    ∑ s ∈ range A.d0, ∑ t ∈ range A.d1, ∑ a ∈ range A.d2, star (A.f s t a b) * A.f s t a b' =
      if b = b' then 1 else 0

/-- right isometry of an MPO tensor: `Σ_{s,t,b} conj(A[s,t,a,b]) A[s,t,a',b] = δ_{a a'}` -/
def RightIso4 (A : T4 𝕜) : Prop :=
  ∀ a a', a < A.d2 → a' < A.d2 →
    ∑ s ∈ range A.d0, ∑ t ∈ range A.d1, ∑ b ∈ range A.d3, star (A.f s t a b) * A.f s t a' b =
      if a = a' then 1 else 0

theorem leftIso4_of_toT3 {A : T4 𝕜} (h : LeftIso (toT3 A)) : LeftIso4 A := by
  intro b b' hb hb'
  rw [← h b b' hb hb']
  show _ = ∑ x ∈ range (A.d0 * A.d1), _
  rw [sum_fused]
  refine Finset.sum_congr rfl fun s _ => Finset.sum_congr rfl fun t ht => Finset.sum_congr rfl fun a _ => ?_
  rw [toT3_f A (Finset.mem_range.1 ht), toT3_f A (Finset.mem_range.1 ht)]

theorem rightIso4_of_toT3 {A : T4 𝕜} (h : RightIso (toT3 A)) : RightIso4 A := by
  intro a a' ha ha'
  rw [← h a a' ha ha']
  show _ = ∑ x ∈ range (A.d0 * A.d1), _
  rw [sum_fused]
  refine Finset.sum_congr rfl fun s _ => Finset.sum_congr rfl fun t ht => Finset.sum_congr rfl fun b _ => ?_
  rw [toT3_f A (Finset.mem_range.1 ht), toT3_f A (Finset.mem_range.1 ht)]

end iso

section final
variable {𝕜 : Type} [RCLike 𝕜] [DecidableEq 𝕜]
variable {dqr : Mat 𝕜 → Mat 𝕜 × Mat 𝕜} {o o' : MPO 𝕜} {nrm : ℝ} {left : Bool}
attribute [local instance] rcRealLike

/-- a successful `MPO.orthonormalize` is a `RunOf` of the matricized chain; physical data are kept -/
theorem runOf_mpo (hne : o.A ≠ []) (hrun : MPO.orthonormalize dqr o left = .ok (o', nrm)) :
    RunOf dqr left (toMPS o) (toMPS o') nrm ∧ o'.qd = o.qd ∧
      ∀ d, (∀ X ∈ o.A, X.d0 = d ∧ X.d1 = d) → ∀ B ∈ o'.A, B.d0 = d ∧ B.d1 = d := by
  cases left with
  | true => exact leftRun_of_mpo_left hne hrun
  | false => exact leftRun_of_mpo_right hne hrun

theorem mpo_wf (hshape : ∀ B, ShapeAt dqr B) (hadm : MpoAdmissible o)
    (hrun : MPO.orthonormalize dqr o left = .ok (o', nrm)) :
    MpoAdmissible o' ∧ o'.qd = o.qd ∧ o'.A.length = o.A.length := by
  obtain ⟨hr, hqd, hphys⟩ := runOf_mpo hadm.nonempty hrun
  obtain ⟨a1, -, a3⟩ := hr.adm hshape (admissible_toMPS hadm)
  refine ⟨mpoAdmissible_of_toMPS a1 (by rw [hqd]; exact hadm.d_pos) ?_, hqd, by simpa [toMPS] using a3⟩
  rw [hqd]
  exact hphys _ (phys_of_wellFormed hadm.wf)

theorem mpo_dense (hshape : ∀ B, ShapeAt dqr B) (hprod : ∀ B, ProdAt dqr B) (hreal : RealDiag dqr)
    (hadm : MpoAdmissible o) (hrun : MPO.orthonormalize dqr o left = .ok (o', nrm))
    {σ τ : List Nat} (hσ : σ ∈ digitsU o.qd.length o.A.length) (hτ : τ ∈ digitsU o.qd.length o.A.length) :
    (nrm : 𝕜) * o'.elem σ τ = o.elem σ τ := by
  obtain ⟨hadm', hqd, hlen⟩ := mpo_wf hshape hadm hrun
  obtain ⟨hr, -, -⟩ := runOf_mpo hadm.nonempty hrun
  rw [elem_eq_amp hadm hσ hτ, elem_eq_amp hadm' (by rw [hqd, hlen]; exact hσ) (by rw [hqd, hlen]; exact hτ), hqd]
  refine hr.dense hshape hprod hreal (admissible_toMPS hadm) ?_
  have hL : (toMPS o).A.length = o.A.length := by simp [toMPS]
  rw [hL, toMPS_qd_length]
  exact fuse_mem hσ hτ

theorem mpo_iso (hshape : ∀ B, ShapeAt dqr B) (hiso : ∀ B, IsoAt dqr B)
    (hadm : MpoAdmissible o) (hrun : MPO.orthonormalize dqr o left = .ok (o', nrm)) :
    ∀ B ∈ o'.A, if left then LeftIso4 B else RightIso4 B := by
  obtain ⟨hr, -, -⟩ := runOf_mpo hadm.nonempty hrun
  intro B hB
  have := hr.iso hshape hiso (admissible_toMPS hadm) (toT3 B) (List.mem_map_of_mem hB)
  cases left with
  | true => exact leftIso4_of_toT3 this
  | false => exact rightIso4_of_toT3 this

theorem mpo_unit (hshape : ∀ B, ShapeAt dqr B) (hiso : ∀ B, IsoAt dqr B)
    (hadm : MpoAdmissible o) (hrun : MPO.orthonormalize dqr o left = .ok (o', nrm)) :
    ∑ σ ∈ digitsU o.qd.length o.A.length, ∑ τ ∈ digitsU o.qd.length o.A.length, ‖o'.elem σ τ‖ ^ 2 = 1 := by
  obtain ⟨hadm', hqd, hlen⟩ := mpo_wf hshape hadm hrun
  obtain ⟨hr, -, -⟩ := runOf_mpo hadm.nonempty hrun
  have := hr.unit hshape hiso (admissible_toMPS hadm)
  have hL : (toMPS o).A.length = o.A.length := by simp [toMPS]
  rw [hL, toMPS_qd_length, sum_fuse] at this
  rw [← this]
  refine Finset.sum_congr rfl fun σ hσ => Finset.sum_congr rfl fun τ hτ => ?_
  rw [elem_eq_amp hadm' (by rw [hqd, hlen]; exact hσ) (by rw [hqd, hlen]; exact hτ), hqd]

theorem mpo_norm_sq (hshape : ∀ B, ShapeAt dqr B) (hprod : ∀ B, ProdAt dqr B) (hiso : ∀ B, IsoAt dqr B)
    (hreal : RealDiag dqr) (hadm : MpoAdmissible o) (hrun : MPO.orthonormalize dqr o left = .ok (o', nrm)) :
    nrm ^ 2 = ∑ σ ∈ digitsU o.qd.length o.A.length, ∑ τ ∈ digitsU o.qd.length o.A.length, ‖o.elem σ τ‖ ^ 2 := by
  have e : ∀ σ ∈ digitsU o.qd.length o.A.length, ∀ τ ∈ digitsU o.qd.length o.A.length,
      ‖o.elem σ τ‖ ^ 2 = nrm ^ 2 * ‖o'.elem σ τ‖ ^ 2 := by
    intro σ hσ τ hτ
    rw [← mpo_dense hshape hprod hreal hadm hrun hσ hτ, norm_mul, mul_pow, RCLike.norm_ofReal, sq_abs]
  rw [Finset.sum_congr rfl fun σ hσ => Finset.sum_congr rfl fun τ hτ => e σ hσ τ hτ]
  simp only [← Finset.mul_sum]
  rw [mpo_unit hshape hiso hadm hrun, mul_one]

theorem mpo_nonneg (hrun : MPO.orthonormalize dqr o left = .ok (o', nrm)) : 0 ≤ nrm := by
  by_cases hne : o.A = []
  · unfold MPO.orthonormalize at hrun
    rw [hne] at hrun
    injection hrun with h
    injection h with _ h2
    rw [← h2]
    exact zero_le_one
  · exact (runOf_mpo hne hrun).1.nonneg

theorem mpo_bond (hshape : ∀ B, ShapeAt dqr B) (hadm : MpoAdmissible o)
    (hrun : MPO.orthonormalize dqr o left = .ok (o', nrm)) {i : Nat} (hi : i < o.A.length) :
    if left then
      (o'.qD.getD (i + 1) []).length ≤
        min (o.qd.length * o.qd.length * (o'.qD.getD i []).length) (o.qD.getD (i + 1) []).length
    else
      (o'.qD.getD i []).length ≤
        min (o.qd.length * o.qd.length * (o'.qD.getD (i + 1) []).length) (o.qD.getD i []).length := by
  obtain ⟨hr, -, -⟩ := runOf_mpo hadm.nonempty hrun
  have := hr.bond hshape (admissible_toMPS hadm) (i := i) (by simpa [toMPS] using hi)
  rw [toMPS_qd_length] at this
  exact this

theorem mpo_ok (hshape : ∀ B, ShapeAt dqr B) (hadm : MpoAdmissible o) (left : Bool) :
    ∃ o' nrm, MPO.orthonormalize (ρ := ℝ) dqr o left = .ok (o', nrm) := by
  cases left with
  | true => exact mpo_left_ok hshape hadm
  | false => exact mpo_right_ok hshape hadm

end final
end Ptn.Ortho

import PtnModel.Model.HamiltonianGauge
/-!
# Gauge transform: shapes

`IsSquare v n`: the list-of-rows matrix `v` has `n` rows of length `n`.  Assignments `v[r, c] = x` keep the shape and change one
entry; hence every statement of `molecular_hamiltonian_orbital_gauge_transform` keeps the shape of the identity matrix it starts
from (`gaugeSide_shape`), whatever the tables contain.
-/
set_option linter.unusedSectionVars false

namespace Ptn.Ham.Gauge
open Ptn.Og

variable {α : Type} [Add α] [Mul α] [Sub α] [OfNat α 0] [OfNat α 1] [HasConj α] [DecidableEq α]

/-- `n` rows of length `n` -/
def IsSquare (v : Mat α) (n : Nat) : Prop := v.length = n ∧ ∀ r ∈ v, r.length = n

theorem isSquare_identity (n : Nat) : IsSquare (Mat.identity n : Mat α) n := by
  constructor
  · simp [Mat.identity]
  · intro r hr
    simp only [Mat.identity, List.mem_map, List.mem_range] at hr
    obtain ⟨i, _, rfl⟩ := hr
    simp

theorem entry_identity (n r c : Nat) (hr : r < n) (hc : c < n) :
    (Mat.identity n : Mat α).entry r c = if r = c then 1 else 0 := by
  simp [Mat.entry, Mat.identity, List.getD_eq_getElem?_getD, hr, hc]

theorem IsSquare.row_length {v : Mat α} {n : Nat} (h : IsSquare v n) {r : Nat} (hr : r < n) : (v.getD r []).length = n := by
  have hl : r < v.length := by rw [h.1]; exact hr
  have : v.getD r [] = v[r] := by simp [List.getD_eq_getElem?_getD, hl]
  rw [this]
  exact h.2 _ (List.getElem_mem hl)

/-- the result of an assignment: shape and entries -/
theorem matSet_spec {v : Mat α} {n : Nat} (h : IsSquare v n) {r c : Nat} (hr : r < n) (hc : c < n) (x : α) :
    ∃ v', matSet v r c x = .ok v' ∧ IsSquare v' n ∧
      ∀ r' c', v'.entry r' c' = if r' = r ∧ c' = c then x else v.entry r' c' := by
  have hl : r < v.length := by rw [h.1]; exact hr
  have hrow := h.row_length hr
  refine ⟨v.set r ((v.getD r []).set c x), ?_, ⟨?_, ?_⟩, ?_⟩
  · unfold matSet
    rw [if_pos ⟨hl, by rw [hrow]; exact hc⟩]
  · rw [List.length_set]; exact h.1
  · intro row hrow'
    rcases List.mem_or_eq_of_mem_set hrow' with hm | rfl
    · exact h.2 _ hm
    · rw [List.length_set]; exact hrow
  · intro r' c'
    unfold Mat.entry
    by_cases e : r' = r
    · subst e
      have : (v.set r' ((v.getD r' []).set c x)).getD r' [] = (v.getD r' []).set c x := by
        simp [List.getD_eq_getElem?_getD, hl]
      rw [this]
      by_cases e2 : c' = c
      · subst e2
        have hc' : c' < ((v.getD r' []).set c' x).length := by rw [List.length_set, hrow]; exact hc
        rw [List.getD_eq_getElem?_getD, List.getElem?_eq_getElem hc']
        simp
      · have : ((v.getD r' []).set c x).getD c' 0 = (v.getD r' []).getD c' 0 := by
          simp only [List.getD_eq_getElem?_getD]
          rw [List.getElem?_set_ne (Ne.symm e2)]
        rw [this]
        simp [e2]
    · have : (v.set r ((v.getD r []).set c x)).getD r' [] = v.getD r' [] := by
        simp only [List.getD_eq_getElem?_getD]
        rw [List.getElem?_set_ne (Ne.symm e)]
      rw [this]
      simp [e]

/-- an assignment that succeeds keeps the shape -/
theorem matSet_shape {v v' : Mat α} {n r c : Nat} {x : α} (h : IsSquare v n) (hs : matSet v r c x = .ok v') : IsSquare v' n := by
  unfold matSet at hs
  split at hs
  · next hc =>
    have hr : r < n := by rw [← h.1]; exact hc.1
    have hc' : c < n := by rw [← h.row_length hr]; exact hc.2
    obtain ⟨w, hw, hsq, _⟩ := matSet_spec h hr hc' x
    unfold matSet at hw
    rw [if_pos hc] at hw
    rw [hw] at hs
    cases hs
    exact hsq
  · cases hs

theorem matAssign_shape {n : Nat} : ∀ (l : List (Nat × Nat × α)) {v v' : Mat α}, IsSquare v n → matAssign v l = .ok v' → IsSquare v' n := by
  intro l
  induction l with
  | nil => intro v v' h hs; simp only [matAssign] at hs; cases hs; exact h
  | cons p rest ih =>
    intro v v' h hs
    obtain ⟨r, c, x⟩ := p
    simp only [matAssign] at hs
    cases hm : matSet v r c x with
    | error e => rw [hm] at hs; cases hs
    | ok w => rw [hm] at hs; exact ih (matSet_shape h hm) hs

/-- a statement of the function keeps the shape whenever it returns -/
def KeepsShape (n : Nat) (s : Mat α → Except Err (Mat α)) : Prop := ∀ v v', IsSquare v n → s v = .ok v' → IsSquare v' n

theorem pairStep_shape (n : Nat) (h : GaugeH) (f : Fam) (key0 key1 : List Int) (k : Int) (m : α × α × α × α) :
    KeepsShape n (pairStep h f key0 key1 k m) := by
  intro v v' hv hs
  unfold pairStep at hs
  split at hs
  · split at hs
    · cases hs
    · split at hs
      · cases hs
      · exact matAssign_shape _ hv hs
  · cases hs; exact hv

theorem oneStep_shape (n : Nat) (h : GaugeH) (f : Fam) (key : List Int) (k : Int) (x : α) :
    KeepsShape n (oneStep h f key k x) := by
  intro v v' hv hs
  unfold oneStep at hs
  split at hs
  · split at hs
    · cases hs
    · exact matAssign_shape _ hv hs
  · cases hs; exact hv

theorem quadStep_shape (n : Nat) (h : GaugeH) (f : Fam) (i k : Int) (u00 u01 u10 u11 : α) :
    KeepsShape n (quadStep h f i k u00 u01 u10 u11) := by
  intro v v' hv hs
  unfold quadStep at hs
  split at hs
  · split at hs
    · cases hs
    · split at hs
      · cases hs
      · split at hs
        · cases hs
        · split at hs
          · cases hs
          · exact matAssign_shape _ hv hs
  · cases hs; exact hv

theorem forSteps_shape (n : Nat) (step : Int → Mat α → Except Err (Mat α)) (hstep : ∀ k, KeepsShape n (step k)) :
    ∀ ks : List Int, KeepsShape n (forSteps ks step) := by
  intro ks
  induction ks with
  | nil => intro v v' hv hs; simp only [forSteps] at hs; cases hs; exact hv
  | cons k rest ih =>
    intro v v' hv hs
    simp only [forSteps] at hs
    cases hk : step k v with
    | error e => rw [hk] at hs; cases hs
    | ok w => rw [hk] at hs; exact ih w v' (hstep k v w hv hk) hs

theorem foldlM_shape (n : Nat) : ∀ (steps : List (Mat α → Except Err (Mat α))), (∀ s ∈ steps, KeepsShape n s) →
    ∀ v v', IsSquare v n → steps.foldlM (fun v s => s v) v = .ok v' → IsSquare v' n := by
  intro steps
  induction steps with
  | nil => intro _ v v' hv hs; simp only [List.foldlM_nil] at hs; cases hs; exact hv
  | cons s rest ih =>
    intro hall v v' hv hs
    simp only [List.foldlM_cons] at hs
    cases hk : s v with
    | error e => rw [hk] at hs; cases hs
    | ok w =>
      rw [hk] at hs
      exact ih (fun t ht => hall t (List.mem_cons_of_mem _ ht)) w v' (hall s List.mem_cons_self v w hv hk) hs

/-- **one half of the function returns a `dim × dim` matrix**, whatever the tables, `nid_map`, `u`, `i` -/
theorem gaugeSide_shape (h : GaugeH) (fD fA fDD fAA fDA : Fam) (kk : Int) (dim : Nat) (u : Mat α) (i : Int) (v : Mat α)
    (hs : gaugeSide h fD fA fDD fAA fDA kk dim u i = .ok v) : IsSquare v dim := by
  unfold gaugeSide at hs
  simp only at hs
  split at hs
  · cases hs
  · next w hw =>
    split at hs
    · cases hs
      refine foldlM_shape dim _ ?_ _ _ (isSquare_identity dim) hw
      intro s hmem
      simp only [List.mem_cons, List.not_mem_nil, or_false] at hmem
      rcases hmem with rfl | rfl | rfl | rfl | rfl | rfl | rfl | rfl | rfl | rfl
      · exact pairStep_shape _ _ _ _ _ _ _
      · exact pairStep_shape _ _ _ _ _ _ _
      · exact forSteps_shape _ _ (fun k => pairStep_shape _ _ _ _ _ _ _) _
      · exact forSteps_shape _ _ (fun k => pairStep_shape _ _ _ _ _ _ _) _
      · exact oneStep_shape _ _ _ _ _ _
      · exact forSteps_shape _ _ (fun k => pairStep_shape _ _ _ _ _ _ _) _
      · exact forSteps_shape _ _ (fun k => pairStep_shape _ _ _ _ _ _ _) _
      · exact oneStep_shape _ _ _ _ _ _
      · refine forSteps_shape _ _ (fun k => ?_) _
        intro v v' hv hs
        unfold daBody at hs
        cases hp : pairStep h fDA [i, k] [i + 1, k] kk (u.entry 0 0, u.entry 0 1, u.entry 1 0, u.entry 1 1) v with
        | error e => rw [hp] at hs; cases hs
        | ok w' =>
          rw [hp] at hs
          exact pairStep_shape _ _ _ _ _ _ _ _ _ (pairStep_shape _ _ _ _ _ _ _ _ _ hv hp) hs
      · exact quadStep_shape _ _ _ _ _ _ _ _ _
    · cases hs

/-- **`gauge_shapes`**: whenever the function returns, `v_l` is square of size `bond_dims[i]` and `v_r` square of size `bond_dims[i + 2]` -/
theorem gaugeTransform_shapes (h : GaugeH) (u : Mat α) (i : Int) (vl vr : Mat α) (hs : gaugeTransform h u i = .ok (vl, vr)) :
    (∃ dl, h.bondDims[i.toNat]? = some dl ∧ IsSquare vl dl) ∧ (∃ dr, h.bondDims[i.toNat + 2]? = some dr ∧ IsSquare vr dr) := by
  unfold gaugeTransform at hs
  split at hs
  · cases hs
  · split at hs
    · cases hs
    · split at hs
      · cases hs
      · simp only at hs
        split at hs
        · cases hs
        · next dl hdl =>
          split at hs
          · cases hs
          · next vl' hvl =>
            split at hs
            · cases hs
            · next dr hdr =>
              split at hs
              · cases hs
              · next vr' hvr =>
                cases hs
                have e1 : h.bondDims[i.toNat]? = some dl := by
                  unfold pyIdx at hdl
                  split at hdl
                  · next x hx => cases hdl; exact hx
                  · cases hdl
                have e2 : h.bondDims[i.toNat + 2]? = some dr := by
                  unfold pyIdx at hdr
                  split at hdr
                  · next x hx => cases hdr; exact hx
                  · cases hdr
                exact ⟨⟨dl, e1, gaugeSide_shape _ _ _ _ _ _ _ _ _ _ _ hvl⟩, ⟨dr, e2, gaugeSide_shape _ _ _ _ _ _ _ _ _ _ _ hvr⟩⟩

end Ptn.Ham.Gauge

import PtnModel.Proofs.EvoExactExampleAux3
/-!
# The two-site witness: bond charges along the runs, exactness of every sub-step

* `ex2_ortho_qD`  : the right-orthonormalised state has the bond charges `[[0], [0,0], [0]]` (bond dimensions `[1, 2, 1]`);
* `QInv`          : the bond charges of a sweep state are `[0]`, `[0,0]`, `[0]`; kept by `tdvp1Left`, `tdvp1Right`, `tdvp1Step`;
* `ex2_stepExact`, `ex2_runExact` : every sub-step of every time step from a canonical state with `QInv` is exact / regular.
-/
set_option linter.unusedSectionVars false
namespace Ptn.Evo
open Ptn Ptn.BondOps Ptn.Ortho Ptn.Env Ptn.Krylov Ptn.Dense Finset

/-- the two local steps of a right-to-left QR sweep over two sites -/
theorem sweepRight_two {𝕜 : Type} [RCLike 𝕜] [DecidableEq 𝕜] {dqr : Mat 𝕜 → Mat 𝕜 × Mat 𝕜} {qd : List Int} {A1 A0 : T3 𝕜}
    {qR qL1 qL0 : List Int} {As : List (T3 𝕜)} {qs : List (List Int)} {T : T3 𝕜}
    (h : MPS.sweepRightQr dqr qd A1 qR [A0] [qL1, qL0] = .ok (As, qs, T)) :
    ∃ A1' A0' qb1 A0'' qb0, MPS.localOrthoRightQr dqr A1 A0 qd qL1 qR = .ok (A1', A0', qb1) ∧
      MPS.localOrthoRightQr dqr A0' MPS.ones111 qd qL0 qb1 = .ok (A0'', T, qb0) ∧ qs = [qb1, qb0] := by
  rw [MPS.sweepRightQr] at h
  cases hl : MPS.localOrthoRightQr dqr A1 A0 qd qL1 qR with
  | error e => rw [hl] at h; cases h
  | ok r =>
    obtain ⟨A1', A0', qb1⟩ := r
    rw [hl] at h
    cases hs : MPS.sweepRightQr dqr qd A0' qb1 [] [qL0] with
    | error e => simp only [bind, Except.bind, hs] at h; cases h
    | ok r' =>
      obtain ⟨As', qs', T'⟩ := r'
      simp only [bind, Except.bind, hs] at h
      injection h with h
      injection h with h1 h
      injection h with h2 h3
      subst h1 h2 h3
      rw [MPS.sweepRightQr] at hs
      cases hl0 : MPS.localOrthoRightQr dqr A0' MPS.ones111 qd qL0 qb1 with
      | error e => rw [hl0] at hs; cases hs
      | ok r0 =>
        obtain ⟨A0'', T0, qb0⟩ := r0
        rw [hl0] at hs
        injection hs with hs
        injection hs with g1 hs
        injection hs with g2 g3
        subst g1 g2 g3
        exact ⟨A1', A0', qb1, A0'', qb0, rfl, hl0, rfl⟩

theorem ex2_ortho_qD {ψ0 : MPS ℂ} {nrm : ℝ} (h : MPS.orthonormalize (ρ := ℝ) exK1.dqr exψ2 false = .ok (ψ0, nrm)) :
    ψ0.qD = [[0], [0, 0], [0]] := by
  have hshape : ∀ B, ShapeAt exK1.dqr B := exE2_ctx.qr.contract.shape
  unfold MPS.orthonormalize at h
  simp only [exψ2, Bool.false_eq_true, if_false, List.reverse_cons, List.reverse_nil, List.nil_append, List.cons_append] at h
  rw [bind_ok] at h
  obtain ⟨⟨As, qs, T⟩, hsw, h⟩ := h
  rw [pyAssert_bind] at h
  obtain ⟨_, h⟩ := h
  rw [pure_ok] at h
  injection h with h _
  rw [← h]
  obtain ⟨A1', A0', qb1, A0'', qb0, hl1, hl0, rfl⟩ := sweepRight_two hsw
  obtain ⟨Q1, R1, qb1', hq1, _, _, _, rfl⟩ := localRight_run hl1
  have e1 : QN.flatten2 [0, 0] (QN.neg [0]) = [0, 0] := by decide
  have e2 : QN.neg [0, 0] = [0, 0] := by decide
  rw [e1, e2] at hq1
  have := qr_zero22 hshape hq1
  subst this
  obtain ⟨Q0, R0, qb0', hq0, _, _, _, rfl⟩ := localRight_run hl0
  have e3 : QN.flatten2 [0, 0] (QN.neg (QN.neg [0, 0])) = [0, 0, 0, 0] := by decide
  have e4 : QN.neg [0] = [0] := by decide
  rw [e3, e4] at hq0
  have := qr_zero41 hshape hq0
  subst this
  show [QN.neg [0, 0], QN.neg [0]].reverse ++ [[0]] = ([[0], [0, 0], [0]] : List (List Int))
  decide

/-! ## the bond charges along the sweeps -/

/-- bond charges `[0]`, `[0,0]`, `[0]` -/
def QInv (s : Sweep ℂ) : Prop := getQ s 0 = [0] ∧ getQ s 1 = [0, 0] ∧ getQ s 2 = [0]

theorem exK1_shape : ∀ B, ShapeAt exK1.dqr B := exE2_ctx.qr.contract.shape

theorem ex2_len : exH2.A.length = 2 := rfl

/-- the QR of `tdvp1Left` at site `0` returns the bond charges `[0,0]` -/
theorem ex2_left_qb {s : Sweep ℂ} (q : QInv s) {M Q C : Mat ℂ} {qb : List Int}
    (h2 : BondOps.qr exK1.dqr M (QN.flatten2 [0, 0] (getQ s 0)) (getQ s (0 + 1)) = .ok (Q, C, qb)) : qb = [0, 0] := by
  have q1 : getQ s (0 + 1) = [0, 0] := q.2.1
  rw [q.1, q1] at h2
  have e : QN.flatten2 [0, 0] [0] = [0, 0] := by decide
  rw [e] at h2
  exact qr_zero22 exK1_shape h2

/-- the QR of `tdvp1Right` at site `1` returns the bond charges `[0,0]` -/
theorem ex2_right_qb {s : Sweep ℂ} (q : QInv s) {M Q C : Mat ℂ} {qb : List Int}
    (h2 : BondOps.qr exK1.dqr M (QN.flatten2 [0, 0] (QN.neg (getQ s (0 + 1 + 1)))) (QN.neg (getQ s (0 + 1))) =
      .ok (Q, C, qb)) : qb = [0, 0] := by
  have q1 : getQ s (0 + 1) = [0, 0] := q.2.1
  have q2 : getQ s (0 + 1 + 1) = [0] := q.2.2
  rw [q1, q2] at h2
  have e : QN.flatten2 [0, 0] (QN.neg [0]) = [0, 0] := by decide
  have e' : QN.neg [0, 0] = [0, 0] := by decide
  rw [e, e'] at h2
  exact qr_zero22 exK1_shape h2

theorem ex2_left {dt : ℂ} {s : Sweep ℂ} (h : Canon exH2 [0, 0] s 0) (q : QInv s) :
    LeftExact false exK1 exH2 [0, 0] dt 1 s 0 := by
  refine leftExact_scalar exE2_ctx exH2_scalar h (by decide) ?_
  intro A1 Q C qb _ h2
  rw [ex2_left_qb q h2]
  have q1 : getQ s (0 + 1) = [0, 0] := q.2.1
  rw [q1]

theorem ex2_right {dt : ℂ} {s : Sweep ℂ} (h : Canon exH2 [0, 0] s 1) (q : QInv s) :
    RightExact false exK1 exH2 [0, 0] dt 1 s 1 := by
  refine rightExact_scalar (j := 0) exE2_ctx exH2_scalar h ?_
  intro Q C qb h2
  rw [ex2_right_qb q h2]
  have q1 : getQ s (0 + 1) = [0, 0] := q.2.1
  rw [q1]

theorem ex2_left_q {dt : ℂ} {s s' : Sweep ℂ} (h : Canon exH2 [0, 0] s 0) (q : QInv s)
    (hrun : tdvp1Left exK1 exH2 [0, 0] dt 1 s 0 = .ok s') : QInv s' := by
  obtain ⟨A1, Q, C, qb, BLn, C1, _, h2, _, _, _, rfl⟩ := tdvp1Left_unfold hrun
  have hqb := ex2_left_qb q h2
  subst hqb
  have hsz : 0 + 1 < s.qD.size := by rw [h.wf.sizeQ]; decide
  have g : ∀ m, getQ (⟨(s.A.setIfInBounds 0 (T3.ofFlattenLeft Q A1.d0 A1.d1).tab).setIfInBounds (0 + 1)
      (pushLeft (getA s (0 + 1)) C1), s.qD.setIfInBounds (0 + 1) [0, 0], s.BL.setIfInBounds (0 + 1) BLn, s.BR⟩ : Sweep ℂ) m =
      if m = 0 + 1 then [0, 0] else getQ s m := fun m => getD_set1 s.qD [0, 0] [] hsz m
  refine ⟨?_, ?_, ?_⟩
  · rw [g 0, if_neg (by decide)]; exact q.1
  · rw [g 1, if_pos (by decide)]
  · rw [g 2, if_neg (by decide)]; exact q.2.2

theorem ex2_right_q {dt : ℂ} {s s' : Sweep ℂ} (h : Canon exH2 [0, 0] s 1) (q : QInv s)
    (hrun : tdvp1Right exK1 exH2 [0, 0] dt 1 s (0 + 1) = .ok s') : QInv s' := by
  obtain ⟨Q, C, qb, BRn, C1, Ap2, h1, _, _, _, _, rfl⟩ := tdvp1Right_unfold hrun
  have hqb := ex2_right_qb q h1
  subst hqb
  have hsz : 0 + 1 < s.qD.size := by rw [h.wf.sizeQ]; decide
  have e' : QN.neg [0, 0] = [0, 0] := by decide
  rw [e']
  have g : ∀ m, getQ (⟨(s.A.setIfInBounds (0 + 1)
      (T3.ofFlattenLeft Q (getA s (0 + 1)).d0 (getA s (0 + 1)).d2).swap12.tab).setIfInBounds (0 + 1 - 1) Ap2,
      s.qD.setIfInBounds (0 + 1) [0, 0], s.BL, s.BR.setIfInBounds (0 + 1 - 1) BRn⟩ : Sweep ℂ) m =
      if m = 0 + 1 then [0, 0] else getQ s m := fun m => getD_set1 s.qD [0, 0] [] hsz m
  refine ⟨?_, ?_, ?_⟩
  · rw [g 0, if_neg (by decide)]; exact q.1
  · rw [g 1, if_pos (by decide)]
  · rw [g 2, if_neg (by decide)]; exact q.2.2

/-- one time step keeps the bond charges -/
theorem ex2_step_q {dt : ℂ} {s s' : Sweep ℂ} (h : Canon exH2 [0, 0] s 0) (q : QInv s)
    (hrun : tdvp1Step exK1 exH2 [0, 0] dt 1 s = .ok s') : QInv s' := by
  obtain ⟨s1, Al, f1, f2, f3⟩ := tdvp1Step_unfold hrun
  have f1' : foldIdx (tdvp1Left exK1 exH2 [0, 0] dt 1) [0] s = .ok s1 := f1
  rw [foldIdx_single] at f1'
  have h1 : Canon exH2 [0, 0] s1 (0 + 1) := tdvp1Left_canon exE2_ctx h (by decide) f1'
  have q1 := ex2_left_q h q f1'
  have f2' : localHamiltonianStep exK1 (getBL s1 (0 + 1)) (getBR s1 (0 + 1)) (exH2.A.getD (0 + 1) zeroT4) (getA s1 (0 + 1))
      dt 1 = .ok Al := f2
  obtain ⟨h2, _⟩ := centre_step_canon h1 f2'
  have q2 : QInv (⟨s1.A.setIfInBounds (0 + 1) Al, s1.qD, s1.BL, s1.BR⟩ : Sweep ℂ) := q1
  have f3' : foldIdx (tdvp1Right exK1 exH2 [0, 0] dt 1) [0 + 1]
      (⟨s1.A.setIfInBounds (0 + 1) Al, s1.qD, s1.BL, s1.BR⟩ : Sweep ℂ) = .ok s' := f3
  rw [foldIdx_single] at f3'
  exact ex2_right_q h2 q2 f3'

/-- every sub-step of a time step from a canonical state with the bond charges `[0]`, `[0,0]`, `[0]` is exact / regular -/
theorem ex2_stepExact (dt : ℂ) {s : Sweep ℂ} (h : Canon exH2 [0, 0] s 0) (q : QInv s) :
    StepExact false exK1 exH2 [0, 0] dt 1 s := by
  show FoldAll (tdvp1Left exK1 exH2 [0, 0] dt 1) (LeftExact false exK1 exH2 [0, 0] dt 1) [0] s ∧
    ∀ s1, foldIdx (tdvp1Left exK1 exH2 [0, 0] dt 1) [0] s = .ok s1 →
      MidExact exK1 exH2 1 s1 (0 + 1) ∧
      ∀ Al, localHamiltonianStep exK1 (getBL s1 (0 + 1)) (getBR s1 (0 + 1)) (exH2.A.getD (0 + 1) zeroT4)
          (getA s1 (0 + 1)) dt 1 = .ok Al →
        FoldAll (tdvp1Right exK1 exH2 [0, 0] dt 1) (RightExact false exK1 exH2 [0, 0] dt 1) [0 + 1]
          (⟨s1.A.setIfInBounds (0 + 1) Al, s1.qD, s1.BL, s1.BR⟩ : Sweep ℂ)
  refine ⟨⟨ex2_left h q, fun _ _ => trivial⟩, ?_⟩
  intro s1 hs1
  rw [foldIdx_single] at hs1
  have h1 : Canon exH2 [0, 0] s1 (0 + 1) := tdvp1Left_canon exE2_ctx h (by decide) hs1
  have q1 := ex2_left_q h q hs1
  refine ⟨midExact_scalar exE2_ctx exH2_scalar h1, ?_⟩
  intro Al hAl
  obtain ⟨h2, _⟩ := centre_step_canon h1 hAl
  have q2 : QInv (⟨s1.A.setIfInBounds (0 + 1) Al, s1.qD, s1.BL, s1.BR⟩ : Sweep ℂ) := q1
  exact ⟨ex2_right h2 q2, fun _ _ => trivial⟩

/-- every sub-step of `n` time steps is exact / regular -/
theorem ex2_runExact (dt : ℂ) : ∀ (n : Nat) (s : Sweep ℂ), Canon exH2 [0, 0] s 0 → QInv s →
    RunExact false exK1 exH2 [0, 0] dt 1 n s
  | 0, _, _, _ => trivial
  | n + 1, _, h, q =>
    ⟨ex2_stepExact dt h q, fun s' hs' => ex2_runExact dt n s' (tdvp1Step_canon exE2_ctx h hs') (ex2_step_q h q hs')⟩

end Ptn.Evo

import PtnModel.Proofs.TreeSem
import PtnModel.Proofs.AutPaths
/-!
# The coefficient functions of padded trees are the coefficients in the model's formal sums `denTreeRaw`
-/
set_option linter.unusedSectionVars false

namespace Ptn.Og
open List

variable {κ : Type} [CommRing κ] [DecidableEq κ]

theorem symCoeff_append (s s' : Sym κ) (w : Word) : symCoeff (s ++ s') w = symCoeff s w + symCoeff s' w := by
  simp [symCoeff_eq_sum]

theorem symCoeff_map_cons_nil (s : Sym κ) (o' : Int) (c : κ) :
    symCoeff (s.map fun q => (o' :: q.1, c * q.2)) [] = 0 := by
  rw [symCoeff_eq_sum, map_map]
  apply sum_map_eq_zero
  intro q _
  simp

/-- pad a path with identities after its leaf up to `dist` sites -/
def padPath (id : Int) (dist : Nat) (p : Word × κ) : Word × κ := (p.1 ++ List.replicate (dist - p.1.length) id, p.2)

theorem coef_eq_paths (id : Int) :
    (∀ T : TNode κ, ∀ (dist : Nat) (w : Word), T.coef id dist w = symCoeff (T.paths.map (padPath id dist)) w) ∧
    (∀ cs : List (Int × κ × TNode κ), ∀ (dist : Nat) (w : Word),
      kidsCoef id cs dist w = symCoeff ((childrenPaths cs).map (padPath id dist)) w) := by
  apply TNode.induct2
  · intro q cs ih dist w
    cases cs with
    | nil =>
      simp only [TNode.coef, TNode.paths, map_cons, map_nil, padPath, length_nil, Nat.sub_zero, nil_append,
        symCoeff_eq_sum, sum_cons, sum_nil, add_zero]
      by_cases h : w = List.replicate dist id
      · subst h; simp
      · have : ¬ List.replicate dist id = w := fun hc => h hc.symm
        simp [h, this]
    | cons c cs => simp only [TNode.coef, TNode.paths]; exact ih dist w
  · intro dist w
    simp [kidsCoef, childrenPaths, symCoeff_nil]
  · intro oid c t cs ih1 ih2 dist w
    rw [kidsCoef_cons, childrenPaths, map_append, symCoeff_append, ← ih2 dist w]
    congr 1
    have hm : (t.paths.map fun p => (oid :: p.1, c * p.2)).map (padPath id dist) =
        (t.paths.map (padPath id (dist - 1))).map fun q => (oid :: q.1, c * q.2) := by
      rw [map_map, map_map]
      apply map_congr_left
      intro p _
      simp only [Function.comp, padPath, length_cons, cons_append, Prod.mk.injEq, cons.injEq, true_and, and_true]
      congr 2
      omega
    rw [hm]
    cases w with
    | nil => rw [symCoeff_map_cons_nil]
    | cons o w' =>
      simp only
      rw [symCoeff_map_cons, ih1 (dist - 1) w']
      by_cases ho : o = oid
      · subst ho; simp
      · have : ¬ oid = o := fun hc => ho hc.symm
        simp [ho, this]

theorem chainCoef_id_sym (id : Int) (n : Nat) (S : Sym κ) (w : Word) :
    chainCoef (List.replicate n id) (List.replicate n (1 : κ)) (symCoeff S) w =
      symCoeff (S.map fun q => (List.replicate n id ++ q.1, q.2)) w := by
  induction n generalizing w with
  | zero => simp [chainCoef]
  | succ n ih =>
    have hm : (S.map fun q => (List.replicate (n + 1) id ++ q.1, q.2)) =
        (S.map fun q => (List.replicate n id ++ q.1, q.2)).map fun q => (id :: q.1, 1 * q.2) := by
      rw [map_map]
      apply map_congr_left
      intro q _
      simp [replicate_succ]
    rw [hm]
    cases w with
    | nil => rw [symCoeff_map_cons_nil]; simp [replicate_succ, chainCoef]
    | cons o w' =>
      rw [symCoeff_map_cons, replicate_succ, replicate_succ, chainCoef_cons_cons, ih w']
      by_cases ho : o = id
      · subst ho; simp
      · have : ¬ id = o := fun hc => ho hc.symm
        simp [ho, this]

/-- the coefficient function of a padded tree is the coefficient in the model's formal sum `denTreeRaw` -/
theorem OpTree.coef_eq (id L : Int) (tree : OpTree κ) (w : Word) :
    tree.coef id L w = symCoeff (denTreeRaw tree L id) w := by
  unfold OpTree.coef
  have h1 : tree.root.coef id (L - tree.istart).toNat =
      symCoeff (tree.root.paths.map (padPath id (L - tree.istart).toNat)) := by
    funext w'; exact (coef_eq_paths id).1 tree.root _ w'
  rw [h1]
  simp only [pyRepeat]
  rw [chainCoef_id_sym]
  congr 1
  unfold denTreeRaw
  rw [map_map]
  apply map_congr_left
  intro p _
  simp only [Function.comp, padPath, pyRepeat, append_assoc, Prod.mk.injEq, and_true]
  congr 3
  omega

theorem sum_coef_eq (id L : Int) (trees : List (OpTree κ)) (w : Word) :
    (trees.map fun t => t.coef id L w).sum = symCoeff (denTreesRaw trees L id) w := by
  unfold denTreesRaw
  rw [symCoeff_flatMap]
  apply sum_map_congr
  intro t _
  exact OpTree.coef_eq id L t w

end Ptn.Og

import PtnModel.Proofs.HistSvd
/-!
# C02: `MPS.compress` keeps well-formedness unless a bond collapses to dimension zero

`compress` = QR orthonormalization in the opposite direction (`ortho_mps_wf`), an SVD sweep whose new tensors are
asserted block sparse by the code itself (shapes from `split_facts`), and a scaling of the last tensor by a phase.
-/
set_option linter.unusedSectionVars false
namespace Ptn.HistWf
open Ptn.Hist Ptn.Ortho Ptn.BondOps Ptn.Dense
variable {𝕜 : Type} [CommRing 𝕜] [DecidableEq 𝕜]
variable {ρ : Type} [Field ρ] [LinearOrder ρ] [IsStrictOrderedRing ρ] [RealLike ρ 𝕜]
variable {k : MPS.SvdKernels 𝕜 ρ} {tol : ρ} {qd : List Int}

/-! ## modifying the last tensor of a chain -/

def mapLast (f : T3 𝕜 → T3 𝕜) : List (T3 𝕜) → List (T3 𝕜)
  | [] => []
  | [A] => [f A]
  | A :: B :: As => A :: mapLast f (B :: As)

theorem take_drop_mapLast (f : T3 𝕜 → T3 𝕜) : ∀ (As : List (T3 𝕜)),
    As.take (As.length - 1) ++ (As.drop (As.length - 1)).map f = mapLast f As
  | [] => rfl
  | [A] => rfl
  | A :: B :: As => by
    have := take_drop_mapLast f (B :: As)
    simp only [List.length_cons, Nat.add_sub_cancel] at this ⊢
    rw [List.take_succ_cons, List.drop_succ_cons, List.cons_append, this, mapLast]

theorem wfC_mapLast_map (g f : T3 𝕜 → T3 𝕜)
    (hf : ∀ A qa qb, T3Wf (g A) qd qa qb → T3Wf (g (f A)) qd qa qb) :
    ∀ {qL : List Int} {As : List (T3 𝕜)} {qs : List (List Int)},
    WfC qd qL (As.map g) qs → WfC qd qL ((mapLast f As).map g) qs
  | _, [], [], _ => by simp [mapLast]
  | _, [], _ :: _, h => by simp at h
  | _, _ :: _, [], h => by simp at h
  | _, [A], [qR], h => by
    simp only [List.map_cons, List.map_nil, wfC_cons, wfC_nil, and_true, mapLast] at h ⊢
    exact hf _ _ _ h
  | _, [A], _ :: _ :: _, h => by simp at h
  | _, A :: B :: As, [qR], h => by simp at h
  | _, A :: B :: As, qR :: qR' :: qs, h => by
    rw [List.map_cons, wfC_cons] at h
    simp only [mapLast]
    rw [List.map_cons, wfC_cons]
    exact ⟨h.1, wfC_mapLast_map g f hf h.2⟩

theorem t3wf_scale_tab (c : 𝕜) {A : T3 𝕜} {qa qb : List Int} (h : T3Wf A qd qa qb) :
    T3Wf (MPS.scaleT3 c A).tab qd qa qb :=
  T3Wf.tab ⟨h.d0, h.d1, h.d2, fun s a b hs ha hb hne => h.sp s a b hs ha hb (fun h0 => hne (by
    show c * A.f s a b = 0
    rw [h0, mul_zero]))⟩

theorem t3wf_swap_scale_tab (c : 𝕜) {A : T3 𝕜} {qa qb : List Int} (h : T3Wf A.swap12 qd qa qb) :
    T3Wf (MPS.scaleT3 c A).tab.swap12 qd qa qb := by
  refine ⟨h.d0, h.d1, h.d2, fun s a b hs ha hb hne => h.sp s a b hs ha hb (fun h0 => hne ?_)⟩
  have hs' : s < A.d0 := hs
  have ha' : a < A.d2 := ha
  have hb' : b < A.d1 := hb
  show (MPS.scaleT3 c A).tab.f s b a = 0
  rw [Env.t3_tab_f (A := MPS.scaleT3 c A) hs' hb' ha']
  show c * A.f s b a = 0
  have h0' : A.f s b a = 0 := h0
  rw [h0', mul_zero]

/-! ## the SVD sweeps -/

theorem sweepLeftSvd_wfC (hshape : ∀ B, SvdShapeAt k.dsvd B) : ∀ {rest : List (T3 𝕜)} {A : T3 𝕜} {qL : List Int}
    {qRs : List (List Int)} {As : List (T3 𝕜)} {qs : List (List Int)} {T : T3 𝕜},
    MPS.sweepLeftSvd k qd tol A qL rest qRs = .ok (As, qs, T) → (∀ q ∈ qs, q ≠ []) →
    A.d0 = qd.length → A.d1 = qL.length → (∀ X ∈ rest, X.d0 = qd.length) → WfC qd qL As qs
  | [], A, qL, [], _, _, _, h, _, _, _, _ => by simp [MPS.sweepLeftSvd] at h
  | [], A, qL, [qR], As, qs, T, h, hne, h0, h1, _ => by
    rw [MPS.sweepLeftSvd] at h
    simp only [bind_ok, pure_ok, Prod.mk.injEq] at h
    obtain ⟨⟨A', T', qb⟩, hl, _, hsp, rfl, rfl, rfl⟩ := h
    rw [pyAssert_ok] at hsp
    dsimp only at hsp
    have hd := localLeftSvd_dims hshape hl (hne qb (by simp))
    simp only [wfC_cons, wfC_nil, and_true]
    exact ⟨hd.a0.trans h0, hd.a1.trans h1, hd.a2, (isSparseT3_iff _ _ _ _).1 hsp⟩
  | [], A, qL, _ :: _ :: _, _, _, _, h, _, _, _, _ => by simp [MPS.sweepLeftSvd] at h
  | Anext :: rest, A, qL, [], _, _, _, h, _, _, _, _ => by simp [MPS.sweepLeftSvd] at h
  | Anext :: rest, A, qL, qR :: qRest, As, qs, T, h, hne, h0, h1, hr => by
    rw [MPS.sweepLeftSvd] at h
    simp only [bind_ok, pure_ok, Prod.mk.injEq] at h
    obtain ⟨⟨A', Anext', qb⟩, hl, _, hsp, ⟨As', qs', T'⟩, hs, rfl, rfl, rfl⟩ := h
    rw [pyAssert_ok] at hsp
    dsimp only at hsp hs
    have hd := localLeftSvd_dims hshape hl (hne qb (by simp))
    rw [wfC_cons]
    refine ⟨⟨hd.a0.trans h0, hd.a1.trans h1, hd.a2, (isSparseT3_iff _ _ _ _).1 hsp⟩, ?_⟩
    exact sweepLeftSvd_wfC hshape hs (fun q hq => hne q (List.mem_cons_of_mem _ hq))
      (hd.n0.trans (hr Anext List.mem_cons_self)) hd.n1 (fun X hX => hr X (List.mem_cons_of_mem _ hX))

theorem sweepRightSvd_wfC (hshape : ∀ B, SvdShapeAt k.dsvd B) : ∀ {rest : List (T3 𝕜)} {A : T3 𝕜} {qR : List Int}
    {qLs : List (List Int)} {As : List (T3 𝕜)} {qs : List (List Int)} {T : T3 𝕜},
    MPS.sweepRightSvd k qd tol A qR rest qLs = .ok (As, qs, T) → (∀ q ∈ qs, q ≠ []) →
    A.d0 = qd.length → A.d2 = qR.length → (∀ X ∈ rest, X.d0 = qd.length) →
    WfC qd (QN.neg qR) (As.map T3.swap12) (qs.map QN.neg)
  | [], A, qR, [], _, _, _, h, _, _, _, _ => by simp [MPS.sweepRightSvd] at h
  | [], A, qR, [qL], As, qs, T, h, hne, h0, h2, _ => by
    rw [MPS.sweepRightSvd] at h
    simp only [bind_ok, pure_ok, Prod.mk.injEq] at h
    obtain ⟨⟨A', T', qb⟩, hl, _, hsp, rfl, rfl, rfl⟩ := h
    rw [pyAssert_ok] at hsp
    dsimp only at hsp
    have hd := localRightSvd_dims hshape hl (hne qb (by simp))
    simp only [List.map_cons, List.map_nil, wfC_cons, wfC_nil, and_true]
    exact t3wf_swap ⟨hd.a0.trans h0, hd.a1, hd.a2.trans h2, (isSparseT3_iff _ _ _ _).1 hsp⟩
  | [], A, qR, _ :: _ :: _, _, _, _, h, _, _, _, _ => by simp [MPS.sweepRightSvd] at h
  | Aprev :: rest, A, qR, [], _, _, _, h, _, _, _, _ => by simp [MPS.sweepRightSvd] at h
  | Aprev :: rest, A, qR, qL :: qRest, As, qs, T, h, hne, h0, h2, hr => by
    rw [MPS.sweepRightSvd] at h
    simp only [bind_ok, pure_ok, Prod.mk.injEq] at h
    obtain ⟨⟨A', Aprev', qb⟩, hl, _, hsp, ⟨As', qs', T'⟩, hs, rfl, rfl, rfl⟩ := h
    rw [pyAssert_ok] at hsp
    dsimp only at hsp hs
    have hd := localRightSvd_dims hshape hl (hne qb (by simp))
    rw [List.map_cons, List.map_cons, wfC_cons]
    refine ⟨t3wf_swap ⟨hd.a0.trans h0, hd.a1, hd.a2.trans h2, (isSparseT3_iff _ _ _ _).1 hsp⟩, ?_⟩
    exact sweepRightSvd_wfC hshape hs (fun q hq => hne q (List.mem_cons_of_mem _ hq))
      (hd.p0.trans (hr Aprev List.mem_cons_self)) hd.p2 (fun X hX => hr X (List.mem_cons_of_mem _ hX))

end Ptn.HistWf

namespace Ptn.HistWf
open Ptn.Hist Ptn.Ortho Ptn.BondOps Ptn.Dense
variable {𝕜 : Type} [CommRing 𝕜] [DecidableEq 𝕜]
variable {ρ : Type} [Field ρ] [LinearOrder ρ] [IsStrictOrderedRing ρ] [RealLike ρ 𝕜]
variable {k : MPS.SvdKernels 𝕜 ρ} {tol : ρ} {dqr : Mat 𝕜 → Mat 𝕜 × Mat 𝕜} {dabs : 𝕜 → ρ} {divR : 𝕜 → ρ → 𝕜}

/-! ## `MPS.compress` -/

theorem compress_left_wf (hqr : ∀ B, ShapeAt dqr B) (hsvd : ∀ B, SvdShapeAt k.dsvd B) {ψ ψ' : MPS 𝕜} {nrm sc : ρ}
    (w : ψ.wellFormed = true) (h : MPS.compress dqr k dabs divR ψ tol true = .ok (ψ', nrm, sc))
    (hne : ∀ q ∈ ψ'.qD.tail, q ≠ []) : ψ'.wellFormed = true := by
  unfold MPS.compress at h
  simp only [if_true, bind_ok] at h
  obtain ⟨⟨ψ1, nrm1⟩, hortho, h⟩ := h
  have w1 := ortho_mps_wf hqr w hortho
  obtain ⟨qd, qD, A⟩ := ψ1
  dsimp only at h
  split at h
  · rename_i A0 rest q0 qrest
    simp only [bind_ok, pure_ok, Prod.mk.injEq] at h
    obtain ⟨⟨As, qs, T⟩, hs, _, _, rfl, _, _⟩ := h
    dsimp only at hne ⊢
    rw [take_drop_mapLast, wellFormed_iff_wfC]
    rw [wellFormed_iff_wfC] at w1
    have hw : WfC qd q0 As qs := by
      cases qrest with
      | nil => simp at w1
      | cons qR qrest' =>
        rw [wfC_cons] at w1
        exact sweepLeftSvd_wfC hsvd hs (fun q hq => hne q hq) w1.1.d0 w1.1.d1 (wfC_d0 w1.2)
    have := wfC_mapLast_map (qd := qd) id (fun X => (MPS.scaleT3 (divR (T.f 0 0 0) (dabs (T.f 0 0 0))) X).tab)
      (fun A qa qb hA => t3wf_scale_tab _ hA) (qL := q0) (As := As) (qs := qs) (by simpa using hw)
    simpa using this
  · simp [throw_ne] at h

theorem compress_right_wf (hqr : ∀ B, ShapeAt dqr B) (hsvd : ∀ B, SvdShapeAt k.dsvd B) {ψ ψ' : MPS 𝕜} {nrm sc : ρ}
    (w : ψ.wellFormed = true) (h : MPS.compress dqr k dabs divR ψ tol false = .ok (ψ', nrm, sc))
    (hne : ∀ q ∈ ψ'.qD, q ≠ []) : ψ'.wellFormed = true := by
  unfold MPS.compress at h
  simp only [Bool.false_eq_true, if_false, bind_ok] at h
  obtain ⟨⟨ψ1, nrm1⟩, hortho, h⟩ := h
  have w1 := wellFormed_mirror (ortho_mps_wf hqr w hortho)
  obtain ⟨qd, qD, A⟩ := ψ1
  dsimp only at h
  split at h
  · rename_i Al rrest ql qrrest hAr hqr'
    simp only [bind_ok, pure_ok, Prod.mk.injEq] at h
    obtain ⟨⟨As, qs, T⟩, hs, _, _, rfl, _, _⟩ := h
    dsimp only at hne ⊢
    have wm' : WfC qd (QN.neg ql) (Al.swap12 :: rrest.map T3.swap12) (qrrest.map QN.neg) := by
      rw [← wellFormed_iff_wfC]
      simpa [mirror, hAr, hqr'] using w1
    have hw : WfC qd (QN.neg ql) (As.map T3.swap12) (qs.map QN.neg) := by
      cases qrrest with
      | nil => simp at wm'
      | cons qL qrrest' =>
        rw [List.map_cons, wfC_cons] at wm'
        refine sweepRightSvd_wfC hsvd hs (fun q hq => hne q ?_) wm'.1.d0 ?_ (fun X hX => ?_)
        · rw [List.mem_reverse]; exact List.mem_cons_of_mem _ hq
        · have := wm'.1.d1
          rw [neg_length] at this
          exact this
        · have := wfC_d0 wm'.2 X.swap12 (List.mem_map_of_mem hX)
          exact this
    rw [take_drop_mapLast]
    apply wellFormed_of_mirror
    simp only [mirror, List.reverse_reverse, List.map_cons]
    rw [wellFormed_iff_wfC]
    exact wfC_mapLast_map T3.swap12 (fun X => (MPS.scaleT3 (divR (T.f 0 0 0) (dabs (T.f 0 0 0))) X).tab)
      (fun A qa qb hA => t3wf_swap_scale_tab _ hA) hw
  · simp [throw_ne] at h

theorem compress_wf (hqr : ∀ B, ShapeAt dqr B) (hsvd : ∀ B, SvdShapeAt k.dsvd B) {ψ ψ' : MPS 𝕜} {nrm sc : ρ}
    {left : Bool} (w : ψ.wellFormed = true) (h : MPS.compress dqr k dabs divR ψ tol left = .ok (ψ', nrm, sc))
    (hne : ∀ q ∈ ψ'.qD, q ≠ []) : ψ'.wellFormed = true := by
  cases left with
  | true => exact compress_left_wf hqr hsvd w h (fun q hq => hne q (List.mem_of_mem_tail hq))
  | false => exact compress_right_wf hqr hsvd w h hne

end Ptn.HistWf

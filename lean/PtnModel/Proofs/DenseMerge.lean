import PtnModel.Proofs.DenseRow
import PtnModel.Proofs.DenseExcept
/-!
# `merge_mps_tensor_pair` preserves amplitudes; `as_vector` lists the amplitudes in row-major digit order
-/
namespace Ptn

theorem flatFrom_nil (d acc : Nat) : flatFrom d acc [] = acc := rfl
theorem flatFrom_cons (d acc s : Nat) (ss : List Nat) : flatFrom d acc (s :: ss) = flatFrom d (acc * d + s) ss := rfl
theorem flat_cons (d s : Nat) (ss : List Nat) : flat d (s :: ss) = flatFrom d s ss := by
  simp [flat, flatFrom_cons]

theorem Digits.tail {d n s : Nat} {ss : List Nat} (h : Digits d (n + 1) (s :: ss)) : Digits d n ss :=
  ⟨by simpa using h.1, fun x hx => h.2 x (by simp [hx])⟩
theorem Digits.head {d n s : Nat} {ss : List Nat} (h : Digits d (n + 1) (s :: ss)) : s < d := h.2 s (by simp)

theorem flatFrom_lt (d : Nat) : ∀ (n : Nat) (ss : List Nat) (m s0 : Nat), s0 < m → Digits d n ss →
    flatFrom d s0 ss < m * d ^ n
  | 0, [], m, s0, h, _ => by simpa [flatFrom_nil] using h
  | 0, _ :: _, _, _, _, h => by simp [Digits] at h
  | n + 1, [], _, _, _, h => by simp [Digits] at h
  | n + 1, s :: ss, m, s0, h, hd => by
      rw [flatFrom_cons, pow_succ, Nat.mul_comm (d ^ n), ← Nat.mul_assoc]
      exact flatFrom_lt d n ss (m * d) _ (Dense.fused_lt h hd.head) hd.tail

namespace MPS
open Finset Dense
variable {R : Type} [CommRing R]

theorem step_merge (A0 A1 : T3 R) (s0 s1 : Nat) (h : A0.d2 = A1.d1) (hs1 : s1 < A1.d0) (v : Nat → R) :
    step (mergePair A0 A1) (s0 * A1.d0 + s1) v = step A1 s1 (step A0 s0 v) := by
  funext c
  simp only [step, mergePair, sumRange_eq, fused_div hs1, fused_mod hs1, mul_sum, sum_mul, h]
  rw [sum_comm]
  apply sum_congr rfl; intro b _
  apply sum_congr rfl; intro a _
  ring

/-- merging two neighbouring tensors (combined digit `s0 * d1 + s1`) does not change the row-vector recursion -/
theorem ampRow_merge (A0 A1 : T3 R) (rest : List (T3 R)) (s0 s1 : Nat) (ss : List Nat) (h : A0.d2 = A1.d1)
    (hs1 : s1 < A1.d0) (v : Nat → R) :
    ampRow (mergePair A0 A1 :: rest) ((s0 * A1.d0 + s1) :: ss) v = ampRow (A0 :: A1 :: rest) (s0 :: s1 :: ss) v := by
  rw [ampRow_cons, ampRow_cons, ampRow_cons, step_merge A0 A1 s0 s1 h hs1]

theorem ampRow_append : ∀ (pre post : List (T3 R)) (spre spost : List Nat) (v : Nat → R),
    spre.length = pre.length → ampRow (pre ++ post) (spre ++ spost) v = ampRow post spost (ampRow pre spre v)
  | [], post, [], spost, v, _ => by simp [ampRow_nil]
  | [], _, _ :: _, _, _, h => by simp at h
  | _ :: _, _, [], _, _, h => by simp at h
  | A :: pre, post, s :: spre, spost, v, h => by
      simp only [List.cons_append, ampRow_cons]
      exact ampRow_append pre post spre spost _ (by simpa using h)

/-- replacing two neighbouring tensors of an MPS by their merged tensor preserves every amplitude -/
theorem merge_dense (qd : List Int) (qD qD' : List (List Int)) (pre post : List (T3 R)) (A0 A1 : T3 R)
    (spre spost : List Nat) (s0 s1 : Nat) (hpre : spre.length = pre.length) (h : A0.d2 = A1.d1) (hs1 : s1 < A1.d0) :
    (⟨qd, qD', pre ++ mergePair A0 A1 :: post⟩ : MPS R).amp (spre ++ (s0 * A1.d0 + s1) :: spost)
      = (⟨qd, qD, pre ++ A0 :: A1 :: post⟩ : MPS R).amp (spre ++ s0 :: s1 :: spost) := by
  simp only [amp_eq]
  rw [ampRow_append _ _ _ _ _ hpre, ampRow_append _ _ _ _ _ hpre, ampRow_merge A0 A1 post s0 s1 spost h hs1]

/-- invariant of the left fold of merges in `as_vector` -/
theorem fold_merge (d : Nat) : ∀ (rest : List (T3 R)) (acc : T3 R) (Dr : Nat), Chain d acc.d2 rest Dr →
    (rest.foldl (fun acc A => (mergePair acc A).tab) acc).d0 = acc.d0 * d ^ rest.length ∧
    (rest.foldl (fun acc A => (mergePair acc A).tab) acc).d1 = acc.d1 ∧
    (rest.foldl (fun acc A => (mergePair acc A).tab) acc).d2 = Dr ∧
    ∀ s0 < acc.d0, ∀ ss, Digits d rest.length ss → ∀ a < acc.d1, ∀ c < Dr,
      (rest.foldl (fun acc A => (mergePair acc A).tab) acc).f (flatFrom d s0 ss) a c
        = ampRow rest ss (fun b => acc.f s0 a b) c
  | [], acc, Dr, hc => by
      have hc : acc.d2 = Dr := hc
      refine ⟨by simp, rfl, hc, ?_⟩
      intro s0 _ ss hss a _ c _
      have : ss = [] := by simpa [Digits] using hss.1
      subst this
      simp [flatFrom_nil, ampRow_nil]
  | A :: rest, acc, Dr, hc => by
      obtain ⟨hA0, hA1, hc'⟩ := hc
      subst hA0
      have ih := fold_merge A.d0 rest (mergePair acc A).tab Dr hc'
      obtain ⟨i0, i1, i2, i3⟩ := ih
      simp only [List.foldl_cons, List.length_cons]
      refine ⟨?_, i1, i2, ?_⟩
      · rw [i0]; simp only [T3.tab_d0, mergePair, pow_succ]; ring
      · intro s0 hs0 ss hss a ha c hc
        match ss, hss with
        | s1 :: ss', hss =>
          have hs1 : s1 < A.d0 := hss.head
          rw [flatFrom_cons, ampRow_cons]
          rw [i3 (s0 * A.d0 + s1) (fused_lt hs0 hs1) ss' hss.tail a ha c hc]
          apply ampRow_congr A.d0 rest ss' A.d2 Dr _ _ hc' hss.tail.1 _ c hc
          intro b hb
          rw [T3.tab_f (mergePair acc A) (fused_lt hs0 hs1) ha hb]
          simp only [mergePair, step, sumRange_eq, fused_div hs1, fused_mod hs1, hA1]

/-- `as_vector` lists the amplitudes in row-major digit order -/
theorem asVector_amp (ψ : MPS R) (d : Nat) (hψ : Shaped ψ d) (v : List R) (h : ψ.asVector = .ok v) :
    v.length = d ^ ψ.A.length ∧ ∀ s, Digits d ψ.A.length s → v[flat d s]? = some (ψ.amp s) := by
  unfold asVector at h
  have hc := hψ.chain
  split at h
  · simp at h
  · rename_i A0 rest hA
    rw [hA] at hc ⊢
    simp only [pyAssert_bind, pure_ok] at h
    obtain ⟨_, rfl⟩ := h
    obtain ⟨h0, h1, hc'⟩ := hc
    obtain ⟨i0, i1, i2, i3⟩ := fold_merge d rest A0 1 hc'
    constructor
    · simp only [List.length_map, List.length_range, i0, h0, List.length_cons, pow_succ]; ring
    · intro s hs
      match s, hs with
      | s0 :: ss, hs =>
        have hlt : flatFrom d s0 ss < d * d ^ rest.length := flatFrom_lt d _ ss d s0 hs.head hs.tail
        rw [flat_cons, List.getElem?_map, List.getElem?_range (by rw [i0, h0]; exact hlt)]
        simp only [Option.map_some, Option.some.injEq]
        rw [i3 s0 (by rw [h0]; exact hs.head) ss hs.tail 0 (by omega) 0 (by omega)]
        rw [amp_eq, hA, ampRow_cons, step_e0 _ _ h1]

end MPS
end Ptn

import PtnModel.Proofs.ChainStar
/-!
# Progress: the cover steps of `from_opchains` do not raise

Sufficient conditions under which `uCoverStep` / `vCoverStep` return `.ok`.
-/
set_option linter.unusedSectionVars false

namespace Ptn.Ch
open Ptn Ptn.Og List

variable {κ : Type} [CommRing κ] [DecidableEq κ]

theorem uInner_ok (vlist : List HalfChain) (gamma : List ((Nat × Nat) × κ)) (i : Nat) (nid : Int) :
    ∀ (adj : List Nat) (s : ChState κ), adj.Nodup →
      (∀ j ∈ adj, (∃ v, vlist[j]? = some v ∧ v.oids.length + 1 = v.qnums.length) ∧
        (∃ c, gamma.lookup (i, j) = some c) ∧ (i, j) ∈ s.edges) →
      ∃ s', adj.foldlM (uInner vlist gamma i nid) s = .ok s' := by
  intro adj
  induction adj with
  | nil => intro s _ _; exact ⟨s, rfl⟩
  | cons j adj ih =>
    intro s hnd hpre
    obtain ⟨⟨v, hv, hvl⟩, ⟨c, hc⟩, hmem⟩ := hpre j (by simp)
    simp only [nodup_cons] at hnd
    have hstep : uInner vlist gamma i nid s j
        = .ok { s with vlistNext := s.vlistNext ++ [⟨v.oids, v.qnums, nid⟩], coeffsNext := s.coeffsNext ++ [c],
                       edges := s.edges.erase (i, j) } := by
      unfold uInner
      simp only [bind_ok_iff, pyIdx_ok_iff, halfChain_mk'_ok_iff, gammaGet_ok_iff, pyRemove_ok_iff, pure_ok_iff]
      exact ⟨v, hv, _, ⟨hvl, rfl⟩, c, hc, _, ⟨hmem, rfl⟩, rfl⟩
    obtain ⟨s', hs'⟩ := ih
      { s with vlistNext := s.vlistNext ++ [⟨v.oids, v.qnums, nid⟩], coeffsNext := s.coeffsNext ++ [c], edges := s.edges.erase (i, j) }
      hnd.2 (by
      intro j' hj'
      obtain ⟨h1, h2, h3⟩ := hpre j' (by simp [hj'])
      refine ⟨h1, h2, ?_⟩
      have : (i, j') ≠ (i, j) := by
        intro h; cases h; exact hnd.1 hj'
      exact (mem_erase_of_ne this).2 h3)
    exact ⟨s', by rw [foldlM_cons, hstep]; exact hs'⟩

theorem uCoverStep_ok (ulist : List UNode) (vlist : List HalfChain) (gamma : List ((Nat × Nat) × κ))
    (adjU : List (List Nat)) (s : ChState κ) (i : Nat) (u : UNode) (n : Node) (adj : List Nat)
    (hu : ulist[i]? = some u) (star : GStar s.graph s.nidNext s.eidNext)
    (hun : 0 ≤ u.nidl ∧ u.nidl < s.nidNext)
    (hn : dGet? s.graph.nodes u.nidl = some n) (hq : n.qnum = u.qnum0)
    (hadj : adjU[i]? = some adj) (hnd : adj.Nodup)
    (hpre : ∀ j ∈ adj, (∃ v, vlist[j]? = some v ∧ v.oids.length + 1 = v.qnums.length) ∧
        (∃ c, gamma.lookup (i, j) = some c) ∧ (i, j) ∈ s.edges) :
    ∃ s', uCoverStep ulist vlist gamma adjU s i = .ok s' := by
  have hfresh : (n.eids true).contains s.eidNext = false := by
    rw [Node.eids, if_pos rfl, (star.nodeOK _ n hn).2.1]
    cases hc : (outIds s.graph u.nidl).contains s.eidNext with
    | false => rfl
    | true =>
      have := star.outIds_lt u.nidl s.eidNext (by simpa using hc)
      omega
  let g1 : Graph κ := { s.graph with nodes := dReplace s.graph.nodes u.nidl (n.setEids true (n.eids true ++ [s.eidNext])) ++ [(s.nidNext, ⟨s.nidNext, [s.eidNext], [], u.qnum1⟩)], edges := s.graph.edges ++ [(s.eidNext, ⟨s.eidNext, (u.nidl, s.nidNext), [(u.oid, 1)]⟩)] }
  obtain ⟨s', hs'⟩ := uInner_ok vlist gamma i s.nidNext adj
    { s with graph := g1, nidNext := s.nidNext + 1, eidNext := s.eidNext + 1 } hnd hpre
  refine ⟨s', ?_⟩
  unfold uCoverStep
  simp only [bind_ok_iff, pyIdx_ok_iff, addEdge_ok_iff, getNode_ok_iff, addEdgeId_ok_iff, pyAssert_ok_iff,
    nodeMk'_ok_iff, addNode_ok_iff, edgeMk'_single]
  refine ⟨u, hu, _, ⟨star.edge_fresh, rfl⟩, n, hn, _, ⟨hfresh, rfl⟩, (), ?_, _, ⟨rfl, rfl, rfl⟩, _, ⟨?_, rfl⟩,
    adj, hadj, hs'⟩
  · simp [Node.setEids, hq]
  · simp only [dHas_dReplace]
    exact star.node_fresh

/-- the quantum number of the node stored under `x` -/
def nodeQ (g : Graph κ) (x : Int) : Option Int := (dGet? g.nodes x).map (·.qnum)

theorem nodeQ_dReplace (g : Graph κ) (a : Int) (n1 n1' : Node) (edges : List (Int × Edge κ))
    (h1 : dGet? g.nodes a = some n1) (hq : n1'.qnum = n1.qnum) (x : Int) :
    nodeQ { g with nodes := dReplace g.nodes a n1', edges := edges } x = nodeQ g x := by
  unfold nodeQ
  simp only [dGet?_dReplace]
  by_cases hx : x = a
  · subst hx; simp [h1, hq]
  · simp [hx]

theorem vInner_ok (ulist : List UNode) (gamma : List ((Nat × Nat) × κ)) (j : Nat) (nid : Int)
    (t : ChState κ) (i : Nat) (q : Int)
    (star : GStar t.graph t.nidNext t.eidNext) (hnid : 0 ≤ nid ∧ nid < t.nidNext)
    (hq : nodeQ t.graph nid = some q)
    (hpre : (i, j) ∈ t.edges → ∃ u c, ulist[i]? = some u ∧ gamma.lookup (i, j) = some c ∧
      0 ≤ u.nidl ∧ u.nidl < nid ∧ nodeQ t.graph u.nidl = some u.qnum0 ∧ u.qnum1 = q) :
    ∃ t', vInner ulist gamma j nid t i = .ok t' := by
  unfold vInner
  by_cases hc : t.edges.contains (i, j) = true
  · have hmem : (i, j) ∈ t.edges := by simpa using hc
    obtain ⟨u, c, hu, hcg, hu0, hul, hqu, hq1⟩ := hpre hmem
    obtain ⟨n1, hn1⟩ := star.node_exists (k := u.nidl) ⟨hu0, by omega⟩
    obtain ⟨n2, hn2⟩ := star.node_exists (k := nid) hnid
    have hne : nid ≠ u.nidl := by omega
    have hf1 : (n1.eids true).contains t.eidNext = false := by
      rw [Node.eids, if_pos rfl, (star.nodeOK _ n1 hn1).2.1]
      cases hc' : (outIds t.graph u.nidl).contains t.eidNext with
      | false => rfl
      | true =>
        have := star.outIds_lt u.nidl t.eidNext (by simpa using hc')
        omega
    have hf2 : (n2.eids false).contains t.eidNext = false := by
      simp only [Node.eids, Bool.false_eq_true, if_false]
      rw [(star.nodeOK _ n2 hn2).2.2]
      cases hc' : (inIds t.graph nid).contains t.eidNext with
      | false => rfl
      | true =>
        have := star.inIds_lt nid t.eidNext (by simpa using hc')
        omega
    have hq2 : n2.qnum = q := by
      unfold nodeQ at hq; rw [hn2] at hq; simpa using hq
    have hq1' : n1.qnum = u.qnum0 := by
      unfold nodeQ at hqu; rw [hn1] at hqu; simpa using hqu
    simp only [hc, Bool.not_true, Bool.false_eq_true, if_false]
    simp only [bind_ok_iff, pyIdx_ok_iff, gammaGet_ok_iff, addEdge_ok_iff, getNode_ok_iff, pyAssert_ok_iff,
      pyRemove_ok_iff, modifyNode_ok_iff, addEdgeId_ok_iff, pure_ok_iff, edgeMk'_single]
    refine ⟨_, u, hu, c, hcg, _, ⟨star.edge_fresh, rfl⟩, n2, hn2, (), ?_, _, ⟨hmem, rfl⟩, _,
      ⟨n1, hn1, _, ⟨hf1, rfl⟩, rfl⟩, n1.setEids true (n1.eids true ++ [t.eidNext]), ?_, (), ?_, _,
      ⟨n2, ?_, _, ⟨hf2, rfl⟩, rfl⟩, rfl⟩
    · simp [hq1, hq2]
    · simp only [dGet?_dReplace, if_true, hn1, Option.map_some]
    · simp [Node.setEids, hq1']
    · simp only [dGet?_dReplace, if_neg hne, hn2]
  · have hb : t.edges.contains (i, j) = false := by simpa using hc
    simp only [hb, Bool.not_false, if_true]
    exact ⟨t, rfl⟩

theorem outIds_mono (g g' : Graph κ) (new : List (Edge κ)) (h : edgeList g' = edgeList g ++ new) (x : Int)
    (hx : outIds g x ≠ []) : outIds g' x ≠ [] := by
  unfold outIds at hx ⊢
  rw [h, filter_append, map_append]
  intro h0
  exact hx (append_eq_nil_iff.1 h0).1

/-- the whole inner loop of the V branch: progress and what it does -/
theorem vInnerLoop_ok (ulist : List UNode) (gamma : List ((Nat × Nat) × κ)) (j : Nat) (nid : Int) (q : Int) :
    ∀ (adj : List Nat) (t : ChState κ),
      GStar t.graph t.nidNext t.eidNext → (0 ≤ nid ∧ nid < t.nidNext) → nodeQ t.graph nid = some q →
      t.edges.Nodup →
      (∀ i ∈ adj, (i, j) ∈ t.edges → ∃ u c, ulist[i]? = some u ∧ gamma.lookup (i, j) = some c ∧
        0 ≤ u.nidl ∧ u.nidl < nid ∧ nodeQ t.graph u.nidl = some u.qnum0 ∧ u.qnum1 = q) →
      ∃ t', adj.foldlM (vInner ulist gamma j nid) t = .ok t' ∧
        GStar t'.graph t'.nidNext t'.eidNext ∧ t'.nidNext = t.nidNext ∧
        (∀ x, nodeQ t'.graph x = nodeQ t.graph x) ∧
        t'.vlistNext = t.vlistNext ∧ t'.coeffsNext = t.coeffsNext ∧ t'.edges.Nodup ∧
        (∀ e, e ∈ t'.edges ↔ (e ∈ t.edges ∧ ¬(e.2 = j ∧ e.1 ∈ adj))) ∧
        (∃ new, edgeList t'.graph = edgeList t.graph ++ new ∧
          ∀ e ∈ new, e.nids.2 = nid ∧ ∃ u ∈ ulist, e.nids.1 = u.nidl) ∧
        (∀ i ∈ adj, (i, j) ∈ t.edges → ∀ u, ulist[i]? = some u → outIds t'.graph u.nidl ≠ []) := by
  intro adj
  induction adj with
  | nil =>
    intro t star _ _ hnd _
    exact ⟨t, rfl, star, rfl, fun _ => rfl, rfl, rfl, hnd, by simp, ⟨[], by simp, by simp⟩, by simp⟩
  | cons i adj ih =>
    intro t star hnid hq hnd hpre
    obtain ⟨t1, ht1⟩ := vInner_ok ulist gamma j nid t i q star hnid hq (hpre i (by simp))
    -- the state after one round
    have hone : GStar t1.graph t1.nidNext t1.eidNext ∧ t1.nidNext = t.nidNext ∧
        (∀ x, nodeQ t1.graph x = nodeQ t.graph x) ∧ t1.vlistNext = t.vlistNext ∧ t1.coeffsNext = t.coeffsNext ∧
        t1.edges.Nodup ∧ (∀ e, e ∈ t1.edges ↔ (e ∈ t.edges ∧ e ≠ (i, j))) ∧
        (∃ new, edgeList t1.graph = edgeList t.graph ++ new ∧
          ∀ e ∈ new, e.nids.2 = nid ∧ ∃ u ∈ ulist, e.nids.1 = u.nidl) ∧
        ((i, j) ∈ t.edges → ∀ u, ulist[i]? = some u → outIds t1.graph u.nidl ≠ []) := by
      rcases vInner_step ulist gamma j nid t t1 i ht1 with ⟨hnm, rfl⟩ |
        ⟨hmem, u, c, n1, n2, hu, _, _, hn1, _, _, hn2, _, _, hg, hn, he, hvl, hcs, hed⟩
      · refine ⟨star, rfl, fun _ => rfl, rfl, rfl, hnd, ?_, ⟨[], by simp, by simp⟩, fun h => absurd h hnm⟩
        intro e
        constructor
        · intro he; exact ⟨he, fun h => hnm (h ▸ he)⟩
        · intro he; exact he.1
      · obtain ⟨u', c', hu', _, hu0, hul, _, _⟩ := hpre i (by simp) hmem
        rw [hu] at hu'; cases hu'
        have hstar1 := star.insert_v u.nidl nid u.oid c n1 n2 hu0 hul hnid.2 hn1 hn2
        have hne : nid ≠ u.nidl := by omega
        have hn2' : dGet? t.graph.nodes nid = some n2 := by
          rw [dGet?_dReplace, if_neg hne] at hn2; exact hn2
        refine ⟨by rw [hg, hn, he]; exact hstar1, hn, ?_, hvl, hcs, by rw [hed]; exact hnd.erase _, ?_, ?_, ?_⟩
        · intro x
          rw [hg]
          have e1 := nodeQ_dReplace { t.graph with nodes := dReplace t.graph.nodes u.nidl (n1.setEids true (n1.eidsOut ++ [t.eidNext])) }
            nid n2 (n2.setEids false (n2.eidsIn ++ [t.eidNext])) (t.graph.edges ++ [(t.eidNext, ⟨t.eidNext, (u.nidl, nid), [(u.oid, c)]⟩)])
            hn2 (by simp [Node.setEids]) x
          have e2 := nodeQ_dReplace t.graph u.nidl n1 (n1.setEids true (n1.eidsOut ++ [t.eidNext])) t.graph.edges
            hn1 (by simp [Node.setEids]) x
          exact e1.trans e2
        · intro e
          rw [hed, hnd.mem_erase_iff]
          exact and_comm
        · refine ⟨[⟨t.eidNext, (u.nidl, nid), [(u.oid, c)]⟩], by rw [hg]; simp [edgeList], ?_⟩
          intro e he'
          simp only [mem_singleton] at he'
          subst he'
          exact ⟨rfl, u, mem_of_getElem? hu, rfl⟩
        · intro _ u'' hu''
          rw [hu] at hu''; cases hu''
          rw [hg]
          unfold outIds edgeList
          simp
    obtain ⟨hs1, hn1, hq1, hvl1, hcs1, hnd1, hmem1, ⟨new1, hnew1, hnew1'⟩, hout1⟩ := hone
    obtain ⟨t', ht', hs', hn', hq', hvl', hcs', hnd', hmem', ⟨new2, hnew2, hnew2'⟩, hout2⟩ :=
      ih t1 hs1 (by rw [hn1]; exact hnid) (by rw [hq1]; exact hq) hnd1 (by
        intro i' hi' hmem
        obtain ⟨u, c, h1, h2, h3, h4, h5, h6⟩ := hpre i' (by simp [hi']) ((hmem1 _).1 hmem).1
        exact ⟨u, c, h1, h2, h3, h4, by rw [hq1]; exact h5, h6⟩)
    refine ⟨t', by rw [foldlM_cons, ht1]; exact ht', hs', by rw [hn', hn1], fun x => by rw [hq', hq1],
      by rw [hvl', hvl1], by rw [hcs', hcs1], hnd', ?_, ⟨new1 ++ new2, by rw [hnew2, hnew1, append_assoc], ?_⟩, ?_⟩
    · intro e
      rw [hmem', hmem1]
      constructor
      · rintro ⟨⟨h1, h2⟩, h3⟩
        refine ⟨h1, ?_⟩
        rintro ⟨h4, h5⟩
        rcases mem_cons.1 h5 with h5 | h5
        · exact h2 (by cases e; simp_all)
        · exact h3 ⟨h4, h5⟩
      · rintro ⟨h1, h2⟩
        refine ⟨⟨h1, ?_⟩, fun h3 => h2 ⟨h3.1, mem_cons_of_mem _ h3.2⟩⟩
        rintro rfl
        exact h2 ⟨rfl, by simp⟩
    · intro e he
      rcases mem_append.1 he with he | he
      · exact hnew1' e he
      · exact hnew2' e he
    · intro i' hi' hmem u hu
      rcases mem_cons.1 hi' with rfl | hi'
      · exact outIds_mono _ _ new2 hnew2 _ (hout1 hmem u hu)
      · by_cases hii : i' = i
        · subst hii
          exact outIds_mono _ _ new2 hnew2 _ (hout1 hmem u hu)
        · exact hout2 i' hi' ((hmem1 _).2 ⟨hmem, by intro h; cases h; exact hii rfl⟩) u hu

end Ptn.Ch

import PtnModel.Proofs.DenseMul
/-!
# Dense meaning of `Op.applyOperator` (`apply_operator`): same Kronecker-fusion invariant as `multiply_mpo`
-/
namespace Ptn.Op
open Finset Dense
variable {R : Type} [CommRing R]

/-- the site tensor built by `apply_operator` (before memoisation) -/
def appT (W : T4 R) (P : T3 R) : T3 R :=
  ⟨W.d0, W.d2 * P.d1, W.d3 * P.d2, fun s' x y =>
    sumRange W.d1 fun s => W.f s' s (x / P.d1) (y / P.d2) * P.f s (x % P.d1) (y % P.d2)⟩

/-- what a successful `applyOperator` returns (tensor list only) -/
theorem apply_A [DecidableEq R] (o : MPO R) (ψ r : MPS R) (h : applyOperator o ψ = .ok r) :
    ZipRel (fun (W : T4 R) (P : T3 R) => W.d1 = P.d0) (fun W P => (appT W P).tab) o.A ψ.A r.A := by
  unfold applyOperator at h
  simp only [pyAssert_bind] at h
  obtain ⟨_, hlen, _, h⟩ := h
  simp only [bind_ok, pure_ok] at h
  obtain ⟨res, hfor, rfl⟩ := h
  have hlen : ψ.A.length = o.A.length := by simpa using hlen
  apply zipRel_of_forall₂ _ _ _ _ _ hlen.symm
  have key : ∃ as, res = [] ++ as ∧ List.Forall₂
      (fun i Z => ∃ W P, o.A[i]? = some W ∧ ψ.A[i]? = some P ∧ W.d1 = P.d0 ∧ Z = (appT W P).tab)
      (List.range ψ.A.length) as := by
    refine forIn_append_spec _ _ ?_ _ _ _ hfor
    intro i acc r' hr'
    split at hr'
    · rename_i W P hW hP
      split at hr'
      · simp [throw_bind_ne] at hr'
      · rename_i hne
        simp only [not_not] at hne
        simp only [pyAssert_bind, pure_ok] at hr'
        exact ⟨_, hr'.2.symm, W, P, hW, hP, hne, rfl⟩
    · rw [throw_bind_ne] at hr'
      exact hr'.elim
  obtain ⟨as, has, hfa⟩ := key
  have has : res = as := by simpa using has
  subst has
  rw [← hlen]
  exact hfa

theorem step_app (W : T4 R) (P : T3 R) (s : Nat) (hs : s < W.d0) (v v0 v1 : Nat → R)
    (hv : ∀ a < W.d2 * P.d1, v a = v0 (a / P.d1) * v1 (a % P.d1)) :
    ∀ x < W.d3 * P.d2, MPS.step (appT W P).tab s v x
      = ∑ u ∈ range W.d1, MPO.step W s u v0 (x / P.d2) * MPS.step P u v1 (x % P.d2) := by
  intro x hx
  have e : MPS.step (appT W P).tab s v x
      = ∑ a ∈ range (W.d2 * P.d1), (fun a0 a1 => v0 a0 * v1 a1 *
          ∑ u ∈ range W.d1, W.f s u a0 (x / P.d2) * P.f u a1 (x % P.d2)) (a / P.d1) (a % P.d1) := by
    apply sum_congr rfl
    intro a ha
    have ha := mem_range.1 ha
    simp only [T3.tab_d1, appT] at ha
    rw [T3.tab_f (appT W P) hs ha hx, hv a ha]
    simp only [appT, sumRange_eq]
  refine (e.trans (sum_range_mul_divmod W.d2 P.d1 (fun a0 a1 => v0 a0 * v1 a1 *
          ∑ u ∈ range W.d1, W.f s u a0 (x / P.d2) * P.f u a1 (x % P.d2)))).trans ?_
  simp only [MPS.step, MPO.step, sum_mul_sum]
  simp only [mul_sum]
  rw [sum_congr rfl (fun a0 _ => sum_comm), sum_comm]
  apply sum_congr rfl; intro u _
  apply sum_congr rfl; intro a0 _
  apply sum_congr rfl; intro a1 _
  ring

theorem zipRel_chain (d : Nat) : ∀ (Ws : List (T4 R)) (Ps Zs : List (T3 R)) (D0 D1 Dr0 Dr1 : Nat),
    ZipRel (fun (W : T4 R) (P : T3 R) => W.d1 = P.d0) (fun W P => (appT W P).tab) Ws Ps Zs →
    MPO.Chain d D0 Ws Dr0 → MPS.Chain d D1 Ps Dr1 → MPS.Chain d (D0 * D1) Zs (Dr0 * Dr1)
  | [], [], [], _, _, _, _, _, h0, h1 => by
      have h0 : _ = _ := h0
      have h1 : _ = _ := h1
      subst h0 h1; rfl
  | W :: Ws, P :: Ps, Z :: Zs, D0, D1, Dr0, Dr1, h, h0, h1 => by
      obtain ⟨_, rfl, h⟩ := h
      obtain ⟨hx0, hx1, hx2, hx3⟩ := h0
      obtain ⟨hy0, hy1, hy2⟩ := h1
      subst hx2 hy1
      exact ⟨hx0, rfl, zipRel_chain d Ws Ps Zs _ _ _ _ h hx3 hy2⟩
  | [], [], _ :: _, _, _, _, _, h, _, _ => by simp [ZipRel] at h
  | [], _ :: _, _, _, _, _, _, h, _, _ => by simp [ZipRel] at h
  | _ :: _, [], _, _, _, _, _, h, _, _ => by simp [ZipRel] at h
  | _ :: _, _ :: _, [], _, _, _, _, h, _, _ => by simp [ZipRel] at h

/-- row-vector invariant of `apply_operator` -/
theorem app_row (d : Nat) : ∀ (Ws : List (T4 R)) (Ps Zs : List (T3 R)) (D0 D1 Dr0 Dr1 : Nat) (ss : List Nat)
    (v v0 v1 : Nat → R),
    ZipRel (fun (W : T4 R) (P : T3 R) => W.d1 = P.d0) (fun W P => (appT W P).tab) Ws Ps Zs →
    MPO.Chain d D0 Ws Dr0 → MPS.Chain d D1 Ps Dr1 → Digits d Ws.length ss →
    (∀ x < D0 * D1, v x = v0 (x / D1) * v1 (x % D1)) →
    ∀ y < Dr0 * Dr1, MPS.ampRow Zs ss v y
      = sumDigits d Ws.length (fun ts => MPO.elemRow Ws ss ts v0 (y / Dr1) * MPS.ampRow Ps ts v1 (y % Dr1))
  | [], [], [], D0, D1, Dr0, Dr1, ss, v, v0, v1, _, h0, h1, _, hv, y, hy => by
      have h0 : _ = _ := h0
      have h1 : _ = _ := h1
      subst h0 h1
      simp only [List.length_nil, MPO.sumDigits_zero, MPO.elemRow_nil'', MPS.ampRow_nil]
      exact hv y hy
  | W :: Ws, P :: Ps, Z :: Zs, D0, D1, Dr0, Dr1, ss, v, v0, v1, h, h0, h1, hss, hv, y, hy => by
      obtain ⟨hxy, rfl, h⟩ := h
      obtain ⟨hx0, hx1, hx2, hx3⟩ := h0
      obtain ⟨hy0, hy1, hy2⟩ := h1
      subst hx2 hy1
      obtain ⟨hl, hlt⟩ := hss
      match ss, hl with
      | s :: ss', hl =>
        have hs : s < W.d0 := by rw [hx0]; exact hlt s (by simp)
        have hss' : Digits d Ws.length ss' := ⟨by simpa using hl, fun x hx => hlt x (by simp [hx])⟩
        have hcz := zipRel_chain d Ws Ps Zs _ _ _ _ h hx3 hy2
        rw [MPS.ampRow_cons, List.length_cons, MPO.sumDigits_succ]
        rw [MPS.ampRow_congr d Zs ss' _ _ _
          (fun x => ∑ u ∈ range d, 1 * (MPO.step W s u v0 (x / P.d2) * MPS.step P u v1 (x % P.d2))) hcz
          (by rw [hss'.1, (zipRel_length _ _ _ _ _ h).2]) ?_ y hy]
        · rw [MPS.ampRow_sum]
          apply sum_congr rfl; intro u _
          rw [one_mul, app_row d Ws Ps Zs _ _ _ _ ss' _ (MPO.step W s u v0) (MPS.step P u v1) h hx3 hy2 hss'
            (fun _ _ => rfl) y hy]
          simp only [MPO.elemRow_cons, MPS.ampRow_cons]
        · intro x hx
          rw [step_app W P s hs v v0 v1 hv x hx, hx1]
          simp only [one_mul]
  | [], [], _ :: _, _, _, _, _, _, _, _, _, h, _, _, _, _, _, _ => by simp [ZipRel] at h
  | [], _ :: _, _, _, _, _, _, _, _, _, _, h, _, _, _, _, _, _ => by simp [ZipRel] at h
  | _ :: _, [], _, _, _, _, _, _, _, _, _, h, _, _, _, _, _, _ => by simp [ZipRel] at h
  | _ :: _, _ :: _, [], _, _, _, _, _, _, _, _, h, _, _, _, _, _, _ => by simp [ZipRel] at h

/-- dense meaning of `apply_operator` -/
theorem apply_dense [DecidableEq R] (o : MPO R) (ψ r : MPS R) (d : Nat) (h0 : MPO.Shaped o d) (h1 : MPS.Shaped ψ d)
    (h : applyOperator o ψ = .ok r) (s : List Nat) (hs : Digits d o.A.length s) :
    r.amp s = sumDigits d o.A.length (fun t => o.elem s t * ψ.amp t) := by
  have hz := apply_A o ψ r h
  have := app_row d o.A ψ.A r.A 1 1 1 1 s MPS.e0 MPO.e0 MPS.e0 hz h0.chain h1.chain hs
    (by intro x hx; have : x = 0 := by omega
        subst this; simp [MPS.e0, MPO.e0]) 0 (by omega)
  simpa [MPS.amp_eq, MPO.elem_eq] using this

end Ptn.Op

import PtnModel.Proofs.CompressScale
/-!
# A complete truncating sweep (`CompRun`) and its consequences

`CompRun tol ψ1 ψ' scale` : `ψ'`, `scale` are the result of the annotated left sweep `SweepS` over the chain of `ψ1`,
reading off `scale = |T[0,0,0]|` and absorbing the phase `T/|T|` into the last tensor.  `compress(mode='left')` is a
`CompRun` of the right-canonical intermediate state, `compress(mode='right')` a `CompRun` of its mirror image.
-/
set_option linter.unusedSectionVars false
set_option linter.unusedVariables false
namespace Ptn.Compress
open Ptn.BondOps Ptn.Ortho Ptn.Env Finset

variable {𝕜 : Type} [RCLike 𝕜] [DecidableEq 𝕜]
attribute [local instance] rcRealLike

/-- contract of `abs(z)` and of the division of a scalar by a real number -/
structure AbsContract (dabs : 𝕜 → ℝ) (divR : 𝕜 → ℝ → 𝕜) : Prop where
  abs : ∀ z, dabs z = ‖z‖
  div : ∀ z r, divR z r = z / (r : 𝕜)

/-- the result of a truncating left sweep over `ψ1` -/
def CompRun (tol : ℝ) (ψ1 ψ' : MPS 𝕜) (scale : ℝ) : Prop :=
  ∃ A0 rest q0 qrest As qs T, ψ1.A = A0 :: rest ∧ ψ1.qD = q0 :: qrest ∧
    SweepS tol ψ1.qd A0 q0 rest qrest As qs T ∧
    ψ' = ⟨ψ1.qd, q0 :: qs, scaleLast (T.f 0 0 0 / ((‖T.f 0 0 0‖ : ℝ) : 𝕜)) As⟩ ∧ scale = ‖T.f 0 0 0‖

/-- the first tensor of a right-canonical state has unit Frobenius norm -/
theorem frobT_first {ψ1 : MPS 𝕜} (hadm : Admissible ψ1) {A0 : T3 𝕜} {rest : List (T3 𝕜)} {q0 : List Int}
    {qrest : List (List Int)} (hA : ψ1.A = A0 :: rest) (hq : ψ1.qD = q0 :: qrest) (hiso : RightIso A0) :
    frobT A0 = 1 := by
  obtain ⟨hw, h0, -⟩ := hadm.chain hA hq
  have hd1 : A0.d1 = 1 := by
    cases qrest with
    | nil => simp at hw
    | cons qR qrest => simp only [wfChain_cons] at hw; rw [hw.1.d1, h0]
  have := hiso 0 0 (by omega) (by omega)
  rw [if_pos rfl] at this
  apply RCLike.ofReal_injective (K := 𝕜)
  rw [frobT_cast, RCLike.ofReal_one, ← this]
  refine sum_congr rfl fun s _ => ?_
  rw [hd1, sum_range_one]

/-- the Frobenius norm of a `1 × 1 × 1` tensor -/
theorem frobT_one {T : T3 𝕜} (h0 : T.d0 = 1) (h1 : T.d1 = 1) (h2 : T.d2 = 1) : frobT T = ‖T.f 0 0 0‖ ^ 2 := by
  unfold frobT
  rw [h0, h1, h2]
  simp

section run
variable {tol : ℝ} {ψ1 ψ' : MPS 𝕜} {scale : ℝ}

/-- the output is admissible; physical charges, length and the first bond are unchanged -/
theorem CompRun.adm (h : CompRun tol ψ1 ψ' scale) (hadm : Admissible ψ1) :
    Admissible ψ' ∧ ψ'.qd = ψ1.qd ∧ ψ'.A.length = ψ1.A.length := by
  obtain ⟨A0, rest, q0, qrest, As, qs, T, hA, hq, hsw, rfl, -⟩ := h
  obtain ⟨hw, h0, hl⟩ := hadm.chain hA hq
  obtain ⟨w1, w2, -, -, -, w6, -⟩ := hsw.wf
  have hne : As ≠ [] := by intro h0; rw [h0] at w2; simp at w2
  refine ⟨admissible_of_chain (scaleLast_wf _ w1) hadm.d_pos (scaleLast_ne_nil _ hne) h0 w6, rfl, ?_⟩
  show (scaleLast _ As).length = _
  rw [scaleLast_length, w2, hA]; rfl

/-- bond bounds in recursive form -/
theorem CompRun.bond (h : CompRun tol ψ1 ψ' scale) :
    ∃ q0 qs qs', ψ1.qD = q0 :: qs ∧ ψ'.qD = q0 :: qs' ∧ BondLe ψ1.qd.length q0.length qs' qs := by
  obtain ⟨A0, rest, q0, qrest, As, qs, T, hA, hq, hsw, rfl, -⟩ := h
  exact ⟨q0, qrest, qs, hq, rfl, hsw.wf.2.2.2.2.2.2⟩

/-- `0 ≤ scale ≤ 1` and `(1 - tol)^L ≤ scale²` -/
theorem CompRun.scale_bounds (h : CompRun tol ψ1 ψ' scale) (hadm : Admissible ψ1) (hiso : ∀ B ∈ ψ1.A, RightIso B)
    (htol1 : tol ≤ 1) : 0 ≤ scale ∧ scale ≤ 1 ∧ (1 - tol) ^ ψ1.A.length ≤ scale ^ 2 := by
  obtain ⟨A0, rest, q0, qrest, As, qs, T, hA, hq, hsw, -, rfl⟩ := h
  obtain ⟨-, -, t0, t1, t2, -, -⟩ := hsw.wf
  have hF := frobT_first hadm hA hq (hiso A0 (by rw [hA]; simp))
  have hw := hsw.weight htol1
  rw [hF, frobT_one t0 t1 t2, mul_one] at hw
  refine ⟨norm_nonneg _, ?_, ?_⟩
  · have := hw.1
    nlinarith [norm_nonneg (T.f 0 0 0)]
  · rw [hA]; exact hw.2

/-- the phase has modulus one when the scale is positive -/
theorem phase_star_mul {t : 𝕜} (ht : t ≠ 0) :
    star (t / ((‖t‖ : ℝ) : 𝕜)) * (t / ((‖t‖ : ℝ) : 𝕜)) = 1 := by
  have hn : ((‖t‖ : ℝ) : 𝕜) ≠ 0 := by
    rw [Ne, RCLike.ofReal_eq_zero]; exact norm_ne_zero_iff.2 ht
  rw [star_div₀, RCLike.star_def, RCLike.conj_ofReal, div_mul_div_comm, RCLike.conj_mul, ← RCLike.ofReal_pow,
    ← RCLike.ofReal_mul, ← sq]
  exact div_self (by rw [RCLike.ofReal_pow]; exact pow_ne_zero 2 hn)

/-- every tensor of the output is a left isometry (for `tol < 1`) -/
theorem CompRun.iso (h : CompRun tol ψ1 ψ' scale) (hadm : Admissible ψ1) (hiso : ∀ B ∈ ψ1.A, RightIso B)
    (htol1 : tol < 1) : ∀ B ∈ ψ'.A, LeftIso B := by
  have hs := h.scale_bounds hadm hiso (le_of_lt htol1)
  obtain ⟨A0, rest, q0, qrest, As, qs, T, hA, hq, hsw, rfl, rfl⟩ := h
  have hpos : 0 < ‖T.f 0 0 0‖ ^ 2 := lt_of_lt_of_le (pow_pos (by linarith) _) hs.2.2
  have ht : T.f 0 0 0 ≠ 0 := by
    intro h0; rw [h0] at hpos; simp at hpos
  exact scaleLast_iso (phase_star_mul ht) hsw.iso

/-- with zero tolerance, `scale · ψ'[σ] = ψ1[σ]` -/
theorem CompRun.dense0 (h : CompRun tol ψ1 ψ' scale) (hadm : Admissible ψ1) (hiso : ∀ B ∈ ψ1.A, RightIso B)
    (h0 : tol = 0) {σ : List Nat} (hσ : σ ∈ digitsU ψ1.qd.length ψ1.A.length) :
    (scale : 𝕜) * ψ'.amp σ = ψ1.amp σ := by
  have hs := h.scale_bounds hadm hiso (by rw [h0]; exact zero_le_one)
  have hadm' := h.adm hadm
  obtain ⟨A0, rest, q0, qrest, As, qs, T, hA, hq, hsw, rfl, rfl⟩ := h
  obtain ⟨hw, hq0, hl⟩ := hadm.chain hA hq
  obtain ⟨w1, w2, t0, t1, t2, w6, -⟩ := hsw.wf
  have hpos : 0 < ‖T.f 0 0 0‖ ^ 2 := lt_of_lt_of_le (pow_pos (by rw [h0]; norm_num) _) hs.2.2
  have ht : T.f 0 0 0 ≠ 0 := by
    intro h0; rw [h0] at hpos; simp at hpos
  have hn : ((‖T.f 0 0 0‖ : ℝ) : 𝕜) ≠ 0 := by
    rw [Ne, RCLike.ofReal_eq_zero]; exact norm_ne_zero_iff.2 ht
  have hσ0 : σ ∈ digits (List.replicate (rest.length + 1) ψ1.qd.length) := by
    have : ψ1.A.length = rest.length + 1 := by rw [hA]; rfl
    rw [← this]; exact hσ
  have hd := hsw.dense0 h0 hσ0 (a := 0) (by omega)
  rw [t1, Finset.sum_range_one] at hd
  have e1 : ψ1.amp σ = pmat (A0 :: rest) σ 0 0 := by rw [amp_eq_pmat hadm.chain3 hσ, hA]
  have hσ' : σ ∈ digits (List.replicate (MPS.A (⟨ψ1.qd, q0 :: qs,
      scaleLast (T.f 0 0 0 / ((‖T.f 0 0 0‖ : ℝ) : 𝕜)) As⟩ : MPS 𝕜)).length ψ1.qd.length) := by
    rw [hadm'.2.2]; exact hσ
  have e2 := amp_eq_pmat hadm'.1.chain3 hσ'
  have hc := wfChain_chain3 w1
  have hne : As ≠ [] := by intro h0; rw [h0] at w2; simp at w2
  have hσ2 : σ ∈ digits (List.replicate As.length ψ1.qd.length) := by rw [w2]; exact hσ0
  rw [e1, hd, e2]
  show _ * pmat (scaleLast _ As) σ 0 0 = _
  rw [scaleLast_pmat _ hc hne hσ2 (by omega)]
  field_simp

/-- overlap of the output with the input of the sweep: `⟨ψ', ψ1⟩ = scale` -/
theorem CompRun.overlap (h : CompRun tol ψ1 ψ' scale) (hadm : Admissible ψ1) (hiso : ∀ B ∈ ψ1.A, RightIso B)
    (htol1 : tol < 1) :
    ∑ σ ∈ digitsU ψ1.qd.length ψ1.A.length, star (ψ'.amp σ) * ψ1.amp σ = (scale : 𝕜) := by
  have hs := h.scale_bounds hadm hiso (le_of_lt htol1)
  have hadm' := h.adm hadm
  obtain ⟨A0, rest, q0, qrest, As, qs, T, hA, hq, hsw, rfl, rfl⟩ := h
  obtain ⟨hw, hq0, hl⟩ := hadm.chain hA hq
  obtain ⟨w1, w2, t0, t1, t2, w6, -⟩ := hsw.wf
  have hpos : 0 < ‖T.f 0 0 0‖ ^ 2 := lt_of_lt_of_le (pow_pos (by linarith) _) hs.2.2
  have ht : T.f 0 0 0 ≠ 0 := by
    intro h0; rw [h0] at hpos; simp at hpos
  have hn : ((‖T.f 0 0 0‖ : ℝ) : 𝕜) ≠ 0 := by
    rw [Ne, RCLike.ofReal_eq_zero]; exact norm_ne_zero_iff.2 ht
  have hL : ψ1.A.length = rest.length + 1 := by rw [hA]; rfl
  have hov := hsw.overlap (p := 0) (by rw [t1]; exact Nat.one_pos)
  rw [hq0] at hov
  simp only [Finset.sum_range_one] at hov
  have hc := wfChain_chain3 w1
  have hne : As ≠ [] := by intro h0; rw [h0] at w2; simp at w2
  have e : ∀ σ ∈ digitsU ψ1.qd.length ψ1.A.length,
      star ((⟨ψ1.qd, q0 :: qs, scaleLast (T.f 0 0 0 / ((‖T.f 0 0 0‖ : ℝ) : 𝕜)) As⟩ : MPS 𝕜).amp σ) * ψ1.amp σ =
      star (T.f 0 0 0 / ((‖T.f 0 0 0‖ : ℝ) : 𝕜)) * (star (pmat As σ 0 0) * pmat (A0 :: rest) σ 0 0) := by
    intro σ hσ
    have hσ0 : σ ∈ digits (List.replicate (rest.length + 1) ψ1.qd.length) := by rw [← hL]; exact hσ
    have hσ' : σ ∈ digits (List.replicate (MPS.A (⟨ψ1.qd, q0 :: qs,
        scaleLast (T.f 0 0 0 / ((‖T.f 0 0 0‖ : ℝ) : 𝕜)) As⟩ : MPS 𝕜)).length ψ1.qd.length) := by
      rw [hadm'.2.2]; exact hσ
    have hσ2 : σ ∈ digits (List.replicate As.length ψ1.qd.length) := by rw [w2]; exact hσ0
    rw [amp_eq_pmat hadm'.1.chain3 hσ', amp_eq_pmat hadm.chain3 hσ, hA]
    show star (pmat (scaleLast _ As) σ 0 0) * _ = _
    rw [scaleLast_pmat _ hc hne hσ2 (by omega), star_mul']
    ring
  rw [Finset.sum_congr rfl e, ← Finset.mul_sum, hL, hov]
  rw [star_div₀, RCLike.star_def, RCLike.conj_ofReal, div_mul_eq_mul_div, RCLike.conj_mul, ← RCLike.ofReal_pow]
  rw [div_eq_iff hn, ← RCLike.ofReal_mul, sq]

end run

/-- `Σ ‖c f - g‖² = 1 - c²` for unit vectors `f`, `g` with overlap `⟨f, g⟩ = c` real -/
theorem err_of_overlap {ι : Type} (S : Finset ι) (f g : ι → 𝕜) (c : ℝ)
    (hf : ∑ i ∈ S, ‖f i‖ ^ 2 = 1) (hg : ∑ i ∈ S, ‖g i‖ ^ 2 = 1) (hov : ∑ i ∈ S, star (f i) * g i = (c : 𝕜)) :
    ∑ i ∈ S, ‖(c : 𝕜) * f i - g i‖ ^ 2 = 1 - c ^ 2 := by
  have hf' : ∑ i ∈ S, star (f i) * f i = 1 := by
    rw [← RCLike.ofReal_one, ← hf, RCLike.ofReal_sum]
    exact Finset.sum_congr rfl fun i _ => (normsq_cast _).symm
  have hg' : ∑ i ∈ S, star (g i) * g i = 1 := by
    rw [← RCLike.ofReal_one, ← hg, RCLike.ofReal_sum]
    exact Finset.sum_congr rfl fun i _ => (normsq_cast _).symm
  have hov' : ∑ i ∈ S, star (g i) * f i = (c : 𝕜) := by
    have hcc : star ((c : ℝ) : 𝕜) = ((c : ℝ) : 𝕜) := RCLike.conj_ofReal _
    rw [← hcc, ← hov, star_sum]
    refine Finset.sum_congr rfl fun i _ => ?_
    rw [star_mul', star_star]
    exact mul_comm _ _
  apply RCLike.ofReal_injective (K := 𝕜)
  rw [RCLike.ofReal_sum]
  have e : ∀ i ∈ S, ((‖(c : 𝕜) * f i - g i‖ ^ 2 : ℝ) : 𝕜) =
      (c : 𝕜) * (c : 𝕜) * (star (f i) * f i) - (c : 𝕜) * (star (f i) * g i) - (c : 𝕜) * (star (g i) * f i) +
        star (g i) * g i := by
    intro i _
    rw [normsq_cast, star_sub, star_mul']
    have : star ((c : ℝ) : 𝕜) = ((c : ℝ) : 𝕜) := RCLike.conj_ofReal _
    rw [this]
    ring
  rw [Finset.sum_congr rfl e, Finset.sum_add_distrib, Finset.sum_sub_distrib, Finset.sum_sub_distrib,
    ← Finset.mul_sum, ← Finset.mul_sum, ← Finset.mul_sum, hf', hg', hov, hov']
  push_cast
  ring

/-! ## the two modes -/

/-- the `CompRun` behind a call of `compress`: of the intermediate state itself in left mode, of its mirror image
in right mode -/
def CompOf (left : Bool) (tol : ℝ) (ψ1 ψ' : MPS 𝕜) (scale : ℝ) : Prop :=
  if left then CompRun tol ψ1 ψ' scale else CompRun tol (mirror ψ1) (mirror ψ') scale

/-- the intermediate state is canonical in the direction opposite to the sweep -/
def OppCanon (left : Bool) (ψ1 : MPS 𝕜) : Prop :=
  Admissible ψ1 ∧ ∀ B ∈ ψ1.A, if left then RightIso B else LeftIso B

theorem OppCanon.mirror_iso {ψ1 : MPS 𝕜} (h : OppCanon false ψ1) : ∀ B ∈ (mirror ψ1).A, RightIso B := by
  intro B hB
  simp only [mirror, List.mem_map, List.mem_reverse] at hB
  obtain ⟨X, hX, rfl⟩ := hB
  exact h.2 X hX

section modes
variable {left : Bool} {tol : ℝ} {ψ1 ψ' : MPS 𝕜} {scale : ℝ}

theorem CompOf.adm (h : CompOf left tol ψ1 ψ' scale) (hc : OppCanon left ψ1) :
    Admissible ψ' ∧ ψ'.qd = ψ1.qd ∧ ψ'.A.length = ψ1.A.length := by
  cases left with
  | true => exact (h : CompRun tol ψ1 ψ' scale).adm hc.1
  | false =>
    have := (h : CompRun tol (mirror ψ1) (mirror ψ') scale).adm (admissible_mirror hc.1)
    refine ⟨admissible_of_mirror this.1, this.2.1, ?_⟩
    have e := this.2.2
    simpa [mirror] using e

theorem CompOf.scale_bounds (h : CompOf left tol ψ1 ψ' scale) (hc : OppCanon left ψ1) (htol1 : tol ≤ 1) :
    0 ≤ scale ∧ scale ≤ 1 ∧ (1 - tol) ^ ψ1.A.length ≤ scale ^ 2 := by
  cases left with
  | true => exact (h : CompRun tol ψ1 ψ' scale).scale_bounds hc.1 hc.2 htol1
  | false =>
    have := (h : CompRun tol (mirror ψ1) (mirror ψ') scale).scale_bounds (admissible_mirror hc.1) hc.mirror_iso htol1
    simpa [mirror] using this

theorem CompOf.iso (h : CompOf left tol ψ1 ψ' scale) (hc : OppCanon left ψ1) (htol1 : tol < 1) :
    ∀ B ∈ ψ'.A, if left then LeftIso B else RightIso B := by
  cases left with
  | true => exact (h : CompRun tol ψ1 ψ' scale).iso hc.1 hc.2 htol1
  | false =>
    intro B hB
    have := (h : CompRun tol (mirror ψ1) (mirror ψ') scale).iso (admissible_mirror hc.1) hc.mirror_iso htol1
      B.swap12 (by
        simp only [mirror, List.mem_map, List.mem_reverse]
        exact ⟨B, hB, rfl⟩)
    exact (leftIso_swap_iff B).1 this

/-- unit norm of the output -/
theorem CompOf.unit (h : CompOf left tol ψ1 ψ' scale) (hc : OppCanon left ψ1) (htol1 : tol < 1) :
    ∑ σ ∈ digitsU ψ1.qd.length ψ1.A.length, ‖ψ'.amp σ‖ ^ 2 = 1 := by
  obtain ⟨hadm', e1, e2⟩ := h.adm hc
  rw [← e1, ← e2]
  cases left with
  | true =>
    have hr : CompRun tol ψ1 ψ' scale := h
    exact unit_norm_real (unit_of_leftIso hadm' (hr.iso hc.1 hc.2 htol1))
  | false =>
    have hr : CompRun tol (mirror ψ1) (mirror ψ') scale := h
    have hm := admissible_mirror hc.1
    have := unit_norm_real (unit_of_leftIso (hr.adm hm).1 (hr.iso hm hc.mirror_iso htol1))
    have hL : (mirror ψ').A.length = ψ'.A.length := by simp [mirror]
    rw [hL] at this
    rw [← sum_digitsU_reverse] at this
    rw [← this]
    refine Finset.sum_congr rfl fun σ hσ => ?_
    rw [amp_mirror hadm' hσ]

theorem CompOf.dense0 (h : CompOf left tol ψ1 ψ' scale) (hc : OppCanon left ψ1) (h0 : tol = 0)
    {σ : List Nat} (hσ : σ ∈ digitsU ψ1.qd.length ψ1.A.length) : (scale : 𝕜) * ψ'.amp σ = ψ1.amp σ := by
  obtain ⟨hadm', e1, e2⟩ := h.adm hc
  cases left with
  | true => exact (h : CompRun tol ψ1 ψ' scale).dense0 hc.1 hc.2 h0 hσ
  | false =>
    have hr : CompRun tol (mirror ψ1) (mirror ψ') scale := h
    have hm := admissible_mirror hc.1
    have hL : (mirror ψ1).A.length = ψ1.A.length := by simp [mirror]
    have hσr : σ.reverse ∈ digitsU (mirror ψ1).qd.length (mirror ψ1).A.length := by
      rw [hL]; exact reverse_mem_digitsU hσ
    have := hr.dense0 hm hc.mirror_iso h0 hσr
    rw [amp_mirror hc.1 hσ, amp_mirror hadm' (by rw [e1, e2]; exact hσ)] at this
    exact this

/-- overlap `⟨ψ', ψ1⟩ = scale`, both modes -/
theorem CompOf.overlap (h : CompOf left tol ψ1 ψ' scale) (hc : OppCanon left ψ1) (htol1 : tol < 1) :
    ∑ σ ∈ digitsU ψ1.qd.length ψ1.A.length, star (ψ'.amp σ) * ψ1.amp σ = (scale : 𝕜) := by
  obtain ⟨hadm', e1, e2⟩ := h.adm hc
  cases left with
  | true =>
    have hr : CompRun tol ψ1 ψ' scale := h
    exact hr.overlap hc.1 hc.2 htol1
  | false =>
    have hr : CompRun tol (mirror ψ1) (mirror ψ') scale := h
    have hm := admissible_mirror hc.1
    have := hr.overlap hm hc.mirror_iso htol1
    have hL : (mirror ψ1).A.length = ψ1.A.length := by simp [mirror]
    rw [hL] at this
    rw [← sum_digitsU_reverse] at this
    rw [← this]
    refine Finset.sum_congr rfl fun σ hσ => ?_
    rw [amp_mirror hc.1 hσ, amp_mirror hadm' (by rw [e1, e2]; exact hσ)]

/-- the error of the truncating sweep: `Σ ‖scale · ψ'[σ] - ψ1[σ]‖² = 1 - scale²` -/
theorem CompOf.error (h : CompOf left tol ψ1 ψ' scale) (hc : OppCanon left ψ1) (htol1 : tol < 1)
    (hunit : ∑ σ ∈ digitsU ψ1.qd.length ψ1.A.length, ‖ψ1.amp σ‖ ^ 2 = 1) :
    ∑ σ ∈ digitsU ψ1.qd.length ψ1.A.length, ‖(scale : 𝕜) * ψ'.amp σ - ψ1.amp σ‖ ^ 2 = 1 - scale ^ 2 :=
  err_of_overlap _ _ _ _ (h.unit hc htol1) hunit (h.overlap hc htol1)

/-- bonds do not grow: index form, both modes -/
theorem CompOf.bond (h : CompOf left tol ψ1 ψ' scale) (hc : OppCanon left ψ1) {i : Nat} (hi : i ≤ ψ1.A.length) :
    (ψ'.qD.getD i []).length ≤ (ψ1.qD.getD i []).length := by
  obtain ⟨hadm', e1, e2⟩ := h.adm hc
  have hl : ψ1.qD.length = ψ1.A.length + 1 := ((wellFormed_iff_idx ψ1).1 hc.1.wf).1
  have hl' : ψ'.qD.length = ψ'.A.length + 1 := ((wellFormed_iff_idx ψ').1 hadm'.wf).1
  have key : ∀ {φ1 φ' : MPS 𝕜}, CompRun tol φ1 φ' scale → φ1.qD.length = φ1.A.length + 1 →
      ∀ j, j ≤ φ1.A.length → (φ'.qD.getD j []).length ≤ (φ1.qD.getD j []).length := by
    intro φ1 φ' hr hlen j hj
    obtain ⟨q0, qs, qs', e1, e2, hb⟩ := hr.bond
    rw [e1, e2]
    cases j with
    | zero => simp
    | succ j =>
      have := bondLe_idx q0 q0 hb j (by rw [e1] at hlen; simp at hlen; omega)
      exact le_trans this (Nat.min_le_right _ _)
  cases left with
  | true => exact key (h : CompRun tol ψ1 ψ' scale) hl i hi
  | false =>
    have hr : CompRun tol (mirror ψ1) (mirror ψ') scale := h
    have hL : (mirror ψ1).A.length = ψ1.A.length := by simp [mirror]
    have := key hr (by simp [mirror, hl]) (ψ1.A.length - i) (by rw [hL]; omega)
    simp only [mirror] at this
    rw [getD_reverse_map_neg _ (by omega), getD_reverse_map_neg _ (by omega), neg_length, neg_length] at this
    have a1 : ψ'.qD.length - 1 - (ψ1.A.length - i) = i := by omega
    have a2 : ψ1.qD.length - 1 - (ψ1.A.length - i) = i := by omega
    rw [a1, a2] at this
    exact this

end modes
end Ptn.Compress

import PtnModel.Proofs.OrthoMirror
/-!
# Mode-independent consequences for `MPS.orthonormalize`

`RunOf dqr ψ left ψ' nrm` : the `LeftRun` behind a successful call in either mode.  Unit norm, bond bounds in index
form, right isometries.
-/
set_option linter.unusedSectionVars false
namespace Ptn.Ortho
open Ptn.BondOps Finset Ptn.Env

section generic
variable {𝕜 : Type} [CommRing 𝕜] [DecidableEq 𝕜] [StarRing 𝕜]

/-- right isometry: `Σ_{s,b} conj(A[s,a,b]) A[s,a',b] = δ_{a a'}` -/
def RightIso (A : T3 𝕜) : Prop :=
  ∀ a a', a < A.d1 → a' < A.d1 →
    ∑ s ∈ range A.d0, ∑ b ∈ range A.d2, star (A.f s a b) * A.f s a' b = if a = a' then 1 else 0

theorem leftIso_swap_iff (A : T3 𝕜) : LeftIso A.swap12 ↔ RightIso A := Iff.rfl

/-- index form of the bond bounds -/
theorem bondLe_idx {d : Nat} : ∀ {qs' qs : List (List Int)} (x y : List Int), BondLe d x.length qs' qs →
    ∀ i, i < qs.length → ((x :: qs').getD (i + 1) []).length ≤
      min (d * ((x :: qs').getD i []).length) ((y :: qs).getD (i + 1) []).length
  | [], [], _, _, _, i, hi => by simp at hi
  | [], _ :: _, _, _, h, _, _ => by simp [BondLe] at h
  | _ :: _, [], _, _, h, _, _ => by simp [BondLe] at h
  | q' :: qs', q :: qs, x, y, h, i, hi => by
    simp only [BondLe] at h
    cases i with
    | zero => simpa using h.2.1
    | succ i =>
      have := bondLe_idx q' q h.2.2 i (by simpa using hi)
      simpa using this

theorem bondLe_length {d : Nat} : ∀ {Dl : Nat} {qs' qs : List (List Int)}, BondLe d Dl qs' qs → qs'.length = qs.length
  | _, [], [], _ => rfl
  | _, [], _ :: _, h => by simp [BondLe] at h
  | _, _ :: _, [], h => by simp [BondLe] at h
  | _, q' :: qs', q :: qs, h => by
    simp only [BondLe] at h
    simp [bondLe_length h.2.2]

end generic

section rc
variable {𝕜 : Type} [RCLike 𝕜] [DecidableEq 𝕜]
variable {dqr : Mat 𝕜 → Mat 𝕜 × Mat 𝕜}
attribute [local instance] rcRealLike

/-- unit norm in `ℝ` from the `𝕜`-valued statement -/
theorem unit_norm_real {ψ : MPS 𝕜} (h : ∑ σ ∈ digitsU ψ.qd.length ψ.A.length, star (ψ.amp σ) * ψ.amp σ = 1) :
    ∑ σ ∈ digitsU ψ.qd.length ψ.A.length, ‖ψ.amp σ‖ ^ 2 = 1 := by
  have e : ∀ σ ∈ digitsU ψ.qd.length ψ.A.length, star (ψ.amp σ) * ψ.amp σ = ((‖ψ.amp σ‖ ^ 2 : ℝ) : 𝕜) := by
    intro σ _
    have := RCLike.conj_mul (ψ.amp σ)
    rw [RCLike.ofReal_pow]
    exact this
  rw [Finset.sum_congr rfl e, ← RCLike.ofReal_sum] at h
  exact RCLike.ofReal_injective (by rw [h, RCLike.ofReal_one])

/-- left mode: the output has unit norm -/
theorem left_unit {ψ ψ' : MPS 𝕜} {nrm : ℝ} (h : LeftRun dqr ψ ψ' nrm) (hshape : ∀ B, ShapeAt dqr B)
    (hiso : ∀ B, IsoAt dqr B) (hadm : Admissible ψ) :
    ∑ σ ∈ digitsU ψ'.qd.length ψ'.A.length, ‖ψ'.amp σ‖ ^ 2 = 1 :=
  unit_norm_real (unit_of_leftIso (h.adm hshape hadm).1 (h.iso hshape hiso hadm))

/-- right mode: the output has unit norm -/
theorem right_unit {ψ ψ' : MPS 𝕜} {nrm : ℝ} (h : LeftRun dqr (mirror ψ) (mirror ψ') nrm)
    (hshape : ∀ B, ShapeAt dqr B) (hiso : ∀ B, IsoAt dqr B) (hadm : Admissible ψ) :
    ∑ σ ∈ digitsU ψ'.qd.length ψ'.A.length, ‖ψ'.amp σ‖ ^ 2 = 1 := by
  have hm := admissible_mirror hadm
  have hadm' := admissible_of_mirror (h.adm hshape hm).1
  have := left_unit h hshape hiso hm
  have hL : (mirror ψ').A.length = ψ'.A.length := by simp [mirror]
  rw [hL] at this
  rw [← sum_digitsU_reverse] at this
  rw [← this]
  refine Finset.sum_congr rfl fun σ hσ => ?_
  rw [amp_mirror hadm' hσ]

/-- right mode: `nrm · ψ'[σ] = ψ[σ]` -/
theorem right_dense {ψ ψ' : MPS 𝕜} {nrm : ℝ} (h : LeftRun dqr (mirror ψ) (mirror ψ') nrm)
    (hshape : ∀ B, ShapeAt dqr B) (hprod : ∀ B, ProdAt dqr B) (hreal : RealDiag dqr) (hadm : Admissible ψ)
    {σ : List Nat} (hσ : σ ∈ digitsU ψ.qd.length ψ.A.length) : (nrm : 𝕜) * ψ'.amp σ = ψ.amp σ := by
  have hm := admissible_mirror hadm
  have ha := h.adm hshape hm
  have hadm' := admissible_of_mirror ha.1
  have hL : (mirror ψ).A.length = ψ.A.length := by simp [mirror]
  have hL' : (mirror ψ').A.length = ψ'.A.length := by simp [mirror]
  have hlen : ψ'.A.length = ψ.A.length := by rw [← hL', ha.2.2.1, hL]
  have hqd : ψ'.qd = ψ.qd := ha.2.1
  have hσr : σ.reverse ∈ digitsU (mirror ψ).qd.length (mirror ψ).A.length := by
    rw [hL]; exact reverse_mem_digitsU hσ
  have := h.dense hshape hprod hreal hm hσr
  rw [amp_mirror hadm hσ, amp_mirror hadm' (by rw [hqd, hlen]; exact hσ)] at this
  exact this

/-- right mode: every tensor of the output is a right isometry -/
theorem right_iso {ψ ψ' : MPS 𝕜} {nrm : ℝ} (h : LeftRun dqr (mirror ψ) (mirror ψ') nrm)
    (hshape : ∀ B, ShapeAt dqr B) (hiso : ∀ B, IsoAt dqr B) (hadm : Admissible ψ) :
    ∀ B ∈ ψ'.A, RightIso B := by
  intro B hB
  have := h.iso hshape hiso (admissible_mirror hadm) B.swap12 (by
    simp only [mirror, List.mem_map, List.mem_reverse]
    exact ⟨B, hB, rfl⟩)
  exact (leftIso_swap_iff B).1 this

/-- left mode: bond bounds in index form -/
theorem left_bond {ψ ψ' : MPS 𝕜} {nrm : ℝ} (h : LeftRun dqr ψ ψ' nrm) (hshape : ∀ B, ShapeAt dqr B)
    (hadm : Admissible ψ) {i : Nat} (hi : i < ψ.A.length) :
    (ψ'.qD.getD (i + 1) []).length ≤
      min (ψ.qd.length * (ψ'.qD.getD i []).length) ((ψ.qD.getD (i + 1) []).length) := by
  obtain ⟨q0, qs, qs', e1, e2, hb⟩ := h.bond hshape hadm
  have hl : ψ.qD.length = ψ.A.length + 1 := ((wellFormed_iff_idx ψ).1 hadm.wf).1
  rw [e1, e2]
  exact bondLe_idx q0 q0 hb i (by rw [e1] at hl; simp at hl; omega)

/-- right mode: bond bounds in index form -/
theorem right_bond {ψ ψ' : MPS 𝕜} {nrm : ℝ} (h : LeftRun dqr (mirror ψ) (mirror ψ') nrm)
    (hshape : ∀ B, ShapeAt dqr B) (hadm : Admissible ψ) {i : Nat} (hi : i < ψ.A.length) :
    (ψ'.qD.getD i []).length ≤
      min (ψ.qd.length * (ψ'.qD.getD (i + 1) []).length) ((ψ.qD.getD i []).length) := by
  have hm := admissible_mirror hadm
  have ha := h.adm hshape hm
  have hadm' := admissible_of_mirror ha.1
  have hL : (mirror ψ).A.length = ψ.A.length := by simp [mirror]
  have hL' : (mirror ψ').A.length = ψ'.A.length := by simp [mirror]
  have hlen : ψ'.A.length = ψ.A.length := by rw [← hL', ha.2.2.1, hL]
  have hl : ψ.qD.length = ψ.A.length + 1 := ((wellFormed_iff_idx ψ).1 hadm.wf).1
  have hl' : ψ'.qD.length = ψ'.A.length + 1 := ((wellFormed_iff_idx ψ').1 hadm'.wf).1
  have := left_bond h hshape hm (i := ψ.A.length - 1 - i) (by rw [hL]; omega)
  simp only [mirror] at this
  rw [getD_reverse_map_neg _ (by omega), getD_reverse_map_neg _ (by omega), getD_reverse_map_neg _ (by omega),
    neg_length, neg_length, neg_length] at this
  have e1 : ψ'.qD.length - 1 - (ψ.A.length - 1 - i + 1) = i := by omega
  have e2 : ψ'.qD.length - 1 - (ψ.A.length - 1 - i) = i + 1 := by omega
  have e3 : ψ.qD.length - 1 - (ψ.A.length - 1 - i + 1) = i := by omega
  rw [e1, e2, e3] at this
  exact this


/-- the `LeftRun` behind a call of `orthonormalize`: of the chain itself in left mode, of the mirrored chain in right
mode -/
def RunOf (dqr : Mat 𝕜 → Mat 𝕜 × Mat 𝕜) (left : Bool) (ψ ψ' : MPS 𝕜) (nrm : ℝ) : Prop :=
  if left then LeftRun dqr ψ ψ' nrm else LeftRun dqr (mirror ψ) (mirror ψ') nrm

section runof
variable {left : Bool} {ψ ψ' : MPS 𝕜} {nrm : ℝ}

theorem RunOf.nonneg (h : RunOf dqr left ψ ψ' nrm) : 0 ≤ nrm := by
  cases left with
  | true => exact LeftRun.nonneg (h : LeftRun dqr ψ ψ' nrm)
  | false => exact LeftRun.nonneg (h : LeftRun dqr (mirror ψ) (mirror ψ') nrm)

theorem RunOf.adm (h : RunOf dqr left ψ ψ' nrm) (hshape : ∀ B, ShapeAt dqr B) (hadm : Admissible ψ) :
    Admissible ψ' ∧ ψ'.qd = ψ.qd ∧ ψ'.A.length = ψ.A.length := by
  cases left with
  | true =>
    have := (h : LeftRun dqr ψ ψ' nrm).adm hshape hadm
    exact ⟨this.1, this.2.1, this.2.2.1⟩
  | false =>
    have := (h : LeftRun dqr (mirror ψ) (mirror ψ') nrm).adm hshape (admissible_mirror hadm)
    refine ⟨admissible_of_mirror this.1, this.2.1, ?_⟩
    have e := this.2.2.1
    simpa [mirror] using e

theorem RunOf.dense (h : RunOf dqr left ψ ψ' nrm) (hshape : ∀ B, ShapeAt dqr B) (hprod : ∀ B, ProdAt dqr B)
    (hreal : RealDiag dqr) (hadm : Admissible ψ)
    {σ : List Nat} (hσ : σ ∈ digitsU ψ.qd.length ψ.A.length) : (nrm : 𝕜) * ψ'.amp σ = ψ.amp σ := by
  cases left with
  | true => exact (h : LeftRun dqr ψ ψ' nrm).dense hshape hprod hreal hadm hσ
  | false => exact right_dense (h : LeftRun dqr (mirror ψ) (mirror ψ') nrm) hshape hprod hreal hadm hσ

theorem RunOf.iso (h : RunOf dqr left ψ ψ' nrm) (hshape : ∀ B, ShapeAt dqr B) (hiso : ∀ B, IsoAt dqr B)
    (hadm : Admissible ψ) : ∀ B ∈ ψ'.A, if left then LeftIso B else RightIso B := by
  cases left with
  | true => exact (h : LeftRun dqr ψ ψ' nrm).iso hshape hiso hadm
  | false => exact right_iso (h : LeftRun dqr (mirror ψ) (mirror ψ') nrm) hshape hiso hadm

theorem RunOf.unit (h : RunOf dqr left ψ ψ' nrm) (hshape : ∀ B, ShapeAt dqr B) (hiso : ∀ B, IsoAt dqr B)
    (hadm : Admissible ψ) : ∑ σ ∈ digitsU ψ.qd.length ψ.A.length, ‖ψ'.amp σ‖ ^ 2 = 1 := by
  obtain ⟨-, e1, e2⟩ := h.adm hshape hadm
  rw [← e1, ← e2]
  cases left with
  | true => exact left_unit (h : LeftRun dqr ψ ψ' nrm) hshape hiso hadm
  | false => exact right_unit (h : LeftRun dqr (mirror ψ) (mirror ψ') nrm) hshape hiso hadm

theorem RunOf.bond (h : RunOf dqr left ψ ψ' nrm) (hshape : ∀ B, ShapeAt dqr B) (hadm : Admissible ψ)
    {i : Nat} (hi : i < ψ.A.length) :
    if left then
      (ψ'.qD.getD (i + 1) []).length ≤ min (ψ.qd.length * (ψ'.qD.getD i []).length) (ψ.qD.getD (i + 1) []).length
    else
      (ψ'.qD.getD i []).length ≤ min (ψ.qd.length * (ψ'.qD.getD (i + 1) []).length) (ψ.qD.getD i []).length := by
  cases left with
  | true => exact left_bond (h : LeftRun dqr ψ ψ' nrm) hshape hadm hi
  | false => exact right_bond (h : LeftRun dqr (mirror ψ) (mirror ψ') nrm) hshape hadm hi

/-- a successful `MPS.orthonormalize` is a `RunOf` -/
theorem runOf_mps (hne : ψ.A ≠ []) (hrun : MPS.orthonormalize dqr ψ left = .ok (ψ', nrm)) :
    RunOf dqr left ψ ψ' nrm := by
  cases left with
  | true => exact leftRun_of_mps_left hne hrun
  | false => exact leftRun_of_mps_right hne hrun

end runof

/-- `nrm² = Σ_σ |ψ[σ]|²` from `nrm · ψ'[σ] = ψ[σ]` and the unit norm of `ψ'` -/
theorem norm_sq_of {ψ ψ' : MPS 𝕜} {nrm : ℝ} {S : Finset (List Nat)}
    (hd : ∀ σ ∈ S, (nrm : 𝕜) * ψ'.amp σ = ψ.amp σ) (hu : ∑ σ ∈ S, ‖ψ'.amp σ‖ ^ 2 = 1) :
    nrm ^ 2 = ∑ σ ∈ S, ‖ψ.amp σ‖ ^ 2 := by
  have e : ∀ σ ∈ S, ‖ψ.amp σ‖ ^ 2 = nrm ^ 2 * ‖ψ'.amp σ‖ ^ 2 := by
    intro σ hσ
    rw [← hd σ hσ, norm_mul, mul_pow, RCLike.norm_ofReal, sq_abs]
  rw [Finset.sum_congr rfl e, ← Finset.mul_sum, hu, mul_one]

end rc
end Ptn.Ortho

import Mathlib.Data.List.Nodup
import Mathlib.Data.List.ProdSigma
import PtnModel.Proofs.GaugeShape
/-!
# Gauge transform: what a group of assignments does to the entries

`matAssign_spec`: a list of assignments with in-range, pairwise different positions succeeds, keeps the shape, leaves all other
entries alone and puts every listed value at its position.

`blockEntries js M`: the assignments `v[js[p], js[q]] = M p q` in row-major order -- the `2 × 2`, `1 × 1` and `4 × 4` groups of
assignments of the Python text are of this form.  `matAssign_block`: for pairwise different in-range `js` the result has the
entries `if r ∈ js ∧ c ∈ js then M (idxOf r) (idxOf c) else old`.
-/
set_option linter.unusedSectionVars false

namespace Ptn.Ham.Gauge
open Ptn.Og

variable {α : Type} [Add α] [Mul α] [Sub α] [OfNat α 0] [OfNat α 1] [HasConj α] [DecidableEq α]

theorem matAssign_spec {n : Nat} : ∀ (l : List (Nat × Nat × α)) {v : Mat α}, IsSquare v n →
    (∀ p ∈ l, p.1 < n ∧ p.2.1 < n) → (l.map fun p => (p.1, p.2.1)).Nodup →
    ∃ v', matAssign v l = .ok v' ∧ IsSquare v' n ∧
      (∀ r c, (∀ p ∈ l, ¬ (p.1 = r ∧ p.2.1 = c)) → v'.entry r c = v.entry r c) ∧
      (∀ p ∈ l, v'.entry p.1 p.2.1 = p.2.2) := by
  intro l
  induction l with
  | nil =>
    intro v hv _ _
    exact ⟨v, rfl, hv, fun _ _ _ => rfl, fun p hp => by cases hp⟩
  | cons p rest ih =>
    intro v hv hlt hnd
    obtain ⟨r, c, x⟩ := p
    have hrc := hlt (r, c, x) List.mem_cons_self
    obtain ⟨v1, h1, hsq1, hent1⟩ := matSet_spec hv hrc.1 hrc.2 x
    simp only [List.map_cons, List.nodup_cons] at hnd
    obtain ⟨v', h2, hsq2, hoff, hon⟩ := ih hsq1 (fun q hq => hlt q (List.mem_cons_of_mem _ hq)) hnd.2
    refine ⟨v', ?_, hsq2, ?_, ?_⟩
    · simp only [matAssign, h1]; exact h2
    · intro r' c' hno
      rw [hoff r' c' (fun q hq => hno q (List.mem_cons_of_mem _ hq)), hent1]
      have := hno (r, c, x) List.mem_cons_self
      simp only at this
      rw [if_neg (fun e => this ⟨e.1.symm, e.2.symm⟩)]
    · intro q hq
      rcases List.mem_cons.1 hq with rfl | hq
      · simp only
        rw [hoff r c ?_, hent1]
        · simp
        · intro q hq ⟨e1, e2⟩
          apply hnd.1
          simp only [List.mem_map]
          exact ⟨q, hq, by rw [e1, e2]⟩
      · exact hon q hq

/-- the assignments `v[js[p], js[q]] = M p q`, row major -/
def blockEntries (js : List Nat) (M : Nat → Nat → α) : List (Nat × Nat × α) :=
  (List.range js.length ×ˢ List.range js.length).map fun pq => (js.getD pq.1 0, js.getD pq.2 0, M pq.1 pq.2)

theorem getD_inj_of_nodup {js : List Nat} (hnd : js.Nodup) {p q : Nat} (hp : p < js.length) (hq : q < js.length)
    (e : js.getD p 0 = js.getD q 0) : p = q := by
  have e1 : js.getD p 0 = js[p] := by simp [List.getD_eq_getElem?_getD, hp]
  have e2 : js.getD q 0 = js[q] := by simp [List.getD_eq_getElem?_getD, hq]
  rw [e1, e2] at e
  exact (hnd.getElem_inj_iff).1 e

theorem getD_idxOf {js : List Nat} {r : Nat} (hr : r ∈ js) : js.getD (js.idxOf r) 0 = r := by
  have hlt : js.idxOf r < js.length := List.idxOf_lt_length_of_mem hr
  simp [List.getD_eq_getElem?_getD, hlt]

theorem idxOf_getD {js : List Nat} (hnd : js.Nodup) {p : Nat} (hp : p < js.length) : js.idxOf (js.getD p 0) = p := by
  have e1 : js.getD p 0 = js[p] := by simp [List.getD_eq_getElem?_getD, hp]
  rw [e1]
  exact hnd.idxOf_getElem p hp

theorem getD_mem {js : List Nat} {p : Nat} (hp : p < js.length) : js.getD p 0 ∈ js := by
  have e1 : js.getD p 0 = js[p] := by simp [List.getD_eq_getElem?_getD, hp]
  rw [e1]
  exact List.getElem_mem hp

/-- a block of assignments on pairwise different rows / columns `js` -/
theorem matAssign_block {n : Nat} {v : Mat α} (hv : IsSquare v n) (js : List Nat) (M : Nat → Nat → α)
    (hlt : ∀ j ∈ js, j < n) (hnd : js.Nodup) :
    ∃ v', matAssign v (blockEntries js M) = .ok v' ∧ IsSquare v' n ∧
      ∀ r c, v'.entry r c = if r ∈ js ∧ c ∈ js then M (js.idxOf r) (js.idxOf c) else v.entry r c := by
  have hmem : ∀ p ∈ blockEntries js M, ∃ a b, a < js.length ∧ b < js.length ∧ p = (js.getD a 0, js.getD b 0, M a b) := by
    intro p hp
    simp only [blockEntries, List.mem_map] at hp
    obtain ⟨⟨a, b⟩, hab, rfl⟩ := hp
    rw [List.mem_product, List.mem_range, List.mem_range] at hab
    exact ⟨a, b, hab.1, hab.2, rfl⟩
  obtain ⟨v', h1, hsq, hoff, hon⟩ := matAssign_spec (blockEntries js M) hv
    (by
      intro p hp
      obtain ⟨a, b, ha, hb, rfl⟩ := hmem p hp
      exact ⟨hlt _ (getD_mem ha), hlt _ (getD_mem hb)⟩)
    (by
      unfold blockEntries
      rw [List.map_map]
      apply List.Nodup.map_on
      · intro x hx y hy e
        obtain ⟨x1, x2⟩ := x
        obtain ⟨y1, y2⟩ := y
        rw [List.mem_product, List.mem_range, List.mem_range] at hx hy
        simp only [Function.comp, Prod.mk.injEq] at e
        exact Prod.ext (getD_inj_of_nodup hnd hx.1 hy.1 e.1) (getD_inj_of_nodup hnd hx.2 hy.2 e.2)
      · exact (List.nodup_range).product (List.nodup_range))
  refine ⟨v', h1, hsq, ?_⟩
  intro r c
  by_cases hrc : r ∈ js ∧ c ∈ js
  · rw [if_pos hrc]
    have hin : (js.getD (js.idxOf r) 0, js.getD (js.idxOf c) 0, M (js.idxOf r) (js.idxOf c)) ∈ blockEntries js M := by
      simp only [blockEntries, List.mem_map]
      refine ⟨(js.idxOf r, js.idxOf c), ?_, rfl⟩
      rw [List.mem_product, List.mem_range, List.mem_range]
      exact ⟨List.idxOf_lt_length_of_mem hrc.1, List.idxOf_lt_length_of_mem hrc.2⟩
    have := hon _ hin
    simp only [getD_idxOf hrc.1, getD_idxOf hrc.2] at this
    exact this
  · rw [if_neg hrc]
    apply hoff
    intro p hp ⟨e1, e2⟩
    obtain ⟨a, b, ha, hb, rfl⟩ := hmem p hp
    simp only at e1 e2
    exact hrc ⟨e1 ▸ getD_mem ha, e2 ▸ getD_mem hb⟩

/-- the three groups of assignments of the Python text are blocks -/
theorem pair_entries (j0 j1 : Nat) (m : α × α × α × α) :
    [(j0, j0, m.1), (j0, j1, m.2.1), (j1, j0, m.2.2.1), (j1, j1, m.2.2.2)]
      = blockEntries [j0, j1] (fun p q => if p = 0 then (if q = 0 then m.1 else m.2.1) else (if q = 0 then m.2.2.1 else m.2.2.2)) := by
  rfl

theorem one_entries (j : Nat) (x : α) : [(j, j, x)] = blockEntries [j] (fun _ _ => x) := by
  rfl

/-- the `4 × 4` block `u ⊗ conj u`: position `p = 2 a + b` stands for the pair `(a, b)` -/
def quadM (u00 u01 u10 u11 : α) (p q : Nat) : α :=
  let ue := fun (a b : Nat) => if a = 0 then (if b = 0 then u00 else u01) else (if b = 0 then u10 else u11)
  ue (p / 2) (q / 2) * HasConj.conj (ue (p % 2) (q % 2))

theorem quad_entries (u00 u01 u10 u11 : α) (j00 j01 j10 j11 : Nat) :
    quadEntries u00 u01 u10 u11 j00 j01 j10 j11 = blockEntries [j00, j01, j10, j11] (quadM u00 u01 u10 u11) := by
  simp [quadEntries, blockEntries, quadM, List.range_succ, SProd.sprod, List.product]

end Ptn.Ham.Gauge

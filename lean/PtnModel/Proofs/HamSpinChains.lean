import PtnModel.Proofs.HamSpinShapes
import PtnModel.Proofs.HamMolTerms
import Mathlib.Tactic.SplitIfs
/-!
# The chain enumeration of `spin_molecular_hamiltonian_mpo(..., optimize=True)` is well formed for every `L`

Every single-mode chain the enumeration builds (diagonal hopping, off-diagonal hopping between modes of equal spin,
interaction terms whose spin pattern `get_vint_coeff` accepts) is Jordan-Wigner shaped with balanced spin, hence
`to_spin_opchain` converts it without `KeyError` / `AssertionError` into a chain satisfying the guards of `from_opchains`
on `L` spatial orbitals.
-/
set_option linter.unusedSectionVars false
set_option linter.unusedSimpArgs false
set_option linter.unusedTactic false
set_option linter.unreachableTactic false

namespace Ptn.Ham
open Ptn.Og List

variable {κ : Type} [Add κ] [Mul κ] [Neg κ] [OfNat κ 0] [OfNat κ 1] [DecidableEq κ]

theorem mk'_inv {oids qnums : List Int} {coeff : κ} {a : Int} {c : OpChain κ}
    (h : OpChain.mk' oids qnums coeff a = .ok c) : c = ⟨oids, qnums, coeff, a⟩ := by
  unfold OpChain.mk' at h
  split at h
  · simp at h
  · split at h
    · simp at h
    · simp only [Except.ok.injEq] at h
      exact h.symm

/-- evaluation of the sorting and of the decided branch conditions, keeping `mN`, `mI`, `mZ` folded -/
macro "sort_eval'" "at" h:ident : tactic =>
  `(tactic| simp (disch := omega) only [sortPairs, List.foldr, insertPair_nil, insertPair_le, insertPair_gt, mC, mA,
      beq_iff_eq, if_pos, if_neg, decide_eq_true, pyAssert_true_bind, ok_bind, pure_bind,
      beq_self_eq_true, Bool.and_self, Bool.and_true, Bool.true_and, ite_true, ite_false, Bool.false_eq_true, ↓reduceIte] at $h:ident)

/-- the spin balance from the explicit signed sum and the parities -/
macro "balance" : tactic =>
  `(tactic| (simp only [sgnPar]; split_ifs <;> omega))

/-- diagonal hopping term `t_ii n_{i, sigma}`: the chain `[N]` at mode `m` -/
theorem diag_ready (L m : Int) (coeff : κ) (h0 : 0 ≤ m) (h1 : m < 2 * L) :
    ∃ ch tail, OpChain.mk' [mN] [0, 0] coeff m = .ok ch ∧ SpinReady L ch tail := by
  refine ⟨⟨[mN], [0, 0], coeff, m⟩, [0], mk'_ok _ _ _ _ rfl h0, ⟨⟨rfl, by simp, h0, by simp; omega, rfl, rfl⟩, rfl, ?_, ?_⟩⟩
  · exact JW_op 0 0 mN isMol_N N_ne_Z N_ne_I (by simp [ch_N]) _ _ trivial
  · simp [altCharge, ch_N]

/-- off-diagonal hopping between modes of equal spin -/
theorem molHopChain_ready (L i j : Int) (coeff : κ) (hi : 0 ≤ i) (hj : 0 ≤ j) (hiL : i < 2 * L) (hjL : j < 2 * L) (hij : i ≠ j)
    (hpar : i % 2 = j % 2) :
    ∃ ch tail, molHopChain i j coeff = .ok ch ∧ SpinReady L ch tail := by
  obtain ⟨ch, hch, hwf⟩ := molHopChain_wf (2 * L) i j coeff hi hj hiL hjL hij
  refine ⟨ch, ?_⟩
  have hch0 := hch
  unfold molHopChain at hch
  rcases Int.lt_or_gt_of_ne hij with h | h
  · sort_eval' at hch
    have := mk'_inv hch
    subst this
    obtain ⟨⟨tail, hq, jw⟩, alt⟩ := hop_ready i j 1 (-1) h (Or.inl rfl) (Or.inr rfl) (by decide)
    exact ⟨tail, hch0, hwf, hq, jw, by rw [show altCharge _ _ = _ from alt]; balance⟩
  · sort_eval' at hch
    have := mk'_inv hch
    subst this
    obtain ⟨⟨tail, hq, jw⟩, alt⟩ := hop_ready j i (-1) 1 h (Or.inr rfl) (Or.inl rfl) (by decide)
    exact ⟨tail, hch0, hwf, hq, jw, by rw [show altCharge _ _ = _ from alt]; balance⟩

theorem ready_intro (L : Int) {c : OpChain κ} {X : Int} {P : Prop} (hP : P) (hwf : ChainWF (2 * L) c)
    (R : ListsReady c.oids c.qnums c.istart X) (hX : X = 0) : ∃ tail, P ∧ SpinReady L c tail := by
  obtain ⟨⟨tail, hq, jw⟩, alt⟩ := R
  exact ⟨tail, hP, hwf, hq, jw, by rw [alt, hX]⟩

theorem molIntChain_ready_lt (L i j k l : Int) (coeff : κ) (hi : 0 ≤ i) (hij : i < j) (hjL : j < 2 * L)
    (hk : 0 ≤ k) (hkl : k < l) (hlL : l < 2 * L)
    (hvalid : (i % 2 = k % 2 ∧ j % 2 = l % 2) ∨ (i % 2 = l % 2 ∧ j % 2 = k % 2)) (h1 : i < k) :
    ∃ ch tail, molIntChain i j k l coeff = .ok ch ∧ SpinReady L ch tail := by
  obtain ⟨ch, hch, hwf⟩ := molIntChain_wf (2 * L) i j k l coeff hi hij hjL hk hkl hlL
  refine ⟨ch, ?_⟩
  have hch0 := hch
  unfold molIntChain at hch
  have t2 := Int.lt_trichotomy i l
  have t3 := Int.lt_trichotomy j k
  have t4 := Int.lt_trichotomy j l
  rcases t2 with h2 | h2 | h2 <;> rcases t3 with h3 | h3 | h3 <;> rcases t4 with h4 | h4 | h4 <;>
    first
    | (exfalso; omega)
    | (subst_vars
       sort_eval' at hch
       have hinv := mk'_inv hch
       subst hinv
       apply ready_intro L hch0 hwf
       · first
         | (apply generic_ready <;> first | omega | decide)
         | (apply nn_ready; omega)
         | (apply nfirst_ready <;> first | omega | decide)
         | (apply nmid_ready <;> first | omega | decide | rfl)
         | (apply nlast_ready <;> first | omega | decide)
       · first
         | rfl
         | balance)

theorem molIntChain_ready_eq (L i j k l : Int) (coeff : κ) (hi : 0 ≤ i) (hij : i < j) (hjL : j < 2 * L)
    (hk : 0 ≤ k) (hkl : k < l) (hlL : l < 2 * L)
    (hvalid : (i % 2 = k % 2 ∧ j % 2 = l % 2) ∨ (i % 2 = l % 2 ∧ j % 2 = k % 2)) (h1 : i = k) :
    ∃ ch tail, molIntChain i j k l coeff = .ok ch ∧ SpinReady L ch tail := by
  obtain ⟨ch, hch, hwf⟩ := molIntChain_wf (2 * L) i j k l coeff hi hij hjL hk hkl hlL
  refine ⟨ch, ?_⟩
  have hch0 := hch
  unfold molIntChain at hch
  have t2 := Int.lt_trichotomy i l
  have t3 := Int.lt_trichotomy j k
  have t4 := Int.lt_trichotomy j l
  rcases t2 with h2 | h2 | h2 <;> rcases t3 with h3 | h3 | h3 <;> rcases t4 with h4 | h4 | h4 <;>
    first
    | (exfalso; omega)
    | (subst_vars
       sort_eval' at hch
       have hinv := mk'_inv hch
       subst hinv
       apply ready_intro L hch0 hwf
       · first
         | (apply generic_ready <;> first | omega | decide)
         | (apply nn_ready; omega)
         | (apply nfirst_ready <;> first | omega | decide)
         | (apply nmid_ready <;> first | omega | decide | rfl)
         | (apply nlast_ready <;> first | omega | decide)
       · first
         | rfl
         | balance)

theorem molIntChain_ready_gt (L i j k l : Int) (coeff : κ) (hi : 0 ≤ i) (hij : i < j) (hjL : j < 2 * L)
    (hk : 0 ≤ k) (hkl : k < l) (hlL : l < 2 * L)
    (hvalid : (i % 2 = k % 2 ∧ j % 2 = l % 2) ∨ (i % 2 = l % 2 ∧ j % 2 = k % 2)) (h1 : k < i) :
    ∃ ch tail, molIntChain i j k l coeff = .ok ch ∧ SpinReady L ch tail := by
  obtain ⟨ch, hch, hwf⟩ := molIntChain_wf (2 * L) i j k l coeff hi hij hjL hk hkl hlL
  refine ⟨ch, ?_⟩
  have hch0 := hch
  unfold molIntChain at hch
  have t2 := Int.lt_trichotomy i l
  have t3 := Int.lt_trichotomy j k
  have t4 := Int.lt_trichotomy j l
  rcases t2 with h2 | h2 | h2 <;> rcases t3 with h3 | h3 | h3 <;> rcases t4 with h4 | h4 | h4 <;>
    first
    | (exfalso; omega)
    | (subst_vars
       sort_eval' at hch
       have hinv := mk'_inv hch
       subst hinv
       apply ready_intro L hch0 hwf
       · first
         | (apply generic_ready <;> first | omega | decide)
         | (apply nn_ready; omega)
         | (apply nfirst_ready <;> first | omega | decide)
         | (apply nmid_ready <;> first | omega | decide | rfl)
         | (apply nlast_ready <;> first | omega | decide)
       · first
         | rfl
         | balance)

/-- interaction terms whose spin pattern is accepted by `get_vint_coeff` -/
theorem molIntChain_ready (L i j k l : Int) (coeff : κ) (hi : 0 ≤ i) (hij : i < j) (hjL : j < 2 * L)
    (hk : 0 ≤ k) (hkl : k < l) (hlL : l < 2 * L)
    (hvalid : (i % 2 = k % 2 ∧ j % 2 = l % 2) ∨ (i % 2 = l % 2 ∧ j % 2 = k % 2)) :
    ∃ ch tail, molIntChain i j k l coeff = .ok ch ∧ SpinReady L ch tail := by
  rcases Int.lt_trichotomy i k with h1 | h1 | h1
  · exact molIntChain_ready_lt L i j k l coeff hi hij hjL hk hkl hlL hvalid h1
  · exact molIntChain_ready_eq L i j k l coeff hi hij hjL hk hkl hlL hvalid h1
  · exact molIntChain_ready_gt L i j k l coeff hi hij hjL hk hkl hlL hvalid h1

/-! ## the whole enumeration -/

theorem bind_ok_intro {α β : Type} {x : Except Err α} {f : α → Except Err β} {a : α} {b : β}
    (h1 : x = .ok a) (h2 : f a = .ok b) : (x >>= f) = .ok b := by
  subst h1; exact h2


/-- `get_vint_coeff` reports `valid` only for spin patterns `(s0, s1, s2, s3)` with `s0 = s2, s1 = s3` or `s0 = s3, s1 = s2` -/
theorem getVintCoeff_valid (c : Consts κ) (v : List (List (List (List κ)))) (sp : Int × Int × Int × Int) (s0 s1 s2 s3 : Int)
    (h : (getVintCoeff c v sp (s0, s1, s2, s3)).2 = true) : (s0 = s2 ∧ s1 = s3) ∨ (s0 = s3 ∧ s1 = s2) := by
  obtain ⟨i, j, k, l⟩ := sp
  unfold getVintCoeff at h
  simp only at h
  by_cases h1 : (s0 == s2 && s1 == s3) = true
  · simp only [Bool.and_eq_true, beq_iff_eq] at h1
    exact Or.inl h1
  · by_cases h2 : (s0 == s3 && s1 == s2) = true
    · simp only [Bool.and_eq_true, beq_iff_eq] at h2
      exact Or.inr h2
    · simp [h1, h2] at h

theorem foldlM_wf {α β : Type} (f : List β → α → Except Err (List β)) (P : β → Prop) (Q : α → Prop)
    (hf : ∀ acc a, Q a → (∀ b ∈ acc, P b) → ∃ acc', f acc a = .ok acc' ∧ ∀ b ∈ acc', P b) :
    ∀ (l : List α) (acc : List β), (∀ a ∈ l, Q a) → (∀ b ∈ acc, P b) →
      ∃ acc', l.foldlM f acc = .ok acc' ∧ ∀ b ∈ acc', P b := by
  intro l
  induction l with
  | nil => intro acc _ hacc; exact ⟨acc, by simp [pure, Except.pure], hacc⟩
  | cons a l ih =>
    intro acc hl hacc
    obtain ⟨acc1, h1, p1⟩ := hf acc a (hl a List.mem_cons_self) hacc
    obtain ⟨acc2, h2, p2⟩ := ih acc1 (fun x hx => hl x (List.mem_cons_of_mem _ hx)) p1
    exact ⟨acc2, by simp [List.foldlM_cons, h1, h2, bind, Except.bind], p2⟩

/-- **`spin_molecular_hamiltonian_mpo(tkin, vint, optimize=True)`: the chain enumeration is well formed for every number of
spatial orbitals** `L = len(tkin) ≥ 0` and all coefficient tensors: no `OpChain` constructor, no assertion of the case analysis or of
`to_spin_opchain` and no `oid_single_pair_map` look-up fails, and every chain handed to `from_opchains` satisfies its guards on `L`
sites. -/
theorem spinMolChains_wf (c : Consts κ) (tkin : List (List κ)) (vint : List (List (List (List κ)))) :
    ∃ chains, spinMolChains c tkin vint = .ok chains ∧ ∀ ch ∈ chains, ChainWF (tkin.length : Int) ch := by
  unfold spinMolChains
  set L : Int := (tkin.length : Int) with hLdef
  obtain ⟨hop, hhop, _, phop⟩ := mapM_ok
    (fun (x : Int × Int) => match x with
      | (i, j) => (do
          let single ← if i == j then OpChain.mk' [mN] [0, 0] (t2 tkin (i / 2) (i / 2)) i
            else molHopChain i j (t2 tkin (i / 2) (j / 2))
          toSpinOpchain single : Except Err (OpChain κ)))
    (ChainWF L)
    (((pyRange 0 (2 * L)).flatMap fun i => (pyRange 0 (2 * L)).map fun j => (i, j)).filter fun (i, j) => (i - j) % 2 == 0)
    (by
      rintro ⟨i, j⟩ hx
      simp only [List.mem_filter, List.mem_flatMap, List.mem_map, mem_pyRange, Prod.mk.injEq, beq_iff_eq] at hx
      obtain ⟨⟨i', ⟨hi0, hiL⟩, j', ⟨hj0, hjL⟩, rfl, rfl⟩, hpar⟩ := hx
      by_cases hij : i' = j'
      · subst hij
        obtain ⟨ch, tail, h1, hr⟩ := diag_ready L i' (t2 tkin (i' / 2) (i' / 2)) hi0 hiL
        obtain ⟨sc, hsc, hwf⟩ := toSpinOpchain_wf L ch tail hr
        exact ⟨sc, by simp [h1, hsc, bind, Except.bind], hwf⟩
      · have hb : (i' == j') = false := by simpa using hij
        obtain ⟨ch, tail, h1, hr⟩ := molHopChain_ready L i' j' (t2 tkin (i' / 2) (j' / 2)) hi0 hj0 hiL hjL hij (by omega)
        obtain ⟨sc, hsc, hwf⟩ := toSpinOpchain_wf L ch tail hr
        exact ⟨sc, by simp [hb, h1, hsc, bind, Except.bind], hwf⟩)
  obtain ⟨int, hint, pint⟩ := foldlM_wf
    (fun (acc : List (OpChain κ)) (ijkl : Int × Int × Int × Int) => (do
      let (i, j, k, l) := ijkl
      let (coeff, valid) := getVintCoeff c vint (i / 2, j / 2, k / 2, l / 2) (i % 2, j % 2, k % 2, l % 2)
      if !valid then pure acc
      else do
        let single ← molIntChain i j k l coeff
        let sc ← toSpinOpchain single
        pure (acc ++ [sc]) : Except Err (List (OpChain κ))))
    (ChainWF L)
    (fun (q : Int × Int × Int × Int) => 0 ≤ q.1 ∧ q.1 < q.2.1 ∧ q.2.1 < 2 * L ∧ 0 ≤ q.2.2.1 ∧ q.2.2.1 < q.2.2.2 ∧ q.2.2.2 < 2 * L)
    (by
      rintro acc ⟨i, j, k, l⟩ ⟨hi, hij, hjL, hk, hkl, hlL⟩ hacc
      simp only at hi hij hjL hk hkl hlL ⊢
      cases hv : (getVintCoeff c vint (i / 2, j / 2, k / 2, l / 2) (i % 2, j % 2, k % 2, l % 2)).2 with
      | false =>
        refine ⟨acc, ?_, hacc⟩
        simp [hv, pure, Except.pure]
      | true =>
        have hvalid := getVintCoeff_valid c vint _ _ _ _ _ hv
        obtain ⟨ch, tail, h1, hr⟩ := molIntChain_ready L i j k l
          (getVintCoeff c vint (i / 2, j / 2, k / 2, l / 2) (i % 2, j % 2, k % 2, l % 2)).1 hi hij hjL hk hkl hlL hvalid
        obtain ⟨sc, hsc, hwf⟩ := toSpinOpchain_wf L ch tail hr
        refine ⟨acc ++ [sc], ?_, ?_⟩
        · simp [hv, h1, hsc, bind, Except.bind, pure, Except.pure]
        · intro b hb
          rcases List.mem_append.1 hb with hb | hb
          · exact hacc b hb
          · simp only [List.mem_singleton] at hb
            subst hb
            exact hwf)
    ((pyRange 0 (2 * L)).flatMap fun i => (pyRange (i + 1) (2 * L)).flatMap fun j =>
      (pyRange 0 (2 * L)).flatMap fun k => (pyRange (k + 1) (2 * L)).map fun l => (i, j, k, l))
    []
    (by
      rintro ⟨i, j, k, l⟩ hx
      simp only [List.mem_flatMap, List.mem_map, mem_pyRange, Prod.mk.injEq] at hx
      obtain ⟨i', ⟨hi0, hiL⟩, j', ⟨hj0, hjL⟩, k', ⟨hk0, hkL⟩, l', ⟨hl0, hlL⟩, rfl, rfl, rfl, rfl⟩ := hx
      refine ⟨hi0, ?_, hjL, hk0, ?_, hlL⟩ <;> simp only <;> omega)
    (by simp)
  refine ⟨hop ++ int, ?_, ?_⟩
  · exact bind_ok_intro hhop (bind_ok_intro hint rfl)
  · intro ch hch
    rcases List.mem_append.1 hch with h | h
    · exact phop ch h
    · exact pint ch h

end Ptn.Ham

import PtnModel.Proofs.Evo2Dmrg
import PtnModel.Proofs.EvoExample
import PtnModel.Proofs.CompressKernel
/-!
# Non-vacuity of the two-site theorems

* `exK2` : the kernels `exK` of `Proofs/EvoExample.lean` with the SVD kernels `Compress.exKernels ℂ` (a reduced SVD of
  every matrix, the 2-norm, a sorting `argsort`): all contracts used by the two-site theorems hold;
* `canon2_two_sites` : for every admissible two-site state and shaped two-site MPO there is a sweep state holding it that
  satisfies the window invariant `Canon2 … 0`;
* `exSplit_ok` : on the state `exψC = |01⟩ + i|10⟩` the zero-tolerance split of the merged pair returns, for both
  distributions of the singular values, and the merged pair is non-zero.
-/
set_option linter.unusedSectionVars false

namespace Ptn.Evo
open Ptn Ptn.BondOps Ptn.Ortho Ptn.Env Ptn.Krylov Ptn.Dense Finset

variable {𝕜 : Type} [RCLike 𝕜] [DecidableEq 𝕜]

/-- kernels over `ℂ` satisfying all contracts used by the two-site theorems (with one Lanczos iteration) -/
noncomputable def exK2 : EvoKernels ℂ ℝ := { exK with svd := Compress.exKernels ℂ }

theorem exK2_ctx : SweepCtx exK2 exOC [0, 1] 1 :=
  ⟨⟨realQR_contract, realQR_realDiag⟩, sqrtNorm_contract, fun Afun v => eighAt_one Afun _ v, exOC_shaped, exOC_herm,
    by decide⟩

theorem exK2_svd : Compress.SvdKernel exK2.svd := Compress.exKernels_ok

theorem exK2_exp : ∀ x : ℝ, ‖exK2.dexp (RCLike.I * (x : ℂ))‖ = 1 := fun _ => by simp [exK2, exK]

/-- a successful `split_matrix_svd` makes `split_mps_tensor` return -/
theorem splitMps_ok {k : MPS.SvdKernels 𝕜 ℝ} {dsqrt : ℝ → ℝ} {A : T3 𝕜} {qd0 qd1 qD0 qD2 : List Int} {distr : Nat}
    {tol : ℝ} (hd : qd0.length * qd1.length = A.d0) (hdis : distr ≤ 2) {U V : Mat 𝕜} {σ : List ℝ} {q : List Int}
    (hsvd : splitMatrixSvd k.dsvd k.dnorm k.dargsort (MPS.splitMat A qd0.length qd1.length).tab (QN.flatten2 qd0 qD0)
      (QN.flatten2 (QN.neg qd1) qD2) tol = .ok (U, σ, V, q)) :
    ∃ r, MPS.splitMpsTensor k dsqrt A qd0 qd1 qD0 qD2 distr tol = .ok r := by
  have hsvd' : splitMatrixSvd k.dsvd k.dnorm k.dargsort
      (⟨qd0.length * A.d1, qd1.length * A.d2, fun r c => A.f ((r / A.d1) * qd1.length + c / A.d2) (r % A.d1)
        (c % A.d2)⟩ : Mat 𝕜).tab (QN.flatten2 qd0 qD0) (QN.flatten2 (QN.neg qd1) qD2) tol = .ok (U, σ, V, q) := hsvd
  unfold MPS.splitMpsTensor
  have hb : (qd0.length * qd1.length == A.d0) = true := by simpa using hd
  simp only [hb, pyAssert, if_true, hsvd', bind, Except.bind]
  rw [if_neg (by omega)]
  exact ⟨_, rfl⟩

/-- **The window invariant is satisfiable**: every admissible two-site state with a shaped two-site MPO. -/
theorem canon2_two_sites {H : MPO 𝕜} {ψ : MPS 𝕜} (hadm : Admissible ψ) (hH : C04.MPO.Shaped H ψ.qd.length)
    (hL : ψ.A.length = H.A.length) (h2 : H.A.length = 2) :
    ∃ s : Sweep 𝕜, s.A = ψ.A.toArray ∧ s.qD = ψ.qD.toArray ∧ cur ψ.qd s = ψ ∧ Canon2 H ψ.qd s 0 := by
  have hsh : C04.MPS.Shaped ψ ψ.qd.length := ⟨hadm.nonempty, hadm.chain3⟩
  obtain ⟨BR, _, hBRlen, hBR⟩ := C04.right_blocks_dense hsh hH hL
  set s0 : Sweep 𝕜 := ⟨ψ.A.toArray, ψ.qD.toArray, (Array.replicate H.A.length emptyT3).setIfInBounds 0 ones111,
    BR.toArray⟩ with hs0
  have hcur : cur ψ.qd s0 = ψ := cur_init ψ _ _
  have hw0 := sweepWf_init hadm ((Array.replicate H.A.length emptyT3).setIfInBounds 0 ones111) BR.toArray
  rw [hL] at hw0
  obtain ⟨hl1, _⟩ := wf_index hadm.wf
  have hgetQ : ∀ m, getQ s0 m = ψ.qD.getD m [] := fun m => toArray_getD _ _ _
  have hq0 : (getQ s0 0).length = 1 := by
    rw [hgetQ]
    have := hadm.first
    rwa [List.head?_eq_getElem?, ← List.getD_eq_getElem?_getD] at this
  have hqL : (getQ s0 H.A.length).length = 1 := by
    rw [hgetQ]
    have := hadm.last
    rw [getLast_getD, hl1, hL] at this
    simpa using this
  refine ⟨s0, rfl, rfl, hcur, hw0, by simp [hs0], by simp [hs0, hBRlen, hL], by omega, hq0, hqL, ?_, ?_, ?_, ?_⟩
  · intro j hj; omega
  · intro j hj hj'; omega
  · intro j hj
    have hj0 : j = 0 := by omega
    subst hj0
    rw [hcur]
    have hb : getBL s0 0 = MPS.ones111 := by
      show ((Array.replicate H.A.length emptyT3).setIfInBounds 0 ones111).getD 0 emptyT3 = _
      rw [getD_setIfInBounds_eq _ _ _ (by simp; omega)]
      rfl
    rw [hb]
    exact C04.left_block_zero_dense hsh hH hL
  · intro j _ hj'
    rw [hcur]
    obtain ⟨E, hE, hEb⟩ := hBR j (by rw [hL]; exact hj')
    have hb : getBR s0 j = E := by
      show BR.toArray.getD j emptyT3 = E
      rw [toArray_getD, List.getD_eq_getElem?_getD, hE]; rfl
    rw [hb]; exact hEb

/-- the merged pair of `exψC = |01⟩ + i|10⟩` -/
theorem exMerged_f {s : Sweep ℂ} (hA : s.A = exψC.A.toArray) (x : Nat) (hx : x < 4) :
    (mergedA s 0).f x 0 0 = if x = 1 then Complex.I else if x = 2 then 1 else 0 := by
  have g0 : getA s 0 = ⟨2, 1, 2, fun s _ b => if s = b then 1 else 0⟩ := by
    show s.A.getD 0 emptyT3 = _
    rw [hA]; rfl
  have g1 : getA s 1 = ⟨2, 2, 1, fun s a _ => if s + a = 1 then (if s = 0 then 1 else Complex.I) else 0⟩ := by
    show s.A.getD 1 emptyT3 = _
    rw [hA]; rfl
  unfold mergedA
  rw [Env.t3_tab_f _ (by rw [g0, g1]; exact hx) (by rw [g0]; exact Nat.one_pos) (by rw [g1]; exact Nat.one_pos), g0, g1]
  interval_cases x <;> simp [MPS.mergePair, sumRange, List.range_succ]

/-- **The split run is satisfiable** on the window of `exψC`: the merged pair is non-zero and the zero-tolerance split
returns for both distributions. -/
theorem exSplit_ok {s : Sweep ℂ} (hA : s.A = exψC.A.toArray) (hQ : s.qD = exψC.qD.toArray) {distr : Nat}
    (hdis : distr ≤ 1) :
    0 < frob3 (mergedA s 0) ∧
    ∃ r, MPS.splitMpsTensor exK2.svd exK2.dsqrt (mergedA s 0) exψC.qd exψC.qd (getQ s 0) (getQ s 2) distr (0 : ℝ) =
      .ok r := by
  have g0 : getA s 0 = ⟨2, 1, 2, fun s _ b => if s = b then 1 else 0⟩ := by
    show s.A.getD 0 emptyT3 = _
    rw [hA]; rfl
  have g1 : getA s 1 = ⟨2, 2, 1, fun s a _ => if s + a = 1 then (if s = 0 then 1 else Complex.I) else 0⟩ := by
    show s.A.getD 1 emptyT3 = _
    rw [hA]; rfl
  have d0 : (mergedA s 0).d0 = 4 := by
    show (getA s 0).d0 * (getA s 1).d0 = 4
    rw [g0, g1]
    rfl
  have d1 : (mergedA s 0).d1 = 1 := by show (getA s 0).d1 = 1; rw [g0]
  have d2 : (mergedA s 0).d2 = 1 := by show (getA s 1).d2 = 1; rw [g1]
  have q0 : getQ s 0 = [0] := by show s.qD.getD 0 [] = _; rw [hQ]; rfl
  have q2 : getQ s 2 = [1] := by show s.qD.getD 2 [] = _; rw [hQ]; rfl
  constructor
  · unfold frob3
    rw [d0, d1, d2]
    simp only [Finset.sum_range_one]
    rw [Finset.sum_range_succ, Finset.sum_range_succ, Finset.sum_range_succ, Finset.sum_range_one,
      exMerged_f hA 0 (by omega), exMerged_f hA 1 (by omega), exMerged_f hA 2 (by omega), exMerged_f hA 3 (by omega)]
    norm_num
  · have hsp : Sparse (MPS.splitMat (mergedA s 0) exψC.qd.length exψC.qd.length).tab
        (QN.flatten2 exψC.qd (getQ s 0)) (QN.flatten2 (QN.neg exψC.qd) (getQ s 2)) := by
      intro i j hi hj hne
      have hi' : i < 2 := by
        have : i < exψC.qd.length * (mergedA s 0).d1 := hi
        rw [d1] at this; exact this
      have hj' : j < 2 := by
        have : j < exψC.qd.length * (mergedA s 0).d2 := hj
        rw [d2] at this; exact this
      rw [Env.mat_tab_f (MPS.splitMat (mergedA s 0) exψC.qd.length exψC.qd.length) hi hj] at hne
      have hne' : (mergedA s 0).f ((i / (mergedA s 0).d1) * 2 + j / (mergedA s 0).d2) (i % (mergedA s 0).d1)
          (j % (mergedA s 0).d2) ≠ 0 := hne
      rw [d1, d2, Nat.div_one, Nat.div_one, Nat.mod_one, Nat.mod_one] at hne'
      rw [q0, q2]
      interval_cases i <;> interval_cases j
      · rw [exMerged_f hA _ (by omega)] at hne'; simp at hne'
      · rfl
      · rfl
      · rw [exMerged_f hA _ (by omega)] at hne'; simp at hne'
    have hq0l : (QN.flatten2 exψC.qd (getQ s 0)).length =
        (MPS.splitMat (mergedA s 0) exψC.qd.length exψC.qd.length).tab.m := by
      show _ = exψC.qd.length * (mergedA s 0).d1
      rw [q0, d1]; rfl
    have hq1l : (QN.flatten2 (QN.neg exψC.qd) (getQ s 2)).length =
        (MPS.splitMat (mergedA s 0) exψC.qd.length exψC.qd.length).tab.n := by
      show _ = exψC.qd.length * (mergedA s 0).d2
      rw [q2, d2]; rfl
    obtain ⟨u, σ, v, q, hrun⟩ := C12.split_ok exK2.svd.dnorm exK2.svd.dargsort (0 : ℝ)
      (exK2_svd.svd.on _ _ _).shape hq0l hq1l
      (by show 0 < exψC.qd.length * (mergedA s 0).d1; rw [d1]; decide)
      (by show 0 < exψC.qd.length * (mergedA s 0).d2; rw [d2]; decide) hsp
    exact splitMps_ok (by rw [d0]; rfl) (by omega) hrun

end Ptn.Evo

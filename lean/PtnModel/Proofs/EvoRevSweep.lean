import PtnModel.Proofs.EvoRevPair
/-!
# Time reversibility of single-site TDVP over complete sweeps and several time steps (sweep level)

Writing one time step as `LR(dt) ; M(dt) ; RL(dt)` (left-to-right half sweep, full step at the last site, right-to-left half
sweep), the sequence `LR(dt); M(dt); RL(dt); LR(-dt); M(-dt); RL(-dt)` cancels from the middle outwards:

* `halfsweepRL_gauge` : `RL(dt)` against `LR(-dt)` (induction over `pairRL_gauge`);
* `mid_gauge`         : `M(dt)` against `M(-dt)`;
* `halfsweepLR_gauge` : `LR(dt)` against `RL(-dt)` (induction over `pairLR_gauge`);
* `tdvp1Step_gauge`   : one time step; `tdvp1Steps_gauge` : `n` time steps with `dt`, then `n` with `-dt`.

All statements carry the relation `GaugeEq` (equal up to unitaries on the bonds), which implies equality of the dense
states (`GaugeEq.amp`).
-/
set_option linter.unusedSectionVars false

namespace Ptn.Evo
open Ptn Ptn.BondOps Ptn.Ortho Ptn.Env Ptn.Krylov Ptn.Dense Finset

variable {𝕜 : Type} [RCLike 𝕜] [DecidableEq 𝕜]
variable {k : EvoKernels 𝕜 ℝ} {H : MPO 𝕜} {qd : List Int} {numiter : Nat}

omit [RCLike 𝕜] [DecidableEq 𝕜] in
theorem foldIdx_single {σ : Type} (f : σ → Nat → Except Err σ) (x : Nat) (s r : σ) :
    foldIdx f [x] s = .ok r ↔ f s x = .ok r := by
  unfold foldIdx
  rw [foldlM_ok_cons]
  constructor
  · rintro ⟨s', h1, h2⟩
    rw [foldlM_ok_nil] at h2
    subst h2; exact h1
  · intro h
    exact ⟨r, h, by rw [foldlM_ok_nil]⟩

omit [RCLike 𝕜] [DecidableEq 𝕜] in
theorem idxR_succ (n : Nat) :
    (List.range (n + 1)).reverse.map (· + 1) = (n + 1) :: (List.range n).reverse.map (· + 1) := by
  rw [List.range_succ, List.reverse_append, List.reverse_singleton, List.singleton_append, List.map_cons]

/-- gauge-equivalent states hold the same dense state -/
theorem GaugeEq.amp {s t : Sweep 𝕜} {c : Nat} (hg : GaugeEq H qd s t c) {σ : List Nat}
    (hσ : σ ∈ digitsU qd.length H.A.length) : (cur qd t).amp σ = (cur qd s).amp σ := by
  obtain ⟨hs, ht, U, hU⟩ := hg
  exact gaugeRel_amp hs ht hU hσ

theorem GaugeEq.refl {s : Sweep 𝕜} {c : Nat} (hs : Canon H qd s c) : GaugeEq H qd s s c :=
  ⟨hs, hs, _, gaugeRel_refl hs⟩

/-- **A local step at the centre with `δ` is undone, up to the gauge, by the local step with `-δ` at the centre of any
gauge-equivalent state.** -/
theorem mid_gauge (ctx : SweepCtx k H qd numiter) {s t : Sweep 𝕜} {c : Nat} {δ : 𝕜} {Al Al' : T3 𝕜}
    (h : Canon H qd s c)
    (hrun : localHamiltonianStep k (getBL s c) (getBR s c) (H.A.getD c zeroT4) (getA s c) δ numiter = .ok Al)
    (hg : GaugeEq H qd (⟨s.A.setIfInBounds c Al, s.qD, s.BL, s.BR⟩ : Sweep 𝕜) t c)
    (hback : localHamiltonianStep k (getBL t c) (getBR t c) (H.A.getD c zeroT4) (getA t c) (-δ) numiter = .ok Al')
    (hex : MidExact k H numiter s c) (hex' : MidExact k H numiter t c)
    (hexp : ∀ (a : 𝕜) (x : ℝ), k.dexp (a * (x : 𝕜)) * k.dexp (-a * (x : 𝕜)) = 1) :
    GaugeEq H qd s (⟨t.A.setIfInBounds c Al', t.qD, t.BL, t.BR⟩ : Sweep 𝕜) c := by
  obtain ⟨hcs', hct, U, hU⟩ := hg
  have hc := h.hc
  have hcs : c < s.A.size := by rw [h.wf.sizeA]; exact hc
  have hct_s : c < t.A.size := by rw [hct.wf.sizeA]; exact hc
  obtain ⟨p0, p1, p2⟩ := h.wf.shape c hc
  set s' : Sweep 𝕜 := ⟨s.A.setIfInBounds c Al, s.qD, s.BL, s.BR⟩ with hs'
  have hs'A : ∀ m, getA s' m = if m = c then Al else getA s m := fun m => getD_set1 s.A Al emptyT3 hcs m
  have eAl : getA s' c = Al := by rw [hs'A, if_pos rfl]
  have hT : GT3 (U c) (U (c + 1)) Al (getA t c) := by have := hU.ten c hc; rwa [eAl] at this
  have hBL : GBL (U c) (getBL s c) (getBL t c) := gaugeRel_bl hcs' hct ctx.hH hU (Nat.le_refl c)
  have hBR : GBR (U (c + 1)) (getBR s c) (getBR t c) := gaugeRel_br hcs' hct ctx.hH hU (Nat.le_refl c) hc
  have hUc : IsU (getA s c).d1 (U c) := by rw [p1]; exact hU.uni c (by omega)
  have hUc1 : IsU (getA s c).d2 (U (c + 1)) := by rw [p2]; exact hU.uni (c + 1) (by omega)
  obtain ⟨hF, hH⟩ := canon_local h ctx.hH ctx.herm
  obtain ⟨a0, a1, a2⟩ := localStep_dims hrun
  obtain ⟨hFt, hHt⟩ := canon_local hct ctx.hH ctx.herm
  rw [hT.d0, hT.d1, hT.d2, a0, a1, a2] at hFt hHt
  have r : GT3 (U c) (U (c + 1)) (getA s c) Al' :=
    localStep_cancel_gauge2 ctx.norm hF hH hFt hHt hUc hUc1 hBL hBR (ctx.eigh _ _) hex hrun hT (ctx.eigh _ _) hex' hback
      (fun x => hexp _ x)
  refine ⟨h, (centre_step_canon hct hback).1, U, ?_⟩
  exact gaugeRel_site (s := s) (s' := s') (t' := t) (c := c) (fun m hm => by rw [hs'A, if_neg hm]) (fun _ => rfl)
    (fun m => getD_set1 t.A Al' emptyT3 hct_s m) (fun _ => rfl) hU r

/-- **Half sweep.**  The right-to-left half sweep with `dt` over the sites `n, …, 1` followed — from any gauge-equivalent
state — by the left-to-right half sweep with `-dt` over the sites `0, …, n-1` returns a gauge-equivalent state. -/
theorem halfsweepRL_gauge (ctx : SweepCtx k H qd numiter) {inv : Bool} {dt : 𝕜}
    (hexp : ∀ (a : 𝕜) (x : ℝ), k.dexp (a * (x : 𝕜)) * k.dexp (-a * (x : 𝕜)) = 1) :
    ∀ (n : Nat) (s r t t' : Sweep 𝕜), Canon H qd s n →
      foldIdx (tdvp1Right k H qd dt numiter) ((List.range n).reverse.map (· + 1)) s = .ok r →
      GaugeEq H qd r t 0 →
      foldIdx (tdvp1Left k H qd (-dt) numiter) (List.range n) t = .ok t' →
      FoldAll (tdvp1Right k H qd dt numiter) (RightExact inv k H qd dt numiter) ((List.range n).reverse.map (· + 1)) s →
      FoldAll (tdvp1Left k H qd (-dt) numiter) (LeftExact true k H qd (-dt) numiter) (List.range n) t →
      GaugeEq H qd s t' n
  | 0, s, r, t, t', _, hR, hg, hL, _, _ => by
    unfold foldIdx at hR hL
    simp only [List.range_zero, List.reverse_nil, List.map_nil] at hR
    rw [foldlM_ok_nil] at hR
    rw [List.range_zero, foldlM_ok_nil] at hL
    subst hR hL
    exact hg
  | n + 1, s, r, t, t', h, hR, hg, hL, hexR, hexL => by
    rw [idxR_succ] at hR hexR
    unfold foldIdx at hR
    rw [foldlM_ok_cons] at hR
    obtain ⟨s1, hR1, hR2⟩ := hR
    rw [List.range_succ, foldIdx_append] at hL
    obtain ⟨t1, hL1, hL2⟩ := hL
    rw [foldIdx_single] at hL2
    rw [List.range_succ, foldAll_append] at hexL
    have hcan1 : Canon H qd s1 n := tdvp1Right_canon ctx h hR1
    have ih := halfsweepRL_gauge ctx hexp n s1 r t t1 hcan1 hR2 hg hL1 (hexR.2 s1 hR1) hexL.1
    exact pairRL_gauge ctx h hR1 ih hL2 hexR.1 (hexL.2 t1 hL1).1 hexp

/-- **Half sweep (mirror image).**  The left-to-right half sweep with `dt` over the sites `0, …, n-1` followed — from any
gauge-equivalent state — by the right-to-left half sweep with `-dt` over the sites `n, …, 1` returns a gauge-equivalent
state. -/
theorem halfsweepLR_gauge (ctx : SweepCtx k H qd numiter) {inv : Bool} {dt : 𝕜}
    (hexp : ∀ (a : 𝕜) (x : ℝ), k.dexp (a * (x : 𝕜)) * k.dexp (-a * (x : 𝕜)) = 1) :
    ∀ (n : Nat) (s a u u' : Sweep 𝕜), n < H.A.length → Canon H qd s 0 →
      foldIdx (tdvp1Left k H qd dt numiter) (List.range n) s = .ok a →
      GaugeEq H qd a u n →
      foldIdx (tdvp1Right k H qd (-dt) numiter) ((List.range n).reverse.map (· + 1)) u = .ok u' →
      FoldAll (tdvp1Left k H qd dt numiter) (LeftExact inv k H qd dt numiter) (List.range n) s →
      FoldAll (tdvp1Right k H qd (-dt) numiter) (RightExact true k H qd (-dt) numiter)
        ((List.range n).reverse.map (· + 1)) u →
      GaugeEq H qd s u' 0
  | 0, s, a, u, u', _, _, hL, hg, hR, _, _ => by
    unfold foldIdx at hR hL
    simp only [List.range_zero, List.reverse_nil, List.map_nil] at hR
    rw [foldlM_ok_nil] at hR
    rw [List.range_zero, foldlM_ok_nil] at hL
    subst hR hL
    exact hg
  | n + 1, s, a, u, u', hn, h, hL, hg, hR, hexL, hexR => by
    rw [idxR_succ] at hR hexR
    unfold foldIdx at hR
    rw [foldlM_ok_cons] at hR
    obtain ⟨u1, hR1, hR2⟩ := hR
    rw [List.range_succ, foldIdx_append] at hL
    obtain ⟨sn, hL1, hL2⟩ := hL
    rw [foldIdx_single] at hL2
    rw [List.range_succ, foldAll_append] at hexL
    have hcann : Canon H qd sn n :=
      foldIdx_range (tdvp1Left k H qd dt numiter) (fun i t => Canon H qd t i) n
        (fun i hi t t' ht ht' => tdvp1Left_canon ctx ht (by omega) ht') s sn h hL1
    have hp := pairLR_gauge ctx hcann hn hL2 hg hR1 (hexL.2 sn hL1).1 hexR.1 hexp
    exact halfsweepLR_gauge ctx hexp n s sn u1 u' (by omega) h hL1 hp hR2 hexL.1 (hexR.2 u1 hR1)

/-- **One time step with `dt` followed — from any gauge-equivalent state — by one time step with `-dt` returns a
gauge-equivalent state.** -/
theorem tdvp1Step_gauge (ctx : SweepCtx k H qd numiter) {inv : Bool} {dt : 𝕜}
    (hexp : ∀ (a : 𝕜) (x : ℝ), k.dexp (a * (x : 𝕜)) * k.dexp (-a * (x : 𝕜)) = 1)
    {s b t e : Sweep 𝕜} (h : Canon H qd s 0) (hS : tdvp1Step k H qd dt numiter s = .ok b)
    (hg : GaugeEq H qd b t 0) (hS' : tdvp1Step k H qd (-dt) numiter t = .ok e)
    (hex : StepExact inv k H qd dt numiter s) (hex' : StepExact true k H qd (-dt) numiter t) : GaugeEq H qd s e 0 := by
  obtain ⟨a, Al, f1, f2, f3⟩ := tdvp1Step_unfold hS
  obtain ⟨c, Al', g1, g2, g3⟩ := tdvp1Step_unfold hS'
  have hL : 0 < H.A.length := h.hc
  obtain ⟨hexL, hexrest⟩ := hex
  obtain ⟨hexM, hexR⟩ := hexrest a f1
  obtain ⟨hexL', hexrest'⟩ := hex'
  obtain ⟨hexM', hexR'⟩ := hexrest' c g1
  have hcana : Canon H qd a (H.A.length - 1) :=
    foldIdx_range (tdvp1Left k H qd dt numiter) (fun i t => Canon H qd t i) (H.A.length - 1)
      (fun i hi t t' ht ht' => tdvp1Left_canon ctx ht (by omega) ht') s a h f1
  have hcana' := (centre_step_canon hcana f2).1
  -- the right-to-left half of the first step against the left-to-right half of the second
  have p1 := halfsweepRL_gauge ctx hexp (H.A.length - 1) _ b t c hcana' f3 hg g1 (hexR Al f2) hexL'
  -- the middle steps
  have p2 := mid_gauge ctx hcana f2 p1 g2 hexM hexM' hexp
  -- the left-to-right half of the first step against the right-to-left half of the second
  exact halfsweepLR_gauge ctx hexp (H.A.length - 1) s a _ e (by omega) h f1 p2 g3 hexL (hexR' Al' g2)

/-- **`n` time steps with `dt` followed — from any gauge-equivalent state — by `n` time steps with `-dt` return a
gauge-equivalent state.** -/
theorem tdvp1Steps_gauge (ctx : SweepCtx k H qd numiter) {inv : Bool} {dt : 𝕜}
    (hexp : ∀ (a : 𝕜) (x : ℝ), k.dexp (a * (x : 𝕜)) * k.dexp (-a * (x : 𝕜)) = 1) :
    ∀ (n : Nat) (s b t e : Sweep 𝕜), Canon H qd s 0 →
      iterate (tdvp1Step k H qd dt numiter) n s = .ok b → GaugeEq H qd b t 0 →
      iterate (tdvp1Step k H qd (-dt) numiter) n t = .ok e →
      RunExact inv k H qd dt numiter n s → RunExact true k H qd (-dt) numiter n t → GaugeEq H qd s e 0
  | 0, s, b, t, e, _, hS, hg, hS', _, _ => by
    unfold iterate at hS hS'
    injection hS with hS; injection hS' with hS'
    subst hS hS'
    exact hg
  | n + 1, s, b, t, e, h, hS, hg, hS', hex, hex' => by
    unfold iterate at hS
    rw [bind_ok] at hS
    obtain ⟨s1, hS1, hS2⟩ := hS
    obtain ⟨tn, hT1, hT2⟩ := (iterate_succ_back _ n t e).1 hS'
    have hex'' := (iterAll_succ_back _ _ n t).1 hex'
    have hcan1 : Canon H qd s1 0 := tdvp1Step_canon ctx h hS1
    have ih := tdvp1Steps_gauge ctx hexp n s1 b t tn hcan1 hS2 hg hT1 (hex.2 s1 hS1) hex''.1
    exact tdvp1Step_gauge ctx hexp h hS1 ih hT2 hex.1 (hex''.2 tn hT1)

end Ptn.Evo

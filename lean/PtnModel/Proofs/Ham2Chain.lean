import PtnModel.Proofs.HamBound
import PtnModel.Proofs.TreeLevels
import PtnModel.Proofs.BridgeChains
import PtnModel.Props.C05
/-!
# Layers of the graph built by `from_opchains` = rounds of its sweep

`Proofs/HamBound.lean` bounds the number of nodes every round of the sweep creates.  Here the rounds are tied to the layers of
the returned graph, for arbitrary chain lists (the only hypothesis is that `from_opchains` returns):

* `siteStep_grew`          : one round only adds edges that lead from the node of a half-chain of the state before the round to
                             a node created in the round, and leaves half-chains only at nodes created in the round;
* `RInv`, `RInv.step`      : the *round function* `ρ` (`ρ x = k + 1` for the ids handed out in round `k`, `ρ 0 = 0`) is a
                             layering of the graph under construction (`ρ` rises by one along every edge), and all ids of one
                             level lie in an interval no longer than the number of original half-chains;
* `fromOpchains_layered`   : the same for the returned graph (the trailing rescaling, `setTerm`, `removeNode(-1)` change no
                             end points);
* `level_width`            : hence a duplicate-free list of ids of one level `≥ 1` has at most #non-zero-chains elements;
* `fromOpchains_bond_dims` : every bond of `MPO.from_opgraph(from_opchains(chains))` has at most that dimension: the `k`-th layer
                             walked by `from_opgraph` consists of nodes of level `k`.
-/
set_option linter.unusedSectionVars false
namespace Ptn.Ham2
open Ptn Ptn.Og Ptn.Ch Ptn.Ham List

variable {κ : Type} [CommRing κ] [DecidableEq κ]

/-- what a part of a sweep round did: the node counter did not decrease, the new edges lead from `U` vertices into
`[lo, nidNext)`, the new half-chains sit at nodes of `[lo, nidNext)`, the terminals are untouched -/
structure Grew (ulist : List UNode) (lo : Int) (s s' : ChState κ) : Prop where
  mono : s.nidNext ≤ s'.nidNext
  edges : ∃ new, edgeList s'.graph = edgeList s.graph ++ new ∧
    ∀ e ∈ new, (∃ u ∈ ulist, e.nids.1 = u.nidl) ∧ lo ≤ e.nids.2 ∧ e.nids.2 < s'.nidNext
  hcs : ∀ h ∈ s'.vlistNext, h ∈ s.vlistNext ∨ (lo ≤ h.nidl ∧ h.nidl < s'.nidNext)
  term : s'.graph.nidTerminal = s.graph.nidTerminal

theorem Grew.refl (ulist : List UNode) (lo : Int) (s : ChState κ) : Grew ulist lo s s :=
  ⟨le_refl _, ⟨[], by simp, by simp⟩, fun _ h => Or.inl h, rfl⟩

theorem Grew.trans {ulist : List UNode} {lo : Int} {s s1 s2 : ChState κ} (a : Grew ulist lo s s1) (b : Grew ulist lo s1 s2) :
    Grew ulist lo s s2 := by
  obtain ⟨n1, e1, p1⟩ := a.edges
  obtain ⟨n2, e2, p2⟩ := b.edges
  refine ⟨le_trans a.mono b.mono, ⟨n1 ++ n2, by rw [e2, e1, append_assoc], ?_⟩, ?_, by rw [b.term, a.term]⟩
  · intro e he
    rcases mem_append.1 he with he | he
    · obtain ⟨x, y, z⟩ := p1 e he
      exact ⟨x, y, lt_of_lt_of_le z b.mono⟩
    · exact p2 e he
  · intro h hh
    rcases b.hcs h hh with hh | hh
    · rcases a.hcs h hh with hh | ⟨x, y⟩
      · exact Or.inl hh
      · exact Or.inr ⟨x, lt_of_lt_of_le y b.mono⟩
    · exact Or.inr hh

theorem uCoverStep_grew (ulist : List UNode) (vlist : List HalfChain) (gamma : List ((Nat × Nat) × κ)) (adjU : List (List Nat))
    (lo : Int) (s s' : ChState κ) (i : Nat) (hlo : lo ≤ s.nidNext) (h : uCoverStep ulist vlist gamma adjU s i = .ok s') :
    Grew ulist lo s s' := by
  obtain ⟨u, nodePrev, items, hu, _, _, _, _, _, _, _, hg, hn, _, hvl, _, _⟩ := uCoverStep_spec ulist vlist gamma adjU s s' i h
  refine ⟨by omega, ⟨[⟨s.eidNext, (u.nidl, s.nidNext), [(u.oid, 1)]⟩], by simp [edgeList, hg], ?_⟩, ?_, by rw [hg]⟩
  · intro e he
    simp only [mem_singleton] at he
    subst he
    exact ⟨⟨u, mem_of_getElem? hu, rfl⟩, hlo, by simp only; omega⟩
  · intro h' hh'
    rw [hvl, mem_append] at hh'
    rcases hh' with hh' | hh'
    · exact Or.inl hh'
    · obtain ⟨t, _, rfl⟩ := mem_map.1 hh'
      exact Or.inr ⟨hlo, by simp only [reattach]; omega⟩

theorem uFold_grew (ulist : List UNode) (vlist : List HalfChain) (gamma : List ((Nat × Nat) × κ)) (adjU : List (List Nat))
    (lo : Int) : ∀ (uc : List Nat) (s s' : ChState κ), lo ≤ s.nidNext →
      uc.foldlM (uCoverStep ulist vlist gamma adjU) s = .ok s' → Grew ulist lo s s' := by
  intro uc
  induction uc with
  | nil =>
    intro s s' _ h
    simp only [foldlM_nil, pure_ok_iff] at h
    subst h
    exact Grew.refl _ _ _
  | cons i uc ih =>
    intro s s' hlo h
    simp only [foldlM_cons, bind_ok_iff] at h
    obtain ⟨s1, h1, h2⟩ := h
    have a := uCoverStep_grew ulist vlist gamma adjU lo s s1 i hlo h1
    exact a.trans (ih s1 s' (le_trans hlo a.mono) h2)

theorem mem_vEdges (nid : Int) : ∀ (items : List (Nat × UNode × κ)) (eid : Int) (e : Edge κ), e ∈ vEdges nid eid items →
    ∃ t ∈ items, e.nids = (t.2.1.nidl, nid) := by
  intro items
  induction items with
  | nil => intro eid e h; simp [vEdges] at h
  | cons t ts ih =>
    intro eid e h
    simp only [vEdges, mem_cons] at h
    rcases h with rfl | h
    · exact ⟨t, mem_cons_self .., rfl⟩
    · obtain ⟨t', ht', he⟩ := ih _ e h
      exact ⟨t', mem_cons_of_mem _ ht', he⟩

theorem vInner_term (ulist : List UNode) (gamma : List ((Nat × Nat) × κ)) (j : Nat) (nid : Int) :
    ∀ (adj : List Nat) (s s' : ChState κ), adj.foldlM (vInner ulist gamma j nid) s = .ok s' →
      s'.graph.nidTerminal = s.graph.nidTerminal := by
  intro adj
  induction adj with
  | nil =>
    intro s s' h
    simp only [foldlM_nil, pure_ok_iff] at h
    subst h
    rfl
  | cons i adj ih =>
    intro s s' h
    simp only [foldlM_cons, bind_ok_iff] at h
    obtain ⟨s1, h1, h2⟩ := h
    rw [ih s1 s' h2]
    rcases vInner_step ulist gamma j nid s s1 i h1 with ⟨_, rfl⟩ | ⟨_, u, c, n1, n2, _, _, _, _, _, _, _, _, _, hg, _⟩
    · rfl
    · rw [hg]

theorem vCoverStep_grew (ulist : List UNode) (vlist : List HalfChain) (gamma : List ((Nat × Nat) × κ)) (adjV : List (List Nat))
    (lo : Int) (s s' : ChState κ) (j : Nat) (hlo : lo ≤ s.nidNext) (h : vCoverStep ulist vlist gamma adjV s j = .ok s') :
    Grew ulist lo s s' := by
  obtain ⟨v, q, adj, _, _, _, _, hfold⟩ := vCoverStep_spec ulist vlist gamma adjV s s' j h
  obtain ⟨items, hit, hel, hn, _, hvl, _, _⟩ := vInner_spec ulist gamma j s.nidNext adj _ s' hfold
  have ht := vInner_term ulist gamma j s.nidNext adj _ s' hfold
  simp only at hel hn hvl ht
  refine ⟨by omega, ⟨vEdges s.nidNext s.eidNext items, by rw [hel]; rfl, ?_⟩, ?_, ht⟩
  · intro e he
    obtain ⟨t, ht', hnids⟩ := mem_vEdges _ _ _ _ he
    rw [hnids]
    exact ⟨⟨t.2.1, mem_of_getElem? (hit t ht').1, rfl⟩, hlo, by simp only; omega⟩
  · intro h' hh'
    rw [hvl, mem_append] at hh'
    rcases hh' with hh' | hh'
    · exact Or.inl hh'
    · simp only [mem_singleton] at hh'
      subst hh'
      exact Or.inr ⟨hlo, by simp only [reattach]; omega⟩

theorem vFold_grew (ulist : List UNode) (vlist : List HalfChain) (gamma : List ((Nat × Nat) × κ)) (adjV : List (List Nat))
    (lo : Int) : ∀ (vc : List Nat) (s s' : ChState κ), lo ≤ s.nidNext →
      vc.foldlM (vCoverStep ulist vlist gamma adjV) s = .ok s' → Grew ulist lo s s' := by
  intro vc
  induction vc with
  | nil =>
    intro s s' _ h
    simp only [foldlM_nil, pure_ok_iff] at h
    subst h
    exact Grew.refl _ _ _
  | cons i vc ih =>
    intro s s' hlo h
    simp only [foldlM_cons, bind_ok_iff] at h
    obtain ⟨s1, h1, h2⟩ := h
    have a := vCoverStep_grew ulist vlist gamma adjV lo s s1 i hlo h1
    exact a.trans (ih s1 s' (le_trans hlo a.mono) h2)

/-- **One round of the sweep, graph side.**  Every edge the round adds leads from the node of a half-chain of the state before
the round to a node created in the round; every half-chain after the round sits at a node created in the round. -/
theorem siteStep_grew (s s' : ChState κ) (h : siteStep s = .ok s') :
    s.nidNext ≤ s'.nidNext ∧
    (∃ new, edgeList s'.graph = edgeList s.graph ++ new ∧
      ∀ e ∈ new, (∃ h0 ∈ s.vlistNext, e.nids.1 = h0.nidl) ∧ s.nidNext ≤ e.nids.2 ∧ e.nids.2 < s'.nidNext) ∧
    (∀ h' ∈ s'.vlistNext, s.nidNext ≤ h'.nidl ∧ h'.nidl < s'.nidNext) ∧
    s'.graph.nidTerminal = s.graph.nidTerminal := by
  rw [siteStep_eq_with] at h
  unfold siteStepWith at h
  simp only [bind_ok_iff, pyAssert_ok_iff, pure_ok_iff] at h
  obtain ⟨p, hp, bg, hbg, ⟨uc, vc⟩, hcov, s2, hu, s3, hv, _, _, hs3⟩ := h
  subst hs3
  simp only at hu hv
  have hI := sitePartition_inv _ _ _ hp
  have a := uFold_grew p.ulist p.vlist p.gamma bg.adjU s.nidNext uc
    ({ s with vlistNext := [], coeffsNext := [], edges := p.edges } : ChState κ) s2 (le_refl _) hu
  have b := vFold_grew p.ulist p.vlist p.gamma bg.adjV s.nidNext vc s2 s3 a.mono hv
  have ab := a.trans b
  obtain ⟨new, e1, p1⟩ := ab.edges
  refine ⟨ab.mono, ⟨new, e1, ?_⟩, ?_, ab.term⟩
  · intro e he
    obtain ⟨⟨u, hu', hun⟩, x, y⟩ := p1 e he
    obtain ⟨hc, hc1, hc2, _⟩ := hI.usrc u hu'
    exact ⟨⟨hc.1, (of_mem_zip (a := hc.1) (b := hc.2) hc1).1, by rw [hun, hc2]⟩, x, y⟩
  · intro h' hh'
    rcases ab.hcs h' hh' with hh' | hh'
    · simp at hh'
    · exact hh'


/-! ## the round function is a layering -/

/-- invariant of the sweep after `k` rounds: `ρ x` is the round in which node `x` was created (plus one; `0` for the start node
and for ids not yet used); every edge goes from `ρ` to `ρ + 1`; all nodes of one round lie in an id interval of length at most
`orig.length` -/
structure RInv (orig : List HalfChain) (k : Nat) (ρ : Int → Nat) (s : ChState κ) : Prop where
  pos : 1 ≤ s.nidNext
  zero : ρ 0 = 0
  le : ∀ x, ρ x ≤ k
  beyond : ∀ x, s.nidNext ≤ x → ρ x = 0
  lev : ∀ e ∈ edgeList s.graph, ρ e.nids.2 = ρ e.nids.1 + 1
  inside : ∀ e ∈ edgeList s.graph, e.nids.1 < s.nidNext ∧ e.nids.2 < s.nidNext
  top : ∀ h ∈ s.vlistNext, ρ h.nidl = k ∧ h.nidl < s.nidNext
  span : ∀ l, 1 ≤ l → ∃ a b : Int, b - a ≤ (orig.length : Int) ∧ ∀ x, ρ x = l → a ≤ x ∧ x < b
  suffix : ∀ h ∈ s.vlistNext, IsSuffix k orig h
  term : s.graph.nidTerminal.1 = 0

theorem RInv.step {orig : List HalfChain} {k : Nat} {ρ : Int → Nat} {s s' : ChState κ} (r : RInv orig k ρ s)
    (h : siteStep s = .ok s') :
    RInv orig (k + 1) (fun x => if s.nidNext ≤ x ∧ x < s'.nidNext then k + 1 else ρ x) s' := by
  obtain ⟨hmono, ⟨new, hnew, pnew⟩, hhc, hterm⟩ := siteStep_grew s s' h
  obtain ⟨_, hcnt, hsuf⟩ := siteStep_bound orig k s s' r.suffix h
  have hpos := r.pos
  refine ⟨by omega, ?_, ?_, ?_, ?_, ?_, ?_, ?_, hsuf, by rw [hterm]; exact r.term⟩
  · show (if s.nidNext ≤ 0 ∧ 0 < s'.nidNext then k + 1 else ρ 0) = 0
    rw [if_neg (by omega)]; exact r.zero
  · intro x
    show (if s.nidNext ≤ x ∧ x < s'.nidNext then k + 1 else ρ x) ≤ k + 1
    split
    · exact le_refl _
    · exact Nat.le_succ_of_le (r.le x)
  · intro x hx
    show (if s.nidNext ≤ x ∧ x < s'.nidNext then k + 1 else ρ x) = 0
    rw [if_neg (by omega)]
    exact r.beyond x (by omega)
  · intro e he
    rw [hnew, mem_append] at he
    show (if s.nidNext ≤ e.nids.2 ∧ e.nids.2 < s'.nidNext then k + 1 else ρ e.nids.2)
      = (if s.nidNext ≤ e.nids.1 ∧ e.nids.1 < s'.nidNext then k + 1 else ρ e.nids.1) + 1
    rcases he with he | he
    · obtain ⟨i1, i2⟩ := r.inside e he
      rw [if_neg (by omega), if_neg (by omega)]
      exact r.lev e he
    · obtain ⟨⟨h0, hh0, e1⟩, e2, e3⟩ := pnew e he
      obtain ⟨t1, t2⟩ := r.top h0 hh0
      rw [if_pos ⟨e2, e3⟩, if_neg (by omega), e1, t1]
  · intro e he
    rw [hnew, mem_append] at he
    rcases he with he | he
    · obtain ⟨i1, i2⟩ := r.inside e he
      exact ⟨by omega, by omega⟩
    · obtain ⟨⟨h0, hh0, e1⟩, e2, e3⟩ := pnew e he
      obtain ⟨t1, t2⟩ := r.top h0 hh0
      exact ⟨by omega, e3⟩
  · intro h' hh'
    obtain ⟨a, b⟩ := hhc h' hh'
    exact ⟨by show (if s.nidNext ≤ h'.nidl ∧ h'.nidl < s'.nidNext then k + 1 else ρ h'.nidl) = k + 1; rw [if_pos ⟨a, b⟩], b⟩
  · intro l hl
    by_cases hlk : l = k + 1
    · subst hlk
      refine ⟨s.nidNext, s'.nidNext, by omega, ?_⟩
      intro x hx
      by_cases hc : s.nidNext ≤ x ∧ x < s'.nidNext
      · exact hc
      · exfalso
        simp only [hc, if_false] at hx
        have := r.le x
        omega
    · obtain ⟨a, b, hab, hx⟩ := r.span l hl
      refine ⟨a, b, hab, ?_⟩
      intro x hx'
      apply hx
      by_cases hc : s.nidNext ≤ x ∧ x < s'.nidNext
      · simp only [hc, and_self, if_true] at hx'
        exact absurd hx'.symm hlk
      · simpa only [hc, if_false] using hx'

/-- the sweep keeps the invariant -/
theorem RInv.sweep {orig : List HalfChain} : ∀ (n : Nat) (s0 s : ChState κ) (ρ0 : Int → Nat), RInv orig 0 ρ0 s0 →
    (List.range n).foldlM (fun s (_ : Nat) => siteStep s) s0 = .ok s → ∃ ρ, RInv orig n ρ s := by
  intro n
  induction n with
  | zero =>
    intro s0 s ρ0 r h
    simp only [range_zero, foldlM_nil, pure_ok_iff] at h
    subst h
    exact ⟨ρ0, r⟩
  | succ n ih =>
    intro s0 s ρ0 r h
    rw [range_succ, foldlM_append] at h
    simp only [bind_ok_iff, foldlM_cons, foldlM_nil, pure_ok_iff] at h
    obtain ⟨s1, h1, s2, h2, rfl⟩ := h
    obtain ⟨ρ1, r1⟩ := ih s0 s1 ρ0 r h1
    exact ⟨_, r1.step h2⟩


/-! ## the returned graph -/

theorem mapM_ok_mem {α β : Type} (f : α → Except Err β) : ∀ (l : List α) (l' : List β),
    l.mapM f = .ok l' → ∀ b ∈ l', ∃ a ∈ l, f a = .ok b := by
  intro l
  induction l with
  | nil =>
    intro l' h b hb
    simp only [mapM_nil, pure_ok_iff] at h
    subst h
    cases hb
  | cons a l ih =>
    intro l' h b hb
    simp only [mapM_cons, bind_ok_iff, pure_ok_iff] at h
    obtain ⟨b0, hb0, bs, hbs, rfl⟩ := h
    rcases mem_cons.1 hb with rfl | hb
    · exact ⟨a, mem_cons_self .., hb0⟩
    · obtain ⟨a', ha', hfa⟩ := ih bs hbs b hb
      exact ⟨a', mem_cons_of_mem _ ha', hfa⟩

theorem mem_dReplace {β : Type} : ∀ (d : List (Int × β)) (k : Int) (v : β) (p : Int × β),
    p ∈ dReplace d k v → p ∈ d ∨ p.2 = v := by
  intro d
  induction d with
  | nil => intro k v p h; simp [dReplace] at h
  | cons q rest ih =>
    intro k v p h
    obtain ⟨k', v'⟩ := q
    unfold dReplace at h
    split at h
    · rcases mem_cons.1 h with rfl | h
      · exact Or.inr rfl
      · exact Or.inl (mem_cons_of_mem _ h)
    · rcases mem_cons.1 h with rfl | h
      · exact Or.inl (mem_cons_self ..)
      · rcases ih k v p h with h | h
        · exact Or.inl (mem_cons_of_mem _ h)
        · exact Or.inr h

/-- the final rescaling of the edges entering the end node changes no end points -/
theorem scaleFold_nids (c : κ) : ∀ (eids : List Int) (g gA : Graph κ),
    eids.foldlM (fun (g : Graph κ) eid =>
      g.modifyEdge eid (fun e => pure { e with opics := e.opics.map (fun p => (p.1, p.2 * c)) })) g = .ok gA →
    gA.nidTerminal = g.nidTerminal ∧ ∀ e' ∈ edgeList gA, ∃ e ∈ edgeList g, e'.nids = e.nids := by
  intro eids
  induction eids with
  | nil =>
    intro g gA h
    simp only [foldlM_nil, pure_ok_iff] at h
    subst h
    exact ⟨rfl, fun e he => ⟨e, he, rfl⟩⟩
  | cons a rest ih =>
    intro g gA h
    simp only [foldlM_cons, bind_ok_iff] at h
    obtain ⟨g1, h1, h2⟩ := h
    obtain ⟨e0, he0, e1, he1, rfl⟩ := (modifyEdge_ok_iff _ _ _ _).1 h1
    simp only [pure_ok_iff] at he1
    obtain ⟨t, hE⟩ := ih _ gA h2
    refine ⟨t, ?_⟩
    intro e' he'
    obtain ⟨e, he, hn⟩ := hE e' he'
    obtain ⟨p, hp, rfl⟩ := mem_map.1 he
    rcases mem_dReplace _ _ _ _ hp with hp | hp
    · exact ⟨p.2, mem_map_of_mem hp, hn⟩
    · refine ⟨e0, mem_map.2 ⟨(a, e0), ?_, rfl⟩, ?_⟩
      · exact mem_of_dGet?_eq_some he0
      · rw [hn, hp, ← he1]


/-- **The graph returned by `from_opchains` is layered by the round function.**  There is a function `ρ` on node ids with
`ρ (start node) = 0`, every edge going from level `ρ` to level `ρ + 1`, all levels at most `L`, such that for every level `l ≥ 1`
the ids of level `l` lie in an interval of length at most the number of chains with non-zero coefficient (the ids handed out in
round `l - 1` of the sweep).  No hypothesis on the chain list. -/
theorem fromOpchains_layered (chains : List (OpChain κ)) (L id : Int) (g : Graph κ)
    (h : fromOpchains chains L id = .ok g) :
    ∃ ρ : Int → Nat, g.nidTerminal.1 = 0 ∧ ρ 0 = 0 ∧ (∀ x, ρ x ≤ L.toNat) ∧
      (∀ e ∈ g.edgeList, ρ e.nids.2 = ρ e.nids.1 + 1) ∧
      ∀ l, 1 ≤ l → ∃ a b : Int, b - a ≤ ((chains.filter fun c => c.coeff != 0).length : Int) ∧
        ∀ x, ρ x = l → a ≤ x ∧ x < b := by
  unfold fromOpchains at h
  by_cases hemp : chains.isEmpty = true
  · simp [hemp, throw, throwThe, MonadExceptOf.throw, bind, Except.bind] at h
  · simp only [hemp, Bool.false_eq_true, if_false] at h
    simp only [bind_ok_iff] at h
    obtain ⟨ns, hns, nd, hnd, gr, hgr, pch, hpch, vl0, hvl0, s, hfold, _, _, last, _, c0, _, h⟩ := h
    have hns' : ns = ⟨0, [], [], 0⟩ := by
      have : Node.mk' 0 [] [] 0 = .ok (⟨0, [], [], 0⟩ : Node) := rfl
      rw [this] at hns; cases hns; rfl
    have hnd' : nd = ⟨-1, [], [], 0⟩ := by
      have : Node.mk' (-1) [] [] 0 = .ok (⟨-1, [], [], 0⟩ : Node) := rfl
      rw [this] at hnd; cases hnd; rfl
    subst hns' hnd'
    rw [graph0_mk] at hgr
    cases hgr
    have hlen : vl0.length = (chains.filter fun c => c.coeff != 0).length := by
      rw [mapM_ok_length _ _ _ hvl0, mapM_ok_length _ _ _ hpch]
    have r0 : RInv vl0 0 (fun _ => 0) (⟨graph0, 1, 0, vl0, pch.map (·.coeff), []⟩ : ChState κ) := by
      refine ⟨le_refl _, rfl, fun _ => le_refl _, fun _ _ => rfl, ?_, ?_, ?_, ?_, ?_, rfl⟩
      · intro e he; simp [edgeList, graph0] at he
      · intro e he; simp [edgeList, graph0] at he
      · intro h' hh'
        obtain ⟨c, _, hc⟩ := mapM_ok_mem _ _ _ hvl0 h' hh'
        obtain ⟨_, rfl⟩ := (halfChain_mk'_ok_iff _ _ _ _).1 hc
        exact ⟨rfl, by simp⟩
      · intro l hl
        exact ⟨0, 0, by simp, fun x hx => by omega⟩
      · intro h' hh'
        exact ⟨h', hh', by simp, by simp⟩
    obtain ⟨ρ, r⟩ := RInv.sweep L.toNat _ s _ r0 hfold
    have key : ∀ gA : Graph κ, gA.nidTerminal = s.graph.nidTerminal →
        (∀ e' ∈ edgeList gA, ∃ e ∈ edgeList s.graph, e'.nids = e.nids) →
        ∀ (x : Node × Graph κ), (gA.setTerm true last.nidl).removeNode (-1) = .ok x →
        x.2.nidTerminal.1 = 0 ∧ ∀ e ∈ x.2.edgeList, ρ e.nids.2 = ρ e.nids.1 + 1 := by
      intro gA ht hE x hx
      obtain ⟨nd', g'⟩ := x
      obtain ⟨_, rfl⟩ := removeNode_ok.1 hx
      refine ⟨by simp [Graph.setTerm, ht, r.term], ?_⟩
      intro e he
      have he' : e ∈ edgeList gA := by simpa [Graph.edgeList, edgeList, Graph.setTerm] using he
      obtain ⟨e0, he0, hn⟩ := hE e he'
      rw [hn]
      exact r.lev e0 he0
    have fin : g.nidTerminal.1 = 0 ∧ ∀ e ∈ g.edgeList, ρ e.nids.2 = ρ e.nids.1 + 1 := by
      split at h
      · simp only [bind_ok_iff, pyAssert_ok_iff, pure_ok_iff] at h
        obtain ⟨nodeEnd, _, gA, hgA, x, hx, _, _, rfl⟩ := h
        obtain ⟨t, hE⟩ := scaleFold_nids c0 _ _ _ hgA
        exact key gA t hE x hx
      · simp only [bind_ok_iff, pyAssert_ok_iff, pure_ok_iff] at h
        obtain ⟨gA, hgA, x, hx, _, _, rfl⟩ := h
        cases hgA
        exact key s.graph rfl (fun e he => ⟨e, he, rfl⟩) x hx
    refine ⟨ρ, fin.1, r.zero, r.le, fin.2, ?_⟩
    intro l hl
    obtain ⟨a, b, hab, hx⟩ := r.span l hl
    exact ⟨a, b, by rw [← hlen]; exact hab, hx⟩


/-! ## counting -/

/-- a duplicate-free list of integers from `[a, b)` has at most `b - a` elements -/
theorem nodup_interval_length (S : List Int) (a b : Int) (hn : S.Nodup) (hS : ∀ x ∈ S, a ≤ x ∧ x < b) :
    S.length ≤ (b - a).toNat := by
  have h1 : (S.map fun x => (x - a).toNat).Nodup := by
    refine (List.nodup_map_iff_inj_on hn).2 ?_
    intro x hx y hy hxy
    have := hS x hx
    have := hS y hy
    omega
  have := nodup_lt_length _ (b - a).toNat h1 (by
    intro n hn'
    obtain ⟨x, hx, rfl⟩ := mem_map.1 hn'
    have := hS x hx
    omega)
  simpa using this

/-- **Width of every level ≥ 1.**  Any duplicate-free list of ids of one level `l ≥ 1` of the round function has at most as many
elements as there are chains with non-zero coefficient. -/
theorem level_width {C : Nat} {ρ : Int → Nat}
    (hspan : ∀ l, 1 ≤ l → ∃ a b : Int, b - a ≤ (C : Int) ∧ ∀ x, ρ x = l → a ≤ x ∧ x < b)
    (S : List Int) (hn : S.Nodup) (l : Nat) (hl : 1 ≤ l) (hS : ∀ x ∈ S, ρ x = l) : S.length ≤ C := by
  obtain ⟨a, b, hab, hx⟩ := hspan l hl
  have := nodup_interval_length S a b hn (fun x hx' => hx x (hS x hx'))
  omega

/-- **Bond dimensions of the compiled MPO.**  For every chain list: if `from_opchains` returns a graph and `MPO.from_opgraph`
converts it, every bond of the MPO has dimension at most the number of chains with non-zero coefficient. -/
theorem fromOpchains_bond_dims (chains : List (OpChain κ)) (L id : Int) (g : Graph κ)
    (h : fromOpchains chains L id = .ok g) (qd : List Int) (opmap : OpMap κ) (on : Bool) (out : MpoOut κ)
    (ho : fromOpgraph qd g opmap on = .ok out) :
    ∀ q ∈ out.qD, q.length ≤ (chains.filter fun c => c.coeff != 0).length := by
  obtain ⟨ρ, ht, h0, _, hlev, hspan⟩ := fromOpchains_layered chains L id g h
  have hc := fromOpchains_consistent chains L id g h
  obtain ⟨hnodes, _, _⟩ := isConsistent_facts g hc
  obtain ⟨layers, hhead, hqD, _, hsorted, hsucc⟩ := Ptn.C05.from_opgraph_qD qd g opmap on out ho hc
  have hC : 1 ≤ (chains.filter fun c => c.coeff != 0).length := by
    obtain ⟨c, hc1, hc2⟩ := fromOpchains_nonzero chains L id g h
    exact length_pos_of_mem (mem_filter.2 ⟨hc1, by simpa using hc2⟩)
  -- every node of layer `k` has level `k`
  have hlevel : ∀ (k : Nat) (S : List Int), layers[k]? = some S → ∀ x ∈ S, ρ x = k := by
    intro k
    induction k with
    | zero =>
      intro S hS x hx
      have : layers.head? = some S := by rw [← hS]; cases layers <;> rfl
      rw [hhead] at this
      cases this
      simp only [mem_singleton] at hx
      subst hx
      have : g.term false = 0 := by simp [Graph.term, ht]
      rw [this]; exact h0
    | succ k ih =>
      intro B hB x hx
      have hk : k < layers.length := by
        have := (List.getElem?_eq_some_iff.1 hB).1
        omega
      have hA : layers[k]? = some layers[k] := getElem?_eq_getElem hk
      obtain ⟨nid, hnid, node, hnode, eid, heid, e, he, hx2⟩ := (hsucc k _ B hA hB x).1 hx
      obtain ⟨hk1, hk2⟩ := hnodes nid node (mem_of_dGet?_eq_some hnode)
      obtain ⟨e', he', hsrc⟩ := hk2 true eid (by simpa [Node.eids] using heid)
      rw [he] at he'
      cases he'
      have hsrc' : e.nids.1 = nid := by simpa [Edge.nid, ← hk1] using hsrc
      have hmem : e ∈ g.edgeList := mem_map.2 ⟨(eid, e), mem_of_dGet?_eq_some he, rfl⟩
      rw [← hx2, hlev e hmem, hsrc', ih _ hA nid hnid]
  intro q hq
  rw [hqD] at hq
  obtain ⟨S, hS, rfl⟩ := mem_map.1 hq
  obtain ⟨k, hk, hSk⟩ := getElem_of_mem hS
  have hSk' : layers[k]? = some S := by rw [← hSk]; exact getElem?_eq_getElem hk
  simp only [layerQ, length_map]
  cases k with
  | zero =>
    have : layers.head? = some S := by rw [← hSk']; cases layers <;> rfl
    rw [hhead] at this
    cases this
    simpa using hC
  | succ k =>
    exact level_width (C := (chains.filter fun c => c.coeff != 0).length) hspan S ((hsorted S hS).imp (fun h => ne_of_lt h))
      (k + 1) (by omega) (hlevel (k + 1) S hSk')

end Ptn.Ham2

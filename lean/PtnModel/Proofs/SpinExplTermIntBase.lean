import PtnModel.Proofs.SpinExplDefs
import PtnModel.Proofs.ExplTermSpec
/-!
# Explicit spin-orbital molecular graph: interaction terms, shared lemmas and tactics

Sort evaluation (`sxi_insertTrip_*`), literal values of `toSpinOperator` (`sxi_so*`), of `sgetLabE` (`sxi_gl*`), `pLt`, and the macros
`sint_eval` (evaluate `stermE` on the sorted list), `sint_sok` (prove `SOk` of a literal triple), `sint_ok_tac`.
-/
set_option linter.unusedSectionVars false
set_option linter.unusedSimpArgs false
set_option linter.unusedVariables false
set_option linter.unusedTactic false
set_option linter.unreachableTactic false

namespace Ptn.Ham
open Ptn.Og List Ptn.Ham2

theorem sxi_insertTrip_nil (x : Int × Int × Int) : insertTrip x [] = [x] := rfl

theorem sxi_insertTrip_le (a b c d e f : Int) (ys : List (Int × Int × Int))
    (h : a < d ∨ (a = d ∧ (b < e ∨ (b = e ∧ c ≤ f)))) :
    insertTrip (a, b, c) ((d, e, f) :: ys) = (a, b, c) :: (d, e, f) :: ys := by
  have : tripLe (a, b, c) (d, e, f) = true := by
    simp only [tripLe, Bool.or_eq_true, Bool.and_eq_true, decide_eq_true_eq, beq_iff_eq]
    omega
  simp only [insertTrip, this, if_true]

theorem sxi_insertTrip_gt (a b c d e f : Int) (ys : List (Int × Int × Int))
    (h : d < a ∨ (d = a ∧ (e < b ∨ (e = b ∧ f < c)))) :
    insertTrip (a, b, c) ((d, e, f) :: ys) = (d, e, f) :: insertTrip (a, b, c) ys := by
  have : tripLe (a, b, c) (d, e, f) = false := by
    rw [← Bool.not_eq_true]
    simp only [tripLe, Bool.or_eq_true, Bool.and_eq_true, decide_eq_true_eq, beq_iff_eq]
    omega
  simp only [insertTrip, this, Bool.false_eq_true, if_false]

theorem sxi_pLt_t (a b c d : Int) (h : a < c ∨ (a = c ∧ b < d)) : pLt (a, b) (c, d) = true := by
  rw [pLt_iff]; exact h

theorem sxi_pLt_f (a b c d : Int) (h : c < a ∨ (c = a ∧ d ≤ b)) : pLt (a, b) (c, d) = false := by
  rw [← Bool.not_eq_true, pLt_iff]; dsimp only; omega

theorem sxi_so1 : toSpinOperator [((0 : Int), (-1 : Int)), ((0 : Int), (1 : Int)), ((1 : Int), (-1 : Int)), ((1 : Int), (1 : Int))] true true = .ok 17 := rfl
theorem sxi_so2 : toSpinOperator [((0 : Int), (-1 : Int)), ((0 : Int), (1 : Int)), ((1 : Int), (-1 : Int)), ((1 : Int), (1 : Int))] true false = .ok 17 := rfl
theorem sxi_so3 : toSpinOperator [((0 : Int), (-1 : Int)), ((0 : Int), (1 : Int)), ((1 : Int), (-1 : Int)), ((1 : Int), (1 : Int))] false true = .ok 17 := rfl
theorem sxi_so4 : toSpinOperator [((0 : Int), (-1 : Int)), ((0 : Int), (1 : Int)), ((1 : Int), (-1 : Int)), ((1 : Int), (1 : Int))] false false = .ok 17 := rfl
theorem sxi_so5 : toSpinOperator [((0 : Int), (-1 : Int)), ((0 : Int), (1 : Int)), ((1 : Int), (-1 : Int))] true true = .ok 16 := rfl
theorem sxi_so6 : toSpinOperator [((0 : Int), (-1 : Int)), ((0 : Int), (1 : Int)), ((1 : Int), (-1 : Int))] true false = .ok 16 := rfl
theorem sxi_so7 : toSpinOperator [((0 : Int), (-1 : Int)), ((0 : Int), (1 : Int)), ((1 : Int), (-1 : Int))] false true = .ok 16 := rfl
theorem sxi_so8 : toSpinOperator [((0 : Int), (-1 : Int)), ((0 : Int), (1 : Int)), ((1 : Int), (-1 : Int))] false false = .ok 16 := rfl
theorem sxi_so9 : toSpinOperator [((0 : Int), (-1 : Int)), ((0 : Int), (1 : Int)), ((1 : Int), (1 : Int))] true true = .ok 15 := rfl
theorem sxi_so10 : toSpinOperator [((0 : Int), (-1 : Int)), ((0 : Int), (1 : Int)), ((1 : Int), (1 : Int))] true false = .ok 15 := rfl
theorem sxi_so11 : toSpinOperator [((0 : Int), (-1 : Int)), ((0 : Int), (1 : Int)), ((1 : Int), (1 : Int))] false true = .ok 15 := rfl
theorem sxi_so12 : toSpinOperator [((0 : Int), (-1 : Int)), ((0 : Int), (1 : Int)), ((1 : Int), (1 : Int))] false false = .ok 15 := rfl
theorem sxi_so13 : toSpinOperator [((0 : Int), (-1 : Int)), ((0 : Int), (1 : Int))] true true = .ok 14 := rfl
theorem sxi_so14 : toSpinOperator [((0 : Int), (-1 : Int)), ((0 : Int), (1 : Int))] true false = .ok 18 := rfl
theorem sxi_so15 : toSpinOperator [((0 : Int), (-1 : Int)), ((0 : Int), (1 : Int))] false true = .ok 14 := rfl
theorem sxi_so16 : toSpinOperator [((0 : Int), (-1 : Int)), ((0 : Int), (1 : Int))] false false = .ok 18 := rfl
theorem sxi_so17 : toSpinOperator [((0 : Int), (-1 : Int)), ((1 : Int), (-1 : Int)), ((1 : Int), (1 : Int))] true true = .ok 12 := rfl
theorem sxi_so18 : toSpinOperator [((0 : Int), (-1 : Int)), ((1 : Int), (-1 : Int)), ((1 : Int), (1 : Int))] true false = .ok 12 := rfl
theorem sxi_so19 : toSpinOperator [((0 : Int), (-1 : Int)), ((1 : Int), (-1 : Int)), ((1 : Int), (1 : Int))] false true = .ok 12 := rfl
theorem sxi_so20 : toSpinOperator [((0 : Int), (-1 : Int)), ((1 : Int), (-1 : Int)), ((1 : Int), (1 : Int))] false false = .ok 12 := rfl
theorem sxi_so21 : toSpinOperator [((0 : Int), (-1 : Int)), ((1 : Int), (-1 : Int))] true true = .ok 11 := rfl
theorem sxi_so22 : toSpinOperator [((0 : Int), (-1 : Int)), ((1 : Int), (-1 : Int))] true false = .ok 11 := rfl
theorem sxi_so23 : toSpinOperator [((0 : Int), (-1 : Int)), ((1 : Int), (-1 : Int))] false true = .ok 11 := rfl
theorem sxi_so24 : toSpinOperator [((0 : Int), (-1 : Int)), ((1 : Int), (-1 : Int))] false false = .ok 11 := rfl
theorem sxi_so25 : toSpinOperator [((0 : Int), (-1 : Int)), ((1 : Int), (1 : Int))] true true = .ok 10 := rfl
theorem sxi_so26 : toSpinOperator [((0 : Int), (-1 : Int)), ((1 : Int), (1 : Int))] true false = .ok 10 := rfl
theorem sxi_so27 : toSpinOperator [((0 : Int), (-1 : Int)), ((1 : Int), (1 : Int))] false true = .ok 10 := rfl
theorem sxi_so28 : toSpinOperator [((0 : Int), (-1 : Int)), ((1 : Int), (1 : Int))] false false = .ok 10 := rfl
theorem sxi_so29 : toSpinOperator [((0 : Int), (-1 : Int))] true true = .ok 9 := rfl
theorem sxi_so30 : toSpinOperator [((0 : Int), (-1 : Int))] true false = .ok 13 := rfl
theorem sxi_so31 : toSpinOperator [((0 : Int), (-1 : Int))] false true = .ok 9 := rfl
theorem sxi_so32 : toSpinOperator [((0 : Int), (-1 : Int))] false false = .ok 13 := rfl
theorem sxi_so33 : toSpinOperator [((0 : Int), (1 : Int)), ((1 : Int), (-1 : Int)), ((1 : Int), (1 : Int))] true true = .ok 7 := rfl
theorem sxi_so34 : toSpinOperator [((0 : Int), (1 : Int)), ((1 : Int), (-1 : Int)), ((1 : Int), (1 : Int))] true false = .ok 7 := rfl
theorem sxi_so35 : toSpinOperator [((0 : Int), (1 : Int)), ((1 : Int), (-1 : Int)), ((1 : Int), (1 : Int))] false true = .ok 7 := rfl
theorem sxi_so36 : toSpinOperator [((0 : Int), (1 : Int)), ((1 : Int), (-1 : Int)), ((1 : Int), (1 : Int))] false false = .ok 7 := rfl
theorem sxi_so37 : toSpinOperator [((0 : Int), (1 : Int)), ((1 : Int), (-1 : Int))] true true = .ok 6 := rfl
theorem sxi_so38 : toSpinOperator [((0 : Int), (1 : Int)), ((1 : Int), (-1 : Int))] true false = .ok 6 := rfl
theorem sxi_so39 : toSpinOperator [((0 : Int), (1 : Int)), ((1 : Int), (-1 : Int))] false true = .ok 6 := rfl
theorem sxi_so40 : toSpinOperator [((0 : Int), (1 : Int)), ((1 : Int), (-1 : Int))] false false = .ok 6 := rfl
theorem sxi_so41 : toSpinOperator [((0 : Int), (1 : Int)), ((1 : Int), (1 : Int))] true true = .ok 5 := rfl
theorem sxi_so42 : toSpinOperator [((0 : Int), (1 : Int)), ((1 : Int), (1 : Int))] true false = .ok 5 := rfl
theorem sxi_so43 : toSpinOperator [((0 : Int), (1 : Int)), ((1 : Int), (1 : Int))] false true = .ok 5 := rfl
theorem sxi_so44 : toSpinOperator [((0 : Int), (1 : Int)), ((1 : Int), (1 : Int))] false false = .ok 5 := rfl
theorem sxi_so45 : toSpinOperator [((0 : Int), (1 : Int))] true true = .ok 4 := rfl
theorem sxi_so46 : toSpinOperator [((0 : Int), (1 : Int))] true false = .ok 8 := rfl
theorem sxi_so47 : toSpinOperator [((0 : Int), (1 : Int))] false true = .ok 4 := rfl
theorem sxi_so48 : toSpinOperator [((0 : Int), (1 : Int))] false false = .ok 8 := rfl
theorem sxi_so49 : toSpinOperator [((1 : Int), (-1 : Int)), ((1 : Int), (1 : Int))] true true = .ok 3 := rfl
theorem sxi_so50 : toSpinOperator [((1 : Int), (-1 : Int)), ((1 : Int), (1 : Int))] true false = .ok 3 := rfl
theorem sxi_so51 : toSpinOperator [((1 : Int), (-1 : Int)), ((1 : Int), (1 : Int))] false true = .ok 21 := rfl
theorem sxi_so52 : toSpinOperator [((1 : Int), (-1 : Int)), ((1 : Int), (1 : Int))] false false = .ok 21 := rfl
theorem sxi_so53 : toSpinOperator [((1 : Int), (-1 : Int))] true true = .ok 2 := rfl
theorem sxi_so54 : toSpinOperator [((1 : Int), (-1 : Int))] true false = .ok 2 := rfl
theorem sxi_so55 : toSpinOperator [((1 : Int), (-1 : Int))] false true = .ok 20 := rfl
theorem sxi_so56 : toSpinOperator [((1 : Int), (-1 : Int))] false false = .ok 20 := rfl
theorem sxi_so57 : toSpinOperator [((1 : Int), (1 : Int))] true true = .ok 1 := rfl
theorem sxi_so58 : toSpinOperator [((1 : Int), (1 : Int))] true false = .ok 1 := rfl
theorem sxi_so59 : toSpinOperator [((1 : Int), (1 : Int))] false true = .ok 19 := rfl
theorem sxi_so60 : toSpinOperator [((1 : Int), (1 : Int))] false false = .ok 19 := rfl

theorem sxi_glC (i s k : Int) (l : Bool) : sgetLabE [(i, s, (1 : Int))] l k = .ok (if l then 0 else 5, [i, s], k) := rfl
theorem sxi_glA (i s k : Int) (l : Bool) : sgetLabE [(i, s, (-1 : Int))] l k = .ok (if l then 1 else 6, [i, s], k) := rfl
theorem sxi_glCC (i s j t k : Int) (l : Bool) : sgetLabE [(i, s, (1 : Int)), (j, t, (1 : Int))] l k =
    .ok (if l then 2 else 7, (if pLt (j, t) (i, s) then [j, t, i, s] else [i, s, j, t]), k) := rfl
theorem sxi_glAA (i s j t k : Int) (l : Bool) : sgetLabE [(i, s, (-1 : Int)), (j, t, (-1 : Int))] l k =
    .ok (if l then 3 else 8, (if pLt (i, s) (j, t) then [j, t, i, s] else [i, s, j, t]), k) := rfl
theorem sxi_glCA (i s j t k : Int) (l : Bool) : sgetLabE [(i, s, (1 : Int)), (j, t, (-1 : Int))] l k =
    .ok (if l then 4 else 9, [i, s, j, t], k) := rfl
theorem sxi_glAC (i s j t k : Int) (l : Bool) : sgetLabE [(i, s, (-1 : Int)), (j, t, (1 : Int))] l k =
    .ok (if l then 4 else 9, [j, t, i, s], k) := rfl


section branches
variable (L i s o0 j t o1 k m o2 l u o3 : Int)

theorem sxi_b1 (h1 : i = j) (h2 : j = k) (h3 : k = l) :
    stermE L [(i, s, o0), (j, t, o1), (k, m, o2), (l, u, o3)] =
      (toSpinOperator [(s, o0), (t, o1), (m, o2), (u, o3)] true true).map fun so => ((10, [], i), (11, [], i + 1), so) := by
  subst h1 h2 h3
  simp only [stermE, beq_self_eq_true, Bool.and_self, if_true]

theorem sxi_b2 (h1 : i = j) (h2 : j = k) (h3 : k ≠ l) :
    stermE L [(i, s, o0), (j, t, o1), (k, m, o2), (l, u, o3)] =
      (sgetLabE [(l, u, o3)] false (i + 1)).bind fun b =>
      (toSpinOperator [(s, o0), (t, o1), (m, o2)] true false).map fun so => ((10, [], i), b, so) := by
  subst h1 h2
  have : (i == l) = false := by rw [beq_eq_false_iff_ne]; exact h3
  simp only [stermE, beq_self_eq_true, Bool.and_self, this, Bool.and_false, Bool.false_eq_true, if_false, if_true]

theorem sxi_b3 (h1 : i ≠ j) (h2 : j = k) (h3 : k = l) :
    stermE L [(i, s, o0), (j, t, o1), (k, m, o2), (l, u, o3)] =
      (sgetLabE [(i, s, o0)] true j).bind fun a =>
      (toSpinOperator [(t, o1), (m, o2), (u, o3)] false true).map fun so => (a, (11, [], j + 1), so) := by
  subst h2 h3
  have : (i == j) = false := by rw [beq_eq_false_iff_ne]; exact h1
  simp only [stermE, beq_self_eq_true, Bool.and_self, this, Bool.false_and, Bool.false_eq_true, if_false, if_true]

theorem sxi_b4 (h1 : i ≠ j) (h2 : j = k) (h3 : k ≠ l) :
    stermE L [(i, s, o0), (j, t, o1), (k, m, o2), (l, u, o3)] =
      (sgetLabE [(i, s, o0)] true j).bind fun a =>
      (sgetLabE [(l, u, o3)] false (j + 1)).bind fun b =>
      (toSpinOperator [(t, o1), (m, o2)] false false).map fun so => (a, b, so) := by
  subst h2
  have e1 : (i == j) = false := by rw [beq_eq_false_iff_ne]; exact h1
  have e2 : (j == l) = false := by rw [beq_eq_false_iff_ne]; exact h3
  simp only [stermE, beq_self_eq_true, Bool.and_self, e1, e2, Bool.false_and, Bool.and_false, Bool.false_eq_true, if_false, if_true]

theorem sxi_b5a (h2 : j ≠ k) (c1 : k ≤ L / 2) (h3 : k = l) :
    stermE L [(i, s, o0), (j, t, o1), (k, m, o2), (l, u, o3)] =
      (sgetLabE [(i, s, o0), (j, t, o1)] true k).bind fun a =>
        (toSpinOperator [(m, o2), (u, o3)] true true).map fun so => (a, (11, [], k + 1), so) := by
  subst h3
  have e2 : (j == k) = false := by rw [beq_eq_false_iff_ne]; exact h2
  simp only [stermE, beq_self_eq_true, e2, Bool.false_and, Bool.and_false, Bool.false_eq_true, if_false, if_true, if_pos c1]

theorem sxi_b5b (h2 : j ≠ k) (c1 : k ≤ L / 2) (h3 : k ≠ l) :
    stermE L [(i, s, o0), (j, t, o1), (k, m, o2), (l, u, o3)] =
      (sgetLabE [(i, s, o0), (j, t, o1)] true k).bind fun a =>
        (sgetLabE [(l, u, o3)] false (k + 1)).bind fun b =>
        (toSpinOperator [(m, o2)] true false).map fun so => (a, b, so) := by
  have e2 : (j == k) = false := by rw [beq_eq_false_iff_ne]; exact h2
  have e3 : (k == l) = false := by rw [beq_eq_false_iff_ne]; exact h3
  simp only [stermE, e2, e3, Bool.false_and, Bool.and_false, Bool.false_eq_true, if_false, if_true, if_pos c1]

theorem sxi_b6a (h2 : j ≠ k) (c1 : ¬ k ≤ L / 2) (c2 : j ≥ L / 2) (h1 : i = j) :
    stermE L [(i, s, o0), (j, t, o1), (k, m, o2), (l, u, o3)] =
      (sgetLabE [(k, m, o2), (l, u, o3)] false (j + 1)).bind fun b =>
        (toSpinOperator [(s, o0), (t, o1)] true true).map fun so => ((10, [], j), b, so) := by
  subst h1
  have e2 : (i == k) = false := by rw [beq_eq_false_iff_ne]; exact h2
  simp only [stermE, beq_self_eq_true, e2, Bool.false_and, Bool.and_false, Bool.false_eq_true, if_false, if_true, if_neg c1, if_pos c2]

theorem sxi_b6b (h2 : j ≠ k) (c1 : ¬ k ≤ L / 2) (c2 : j ≥ L / 2) (h1 : i ≠ j) :
    stermE L [(i, s, o0), (j, t, o1), (k, m, o2), (l, u, o3)] =
      (sgetLabE [(k, m, o2), (l, u, o3)] false (j + 1)).bind fun b =>
        (sgetLabE [(i, s, o0)] true j).bind fun a =>
        (toSpinOperator [(t, o1)] false true).map fun so => (a, b, so) := by
  have e1 : (i == j) = false := by rw [beq_eq_false_iff_ne]; exact h1
  have e2 : (j == k) = false := by rw [beq_eq_false_iff_ne]; exact h2
  simp only [stermE, e1, e2, Bool.false_and, Bool.and_false, Bool.false_eq_true, if_false, if_true, if_neg c1, if_pos c2]

theorem sxi_b7 (h2 : j ≠ k) (c1 : ¬ k ≤ L / 2) (c2 : ¬ j ≥ L / 2) :
    stermE L [(i, s, o0), (j, t, o1), (k, m, o2), (l, u, o3)] =
      (sgetLabE [(i, s, o0), (j, t, o1)] true (L / 2)).bind fun a =>
      (sgetLabE [(k, m, o2), (l, u, o3)] false (L / 2 + 1)).map fun b => (a, b, sId) := by
  have e2 : (j == k) = false := by rw [beq_eq_false_iff_ne]; exact h2
  simp only [stermE, e2, Bool.false_and, Bool.and_false, Bool.false_eq_true, if_false, if_true, if_neg c1, if_neg c2]

end branches


section labok
variable (L i s j t k : Int)
theorem sxi_ok0 : sLabOk L (0, [i, s], k) = (0 ≤ i ∧ i < L - 1 ∧ 0 ≤ s ∧ s ≤ 1 ∧ i + 1 ≤ k ∧ k < L) := rfl
theorem sxi_ok1 : sLabOk L (1, [i, s], k) = (0 ≤ i ∧ i < L - 1 ∧ 0 ≤ s ∧ s ≤ 1 ∧ i + 1 ≤ k ∧ k < L) := rfl
theorem sxi_ok2 : sLabOk L (2, [i, s, j, t], k) = (0 ≤ i ∧ i ≤ j ∧ j < L / 2 ∧ 0 ≤ s ∧ s ≤ 1 ∧ 0 ≤ t ∧ t ≤ 1 ∧
    (i < j ∨ (i = j ∧ s < t)) ∧ j + 1 ≤ k ∧ k < L / 2 + 1) := rfl
theorem sxi_ok3 : sLabOk L (3, [i, s, j, t], k) = (0 ≤ j ∧ j ≤ i ∧ i < L / 2 ∧ 0 ≤ s ∧ s ≤ 1 ∧ 0 ≤ t ∧ t ≤ 1 ∧
    (j < i ∨ (j = i ∧ t < s)) ∧ i + 1 ≤ k ∧ k < L / 2 + 1) := rfl
theorem sxi_ok4 : sLabOk L (4, [i, s, j, t], k) = (0 ≤ i ∧ i < L / 2 ∧ 0 ≤ j ∧ j < L / 2 ∧ 0 ≤ s ∧ s ≤ 1 ∧ 0 ≤ t ∧ t ≤ 1 ∧
    max i j + 1 ≤ k ∧ k < L / 2 + 1) := rfl
theorem sxi_ok5 : sLabOk L (5, [i, s], k) = (1 ≤ i ∧ i < L ∧ 0 ≤ s ∧ s ≤ 1 ∧ 1 ≤ k ∧ k < i + 1) := rfl
theorem sxi_ok6 : sLabOk L (6, [i, s], k) = (1 ≤ i ∧ i < L ∧ 0 ≤ s ∧ s ≤ 1 ∧ 1 ≤ k ∧ k < i + 1) := rfl
theorem sxi_ok7 : sLabOk L (7, [i, s, j, t], k) = (L / 2 + 1 ≤ i ∧ i ≤ j ∧ j < L ∧ 0 ≤ s ∧ s ≤ 1 ∧ 0 ≤ t ∧ t ≤ 1 ∧
    (i < j ∨ (i = j ∧ s < t)) ∧ L / 2 + 1 ≤ k ∧ k < i + 1) := rfl
theorem sxi_ok8 : sLabOk L (8, [i, s, j, t], k) = (L / 2 + 1 ≤ j ∧ j ≤ i ∧ i < L ∧ 0 ≤ s ∧ s ≤ 1 ∧ 0 ≤ t ∧ t ≤ 1 ∧
    (j < i ∨ (j = i ∧ t < s)) ∧ L / 2 + 1 ≤ k ∧ k < j + 1) := rfl
theorem sxi_ok9 : sLabOk L (9, [i, s, j, t], k) = (L / 2 + 1 ≤ i ∧ i < L ∧ L / 2 + 1 ≤ j ∧ j < L ∧ 0 ≤ s ∧ s ≤ 1 ∧ 0 ≤ t ∧ t ≤ 1 ∧
    L / 2 + 1 ≤ k ∧ k < min i j + 1) := rfl
theorem sxi_ok10 : sLabOk L (10, [], k) = (0 ≤ k ∧ k < L) := rfl
theorem sxi_ok11 : sLabOk L (11, [], k) = (1 ≤ k ∧ k < L + 1) := rfl
end labok

/-- sort the four operators -/
macro "sint_sort" : tactic =>
  `(tactic| simp (disch := omega) only [sortTrips, List.foldr, sxi_insertTrip_nil, sxi_insertTrip_le, sxi_insertTrip_gt, mC, mA])

/-- evaluate `stermE` on the explicit sorted list (the `L / 2` conditions must be decided by hypotheses) -/
macro "sint_eval" : tactic =>
  `(tactic| (simp (disch := omega) only [sxi_b1, sxi_b2, sxi_b3, sxi_b4, sxi_b5a, sxi_b5b, sxi_b6a, sxi_b6b, sxi_b7] <;>
    simp (disch := omega) only [
      sxi_so1, sxi_so2, sxi_so3, sxi_so4, sxi_so5, sxi_so6, sxi_so7, sxi_so8, sxi_so9, sxi_so10,
      sxi_so11, sxi_so12, sxi_so13, sxi_so14, sxi_so15, sxi_so16, sxi_so17, sxi_so18, sxi_so19, sxi_so20,
      sxi_so21, sxi_so22, sxi_so23, sxi_so24, sxi_so25, sxi_so26, sxi_so27, sxi_so28, sxi_so29, sxi_so30,
      sxi_so31, sxi_so32, sxi_so33, sxi_so34, sxi_so35, sxi_so36, sxi_so37, sxi_so38, sxi_so39, sxi_so40,
      sxi_so41, sxi_so42, sxi_so43, sxi_so44, sxi_so45, sxi_so46, sxi_so47, sxi_so48, sxi_so49, sxi_so50,
      sxi_so51, sxi_so52, sxi_so53, sxi_so54, sxi_so55, sxi_so56, sxi_so57, sxi_so58, sxi_so59, sxi_so60,
      sxi_glC, sxi_glA, sxi_glCC, sxi_glAA, sxi_glCA, sxi_glAC, sxi_pLt_t, sxi_pLt_f,
      Except.map, Except.bind, ite_true, ite_false, Bool.false_eq_true, ↓reduceIte, sId, sZZ]))

/-- `SOk` of a literal triple -/
macro "sint_sok" : tactic =>
  `(tactic| (refine ⟨?_, ?_, rfl, ?_, ?_, ?_, ?_⟩ <;>
      first
      | ((first
          | refine Eq.mpr (sxi_ok0 _ _ _ _) ?_ | refine Eq.mpr (sxi_ok1 _ _ _ _) ?_ | refine Eq.mpr (sxi_ok2 _ _ _ _ _ _) ?_
          | refine Eq.mpr (sxi_ok3 _ _ _ _ _ _) ?_ | refine Eq.mpr (sxi_ok4 _ _ _ _ _ _) ?_ | refine Eq.mpr (sxi_ok5 _ _ _ _) ?_
          | refine Eq.mpr (sxi_ok6 _ _ _ _) ?_ | refine Eq.mpr (sxi_ok7 _ _ _ _ _ _) ?_ | refine Eq.mpr (sxi_ok8 _ _ _ _ _ _) ?_
          | refine Eq.mpr (sxi_ok9 _ _ _ _ _ _) ?_ | refine Eq.mpr (sxi_ok10 _ _) ?_ | refine Eq.mpr (sxi_ok11 _ _) ?_); omega)
      | (dsimp only; omega)
      | (unfold isSpinOid; dsimp only; decide)
      | rfl))

/-- after `sint_sort; sint_eval`: the goal is `∃ x, .ok lit = .ok x ∧ SOk L x ∧ isLeft x.1 = true ∧ isLeft x.2.1 = false` -/
macro "sint_ok_fin" : tactic =>
  `(tactic| (refine ⟨_, rfl, ?_, rfl, rfl⟩; sint_sok))


section mlet
variable (i s j t k p : Int)
theorem sxi_ml0 : mletOf (0, [i, s], k) p = if p < 2 * i + s then mI else if p = 2 * i + s then mC else mZ := rfl
theorem sxi_ml1 : mletOf (1, [i, s], k) p = if p < 2 * i + s then mI else if p = 2 * i + s then mA else mZ := rfl
theorem sxi_ml2 : mletOf (2, [i, s, j, t], k) p = if p < 2 * i + s then mI else if p = 2 * i + s then mC
    else if p < 2 * j + t then mZ else if p = 2 * j + t then mC else mI := rfl
theorem sxi_ml3 : mletOf (3, [i, s, j, t], k) p = if p < 2 * j + t then mI else if p = 2 * j + t then mA
    else if p < 2 * i + s then mZ else if p = 2 * i + s then mA else mI := rfl
theorem sxi_ml4 : mletOf (4, [i, s, j, t], k) p =
    if 2 * i + s < 2 * j + t then
      (if p < 2 * i + s then mI else if p = 2 * i + s then mC else if p < 2 * j + t then mZ else if p = 2 * j + t then mA else mI)
    else if 2 * i + s = 2 * j + t then (if p = 2 * i + s then mN else mI)
    else (if p < 2 * j + t then mI else if p = 2 * j + t then mA else if p < 2 * i + s then mZ else if p = 2 * i + s then mC else mI) := rfl
theorem sxi_ml5 : mletOf (5, [i, s], k) p = if p < 2 * i + s then mZ else if p = 2 * i + s then mC else mI := rfl
theorem sxi_ml6 : mletOf (6, [i, s], k) p = if p < 2 * i + s then mZ else if p = 2 * i + s then mA else mI := rfl
theorem sxi_ml7 : mletOf (7, [i, s, j, t], k) p = if p < 2 * i + s then mI else if p = 2 * i + s then mC
    else if p < 2 * j + t then mZ else if p = 2 * j + t then mC else mI := rfl
theorem sxi_ml8 : mletOf (8, [i, s, j, t], k) p = if p < 2 * j + t then mI else if p = 2 * j + t then mA
    else if p < 2 * i + s then mZ else if p = 2 * i + s then mA else mI := rfl
theorem sxi_ml9 : mletOf (9, [i, s, j, t], k) p =
    if 2 * i + s < 2 * j + t then
      (if p < 2 * i + s then mI else if p = 2 * i + s then mC else if p < 2 * j + t then mZ else if p = 2 * j + t then mA else mI)
    else if 2 * i + s = 2 * j + t then (if p = 2 * i + s then mN else mI)
    else (if p < 2 * j + t then mI else if p = 2 * j + t then mA else if p < 2 * i + s then mZ else if p = 2 * i + s then mC else mI) := rfl
theorem sxi_ml10 : mletOf (10, [], k) p = mI := rfl
theorem sxi_ml11 : mletOf (11, [], k) p = mI := rfl
end mlet

theorem sxi_eq_toNat (p : Nat) (a : Int) (h : 0 ≤ a) : (p = a.toNat) = ((p : Int) = a) := by
  apply propext; omega

theorem sxi_lt_toNat (p : Nat) (a : Int) : (p < a.toNat) = ((p : Int) < a) := by
  apply propext; omega

/-- `STw` of a literal triple -/
macro "sint_stw" : tactic =>
  `(tactic| (refine ⟨?_, ?_, ?_⟩ <;> (try intro p hp1) <;> (try intro hp2) <;> dsimp only at * <;>
      (try simp (disch := omega) only [sxi_ml0, sxi_ml1, sxi_ml2, sxi_ml3, sxi_ml4, sxi_ml5, sxi_ml6, sxi_ml7, sxi_ml8, sxi_ml9,
        sxi_ml10, sxi_ml11, md, intF, w1F, w2F, sxi_lt_toNat, sxi_eq_toNat, if_pos, if_neg]) <;>
      (try split_ifs) <;>
      first | rfl | omega | decide))

macro "sint_word_fin" : tactic =>
  `(tactic| (refine ⟨_, rfl, ?_⟩; sint_stw))

end Ptn.Ham

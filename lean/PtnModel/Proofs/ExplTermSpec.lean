import PtnModel.Proofs.ExplLab
import PtnModel.Proofs.Ham2JW4
/-!
# Explicit molecular graph, part 5: the edge of every term crosses from the left to the right forest and spells the term's word
-/
set_option linter.unusedSectionVars false
set_option linter.unusedSimpArgs false
set_option linter.unusedVariables false
set_option linter.unusedTactic false
set_option linter.unreachableTactic false

namespace Ptn.Ham
open Ptn.Og List Ptn.Ham2

/-- a crossing edge whose path spells the word with letters `F` -/
structure Tspec (L : Int) (F : Nat → Int) (x : Lab × Lab × Int) : Prop where
  ok1 : labOk L x.1
  ok2 : labOk L x.2.1
  l1 : isLeft x.1 = true
  r2 : isLeft x.2.1 = false
  lev : x.2.1.2.2 = x.1.2.2 + 1
  pos : 0 ≤ x.1.2.2
  le : x.2.1.2.2 ≤ L
  pre : ∀ q : Nat, (q : Int) < x.1.2.2 → letOf x.1 q = F q
  mid : x.2.2 = F x.1.2.2.toNat
  post : ∀ q : Nat, x.1.2.2 < (q : Int) → (q : Int) < L → letOf x.2.1 q = F q
  chg : tagQ x.2.1.1 = tagQ x.1.1 + opQ x.2.2

theorem Tspec.word {L : Int} {F : Nat → Int} {x : Lab × Lab × Int} (h : Tspec L F x) :
    lwLab x.1 ++ x.2.2 :: rwLab L x.2.1 = fw L.toNat F := by
  have hp := h.pos
  have hl := h.le
  have hv := h.lev
  have e : L.toNat = x.1.2.2.toNat + (1 + (L - x.2.1.2.2).toNat) := by omega
  rw [e, fw_add, fw_add]
  unfold lwLab rwLab fw
  congr 1
  · apply map_congr_left
    intro q hq
    have := mem_range.1 hq
    exact h.pre q (by omega)
  · simp only [range_one, map_cons, map_nil, singleton_append, Nat.add_zero]
    congr 1
    · exact h.mid
    · apply map_congr_left
      intro q hq
      have := mem_range.1 hq
      have e2 : x.2.1.2.2 + (q : Int) = ((x.1.2.2.toNat + (1 + q) : Nat) : Int) := by push_cast; omega
      rw [e2]
      exact h.post _ (by push_cast; omega) (by push_cast; omega)

/-- letters of the hopping word of `a†_i a_j` -/
def hopF (i j x : Nat) : Int :=
  if i < j then (if x < i then mI else if x = i then mC else if x < j then mZ else if x = j then mA else mI)
  else if j < i then (if x < j then mI else if x = j then mA else if x < i then mZ else if x = i then mC else mI)
  else (if x = i then mN else mI)

theorem hopWord_fw (n i j : Nat) (hi : i < n) (hj : j < n) : hopWord n i j = fw n (hopF i j) := by
  unfold hopWord
  by_cases h1 : i < j
  · rw [if_pos h1]
    refine word_eq _ [(i, mI), (1, mC), (j - i - 1, mZ), (1, mA), (n - 1 - j, mI)] _ _ ?_ ?_ ?_
    · simp [expand]
    · simp [total]; omega
    · refine ⟨?_, ?_, ?_, ?_, ?_, trivial⟩ <;>
        (intro x h1 h2; simp (disch := omega) only [hopF, if_pos, if_neg])
  · rw [if_neg h1]
    by_cases h2 : j < i
    · rw [if_pos h2]
      refine word_eq _ [(j, mI), (1, mA), (i - j - 1, mZ), (1, mC), (n - 1 - i, mI)] _ _ ?_ ?_ ?_
      · simp [expand]
      · simp [total]; omega
      · refine ⟨?_, ?_, ?_, ?_, ?_, trivial⟩ <;>
          (intro x h1 h2; simp (disch := omega) only [hopF, if_pos, if_neg])
    · rw [if_neg h2]
      refine word_eq _ [(i, mI), (1, mN), (n - 1 - i, mI)] _ _ ?_ ?_ ?_
      · simp [expand]
      · simp [total]; omega
      · refine ⟨?_, ?_, ?_, trivial⟩ <;>
          (intro x h1 h2; simp (disch := omega) only [hopF, if_pos, if_neg])

/-- prove a `Tspec` after the labels have been evaluated -/
macro "tspec_tac" : tactic =>
  `(tactic| (refine ⟨?_, ?_, rfl, rfl, ?_, ?_, ?_, ?_, ?_, ?_, rfl⟩ <;>
      (try intro q hq0) <;> (try intro hq1) <;>
      (try simp (disch := omega) only [labOk, letOf, hopF, intF, w1F, w2F, if_pos, if_neg, Int.toNat_natCast] at *) <;>
      (try split_ifs) <;>
      (try simp (disch := omega) only [hopF, intF, w1F, w2F, if_pos, if_neg, Int.toNat_natCast]) <;>
      first | rfl | omega | decide))

macro "lab_eval2" : tactic =>
  `(tactic| simp (disch := omega) only [sortPairs, List.foldr, insertPair_nil, insertPair_le, insertPair_gt, mC, mA, mN, mI, mZ,
      beq_iff_eq, if_pos, if_neg, decide_eq_true, sort2,
      beq_self_eq_true, Bool.and_self, Bool.and_true, Bool.true_and, ite_true, ite_false, Bool.false_eq_true, ↓reduceIte,
      Bool.and_eq_true, and_false, false_and, true_and, and_true, and_self,
      hopLab, intLab, termLab, getLab])

theorem hop_tspec (L : Int) (hL : 4 ≤ L) (i j : Int) (hi : 0 ≤ i) (hiL : i < L) (hj : 0 ≤ j) (hjL : j < L) :
    Tspec L (hopF i.toNat j.toNat) (hopLab L i j) := by
  have t := Int.lt_trichotomy i j
  rcases t with h | h | h
  · by_cases c1 : j ≤ L / 2 <;> by_cases c2 : i ≥ L / 2 <;>
      first
      | (exfalso; omega)
      | (lab_eval2; tspec_tac)
  · subst h
    lab_eval2
    tspec_tac
  · by_cases c1 : i ≤ L / 2 <;> by_cases c2 : j ≥ L / 2 <;>
      first
      | (exfalso; omega)
      | (lab_eval2; tspec_tac)


macro "int_sort" : tactic =>
  `(tactic| simp (disch := omega) only [intLab, sortPairs, List.foldr, insertPair_nil, insertPair_le, insertPair_gt, mC, mA, mN, mI, mZ, termLab,
         beq_iff_eq, if_pos, if_neg, ↓reduceIte])

macro "int_fin" : tactic =>
  `(tactic| first
       | (split_ifs <;> first | (exfalso; omega) | (lab_eval2; tspec_tac))
       | (lab_eval2; tspec_tac))

end Ptn.Ham

import PtnModel.Proofs.HistEvoInv
/-!
# C02: single-site TDVP keeps the block-sparsity invariant

* `leftQ_wf`, `rightQ_wf`       : the reshaped `Q` factor of a left / right local QR is a well-formed site tensor, the
                                  `R` factor is block sparse (C11, no positivity assumption);
* `pushLeft_wf`, `pushRight_wf` : absorbing a block-sparse bond matrix into the neighbouring tensor;
* `tdvp1Left_sparse`, `tdvp1Right_sparse`, `tdvp1Step_sparse` : the sweep invariant `EvoSparse` is preserved;
* `tdvp1_wf`                    : `integrate_local_singlesite` returns a well-formed MPS.
-/
set_option linter.unusedSectionVars false
namespace Ptn.HistWf
open Ptn Ptn.Krylov Ptn.Evo Ptn.Ortho Ptn.BondOps Ptn.Dense Finset

variable {𝕜 : Type} [RCLike 𝕜] [DecidableEq 𝕜]
variable {dqr : Mat 𝕜 → Mat 𝕜 × Mat 𝕜}

/-! ## local QR steps -/

theorem leftQ_wf (hshape : ∀ B, ShapeAt dqr B) {A1 : T3 𝕜} {qd qa q1 qb : List Int} {Q C : Mat 𝕜}
    (h : qr dqr A1.flattenLeft.tab (QN.flatten2 qd qa) q1 = .ok (Q, C, qb))
    (h0 : A1.d0 = qd.length) (h1 : A1.d1 = qa.length) :
    T3Wf (T3.ofFlattenLeft Q A1.d0 A1.d1).tab qd qa qb ∧ Sparse C qb q1 ∧ C.m = qb.length ∧ C.n = A1.d2 := by
  have hf := qr_facts hshape h
  have hm : Q.m = qd.length * qa.length := by rw [hf.Qm, ← h0, ← h1]; rfl
  refine ⟨?_, hf.sparseR, hf.Rm, hf.Rn⟩
  rw [h0, h1]
  exact T3Wf.tab (sparseT3_ofFlattenLeft hm hf.Qn hf.sparseQ)

theorem rightQ_wf (hshape : ∀ B, ShapeAt dqr B) {A : T3 𝕜} {qd qL qR qb : List Int} {Q C : Mat 𝕜}
    (h : qr dqr A.swap12.flattenLeft.tab (QN.flatten2 qd (QN.neg qR)) (QN.neg qL) = .ok (Q, C, qb))
    (h0 : A.d0 = qd.length) (h2 : A.d2 = qR.length) :
    T3Wf (T3.ofFlattenLeft Q A.d0 A.d2).swap12.tab qd (QN.neg qb) qR ∧ Sparse C qb (QN.neg qL) ∧
      C.m = qb.length ∧ C.n = A.d1 := by
  have hf := qr_facts hshape h
  have hm : Q.m = qd.length * (QN.neg qR).length := by rw [hf.Qm, neg_length, ← h0, ← h2]; rfl
  refine ⟨?_, hf.sparseR, hf.Rm, hf.Rn⟩
  have hX := t3wf_swap (sparseT3_ofFlattenLeft hm hf.Qn hf.sparseQ)
  rw [Ortho.neg_neg, neg_length, ← h0, ← h2] at hX
  exact T3Wf.tab hX

omit [DecidableEq 𝕜] in
theorem sparse_transpose_tab {C : Mat 𝕜} {qb qL : List Int} (h : Sparse C qb (QN.neg qL)) :
    Sparse C.transpose.tab qL (QN.neg qb) := by
  apply sparse_tab
  intro j p hj hp hne
  have := h p j hp hj hne
  rw [neg_getD] at this ⊢
  omega

/-- `einsum(A[i+1], (0,3,2), C, (1,3), (0,1,2))` -/
theorem pushLeft_wf {An : T3 𝕜} {C1 : Mat 𝕜} {qd qb q1 q2 : List Int} (hA : T3Wf An qd q1 q2)
    (hC : Sparse C1 qb q1) (hm : C1.m = qb.length) (hn : C1.n = An.d1) : T3Wf (pushLeft An C1) qd qb q2 := by
  unfold pushLeft
  refine T3Wf.tab ⟨hA.d0, hm, hA.d2, ?_⟩
  intro s p c hs hp hc hne
  have hne' : sumRange An.d1 (fun b => An.f s b c * C1.f p b) ≠ 0 := hne
  rw [Env.sumRange_eq] at hne'
  obtain ⟨b, hb, hb0⟩ := Finset.exists_ne_zero_of_sum_ne_zero hne'
  have hb := Finset.mem_range.1 hb
  have h1 : An.f s b c ≠ 0 := fun h0 => hb0 (by rw [h0, zero_mul])
  have h2 : C1.f p b ≠ 0 := fun h0 => hb0 (by rw [h0, mul_zero])
  have e1 := hA.sp s b c hs hb hc h1
  have e2 := hC p b hp (by rw [hn]; exact hb) h2
  omega

/-- `einsum(A[i-1], (0,1,3), C, (3,2), (0,1,2))` -/
theorem pushRight_wf {Ap : T3 𝕜} {C1 : Mat 𝕜} {qd q0 q1 qn : List Int} (hA : T3Wf Ap qd q0 q1)
    (hC : Sparse C1 q1 qn) (hm : C1.m = Ap.d2) (hn : C1.n = qn.length) : T3Wf (pushRight Ap C1) qd q0 qn := by
  unfold pushRight
  refine T3Wf.tab ⟨hA.d0, hA.d1, hn, ?_⟩
  intro s a p hs ha hp hne
  have hne' : sumRange Ap.d2 (fun b => Ap.f s a b * C1.f b p) ≠ 0 := hne
  rw [Env.sumRange_eq] at hne'
  obtain ⟨b, hb, hb0⟩ := Finset.exists_ne_zero_of_sum_ne_zero hne'
  have hb := Finset.mem_range.1 hb
  have h1 : Ap.f s a b ≠ 0 := fun h0 => hb0 (by rw [h0, zero_mul])
  have h2 : C1.f b p ≠ 0 := fun h0 => hb0 (by rw [h0, mul_zero])
  have e1 := hA.sp s a b hs ha hb h1
  have e2 := hC b p (by rw [hm]; exact hb) hp h2
  omega

/-! ## the sweeps -/

variable {k : EvoKernels 𝕜 ℝ} {H : MPO 𝕜} {qd : List Int} {dt : 𝕜} {numiter : Nat}

/-- `_local_hamiltonian_step` at site `j` between valid blocks returns a well-formed site tensor -/
theorem localStep_wf (hH : HOk H qd) {s : Sweep 𝕜} {cl cr j : Nat} (h : EvoSparse H qd s cl cr)
    (hj : j < H.A.length) (hl : j ≤ cl) (hr : cr ≤ j) {X A1 : T3 𝕜} {tau : 𝕜}
    (hX : T3Wf X qd (getQ s j) (getQ s (j + 1)))
    (hrun : localHamiltonianStep k (getBL s j) (getBR s j) (H.A.getD j zeroT4) X tau numiter = .ok A1) :
    T3Wf A1 qd (getQ s j) (getQ s (j + 1)) := by
  obtain ⟨hbl, sql⟩ := h.bl j hl hj
  obtain ⟨hbr, sqr⟩ := h.br j hr hj
  obtain ⟨hsp, d0, d1, d2⟩ := localStep_sparse hrun hbl hbr (hH.sp j) (hH.sq j) sql sqr hX.sp
  exact ⟨d0.trans hX.d0, d1.trans hX.d1, d2.trans hX.d2, hsp⟩

theorem tdvp1Left_sparse (hshape : ∀ B, ShapeAt k.dqr B) (hH : HOk H qd) {s s' : Sweep 𝕜} {i : Nat}
    (h : EvoSparse H qd s i i) (hi : i + 1 < H.A.length) (hrun : tdvp1Left k H qd dt numiter s i = .ok s') :
    EvoSparse H qd s' (i + 1) (i + 1) := by
  obtain ⟨A1, Q, C, qb, BLn, C1, h1, h2, h3, h4, hc, rfl⟩ := tdvp1Left_unfold hrun
  have hAi := h.site i (by omega)
  obtain ⟨a0, a1, a2⟩ := localStep_dims h1
  obtain ⟨hQ, hCs, hCm, hCn⟩ := leftQ_wf hshape h2 (a0.trans hAi.d0) (a1.trans hAi.d1)
  obtain ⟨hbl, _⟩ := h.bl i (Nat.le_refl _) (by omega)
  obtain ⟨hbr, sqr⟩ := h.br i (Nat.le_refl _) (by omega)
  obtain ⟨hBLn, b0, _, b2⟩ := opStepLeft_sparse h3 hQ.sp hQ.sp (hH.sp i) hbl
  have sqn : BLn.d2 = BLn.d0 := b2.trans b0.symm
  obtain ⟨hC1, c0, c1⟩ := bondStep_sparse h4 hBLn hbr sqn sqr hCs
  have hY : T3Wf (pushLeft (getA s (i + 1)) C1) qd qb (getQ s (i + 2)) :=
    pushLeft_wf (h.site (i + 1) hi) hC1 (c0.trans hCm) hc
  have hp := evoSparse_pair h hi hQ hY
  rw [Nat.min_self, Nat.max_eq_right (Nat.le_succ i)] at hp
  have hq : getQ (⟨(s.A.setIfInBounds i (T3.ofFlattenLeft Q A1.d0 A1.d1).tab).setIfInBounds (i + 1)
      (pushLeft (getA s (i + 1)) C1), s.qD.setIfInBounds (i + 1) qb, s.BL, s.BR⟩ : Sweep 𝕜) (i + 1) = qb := by
    show (s.qD.setIfInBounds (i + 1) qb).getD (i + 1) [] = qb
    rw [getD_set1 _ _ qb [] (by rw [h.sizeQ]; omega), if_pos rfl]
  exact evoSparse_setBL hp (Nat.le_refl _) hi (by rw [hq]; exact hBLn) sqn

theorem tdvp1Right_sparse (hshape : ∀ B, ShapeAt k.dqr B) (hH : HOk H qd) {s s' : Sweep 𝕜} {j : Nat}
    (h : EvoSparse H qd s (j + 1) (j + 1)) (hj : j + 1 < H.A.length)
    (hrun : tdvp1Right k H qd dt numiter s (j + 1) = .ok s') : EvoSparse H qd s' j j := by
  obtain ⟨Q, C, qb, BRn, C1, Ap2, h1, h2, h3, hc, h4, rfl⟩ := tdvp1Right_unfold hrun
  simp only [Nat.add_sub_cancel] at hc h4 ⊢
  have hAi := h.site (j + 1) hj
  obtain ⟨hQ, hCs, hCm, hCn⟩ := rightQ_wf hshape h1 hAi.d0 hAi.d2
  obtain ⟨hbl, sql⟩ := h.bl (j + 1) (Nat.le_refl _) hj
  obtain ⟨hbr, _⟩ := h.br (j + 1) (Nat.le_refl _) hj
  obtain ⟨hBRn, b0, _, b2⟩ := opStepRight_sparse h2 hQ.sp hQ.sp (hH.sp (j + 1)) hbr
  have sqn : BRn.d2 = BRn.d0 := b2.trans b0.symm
  obtain ⟨hC1, c0, c1⟩ := bondStep_sparse h3 hbl hBRn sql sqn (sparse_transpose_tab hCs)
  have hY : T3Wf (pushRight (getA s j) C1) qd (getQ s j) (QN.neg qb) :=
    pushRight_wf (h.site j (by omega)) hC1 hc (by rw [c1, neg_length]; exact hCm)
  -- the pair update (without the final local step) and the new right block
  have hp := evoSparse_pair' (i := j) h hj hY hQ
  rw [Nat.min_eq_right (Nat.le_succ j), Nat.max_self] at hp
  have hq : getQ (⟨(s.A.setIfInBounds (j + 1) (T3.ofFlattenLeft Q (getA s (j + 1)).d0 (getA s (j + 1)).d2).swap12.tab).setIfInBounds
      j (pushRight (getA s j) C1), s.qD.setIfInBounds (j + 1) (QN.neg qb), s.BL, s.BR⟩ : Sweep 𝕜) (j + 1) = QN.neg qb := by
    show (s.qD.setIfInBounds (j + 1) (QN.neg qb)).getD (j + 1) [] = QN.neg qb
    rw [getD_set1 _ _ (QN.neg qb) [] (by rw [h.sizeQ]; omega), if_pos rfl]
  have hb := evoSparse_setBR hp (Nat.le_refl _) (by omega : j < H.A.length) (by rw [hq]; exact hBRn) sqn
  -- the final local step at site `j`
  have hq0 : ∀ m, m ≠ j + 1 → getQ (⟨(s.A.setIfInBounds (j + 1)
      (T3.ofFlattenLeft Q (getA s (j + 1)).d0 (getA s (j + 1)).d2).swap12.tab).setIfInBounds j (pushRight (getA s j) C1),
      s.qD.setIfInBounds (j + 1) (QN.neg qb), s.BL, s.BR.setIfInBounds j BRn⟩ : Sweep 𝕜) m = getQ s m := by
    intro m hm
    show (s.qD.setIfInBounds (j + 1) (QN.neg qb)).getD m [] = _
    rw [getD_set1 _ _ (QN.neg qb) [] (by rw [h.sizeQ]; omega), if_neg hm]; rfl
  have hq1 : getQ (⟨(s.A.setIfInBounds (j + 1)
      (T3.ofFlattenLeft Q (getA s (j + 1)).d0 (getA s (j + 1)).d2).swap12.tab).setIfInBounds j (pushRight (getA s j) C1),
      s.qD.setIfInBounds (j + 1) (QN.neg qb), s.BL, s.BR.setIfInBounds j BRn⟩ : Sweep 𝕜) (j + 1) = QN.neg qb := hq
  have hbr' : getBR (⟨(s.A.setIfInBounds (j + 1)
      (T3.ofFlattenLeft Q (getA s (j + 1)).d0 (getA s (j + 1)).d2).swap12.tab).setIfInBounds j (pushRight (getA s j) C1),
      s.qD.setIfInBounds (j + 1) (QN.neg qb), s.BL, s.BR.setIfInBounds j BRn⟩ : Sweep 𝕜) j = BRn := by
    show (s.BR.setIfInBounds j BRn).getD j emptyT3 = BRn
    rw [getD_set1 _ _ BRn emptyT3 (by rw [h.sizeBR]; omega), if_pos rfl]
  have hX : T3Wf Ap2 qd (getQ s j) (QN.neg qb) := by
    have := localStep_wf (k := k) (numiter := numiter) (tau := k.half * dt) hH hb (by omega : j < H.A.length)
      (Nat.le_refl _) (Nat.le_refl _) (X := pushRight (getA s j) C1) (A1 := Ap2)
      (by rw [hq0 j (by omega), hq1]; exact hY) (by rw [hbr']; exact h4)
    rwa [hq0 j (by omega), hq1] at this
  have hfin := evoSparse_site (i := j) hb (X := Ap2) (by rw [hq0 j (by omega), hq1]; exact hX)
  have e : ((s.A.setIfInBounds (j + 1) (T3.ofFlattenLeft Q (getA s (j + 1)).d0 (getA s (j + 1)).d2).swap12.tab).setIfInBounds
      j (pushRight (getA s j) C1)).setIfInBounds j Ap2 =
      (s.A.setIfInBounds (j + 1) (T3.ofFlattenLeft Q (getA s (j + 1)).d0 (getA s (j + 1)).d2).swap12.tab).setIfInBounds j Ap2 := by
    simp
  rw [e] at hfin
  exact hfin

theorem tdvp1Step_sparse (hshape : ∀ B, ShapeAt k.dqr B) (hH : HOk H qd) (hL : 0 < H.A.length) {s s' : Sweep 𝕜}
    (h : EvoSparse H qd s 0 0) (hrun : tdvp1Step k H qd dt numiter s = .ok s') : EvoSparse H qd s' 0 0 := by
  obtain ⟨s1, Al, h1, h2, h3⟩ := tdvp1Step_unfold hrun
  -- left sweep: centre `0 → L-1`
  have hl : EvoSparse H qd s1 (H.A.length - 1) (H.A.length - 1) :=
    foldIdx_up (tdvp1Left k H qd dt numiter) (fun i t => EvoSparse H qd t i i) (H.A.length - 1)
      (fun i hi t t' ht hr => tdvp1Left_sparse hshape hH ht (by omega) hr) s s1 h h1
  -- the last site
  have hX := localStep_wf hH hl (by omega : H.A.length - 1 < H.A.length) (Nat.le_refl _) (Nat.le_refl _)
    (hl.site (H.A.length - 1) (by omega)) h2
  have hm := evoSparse_site (i := H.A.length - 1) hl hX
  -- right sweep: centre `L-1 → 0`
  exact foldIdx_dn (tdvp1Right k H qd dt numiter) (fun i t => EvoSparse H qd t i i) (H.A.length - 1)
    (fun i hi t t' ht hr => tdvp1Right_sparse hshape hH ht (by omega) hr) _ s' hm h3

/-- **`integrate_local_singlesite` returns a well-formed MPS**: for every kernel family with the QR shape clause, a
well-formed state and a well-formed Hamiltonian with the physical charges of the state and leading MPO bond charge
zero. -/
theorem tdvp1_wf (hshape : ∀ B, ShapeAt k.dqr B) {ψ ψ' : MPS 𝕜} {numsteps : Nat} {nrm : ℝ}
    (hw : ψ.wellFormed = true) (hH : HOk H ψ.qd)
    (h : integrateLocalSinglesite k H ψ dt numsteps numiter = .ok (ψ', nrm)) : ψ'.wellFormed = true := by
  obtain ⟨s0, s, hp, hL0, hit, rfl⟩ := integrate1_unfold h
  have hL : 0 < H.A.length := Nat.pos_of_ne_zero hL0
  have h0 := prologue_sparse hshape hH hw hp hL
  have hinv := iterate_inv (tdvp1Step k H ψ.qd dt numiter) (fun t => EvoSparse H ψ.qd t 0 0)
    (fun t t' ht ht' => tdvp1Step_sparse hshape hH hL ht ht') numsteps s0 s h0 hit
  exact toMPS_wf hinv

end Ptn.HistWf

import PtnModel.Proofs.SpinExplDefs
import PtnModel.Proofs.HamSpinChains
import PtnModel.Proofs.ExplTermSpec
/-!
# Explicit spin-orbital molecular graph: the items of the two term loops and the formal sum of the terms

`shopItems`: the `(i, j, σ)` of the hopping loop; `sintCands` / `sintItems`: the candidates of the interaction loop and those accepted by
`get_vint_coeff`, in the order of `spin_molecular_hamiltonian_mpo(…, optimize=False)`; `sexplTerms`: one `(pair word, coefficient)` entry
per inserted term.
-/
set_option linter.unusedSectionVars false
set_option linter.unusedSimpArgs false
set_option linter.unusedVariables false

namespace Ptn.Ham
open Ptn.Og List Ptn.Ham2

variable {κ : Type} [CommRing κ] [DecidableEq κ]

/-! ## the items of the two term loops -/

/-- the `(i, j, σ)` of the hopping loop, in the order of the code -/
def shopItems (L : Int) : List (Int × Int × Int) :=
  (pyRange 0 L).flatMap fun i => (pyRange 0 L).flatMap fun j => [(i, j, (0 : Int)), (i, j, 1)]

/-- `((i, σ), (j, τ), (k, μ), (l, υ))` -/
abbrev SQ := (Int × Int) × (Int × Int) × (Int × Int) × (Int × Int)

/-- the candidates of the interaction loop, in the order of the code -/
def sintCands (L : Int) : List SQ :=
  (prodRS 0 L).flatMap fun (i, s) =>
    ((prodRS i L).filter fun jt => pLt (i, s) jt).flatMap fun (j, t) =>
      (prodRS 0 L).flatMap fun (k, m) =>
        ((prodRS k L).filter fun lu => pLt (k, m) lu).map fun (l, u) => ((i, s), (j, t), (k, m), (l, u))

def sqValid (c : Consts κ) (vint : List (List (List (List κ)))) (q : SQ) : Bool :=
  (getVintCoeff c vint (q.1.1, q.2.1.1, q.2.2.1.1, q.2.2.2.1) (q.1.2, q.2.1.2, q.2.2.1.2, q.2.2.2.2)).2
def sqCoeff (c : Consts κ) (vint : List (List (List (List κ)))) (q : SQ) : κ :=
  (getVintCoeff c vint (q.1.1, q.2.1.1, q.2.2.1.1, q.2.2.2.1) (q.1.2, q.2.1.2, q.2.2.1.2, q.2.2.2.2)).1
/-- the candidates `get_vint_coeff` accepts -/
def sintItems (c : Consts κ) (vint : List (List (List (List κ)))) (L : Int) : List SQ := (sintCands L).filter (sqValid c vint)

def sqOps (q : SQ) : List (Int × Int × Int) := [(q.1.1, q.1.2, mC), (q.2.1.1, q.2.1.2, mC), (q.2.2.2.1, q.2.2.2.2, mA), (q.2.2.1.1, q.2.2.1.2, mA)]
def sqLab (L : Int) (q : SQ) : Lab × Lab × Int := sintLab L q.1.1 q.1.2 q.2.1.1 q.2.1.2 q.2.2.1.1 q.2.2.1.2 q.2.2.2.1 q.2.2.2.2

theorem mem_shopItems (L : Int) (q : Int × Int × Int) (h : q ∈ shopItems L) :
    0 ≤ q.1 ∧ q.1 < L ∧ 0 ≤ q.2.1 ∧ q.2.1 < L ∧ (q.2.2 = 0 ∨ q.2.2 = 1) := by
  simp only [shopItems, mem_flatMap, mem_pyRange, mem_cons, not_mem_nil, or_false] at h
  obtain ⟨i, ⟨a, b⟩, j, ⟨c', d⟩, rfl | rfl⟩ := h
  · exact ⟨a, b, c', d, Or.inl rfl⟩
  · exact ⟨a, b, c', d, Or.inr rfl⟩

theorem mem_sintCands (L : Int) (q : SQ) (h : q ∈ sintCands L) :
    0 ≤ q.1.1 ∧ q.2.1.1 < L ∧ 0 ≤ q.2.2.1.1 ∧ q.2.2.2.1 < L ∧ (q.1.2 = 0 ∨ q.1.2 = 1) ∧ (q.2.1.2 = 0 ∨ q.2.1.2 = 1) ∧
    (q.2.2.1.2 = 0 ∨ q.2.2.1.2 = 1) ∧ (q.2.2.2.2 = 0 ∨ q.2.2.2.2 = 1) ∧
    (q.1.1 < q.2.1.1 ∨ (q.1.1 = q.2.1.1 ∧ q.1.2 < q.2.1.2)) ∧
    (q.2.2.1.1 < q.2.2.2.1 ∨ (q.2.2.1.1 = q.2.2.2.1 ∧ q.2.2.1.2 < q.2.2.2.2)) := by
  simp only [sintCands, mem_flatMap, mem_map, mem_filter] at h
  obtain ⟨⟨i, s⟩, h1, ⟨j, t⟩, ⟨h2, h2'⟩, ⟨k, m⟩, h3, ⟨l, u⟩, ⟨h4, h4'⟩, rfl⟩ := h
  rw [mem_prodRS] at h1 h2 h3 h4
  rw [pLt_iff] at h2' h4'
  simp only at h1 h2 h3 h4 h2' h4' ⊢
  exact ⟨h1.1, h2.2.1, h3.1, h4.2.1, h1.2.2, h2.2.2, h3.2.2, h4.2.2, h2', h4'⟩

theorem sqValid_spins (c : Consts κ) (vint : List (List (List (List κ)))) (q : SQ) (h : sqValid c vint q = true) :
    (q.1.2 = q.2.2.1.2 ∧ q.2.1.2 = q.2.2.2.2) ∨ (q.1.2 = q.2.2.2.2 ∧ q.2.1.2 = q.2.2.1.2) :=
  getVintCoeff_valid c vint _ _ _ _ _ h


section
variable (c : Consts κ) (vint : List (List (List (List κ)))) (L : Int)

theorem shopItems_mem (i j s : Int) (hi : 0 ≤ i) (hiL : i < L) (hj : 0 ≤ j) (hjL : j < L) (hs : s = 0 ∨ s = 1) :
    (i, j, s) ∈ shopItems L := by
  simp only [shopItems, mem_flatMap, mem_pyRange, mem_cons, not_mem_nil, or_false]
  refine ⟨i, ⟨hi, hiL⟩, j, ⟨hj, hjL⟩, ?_⟩
  rcases hs with rfl | rfl
  · exact Or.inl rfl
  · exact Or.inr rfl

theorem sintCands_mem (i s j t k m l u : Int) (hi : 0 ≤ i) (hjL : j < L) (hk : 0 ≤ k) (hlL : l < L)
    (hs : s = 0 ∨ s = 1) (ht : t = 0 ∨ t = 1) (hm : m = 0 ∨ m = 1) (hu : u = 0 ∨ u = 1)
    (hij : i < j ∨ (i = j ∧ s < t)) (hkl : k < l ∨ (k = l ∧ m < u)) :
    (((i, s), (j, t), (k, m), (l, u)) : SQ) ∈ sintCands L := by
  simp only [sintCands, mem_flatMap, mem_map, mem_filter]
  refine ⟨(i, s), mem_prodRS.2 ⟨hi, by omega, hs⟩, (j, t), ⟨mem_prodRS.2 ⟨by show i ≤ j; omega, hjL, ht⟩, (pLt_iff _ _).2 hij⟩,
    (k, m), mem_prodRS.2 ⟨hk, by omega, hm⟩, (l, u), ⟨mem_prodRS.2 ⟨by show k ≤ l; omega, hlL, hu⟩, (pLt_iff _ _).2 hkl⟩, rfl⟩

theorem sqValid_of_spins (q : SQ) (h : (q.1.2 = q.2.2.1.2 ∧ q.2.1.2 = q.2.2.2.2) ∨ (q.1.2 = q.2.2.2.2 ∧ q.2.1.2 = q.2.2.1.2)) :
    sqValid c vint q = true := by
  obtain ⟨⟨i, s⟩, ⟨j, t⟩, ⟨k, m⟩, ⟨l, u⟩⟩ := q
  simp only at h
  unfold sqValid getVintCoeff
  simp only
  rcases h with ⟨rfl, rfl⟩ | ⟨rfl, rfl⟩
  · by_cases h1 : (s == t && t == s) = true <;> simp [h1]
  · by_cases h1 : (s == t && t == s) = true <;> simp [h1]

end

/-- the letters on the `2 L` modes of the two kinds of terms -/
def shopFn (q : Int × Int × Int) : Nat → Int := hopF (md q.1 q.2.2).toNat (md q.2.1 q.2.2).toNat
def sintFn (q : SQ) : Nat → Int :=
  intF (md q.1.1 q.1.2).toNat (md q.2.1.1 q.2.1.2).toNat (md q.2.2.1.1 q.2.2.1.2).toNat (md q.2.2.2.1 q.2.2.2.2).toNat

/-- the formal sum the explicit graph denotes: one pair word per hopping call and per accepted interaction candidate -/
def sexplTerms (c : Consts κ) (tkin : List (List κ)) (vint : List (List (List (List κ)))) (L : Int) : Sym κ :=
  (shopItems L).map (fun q => (pw L.toNat (shopFn q), t2 tkin q.1 q.2.1)) ++
  (sintItems c vint L).map (fun q => (pw L.toNat (sintFn q), sqCoeff c vint q))


end Ptn.Ham

import PtnModel.Proofs.EvoDmrg
import PtnModel.Proofs.EvoStruct
/-!
# Single-site DMRG: final normalisation, complete sweeps, the driver

* `normalize_inv`  : the final `local_orthonormalize_right_qr` of the first tensor keeps norm one and the energy;
* `dmrg1Sweep_inv` : one complete sweep (`L ≥ 2`): the reported energy is the energy of the state after the sweep, at most
                     the energy before the sweep and at least every lower bound of the dense operator;
* `prologue_inv`   : the state after the prologue satisfies the invariant;
* `dmrg1_main`     : all clauses for `calculate_ground_state_local_singlesite`.
-/
set_option linter.unusedSectionVars false

namespace Ptn.Evo
open Ptn Ptn.BondOps Ptn.Ortho Ptn.Env Ptn.Krylov Ptn.Dense Finset

variable {𝕜 : Type} [RCLike 𝕜] [DecidableEq 𝕜]
local notation "conj" => starRingEnd 𝕜

/-! ## loops over index ranges -/

theorem foldIdx_append {σ : Type} (f : σ → Nat → Except Err σ) (l1 l2 : List Nat) (s r : σ) :
    foldIdx f (l1 ++ l2) s = .ok r ↔ ∃ t, foldIdx f l1 s = .ok t ∧ foldIdx f l2 t = .ok r := by
  unfold foldIdx
  rw [List.foldlM_append, bind_ok]

/-- ascending loop `for i in range(n)` -/
theorem foldIdx_range {σ : Type} (f : σ → Nat → Except Err σ) (P : Nat → σ → Prop) :
    ∀ (n : Nat), (∀ i, i < n → ∀ s s', P i s → f s i = .ok s' → P (i + 1) s') →
    ∀ (s r : σ), P 0 s → foldIdx f (List.range n) s = .ok r → P n r
  | 0, _, s, r, h0, hr => by
    unfold foldIdx at hr
    rw [List.range_zero, foldlM_ok_nil] at hr
    subst hr; exact h0
  | n + 1, step, s, r, h0, hr => by
    rw [List.range_succ, foldIdx_append] at hr
    obtain ⟨t, h1, h2⟩ := hr
    have ht := foldIdx_range f P n (fun i hi => step i (by omega)) s t h0 h1
    unfold foldIdx at h2
    rw [foldlM_ok_cons] at h2
    obtain ⟨t', h3, h4⟩ := h2
    rw [foldlM_ok_nil] at h4
    subst h4
    exact step n (by omega) t t' ht h3

/-- descending loop `for i in reversed(range(1, n+1))` -/
theorem foldIdx_down {σ : Type} (f : σ → Nat → Except Err σ) (P : Nat → σ → Prop) :
    ∀ (n : Nat), (∀ i, i < n → ∀ s s', P (i + 1) s → f s (i + 1) = .ok s' → P i s') →
    ∀ (s r : σ), P n s → foldIdx f ((List.range n).reverse.map (· + 1)) s = .ok r → P 0 r
  | 0, _, s, r, h0, hr => by
    unfold foldIdx at hr
    simp only [List.range_zero, List.reverse_nil, List.map_nil] at hr
    rw [foldlM_ok_nil] at hr
    subst hr; exact h0
  | n + 1, step, s, r, h0, hr => by
    rw [List.range_succ, List.reverse_append, List.reverse_singleton, List.singleton_append, List.map_cons] at hr
    unfold foldIdx at hr
    rw [foldlM_ok_cons] at hr
    obtain ⟨t, h1, h2⟩ := hr
    have ht := step n (by omega) s t h0 h1
    exact foldIdx_down f P n (fun i hi => step i (by omega)) t r ht h2

/-! ## scaling the centre tensor -/

omit [DecidableEq 𝕜] in
/-- the quadratic form of the effective operator and the Frobenius norm scale with `|r|²` -/
theorem local_scale {L R : T3 𝕜} {W : T4 𝕜} {X Y TX TY : T3 𝕜} {r : 𝕜}
    (hF : LocalFits L R W Y.d0 Y.d1 Y.d2) (x0 : X.d0 = Y.d0) (x1 : X.d1 = Y.d1) (x2 : X.d2 = Y.d2)
    (hXY : ∀ s a b, s < Y.d0 → a < Y.d1 → b < Y.d2 → X.f s a b = Y.f s a b * r)
    (hTX : Op.applyLocalHamiltonian L R W X = .ok TX) (hTY : Op.applyLocalHamiltonian L R W Y = .ok TY) :
    inner3 X TX = ((‖r‖ ^ 2 : ℝ) : 𝕜) * inner3 Y TY ∧ frob3 X = ‖r‖ ^ 2 * frob3 Y := by
  obtain ⟨T1, h1, a0, a1, a2, f1⟩ := applyLocal_ker hF (A := X) x0 x1 x2
  obtain ⟨T2, h2, b0, b1, b2, f2⟩ := applyLocal_ker hF (A := Y) rfl rfl rfl
  have e1 : T1 = TX := Except.ok.inj (h1.symm.trans hTX)
  have e2 : T2 = TY := Except.ok.inj (h2.symm.trans hTY)
  subst e1 e2
  have hT : ∀ s a b, s < Y.d0 → a < Y.d1 → b < Y.d2 → T1.f s a b = T2.f s a b * r := by
    intro s a b hs ha hb
    rw [f1 s a b hs ha hb, f2 s a b hs ha hb, Finset.sum_mul]
    refine sum_congr rfl fun s' hs' => ?_
    rw [Finset.sum_mul]
    refine sum_congr rfl fun a' ha' => ?_
    rw [Finset.sum_mul]
    refine sum_congr rfl fun b' hb' => ?_
    rw [hXY s' a' b' (mem_range.1 hs') (mem_range.1 ha') (mem_range.1 hb')]
    ring
  have hr : conj r * r = ((‖r‖ ^ 2 : ℝ) : 𝕜) := by rw [RCLike.conj_mul]; push_cast; rfl
  constructor
  · unfold inner3
    rw [a0, a1, a2, b0, b1, b2, Finset.mul_sum]
    refine sum_congr rfl fun s hs => ?_
    rw [Finset.mul_sum]
    refine sum_congr rfl fun a ha => ?_
    rw [Finset.mul_sum]
    refine sum_congr rfl fun b hb => ?_
    rw [hXY s a b (mem_range.1 hs) (mem_range.1 ha) (mem_range.1 hb),
      hT s a b (mem_range.1 hs) (mem_range.1 ha) (mem_range.1 hb), map_mul, ← hr]
    ring
  · unfold frob3
    rw [x0, x1, x2, Finset.mul_sum]
    refine sum_congr rfl fun s hs => ?_
    rw [Finset.mul_sum]
    refine sum_congr rfl fun a ha => ?_
    rw [Finset.mul_sum]
    refine sum_congr rfl fun b hb => ?_
    rw [hXY s a b (mem_range.1 hs) (mem_range.1 ha) (mem_range.1 hb), norm_mul]
    ring

/-! ## replacing the centre tensor together with charge lists of the same lengths -/

omit [DecidableEq 𝕜] in
theorem canon_replace' {H : MPO 𝕜} {qd : List Int} {s : Sweep 𝕜} {c : Nat} (h : Canon H qd s c) {X : T3 𝕜}
    (hX : X.d0 = (getA s c).d0 ∧ X.d1 = (getA s c).d1 ∧ X.d2 = (getA s c).d2) {qD' : Array (List Int)}
    (hsz : qD'.size = s.qD.size) (hQ : ∀ m, (qD'.getD m []).length = (getQ s m).length) :
    Canon H qd (⟨s.A.setIfInBounds c X, qD', s.BL, s.BR⟩ : Sweep 𝕜) c := by
  have hcs : c < s.A.size := by rw [h.wf.sizeA]; exact h.hc
  have hA : ∀ m, getA (⟨s.A.setIfInBounds c X, qD', s.BL, s.BR⟩ : Sweep 𝕜) m = if m = c then X else getA s m := by
    intro m
    show (s.A.setIfInBounds c X).getD m emptyT3 = _
    rw [getD_setIfInBounds]
    by_cases hm : m = c
    · rw [if_pos ⟨hm, hcs⟩, if_pos hm]
    · rw [if_neg (fun hh => hm hh.1), if_neg hm]; rfl
  have hQ' : ∀ m, (getQ (⟨s.A.setIfInBounds c X, qD', s.BL, s.BR⟩ : Sweep 𝕜) m).length = (getQ s m).length := hQ
  have hwf : SweepWf qd H.A.length (⟨s.A.setIfInBounds c X, qD', s.BL, s.BR⟩ : Sweep 𝕜) := by
    refine ⟨by simp [h.wf.sizeA], hsz.trans h.wf.sizeQ, fun i hi => by rw [hQ']; exact h.wf.qpos i hi, ?_⟩
    intro i hi
    rw [hA i, hQ' i, hQ' (i + 1)]
    by_cases h1 : i = c
    · subst h1
      rw [if_pos rfl, hX.1, hX.2.1, hX.2.2]
      exact h.wf.shape i hi
    · rw [if_neg h1]; exact h.wf.shape i hi
  have hlen : (cur qd (⟨s.A.setIfInBounds c X, qD', s.BL, s.BR⟩ : Sweep 𝕜)).A.length = (cur qd s).A.length := by
    simp
  have hL : 0 < H.A.length := by have := h.hc; omega
  have hq0 : (getQ (⟨s.A.setIfInBounds c X, qD', s.BL, s.BR⟩ : Sweep 𝕜) 0).length = 1 := by rw [hQ']; exact h.q0
  have hqL : (getQ (⟨s.A.setIfInBounds c X, qD', s.BL, s.BR⟩ : Sweep 𝕜) H.A.length).length = 1 := by
    rw [hQ']; exact h.qL
  have hcurA : (cur qd (⟨s.A.setIfInBounds c X, qD', s.BL, s.BR⟩ : Sweep 𝕜)).A = (cur qd s).A.set c X := by
    simp [cur]
  refine ⟨hwf, h.sizeBL, h.sizeBR, h.hc, hq0, hqL, ?_, ?_, ?_, ?_⟩
  · intro j hj
    rw [hA, if_neg (by omega)]; exact h.liso j hj
  · intro j hj hj'
    rw [hA, if_neg (by omega)]; exact h.riso j hj hj'
  · intro j hj
    have hc := h.hc
    refine isLeftBlock_congr ?_ (by rw [h.len]; omega) (by rw [hlen, h.len]; omega) (h.bl j hj)
    rw [hcurA, List.take_set_of_le hj]
  · intro j hj hj'
    refine isRightBlock_congr ?_ hlen ?_ (h.br j hj hj')
    · rw [hcurA, List.drop_set_of_lt (by omega)]
    · rw [mpsBond_cur hwf hL hq0 hqL (show j + 1 ≤ H.A.length by omega), h.bond (show j + 1 ≤ H.A.length by omega)]
      exact hQ' (j + 1)

variable {k : EvoKernels 𝕜 ℝ} {H : MPO 𝕜} {qd : List Int}

/-- **Final normalisation of the first tensor.** -/
theorem normalize_inv {numiter : Nat} (ctx : SweepCtx k H qd numiter) {s s' : Sweep 𝕜} {E : ℝ} (h : DInv H qd s 0 E)
    (hrun : dmrgNormalizeFirst k qd s = .ok s') : DInv H qd s' 0 E := by
  obtain ⟨A0, Xd, qb, hq, rfl⟩ := dmrgNormalizeFirst_unfold hrun
  obtain ⟨Q, R, qb', hqr, hRn, rfl, _, rfl⟩ := localRight_run hq
  have hL : 0 < H.A.length := h.can.hc
  obtain ⟨s0, s1, s2⟩ := h.can.wf.shape 0 hL
  have hq0 := h.can.q0
  have hm : 0 < (getA s 0).swap12.flattenLeft.tab.m := by
    show 0 < (getA s 0).d0 * (getA s 0).d2
    rw [s0, s2]; exact Nat.mul_pos ctx.dpos (h.can.wf.qpos 1 (by omega))
  have hn : 0 < (getA s 0).swap12.flattenLeft.tab.n := by
    show 0 < (getA s 0).d1
    rw [s1, hq0]; exact Nat.one_pos
  have hf := qr_facts ctx.qr.contract hm hn hqr
  have hqb : qb'.length = 1 := by
    have h1 := hf.le
    have h2 := hf.pos
    have e : (getA s 0).swap12.flattenLeft.tab.n = 1 := by show (getA s 0).d1 = 1; rw [s1, hq0]
    rw [e] at h1
    omega
  set A0 := (T3.ofFlattenLeft Q (getA s 0).d0 (getA s 0).d2).swap12.tab with hA0
  have hdims : A0.d0 = (getA s 0).d0 ∧ A0.d1 = (getA s 0).d1 ∧ A0.d2 = (getA s 0).d2 := by
    refine ⟨rfl, ?_, rfl⟩
    show Q.n = _
    rw [hf.Qn, hqb, s1, hq0]
  have hs0 : 0 < s.A.size := by rw [h.can.wf.sizeA]; exact hL
  -- the new state is canonical
  have hcan := canon_replace' h.can (X := A0) hdims (qD' := s.qD.setIfInBounds 0 (QN.neg qb')) (by simp)
    (fun m => by
      rw [getD_setIfInBounds]
      split
      · rename_i hm'
        rw [hm'.1, neg_len, hqb, hq0]
      · rfl)
  have hget : getA (⟨s.A.setIfInBounds 0 A0, s.qD.setIfInBounds 0 (QN.neg qb'), s.BL, s.BR⟩ : Sweep 𝕜) 0 = A0 :=
    getD_setIfInBounds_eq _ _ _ hs0
  -- local quantities
  obtain ⟨hF, _⟩ := canon_local h.can ctx.hH ctx.herm
  obtain ⟨hn1, he1⟩ := canon_centre hcan ctx.hH
  rw [hget] at hn1 he1
  obtain ⟨hn0, he0⟩ := canon_centre h.can ctx.hH
  have hF' : LocalFits (getBL s 0) (getBR s 0) (H.A.getD 0 zeroT4) A0.d0 A0.d1 A0.d2 := by
    rw [hdims.1, hdims.2.1, hdims.2.2]; exact hF
  obtain ⟨T1, hT1, _⟩ := applyLocal_ker hF' (A := A0) rfl rfl rfl
  obtain ⟨T0, hT0, _⟩ := applyLocal_ker hF (A := getA s 0) rfl rfl rfl
  -- `A_0 = A0 · r` with `r = R[0,0]`
  have hscale : ∀ a x b, a < A0.d0 → x < A0.d1 → b < A0.d2 → (getA s 0).f a x b = A0.f a x b * R.f 0 0 := by
    intro a x b ha hx hb
    have hx0 : x = 0 := by
      have : A0.d1 = 1 := by rw [hdims.2.1, s1, hq0]
      omega
    subst hx0
    have ha' : a < (getA s 0).d0 := ha
    have hb' : b < (getA s 0).d2 := hb
    have hr : a * (getA s 0).d2 + b < (getA s 0).d0 * (getA s 0).d2 := fused_lt ha' hb'
    have hp := hf.prod (a * (getA s 0).d2 + b) 0 hr hn
    rw [hqb, Finset.sum_range_one, Mat.tab_f (getA s 0).swap12.flattenLeft hr hn] at hp
    have e1 : (getA s 0).swap12.flattenLeft.f (a * (getA s 0).d2 + b) 0 = (getA s 0).f a 0 b := by
      show (getA s 0).f ((a * (getA s 0).d2 + b) / (getA s 0).d2) 0 ((a * (getA s 0).d2 + b) % (getA s 0).d2) = _
      rw [fused_div hb', fused_mod hb']
    rw [e1] at hp
    rw [← hp, hA0, Env.t3_tab_f (A := (T3.ofFlattenLeft Q (getA s 0).d0 (getA s 0).d2).swap12) ha hx hb]
    rfl
  obtain ⟨hsc1, hsc2⟩ := local_scale (X := getA s 0) (Y := A0) (r := R.f 0 0) hF' hdims.1.symm hdims.2.1.symm
    hdims.2.2.symm hscale hT0 hT1
  -- `‖A0‖² = 1` because `A0` is a right isometry with left bond dimension one
  have hfrobA0 : frob3 A0 = 1 := by
    have hiso := rightQR_iso hf
    have h00 := hiso 0 0 (by show 0 < Q.n; rw [hf.Qn, hqb]; exact Nat.one_pos)
      (by show 0 < Q.n; rw [hf.Qn, hqb]; exact Nat.one_pos)
    rw [if_pos rfl] at h00
    have hd1 : A0.d1 = 1 := by rw [hdims.2.1, s1, hq0]
    have : ((frob3 A0 : ℝ) : 𝕜) = 1 := by
      rw [← inner3_self]
      unfold inner3
      rw [hd1]
      simp only [Finset.sum_range_one]
      exact h00
    exact_mod_cast this
  have hfr0 : frob3 (getA s 0) = 1 := by
    have := hn0.symm.trans h.nrm
    exact_mod_cast this
  have hr1 : ‖R.f 0 0‖ ^ 2 = 1 := by
    rw [hfr0, hfrobA0, mul_one] at hsc2
    exact hsc2.symm
  refine ⟨hcan, by rw [hn1, hfrobA0]; simp, ?_⟩
  rw [he1 T1 hT1]
  have := he0 T0 hT0
  rw [hsc1, hr1, h.en] at this
  simpa using this.symm

/-! ## a complete sweep -/

/-- **One DMRG sweep** (`L ≥ 2`). -/
theorem dmrg1Sweep_inv {numiter : Nat} (ctx : SweepCtx k H qd numiter) (hL2 : 2 ≤ H.A.length) {s s' : Sweep 𝕜}
    {es es' : List ℝ} {E : ℝ} (h : DInv H qd s 0 E) (hrun : dmrg1Sweep k H qd numiter (s, es) = .ok (s', es')) :
    ∃ e, es' = es ++ [e] ∧ DInv H qd s' 0 e ∧ e ≤ E ∧ ∀ μ, DenseLower H qd.length μ → μ ≤ e := by
  obtain ⟨s1, e1, s2, e2, s3, h1, h2, h3, h4⟩ := dmrg1Sweep_unfold hrun
  injection h4 with h4a h4b
  subst h4a h4b
  dsimp only at h1
  -- left half
  have hleft := foldIdx_range (dmrg1Left k H qd numiter)
    (fun i (t : Sweep 𝕜 × ℝ) => ∃ E', DInv H qd t.1 i E' ∧ E' ≤ E ∧
      (0 < i → t.2 = E' ∧ ∀ μ, DenseLower H qd.length μ → μ ≤ t.2))
    (H.A.length - 1)
    (fun i hi t t' ht ht' => by
      obtain ⟨E', hinv, hle, _⟩ := ht
      obtain ⟨t1, t2⟩ := t
      obtain ⟨t1', t2'⟩ := t'
      obtain ⟨hinv', hle', hlow⟩ := dmrg1Left_inv ctx hinv (by omega) ht'
      exact ⟨t2', hinv', le_trans hle' hle, fun _ => ⟨rfl, hlow⟩⟩)
    (s, 0) (s1, e1) ⟨E, h, le_refl E, fun h0 => absurd h0 (lt_irrefl 0)⟩ h1
  obtain ⟨E1, hinv1, hle1, hpos1⟩ := hleft
  obtain ⟨hE1, hlow1⟩ := hpos1 (by omega)
  dsimp only at hE1 hlow1 hinv1
  -- right half
  have hright := foldIdx_down (dmrg1Right k H qd numiter)
    (fun i (t : Sweep 𝕜 × ℝ) => ∃ E', DInv H qd t.1 i E' ∧ E' ≤ E ∧ t.2 = E' ∧
      ∀ μ, DenseLower H qd.length μ → μ ≤ t.2)
    (H.A.length - 1)
    (fun i hi t t' ht ht' => by
      obtain ⟨E', hinv, hle, _, _⟩ := ht
      obtain ⟨t1, t2⟩ := t
      obtain ⟨t1', t2'⟩ := t'
      obtain ⟨hinv', hle', hlow⟩ := dmrg1Right_inv ctx hinv ht'
      exact ⟨t2', hinv', le_trans hle' hle, rfl, hlow⟩)
    (s1, e1) (s2, e2) ⟨E1, hinv1, hle1, hE1, hlow1⟩ h2
  obtain ⟨E2, hinv2, hle2, hE2, hlow2⟩ := hright
  dsimp only at hinv2 hE2 hlow2
  subst hE2
  exact ⟨e2, rfl, normalize_inv ctx hinv2 h3, hle2, hlow2⟩

/-! ## the state after the prologue -/

omit [DecidableEq 𝕜] in
theorem cur_init (ψ1 : MPS 𝕜) (BL BR : Array (T3 𝕜)) :
    cur ψ1.qd (⟨ψ1.A.toArray, ψ1.qD.toArray, BL, BR⟩ : Sweep 𝕜) = ψ1 := by
  cases ψ1; simp [cur]

/-- **The prologue establishes the invariant** (centre `0`, energy of the normalised start state). -/
theorem prologue_inv {numiter : Nat} (ctx : SweepCtx k H qd numiter) {ψ : MPS 𝕜} (hqd : ψ.qd = qd) (hadm : Admissible ψ) {s0 : Sweep 𝕜}
    {nrm : ℝ} (hp : prologue k H ψ = .ok (s0, nrm)) :
    ∃ ψ1 E0, MPS.orthonormalize (ρ := ℝ) k.dqr ψ false = .ok (ψ1, nrm) ∧ cur qd s0 = ψ1 ∧ DInv H qd s0 0 E0 := by
  obtain ⟨hHL, ψ1, BR, ho, hrb, _, rfl⟩ := prologue_unfold hp
  have ho' : MPS.orthonormalize (ρ := ℝ) k.dqr ψ false = .ok (ψ1, nrm) := ho
  obtain ⟨hadm1, hqd1, hlen1⟩ := C01.ortho_wf (dqr := k.dqr) ctx.qr.contract.shape hadm ho'
  have hq : ψ1.qd = qd := hqd1.trans hqd
  subst hq
  have hLen : ψ1.A.length = H.A.length := hlen1.trans hHL.symm
  have hsh1 : C04.MPS.Shaped ψ1 ψ1.qd.length := ⟨hadm1.nonempty, hadm1.chain3⟩
  have hLpos : 0 < H.A.length := by
    rw [← hLen]; exact List.length_pos_iff.2 hadm1.nonempty
  obtain ⟨BR', hrb', hBRlen, hBR⟩ := C04.right_blocks_dense hsh1 ctx.hH hLen
  have : BR' = BR := Except.ok.inj (hrb'.symm.trans hrb)
  subst this
  set s0 : Sweep 𝕜 := ⟨ψ1.A.toArray, ψ1.qD.toArray, (Array.replicate H.A.length emptyT3).setIfInBounds 0 ones111,
    BR'.toArray⟩ with hs0
  have hcur : cur ψ1.qd s0 = ψ1 := cur_init ψ1 _ _
  have hw0 := sweepWf_init hadm1 ((Array.replicate H.A.length emptyT3).setIfInBounds 0 ones111) BR'.toArray
  rw [hLen] at hw0
  obtain ⟨hl1, _⟩ := wf_index hadm1.wf
  have hgetQ : ∀ m, getQ s0 m = ψ1.qD.getD m [] := fun m => toArray_getD _ _ _
  have hgetA : ∀ m, getA s0 m = ψ1.A.getD m emptyT3 := fun m => toArray_getD _ _ _
  have hq0 : (getQ s0 0).length = 1 := by
    rw [hgetQ]
    have := hadm1.first
    rwa [List.head?_eq_getElem?, ← List.getD_eq_getElem?_getD] at this
  have hqL : (getQ s0 H.A.length).length = 1 := by
    rw [hgetQ]
    have := hadm1.last
    rw [getLast_getD, hl1, hLen] at this
    simpa using this
  have hcan : Canon H ψ1.qd s0 0 := by
    refine ⟨hw0, by simp [hs0], by simp [hs0, hBRlen, hLen], hLpos, hq0, hqL, ?_, ?_, ?_, ?_⟩
    · intro j hj; omega
    · intro j _ hj'
      rw [hgetA]
      have hj'' : j < ψ1.A.length := by rw [hLen]; exact hj'
      have hmem : ψ1.A.getD j emptyT3 ∈ ψ1.A := by
        rw [List.getD_eq_getElem?_getD, List.getElem?_eq_getElem hj'']
        exact List.getElem_mem hj''
      have := C01.ortho_isometry ctx.qr hadm ho' _ hmem
      simpa using this
    · intro j hj
      have hj0 : j = 0 := by omega
      subst hj0
      rw [hcur]
      have hb : getBL s0 0 = MPS.ones111 := by
        show ((Array.replicate H.A.length emptyT3).setIfInBounds 0 ones111).getD 0 emptyT3 = _
        rw [getD_setIfInBounds_eq _ _ _ (by simpa using hLpos)]
        rfl
      rw [hb]
      exact C04.left_block_zero_dense hsh1 ctx.hH hLen
    · intro j _ hj'
      rw [hcur]
      obtain ⟨E, hE, hEb⟩ := hBR j (by rw [hLen]; exact hj')
      have hb : getBR s0 j = E := by
        show BR'.toArray.getD j emptyT3 = E
        rw [toArray_getD, List.getD_eq_getElem?_getD, hE]; rfl
      rw [hb]; exact hEb
  -- norm one
  have hunit := C01.ortho_unit ctx.qr hadm ho'
  have hn : normSq (cur ψ1.qd s0) ψ1.qd.length = 1 := by
    rw [hcur, normSq_real, hqd1, hlen1, hunit]; simp
  -- the energy is real
  obtain ⟨hF, hHerm⟩ := canon_local hcan ctx.hH ctx.herm
  obtain ⟨_, he⟩ := canon_centre hcan ctx.hH
  obtain ⟨T, hT, _⟩ := applyLocal_ker hF (A := getA s0 0) rfl rfl rfl
  have hreal := hHerm (getA s0 0) (getA s0 0) T T rfl rfl rfl rfl rfl rfl hT hT
  have hre : ((RCLike.re (inner3 (getA s0 0) T) : ℝ) : 𝕜) = inner3 (getA s0 0) T :=
    RCLike.conj_eq_iff_re.1 hreal.symm
  exact ⟨ψ1, RCLike.re (inner3 (getA s0 0) T), ho', hcur, hcan, hn, by rw [he T hT, hre]⟩

/-! ## the driver -/

/-- invariant of the sweep loop of the driver -/
def SweepsOk (H : MPO 𝕜) (qd : List Int) (E0 : ℝ) (t : Sweep 𝕜 × List ℝ) : Prop :=
  ∃ E', DInv H qd t.1 0 E' ∧ E' ≤ E0 ∧ t.2.getLast?.getD E0 = E' ∧
    (∀ e ∈ t.2, E' ≤ e ∧ e ≤ E0 ∧ ∀ μ, DenseLower H qd.length μ → μ ≤ e) ∧ t.2.Pairwise (· ≥ ·)

theorem sweeps_inv {numiter : Nat} (ctx : SweepCtx k H qd numiter) (hL2 : 2 ≤ H.A.length) {E0 : ℝ} :
    ∀ (n : Nat) (t t' : Sweep 𝕜 × List ℝ), SweepsOk H qd E0 t →
      iterate (dmrg1Sweep k H qd numiter) n t = .ok t' → SweepsOk H qd E0 t' ∧ t'.2.length = t.2.length + n
  | 0, t, t', h, hr => by
    unfold iterate at hr
    injection hr with hr; subst hr
    exact ⟨h, rfl⟩
  | n + 1, t, t', h, hr => by
    unfold iterate at hr
    rw [bind_ok] at hr
    obtain ⟨t1, h1, h2⟩ := hr
    obtain ⟨E', hinv, hle, hlast, hall, hpw⟩ := h
    obtain ⟨s, es⟩ := t
    obtain ⟨s1, es1⟩ := t1
    obtain ⟨e, rfl, hinv1, hle1, hlow1⟩ := dmrg1Sweep_inv ctx hL2 hinv h1
    have hok : SweepsOk H qd E0 (s1, es ++ [e]) := by
      refine ⟨e, hinv1, le_trans hle1 hle, by simp, ?_, ?_⟩
      · intro x hx
        rcases List.mem_append.1 hx with hx | hx
        · obtain ⟨a, b, c⟩ := hall x hx
          exact ⟨le_trans hle1 a, b, c⟩
        · have : x = e := by simpa using hx
          subst this
          exact ⟨le_refl _, le_trans hle1 hle, hlow1⟩
      · rw [List.pairwise_append]
        refine ⟨hpw, List.pairwise_singleton _ _, ?_⟩
        intro a ha b hb
        have : b = e := by simpa using hb
        subst this
        exact le_trans hle1 (hall a ha).1
    obtain ⟨hfin, hlen⟩ := sweeps_inv ctx hL2 n (s1, es ++ [e]) t' hok h2
    refine ⟨hfin, ?_⟩
    rw [hlen]
    simp
    omega

/-- **Single-site DMRG**: all clauses. -/
theorem dmrg1_main {numiter : Nat} (ctx : SweepCtx k H qd numiter) (hL2 : 2 ≤ H.A.length) {ψ ψ' : MPS 𝕜} (hqd : ψ.qd = qd)
    (hadm : Admissible ψ) {numsweeps : Nat} {en : List ℝ}
    (h : dmrgSinglesite k H ψ numsweeps numiter = .ok (ψ', en)) :
    ∃ ψ1 nrm E0, MPS.orthonormalize (ρ := ℝ) k.dqr ψ false = .ok (ψ1, nrm) ∧
      energy ψ1 H qd.length = ((E0 : ℝ) : 𝕜) ∧
      en.length = numsweeps ∧
      normSq ψ' qd.length = 1 ∧
      energy ψ' H qd.length = ((en.getLast?.getD E0 : ℝ) : 𝕜) ∧
      (∀ e ∈ en, e ≤ E0 ∧ ∀ μ, DenseLower H qd.length μ → μ ≤ e) ∧
      en.Pairwise (· ≥ ·) := by
  obtain ⟨s0, nrm, s, hp, hit, rfl⟩ := dmrgSinglesite_unfold h
  obtain ⟨ψ1, E0, ho, hcur, hinv0⟩ := prologue_inv ctx hqd hadm hp
  rw [hqd] at hit
  obtain ⟨hfin, hlen⟩ := sweeps_inv ctx hL2 numsweeps (s0, []) (s, en)
    ⟨E0, hinv0, le_refl _, rfl, fun e he => absurd he (by simp), List.Pairwise.nil⟩ hit
  obtain ⟨E', hinv, hle, hlast, hall, hpw⟩ := hfin
  have htm : toMPS ψ s = cur qd s := by rw [← hqd]; rfl
  refine ⟨ψ1, nrm, E0, ho, by rw [← hcur]; exact hinv0.en, by simpa using hlen, ?_, ?_, ?_, hpw⟩
  · rw [htm]; exact hinv.nrm
  · rw [htm, hinv.en]
    dsimp only at hlast
    rw [hlast]
  · intro e he
    obtain ⟨_, b, c⟩ := hall e he
    exact ⟨b, c⟩

/-- the energy and the squared norm of the start state in terms of the orthonormalised state -/
theorem start_energy {dqr : Mat 𝕜 → Mat 𝕜 × Mat 𝕜} (hc : C01.QRKernel dqr) {ψ ψ1 : MPS 𝕜} {nrm : ℝ} (hadm : Admissible ψ)
    (ho : MPS.orthonormalize (ρ := ℝ) dqr ψ false = .ok (ψ1, nrm)) (H : MPO 𝕜) :
    energy ψ H ψ.qd.length = ((nrm ^ 2 : ℝ) : 𝕜) * energy ψ1 H ψ.qd.length ∧
    normSq ψ ψ.qd.length = ((nrm ^ 2 : ℝ) : 𝕜) * normSq ψ1 ψ.qd.length := by
  obtain ⟨_, _, hlen⟩ := C01.ortho_wf (dqr := dqr) hc.contract.shape hadm ho
  have hd := fun σ hσ => C01.ortho_dense hc hadm ho (s := σ) hσ
  unfold energy normSq
  rw [hlen]
  constructor
  · rw [Finset.mul_sum]
    refine sum_congr rfl fun σ hσ => ?_
    rw [Finset.mul_sum]
    refine sum_congr rfl fun τ hτ => ?_
    rw [← hd σ hσ, ← hd τ hτ, star_mul', RCLike.star_def, RCLike.conj_ofReal]
    push_cast
    ring
  · rw [Finset.mul_sum]
    refine sum_congr rfl fun σ hσ => ?_
    rw [← hd σ hσ, star_mul', RCLike.star_def, RCLike.conj_ofReal]
    push_cast
    ring

end Ptn.Evo

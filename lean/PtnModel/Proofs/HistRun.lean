import PtnModel.Model.Ops
/-!
# Histories: folding `Hist.step` over a list of operations (C02, C19)

`run p h` executes the history `h` (a list of pairs: kernels of the call, operation) on the pool `p` and stops at
the first error, exactly as the harness does (`harness/history.py`: "the model stops at its first error; the
implementation history stops at its first error, too").  Core Lean only.
-/
set_option linter.unusedSectionVars false
namespace Ptn.Hist

variable {α ρ : Type}

/-- a history: every call comes with the kernels it runs under (the harness substitutes different uninterpreted
kernels per call) -/
abbrev History (α ρ : Type) := List (StepKernels α ρ × HOp α ρ)

variable [OfNat α 0] [OfNat α 1] [Add α] [Mul α] [Sub α] [Neg α] [Div α] [DecidableEq α] [HasConj α]
  [RealLike ρ α] [OfNat ρ 0] [OfNat ρ 1] [Add ρ] [Mul ρ] [Div ρ] [Neg ρ] [NatCast ρ] [LT ρ] [DecidableEq ρ] [DecidableLT ρ]

/-- execute a history; the scalar outputs of the calls are dropped -/
def run (p : Pool α) : History α ρ → Except Err (Pool α)
  | [] => .ok p
  | (k, op) :: h =>
    match step k p op with
    | .ok (p', _) => run p' h
    | .error e => .error e

@[simp] theorem run_nil (p : Pool α) : run (ρ := ρ) p [] = .ok p := rfl

theorem run_cons_ok {p p' : Pool α} {k : StepKernels α ρ} {op : HOp α ρ} {h : History α ρ} :
    run p ((k, op) :: h) = .ok p' ↔ ∃ p1 out, step k p op = .ok (p1, out) ∧ run p1 h = .ok p' := by
  simp only [run]
  cases hs : step k p op with
  | error e => simp
  | ok r =>
    obtain ⟨p1, out⟩ := r
    simp

theorem run_append_ok {p p' : Pool α} {h1 h2 : History α ρ} :
    run p (h1 ++ h2) = .ok p' ↔ ∃ p1, run p h1 = .ok p1 ∧ run p1 h2 = .ok p' := by
  induction h1 generalizing p with
  | nil => simp
  | cons kop h1 ih =>
    obtain ⟨k, op⟩ := kop
    rw [List.cons_append, run_cons_ok]
    constructor
    · rintro ⟨p1, out, hs, hr⟩
      obtain ⟨p2, h2', h3⟩ := ih.1 hr
      exact ⟨p2, run_cons_ok.2 ⟨p1, out, hs, h2'⟩, h3⟩
    · rintro ⟨p2, hr, h3⟩
      obtain ⟨p1, out, hs, h2'⟩ := run_cons_ok.1 hr
      exact ⟨p1, out, hs, ih.2 ⟨p2, h2', h3⟩⟩

end Ptn.Hist

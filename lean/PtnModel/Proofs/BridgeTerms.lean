import Mathlib.Data.List.Dedup
import PtnModel.Proofs.BridgeElem
import PtnModel.Proofs.BridgeWords
import PtnModel.Proofs.DenseSparseEq
/-!
# The dense matrix of the MPO compiled from an operator graph, as a sum over terms

`MPO.DenseIs o d n F`   : the complete dense picture of the MPO `o`: it is shaped (`n ≥ 1` sites of physical dimension `d`,
                          boundary bonds 1), its matrix elements `o.elem s t` are `F s t`, and both paths of `as_matrix()`
                          return the `d^n × d^n` matrix with entry `F s t` at the row-major positions of `(s, t)`;
`fromOpgraph_denseIs`   : `MPO.from_opgraph` of a consistent single-sink graph whose denotation is, word by word, the
                          coefficient of the word in a list of terms: `F s t = Σ_{(v, c) ∈ terms} c · Π_k opmap[v_k][s_k][t_k]`.
-/
set_option linter.unusedSectionVars false

namespace Ptn

/-- the dense picture of an MPO: shape, matrix elements, and the two paths of `as_matrix()` -/
structure MPO.DenseIs {κ : Type} [CommRing κ] (o : MPO κ) (d n : Nat) (F : List Nat → List Nat → κ) : Prop where
  shaped : MPO.Shaped o d
  sites : o.A.length = n
  elem : ∀ s t, Digits d n s → Digits d n t → o.elem s t = F s t
  as_matrix : ∃ m, o.asMatrix = .ok m ∧ m.m = d ^ n ∧ m.n = d ^ n ∧
    ∀ s t, Digits d n s → Digits d n t → m.f (flat d s) (flat d t) = F s t
  as_matrix_sparse : ∃ m, o.asMatrixSparse = .ok m ∧ m.m = d ^ n ∧ m.n = d ^ n ∧
    ∀ s t, Digits d n s → Digits d n t → m.f (flat d s) (flat d t) = F s t

theorem MPO.denseIs_of_elem {κ : Type} [CommRing κ] (o : MPO κ) (d n : Nat) (F : List Nat → List Nat → κ)
    (ho : MPO.Shaped o d) (hn : o.A.length = n) (hd : 0 < d) (hpos : ∀ A ∈ o.A, 0 < A.d2)
    (he : ∀ s t, Digits d n s → Digits d n t → o.elem s t = F s t) : MPO.DenseIs o d n F := by
  subst hn
  obtain ⟨m, hm⟩ := MPO.asMatrix_ok o d ho
  obtain ⟨m1, m2, m3⟩ := MPO.asMatrix_elem o d ho m hm
  obtain ⟨ms, hms, s1, s2, s3⟩ := MPO.asMatrixSparse_elem o d ho (Or.inl hd) hpos
  exact ⟨ho, rfl, he, ⟨m, hm, m1, m2, fun s t hs ht => by rw [m3 s t hs ht, he s t hs ht]⟩,
    ⟨ms, hms, s1, s2, fun s t hs ht => by rw [s3 s t hs ht, he s t hs ht]⟩⟩

theorem MPO.DenseIs.congr {κ : Type} [CommRing κ] {o : MPO κ} {d n : Nat} {F G : List Nat → List Nat → κ}
    (h : MPO.DenseIs o d n F) (hFG : ∀ s t, Digits d n s → Digits d n t → F s t = G s t) : MPO.DenseIs o d n G := by
  obtain ⟨h1, h2, h3, ⟨m, a1, a2, a3, a4⟩, ⟨ms, b1, b2, b3, b4⟩⟩ := h
  exact ⟨h1, h2, fun s t hs ht => by rw [h3 s t hs ht, hFG s t hs ht],
    ⟨m, a1, a2, a3, fun s t hs ht => by rw [a4 s t hs ht, hFG s t hs ht]⟩,
    ⟨ms, b1, b2, b3, fun s t hs ht => by rw [b4 s t hs ht, hFG s t hs ht]⟩⟩

namespace Ch
open Ptn Ptn.Og List

variable {κ : Type} [CommRing κ] [DecidableEq κ]

/-- **`from_opgraph`, sum over words.**  Consistent graph of length `n ≥ 1` with the end node as only sink, `d × d` operator
map, `ids` a duplicate-free list containing all operator ids of the graph. -/
theorem fromOpgraph_denseIs_words (qd : List Int) (g : Graph κ) (opmap : OpMap κ) (on : Bool) (out : MpoOut κ)
    (h : fromOpgraph qd g opmap on = .ok out) (hc : g.isConsistent = true) (hs : SingleSink g)
    (n : Nat) (hlen : g.length = .ok n) (hn : 1 ≤ n) (hw : OpMapWF opmap qd.length)
    (ids : List Int) (hids : ∀ p ∈ g.edges, ∀ q ∈ p.2.opics, q.1 ∈ ids) (hnd : ids.Nodup) :
    MPO.DenseIs (out.toMPO qd) qd.length n
      (fun s t => ((wordsOver ids n).map fun w => g.denF w * wordWeight opmap w s t).sum) := by
  obtain ⟨hsh, hA, hpos, hel⟩ := fromOpgraph_elem qd g opmap on out h hc hs n hlen hn
  obtain ⟨hd, _⟩ := fromOpgraph_spec qd g opmap on out h
  apply MPO.denseIs_of_elem _ _ _ _ hsh hA hd hpos
  intro s t hs' ht'
  obtain ⟨_, _, ft⟩ := isConsistent_facts g hc
  obtain ⟨nd, hn1, hn2⟩ := ft true
  rw [hel hw s t hs' ht',
    denseFrom_words g opmap ids hids hnd ⟨nd, hn1, by simpa [Node.eids] using hn2⟩ s t _ (by rw [hs'.1, ht'.1]), hs'.1]
  rfl

/-- dense matrix element of a formal sum of words: `Σ_{(v, c) ∈ terms} c · Π_k opmap[v_k][s_k][t_k]` -/
def termsEntry (opmap : OpMap κ) (terms : List (Word × κ)) (s t : List Nat) : κ :=
  (terms.map fun p => p.2 * wordWeight opmap p.1 s t).sum

/-- all operator ids on the edges of a graph -/
def graphIds (g : Graph κ) : List Int := g.edges.flatMap fun p => p.2.opics.map (·.1)

/-- **`from_opgraph`, sum over terms.**  If the graph denotes, on every word of length `n`, the formal sum `terms`, then the
matrix element of the MPO at `(s, t)` is `Σ_{(v, c) ∈ terms} c · Π_k opmap[v_k][s_k][t_k]`. -/
theorem fromOpgraph_denseIs (qd : List Int) (g : Graph κ) (opmap : OpMap κ) (on : Bool) (out : MpoOut κ)
    (h : fromOpgraph qd g opmap on = .ok out) (hc : g.isConsistent = true) (hs : SingleSink g)
    (n : Nat) (hlen : g.length = .ok n) (hn : 1 ≤ n) (hw : OpMapWF opmap qd.length)
    (terms : List (Word × κ))
    (hden : ∀ w : Word, w.length = n → g.denF w = (terms.map fun p => if p.1 = w then p.2 else 0).sum) :
    MPO.DenseIs (out.toMPO qd) qd.length n (termsEntry opmap terms) := by
  let ids : List Int := (graphIds g ++ terms.flatMap (·.1)).dedup
  have hids : ∀ p ∈ g.edges, ∀ q ∈ p.2.opics, q.1 ∈ ids := by
    intro p hp q hq
    apply mem_dedup.2
    apply mem_append_left
    exact mem_flatMap.2 ⟨p, hp, mem_map_of_mem hq⟩
  have hall : ∀ p ∈ terms, ∀ o ∈ p.1, o ∈ ids := by
    intro p hp o ho
    apply mem_dedup.2
    apply mem_append_right
    exact mem_flatMap.2 ⟨p, hp, ho⟩
  have hnd : ids.Nodup := nodup_dedup _
  apply (fromOpgraph_denseIs_words qd g opmap on out h hc hs n hlen hn hw ids hids hnd).congr
  intro s t hs' _
  rw [← hs'.1]
  unfold termsEntry
  rw [← sum_words_terms terms ids hnd hall opmap s t]
  apply sum_map_congr
  intro w hw
  rw [hden w (by rw [((mem_wordsOver ids _ _).1 hw).1, hs'.1])]

end Ch
end Ptn

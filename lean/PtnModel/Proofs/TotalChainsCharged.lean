import PtnModel.Proofs.ChainMain
import PtnModel.Proofs.ChainOk
import PtnModel.Proofs.TotalOpgraph
/-!
# `from_opchains` on charge-consistent chains yields a charge-consistent graph

`chOK P oids qnums`: every position `k` of the chain satisfies `P oids[k] qnums[k] qnums[k+1]` (for an arbitrary predicate
`P` on (operator id, left bond charge, right bond charge)).
`CInv P s`: the invariant of the sweep of `from_opchains`: every half-chain still to be emitted is `chOK`, every edge built so far
connects two nodes whose quantum numbers `q0`, `q1` satisfy `P oid q0 q1` for every operator on the edge.
`fromOpchains_opsCharged`: hence the graph returned for well-formed charge-consistent chains satisfies `OpsCharged`.
-/
set_option linter.unusedSectionVars false

namespace Ptn.Ch
open Ptn Ptn.Og List

variable {κ : Type} [CommRing κ] [DecidableEq κ]

/-! ## charged chains -/

/-- every operator of the chain is compatible (`P`) with the bond charges left and right of it -/
def chOK (P : Int → Int → Int → Prop) : List Int → List Int → Prop
  | o :: os, q0 :: q1 :: qs => P o q0 q1 ∧ chOK P os (q1 :: qs)
  | _, _ => True

theorem chOK_of_index (P : Int → Int → Int → Prop) : ∀ (oids qnums : List Int),
    (∀ k, k < oids.length → P (oids.getD k 0) (qnums.getD k 0) (qnums.getD (k + 1) 0)) → chOK P oids qnums := by
  intro oids
  induction oids with
  | nil => intro qnums _; cases qnums <;> trivial
  | cons o os ih =>
    intro qnums h
    match qnums with
    | [] => trivial
    | [_] => trivial
    | q0 :: q1 :: qs =>
      refine ⟨by simpa using h 0 (by simp), ih (q1 :: qs) ?_⟩
      intro k hk
      have := h (k + 1) (by simp; omega)
      simpa using this

theorem chOK_replicate (P : Int → Int → Int → Prop) (id : Int) (h : P id 0 0) :
    ∀ n : Nat, chOK P (replicate n id) (replicate (n + 1) 0) := by
  intro n
  induction n with
  | zero => trivial
  | succ n ih =>
    rw [replicate_succ, replicate_succ (n := n + 1), replicate_succ]
    refine ⟨h, ?_⟩
    rw [← replicate_succ]
    exact ih

theorem chOK_append (P : Int → Int → Int → Prop) : ∀ (a qa b qb : List Int) (x : Int),
    chOK P a (qa ++ [x]) → qa.length = a.length → chOK P b (x :: qb) → chOK P (a ++ b) (qa ++ x :: qb) := by
  intro a
  induction a with
  | nil =>
    intro qa b qb x _ hl hb
    have : qa = [] := by simpa using hl
    subst this
    simpa using hb
  | cons o os ih =>
    intro qa b qb x ha hl hb
    match qa, hl with
    | [q0], hl =>
      have : os = [] := by simpa using hl.symm
      subst this
      simp only [cons_append, nil_append] at ha ⊢
      exact ⟨ha.1, hb⟩
    | q0 :: q1 :: qs, hl =>
      simp only [cons_append] at ha ⊢
      refine ⟨ha.1, ?_⟩
      have := ih (q1 :: qs) b qb x (by simpa using ha.2) (by simpa using hl) hb
      simpa using this

theorem chOK_tail (P : Int → Int → Int → Prop) (o : Int) (os : List Int) (q : Int) (qs : List Int)
    (h : chOK P (o :: os) (q :: qs)) : chOK P os qs := by
  cases qs with
  | nil => cases os <;> trivial
  | cons q1 qs => exact h.2

/-! ## the partition -/

theorem partitionStep_charged (P : Int → Int → Int → Prop) (p p' : Partition κ) (chain : HalfChain) (coeff : κ)
    (h : partitionStep p chain coeff = .ok p') (hc : 0 ≤ chain.nidl ∧ chOK P chain.oids chain.qnums)
    (hU : ∀ u ∈ p.ulist, 0 ≤ u.nidl ∧ P u.oid u.qnum0 u.qnum1) (hV : ∀ v ∈ p.vlist, chOK P v.oids v.qnums) :
    (∀ u ∈ p'.ulist, 0 ≤ u.nidl ∧ P u.oid u.qnum0 u.qnum1) ∧ (∀ v ∈ p'.vlist, chOK P v.oids v.qnums) := by
  unfold partitionStep at h
  simp only [bind_ok_iff, pyIdx_ok_iff, halfChain_mk'_ok_iff] at h
  obtain ⟨oid0, ho, q0, hq0, q1, hq1, v, ⟨_, hv⟩, h⟩ := h
  have hu0 : P oid0 q0 q1 ∧ chOK P (chain.oids.drop 1) (chain.qnums.drop 1) := by
    obtain ⟨_, hch⟩ := hc
    match hl : chain.oids, hm : chain.qnums with
    | [], _ => rw [hl] at ho; simp at ho
    | _ :: _, [] => rw [hm] at hq0; simp at hq0
    | _ :: _, [_] => rw [hm] at hq1; simp at hq1
    | o :: os, a :: b :: qs =>
      rw [hl] at ho; rw [hm] at hq0 hq1
      simp only [getElem?_cons_zero, Option.some.injEq, getElem?_cons_succ] at ho hq0 hq1
      subst ho hq0 hq1
      rw [hl, hm] at hch
      exact ⟨hch.1, by simpa using hch.2⟩
  generalize hcu : (if p.ulist.contains (⟨oid0, q0, q1, chain.nidl⟩ : UNode) then (p.ulist, p.ulist.idxOf ⟨oid0, q0, q1, chain.nidl⟩)
      else (p.ulist ++ [⟨oid0, q0, q1, chain.nidl⟩], p.ulist.length)) = cu at h
  generalize hcv : (if p.vlist.contains v then (p.vlist, p.vlist.idxOf v) else (p.vlist ++ [v], p.vlist.length)) = cv at h
  have hUV : (∀ u ∈ cu.1, 0 ≤ u.nidl ∧ P u.oid u.qnum0 u.qnum1) ∧ (∀ v' ∈ cv.1, chOK P v'.oids v'.qnums) := by
    constructor
    · intro u hu
      rw [← hcu] at hu
      split at hu
      · exact hU u hu
      · rcases mem_append.1 hu with hu | hu
        · exact hU u hu
        · simp only [mem_singleton] at hu
          subst hu
          exact ⟨hc.1, hu0.1⟩
    · intro v' hv'
      rw [← hcv] at hv'
      split at hv'
      · exact hV v' hv'
      · rcases mem_append.1 hv' with hv' | hv'
        · exact hV v' hv'
        · simp only [mem_singleton] at hv'
          subst hv' hv
          exact hu0.2
  obtain ⟨ulist', i⟩ := cu
  obtain ⟨vlist', j⟩ := cv
  simp only at h hUV
  split at h
  · simp only [pure_ok_iff] at h; subst h; exact hUV
  · simp only [pure_ok_iff] at h; subst h; exact hUV

theorem sitePartition_charged (P : Int → Int → Int → Prop) (hs : List HalfChain) (cs : List κ) (p : Partition κ)
    (h : sitePartition hs cs = .ok p) (hc : ∀ x ∈ hs, 0 ≤ x.nidl ∧ chOK P x.oids x.qnums) :
    (∀ u ∈ p.ulist, 0 ≤ u.nidl ∧ P u.oid u.qnum0 u.qnum1) ∧ (∀ v ∈ p.vlist, chOK P v.oids v.qnums) := by
  unfold sitePartition at h
  have key : ∀ (l : List (HalfChain × κ)) (p0 p1 : Partition κ),
      l.foldlM (fun p (cc : HalfChain × κ) => partitionStep p cc.1 cc.2) p0 = .ok p1 →
      (∀ cc ∈ l, 0 ≤ cc.1.nidl ∧ chOK P cc.1.oids cc.1.qnums) →
      ((∀ u ∈ p0.ulist, 0 ≤ u.nidl ∧ P u.oid u.qnum0 u.qnum1) ∧ (∀ v ∈ p0.vlist, chOK P v.oids v.qnums)) →
      ((∀ u ∈ p1.ulist, 0 ≤ u.nidl ∧ P u.oid u.qnum0 u.qnum1) ∧ (∀ v ∈ p1.vlist, chOK P v.oids v.qnums)) := by
    intro l
    induction l with
    | nil => intro p0 p1 h _ h0; simp only [foldlM_nil, pure_ok_iff] at h; subst h; exact h0
    | cons cc l ih =>
      intro p0 p1 h hl h0
      simp only [foldlM_cons, bind_ok_iff] at h
      obtain ⟨pm, h1, h2⟩ := h
      exact ih pm p1 h2 (fun x hx => hl x (by simp [hx]))
        (partitionStep_charged P p0 pm cc.1 cc.2 h1 (hl cc (by simp)) h0.1 h0.2)
  exact key _ _ _ h (fun cc hcc => hc cc.1 (of_mem_zip hcc).1) ⟨by simp, by simp⟩

/-! ## quantum numbers of nodes under the dictionary updates of the sweep -/

/-- the quantum number stored under `x` in a node dictionary -/
def nq (nodes : List (Int × Node)) (x : Int) : Option Int := (dGet? nodes x).map (·.qnum)

theorem nq_dReplace (nodes : List (Int × Node)) (a : Int) (n n' : Node) (h1 : dGet? nodes a = some n)
    (hq : n'.qnum = n.qnum) (x : Int) : nq (dReplace nodes a n') x = nq nodes x := by
  unfold nq
  rw [dGet?_dReplace]
  by_cases hx : x = a
  · subst hx; simp [h1, hq]
  · simp [hx]

theorem nq_append (nodes : List (Int × Node)) (nn : Int) (new : Node) (hf : dHas nodes nn = false) (x : Int) :
    nq (nodes ++ [(nn, new)]) x = if x = nn then some new.qnum else nq nodes x := by
  unfold nq
  rw [dGet?_append]
  by_cases hx : x = nn
  · subst hx
    have : dGet? nodes x = none := by
      rw [dHas_eq_isSome] at hf
      cases h : dGet? nodes x with
      | none => rfl
      | some _ => rw [h] at hf; cases hf
    simp [this]
  · simp [hx]

theorem nq_append_old (nodes : List (Int × Node)) (nn : Int) (new : Node) (hf : dHas nodes nn = false) (x : Int) (q : Int)
    (h : nq nodes x = some q) : nq (nodes ++ [(nn, new)]) x = some q := by
  rw [nq_append nodes nn new hf]
  by_cases hx : x = nn
  · subst hx
    unfold nq at h
    rw [dHas_eq_isSome] at hf
    cases h' : dGet? nodes x with
    | none => rw [h'] at h; cases h
    | some _ => rw [h'] at hf; cases hf
  · rw [if_neg hx]; exact h

/-! ## the invariant -/

/-- the edge connects two existing nodes (never the dummy node) whose charges are compatible with every operator on it -/
def EOK (P : Int → Int → Int → Prop) (nodes : List (Int × Node)) (e : Edge κ) : Prop :=
  e.nids.1 ≠ -1 ∧ e.nids.2 ≠ -1 ∧
    ∀ oc ∈ e.opics, ∃ q0 q1, nq nodes e.nids.1 = some q0 ∧ nq nodes e.nids.2 = some q1 ∧ P oc.1 q0 q1

theorem EOK.mono {P : Int → Int → Int → Prop} {nodes nodes' : List (Int × Node)} {e : Edge κ} (h : EOK P nodes e)
    (hm : ∀ x q, nq nodes x = some q → nq nodes' x = some q) : EOK P nodes' e := by
  obtain ⟨h1, h2, h3⟩ := h
  refine ⟨h1, h2, ?_⟩
  intro oc hoc
  obtain ⟨q0, q1, a, b, c⟩ := h3 oc hoc
  exact ⟨q0, q1, hm _ _ a, hm _ _ b, c⟩

structure CInv (P : Int → Int → Int → Prop) (s : ChState κ) : Prop where
  pos : 1 ≤ s.nidNext
  hc : ∀ h ∈ s.vlistNext, 0 ≤ h.nidl ∧ chOK P h.oids h.qnums
  ed : ∀ e ∈ edgeList s.graph, EOK P s.graph.nodes e

theorem uCoverStep_charged (P : Int → Int → Int → Prop) (ulist : List UNode) (vlist : List HalfChain)
    (gamma : List ((Nat × Nat) × κ)) (adjU : List (List Nat)) (s s' : ChState κ) (i : Nat)
    (h : uCoverStep ulist vlist gamma adjU s i = .ok s') (hI : CInv P s)
    (hU : ∀ u ∈ ulist, 0 ≤ u.nidl ∧ P u.oid u.qnum0 u.qnum1) (hV : ∀ v ∈ vlist, chOK P v.oids v.qnums) :
    CInv P s' := by
  obtain ⟨u, nodePrev, items, hu, _, hnp, _, hq, hfresh, hit, _, hg, hn, _, hvl, _, _⟩ :=
    uCoverStep_spec ulist vlist gamma adjU s s' i h
  obtain ⟨hu0, huP⟩ := hU u (mem_of_getElem? hu)
  have hpos := hI.pos
  have hmono : ∀ x q, nq s.graph.nodes x = some q → nq s'.graph.nodes x = some q := by
    intro x q hx
    rw [hg]
    apply nq_append_old _ _ _ (by rw [dHas_dReplace]; exact hfresh)
    rw [nq_dReplace _ _ nodePrev _ hnp (by simp [Node.setEids])]
    exact hx
  refine ⟨by rw [hn]; omega, ?_, ?_⟩
  · intro h' hh'
    rw [hvl, mem_append] at hh'
    rcases hh' with hh' | hh'
    · exact hI.hc h' hh'
    · obtain ⟨t, ht, rfl⟩ := mem_map.1 hh'
      exact ⟨by simp only [reattach]; omega, hV t.2.1 (mem_of_getElem? (hit t ht).1)⟩
  · intro e he
    have hel : edgeList s'.graph = edgeList s.graph ++ [⟨s.eidNext, (u.nidl, s.nidNext), [(u.oid, 1)]⟩] := by
      rw [hg]; simp [edgeList]
    rw [hel, mem_append] at he
    rcases he with he | he
    · exact (hI.ed e he).mono hmono
    · simp only [mem_singleton] at he
      subst he
      refine ⟨by simp only; omega, by simp only; omega, ?_⟩
      intro oc hoc
      simp only [mem_singleton] at hoc
      subst hoc
      refine ⟨u.qnum0, u.qnum1, ?_, ?_, huP⟩
      · apply hmono
        unfold nq; rw [hnp]; simp [hq]
      · rw [hg]
        simp only
        rw [nq_append _ _ _ (by rw [dHas_dReplace]; exact hfresh), if_pos rfl]

theorem vInner_charged (P : Int → Int → Int → Prop) (ulist : List UNode) (gamma : List ((Nat × Nat) × κ)) (j : Nat)
    (nid : Int) (t t' : ChState κ) (i : Nat) (h : vInner ulist gamma j nid t i = .ok t') (hI : CInv P t)
    (hU : ∀ u ∈ ulist, 0 ≤ u.nidl ∧ P u.oid u.qnum0 u.qnum1) (hnid : 1 ≤ nid) : CInv P t' := by
  rcases vInner_step ulist gamma j nid t t' i h with ⟨_, rfl⟩ | ⟨_, u, c, n1, n2, hu, _, _, hn1, _, hq1, hn2, _, hq2,
    hg, hn, _, hvl, _, _⟩
  · exact hI
  · obtain ⟨hu0, huP⟩ := hU u (mem_of_getElem? hu)
    have hnq : ∀ x, nq t'.graph.nodes x = nq t.graph.nodes x := by
      intro x
      rw [hg]
      simp only
      rw [nq_dReplace _ _ n2 _ hn2 (by simp [Node.setEids]), nq_dReplace _ _ n1 _ hn1 (by simp [Node.setEids])]
    refine ⟨by rw [hn]; exact hI.pos, by rw [hvl]; exact hI.hc, ?_⟩
    intro e he
    have hel : edgeList t'.graph = edgeList t.graph ++ [⟨t.eidNext, (u.nidl, nid), [(u.oid, c)]⟩] := by
      rw [hg]; simp [edgeList]
    rw [hel, mem_append] at he
    rcases he with he | he
    · exact (hI.ed e he).mono (fun x q hx => by rw [hnq]; exact hx)
    · simp only [mem_singleton] at he
      subst he
      refine ⟨by simp only; omega, by simp only; omega, ?_⟩
      intro oc hoc
      simp only [mem_singleton] at hoc
      subst hoc
      refine ⟨u.qnum0, u.qnum1, ?_, ?_, huP⟩
      · rw [hnq]; unfold nq; rw [hn1]; simp [hq1]
      · rw [hnq]
        simp only
        rw [← nq_dReplace _ _ n1 (n1.setEids true (n1.eidsOut ++ [t.eidNext])) hn1 (by simp [Node.setEids])]
        unfold nq; rw [hn2]; simp [hq2]

theorem foldlM_preserve {α β : Type} (f : β → α → Except Err β) (I : β → Prop)
    (hstep : ∀ a b b', I b → f b a = .ok b' → I b') : ∀ (l : List α) (b0 b : β), l.foldlM f b0 = .ok b → I b0 → I b := by
  intro l
  induction l with
  | nil => intro b0 b h h0; simp only [foldlM_nil, pure_ok_iff] at h; subst h; exact h0
  | cons a l ih =>
    intro b0 b h h0
    simp only [foldlM_cons, bind_ok_iff] at h
    obtain ⟨b1, h1, h2⟩ := h
    exact ih b1 b h2 (hstep a b0 b1 h0 h1)

theorem vCoverStep_charged (P : Int → Int → Int → Prop) (ulist : List UNode) (vlist : List HalfChain)
    (gamma : List ((Nat × Nat) × κ)) (adjV : List (List Nat)) (s s' : ChState κ) (j : Nat)
    (h : vCoverStep ulist vlist gamma adjV s j = .ok s') (hI : CInv P s)
    (hU : ∀ u ∈ ulist, 0 ≤ u.nidl ∧ P u.oid u.qnum0 u.qnum1) (hV : ∀ v ∈ vlist, chOK P v.oids v.qnums) :
    CInv P s' := by
  obtain ⟨v, q, adj, hv, _, hfresh, _, hfold⟩ := vCoverStep_spec ulist vlist gamma adjV s s' j h
  have hpos := hI.pos
  refine foldlM_preserve (vInner ulist gamma j s.nidNext) (CInv P)
    (fun i t t' hIt ht => vInner_charged P ulist gamma j s.nidNext t t' i ht hIt hU hpos) adj _ s' hfold ?_
  refine ⟨by simp only; omega, ?_, ?_⟩
  · intro h' hh'
    simp only [mem_append, mem_singleton] at hh'
    rcases hh' with hh' | rfl
    · exact hI.hc h' hh'
    · exact ⟨by simp only [reattach]; omega, hV v (mem_of_getElem? hv)⟩
  · intro e he
    have he' : e ∈ edgeList s.graph := he
    exact (hI.ed e he').mono (fun x q' hx => nq_append_old _ _ _ hfresh x q' hx)

theorem siteStep_charged (P : Int → Int → Int → Prop) (s s' : ChState κ) (h : siteStep s = .ok s') (hI : CInv P s) :
    CInv P s' := by
  unfold siteStep at h
  simp only [bind_ok_iff, pyAssert_ok_iff, pure_ok_iff] at h
  obtain ⟨p, hp, bg, _, ⟨uc, vc⟩, _, s1, h1, s2, h2, _, _, rfl⟩ := h
  obtain ⟨hU, hV⟩ := sitePartition_charged P _ _ p hp hI.hc
  have I0 : CInv P ({ s with vlistNext := [], coeffsNext := [], edges := p.edges } : ChState κ) :=
    ⟨hI.pos, by simp, hI.ed⟩
  have I1 := foldlM_preserve _ (CInv P)
    (fun i t t' hIt ht => uCoverStep_charged P p.ulist p.vlist p.gamma bg.adjU t t' i ht hIt hU hV) uc _ s1 h1 I0
  exact foldlM_preserve _ (CInv P)
    (fun j t t' hIt ht => vCoverStep_charged P p.ulist p.vlist p.gamma bg.adjV t t' j ht hIt hU hV) vc _ s2 h2 I1

/-! ## the initial half-chains -/

theorem padded_chOK (P : Int → Int → Int → Prop) (id : Int) (hid : P id 0 0) (a b : Nat) (oids qnums : List Int)
    (hlen : qnums.length = oids.length + 1) (hh : qnums.head? = some 0) (hl : qnums.getLast? = some 0)
    (hc : chOK P oids qnums) :
    chOK P (replicate a id ++ oids ++ replicate b id ++ [id]) (replicate a 0 ++ qnums ++ replicate b 0 ++ [0]) := by
  have hne : qnums ≠ [] := by intro h0; rw [h0] at hh; simp at hh
  have hlast : qnums.getLast hne = 0 := by
    rw [getLast?_eq_some_getLast hne] at hl; exact Option.some.inj hl
  have hqa : qnums = qnums.dropLast ++ [0] := by
    rw [← hlast]; exact (dropLast_append_getLast hne).symm
  obtain ⟨qt, hqt⟩ : ∃ qt, qnums = 0 :: qt := by
    cases qnums with
    | nil => exact absurd rfl hne
    | cons q qt => simp at hh; subst hh; exact ⟨qt, rfl⟩
  have T1 : chOK P (replicate b id ++ [id]) (0 :: (replicate b 0 ++ [0])) := by
    have e1 : replicate b id ++ [id] = replicate (b + 1) id := by rw [replicate_succ']
    have e2 : (0 : Int) :: (replicate b 0 ++ [0]) = replicate (b + 1 + 1) 0 := by
      rw [replicate_succ (n := b + 1), replicate_succ']
    rw [e1, e2]
    exact chOK_replicate P id hid (b + 1)
  have T2 := chOK_append P oids qnums.dropLast (replicate b id ++ [id]) (replicate b 0 ++ [0]) 0
    (by rw [← hqa]; exact hc) (by rw [length_dropLast, hlen]; omega) T1
  have e3 : qnums.dropLast ++ 0 :: (replicate b 0 ++ [0]) = 0 :: (qt ++ (replicate b 0 ++ [0])) := by
    have : qnums.dropLast ++ 0 :: (replicate b 0 ++ [0]) = (qnums.dropLast ++ [0]) ++ (replicate b 0 ++ [0]) := by simp
    rw [this, ← hqa, hqt]; rfl
  rw [e3] at T2
  have T3 : chOK P (replicate a id) (replicate a 0 ++ [0]) := by
    rw [← replicate_succ']
    exact chOK_replicate P id hid a
  have T4 := chOK_append P (replicate a id) (replicate a 0) _ _ 0 T3 (by simp) T2
  have e4 : replicate a (0 : Int) ++ 0 :: (qt ++ (replicate b 0 ++ [0])) = replicate a 0 ++ qnums ++ replicate b 0 ++ [0] := by
    rw [hqt]; simp
  rw [e4] at T4
  simpa [append_assoc] using T4

/-! ## the whole construction -/

theorem nq_dErase (nodes : List (Int × Node)) (k x : Int) (h : x ≠ k) : nq (dErase nodes k) x = nq nodes x := by
  unfold nq dGet?
  rw [lookup_dErase_ne nodes k x h]

/-- **The graph built by `from_opchains` from charge-compatible chains is charge compatible**: every edge connects two
existing nodes whose quantum numbers `q0`, `q1` satisfy `P oid q0 q1` for every operator id on the edge. -/
theorem fromOpchains_charged (P : Int → Int → Int → Prop) (chains : List (OpChain κ)) (L id : Int) (g : Graph κ)
    (h : fromOpchains chains L id = .ok g) (hid : P id 0 0)
    (hch : ∀ c ∈ chains, c.coeff ≠ 0 → c.qnums.length = c.oids.length + 1 ∧ c.qnums.head? = some 0 ∧
      c.qnums.getLast? = some 0 ∧ chOK P c.oids c.qnums) :
    ∀ p ∈ g.edges, EOK P g.nodes p.2 := by
  unfold fromOpchains at h
  by_cases hemp : chains.isEmpty = true
  · simp [hemp, throw, throwThe, MonadExceptOf.throw, bind, Except.bind] at h
  · simp only [hemp, Bool.false_eq_true, if_false] at h
    simp only [bind_ok_iff, nodeMk'_ok_iff, pyAssert_ok_iff, pyIdx_ok_iff] at h
    obtain ⟨ns, ⟨_, _, rfl⟩, nd, ⟨_, _, rfl⟩, gr, hgr, pch, hpch, vl0, hvl0, s, hfold, _, hlen, last, hlast, c0, hc0, h⟩ := h
    rw [graph0_mk] at hgr
    cases hgr
    have hpch' : pch = (chains.filter (fun c => c.coeff != 0)).map (padF L id) :=
      mapM_ok_eq_map _ _ _ _ (fun c _ c' hc' => (padded_ok L id c c' hc').1) hpch
    have hvl0' : vl0 = pch.map (fun c => (⟨c.oids ++ [id], c.qnums ++ [0], 0⟩ : HalfChain)) :=
      mapM_ok_eq_map _ _ _ _ (fun c _ v hv => ((halfChain_mk'_ok_iff _ _ _ _).1 hv).2) hvl0
    subst hvl0'
    -- the invariant before the sweep
    have hC0 : CInv P (⟨graph0, 1, 0, pch.map (fun c => (⟨c.oids ++ [id], c.qnums ++ [0], 0⟩ : HalfChain)),
        pch.map (·.coeff), []⟩ : ChState κ) := by
      refine ⟨le_refl _, ?_, by simp [edgeList, graph0]⟩
      intro h' hh'
      obtain ⟨c', hc', rfl⟩ := mem_map.1 hh'
      rw [hpch'] at hc'
      obtain ⟨c, hc, rfl⟩ := mem_map.1 hc'
      obtain ⟨hcm, hcn⟩ := mem_filter.1 hc
      obtain ⟨h1, h2, h3, h4⟩ := hch c hcm (by simpa using hcn)
      refine ⟨le_refl _, ?_⟩
      simp only [padF, OpChain.paddedWord, pyRepeat]
      exact padded_chOK P id hid _ _ c.oids c.qnums h1 h2 h3 h4
    have hC : CInv P s := foldlM_preserve (fun s _ => siteStep s) (CInv P)
      (fun _ t t' hI ht => siteStep_charged P t t' ht hI) _ _ s hfold hC0
    -- the final steps
    have hfinal : ∀ (gA : Graph κ) (nd : Node) (g' : Graph κ), gA.nodes = s.graph.nodes →
        (∀ e ∈ edgeList gA, EOK P s.graph.nodes e) →
        (gA.setTerm true last.nidl).removeNode (-1) = .ok (nd, g') → ∀ p ∈ g'.edges, EOK P g'.nodes p.2 := by
      intro gA nd g' hn he hrem p hp
      have hg' := removeNode_setTerm _ _ _ _ hrem
      rw [hg'] at hp ⊢
      simp only at hp ⊢
      have := he p.2 (mem_map_of_mem hp)
      rw [hn]
      obtain ⟨a1, a2, a3⟩ := this
      refine ⟨a1, a2, ?_⟩
      intro oc hoc
      obtain ⟨q0, q1, b1, b2, b3⟩ := a3 oc hoc
      exact ⟨q0, q1, by rw [nq_dErase _ _ _ a1]; exact b1, by rw [nq_dErase _ _ _ a2]; exact b2, b3⟩
    by_cases hc1 : c0 = 1
    · have hb : (c0 != 1) = false := by simp [hc1]
      simp only [hb, Bool.false_eq_true, if_false, bind_ok_iff, pure_ok_iff, pyAssert_ok_iff] at h
      obtain ⟨gA, rfl, ⟨nd, g'⟩, hrem, _, _, rfl⟩ := h
      exact hfinal _ nd _ rfl hC.ed hrem
    · have hb : (c0 != 1) = true := by simpa using hc1
      simp only [hb, if_true, bind_ok_iff, pure_ok_iff, pyAssert_ok_iff, getNode_ok_iff] at h
      obtain ⟨nodeEnd, _, gA, hfoldA, ⟨nd, g'⟩, hrem, _, _, rfl⟩ := h
      have hA := foldlM_preserve (fun (g : Graph κ) eid =>
          g.modifyEdge eid (fun e => pure { e with opics := e.opics.map (fun p => (p.1, p.2 * c0)) }))
        (fun g => g.nodes = s.graph.nodes ∧ ∀ e ∈ edgeList g, EOK P s.graph.nodes e) (by
          intro eid g1 g2 hI hg
          obtain ⟨e, he, e', he', rfl⟩ := (modifyEdge_ok_iff _ _ _ _).1 hg
          simp only [pure_ok_iff] at he'
          subst he'
          refine ⟨hI.1, ?_⟩
          intro e'' he''
          obtain ⟨p, hp, rfl⟩ := mem_map.1 he''
          rcases mem_dReplace _ _ _ _ hp with hp | hp
          · exact hI.2 _ (mem_map_of_mem hp)
          · rw [hp]
            obtain ⟨a1, a2, a3⟩ := hI.2 e (mem_map_of_mem (mem_of_dGet? he))
            refine ⟨a1, a2, ?_⟩
            intro oc hoc
            simp only [mem_map] at hoc
            obtain ⟨oc0, hoc0, rfl⟩ := hoc
            exact a3 oc0 hoc0) nodeEnd.eidsIn s.graph gA hfoldA ⟨rfl, hC.ed⟩
      exact hfinal gA nd _ hA.1 hA.2 hrem

/-- `OpsCharged` of the result of `from_opchains` -/
theorem fromOpchains_opsCharged (qd : List Int) (opmap : OpMap κ) (chains : List (OpChain κ)) (L id : Int) (g : Graph κ)
    (h : fromOpchains chains L id = .ok g) (hid : TableCharged qd 0 (opmap.lookup id))
    (hch : ∀ c ∈ chains, c.coeff ≠ 0 → c.qnums.length = c.oids.length + 1 ∧ c.qnums.head? = some 0 ∧
      c.qnums.getLast? = some 0 ∧
      ∀ k, k < c.oids.length → TableCharged qd (c.qnums.getD k 0 - c.qnums.getD (k + 1) 0) (opmap.lookup (c.oids.getD k 0))) :
    OpsCharged qd g opmap := by
  have := fromOpchains_charged (fun o q0 q1 => TableCharged qd (q0 - q1) (opmap.lookup o)) chains L id g h
    (by simpa using hid)
    (fun c hc hc0 => by
      obtain ⟨h1, h2, h3, h4⟩ := hch c hc hc0
      exact ⟨h1, h2, h3, chOK_of_index _ _ _ h4⟩)
  intro p hp oc hoc
  obtain ⟨_, _, h3⟩ := this p hp
  obtain ⟨q0, q1, b1, b2, b3⟩ := h3 oc hoc
  have e1 : qOf g p.2.nids.1 = q0 := by
    unfold qOf; unfold nq at b1; rw [b1]; rfl
  have e2 : qOf g p.2.nids.2 = q1 := by
    unfold qOf; unfold nq at b2; rw [b2]; rfl
  rw [e1, e2]
  exact b3

/-! ## the guard on chain lists and the whole pipeline -/

/-- **charge-consistent chain list**: the identity has a `d × d` table of charge 0, and every operator of every chain with
non-zero coefficient has a `d × d` table whose non-zero entries `[s, t]` satisfy `qd[s] - qd[t] + qnums[k] - qnums[k+1] = 0`
at its position `k` -/
def ChainsCharged (qd : List Int) (opmap : OpMap κ) (id : Int) (chains : List (OpChain κ)) : Prop :=
  TableCharged qd 0 (opmap.lookup id) ∧
  ∀ c ∈ chains, c.coeff ≠ 0 → ∀ k, k < c.oids.length →
    TableCharged qd (c.qnums.getD k 0 - c.qnums.getD (k + 1) 0) (opmap.lookup (c.oids.getD k 0))

instance (qd : List Int) (opmap : OpMap κ) (id : Int) (chains : List (OpChain κ)) :
    Decidable (ChainsCharged qd opmap id chains) := by unfold ChainsCharged; infer_instance

/-- for a well-formed charge-consistent chain list, the graph returned by `from_opchains` satisfies `OpsCharged` -/
theorem fromOpchains_opsCharged_wf (qd : List Int) (opmap : OpMap κ) (chains : List (OpChain κ)) (L id : Int) (g : Graph κ)
    (h : fromOpchains chains L id = .ok g) (hwf : ChainsWF chains L) (hcc : ChainsCharged qd opmap id chains) :
    OpsCharged qd g opmap :=
  fromOpchains_opsCharged qd opmap chains L id g h hcc.1 (fun c hc hc0 => by
    obtain ⟨_, _, h3, h4, h5⟩ := hwf.2.2 c hc hc0
    exact ⟨h3, h4, h5, hcc.2 c hc hc0⟩)

/-- **`MPO.from_opgraph(qd, OpGraph.from_opchains(chains, L, id), opmap)` returns** for every well-formed,
charge-consistent chain list and `d ≥ 1` -/
theorem chains_pipeline_total (qd : List Int) (opmap : OpMap κ) (chains : List (OpChain κ)) (L id : Int) (on : Bool)
    (hwf : ChainsWF chains L) (hd : 1 ≤ qd.length) (hcc : ChainsCharged qd opmap id chains) :
    ∃ g out, fromOpchains chains L id = .ok g ∧ fromOpgraph qd g opmap on = .ok out ∧ OpsCharged qd g opmap := by
  obtain ⟨g1, _, _, _, t, hg, _⟩ := fromOpchains_result chains L id hwf
  have hc := fromOpchains_consistent chains L id _ hg
  have hch := fromOpchains_opsCharged_wf qd opmap chains L id _ hg hwf hcc
  obtain ⟨out, hout⟩ := fromOpgraph_total qd _ opmap on hc hd hch
  exact ⟨_, out, hg, hout, hch⟩

end Ptn.Ch
